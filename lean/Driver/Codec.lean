import Lean.Data.Json
import Cirbo.Basic
import Cirbo.Model.Dict
/-! JSON <-> model types for the line protocol. -/
open Lean Cirbo

namespace Driver

def strs (j : Json) : Except String (List String) := do
  let a ← j.getArr?
  a.toList.mapM (·.getStr?)

def parseV3 (s : String) : Except String V3 :=
  match s with
  | "F" => .ok .F | "T" => .ok .T | "U" => .ok .U
  | _ => .error s!"bad V3 {s}"

def parseGate (j : Json) : Except String Gate := do
  let a ← j.getArr?
  if a.size != 3 then throw "gate: expected [label, type, ops]"
  let l ← a[0]!.getStr?
  let t ← a[1]!.getStr?
  let ops ← strs a[2]!
  match GateType.ofName? t with
  | none => throw s!"unknown gate type {t}"
  | some ty => pure ⟨l, ty, ops⟩

def parseBlock (j : Json) : Except String Block := do
  let a ← j.getArr?
  if a.size != 4 then throw "block: expected [name, inputs, gates, outputs]"
  pure ⟨← a[0]!.getStr?, ← strs a[1]!, ← strs a[2]!, ← strs a[3]!⟩

def optArr (j : Json) (k : String) : Array Json :=
  match j.getObjVal? k with
  | .ok v => (v.getArr?.toOption).getD #[]
  | .error _ => #[]

def parseCircuit (j : Json) : Except String Circuit := do
  let gates ← (← (← j.getObjVal? "gates").getArr?).toList.mapM parseGate
  let inputs ← strs (← j.getObjVal? "inputs")
  let outputs ← strs (← j.getObjVal? "outputs")
  let users ← (optArr j "users").toList.mapM (fun u => do
    let a ← u.getArr?
    if a.size != 2 then throw "users: expected [label, [users]]"
    pure (← a[0]!.getStr?, ← strs a[1]!))
  let blocks ← (optArr j "blocks").toList.mapM parseBlock
  pure ⟨gates, inputs, outputs, users, blocks⟩

def parseAsg (j : Json) : Except String (Dict V3) := do
  (← j.getArr?).toList.mapM (fun p => do
    let a ← p.getArr?
    if a.size != 2 then throw "asg: expected [label, value]"
    pure (← a[0]!.getStr?, ← parseV3 (← a[1]!.getStr?)))

def jStrs (l : List String) : Json := Json.arr (l.map Json.str).toArray
def jV3 (v : V3) : Json := Json.str v.toStr
def jAsg (d : Dict V3) : Json := Json.arr (d.map (fun p => Json.arr #[Json.str p.1, jV3 p.2])).toArray

def jGate (g : Gate) : Json := Json.arr #[Json.str g.label, Json.str g.ty.name, jStrs g.ops]
def jBlock (b : Block) : Json := Json.arr #[Json.str b.name, jStrs b.inputs, jStrs b.gates, jStrs b.outputs]
def jCircuit (c : Circuit) : Json := Json.mkObj [
  ("gates", Json.arr (c.gates.map jGate).toArray),
  ("inputs", jStrs c.inputs),
  ("outputs", jStrs c.outputs),
  ("users", Json.arr (c.users.map (fun p => Json.arr #[Json.str p.1, jStrs p.2])).toArray),
  ("blocks", Json.arr (c.blocks.map jBlock).toArray)]

def ok (j : Json) : Json := Json.mkObj [("ok", j)]
def err (e : String) : Json := Json.mkObj [("err", Json.str e)]

def ofExcept {α} (f : α → Json) : Except String α → Json
  | .ok a => ok (f a)
  | .error e => err e

end Driver
