import Driver.Codec
import Cirbo.Model.Wrappers
import Cirbo.Model.Mutate2
/-! history executor for the line protocol: a list of mutator calls applied in sequence -/
open Lean Cirbo Driver

namespace Driver

def optStrs (j : Json) : Except String (Option (List String)) :=
  match j with
  | Json.null => pure none
  | _ => do pure (some (← strs j))

def pairs (j : Json) : Except String (List (String × String)) := do
  (← j.getArr?).toList.mapM (fun p => do
    let a ← strs p
    pure (a.getD 0 "", a.getD 1 ""))

/-- apply one step; state = (circuit, uuid counter) -/
def applyStep (c : Circuit) (ctr : Nat) (step : Json) : Except String (Except String (Circuit × Nat)) := do
  let a ← step.getArr?
  let name ← a[0]!.getStr?
  let lift : R Circuit → Except String (Circuit × Nat) := fun r => match r with
    | .ok c' => .ok (c', ctr)
    | .error e => .error e
  match name with
  | "add_gate" => do
    match GateType.ofName? (← a[2]!.getStr?) with
    | none => throw "bad gate type"
    | some ty => pure (lift (c.addGate ⟨← a[1]!.getStr?, ty, ← strs a[3]!⟩))
  | "remove_gate" => pure (lift (c.removeGate (← a[1]!.getStr?)))
  | "rename_gate" => pure (lift (c.renameGate (← a[1]!.getStr?) (← a[2]!.getStr?)))
  | "mark_as_output" => pure (lift (c.markAsOutput (← a[1]!.getStr?)))
  | "set_outputs" => pure (lift (c.setOutputs (← strs a[1]!)))
  | "set_inputs" => pure (lift (c.setInputs (← strs a[1]!)))
  | "add_inputs" => pure (lift (c.addInputs (← strs a[1]!)))
  | "order_inputs" => pure (lift (c.orderInputs (← strs a[1]!)))
  | "order_outputs" => pure (lift (c.orderOutputs (← strs a[1]!)))
  | "replace_inputs" => pure (lift (c.replaceInputs (← strs a[1]!) (← strs a[2]!)))
  | "make_block" => pure (lift (c.makeBlock (← a[1]!.getStr?) (← strs a[2]!) (← strs a[3]!) (← optStrs a[4]!)))
  | "make_block_from_slice" => pure (lift (c.makeBlockFromSlice (← a[1]!.getStr?) (← strs a[2]!) (← strs a[3]!)))
  | "delete_block" => pure (lift (c.deleteBlock (← a[1]!.getStr?)))
  | "remove_block" => pure (lift (c.removeBlock (← a[1]!.getStr?)))
  | "into_bench" => pure (c.intoBench ctr)
  | "copy" => pure (lift c.copy)
  | "connect" => do
    let other ← parseCircuit a[1]!
    pure (lift (c.connectCircuit other (← strs a[2]!) (← strs a[3]!) (← a[4]!.getBool?) (← a[5]!.getStr?) (← a[6]!.getBool?)))
  | "wrap" => do
    let which ← a[1]!.getStr?
    let other ← parseCircuit a[2]!
    let name ← a[6]!.getStr?
    let addP ← a[7]!.getBool?
    match which with
    | "connect_left" => pure (lift (c.connectLeft other (← strs a[3]!) name addP))
    | "connect_right" => pure (lift (c.connectRight other (← strs a[4]!) name addP))
    | "connect_inputs" => pure (lift (c.connectInputs other name addP))
    | "extend" => pure (lift (c.extendCircuit other (← optStrs a[3]!) (← optStrs a[4]!) (← a[5]!.getBool?) name addP))
    | "add" => pure (lift (c.addCircuit other name addP))
    | _ => throw s!"unknown wrapper {which}"
  | "into_circuit" => pure (lift (c.blockIntoCircuit (← a[1]!.getStr?)))
  | "replace_subcircuit" => do
    let sub ← parseCircuit a[1]!
    pure (c.replaceSubcircuit sub (← pairs a[2]!) (← pairs a[3]!) ctr)
  | _ => throw s!"unknown step {name}"

def runSteps (c : Circuit) (steps : List Json) : Except String (List Json) := do
  let mut cur := c
  let mut ctr := 0
  let mut out : List Json := []
  for s in steps do
    match ← applyStep cur ctr s with
    | .ok (c', k) =>
      cur := c'; ctr := k
      out := out ++ [jCircuit c']
    | .error e =>
      out := out ++ [err e]
      return out
  return out

end Driver
