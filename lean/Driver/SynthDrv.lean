import Driver.Codec
import Cirbo.Model.Synth
import Cirbo.Model.SynthCircuit
/-! `synth_encode` / `synth_decode` requests -/
open Lean Cirbo Driver Cirbo.Synth

namespace SynthDrv

def bit (c : Char) : Bool := c == '1'

def parseCon (j : Json) : Except String Con := do
  let a ← j.getArr?
  let tag ← a[0]!.getStr?
  match tag with
  | "fixBoth" => pure (.fixBoth (← a[1]!.getNat?) (← a[2]!.getNat?) (← a[3]!.getNat?))
  | "fixOne" => pure (.fixOne (← a[1]!.getNat?) (← a[2]!.getNat?))
  | "fixType" => do
    let s := (← a[2]!.getStr?).toList
    pure (.fixType (← a[1]!.getNat?) (bit (s.getD 0 '0')) (bit (s.getD 1 '0')) (bit (s.getD 2 '0')) (bit (s.getD 3 '0')))
  | "forbidWire" => pure (.forbidWire (← a[1]!.getNat?) (← a[2]!.getNat?))
  | _ => throw "bad constraint"

def parseSpec (j : Json) : Except String Spec := do
  let n ← (← j.getObjVal? "n").getNat?
  let m ← (← j.getObjVal? "m").getNat?
  let N ← (← j.getObjVal? "N").getNat?
  let tbl ← strs (← j.getObjVal? "table")
  let basis ← strs (← j.getObjVal? "basis")
  let norm ← (← j.getObjVal? "normalized").getBool?
  let cons ← (← (← j.getObjVal? "cons").getArr?).toList.mapM parseCon
  let rowsOf : List (List Char) := tbl.map (·.toList)
  pure { n := n, m := m, N := N,
         table := fun h t => match (rowsOf.getD h []).getD t '*' with
           | '0' => some false | '1' => some true | _ => none,
         allowed := fun a b c d =>
           basis.contains (String.ofList [if a then '1' else '0', if b then '1' else '0', if c then '1' else '0', if d then '1' else '0']),
         normalized := norm, cons := cons }

def b01 (b : Bool) : String := if b then "1" else "0"

def varName : SVar → String
  | .s g a b => s!"s_{g}_{a}_{b}"
  | .o h g => s!"g_{h}_{g}"
  | .x g t => s!"x_{g}_{t}"
  | .f g p q => s!"f_{g}_{b01 p}_{b01 q}"

def jClause (c : Clause) : Json := Json.arr (c.map (fun l => Json.arr #[Json.str (varName l.1), Json.bool l.2])).toArray

def handle (op : String) (j : Json) : Except String Json := do
  let sp ← parseSpec (← j.getObjVal? "spec")
  match op with
  | "synth_encode" => pure (ok (Json.arr ((encode sp).map jClause).toArray))
  | "synth_decode" => do
    let trues ← strs (← j.getObjVal? "true_vars")
    let σ : SVar → Bool := fun v => trues.contains (varName v)
    let sol := decode sp σ
    let gs := internal sp
    pure (ok (Json.mkObj [
      ("preds", Json.arr (gs.map (fun g => Json.arr #[Json.num (sol.pred g).1, Json.num (sol.pred g).2])).toArray),
      ("ops", Json.arr (gs.map (fun g => Json.str (b01 (sol.op g false false) ++ b01 (sol.op g false true) ++
        b01 (sol.op g true false) ++ b01 (sol.op g true true)))).toArray),
      ("outs", Json.arr ((List.range sp.m).map (fun h => Json.num (sol.out h))).toArray)]))
  | "synth_circuit" => do
    let trues ← strs (← j.getObjVal? "true_vars")
    let σ : SVar → Bool := fun v => trues.contains (varName v)
    pure (ofExcept jCircuit (solToCircuit sp (decode sp σ)))
  | _ => throw "bad synth op"

end SynthDrv
