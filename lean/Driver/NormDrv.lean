import Driver.Codec
import Cirbo.Model.Norm
import Cirbo.Model.DbLookup
import Cirbo.Model.Codec
import Cirbo.Model.Checkers
/-! `normalize` / `denormalize` / `db_entry` requests -/
open Lean Cirbo Driver Cirbo.Norm

namespace NormDrv

def parseRows (j : Json) : Except String (List Row) := do
  (← strs j).mapM (fun s => pure (s.toList.map (· == '1')))

def jRow (r : Row) : Json := Json.str (String.ofList (r.map (fun b => if b then '1' else '0')))
def jNats (l : List Nat) : Json := Json.arr (l.map (fun (n : Nat) => (Json.num (n : JsonNumber)))).toArray

def parseModel (j : Json) : Except String (List (List TEntry)) := do
  (← strs j).mapM (fun s => pure (s.toList.map (fun ch => if ch == '*' then none else some (ch == '1'))))

/-- the sizes found per completion (`null` = not stored), in the order of the completions -/
def parseFound (j : Json) : Except String (List (Option Nat)) := do
  (← j.getArr?).toList.mapM (fun x => match x with
    | Json.null => pure none
    | _ => do pure (some (← x.getNat?)))

def jInfo (i : Info) : Json := Json.mkObj [
  ("negations", Json.arr (i.negations.map Json.bool).toArray), ("permutation", jNats i.permutation),
  ("mapping", jNats i.mapping), ("table", Json.arr (i.table.map jRow).toArray), ("label", Json.str (label i.table))]

def parseInfo (j : Json) : Except String Info := do
  let negs ← (← (← j.getObjVal? "negations").getArr?).toList.mapM (·.getBool?)
  let perm ← (← (← j.getObjVal? "permutation").getArr?).toList.mapM (·.getNat?)
  let mp ← (← (← j.getObjVal? "mapping").getArr?).toList.mapM (·.getNat?)
  pure { negations := negs, permutation := perm, mapping := mp, table := [] }

def handle (op : String) (j : Json) : Except String Json := do
  match op with
  | "normalize" => pure (ofExcept jInfo (normalize (← parseRows (← j.getObjVal? "tt"))))
  | "denormalize" => do
    let c ← parseCircuit (← j.getObjVal? "c")
    pure (ofExcept jCircuit (denormalizeCircuit (← parseInfo (← j.getObjVal? "info")) c))
  | "denorm_rows" => do
    let info ← parseInfo (← j.getObjVal? "info")
    pure (ofExcept (fun rs => Json.arr (rs.map jRow).toArray) (denormRows info (← parseRows (← j.getObjVal? "stored"))))
  | "completions" => do
    let m ← parseModel (← j.getObjVal? "tt")
    pure (Json.mkObj [("ok", Json.arr ((completions m).map (fun t => Json.arr (t.map jRow).toArray)).toArray)])
  | "lookup_dc" => do
    let m ← parseModel (← j.getObjVal? "tt")
    let found ← parseFound (← j.getObjVal? "found")
    let comps := completions m
    -- the stored "circuit" of the k-th completion is k itself, its size is the size the code reported
    let lookup : List Row → Option Nat := fun t =>
      let k := comps.idxOf t
      match found.getD k none with
      | some _ => some k
      | none => none
    let size : Nat → Nat := fun k => (found.getD k none).getD 0
    pure (Json.mkObj [("ok", match lookupDC lookup size m with
      | some k => (Json.num (k : JsonNumber))
      | none => Json.null)])
  | _ => throw "bad norm op"

end NormDrv
