import Driver.Codec
import Cirbo.Model.Norm
import Cirbo.Model.Codec
import Cirbo.Model.Checkers
/-! `normalize` / `denormalize` / `db_entry` requests -/
open Lean Cirbo Driver Cirbo.Norm

namespace NormDrv

def parseRows (j : Json) : Except String (List Row) := do
  (← strs j).mapM (fun s => pure (s.toList.map (· == '1')))

def jRow (r : Row) : Json := Json.str (String.ofList (r.map (fun b => if b then '1' else '0')))
def jNats (l : List Nat) : Json := Json.arr (l.map (fun (n : Nat) => (Json.num (n : JsonNumber)))).toArray

def jInfo (i : Info) : Json := Json.mkObj [
  ("negations", Json.arr (i.negations.map Json.bool).toArray), ("permutation", jNats i.permutation),
  ("mapping", jNats i.mapping), ("table", Json.arr (i.table.map jRow).toArray), ("label", Json.str (label i.table))]

def parseInfo (j : Json) : Except String Info := do
  let negs ← (← (← j.getObjVal? "negations").getArr?).toList.mapM (·.getBool?)
  let perm ← (← (← j.getObjVal? "permutation").getArr?).toList.mapM (·.getNat?)
  let mp ← (← (← j.getObjVal? "mapping").getArr?).toList.mapM (·.getNat?)
  pure { negations := negs, permutation := perm, mapping := mp, table := [] }

def handle (op : String) (j : Json) : Except String Json := do
  match op with
  | "normalize" => pure (ofExcept jInfo (normalize (← parseRows (← j.getObjVal? "tt"))))
  | "denormalize" => do
    let c ← parseCircuit (← j.getObjVal? "c")
    pure (ofExcept jCircuit (denormalizeCircuit (← parseInfo (← j.getObjVal? "info")) c))
  | "denorm_rows" => do
    let info ← parseInfo (← j.getObjVal? "info")
    pure (ofExcept (fun rs => Json.arr (rs.map jRow).toArray) (denormRows info (← parseRows (← j.getObjVal? "stored"))))
  | _ => throw "bad norm op"

end NormDrv
