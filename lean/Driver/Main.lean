import Driver.Codec
import Cirbo.Model.Eval
import Cirbo.Model.Checkers
import Cirbo.Model.Traverse
import Cirbo.Model.Tseytin
import Cirbo.Model.Codec
import Cirbo.Model.Func
import Cirbo.Model.Bench
import Driver.Steps
import Cirbo.Model.Miter
import Cirbo.Model.Passes
import Driver.Gens
import Driver.SynthDrv
import Driver.NormDrv
import Cirbo.Model.Pattern
import Cirbo.Model.ConeTable
/-! `cirbo_model`: one JSON request per input line, one JSON response per output line. -/
open Lean Cirbo Driver

def getCircuit (j : Json) (k : String := "c") : Except String Circuit := do
  parseCircuit (← j.getObjVal? k)

def getAsg (j : Json) (k : String := "asg") : Except String (Dict V3) := do
  parseAsg (← j.getObjVal? k)

def jEv : Ev → Json
  | .enter l => Json.arr #[Json.str "enter", Json.str l]
  | .discover l s => Json.arr #[Json.str "discover", Json.str l, Json.str s.toStr]
  | .exit l => Json.arr #[Json.str "exit", Json.str l]
  | .yield l => Json.arr #[Json.str "yield", Json.str l]
  | .unvisited l => Json.arr #[Json.str "unvisited", Json.str l]
  | .done => Json.arr #[Json.str "end"]

def nats (j : Json) : Except String (List Nat) := do
  (← j.getArr?).toList.mapM (·.getNat?)
def jNats (l : List Nat) : Json := Json.arr (l.map (fun n => Json.num (Lean.JsonNumber.fromNat n))).toArray
def ofOpt {α} (f : α → Json) (e : String) : Option α → Json
  | some a => ok (f a)
  | none => err e

def jB (b : Bool) : Json := Json.bool b
def jBs (l : List Bool) : Json := Json.str (String.join (l.map (fun b => if b then "1" else "0")))
def parseBits (s : String) : List Bool := s.toList.map (· == '1')

/-- all protocol answers of a representation, with the implementation variants of `kind` -/
def funcQueries (F : FRep) (kind : String) (negSets : List (List Nat)) : Json :=
  let outs := List.range F.m
  let ins := List.range F.n
  let monoAt := fun o inv => if kind == "circuit" then F.isMonotoneAtC o inv else F.isMonotoneAtP o inv
  let mono := fun inv => if kind == "circuit" then F.isMonotoneC inv
    else if kind == "table" then F.isMonotoneT inv else F.isMonotoneP inv
  let eq := fun o i => if kind == "table" then F.equalInputT o i false else F.equalInput o i
  let eqn := fun o i => if kind == "table" then F.equalInputT o i true else F.equalInputNeg o i
  Json.mkObj [
    ("const", jB F.isConstant),
    ("const_at", Json.arr (outs.map (fun o => jB (F.isConstantAt o))).toArray),
    ("mono", Json.arr #[jB (mono false), jB (mono true)]),
    ("mono_at", Json.arr (outs.map (fun o => Json.arr #[jB (monoAt o false), jB (monoAt o true)])).toArray),
    ("sym", jB F.isSymmetric),
    ("sym_at", Json.arr (outs.map (fun o => jB (F.isSymmetricAt o))).toArray),
    ("dep", Json.arr (outs.map (fun o => jBs (ins.map (fun i => F.isDependent o i)))).toArray),
    ("eq", Json.arr (outs.map (fun o => jBs (ins.map (fun i => eq o i)))).toArray),
    ("eqn", Json.arr (outs.map (fun o => jBs (ins.map (fun i => eqn o i)))).toArray),
    ("sig", Json.arr (outs.map (fun o => jNats (F.significant o))).toArray),
    ("neg", Json.arr (negSets.map (fun s => match F.findNegations s with
      | none => Json.null
      | some n => jBs n)).toArray),
    ("tt", Json.arr (F.truthTable.map jBs).toArray)]

/-- pipeline spec: "RRG" | "RRG+" | "MUO" | "MDG" | "MEG" | ["or", a, b] | ["comp", [..]] -/
partial def parseTr (j : Json) : Except String Tr :=
  match j with
  | Json.str "RRG" => pure (.rrg false)
  | Json.str "RRG+" => pure (.rrg true)
  | Json.str "MUO" => pure .muo
  | Json.str "MDG" => pure .mdg
  | Json.str "MEG" => pure .meg
  | Json.arr a =>
    match a[0]? with
    | some (Json.str "or") => do pure (Tr.or (← parseTr a[1]!) (← parseTr a[2]!))
    | some (Json.str "comp") => do
      let ts ← (← a[1]!.getArr?).toList.mapM parseTr
      pure (.comp ts)
    | _ => throw "bad transformer spec"
  | _ => throw "bad transformer spec"

def handle (j : Json) : Except String Json := do
  let op ← (← j.getObjVal? "op").getStr?
  match op with
  | "ping" => pure (ok (Json.str "pong"))
  | "eval_full" => do
    let c ← getCircuit j; let a ← getAsg j
    pure (ofExcept jAsg (evalFull c a))
  | "eval_lazy" => do
    let c ← getCircuit j; let a ← getAsg j
    let outs := match j.getObjVal? "outs" with
      | .ok (Json.arr xs) => some (xs.toList.filterMap (fun x => x.getStr?.toOption))
      | _ => none
    pure (ofExcept jAsg (evalLazy c a outs))
  | "eval_outputs" => do
    let c ← getCircuit j; let a ← getAsg j
    pure (ofExcept jAsg (evalOutputs c a))
  | "evaluate" => do
    let c ← getCircuit j
    let vals ← (← strs (← j.getObjVal? "vals")).mapM parseV3
    pure (ofExcept (fun r => Json.arr (r.map jV3).toArray) (evaluate c vals))
  | "evaluate_at" => do
    let c ← getCircuit j
    let vals ← (← strs (← j.getObjVal? "vals")).mapM parseV3
    let idx ← (← j.getObjVal? "idx").getNat?
    pure (ofExcept jV3 (evaluateAt c vals idx))
  | "truth_table" => do
    let c ← getCircuit j
    pure (ofExcept (fun t => Json.arr (t.map (fun r => Json.str (String.join (r.map V3.toStr)))).toArray)
      (truthTable c))
  | "gates_tt" => do
    let c ← getCircuit j
    pure (ofExcept (fun d => Json.arr (d.map (fun p =>
      Json.arr #[Json.str p.1, Json.str (String.join (p.2.map V3.toStr))])).toArray) (gatesTruthTable c))
  | "top_sort" => do
    let c ← getCircuit j
    let inv ← (← j.getObjVal? "inverse").getBool?
    match c.topSort inv with
    | .ok o => pure (ok (jStrs o))
    | .cyclic => pure (err "CircuitIsCyclicalError")
  | "check_valb" => do
    -- verified checker: is `v` the Boolean denotation of `c` under total assignment `asg`?
    let c ← getCircuit j; let a ← getAsg j; let v ← getAsg j "v"
    pure (ok (Json.bool (checkValB c a v)))
  | "traverse" => do
    let c ← getCircuit j
    let bfs ← (← j.getObjVal? "bfs").getBool?
    let inv ← (← j.getObjVal? "inverse").getBool?
    let tsu ← (← j.getObjVal? "topsort_unvisited").getBool?
    let start := match j.getObjVal? "start" with
      | .ok (Json.arr xs) => some (xs.toList.filterMap (fun x => x.getStr?.toOption))
      | _ => none
    pure (ofExcept (fun log => Json.arr (log.map jEv).toArray) (traverse c bfs inv start tsu))
  | "cycle_check" => do
    let c ← getCircuit j
    -- `check_circuit_has_no_cycles(circuit, start_gates=...)`: the optional start set
    let start := match j.getObjVal? "start" with
      | .ok (Json.arr xs) => some (xs.toList.filterMap (fun x => x.getStr?.toOption))
      | _ => none
    pure (ofExcept Json.bool (hasCycleCheckFrom c start))
  | "tseytin" => do
    let c ← getCircuit j
    let outs := match j.getObjVal? "outs" with
      | .ok (Json.arr xs) => some (xs.toList.filterMap (fun x => x.getNat?.toOption))
      | _ => none
    pure (ofExcept (fun r => Json.mkObj [
      ("cnf", Json.arr (r.1.map (fun cl => Json.arr (cl.map (fun l => Json.num (Lean.JsonNumber.fromInt l))).toArray)).toArray),
      ("lits", Json.arr (r.2.map (fun p => Json.arr #[Json.str p.1, Json.num (Lean.JsonNumber.fromInt (Int.ofNat p.2))])).toArray)])
      (tseytin c outs))
  | "encode" => do
    let c ← getCircuit j
    pure (ofExcept jNats (encodeCircuit c))
  | "decode" => do
    let bs ← nats (← j.getObjVal? "bytes")
    pure (ofExcept jCircuit (decodeCircuit bs))
  | "bit_write" => do
    -- writes: [[k, w], ...] -> bytes
    let ws ← (← (← j.getObjVal? "writes").getArr?).toList.mapM (fun p => do
      let a ← nats p
      pure (a.getD 0 0, a.getD 1 0))
    let r : W := ws.foldl (fun w p => wnum w p.1 p.2) (.ok [])
    pure (ofExcept (fun bits => jNats (packBytes bits)) r)
  | "bit_read" => do
    let bs ← nats (← j.getObjVal? "bytes")
    let widths ← nats (← j.getObjVal? "widths")
    let r : Except String (List Nat × Nat) := widths.foldl (fun acc w => match acc with
      | .error e => .error e
      | .ok (vals, pos) => match rnum bs pos w with
        | .error e => .error e
        | .ok (v, pos') => .ok (vals ++ [v], pos')) (.ok ([], 0))
    pure (ofExcept (fun r => jNats r.1) r)
  | "write_dict" => do
    let es ← (← (← j.getObjVal? "entries").getArr?).toList.mapM (fun p => do
      let a ← p.getArr?
      pure (← nats a[0]!, ← nats a[1]!))
    pure (ofOpt jNats "Py:OverflowError" (writeDict es))
  | "read_dict" => do
    let bs ← nats (← j.getObjVal? "bytes")
    pure (ofOpt (fun d => Json.arr (d.map (fun kv => Json.arr #[jNats kv.1, jNats kv.2])).toArray)
      "BinaryDictIOError" (readDict bs))
  | "func_queries" => do
    let kind ← (← j.getObjVal? "kind").getStr?
    let negSets ← (← (← j.getObjVal? "neg_sets").getArr?).toList.mapM nats
    if kind == "circuit" then do
      let c ← getCircuit j
      let F : FRep := ⟨c.inputs.length, c.outputs.length, fun x =>
        match evaluate c (x.map V3.ofBool) with
        | .ok vs => vs.map (· == V3.T)
        | .error _ => []⟩
      pure (ok (funcQueries F kind negSets))
    else do
      let n ← (← j.getObjVal? "n").getNat?
      let rows ← strs (← j.getObjVal? "table")
      pure (ok (funcQueries (FRep.ofTable n (rows.map parseBits)) kind negSets))
  | "index_to_input" => do
    let k ← (← j.getObjVal? "index").getNat?
    let size ← (← j.getObjVal? "size").getNat?
    pure (ok (jBs (FRep.indexToInput k size)))
  | "canonical_index" => do
    let x ← (← j.getObjVal? "x").getStr?
    pure (ok (Json.num (Lean.JsonNumber.fromNat (FRep.canonicalIndex (parseBits x)))))
  | "get_bit_value" => do
    let a ← nats (← j.getObjVal? "args")
    pure (ok (jB (FRep.getBitValue (a.getD 0 0) (a.getD 1 0) (a.getD 2 0))))
  | "define" => do
    -- rows: strings over 0/1/* (one per output); defn: [[bits, output_index, value], …] in dict order
    let rows ← strs (← j.getObjVal? "rows")
    let defn ← (← j.getObjVal? "defn").getArr?
    let model : List (List (Option Bool)) := rows.map (fun r => r.toList.map (fun ch =>
      if ch == '*' then none else some (ch == '1')))
    let items ← defn.toList.mapM (fun (d : Json) => do
      let a ← d.getArr?
      let bits ← a[0]!.getStr?
      let o ← a[1]!.getNat?
      let v ← a[2]!.getBool?
      pure ((parseBits bits, o), v))
    let res := FRep.defineTable model items
    pure (ok (Json.arr (res.map (fun r => Json.str (String.ofList (r.map (fun v =>
      match v with | none => '*' | some true => '1' | some false => '0'))))).toArray))
  | "from_int" => do
    -- values: table of the integer function (unary: f(i) = values[i]; binary: f(i,j) = values[i*2^len+j])
    let vals ← nats (← j.getObjVal? "values")
    let inLen ← (← j.getObjVal? "in_len").getNat?
    let outLen ← (← j.getObjVal? "out_len").getNat?
    let be ← (← j.getObjVal? "big_endian").getBool?
    let binary ← (← j.getObjVal? "binary").getBool?
    let F := if binary then FRep.fromIntBinary (fun a b => vals.getD (a * 2 ^ inLen + b) 0) inLen outLen be
             else FRep.fromIntUnary (fun a => vals.getD a 0) inLen outLen be
    pure (ok (Json.arr ((allInputs F.n).map (fun x => jBs (F.ev x))).toArray))
  | "format_circuit" => do
    let c ← getCircuit j
    pure (ok (Json.str (String.ofList (formatCircuit c))))
  | "parse_bench" => do
    let t ← (← j.getObjVal? "text").getStr?
    pure (ofExcept jCircuit (parseBench t.toList))
  | "mutate" => do
    let c ← getCircuit j
    let steps ← (← j.getObjVal? "steps").getArr?
    pure (ok (Json.arr (← runSteps c steps.toList).toArray))
  | "build_miter" => do
    let l ← getCircuit j "left"
    let r ← getCircuit j "right"
    let ln := match j.getObjVal? "left_name" with | .ok (Json.str s) => s | _ => "circuit1"
    let rn := match j.getObjVal? "right_name" with | .ok (Json.str s) => s | _ => "circuit2"
    pure (ofExcept jCircuit (buildMiter l r ln rn))
  | "passes" => do
    -- mode: "transform" (one transformer's .transform), "raw" (its _transform alone), "apply" (apply_transformers on a list), "cleanup"
    let c ← getCircuit j
    let mode ← (← j.getObjVal? "mode").getStr?
    match mode with
    | "transform" => do
      let t ← parseTr (← j.getObjVal? "t")
      pure (ofExcept jCircuit (applyTransformers c [t]))
    | "raw" => do
      let t ← parseTr (← j.getObjVal? "t")
      match t with
      | .comp ts => pure (ofExcept jCircuit (applyTransformers c [.comp ts]))
      | t => pure (ofExcept jCircuit (transform1 t c))
    | "apply" => do
      let ts ← (← (← j.getObjVal? "ts").getArr?).toList.mapM parseTr
      pure (ofExcept jCircuit (applyTransformers c ts))
    | "cleanup" => do
      let heavy ← (← j.getObjVal? "heavy").getBool?
      pure (ofExcept jCircuit (cleanup c heavy))
    | _ => throw "bad mode"
  | "gen" => GenDrv.genOp j
  | "pattern_inputs" => do
    let k ← (← j.getObjVal? "k").getNat?
    pure (ok (Json.arr ((Pattern.genInputsTT k).map (fun (n : Nat) => Json.num (n : JsonNumber))).toArray))
  | "pattern_eval" => do
    let k ← (← j.getObjVal? "k").getNat?
    let tyName ← (← j.getObjVal? "ty").getStr?
    let ops ← nats (← j.getObjVal? "ops")
    match GateType.ofName? tyName with
    | none => throw "bad type"
    | some ty => pure (ofExcept (fun (n : Nat) => Json.num (n : JsonNumber)) (Pattern.evalPattern k ty ops))
  | "cone_table" => do
    -- the cone simulation of `_get_subcircuits`, the strings of `_eval_dont_cares` and the table with don't-cares
    let c ← getCircuit j
    let leaves ← strs (← j.getObjVal? "leaves")
    let nodes ← strs (← j.getObjVal? "nodes")
    let outs ← strs (← j.getObjVal? "outs")
    match Cone.simulate c leaves nodes with
    | .error e => pure (err e)
    | .ok tt =>
      match gatesTruthTable c with
      | .error e => pure (err e)
      | .ok gtt =>
        let reach := Cone.inputsTT leaves.length (Cone.occOf gtt (2 ^ c.inputs.length) leaves.reverse)
        let tab := Cone.ttDC leaves.length (outs.map (Cone.ttGet tt)) reach
        pure (ok (Json.mkObj [
          ("patterns", Json.arr ((leaves ++ nodes).map (fun l =>
            Json.arr #[Json.str l, Json.num (Lean.JsonNumber.fromNat (Cone.ttGet tt l))])).toArray),
          ("reach", Json.arr (reach.map jBs).toArray),
          ("table", Json.arr (tab.map (fun row => Json.arr (row.map (fun e => match e with
            | none => Json.null
            | some b => Json.bool b)).toArray)).toArray)]))
  | "normalize" => NormDrv.handle op j
  | "denormalize" => NormDrv.handle op j
  | "denorm_rows" => NormDrv.handle op j
  | "completions" => NormDrv.handle op j
  | "lookup_dc" => NormDrv.handle op j
  | "synth_encode" => SynthDrv.handle op j
  | "synth_decode" => SynthDrv.handle op j
  | "synth_circuit" => SynthDrv.handle op j
  | "optable_issues" => pure (ok (jStrs opTableIssues))
  | "check_wf" => do
    let c ← getCircuit j
    pure (ok (Json.str (checkWFU c)))
  | _ => throw s!"unknown op {op}"

partial def loop (hin hout : IO.FS.Stream) : IO Unit := do
  let line ← hin.getLine
  if line.isEmpty then return ()
  let resp := match Json.parse line with
    | .error e => err s!"parse: {e}"
    | .ok j => match handle j with
      | .ok r => r
      | .error e => Json.mkObj [("bad", Json.str e)]
  hout.putStrLn resp.compress
  hout.flush
  loop hin hout

def main : IO Unit := do
  loop (← IO.getStdin) (← IO.getStdout)
