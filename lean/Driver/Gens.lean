import Driver.Codec
import Cirbo.Model.Gen
import Cirbo.Model.Gen2
import Cirbo.Model.Gen3
/-! `gen` requests: run one generator program on a host circuit with a pinned uuid counter. -/
open Lean Cirbo Driver

namespace GenDrv

def getStrs (j : Json) (k : String) : Except String (List String) := do strs (← j.getObjVal? k)
def getBool (j : Json) (k : String) (dflt : Bool := false) : Bool :=
  match j.getObjVal? k with | .ok (Json.bool b) => b | _ => dflt
def getNat (j : Json) (k : String) : Except String Nat := do (← j.getObjVal? k).getNat?

def getBasis (j : Json) : Except String BasisArg :=
  match j.getObjVal? "basis" with
  | .ok (Json.arr #[Json.str "enum", Json.str "XAIG"]) => pure (.enum .xaig)
  | .ok (Json.arr #[Json.str "enum", Json.str "AIG"]) => pure (.enum .aig)
  | .ok (Json.arr #[Json.str "str", Json.str s]) => pure (.str s)
  | .ok _ => throw "bad basis"
  | .error _ => pure (.enum .xaig)

def getWeighted (j : Json) (k : String) : Except String (List (Nat × Label)) := do
  (← (← j.getObjVal? k).getArr?).toList.mapM (fun p => do
    let a ← p.getArr?
    pure ((← a[0]!.getNat?), (← a[1]!.getStr?)))

def jWeighted (l : List (Nat × Label)) : Json :=
  Json.arr (l.map (fun p => Json.arr #[Json.num p.1, Json.str p.2])).toArray

def jLists (l : List (List Label)) : Json := Json.arr (l.map jStrs).toArray

def getOptStrs (j : Json) (k : String) : Except String (Option (List String)) :=
  match j.getObjVal? k with
  | .ok Json.null => pure none
  | .ok v => do pure (some (← strs v))
  | .error _ => pure none

def getOptStr (j : Json) (k : String) : Option String :=
  match j.getObjVal? k with
  | .ok (Json.str s) => some s
  | _ => none

def jPairLists (p : List Label × List Label) : Json := Json.arr #[jStrs p.1, jStrs p.2]
def jListLabel (p : List Label × Label) : Json := Json.arr #[jStrs p.1, Json.str p.2]

def finish {α} (f : α → Json) (p : Prog α) (st : GSt) : Json :=
  match p.run st with
  | .error e => err e
  | .ok (a, st') => ok (Json.mkObj [("ret", f a), ("c", jCircuit st'.c), ("ctr", Json.num st'.ctr)])

def genOp (j : Json) : Except String Json := do
  let c ← parseCircuit (← j.getObjVal? "c")
  let ctr ← getNat j "ctr"
  let name ← (← j.getObjVal? "name").getStr?
  let a ← j.getObjVal? "args"
  let st : GSt := ⟨c, ctr⟩
  match name with
  | "add_sum2" => pure (finish jStrs (addSum2 (← getStrs a "ins")) st)
  | "add_sum3" => pure (finish jStrs (addSum3 (← getStrs a "ins")) st)
  | "add_sum_n_bits_easy" => pure (finish jStrs (addSumNBitsEasy (← getStrs a "ins") (getBool a "big_endian")) st)
  | "add_sum_n_bits" => pure (finish jStrs (addSumNBits (← getStrs a "ins") (← getBasis a) (getBool a "big_endian")) st)
  | "add_sum_two_numbers" =>
    pure (finish jStrs (addSumTwoNumbers (← getStrs a "a") (← getStrs a "b") (getBool a "big_endian")) st)
  | "add_sum_two_numbers_with_shift" =>
    pure (finish jStrs (addSumTwoNumbersWithShift (← getNat a "shift") (← getStrs a "a") (← getStrs a "b") (getBool a "big_endian")) st)
  | "add_sum_n_weighted_bits" => pure (finish jWeighted (addSumWeighted (← getWeighted a "ins") (← getBasis a)) st)
  | "add_sum_n_weighted_bits_naive" => pure (finish jWeighted (addSumWeightedNaive (← getWeighted a "ins") (← getBasis a)) st)
  | "add_sum_pow2_m1" =>
    pure (finish jLists (addSumPow2M1 (← getStrs a "ins") (getBool a "big_endian") (← getBasis a)) st)
  | "add_sub2" => pure (finish jStrs (addSub2 (← getStrs a "ins") (getBool a "big_endian")) st)
  | "add_sub3" => pure (finish jStrs (addSub3 (← getStrs a "ins") (getBool a "big_endian")) st)
  | "add_sub_two_numbers" =>
    pure (finish jStrs (addSubTwoNumbers (← getStrs a "a") (← getStrs a "b") (getBool a "big_endian")) st)
  | "add_subtract_with_compare" =>
    pure (finish jListLabel (addSubtractWithCompare (← getStrs a "a") (← getStrs a "b") (getBool a "big_endian")) st)
  | "add_equal" => pure (finish Json.str (addEqualZ (← getStrs a "ins") (← (← a.getObjVal? "num").getInt?)) st)
  | "add_plus_one" =>
    pure (finish jStrs (addPlusOne (← getStrs a "ins") (← getOptStrs a "result_labels") (getBool a "add_outputs") (getBool a "big_endian")) st)
  | "add_if_then_else" =>
    pure (finish Json.str (addIfThenElse (← (← a.getObjVal? "if").getStr?) (← (← a.getObjVal? "then").getStr?)
      (← (← a.getObjVal? "else").getStr?) (getOptStr a "result_label") (getBool a "add_outputs")) st)
  | "add_pairwise_if_then_else" =>
    pure (finish jStrs (addPairwiseIfThenElse (← getStrs a "if") (← getStrs a "then") (← getStrs a "else")
      (← getOptStrs a "result_labels") (getBool a "add_outputs")) st)
  | "add_pairwise_xor" =>
    pure (finish jStrs (addPairwiseXor (← getStrs a "x") (← getStrs a "y") (← getOptStrs a "result_labels") (getBool a "add_outputs")) st)
  | "add_div_mod" => pure (finish jPairLists (addDivMod (← getStrs a "a") (← getStrs a "b") (getBool a "big_endian")) st)
  | "add_sqrt" => pure (finish jStrs (addSqrt (← getStrs a "ins") (getBool a "big_endian")) st)
  | "add_mul" => pure (finish jStrs (addMul (← getStrs a "a") (← getStrs a "b") (getBool a "big_endian")) st)
  | "add_mul_alter" => pure (finish jStrs (addMulAlter (← getStrs a "a") (← getStrs a "b") (getBool a "big_endian")) st)
  | "add_mul_pow2_m1" => pure (finish jStrs (addMulPow2M1 (← getStrs a "a") (← getStrs a "b") (getBool a "big_endian")) st)
  | "add_mul_karatsuba" => pure (finish jStrs (addMulKaratsuba (← getStrs a "a") (← getStrs a "b") (getBool a "big_endian")) st)
  | "add_mul_karatsuba_with_efficient_sum" =>
    pure (finish jStrs (addMulKaratsubaEff (← getStrs a "a") (← getStrs a "b") (getBool a "big_endian")) st)
  | "add_mul_dadda" => pure (finish jStrs (addMulDadda (← getStrs a "a") (← getStrs a "b") (getBool a "big_endian")) st)
  | "add_mul_wallace" => pure (finish jStrs (addMulWallace (← getStrs a "a") (← getStrs a "b") (getBool a "big_endian")) st)
  | "add_square" => pure (finish jStrs (addSquare (← getStrs a "ins") (getBool a "big_endian")) st)
  | "add_square_pow2_m1" => pure (finish jStrs (addSquarePow2M1 (← getStrs a "ins") (getBool a "big_endian")) st)
  | _ => throw s!"unknown generator {name}"

end GenDrv
