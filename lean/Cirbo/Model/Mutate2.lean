import Cirbo.Model.Mutate
import Cirbo.Model.TopSort
import Cirbo.Model.Traverse
/-!
# Model of the composite mutators: bench conversion, copy, block removal, slices,
`connect_circuit`, `replace_subcircuit`.
Fresh labels: Python uses `uuid.uuid4().hex`; the harness pins it to a counter printed as 32 hex
digits, and the model threads the same counter.
-/
namespace Cirbo
open GateType

def hexDigit (n : Nat) : Char := "0123456789abcdef".toList.getD n '0'
def hex32 (n : Nat) : String :=
  String.ofList ((List.range 32).reverse.map (fun i => hexDigit ((n / 16 ^ i) % 16)))

namespace Circuit

def setGate (c : Circuit) (g : Gate) : Circuit :=
  { c with gates := c.gates.map (fun x => if x.label == g.label then g else x) }

def addToBlocks (c : Circuit) (old new : Label) : Circuit :=
  { c with blocks := c.blocks.map (fun b => if b.gates.contains old then { b with gates := b.gates ++ [new] } else b) }

def convLabel (tag : String) (g : Gate) (ctr : Nat) : Label := "new_gate_" ++ tag ++ "_for_" ++ g.label ++ hex32 ctr

/-- `_convert_lt/_leq/_gt/_geq`: a NOT gate on operand `negIdx`, the gate becomes `newTy` -/
def convNeg (c : Circuit) (g : Gate) (ctr : Nat) (tag : String) (negIdx : Nat) (newTy : GateType) : R (Circuit × Nat) :=
  match g.ops[0]?, g.ops[1]? with
  | some x, some y =>
    let new := convLabel tag g ctr
    let target := if negIdx = 0 then x else y
    match c.addGate ⟨new, NOT, [target]⟩ with
    | .error e => .error e
    | .ok c1 =>
      let c2 := (c1.removeUser target g.label).addUser new g.label
      let c3 := c2.setGate ⟨g.label, newTy, if negIdx = 0 then [new, y] else [x, new]⟩
      .ok (c3.addToBlocks g.label new, ctr + 1)
  | _, _ => .error "Py:IndexError"

/-- `_convert_liff/_riff/_lnot/_rnot`: forget operand `dropIdx` -/
def convDrop (c : Circuit) (g : Gate) (ctr : Nat) (dropIdx : Nat) (newTy : GateType) : R (Circuit × Nat) :=
  match g.ops[0]?, g.ops[1]? with
  | some x, some y =>
    let c1 := c.removeUser (if dropIdx = 0 then x else y) g.label
    .ok (c1.setGate ⟨g.label, newTy, [if dropIdx = 0 then y else x]⟩, ctr)
  | _, _ => .error "Py:IndexError"

/-- `_convert_always_true/_false`: `newTy(first_input, NOT(first_input))` -/
def convConst (c : Circuit) (g : Gate) (ctr : Nat) (tag : String) (newTy : GateType) : R (Circuit × Nat) :=
  match c.inputs[0]? with
  | none => .error "GateDoesntExistError"
  | some first =>
    let new := convLabel tag g ctr
    match c.addGate ⟨new, NOT, [first]⟩ with
    | .error e => .error e
    | .ok c1 =>
      let c1' := g.ops.foldl (fun cc o => cc.removeUser o g.label) c1
      let c2 := (c1'.addUser first g.label).addUser new g.label
      let c3 := c2.setGate ⟨g.label, newTy, [first, new]⟩
      .ok (c3.addToBlocks g.label new, ctr + 1)

/-- `converters.convert_gate(gate, circuit)` with uuid counter -/
def convertGate (c : Circuit) (g : Gate) (ctr : Nat) : R (Circuit × Nat) :=
  match g.ty with
  | .LT => convNeg c g ctr "LT" 0 AND
  | LEQ => convNeg c g ctr "LEQ" 0 OR
  | GT => convNeg c g ctr "GT" 1 AND
  | GEQ => convNeg c g ctr "GEQ" 1 OR
  | LIFF => convDrop c g ctr 1 IFF
  | RIFF => convDrop c g ctr 0 IFF
  | LNOT => convDrop c g ctr 1 NOT
  | RNOT => convDrop c g ctr 0 NOT
  | ALWAYS_TRUE => convConst c g ctr "ALWAYS_TRUE" OR
  | ALWAYS_FALSE => convConst c g ctr "ALWAYS_FALSE" AND
  | _ => .ok (c, ctr)

/-- `Circuit.into_bench`: converts every gate of a snapshot of the gate map, in storage order -/
def convStep (acc : R (Circuit × Nat)) (g : Gate) : R (Circuit × Nat) :=
  match acc with
  | .error e => .error e
  | .ok (c', k) => c'.convertGate g k

def intoBench (c : Circuit) (ctr : Nat) : R (Circuit × Nat) :=
  c.gates.foldl convStep (.ok (c, ctr))

/-- `copy.copy(circuit)` -/
def copy (c : Circuit) : R Circuit :=
  match c.topSort true with
  | .cyclic => .error "CircuitIsCyclicalError"
  | .ok order =>
    let step : R Circuit → Label → R Circuit := fun acc l => match acc with
      | .error e => .error e
      | .ok n => match c.find? l with
        | none => .error "GateDoesntExistError"
        | some g => n.addGate g
    match order.foldl step (.ok Circuit.empty) with
    | .error e => .error e
    | .ok n1 => match n1.setInputs c.inputs with
      | .error e => .error e
      | .ok n2 => match n2.setOutputs c.outputs with
        | .error e => .error e
        | .ok n3 => c.blocks.foldl (fun acc b => match acc with
            | .error e => .error e
            | .ok n => n.makeBlock b.name b.gates b.outputs (some b.inputs)) (.ok n3)

/-- `check_block_has_no_users(block, circuit, exclusion)` -/
def blockHasNoUsers (c : Circuit) (b : Block) (excl : List Label) : Bool :=
  b.gates.all (fun g => excl.contains g || (c.usersOf g).all (fun u => b.gates.contains u))

/-- `_remove_block` -/
def rawRemoveBlock (c : Circuit) (name : Label) : R Circuit :=
  match c.blocks.find? (fun b => b.name == name) with
  | none => .error "Py:KeyError"
  | some b => b.gates.foldl (fun acc g => match acc with
      | .error e => .error e
      | .ok c' => c'.rawRemoveGate g) (.ok c)

/-- `remove_block` -/
def removeBlock (c : Circuit) (name : Label) : R Circuit :=
  match c.blocks.find? (fun b => b.name == name) with
  | none => .error "Py:KeyError"
  | some b => if c.blockHasNoUsers b [] then c.rawRemoveBlock name else .error "DeleteBlockError"

/-- the collection loop of `make_block_from_slice`; the result is a *set* in Python, so only its
elements are observable (the model keeps discovery order) -/
def sliceLoop (c : Circuit) (inputs : List Label) : Nat → List Label → List Label → R (List Label)
  | 0, gates, _ => .ok gates
  | fuel+1, gates, queue =>
    match queue.getLast? with
    | none => .ok gates
    | some cur =>
      match c.find? cur with
      | none => .error "GateDoesntExistError"
      | some g =>
        let step : R (List Label × List Label) → Label → R (List Label × List Label) := fun acc o =>
          match acc with
          | .error e => .error e
          | .ok (gs, q) =>
            if inputs.contains o then .ok (gs, q)
            else match c.find? o with
              | none => .error "GateDoesntExistError"
              | some og =>
                if og.ty = INPUT then .error "CreateBlockError"
                else if gs.contains o then .ok (gs, q) else .ok (gs ++ [o], q ++ [o])
        match g.ops.foldl step (.ok (gates, queue.dropLast)) with
        | .error e => .error e
        | .ok (gs, q) => sliceLoop c inputs fuel gs q

def dedup : List Label → List Label
  | [] => []
  | x :: r => if r.contains x then dedup r else x :: dedup r

/-- `make_block_from_slice(name, inputs, outputs)` -/
def makeBlockFromSlice (c : Circuit) (name : Label) (ins outs : List Label) : R Circuit :=
  if c.blocks.any (fun b => b.name == name) then .error "CircuitValidationError" else
  match c.checkGatesExist ins with
  | .error e => .error e
  | .ok _ => match c.checkGatesExist outs with
    | .error e => .error e
    | .ok _ =>
      let g0 := (dedup (outs.filter (fun o => !ins.contains o))).reverse
      match sliceLoop c ins (c.gates.length * (c.gates.length + 2) + 2) g0 g0 with
      | .error e => .error e
      | .ok gs => c.makeBlock name gs outs (some ins)

end Circuit
end Cirbo

namespace Cirbo
open GateType
namespace Circuit

def nodupL : List Label → Bool
  | [] => true
  | x :: r => !r.contains x && nodupL r

def mapLabels (m : Dict Label) (ls : List Label) : R (List Label) :=
  ls.foldl (fun (acc : R (List Label)) l => match acc with
    | .error e => .error e
    | .ok r => match Dict.get? m l with
      | none => .error "Py:KeyError"
      | some x => .ok (r ++ [x])) (.ok [])

structure ConnSt where
  c : Circuit
  o2n : Dict Label
  forBlock : List Label

/-- one iteration of the `for _gate in other.top_sort(inverse=True)` loop of `connect_circuit` -/
def connStep (other : Circuit) (mapping : Dict Label) (pre : String) (right : Bool)
    (acc : R ConnSt) (cur : Label) : R ConnSt :=
  match acc with
  | .error e => .error e
  | .ok st => match other.find? cur with
    | none => .error "GateDoesntExistError"
    | some g =>
      if !(Dict.contains mapping cur) then
        let newL := pre ++ cur
        let o2n := Dict.set st.o2n cur newL
        match mapLabels o2n g.ops with
        | .error e => .error e
        | .ok ops => match st.c.addGate ⟨newL, g.ty, ops⟩ with
          | .error e => .error e
          | .ok c' => .ok ⟨c', o2n, if g.ty != INPUT && !st.forBlock.contains newL
                                  then st.forBlock ++ [newL] else st.forBlock⟩
      else if right then
        match Dict.get? st.o2n cur with
        | none => .error "Py:KeyError"
        | some lbl => match mapLabels st.o2n g.ops with
          | .error e => .error e
          | .ok ops =>
            let c1 := ops.foldl (fun c o => c.addUser o lbl) st.c
            let c2 := if c1.hasGate lbl then c1.setGate ⟨lbl, g.ty, ops⟩
                      else { c1 with gates := c1.gates ++ [⟨lbl, g.ty, ops⟩] }
            .ok ⟨c2, st.o2n, if g.ty != INPUT && !st.forBlock.contains lbl
                              then st.forBlock ++ [lbl] else st.forBlock⟩
      else .ok st

/-- the tail of `connect_circuit`: outputs, inputs, blocks -/
def connFinish (c other : Circuit) (st : ConnSt) (thisC otherC : List Label) (name : Label)
    (pre : String) : R Circuit :=
  let copyInputs := c.inputs
  match mapLabels st.o2n (other.outputs.filter (fun o => !otherC.contains o)) with
  | .error e => .error e
  | .ok outs2 =>
    match st.c.setOutputs (st.c.outputs.filter (fun o => !thisC.contains o) ++ outs2) with
    | .error e => .error e
    | .ok c1 =>
      match mapLabels st.o2n (other.inputs.filter (fun i => !otherC.contains i)) with
      | .error e => .error e
      | .ok ins2 =>
        if copyInputs.any (fun i => !c1.hasGate i) then .error "Py:KeyError" else
        match c1.setInputs (copyInputs.filter (fun i => ((c1.find? i).map (·.ty)) == some INPUT) ++ ins2) with
        | .error e => .error e
        | .ok c2 =>
          let bstep : R Circuit → Block → R Circuit := fun acc b => match acc with
            | .error e => .error e
            | .ok cc =>
              let nb := pre ++ b.name
              if cc.blocks.any (fun x => x.name == nb) then .error "CircuitValidationError" else
              match mapLabels st.o2n b.inputs, mapLabels st.o2n b.gates, mapLabels st.o2n b.outputs with
              | .ok i, .ok g, .ok o => .ok { cc with blocks := cc.blocks ++ [⟨nb, i, g, o⟩] }
              | _, _, _ => .error "Py:KeyError"
          match other.blocks.foldl bstep (.ok c2) with
          | .error e => .error e
          | .ok c3 =>
            if name == "" then .ok c3 else
            match mapLabels st.o2n other.inputs, mapLabels st.o2n other.outputs with
            | .ok i, .ok o =>
              let nb : Block := ⟨name, i, st.forBlock, o⟩
              if c3.blocks.any (fun x => x.name == name)
              then .ok { c3 with blocks := c3.blocks.map (fun x => if x.name == name then nb else x) }
              else .ok { c3 with blocks := c3.blocks ++ [nb] }
            | _, _ => .error "Py:KeyError"

/-- `Circuit.connect_circuit(other, this_connectors, other_connectors, right_connect=, name=,
add_prefix=)` -/
def connectCircuit (c other : Circuit) (thisC otherC : List Label) (right : Bool) (name : Label)
    (addPrefix : Bool) : R Circuit :=
  if c.blocks.any (fun b => b.name == name) then .error "CircuitValidationError" else
  match c.checkGatesExist thisC with
  | .error e => .error e
  | .ok _ => match other.checkGatesExist otherC with
    | .error e => .error e
    | .ok _ =>
      if (!nodupL otherC || (right && !nodupL thisC)) then .error "CreateBlockError"
      else if thisC.length != otherC.length then .error "CreateBlockError"
      else if (if right then thisC.any (fun l => ((c.find? l).map (·.ty)) != some INPUT)
               else otherC.any (fun l => ((other.find? l).map (·.ty)) != some INPUT))
        then .error "CreateBlockError"
      else
        let pre := if name != "" && addPrefix then name ++ "@" else ""
        let mapping : Dict Label := (otherC.zip thisC).foldl (fun m p => Dict.set m p.1 p.2) []
        match other.topSort true with
        | .cyclic => .error "CircuitIsCyclicalError"
        | .ok order =>
          match order.foldl (connStep other mapping pre right) (.ok ⟨c, mapping, []⟩) with
          | .error e => .error e
          | .ok st => connFinish c other st thisC otherC name pre

/-- `Circuit.replace_subcircuit(subcircuit, inputs_mapping, outputs_mapping)`; mappings as
association lists in dict order -/
def replaceSubcircuit (c sub : Circuit) (im om : List (Label × Label)) (ctr : Nat) : R (Circuit × Nat) :=
  let imK := im.map (·.1); let imV := im.map (·.2)
  let omK := om.map (·.1); let omV := om.map (·.2)
  if imK.any (fun k => omK.contains k) then .error "ReplaceSubcircuitError" else
  match c.checkGatesExist imK with
  | .error e => .error e
  | .ok _ => match c.checkGatesExist omK with
    | .error e => .error e
    | .ok _ => match sub.checkGatesExist omV with
      | .error e => .error e
      | .ok _ =>
        if imV.any (fun v => !sub.hasGate v) then .error "GateDoesntExistError"
        else if imV.any (fun v => ((sub.find? v).map (·.ty)) != some INPUT) then .error "ReplaceSubcircuitError"
        else if sub.inputs.any (fun i => !imV.contains i) then .error "ReplaceSubcircuitError"
        else
          let ren : R Circuit → Label × Label → R Circuit := fun acc p => match acc with
            | .error e => .error e
            | .ok cc => if p.1 != p.2 then cc.renameGate p.1 p.2 else .ok cc
          match om.foldl ren (im.foldl ren (.ok c)) with
          | .error e => .error e
          | .ok c1 =>
            let bname := "block_for_deleting" ++ hex32 ctr
            match c1.makeBlockFromSlice bname imV omV with
            | .error e => .error e
            | .ok c2 =>
              match c2.blocks.find? (fun b => b.name == bname) with
              | none => .error "Py:KeyError"
              | some blk =>
                if c2.outputs.any (fun o => blk.gates.contains o && !omV.contains o) then .error "ReplaceSubcircuitError"
                else if omV.any (fun o => !c2.hasGate o) then .error "GateDoesntExistError" else
                let copyOutputs := c2.outputs
                let outUsers : Dict (List Label) := omV.foldl (fun d ol =>
                  (c2.usersOf ol).foldl (fun d u => if blk.gates.contains u then d
                    else Dict.set d ol ((Dict.get? d ol).getD [] ++ [u])) d) []
                if !c2.blockHasNoUsers blk omV then .error "DeleteBlockError" else
                match c2.rawRemoveBlock bname with
                | .error e => .error e
                | .ok c3 =>
                  match sub.topSort true with
                  | .cyclic => .error "CircuitIsCyclicalError"
                  | .ok order =>
                    let addStep : R Circuit → Label → R Circuit := fun acc l => match acc with
                      | .error e => .error e
                      | .ok cc => if imV.contains l then .ok cc else
                        match sub.find? l with
                        | none => .error "GateDoesntExistError"
                        | some g => cc.addGate g
                    match order.foldl addStep (.ok c3) with
                    | .error e => .error e
                    | .ok c4 =>
                      let c5 := { c4 with outputs := copyOutputs }
                      let c6 := outUsers.foldl (fun (cc : Circuit) p =>
                        { cc with users := Dict.set cc.users p.1 ((Dict.get? cc.users p.1).getD [] ++ p.2) }) c5
                      match hasCycleCheckFrom c6 (some c6.labels) with
                      | .error e => .error e
                      | .ok true => .error "CircuitValidationError"
                      | .ok false => .ok (c6, ctr + 1)

end Circuit
end Cirbo
