import Cirbo.Model.Mutate
/-!
# Model of the BENCH printer (`Circuit.format_circuit`, `Gate.format_gate`) and parser
(`BenchToCircuit`), on character lists.
-/
namespace Cirbo
open GateType

abbrev Str := List Char

def strOf (s : String) : Str := s.toList
def joinWith (sep : Str) : List Str → Str
  | [] => []
  | [x] => x
  | x :: r => x ++ sep ++ joinWith sep r

def printedKeyword (ty : GateType) : Str := if ty = IFF then ['B', 'U', 'F', 'F'] else ty.name.toList

/-- the separator of `', '.join(operands)` -/
def sepCS : Str := [',', ' ']

/-- `Gate.format_gate` -/
def formatGate (g : Gate) : Str :=
  if g.ty = INPUT then ['I', 'N', 'P', 'U', 'T', '('] ++ g.label.toList ++ [')']
  else
    g.label.toList ++ [' ', '=', ' '] ++ printedKeyword g.ty ++ ['(']
      ++ joinWith sepCS (g.ops.map String.toList) ++ [')']

/-- `Circuit.format_circuit` -/
def formatCircuit (c : Circuit) : Str :=
  joinWith ['\n'] (c.inputs.map (fun l => strOf "INPUT(" ++ l.toList ++ [')']))
  ++ strOf "\n\n"
  ++ joinWith ['\n'] ((c.gates.filter (fun g => g.ty != INPUT)).map formatGate)
  ++ strOf "\n\n"
  ++ joinWith ['\n'] (c.outputs.map (fun l => strOf "OUTPUT(" ++ l.toList ++ [')']))

/-! ## parser -/

/-- iteration over `io.StringIO(s)`: lines with their terminating newline -/
def splitLines : Str → List Str
  | [] => []
  | s =>
    let rec go (cur : Str) : Str → List Str
      | [] => if cur.isEmpty then [] else [cur.reverse]
      | ch :: r => if ch = '\n' then ('\n' :: cur).reverse :: go [] r else go (ch :: cur) r
    go [] s

def stripSet (set : Str) (s : Str) : Str :=
  ((s.dropWhile (fun ch => set.contains ch)).reverse.dropWhile (fun ch => set.contains ch)).reverse

def upperS (s : Str) : Str := s.map Char.toUpper

/-- `str.split(sep)` for a one-character separator -/
def splitOn (sep : Char) : Str → List Str
  | [] => [[]]
  | ch :: r =>
    if ch = sep then [] :: splitOn sep r
    else match splitOn sep r with
      | [] => [[ch]]
      | x :: xs => (ch :: x) :: xs

def findIdx (ch : Char) (s : Str) : Option Nat :=
  let i := s.idxOf ch
  if i < s.length then some i else none

def gateTypeOfKeyword (kw : Str) : Option GateType :=
  let k := String.ofList kw
  if k == "BUFF" then some IFF
  else if k == "INPUT" then none
  else GateType.ofName? k

/-- arity accepted by the `_process_*` signatures (else Python raises TypeError) -/
def parserArityOk (ty : GateType) (n : Nat) : Bool :=
  match ty with
  | NOT | IFF => n == 1
  | AND | OR | NAND | NOR | XOR | NXOR => 2 ≤ n
  | ALWAYS_TRUE | ALWAYS_FALSE => true
  | INPUT => false
  | _ => n == 2

/-- `_process_line` -/
def parseLine (c : Circuit) (line : Str) : Except String Circuit :=
  if line.isEmpty || line == ['\n'] || line.head? == some '#' then .ok c
  else if (strOf "INPUT(").isPrefixOf (upperS line) then
    .ok (c.rawAddGate ⟨String.ofList (stripSet (strOf ") \n") (line.drop 6)), INPUT, []⟩)
  else if (strOf "OUTPUT(").isPrefixOf (upperS line) then
    .ok { c with outputs := c.outputs ++ [String.ofList (stripSet (strOf ") \n") (line.drop 7))] }
  else
    match findIdx '=' line with
    | none => .error "Py:ValueError"
    | some eq =>
      let out := String.ofList (stripSet [' '] (line.take eq))
      let body := stripSet [' '] (line.drop (eq + 1))
      if upperS (body.take 3) == strOf "VDD" then .ok (c.rawAddGate ⟨out, ALWAYS_TRUE, []⟩)
      else
        match findIdx '(' body, findIdx ')' body with
        | some l, some r =>
          let op := upperS (stripSet [' '] (body.take l))
          let argsStr := stripSet [' '] ((body.take r).drop (l + 1))
          let operands := (splitOn ',' argsStr).map (fun a => String.ofList (stripSet [' '] a))
          match gateTypeOfKeyword op with
          | none => .error "Py:ValueError"
          | some ty =>
            let ops := if ty = ALWAYS_TRUE || ty = ALWAYS_FALSE then operands.filter (· != "") else operands
            if parserArityOk ty ops.length then .ok (c.rawAddGate ⟨out, ty, ops⟩)
            else .error "Py:TypeError"
        | _, _ => .error "Py:ValueError"

/-- `Circuit.from_bench_string` -/
def parseBench (s : Str) : Except String Circuit :=
  match (splitLines s).foldl (fun (acc : Except String Circuit) line => match acc with
      | .error e => .error e
      | .ok c => parseLine c line) (.ok Circuit.empty) with
  | .error e => .error e
  | .ok c =>
    if c.gates.all (fun g => g.ops.all c.hasGate) then .ok c else .error "CircuitValidationError"

end Cirbo
