import Cirbo.Model.Eval
/-!
# Model of the `Function` protocol queries (`Circuit`, `TruthTable`, `PyFunction`)
A representation is `(n, m, ev)`; `Circuit` and `PyFunction` answer every query through
`evaluate`/`evaluate_at`, `TruthTable` answers some of them directly on the stored rows.
-/
namespace Cirbo

structure FRep where
  n : Nat
  m : Nat
  ev : List Bool → List Bool

namespace FRep

def evAt (F : FRep) (x : List Bool) (o : Nat) : Bool := (F.ev x).getD o false

/-- `is_constant` (Circuit, PyFunction): compare every value with the first one -/
def isConstant (F : FRep) : Bool :=
  match allInputs F.n with
  | [] => true
  | x0 :: r => r.all (fun x => F.ev x == F.ev x0)

def isConstantAt (F : FRep) (o : Nat) : Bool :=
  match allInputs F.n with
  | [] => true
  | x0 :: r => r.all (fun x => F.evAt x o == F.evAt x0 o)

/-- the `ones_started` scan of `is_monotone_at` (PyFunction, TruthTable) over a value sequence -/
def monoScan (inv : Bool) : Bool → List Bool → Bool
  | _, [] => true
  | started, v :: r =>
    if !started && (v != inv) then monoScan inv true r
    else if started && (v == inv) then false
    else monoScan inv started r

/-- the `change_value/current_value` scan of `Circuit.is_monotone_at` -/
def changeScan : Bool → Bool → List Bool → Bool
  | _, _, [] => true
  | changed, cur, v :: r =>
    if v != cur then (if changed then false else changeScan true (!cur) r) else changeScan changed cur r

def row (F : FRep) (o : Nat) : List Bool := (allInputs F.n).map (fun x => F.evAt x o)

/-- `PyFunction.is_monotone_at`, `TruthTable.is_monotone_at` -/
def isMonotoneAtP (F : FRep) (o : Nat) (inv : Bool) : Bool := monoScan inv false (F.row o)
/-- `Circuit.is_monotone_at` -/
def isMonotoneAtC (F : FRep) (o : Nat) (inv : Bool) : Bool := changeScan false inv (F.row o)
/-- `Circuit.is_monotone`: the same scan per output, interleaved (all outputs must pass) -/
def isMonotoneC (F : FRep) (inv : Bool) : Bool := (List.range F.m).all (fun o => F.isMonotoneAtC o inv)
/-- `TruthTable.is_monotone` -/
def isMonotoneT (F : FRep) (inv : Bool) : Bool := (List.range F.m).all (fun o => F.isMonotoneAtP o inv)

def pairwiseLe (inv : Bool) (prev cur : List Bool) : Bool :=
  !(cur.zip prev).any (fun p => if inv then (p.1 && !p.2) else (!p.1 && p.2))

def consecScan (inv : Bool) : List Bool → List (List Bool) → Bool
  | _, [] => true
  | prev, v :: r => if pairwiseLe inv prev v then consecScan inv v r else false

/-- `PyFunction.is_monotone` (consecutive comparison of whole output vectors) -/
def isMonotoneP (F : FRep) (inv : Bool) : Bool :=
  match allInputs F.n with
  | [] => true
  | x0 :: r => consecScan inv (F.ev x0) (r.map F.ev)

/-- `itertools.combinations(range(n), k)` as index lists, generalised to a start offset -/
def combos : Nat → Nat → Nat → List (List Nat)
  | _, _, 0 => [[]]
  | 0, _, _+1 => []
  | len+1, start, k+1 =>
    (combos len (start + 1) k).map (start :: ·) ++ combos len (start + 1) (k + 1)

/-- `input_iterator_with_fixed_sum(n, k, negations=neg)` -/
def fixedSum (n k : Nat) (neg : List Bool) : List (List Bool) :=
  (combos n 0 k).map (fun idxs => (List.range n).map (fun i => xor (idxs.contains i) (neg.getD i false)))

def symOn (F : FRep) (neg : List Bool) (proj : List Bool → List Bool) : Bool :=
  (List.range (F.n + 1)).all (fun k =>
    match fixedSum F.n k neg with
    | [] => true
    | x0 :: r => r.all (fun x => proj (F.ev x) == proj (F.ev x0)))

/-- `is_symmetric` -/
def isSymmetric (F : FRep) : Bool := F.symOn [] id
/-- `is_symmetric_at` -/
def isSymmetricAt (F : FRep) (o : Nat) : Bool := F.symOn [] (fun v => [v.getD o false])

def insertAt (x : List Bool) (i : Nat) (b : Bool) : List Bool := x.take i ++ b :: x.drop i

/-- `is_dependent_on_input_at` -/
def isDependent (F : FRep) (o i : Nat) : Bool :=
  (allInputs (F.n - 1)).any (fun x => F.evAt (insertAt x i false) o != F.evAt (insertAt x i true) o)

/-- `is_output_equal_to_input` (Circuit, PyFunction) -/
def equalInput (F : FRep) (o i : Nat) : Bool :=
  (allInputs F.n).all (fun x => F.evAt x o == x.getD i false)
def equalInputNeg (F : FRep) (o i : Nat) : Bool :=
  (allInputs F.n).all (fun x => F.evAt x o == !x.getD i false)

/-- `get_bit_value(value, bit_idx, bit_size)` -/
def getBitValue (value bitIdx bitSize : Nat) : Bool := value.testBit (bitSize - bitIdx - 1)

/-- `TruthTable.is_output_equal_to_input(_negation)`: compares the stored row with bit `i` of the
column index -/
def equalInputT (F : FRep) (o i : Nat) (negate : Bool) : Bool :=
  ((F.row o).zipIdx).all (fun p => p.1 == xor negate (getBitValue p.2 i F.n))

/-- `get_significant_inputs_of` -/
def significant (F : FRep) (o : Nat) : List Nat := (List.range F.n).filter (fun i => F.isDependent o i)

/-- `find_negations_to_make_symmetric(output_index)` -/
def findNegations (F : FRep) (outs : List Nat) : Option (List Bool) :=
  (allInputs F.n).find? (fun neg => F.symOn neg (fun v => outs.map (fun o => v.getD o false)))

/-- `get_truth_table` -/
def truthTable (F : FRep) : List (List Bool) := (List.range F.m).map F.row

/-- `input_to_canonical_index` -/
def canonicalIndex (x : List Bool) : Nat := x.foldl (fun acc b => 2 * acc + (if b then 1 else 0)) 0

/-- a table-backed representation (`TruthTable`; also the callables the harness builds) -/
def ofTable (n : Nat) (table : List (List Bool)) : FRep :=
  ⟨n, table.length, fun x => table.map (fun r => r.getD (canonicalIndex x) false)⟩

end FRep
end Cirbo

namespace Cirbo
namespace FRep

/-- `bin(index)[2:]` as bits -/
def binDigits (k : Nat) : List Bool := if k = 0 then [false] else (Nat.toDigits 2 k).map (· == '1')

/-- `canonical_index_to_input(index, input_size)` (note `[-0::]` keeps the whole list) -/
def indexToInput (index size : Nat) : List Bool :=
  let s := binDigits index
  let s' := List.replicate (size - s.length) false ++ s
  if size = 0 then s' else s'.drop (s'.length - size)

/-- `PyFunction.from_int_unary_func(func, in_len, out_len, big_endian)` -/
def fromIntUnary (f : Nat → Nat) (inLen outLen : Nat) (bigEndian : Bool) : FRep :=
  ⟨inLen, outLen, fun args =>
    let a := if bigEndian then args else args.reverse
    let res := indexToInput (f (canonicalIndex a)) outLen
    if bigEndian then res else res.reverse⟩

/-- `PyFunction.from_int_binary_func` -/
def fromIntBinary (f : Nat → Nat → Nat) (inLen outLen : Nat) (bigEndian : Bool) : FRep :=
  ⟨2 * inLen, outLen, fun args =>
    let a1 := args.take inLen
    let a2 := args.drop inLen
    let (b1, b2) := if bigEndian then (a1, a2) else (a1.reverse, a2.reverse)
    let res := indexToInput (f (canonicalIndex b1) (canonicalIndex b2)) outLen
    if bigEndian then res else res.reverse⟩

/-- one item of `definition.items()`: the entry `(output d.1.2, column of d.1.1)` is set to `d.2` if it
is still a don't-care (`none`); an already defined value is kept -/
def defineStep (t : List (List (Option Bool))) (d : (List Bool × Nat) × Bool) : List (List (Option Bool)) :=
  t.zipIdx.map (fun (ro : List (Option Bool) × Nat) =>
    if ro.2 == d.1.2 then ro.1.zipIdx.map (fun (vi : Option Bool × Nat) =>
      if vi.2 == canonicalIndex d.1.1 && vi.1.isNone then some d.2 else vi.1) else ro.1)

/-- `TruthTableModel.define` (and, entry by entry, `PyFunctionModel.define`): fill the `none`
(don't-care) entries from `definition`, in the order of its items -/
def defineTable (model : List (List (Option Bool))) (defn : List ((List Bool × Nat) × Bool)) :
    List (List (Option Bool)) :=
  defn.foldl defineStep model

end FRep
end Cirbo
