import Cirbo.Model.Ops
import Cirbo.Model.Dict
import Cirbo.Model.TopSort
/-!
# Model of the evaluation entry points of `Circuit`
`evaluate_full_circuit`, `evaluate_circuit`, `evaluate_circuit_outputs`, `evaluate`,
`evaluate_at`, `get_truth_table`, `get_gates_truth_table`.  Errors are the canonical class
names the harness also produces.
-/
namespace Cirbo
open GateType

abbrev Asg := Dict V3

/-- `cur_gate.operator(*(assignment_dict[op] for op in cur_gate.operands))` -/
def evalGate (g : Gate) (d : Asg) : Except String V3 :=
  if g.ty = INPUT then .error "GateTypeNoOperatorError" else
  match g.ops.mapM (fun o => d.get? o) with
  | none => .error "Py:KeyError"
  | some vals =>
    match applyOp g.ty vals with
    | none => .error "Py:TypeError"
    | some r => .ok r

/-- `dict(assignment)` then `setdefault(input, Undefined)` for every input -/
def initAsg (c : Circuit) (asg : Asg) : Asg :=
  c.inputs.foldl (fun d i => d.setDefault i V3.U) asg

def evalFullStep (c : Circuit) (d : Asg) (l : Label) : Except String Asg :=
  match c.find? l with
  | none => .error "GateDoesntExistError"
  | some g =>
    if g.ty = INPUT then .ok d
    else match evalGate g d with
      | .error e => .error e
      | .ok r => .ok (d.set l r)

def evalFullLoop (c : Circuit) : List Label → Asg → Except String Asg
  | [], d => .ok d
  | l :: rest, d => match evalFullStep c d l with
    | .error e => .error e
    | .ok d' => evalFullLoop c rest d'

/-- `Circuit.evaluate_full_circuit` -/
def evalFull (c : Circuit) (asg : Asg) : Except String Asg :=
  match c.topSort true with
  | .cyclic => .error "CircuitIsCyclicalError"
  | .ok order => evalFullLoop c order (initAsg c asg)

/-- one iteration of the `while queue_` loop of `evaluate_circuit` -/
def lazyStep (c : Circuit) (stack : List Label) (d : Asg) : Except String (List Label × Asg) :=
  match stack.getLast? with
  | none => .ok (stack, d)
  | some top =>
    match c.find? top with
    | none => .error "GateDoesntExistError"
    | some g =>
      let pushed := g.ops.filter (fun o => !d.contains o)
      let stack' := stack ++ pushed
      if stack'.getLast? = some g.label then
        match evalGate g d with
        | .error e => .error e
        | .ok r => .ok (stack'.dropLast, d.set g.label r)
      else .ok (stack', d)

def lazyLoop (c : Circuit) : Nat → List Label → Asg → Except String Asg
  | 0, stack, d => if stack.isEmpty then .ok d else .error "fuel"
  | fuel+1, stack, d =>
    if stack.isEmpty then .ok d
    else match lazyStep c stack d with
      | .error e => .error e
      | .ok (s', d') => lazyLoop c fuel s' d'

def totalArity (c : Circuit) : Nat := (c.gates.map (·.ops.length)).foldl (· + ·) 0

/-- `Circuit.evaluate_circuit(assignment, outputs=outs)` (`outs = none` ⇒ the circuit's outputs) -/
def evalLazy (c : Circuit) (asg : Asg) (outs : Option (List Label)) : Except String Asg :=
  let d0 := initAsg c asg
  let outs' := (outs.getD c.outputs).filter (fun o => !c.inputs.contains o)
  match lazyLoop c (2 * (outs'.length + totalArity c) + 2) outs' d0 with
  | .error e => .error e
  | .ok d => .ok (c.labels.foldl (fun d l => d.setDefault l V3.U) d)

/-- `Circuit.evaluate_circuit_outputs` (a dict keyed by output label: duplicates collapse) -/
def evalOutputs (c : Circuit) (asg : Asg) : Except String Asg :=
  match evalLazy c asg none with
  | .error e => .error e
  | .ok d =>
    c.outputs.foldlM (fun acc o => match d.get? o with
      | none => .error "Py:KeyError"
      | some v => .ok (acc.set o v)) []

def zipInputs (c : Circuit) (vals : List V3) : Except String Asg :=
  if vals.length < c.inputs.length then .error "Py:IndexError"
  else .ok ((c.inputs.zip vals).foldl (fun d p => d.set p.1 p.2) [])

/-- `Circuit.evaluate(inputs)` -/
def evaluate (c : Circuit) (vals : List V3) : Except String (List V3) := do
  let a ← zipInputs c vals
  let d ← evalOutputs c a
  c.outputs.mapM (fun o => match d.get? o with
    | none => .error "Py:KeyError"
    | some v => .ok v)

/-- `Circuit.evaluate_at(inputs, output_index)` -/
def evaluateAt (c : Circuit) (vals : List V3) (idx : Nat) : Except String V3 := do
  let a ← zipInputs c vals
  match c.outputs[idx]? with
  | none => .error "GateDoesntExistError"
  | some o =>
    let d ← evalLazy c a (some [o])
    match d.get? o with
    | none => .error "Py:KeyError"
    | some v => .ok v

/-- `itertools.product((False, True), repeat=n)`: big-endian counting -/
def allInputs : Nat → List (List Bool)
  | 0 => [[]]
  | n+1 => (allInputs n).map (false :: ·) ++ (allInputs n).map (true :: ·)

def transpose (m : Nat) (rows : List (List V3)) : List (List V3) :=
  (List.range m).map (fun i => rows.map (fun r => r.getD i V3.U))

/-- `Circuit.get_truth_table` -/
def truthTable (c : Circuit) : Except String (List (List V3)) := do
  let rows ← (allInputs c.inputs.length).mapM (fun bs => evaluate c (bs.map V3.ofBool))
  .ok (transpose c.outputs.length rows)

/-- `Circuit.get_gates_truth_table`: key order of first insertion, one value per assignment -/
def gatesTruthTable (c : Circuit) : Except String (Dict (List V3)) := do
  let fulls ← (allInputs c.inputs.length).mapM (fun bs =>
    evalFull c ((c.inputs.zip (bs.map V3.ofBool)).foldl (fun d p => d.set p.1 p.2) []))
  .ok (fulls.foldl (fun acc full =>
    full.foldl (fun acc p => acc.set p.1 ((acc.get? p.1).getD [] ++ [p.2])) acc) [])

end Cirbo
