import Cirbo.Basic
import Cirbo.Spec.Bool
import Cirbo.Model.Mutate
/-!
# Pattern simulation of cut cones (`_generate_inputs_tt`, `_PatternOperations.eval_pattern`)
A pattern is a number whose bit `i` is the value of a gate under leaf assignment number `i`.
-/
namespace Cirbo
namespace Pattern
open GateType

/-- `_generate_inputs_tt(size)[j]`: sum over `i < 2^size` of `((i >> j) & 1) << i` -/
def leafPattern (size j : Nat) : Nat :=
  (List.range (2 ^ size)).foldl (fun acc i => acc + ((i >>> j) % 2) <<< i) 0

def genInputsTT (size : Nat) : List Nat := (List.range size).map (leafPattern size)

def maxPattern (k : Nat) : Nat := 2 ^ (2 ^ k) - 1

/-- `functools.reduce(op, operands)` (TypeError on an empty list) -/
def reduce1 (f : Nat → Nat → Nat) : List Nat → R Nat
  | [] => .error "Py:TypeError"
  | x :: r => .ok (r.foldl f x)

def op2 (ops : List Nat) (f : Nat → Nat → Nat) : R Nat :=
  match ops with
  | a :: b :: _ => .ok (f a b)
  | _ => .error "Py:IndexError"

/-- `eval_pattern(operands, oper_type)` -/
def evalPattern (k : Nat) (ty : GateType) (ops : List Nat) : R Nat :=
  let mx := maxPattern k
  match ty with
  | .NOT => match ops with
    | a :: _ => .ok (mx - a)
    | [] => .error "Py:IndexError"
  | .AND => reduce1 (· &&& ·) ops
  | .NAND => (reduce1 (· &&& ·) ops).map (mx - ·)
  | .OR => reduce1 (· ||| ·) ops
  | .NOR => (reduce1 (· ||| ·) ops).map (mx - ·)
  | .XOR => reduce1 (· ^^^ ·) ops
  | .NXOR => (reduce1 (· ^^^ ·) ops).map (mx - ·)
  | .GEQ => op2 ops (fun a b => a ||| (mx - b))
  | .LT => op2 ops (fun a b => mx - (a ||| (mx - b)))
  | .LEQ => op2 ops (fun a b => (mx - a) ||| b)
  | .GT => op2 ops (fun a b => mx - ((mx - a) ||| b))
  | _ => .error "UnsupportedOperationError"

end Pattern
end Cirbo
