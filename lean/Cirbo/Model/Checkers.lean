import Cirbo.Spec.Bool
import Cirbo.Model.Dict
import Cirbo.Model.TopSort
import Cirbo.Generated.OpTables
/-!
# Executable checkers used by the failing-input search (soundness proved in `Proofs/Checkers`)
-/
namespace Cirbo
open GateType

def b3 : V3 → Option Bool | .F => some false | .T => some true | .U => none

/-- decides `IsValB c a v` where `a`, `v` are given as dictionaries of defined values
(missing or `U` entries make the check fail) -/
def checkValB (c : Circuit) (a v : Dict V3) : Bool :=
  c.gates.all (fun g =>
    match (v.get? g.label).bind b3 with
    | none => false
    | some r =>
      if g.ty = INPUT then (a.get? g.label).bind b3 == some r
      else match g.ops.mapM (fun o => (v.get? o).bind b3) with
        | none => false
        | some bs => bfun g.ty bs == some r)

def nodupB : List Label → Bool
  | [] => true
  | x :: xs => !xs.contains x && nodupB xs

/-- decides the C02 well-formedness conditions; returns "ok" or the first violated clause -/
def checkWFU (c : Circuit) : String :=
  if !nodupB c.labels then "gate labels not distinct"
  else if !c.gates.all (fun g => g.ops.all (fun o => c.hasGate o)) then "operand names a missing gate"
  else if !c.outputs.all (fun o => c.hasGate o) then "output names a missing gate"
  else if !nodupB c.inputs then "input list has duplicates"
  else if !c.inputs.all (fun i => match c.find? i with | some g => g.ty = INPUT | none => false)
    then "input list names a non-INPUT gate"
  else if !c.gates.all (fun g => g.ty != INPUT || c.inputs.contains g.label)
    then "INPUT gate missing from the input list"
  else if !c.gates.all (fun g => if g.ty = INPUT then g.ops.isEmpty else arityOk g.ty g.ops.length)
    then "gate arity not accepted by its type"
  else if !c.gates.all (fun g => c.labels.all (fun l =>
      (c.usersOf l).count g.label == g.ops.count l))
    then "users index is not the inverse operand multiset"
  else if !c.users.all (fun p => c.hasGate p.1 && p.2.all (fun s => c.hasGate s))
    then "users index names a missing gate"
  else if !nodupB (c.users.map (·.1)) then "users index has duplicate keys"
  else if !c.blocks.all (fun b => b.gates.all c.hasGate && b.inputs.all c.hasGate)
    then "block names a missing gate"
  else
    -- acyclic: Kahn (which needs only the conditions checked above) outputs every gate
    match c.topSort true, c.topSort false with
    | .ok o1, .ok o2 =>
      if o1.length == c.gates.length && o2.length == c.gates.length then "ok"
      else "cyclic: topological iteration does not yield every gate"
    | _, _ => "cyclic"

end Cirbo

namespace Cirbo
open GateType

/-- what the code's `GateType.operator` returned for this argument tuple (arity ≤ 3), straight
from the generated tables -/
def genRow (ty : GateType) (args : List V3) : Option V3 :=
  match args with
  | [] => Gen.op0 ty
  | [a] => ((Gen.op1 ty)[a.idx]?).join
  | [a, b] => ((Gen.op2 ty)[3 * a.idx + b.idx]?).join
  | [a, b, c] => ((Gen.op3 ty)[9 * a.idx + 3 * b.idx + c.idx]?).join
  | _ => none

def tuples {α} (xs : List α) : Nat → List (List α)
  | 0 => [[]]
  | n+1 => xs.flatMap (fun x => (tuples xs n).map (x :: ·))

def showArgs (args : List V3) : String := ",".intercalate (args.map V3.toStr)
def showO : Option V3 → String | none => "raise" | some v => v.toStr

def v3le (a b : V3) : Bool := a == .U || a == b
def oLeB : Option V3 → Option V3 → Bool
  | some a, some b => v3le a b
  | none, none => true
  | _, _ => false

/-- search the generated operator tables for entries contradicting the spec: Boolean rows that
differ from `bfun`, and pairs of rows violating monotonicity in the information order -/
def opTableIssues : List String :=
  let tys := GateType.all.filter (· != INPUT)
  let boolIssues := tys.flatMap (fun ty => (List.range 4).flatMap (fun n =>
    (tuples [false, true] n).filterMap (fun bs =>
      let got := genRow ty (bs.map V3.ofBool)
      let want := (bfun ty bs).map V3.ofBool
      if got == want then none
      else some s!"bool {ty.name}({showArgs (bs.map V3.ofBool)}) = {showO got}, spec {showO want}")))
  let monoIssues := tys.flatMap (fun ty => (List.range 4).flatMap (fun n =>
    (tuples V3.all n).flatMap (fun xs => (tuples V3.all n).filterMap (fun ys =>
      if (xs.zip ys).all (fun p => v3le p.1 p.2) && !oLeB (genRow ty xs) (genRow ty ys) then
        some s!"mono {ty.name}({showArgs xs}) = {showO (genRow ty xs)} but ({showArgs ys}) = {showO (genRow ty ys)}"
      else none))))
  boolIssues ++ monoIssues

end Cirbo
