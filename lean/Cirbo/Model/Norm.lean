import Cirbo.Model.Gen
import Cirbo.Model.Eval
/-!
# Truth-table normalisation of the circuit database (`NormalizationInfo`, `_truth_table_to_label`)
-/
namespace Cirbo
namespace Norm

abbrev Row := List Bool

structure Info where
  negations : List Bool
  permutation : List Nat
  mapping : List Nat
  table : List Row
  deriving Repr

/-- Python's list comparison on rows (`False < True`, shorter prefix first) -/
def rowLt : Row → Row → Bool
  | [], [] => false
  | [], _ :: _ => true
  | _ :: _, [] => false
  | a :: r, b :: s => (!a && b) || (a == b && rowLt r s)

/-- `_normalize_outputs`: negate every output whose first entry is True -/
def normalizeOutputs : List Row → R (List Bool × List Row)
  | [] => .ok ([], [])
  | row :: rest =>
    match row with
    | [] => .error "Py:IndexError"
    | b :: _ =>
      match normalizeOutputs rest with
      | .error e => .error e
      | .ok (ns, rs) => .ok (b :: ns, (if b then row.map (!·) else row) :: rs)

/-- `_sort_outputs`: stable sort of the enumerated rows by row -/
def sortOutputs (rows : List Row) : List (Nat × Row) :=
  sortBy (fun (a b : Nat × Row) => rowLt a.2 b.2) (rows.zipIdx.map (fun ri => (ri.2, ri.1)))

/-- `_delete_duplicate_outputs` (rows sorted): keep the first of each run, remember where each went -/
def dedupLoop : List Row → Row → List Row → List Nat → List Row × List Nat
  | [], _, new, mapping => (new, mapping)
  | r :: rest, prev, new, mapping =>
    let new' := if r != prev then new ++ [r] else new
    dedupLoop rest r new' (mapping ++ [new'.length - 1])

def normalize (tt : List Row) : R Info :=
  match normalizeOutputs tt with
  | .error e => .error e
  | .ok (negs, rows) =>
    let sorted := sortOutputs rows
    match sorted.map (·.2) with
    | [] => .error "Py:IndexError"
    | r0 :: rest =>
      let (new, mapping) := dedupLoop rest r0 [r0] [0]
      .ok { negations := negs, permutation := sorted.map (·.1), mapping := mapping, table := new }

/-- `_truth_table_to_label` -/
def label (tt : List Row) : String :=
  "_".intercalate (tt.map (fun row => String.ofList (row.map (fun b => if b then '1' else '0'))))

/-! ## denormalisation, on the list of per-output items (rows, or output labels) -/

/-- `_undo_outputs_deletion` -/
def undelete {α} (mapping : List Nat) (outs : List α) : R (List α) :=
  mapping.foldr (fun i acc => match acc, outs[i]? with
    | .ok l, some x => .ok (x :: l)
    | .error e, _ => .error e
    | _, none => .error "Py:IndexError") (.ok [])

/-- `_unsort_outputs`: `unsorted[permutation[k]] = outs[k]` -/
def unsort {α} (dflt : α) (perm : List Nat) (outs : List α) : R (List α) :=
  if perm.length != outs.length then .error "CircuitIsNotCompatibleWithNormalizationParameters" else
  .ok ((perm.zip outs).foldl (fun acc (p : Nat × α) => acc.set p.1 p.2) (List.replicate outs.length dflt))

/-- the truth tables of the outputs after `denormalize`, given those of the stored circuit -/
def denormRows (info : Info) (stored : List Row) : R (List Row) :=
  match undelete info.mapping stored with
  | .error e => .error e
  | .ok u =>
    match unsort [] info.permutation u with
    | .error e => .error e
    | .ok s =>
      if info.negations.length != s.length then .error "CircuitIsNotCompatibleWithNormalizationParameters" else
      .ok ((s.zip info.negations).map (fun p => if p.2 then p.1.map (!·) else p.1))

/-! ## `denormalize` on a circuit -/

/-- `_denormalize_outputs`: a NOT gate (`not_<label>`, reused if present) on every negated output -/
def negateOutputs : List (Label × Bool) → Circuit → List Label → R (Circuit × List Label)
  | [], c, acc => .ok (c, acc)
  | (o, neg) :: rest, c, acc =>
    if neg then
      let ng := "not_" ++ o
      if c.hasGate ng then negateOutputs rest c (acc ++ [ng]) else
        match c.addGate ⟨ng, .NOT, [o]⟩ with
        | .error e => .error e
        | .ok c' => negateOutputs rest c' (acc ++ [ng])
    else negateOutputs rest c (acc ++ [o])

def denormalizeCircuit (info : Info) (c : Circuit) : R Circuit :=
  match undelete info.mapping c.outputs with
  | .error e => .error e
  | .ok o1 =>
    let c1 := { c with outputs := o1 }
    match unsort "" info.permutation c1.outputs with
    | .error e => .error e
    | .ok o2 =>
      match c1.orderOutputs o2 with
      | .error e => .error e
      | .ok c2 =>
        if info.negations.length != c2.outputs.length then .error "CircuitIsNotCompatibleWithNormalizationParameters" else
        match negateOutputs (c2.outputs.zip info.negations) c2 [] with
        | .error e => .error e
        | .ok (c3, outs) => .ok { c3 with outputs := outs }

end Norm
end Cirbo
