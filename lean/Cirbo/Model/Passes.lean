import Cirbo.Model.Mutate2
import Cirbo.Model.Eval
import Cirbo.Generated.OpTables
/-!
# Model of the simplification passes and of `Transformer` pipelines
Each `_transform` rebuilds a circuit from the event log of `Circuit.dfs` (exit / unvisited hooks).
-/
namespace Cirbo
open GateType Circuit

/-- labels handed to `on_exit_hook` / `unvisited_hook`, in call order -/
def hookLabels (log : List Ev) (withUnvisited : Bool) : List Label :=
  log.filterMap (fun e => match e with
    | .exit l => some l
    | .unvisited l => if withUnvisited then some l else none
    | _ => none)

def emplaceAll (c : Circuit) (ls : List Label) (remap : Label → Label) (init : Circuit) : R Circuit :=
  ls.foldl (fun (acc : R Circuit) l => match acc with
    | .error e => .error e
    | .ok n => match c.find? l with
      | none => .error "GateDoesntExistError"
      | some g => n.addGate ⟨g.label, g.ty, g.ops.map remap⟩) (.ok init)

/-- `RemoveRedundantGates(allow_inputs_removal=allow)._transform` -/
def rrg (allow : Bool) (c : Circuit) : R Circuit :=
  match traverse c false false (some c.outputs) false with
  | .error e => .error e
  | .ok log =>
    match emplaceAll c (hookLabels log false) id Circuit.empty with
    | .error e => .error e
    | .ok n1 =>
      match (if allow then .ok n1 else n1.addInputs (c.inputs.filter (fun i => !n1.hasGate i))) with
      | .error e => .error e
      | .ok n2 => match n2.setInputs (c.inputs.filter (fun i => n2.inputs.contains i)) with
        | .error e => .error e
        | .ok n3 => n3.setOutputs c.outputs

def isNotLike (t : GateType) : Bool := t == NOT || t == LNOT || t == RNOT
def isIffLike (t : GateType) : Bool := t == IFF || t == LIFF || t == RIFF
/-- `_unary_to_operand_getter[type](operands)`; `none` = IndexError -/
def unaryOperand (g : Gate) : Option Label :=
  if g.ty == RNOT || g.ty == RIFF then g.ops[1]? else g.ops[0]?

structure MuoMaps where
  even : Dict Label
  odd : Dict Label
  iff : Dict Label

def muoMaps (c : Circuit) (order : List Label) : R MuoMaps :=
  order.foldl (fun (acc : R MuoMaps) l => match acc with
    | .error e => .error e
    | .ok m => match c.find? l with
      | none => .error "GateDoesntExistError"
      | some g =>
        if isNotLike g.ty then
          match unaryOperand g with
          | none => .error "Py:IndexError"
          | some o =>
            let even' := match Dict.get? m.odd o with
              | some p => Dict.set m.even l p
              | none => m.even
            .ok ⟨even', Dict.set m.odd l ((Dict.get? m.even o).getD o), m.iff⟩
        else if isIffLike g.ty then
          match unaryOperand g with
          | none => .error "Py:IndexError"
          | some o => .ok ⟨m.even, m.odd, Dict.set m.iff l ((Dict.get? m.iff o).getD o)⟩
        else .ok m) (.ok ⟨[], [], []⟩)

def muoRemap (c : Circuit) (m : MuoMaps) (l : Label) : Label :=
  match c.find? l with
  | none => l
  | some g => if isNotLike g.ty then (Dict.get? m.even l).getD l
              else if isIffLike g.ty then (Dict.get? m.iff l).getD l else l

/-- `MergeUnaryOperators._transform` -/
def muo (c : Circuit) : R Circuit :=
  match c.topSort true with
  | .cyclic => .error "CircuitIsCyclicalError"
  | .ok order => match muoMaps c order with
    | .error e => .error e
    | .ok m =>
      match traverse c false false (some c.outputs) true with
      | .error e => .error e
      | .ok log =>
        match emplaceAll c (hookLabels log true) (muoRemap c m) Circuit.empty with
        | .error e => .error e
        | .ok n1 => match n1.setInputs c.inputs with
          | .error e => .error e
          | .ok n2 => n2.setOutputs (c.outputs.map (muoRemap c m))

def insertSorted (x : Label) : List Label → List Label
  | [] => [x]
  | y :: r => if x ≤ y then x :: y :: r else y :: insertSorted x r
def sortLabels (l : List Label) : List Label := l.foldr insertSorted []

/-- `_build_signature(type, operands)` -/
def signature (ty : GateType) (ops : List Label) : GateType × List Label :=
  (ty, if Gen.isSymmetric ty then sortLabels ops else ops)

structure MdgSt where
  n : Circuit
  sigs : List ((GateType × List Label) × Label)

def mdgNewName (st : MdgSt) (l : Label) : R Label :=
  match st.n.find? l with
  | none => .error "GateDoesntExistError"
  | some g => match st.sigs.lookup (signature g.ty g.ops) with
    | some d => .ok d
    | none => .ok l

def mapR {α β} (f : α → R β) : List α → R (List β)
  | [] => .ok []
  | x :: r => match f x with
    | .error e => .error e
    | .ok y => match mapR f r with
      | .error e => .error e
      | .ok ys => .ok (y :: ys)

/-- one step of the rebuild loop of `MergeDuplicateGates._transform` -/
def mdgStep (c : Circuit) (acc : R MdgSt) (l : Label) : R MdgSt :=
  match acc with
  | .error e => .error e
  | .ok st => match c.find? l with
    | none => .error "GateDoesntExistError"
    | some g =>
      if g.ty = INPUT then
        match st.n.addInputs [g.label] with
        | .error e => .error e
        | .ok n' => .ok ⟨n', st.sigs⟩
      else match mapR (mdgNewName st) g.ops with
        | .error e => .error e
        | .ok ops =>
          let sig := signature g.ty ops
          let sigs' := if (st.sigs.lookup sig).isSome then st.sigs else st.sigs ++ [(sig, g.label)]
          match st.n.addGate ⟨g.label, g.ty, ops⟩ with
          | .error e => .error e
          | .ok n' => .ok ⟨n', sigs'⟩

/-- `MergeDuplicateGates._transform` -/
def mdg (c : Circuit) : R Circuit :=
  match traverse c false false (some c.outputs) true with
  | .error e => .error e
  | .ok log =>
    match (hookLabels log true).foldl (mdgStep c) (.ok ⟨Circuit.empty, []⟩) with
    | .error e => .error e
    | .ok st => match st.n.setInputs c.inputs with
      | .error e => .error e
      | .ok n2 => match mapR (mdgNewName ⟨n2, st.sigs⟩) c.outputs with
        | .error e => .error e
        | .ok outs => n2.setOutputs outs

/-- the accumulation of `_find_equivalent_gates_groups`: rows with the labels carrying them -/
def megGroupStep (gs : List (List V3 × List Label)) (p : Label × List V3) : List (List V3 × List Label) :=
  if gs.any (fun q => q.1 == p.2) then gs.map (fun q => if q.1 == p.2 then (q.1, q.2 ++ [p.1]) else q)
  else gs ++ [(p.2, [p.1])]

def megIndexStep (d : Dict Nat) (q : (List V3 × List Label) × Nat) : Dict Nat :=
  q.1.2.foldl (fun d l => Dict.set d l q.2) d

/-- `_find_equivalent_gates_groups`: label → index of its group (groups with ≥ 2 members) -/
def megGroups (c : Circuit) : R (Dict Nat) :=
  match gatesTruthTable c with
  | .error e => .error e
  | .ok gtt =>
    let groups := gtt.foldl megGroupStep []
    let big := groups.filter (fun q => q.2.length > 1)
    .ok ((big.zipIdx).foldl megIndexStep [])

abbrev Keep := List (Nat × Label)

/-- `_get_gate_new_name` with the lazily chosen `_Keep` representatives (state: group → label) -/
def megName (groups : Dict Nat) (keep : Keep) (l : Label) : Label × Keep :=
  match Dict.get? groups l with
  | none => (l, keep)
  | some gid => match keep.lookup gid with
    | some r => (r, keep)
    | none => (l, keep ++ [(gid, l)])

def megNames (groups : Dict Nat) (keep : Keep) : List Label → List Label × Keep
  | [] => ([], keep)
  | l :: r =>
    let (x, k1) := megName groups keep l
    let (xs, k2) := megNames groups k1 r
    (x :: xs, k2)

/-- one step of the rebuild loop of `MergeEquivalentGates._transform` -/
def megStep (c : Circuit) (groups : Dict Nat) (acc : R (Circuit × Keep)) (l : Label) : R (Circuit × Keep) :=
  match acc with
  | .error e => .error e
  | .ok (n, keep) => match c.find? l with
    | none => .error "GateDoesntExistError"
    | some g =>
      let (ops, keep') := megNames groups keep g.ops
      match n.addGate ⟨g.label, g.ty, ops⟩ with
      | .error e => .error e
      | .ok n' => .ok (n', keep')

/-- `MergeEquivalentGates._transform` -/
def meg (c : Circuit) : R Circuit :=
  match megGroups c with
  | .error e => .error e
  | .ok groups =>
    match traverse c false false (some c.outputs) true with
    | .error e => .error e
    | .ok log =>
      match (hookLabels log true).foldl (megStep c groups) (.ok (Circuit.empty, [])) with
      | .error e => .error e
      | .ok (n1, keep) => match n1.setInputs c.inputs with
        | .error e => .error e
        | .ok n2 => n2.setOutputs (megNames groups keep c.outputs).1

/-! ## transformers and pipelines -/

inductive Tr
  | rrg (allow : Bool)
  | muo | mdg | meg
  | comp (ts : List Tr)
  deriving Repr

/-- `Transformer.as_distinct(imply_deps=True)` / `linearize_transformers` -/
def linearize : Tr → List Tr
  | .rrg a => [.rrg a]
  | .muo => [.muo, .rrg false]
  | .mdg => [.mdg, .rrg false]
  | .meg => [.meg, .rrg false]
  | .comp ts => linearizeList ts
where linearizeList : List Tr → List Tr
  | [] => []
  | t :: r => linearize t ++ linearizeList r

/-- `t1 | t2` (`__or__` / `__ror__`): the two operands' own transformer lists, concatenated
(`as_distinct(imply_deps=False)`); dependencies are implied when the composition is applied -/
def Tr.or (a b : Tr) : Tr :=
  .comp ((match a with | .comp ta => ta | a => [a]) ++ (match b with | .comp tb => tb | b => [b]))

/-- `__eq__` restricted to what the reduction uses: only an idempotent transformer equal to its
predecessor is dropped, and only `RemoveRedundantGates` is idempotent -/
def sameIdem : Tr → Tr → Bool
  | .rrg a, .rrg b => a == b
  | _, _ => false

/-- `linearize_reduce_transformers` -/
def reduceIdem : Option Tr → List Tr → List Tr
  | _, [] => []
  | prev, t :: r =>
    match prev with
    | some p => if sameIdem t p then reduceIdem prev r else t :: reduceIdem (some t) r
    | none => t :: reduceIdem (some t) r

def transform1 (t : Tr) (c : Circuit) : R Circuit :=
  match t with
  | .rrg a => rrg a c
  | .muo => muo c
  | .mdg => mdg c
  | .meg => meg c
  | .comp _ => .error "unreachable: compositions are linearised"

/-- `Transformer.apply_transformers(circuit, transformers)` -/
def applyTransformers (c : Circuit) (ts : List Tr) : R Circuit :=
  (reduceIdem none (linearize.linearizeList ts)).foldl (fun (acc : R Circuit) t => match acc with
    | .error e => .error e
    | .ok c' => transform1 t c') (.ok c)

/-- `cleanup(circuit, use_heavy=…)` -/
def cleanup (c : Circuit) (heavy : Bool) : R Circuit :=
  applyTransformers c ([.rrg false, .muo, .mdg] ++ (if heavy then [.meg] else []))

end Cirbo
