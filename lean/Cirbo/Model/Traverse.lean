import Cirbo.Model.TopSort
/-!
# Model of `Circuit._traverse_circuit` (`dfs` / `bfs`), hooks as an event log
One work list serves both modes (`pop_index = -1` for DFS, `0` for BFS); three node states.
-/
namespace Cirbo

inductive TState | unv | ent | vis
  deriving DecidableEq, Repr, Inhabited

def TState.toStr : TState → String | .unv => "UNVISITED" | .ent => "ENTERED" | .vis => "VISITED"

inductive Ev
  | enter (l : Label) | discover (l : Label) (s : TState) | exit (l : Label) | yield (l : Label)
  | unvisited (l : Label) | done
  deriving DecidableEq, Repr

def setSt (f : Label → TState) (k : Label) (v : TState) : Label → TState :=
  fun l => if l = k then v else f l

structure TrSt where
  queue : List Label
  st : Label → TState
  log : List Ev

inductive StepRes
  | finished
  | next (s : TrSt)
  | error (e : String)

/-- one iteration of `while queue:` -/
def childProblem (c : Circuit) (abortOnEnt : Bool) (st : Label → TState) : List Label → Option String
  | [] => none
  | x :: r =>
    if !c.hasGate x then some "GateDoesntExistError"
    else if abortOnEnt && st x = .ent then some "CircuitValidationError"
    else childProblem c abortOnEnt st r

def trStep (c : Circuit) (bfs abortOnEnt : Bool) (next : Label → List Label) (s : TrSt) : StepRes :=
  match (if bfs then s.queue.head? else s.queue.getLast?) with
  | none => .finished
  | some cur =>
    if !c.hasGate cur then .error "GateDoesntExistError" else
    let pop := fun (q : List Label) => if bfs then q.tail else q.dropLast
    match s.st cur with
    | .unv =>
      let st' := setSt s.st cur .ent
      let ch := next cur
      match childProblem c abortOnEnt st' ch with
      | some e => .error e
      | none =>
      let pushed := ch.filter (fun x => st' x = .unv)
      let evs := [Ev.enter cur] ++ ch.map (fun x => Ev.discover x (st' x)) ++ [Ev.yield cur]
      if bfs then .next ⟨(s.queue ++ pushed).tail, setSt st' cur .vis, s.log ++ evs⟩
      else .next ⟨s.queue ++ pushed, st', s.log ++ evs⟩
    | .ent => .next ⟨pop s.queue, setSt s.st cur .vis, s.log ++ [Ev.exit cur]⟩
    | .vis => .next ⟨pop s.queue, s.st, s.log⟩

def trLoop (c : Circuit) (bfs abortOnEnt : Bool) (next : Label → List Label) :
    Nat → TrSt → Except String TrSt
  | 0, _ => .error "fuel"
  | fuel+1, s => match trStep c bfs abortOnEnt next s with
    | .finished => .ok s
    | .error e => .error e
    | .next s' => trLoop c bfs abortOnEnt next fuel s'

def totalDeg (c : Circuit) (next : Label → List Label) : Nat :=
  (c.labels.map (fun l => (next l).length)).foldl (· + ·) 0

/-- `list(circuit.dfs/bfs(start, inverse=..., hooks..., topsort_unvisited=...))` as the event log -/
def traverse (c : Circuit) (bfs inverse : Bool) (start : Option (List Label)) (topsortUnv : Bool)
    (abortOnEnt : Bool := false) : Except String (List Ev) :=
  if c.gates.isEmpty then .ok [] else
  let next := if inverse then c.usersOf else c.opsOf
  let q0 := start.getD (if inverse then c.inputs else c.outputs)
  match trLoop c bfs abortOnEnt next (2 * (q0.length + c.gates.length + totalDeg c next) + 2)
      ⟨q0, fun _ => .unv, []⟩ with
  | .error e => .error e
  | .ok s =>
    if topsortUnv then
      match c.topSort true with
      | .cyclic => .error "CircuitIsCyclicalError"
      | .ok order =>
        .ok (s.log ++ (order.filter (fun l => s.st l = .unv)).map Ev.unvisited ++ [Ev.done])
    else
      .ok (s.log ++ (c.labels.filter (fun l => s.st l = .unv)).map Ev.unvisited ++ [Ev.done])

/-- `check_circuit_has_no_cycles(circuit, start_gates)`: DFS from the start gates (the outputs when
`None`) whose discover hook raises `CircuitValidationError` on an ENTERED gate. `true` = the check raises. -/
def hasCycleCheckFrom (c : Circuit) (start : Option (List Label)) : Except String Bool :=
  match traverse c false false start false true with
  | .error "CircuitValidationError" => .ok true
  | .error e => .error e
  | .ok _ => .ok false

/-- the default call (`start_gates=None`): from the outputs -/
abbrev hasCycleCheck (c : Circuit) : Except String Bool := hasCycleCheckFrom c none

end Cirbo
