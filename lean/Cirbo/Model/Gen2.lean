import Cirbo.Model.Gen
/-!
# Generators of `subtraction.py`, `equality.py`, `div_mod.py`, `sqrt.py` and `generation.py`
-/
namespace Cirbo
open GateType

/-- `for i in xs: state = f(state, i)` -/
def progFold {σ : Type} : List Nat → σ → (σ → Nat → Prog σ) → Prog σ
  | [], s, _ => pure s
  | i :: r, s, f => do
    let s' ← f s i
    progFold r s' f

/-! ## `subtraction.py` -/

def addSub2 (ins : List Label) (bigEndian : Bool) : Prog (List Label) :=
  match revIf ins bigEndian with
  | [x1, x2] => do
    let g1 ← emitTT x1 x2 t0110
    let g2 ← emitTT x1 x2 t0100
    pure [g1, g2]
  | _ => .fail "DifferentShapesError"

def addSub3 (ins : List Label) (bigEndian : Bool) : Prog (List Label) :=
  match revIf ins bigEndian with
  | [x0, x1, x2] => do
    let x3 ← emitTT x0 x1 t0110
    let x4 ← emitTT x1 x2 t0110
    let x5 ← emitTT x3 x4 t0111
    let x6 ← emitTT x2 x3 t0110
    let x7 ← emitTT x0 x5 t0110
    pure [x6, x7]
  | _ => .fail "DifferentShapesError"

/-- the borrow chain of `add_sub_two_numbers`: `a` bits left, aligned `b` bits left, results, borrow -/
def subChain : List Label → List Label → List Label → Label → Prog (List Label × Label)
  | [], _, res, bal => pure (res, bal)
  | x :: xs, ys, res, bal => do
    let r ← (match ys with
      | y :: _ => addSub3 [x, y, bal] false
      | [] => addSub2 [x, bal] false)
    let (d, b') ← pair2 r
    subChain xs ys.tail (res ++ [d]) b'

/-- little-endian core shared by `add_sub_two_numbers` and `add_subtract_with_compare` -/
def subCore (a b : List Label) : Prog (List Label × Label) :=
  match a, b with
  | x :: xs, y :: ys => do
    let (d, bal) ← pair2 (← addSub2 [x, y] false)
    subChain xs ys [d] bal
  | _, _ => .fail "Py:IndexError"

/-- `add_sub_two_numbers` -/
def addSubTwoNumbers (a b : List Label) (bigEndian : Bool) : Prog (List Label) := do
  let (res, _) ← subCore (revIf a bigEndian) (revIf b bigEndian)
  pure (revIf res bigEndian)

/-- `add_subtract_with_compare`: pad the shorter operand with constant-false bits on the
most-significant side, subtract, return the difference and the final borrow -/
def addSubtractWithCompare (a b : List Label) (bigEndian : Bool) : Prog (List Label × Label) :=
  match a, b with
  | x :: _, y :: _ => do
    let af ← emitTT x y t0000
    let a0 := revIf a bigEndian
    let b0 := revIf b bigEndian
    let n := max a0.length b0.length
    let a1 := a0 ++ List.replicate (n - a0.length) af
    let b1 := b0 ++ List.replicate (n - b0.length) af
    let (res, bal) ← subCore a1 b1
    pure (revIf res bigEndian, bal)
  | _, _ => .fail "Py:IndexError"

/-! ## `equality.py` -/

/-- little-endian binary digits of `num`, at least one digit (`bin(num)[2:][::-1]`) -/
def binDigitsLE : Nat → Nat → List Bool
  | 0, _ => []
  | fuel + 1, n => if n < 2 then [n == 1] else (n % 2 == 1) :: binDigitsLE fuel (n / 2)

/-- `bin(num)[2:].zfill(width)[::-1]` -/
def eqBits (num width : Nat) : List Bool :=
  let d := binDigitsLE (num + 1) num
  d ++ List.replicate (width - d.length) false

def eqLiterals : List Bool → List Label → List Label → Prog (List Label)
  | bit :: bits, inp :: ins, acc =>
    if bit then eqLiterals bits ins (acc ++ [inp]) else do
      let l ← emit NOT [inp] rfl
      eqLiterals bits ins (acc ++ [l])
  | _, _, acc => pure acc

def andChain : List Label → Label → Prog Label
  | [], last => pure last
  | o :: r, last => do
    let l ← emit AND [last, o] rfl
    andChain r l

/-- `add_equal` -/
def addEqual (ins : List Label) (num : Nat) : Prog Label :=
  let bits := eqBits num ins.length
  if bits.length > ins.length then emit ALWAYS_FALSE [] rfl else do
    let lits ← eqLiterals bits ins []
    -- `last_label = generate_random_label(circuit)` is drawn before the length test
    .fresh [] (fun last =>
      match lits with
      | [g] => pure g
      | g0 :: g1 :: rest => .add ⟨last, AND, [g0, g1]⟩ rfl (andChain rest last)
      | [] => .fail "Py:IndexError")

/-- `add_equal` with any integer constant: a negative constant is treated like one that does not fit -/
def addEqualZ (ins : List Label) (num : Int) : Prog Label :=
  match num with
  | .ofNat n => addEqual ins n
  | .negSucc _ => emit ALWAYS_FALSE [] rfl

/-! ## `generation.py` -/

/-- `_get_new_labels(circuit, n, other_restrictions=restr)` -/
def freshLabels : Nat → List Label → List Label → Prog (List Label)
  | 0, _, acc => pure acc
  | n + 1, restr, acc => .fresh (restr ++ acc) (fun l => freshLabels n restr (acc ++ [l]))

/-- `for i in range(n): result_labels.append(_get_new_label(circuit))` -/
def freshPlain : Nat → List Label → Prog (List Label)
  | 0, acc => pure acc
  | n + 1, acc => .fresh [] (fun l => freshPlain n (acc ++ [l]))

def markAll : List Label → Prog Unit
  | [] => pure ()
  | l :: r => .mark l (markAll r)

/-- the loop of `add_plus_one` for positions `i ≥ 1`, walking the remaining operand bits, result
labels and carry labels in step (`cprev = carries[i-1]`; `ended` = some earlier position already
was `i == inp_len`) -/
def plusOneLoop : List Label → List Label → List Label → Label → Bool → Prog Unit
  | _, [], _, _, _ => pure ()
  | x :: xs, z :: zs, cs, cprev, ended =>
    match cs with
    | ci :: cr =>
      let rest := .add ⟨z, XOR, [x, cprev]⟩ rfl (plusOneLoop xs zs cr ci ended)
      if zs.isEmpty then rest else .add ⟨ci, AND, [x, cprev]⟩ rfl rest
    | [] => .fail "Py:IndexError"
  | [], z :: zs, cs, cprev, false =>
    .add ⟨z, IFF, [cprev]⟩ rfl (plusOneLoop [] zs cs.tail (cs.headD cprev) true)
  | [], z :: zs, cs, cprev, true =>
    .add ⟨z, ALWAYS_FALSE, []⟩ rfl (plusOneLoop [] zs cs.tail cprev true)

/-- `add_plus_one` -/
def addPlusOne (ins : List Label) (resultLabels : Option (List Label)) (addOutputs bigEndian : Bool) :
    Prog (List Label) := do
  let inpLen := ins.length
  let given ← (match resultLabels with
    | some l => pure l
    | none => freshPlain (inpLen + 1) [])
  let ins0 := revIf ins bigEndian
  let res0 := revIf given bigEndian
  let outLen := res0.length
  let carries ← freshLabels outLen res0 []
  match carries, ins0, res0 with
  | c0 :: cr, x0 :: xs, z0 :: zs =>
    .add ⟨c0, IFF, [x0]⟩ rfl (.add ⟨z0, NOT, [x0]⟩ rfl (do
      plusOneLoop xs zs cr c0 false
      if addOutputs then markAll given
      pure given))
  | _, _, _ => .fail "Py:IndexError"

/-- `add_if_then_else` -/
def addIfThenElse (i t e : Label) (resultLabel : Option Label) (addOutputs : Bool) : Prog Label := do
  let res ← (match resultLabel with
    | some l => pure l
    | none => .fresh [] (fun l => pure l))
  let tmp ← freshLabels 3 [res] []
  match tmp with
  | [t0, t1, t2] =>
    .add ⟨t0, AND, [i, t]⟩ rfl (.add ⟨t1, NOT, [i]⟩ rfl (.add ⟨t2, AND, [t1, e]⟩ rfl
      (.add ⟨res, OR, [t0, t2]⟩ rfl (if addOutputs then .mark res (pure res) else pure res))))
  | _ => .fail "Py:IndexError"

def iteLoop (addOutputs : Bool) : List Label → List Label → List Label → List Label → Prog Unit
  | i :: is, t :: ts, e :: es, r :: rs => do
    let _ ← addIfThenElse i t e (some r) addOutputs
    iteLoop addOutputs is ts es rs
  | _, _, _, _ => pure ()

/-- `add_pairwise_if_then_else` -/
def addPairwiseIfThenElse (is ts es : List Label) (resultLabels : Option (List Label)) (addOutputs : Bool) :
    Prog (List Label) :=
  if is.length != ts.length || ts.length != es.length then .fail "PairwiseIfThenElseDifferentShapesError" else do
    let res ← (match resultLabels with
      | some l => pure l
      | none => freshPlain is.length [])
    if res.length != is.length then .fail "PairwiseIfThenElseDifferentShapesError" else do
      iteLoop addOutputs is ts es res
      pure res

def xorLoop (addOutputs : Bool) : List Label → List Label → List Label → Prog Unit
  | x :: xs, y :: ys, r :: rs =>
    .add ⟨r, XOR, [x, y]⟩ rfl (if addOutputs then .mark r (xorLoop addOutputs xs ys rs) else xorLoop addOutputs xs ys rs)
  | _, _, _ => pure ()

/-- `add_pairwise_xor` -/
def addPairwiseXor (xs ys : List Label) (resultLabels : Option (List Label)) (addOutputs : Bool) : Prog (List Label) :=
  if xs.length != ys.length then .fail "PairwiseXorDifferentShapesError" else do
    let res ← (match resultLabels with
      | some l => pure l
      | none => freshPlain xs.length [])
    if res.length != xs.length then .fail "PairwiseXorDifferentShapesError" else do
      xorLoop addOutputs xs ys res
      pure res

/-! ## `div_mod.py` -/

/-- `now[k] = OR(AND(sel, sub[j]), GT(now[k], sel))` for the aligned positions -/
def muxLoop (sel : Label) : List Label → List Label → List Label → Prog (List Label)
  | s :: subs, x :: xs, acc => do
    let g1 ← emitTT sel s t0001
    let g2 ← emitTT x sel t0010
    let g3 ← emitTT g1 g2 t0111
    muxLoop sel subs xs (acc ++ [g3])
  | _, xs, acc => pure (acc ++ xs)

def prefLoop (b : List Label) : List Nat → List Label → Prog (List Label)
  | [], pref => pure pref
  | i :: r, pref =>
    match pref.getLast?, b[i]? with
    | some p, some bi => do
      let g ← emitTT p bi t0111
      prefLoop b r (pref ++ [g])
    | _, _ => .fail "Py:IndexError"

def andAll (m : Label) : List Label → List Label → Prog (List Label)
  | [], acc => pure acc
  | x :: r, acc => do
    let g ← emitTT x m t0001
    andAll m r (acc ++ [g])

/-- `add_div_mod` -/
def addDivMod (a b : List Label) (bigEndian : Bool) : Prog (List Label × List Label) := do
  let a0 := revIf a bigEndian
  let b0 := revIf b bigEndian
  if a0.length != b0.length then .fail "DifferentShapesError" else
  let n := a0.length
  match b0.getLast? with
  | none => .fail "Py:IndexError"
  | some bTop => do
    let pref ← prefLoop b0 ((List.range (n - 1)).drop 1).reverse [bTop]
    -- `for i in range(n - 1, 0, -1)`
    let (result, now) ← progFold ((List.range n).drop 1).reverse (List.replicate n Gen.placeholderStr, a0)
      (fun (st : List Label × List Label) i => do
        let (result, now) := st
        match pref[i - 1]? with
        | none => .fail "Py:IndexError"
        | some prov => do
          let m := n - i
          let (subRes, per) ← addSubtractWithCompare (now.drop (n - m)) (b0.take m) false
          let ri ← emitTT prov per t1000
          let hi ← muxLoop ri subRes (now.drop (n - m)) []
          pure (result.set i ri, now.take (n - m) ++ hi))
    let (subRes, per) ← addSubtractWithCompare now b0 false
    let r0 ← emitTT per per t1000
    let now1 ← muxLoop r0 subRes now []
    let result1 := result.set 0 r0
    match pref.getLast?, b0 with
    | some p, bLow :: _ => do
      let nz ← emitTT p bLow t0111
      let result2 ← andAll nz result1 []
      let now2 ← andAll nz now1 []
      pure (revIf result2 bigEndian, revIf now2 bigEndian)
    | _, _ => .fail "Py:IndexError"

/-! ## `sqrt.py` -/

/-- `v[i] = OR(LT(per, new[i - off]), AND(v[i], per))` for `i ≥ off` -/
def selLoop (per : Label) : List Label → List Label → List Label → Prog (List Label)
  | nw :: nws, x :: xs, acc => do
    let g1 ← emitTT per nw t0100
    let g2 ← emitTT x per t0001
    let g3 ← emitTT g1 g2 t0111
    selLoop per nws xs (acc ++ [g3])
  | [], x :: _, _ => .fail "Py:IndexError"
  | _, [], acc => pure acc

/-- `add_sqrt` -/
def addSqrt (ins : List Label) (bigEndian : Bool) : Prog (List Label) :=
  let x0 := revIf ins bigEndian
  match x0 with
  | [] => .fail "Py:IndexError"
  | first :: _ => do
    let zero ← emitTT first first t0110
    let uno ← emitTT first first t1001
    let n0 := x0.length
    let odd := n0 % 2 == 1
    let half := n0 / 2 + (if odd then 1 else 0)
    let n := if odd then n0 + 1 else n0
    let x1 := if odd then x0 ++ [zero] else x0
    let (_, c) ← progFold (List.range half).reverse (x1, List.replicate n zero)
      (fun (st : List Label × List Label) s => do
        let (x, c) := st
        let sm0 ← addSumTwoNumbers (c.drop (2 * s)) [uno] false
        let sm := sm0.dropLast
        let (subRes, per) ← addSubtractWithCompare (x.drop (2 * s)) sm false
        let xhi ← selLoop per subRes (x.drop (2 * s)) []
        let x' := x.take (2 * s) ++ xhi
        let c1 := c.drop 1 ++ [zero]
        let sm1 ← addSumTwoNumbers (c1.drop (2 * s)) [uno] false
        let chi ← selLoop per sm1.dropLast (c1.drop (2 * s)) []
        pure (x', c1.take (2 * s) ++ chi))
    pure (revIf (c.take half) bigEndian)

end Cirbo
