import Cirbo.Basic
import Cirbo.Generated.OpTables
/-!
# Model of `operators.py` / `GateType.operator`

The *shape* is hand-written after the Python (`functools.reduce` over a binary table,
`not_` applied to the reduction, fixed-arity lookups); the *tables* are the generated ones,
i.e. what the code returns now.  `none` = the Python call raises.
-/
namespace Cirbo
open GateType

def lk1 (ty : GateType) (a : V3) : Option V3 := ((Gen.op1 ty)[a.idx]?).join
def lk2 (ty : GateType) (a b : V3) : Option V3 := ((Gen.op2 ty)[3 * a.idx + b.idx]?).join
def lk3 (ty : GateType) (a b c : V3) : Option V3 :=
  ((Gen.op3 ty)[9 * a.idx + 3 * b.idx + c.idx]?).join

/-- `functools.reduce(table, (acc, *xs))` -/
def foldOp (ty : GateType) : V3 → List V3 → Option V3
  | acc, [] => some acc
  | acc, x :: xs => (lk2 ty acc x).bind (fun r => foldOp ty r xs)

/-- `gate.operator(*args)` -/
def applyOp : GateType → List V3 → Option V3
  | .INPUT, _ => none
  | .ALWAYS_TRUE, _ => Gen.op0 .ALWAYS_TRUE
  | .ALWAYS_FALSE, _ => Gen.op0 .ALWAYS_FALSE
  | .NOT, [a] => lk1 .NOT a
  | .IFF, [a] => lk1 .IFF a
  | .AND, a :: b :: r => foldOp .AND a (b :: r)
  | .OR, a :: b :: r => foldOp .OR a (b :: r)
  | .XOR, a :: b :: r => foldOp .XOR a (b :: r)
  | .NAND, a :: b :: r => (foldOp .AND a (b :: r)).bind (lk1 .NOT)
  | .NOR, a :: b :: r => (foldOp .OR a (b :: r)).bind (lk1 .NOT)
  | .NXOR, a :: b :: r => (foldOp .XOR a (b :: r)).bind (lk1 .NOT)
  | .GT, [a, b] => lk2 .GT a b
  | .LT, [a, b] => lk2 .LT a b
  | .GEQ, [a, b] => lk2 .GEQ a b
  | .LEQ, [a, b] => lk2 .LEQ a b
  | .LIFF, [a, b] => lk2 .LIFF a b
  | .RIFF, [a, b] => lk2 .RIFF a b
  | .LNOT, [a, b] => lk2 .LNOT a b
  | .RNOT, [a, b] => lk2 .RNOT a b
  | _, _ => none

end Cirbo
