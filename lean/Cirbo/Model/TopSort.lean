import Cirbo.Basic
/-!
# Model of `Circuit.top_sort` (Kahn's algorithm, LIFO work list, multiset successor lists)

The algorithm is written once over an abstract graph (`pre`/`succ` lists) and instantiated for
both directions: `inverse=True` (predecessors = operands, successors = users) and
`inverse=False` (predecessors = users, successors = operands).
The in-degree map is a function (its order is not observable); the work list and the
successor lists are lists, exactly as in the Python.
-/
namespace Cirbo

structure Graph where
  nodes : List Label
  pre : Label → List Label
  succ : Label → List Label

def upd (f : Label → Nat) (k : Label) (v : Nat) : Label → Nat := fun l => if l = k then v else f l

/-- inner loop `for successor in successors(cur): indegree[successor] -= 1; if 0: push`.
Python's counter may go negative on an inconsistent index and is then never pushed again;
the `Nat` model keeps it at 0 without pushing, which is observationally the same. -/
def relax (indeg : Label → Nat) (queue : List Label) : List Label → (Label → Nat) × List Label
  | [] => (indeg, queue)
  | s :: rest =>
    if indeg s = 0 then relax indeg queue rest
    else
      let d := indeg s - 1
      relax (upd indeg s d) (if d = 0 then queue ++ [s] else queue) rest

structure KState where
  indeg : Label → Nat
  queue : List Label
  out   : List Label

def kstep (G : Graph) (st : KState) : Option KState :=
  match st.queue.getLast? with
  | none => none
  | some cur =>
    let r := relax st.indeg st.queue.dropLast (G.succ cur)
    some { indeg := r.1, queue := r.2, out := st.out ++ [cur] }

def kahnLoop (G : Graph) : Nat → KState → KState
  | 0, st => st
  | fuel+1, st => match kstep G st with
    | none => st
    | some st' => kahnLoop G fuel st'

def initState (G : Graph) : KState :=
  { indeg := fun l => (G.pre l).length
    queue := G.nodes.filter (fun l => (G.pre l).length = 0)
    out := [] }

def kahn (G : Graph) : List Label := (kahnLoop G G.nodes.length (initState G)).out

namespace Circuit

def opsOf (c : Circuit) (l : Label) : List Label := ((c.find? l).map (·.ops)).getD []

/-- graph for `top_sort(inverse=True)`: from inputs to outputs -/
def graphInv (c : Circuit) : Graph := ⟨c.labels, c.opsOf, c.usersOf⟩
/-- graph for `top_sort(inverse=False)`: from outputs to inputs -/
def graphDir (c : Circuit) : Graph := ⟨c.labels, c.usersOf, c.opsOf⟩

inductive TopSortResult
  | ok (order : List Label)
  | cyclic
  deriving Repr, DecidableEq

/-- `list(Circuit.top_sort(inverse=...))` -/
def topSort (c : Circuit) (inverse : Bool) : TopSortResult :=
  let G := if inverse then c.graphInv else c.graphDir
  if c.gates.isEmpty then .ok []
  else if (initState G).queue.isEmpty then .cyclic
  else .ok (kahn G)

end Circuit
end Cirbo
