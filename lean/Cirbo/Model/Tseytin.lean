import Cirbo.Basic
import Cirbo.Model.Dict
/-!
# Model of `cirbo.sat.cnf.tseytin`
Clause templates (shape after the Python, one function per `_process_*`) and the literal
allocation / recursion of `tseytin_transformation`.
-/
namespace Cirbo
open GateType

abbrev Clause := List Int
abbrev Cnf := List Clause

/-- `itertools.product((True, False), repeat=k)` -/
def tfProduct : Nat → List (List Bool)
  | 0 => [[]]
  | n+1 => (tfProduct n).map (true :: ·) ++ (tfProduct n).map (false :: ·)

def parityOf (vals : List Bool) : Bool := vals.foldl xor false

/-- `_process_parity` -/
def parityClauses (top : Int) (lits : List Int) (negate : Bool) : Cnf :=
  (tfProduct lits.length).map (fun vals =>
    (lits.zip vals).map (fun p => if p.2 then -p.1 else p.1)
      ++ [if (parityOf vals != negate) then top else -top])

/-- clause template of every gate type (`_operations[gate_type](cnf, top_lit, lits)`);
`none` = IndexError -/
def tsTemplate (ty : GateType) (top : Int) (lits : List Int) : Option Cnf :=
  match ty with
  | INPUT => some []
  | ALWAYS_TRUE => some [[top]]
  | ALWAYS_FALSE => some [[-top]]
  | NOT | LNOT => match lits with
    | a :: _ => some [[a, top], [-a, -top]]
    | _ => none
  | RNOT => match lits with
    | _ :: b :: _ => some [[b, top], [-b, -top]]
    | _ => none
  | IFF | LIFF => match lits with
    | a :: _ => some [[a, -top], [-a, top]]
    | _ => none
  | RIFF => match lits with
    | _ :: b :: _ => some [[b, -top], [-b, top]]
    | _ => none
  | AND => some (lits.map (fun l => [l, -top]) ++ [top :: lits.map (fun l => -l)])
  | NAND => some (lits.map (fun l => [l, top]) ++ [(-top) :: lits.map (fun l => -l)])
  | OR => some (lits.map (fun l => [-l, top]) ++ [(-top) :: lits])
  | NOR => some (lits.map (fun l => [-l, -top]) ++ [top :: lits])
  | XOR => some (parityClauses top lits false)
  | NXOR => some (parityClauses top lits true)
  | GT => match lits with
    | a :: b :: _ => some [[a, -top], [-b, -top], [-a, b, top]]
    | _ => none
  | .LT => match lits with
    | a :: b :: _ => some [[-a, -top], [b, -top], [a, -b, top]]
    | _ => none
  | GEQ => match lits with
    | a :: b :: _ => some [[-a, top], [b, top], [a, -b, -top]]
    | _ => none
  | LEQ => match lits with
    | a :: b :: _ => some [[a, top], [-b, top], [-a, b, -top]]
    | _ => none

structure TsSt where
  lits : Dict Nat          -- `saved_lits`
  next : Nat               -- `next_lit`
  cnf : Cnf

/-- `[process_gate(op) for op in operands]` given `process_gate` -/
def processOps (pg : Label → TsSt → Except String (TsSt × Nat)) :
    List Label → TsSt → Except String (TsSt × List Nat)
  | [], st => .ok (st, [])
  | o :: r, st => match pg o st with
    | .error e => .error e
    | .ok (st1, k) => match processOps pg r st1 with
      | .error e => .error e
      | .ok (st2, ks) => .ok (st2, k :: ks)

/-- `process_gate(label)`; fuel = recursion depth allowed -/
def processGate (c : Circuit) : Nat → Label → TsSt → Except String (TsSt × Nat)
  | 0, _, _ => .error "Py:RecursionError"
  | fuel+1, l, st =>
    match st.lits.get? l with
    | some k => .ok (st, k)
    | none =>
      match c.find? l with
      | none => .error "GateDoesntExistError"
      | some g =>
        match processOps (processGate c fuel) g.ops st with
        | .error e => .error e
        | .ok (st1, ks) =>
          -- `get_lit(label)`: a defaultdict lookup — allocates unless an operand loop already did
          let (top, lits1, next1) := match st1.lits.get? l with
            | some k => (k, st1.lits, st1.next)
            | none => (st1.next + 1, st1.lits.set l (st1.next + 1), st1.next + 1)
          match tsTemplate g.ty (Int.ofNat top) (ks.map Int.ofNat) with
          | none => .error "Py:IndexError"
          | some cls => .ok (⟨lits1, next1, st1.cnf ++ cls⟩, top)

def tsInit (c : Circuit) : TsSt :=
  c.inputs.foldl (fun st i => match st.lits.get? i with
    | some _ => st
    | none => ⟨st.lits.set i (st.next + 1), st.next + 1, st.cnf⟩) ⟨[], 0, []⟩

def tsOutputs (c : Circuit) : List Nat → TsSt → Except String TsSt
  | [], st => .ok st
  | i :: r, st =>
    match c.outputs[i]? with
    | none => .error "GateDoesntExistError"
    | some o => match processGate c (c.gates.length + 1) o st with
      | .error e => .error e
      | .ok (st1, k) => tsOutputs c r ⟨st1.lits, st1.next, st1.cnf ++ [[Int.ofNat k]]⟩

/-- `tseytin_transformation(circuit, outputs)`: the CNF and the literal map -/
def tseytin (c : Circuit) (outs : Option (List Nat)) : Except String (Cnf × Dict Nat) :=
  match tsOutputs c (outs.getD (List.range c.outputs.length)) (tsInit c) with
  | .error e => .error e
  | .ok st => .ok (st.cnf, st.lits)

end Cirbo
