import Cirbo.Model.Mutate2
/-!
# Model of the five wrappers around `connect_circuit`
`connect_left`, `connect_right`, `connect_inputs`, `extend_circuit`, `add_circuit` — each is the call of
`connect_circuit` its body makes, with the defaults it computes.
-/
namespace Cirbo
namespace Circuit

/-- `connect_left(other, this_connectors, name=, add_prefix=)` -/
def connectLeft (c other : Circuit) (thisC : List Label) (name : Label) (addP : Bool) : R Circuit :=
  c.connectCircuit other thisC other.inputs false name addP

/-- `connect_right(other, other_connectors, name=, add_prefix=)` -/
def connectRight (c other : Circuit) (otherC : List Label) (name : Label) (addP : Bool) : R Circuit :=
  c.connectCircuit other c.inputs otherC true name addP

/-- `connect_inputs(other, name=, add_prefix=)` -/
def connectInputs (c other : Circuit) (name : Label) (addP : Bool) : R Circuit :=
  c.connectCircuit other c.inputs other.inputs true name addP

/-- `extend_circuit(other, this_connectors=None, other_connectors=None, right_connect=, name=, add_prefix=)`:
only an argument that is `None` is replaced by its default (an explicit empty list stays empty) -/
def extendCircuit (c other : Circuit) (thisC otherC : Option (List Label)) (right : Bool) (name : Label)
    (addP : Bool) : R Circuit :=
  c.connectCircuit other (thisC.getD (if right then c.inputs else c.outputs))
    (otherC.getD (if right then other.outputs else other.inputs)) right name addP

/-- `add_circuit(other, name=, add_prefix=)` -/
def addCircuit (c other : Circuit) (name : Label) (addP : Bool) : R Circuit :=
  c.connectCircuit other [] [] false name addP

end Circuit
end Cirbo
