import Cirbo.Model.Mutate2
import Cirbo.Model.Miter
/-!
# Model of the five wrappers around `connect_circuit`
`connect_left`, `connect_right`, `connect_inputs`, `extend_circuit`, `add_circuit` — each is the call of
`connect_circuit` its body makes, with the defaults it computes.
-/
namespace Cirbo
namespace Circuit

/-- `connect_left(other, this_connectors, name=, add_prefix=)` -/
def connectLeft (c other : Circuit) (thisC : List Label) (name : Label) (addP : Bool) : R Circuit :=
  c.connectCircuit other thisC other.inputs false name addP

/-- `connect_right(other, other_connectors, name=, add_prefix=)` -/
def connectRight (c other : Circuit) (otherC : List Label) (name : Label) (addP : Bool) : R Circuit :=
  c.connectCircuit other c.inputs otherC true name addP

/-- `connect_inputs(other, name=, add_prefix=)` -/
def connectInputs (c other : Circuit) (name : Label) (addP : Bool) : R Circuit :=
  c.connectCircuit other c.inputs other.inputs true name addP

/-- `extend_circuit(other, this_connectors=None, other_connectors=None, right_connect=, name=, add_prefix=)`:
only an argument that is `None` is replaced by its default (an explicit empty list stays empty) -/
def extendCircuit (c other : Circuit) (thisC otherC : Option (List Label)) (right : Bool) (name : Label)
    (addP : Bool) : R Circuit :=
  c.connectCircuit other (thisC.getD (if right then c.inputs else c.outputs))
    (otherC.getD (if right then other.outputs else other.inputs)) right name addP

/-- `add_circuit(other, name=, add_prefix=)` -/
def addCircuit (c other : Circuit) (name : Label) (addP : Bool) : R Circuit :=
  c.connectCircuit other [] [] false name addP

/-- one gate of `Block.into_circuit`: `new._emplace_gate(owner.get_gate(label))` -/
def intoStep (c : Circuit) (acc : R Circuit) (l : Label) : R Circuit :=
  match acc with
  | .error e => .error e
  | .ok n => match c.find? l with
    | none => .error "GateDoesntExistError"
    | some g => .ok (n.rawAddGate g)

/-- `Block.into_circuit()`: the block's inputs as INPUT gates, then the block's gates copied from the
owner (`_emplace_gate`: no existence checks while adding), `set_outputs`, then every operand must exist -/
def intoCircuit (c : Circuit) (b : Block) : R Circuit :=
  let c1 := b.inputs.foldl (fun n i => n.rawAddGate ⟨i, GateType.INPUT, []⟩) Circuit.empty
  match b.gates.foldl (intoStep c) (.ok c1) with
  | .error e => .error e
  | .ok c2 => match c2.setOutputs b.outputs with
    | .error e => .error e
    | .ok c3 => if c3.gates.all (fun g => g.ops.all c3.hasGate) then .ok c3 else .error "CircuitValidationError"

/-- `circuit.get_block(name).into_circuit()` -/
def blockIntoCircuit (c : Circuit) (name : Label) : R Circuit :=
  match c.getBlock name with
  | .error e => .error e
  | .ok b => c.intoCircuit b

end Circuit
end Cirbo
