import Cirbo.Model.Ops
/-! three-valued valuations over the model operators (`applyOp`) -/
namespace Cirbo
open GateType

/-- `v` is consistent with the code's three-valued operators under the (partial) input
assignment `a`. -/
def IsVal3 (c : Circuit) (a : Label → V3) (v : Label → V3) : Prop :=
  ∀ g ∈ c.gates, if g.ty = INPUT then v g.label = a g.label
                 else applyOp g.ty (g.ops.map v) = some (v g.label)

end Cirbo
