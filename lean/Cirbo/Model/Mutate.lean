import Cirbo.Basic
import Cirbo.Model.Dict
/-!
# Model of the primitive and simple public mutators of `Circuit`
One Lean function per Python method, same checks in the same order, same error class.
-/
namespace Cirbo
open GateType

abbrev R := Except String

namespace Circuit

def getUsersDict (c : Circuit) : Dict (List Label) := c.users

/-- `_add_user(gate_label, user)` -/
def addUser (c : Circuit) (l user : Label) : Circuit :=
  match Dict.get? c.users l with
  | none => { c with users := Dict.set c.users l [user] }
  | some us => { c with users := Dict.set c.users l (us ++ [user]) }

/-- `_remove_user(gate_label, user)`: removes the first occurrence, if any -/
def removeUser (c : Circuit) (l user : Label) : Circuit :=
  match Dict.get? c.users l with
  | none => c
  | some us => if us.contains user then { c with users := Dict.set c.users l (us.erase user) } else c

/-- `check_gates_exist` -/
def checkGatesExist (c : Circuit) (ls : List Label) : R Unit :=
  if ls.all c.hasGate then .ok () else .error "CircuitValidationError"

/-- `_emplace_gate` / `_add_gate` (identical effect) -/
def rawAddGate (c : Circuit) (g : Gate) : Circuit :=
  let c1 := g.ops.foldl (fun c o => c.addUser o g.label) c
  let gates' := if c1.hasGate g.label
    then c1.gates.map (fun x => if x.label == g.label then g else x) else c1.gates ++ [g]
  { c1 with gates := gates', inputs := if g.ty = INPUT then c1.inputs ++ [g.label] else c1.inputs }

/-- `add_gate` / `emplace_gate` -/
def addGate (c : Circuit) (g : Gate) : R Circuit :=
  if c.hasGate g.label then .error "CircuitValidationError"
  else match c.checkGatesExist g.ops with
    | .error e => .error e
    | .ok _ => .ok (c.rawAddGate g)

/-- `mark_as_output` -/
def markAsOutput (c : Circuit) (l : Label) : R Circuit :=
  if c.hasGate l then .ok { c with outputs := c.outputs ++ [l] } else .error "CircuitValidationError"

/-- `set_outputs` -/
def setOutputs (c : Circuit) (outs : List Label) : R Circuit :=
  match c.checkGatesExist outs with
  | .error e => .error e
  | .ok _ => .ok { c with outputs := outs }

/-- `set_inputs` -/
def setInputs (c : Circuit) (ins : List Label) : R Circuit :=
  match c.checkGatesExist ins with
  | .error e => .error e
  | .ok _ =>
    if c.gates.any (fun g => g.ty == INPUT && !ins.contains g.label) then .error "CircuitValidationError"
    else
      let rec go : List Label → List Label → R (List Label)
        | [], acc => .ok acc
        | i :: r, acc =>
          match c.find? i with
          | none => .error "GateDoesntExistError"
          | some g => if g.ty != INPUT || acc.contains i then .error "CircuitValidationError"
                      else go r (acc ++ [i])
      match go ins [] with
      | .error e => .error e
      | .ok new => .ok { c with inputs := new }

/-- `add_inputs` (stops at the first failing label; earlier ones stay added) -/
def addInputs (c : Circuit) : List Label → R Circuit
  | [] => .ok c
  | i :: r => match c.addGate ⟨i, INPUT, []⟩ with
    | .error e => .error e
    | .ok c' => c'.addInputs r

/-- `utils.order_list` -/
def orderList (ordered old : List Label) : R (List Label) :=
  let rec go : List Label → List Label → List Label → R (List Label × List Label)
    | [], new, oldc => .ok (new, oldc)
    | e :: r, new, oldc =>
      if oldc.contains e then go r (new ++ [e]) (oldc.erase e) else .error "CircuitGateIsAbsentError"
  match go ordered [] old with
  | .error e => .error e
  | .ok (new, oldc) => if new.length == old.length then .ok new else .ok (new ++ oldc)

def orderInputs (c : Circuit) (ins : List Label) : R Circuit :=
  match orderList ins c.inputs with
  | .error e => .error e
  | .ok l => .ok { c with inputs := l }

def orderOutputs (c : Circuit) (outs : List Label) : R Circuit :=
  match orderList outs c.outputs with
  | .error e => .error e
  | .ok l => .ok { c with outputs := l }

def deleteBlock (c : Circuit) (name : Label) : R Circuit :=
  if c.blocks.any (fun b => b.name == name)
  then .ok { c with blocks := c.blocks.filter (fun b => !(b.name == name)) }
  else .error "Py:KeyError"

/-- `_remove_gate` (no checks) -/
def rawRemoveGate (c : Circuit) (l : Label) : R Circuit :=
  match c.find? l with
  | none => .error "GateDoesntExistError"
  | some g =>
    let c1 := g.ops.foldl (fun c o => c.removeUser o l) c
    let c2 := { c1 with users := Dict.erase c1.users l, gates := c1.gates.filter (fun x => !(x.label == l)) }
    if g.ty = INPUT && !c2.inputs.contains l then .error "Py:ValueError" else
    let c3 := if g.ty = INPUT then { c2 with inputs := c2.inputs.erase l } else c2
    let c4 := { c3 with outputs := c3.outputs.filter (fun o => !(o == l)) }
    .ok { c4 with blocks := c4.blocks.filter (fun b => !(b.gates.contains l || b.inputs.contains l || b.outputs.contains l)) }

/-- `remove_gate` -/
def removeGate (c : Circuit) (l : Label) : R Circuit :=
  if !c.hasGate l then .error "CircuitValidationError"
  else if !(c.usersOf l).isEmpty then .error "GateHasUsersError"
  else c.rawRemoveGate l

def renameIn (old new : Label) (ls : List Label) : List Label := ls.map (fun x => if x == old then new else x)

/-- replace the first occurrence -/
def replaceFirst (old new : Label) : List Label → List Label
  | [] => []
  | x :: r => if x == old then new :: r else x :: replaceFirst old new r

/-- `rename_gate` -/
def renameGate (c : Circuit) (old new : Label) : R Circuit :=
  match c.find? old with
  | none => .error "CircuitGateIsAbsentError"
  | some g =>
    if c.hasGate new then .error "CircuitGateAlreadyExistsError" else
    let inputs' := if c.inputs.contains old then replaceFirst old new c.inputs else c.inputs
    let outputs' := renameIn old new c.outputs
    -- users of `old` get their operand tuples rewritten; the entry moves to key `new` (at the end)
    let pr : List Gate × Dict (List Label) := match Dict.get? c.users old with
      | none => (c.gates, c.users)
      | some us =>
        let gs := us.foldl (fun (gs : List Gate) u => gs.map (fun x =>
          if x.label == u then { x with ops := renameIn old new x.ops } else x)) c.gates
        (gs, Dict.set (Dict.erase c.users old) new us)
    -- operands of `old`: its entry in their users lists is renamed (first occurrence each time)
    let gates1 := pr.1
    let users1 := pr.2
    let g1 := (gates1.find? (fun x => x.label == old)).getD g
    let step : R (Dict (List Label)) → Label → R (Dict (List Label)) := fun acc o => match acc with
      | .error e => .error e
      | .ok users => match Dict.get? users o with
        | none => .error "Py:KeyError"
        | some us => if us.contains old then .ok (Dict.set users o (replaceFirst old new us))
                     else .error "Py:AssertionError"
    match g1.ops.foldl step (.ok users1) with
    | .error e => .error e
    | .ok users2 =>
      let gates2 := gates1.filter (fun x => !(x.label == old)) ++ [⟨new, g1.ty, g1.ops⟩]
      let blocks' := c.blocks.map (fun b =>
        { b with inputs := renameIn old new b.inputs, gates := renameIn old new b.gates,
                 outputs := renameIn old new b.outputs })
      .ok ⟨gates2, inputs', outputs', users2, blocks'⟩

/-- `replace_inputs(inputs_to_true, inputs_to_false)`; partial effects before an error are
not modelled (state after an exception is unspecified) -/
def replaceInputs (c : Circuit) (toTrue toFalse : List Label) : R Circuit :=
  let step : GateType → R Circuit → Label → R Circuit := fun ty acc l => match acc with
    | .error e => .error e
    | .ok c => match c.find? l with
      | none => .error "GateDoesntExistError"
      | some g => if g.ty != INPUT then .error "GateNotInputError"
        else if !c.inputs.contains l then .error "Py:ValueError"
        else .ok { c with gates := c.gates.map (fun x => if x.label == l then ⟨l, ty, []⟩ else x),
                          inputs := c.inputs.erase l }
  toFalse.foldl (step ALWAYS_FALSE) (toTrue.foldl (step ALWAYS_TRUE) (.ok c))

/-- `make_block(name, gates, outputs, inputs)` -/
def makeBlock (c : Circuit) (name : Label) (gates outs : List Label) (ins : Option (List Label)) : R Circuit :=
  if c.blocks.any (fun b => b.name == name) then .error "CircuitValidationError" else
  match c.checkGatesExist gates with
  | .error e => .error e
  | .ok _ => match c.checkGatesExist outs with
    | .error e => .error e
    | .ok _ =>
      match ins with
      | some is => match c.checkGatesExist is with
        | .error e => .error e
        | .ok _ => .ok { c with blocks := c.blocks ++ [⟨name, is, gates, outs⟩] }
      | none =>
        let is := gates.flatMap (fun g => ((c.find? g).map (·.ops)).getD [] |>.filter (fun o => !gates.contains o))
        .ok { c with blocks := c.blocks ++ [⟨name, is, gates, outs⟩] }

end Circuit
end Cirbo
