import Cirbo.Basic
/-!
# Exact synthesis (`CircuitFinderSat`): the CNF encoding and the decoding of a model

Variables are named as in the code (`s_g_a_b`, `g_h_gate`, `x_gate_t`, `f_gate_p_q`); `encode`
mirrors `_init_default_cnf_formula` group by group and `fix_gate` / `forbid_wire` clause by clause.
-/
namespace Cirbo
namespace Synth

inductive SVar
  | s (g a b : Nat)          -- gate g reads gates a < b
  | o (h g : Nat)            -- output h is taken at gate g
  | x (g t : Nat)            -- value of gate g on row t
  | f (g : Nat) (p q : Bool) -- the operation of gate g on (p, q)
  deriving DecidableEq, Repr

abbrev Lit := SVar × Bool
abbrev Clause := List Lit

/-- a user constraint, as accepted by `fix_gate` / `forbid_wire` (after their argument checks) -/
inductive Con
  | fixBoth (g a b : Nat)                    -- fix_gate(g, first=a, second=b)
  | fixOne (g p : Nat)                       -- fix_gate(g, one predecessor = p)
  | fixType (g : Nat) (t00 t01 t10 t11 : Bool) -- fix_gate(..., gate_type=T): T's truth table
  | forbidWire (src dst : Nat)

structure Spec where
  n : Nat                               -- inputs
  m : Nat                               -- outputs
  N : Nat                               -- gates
  table : Nat → Nat → Option Bool       -- `table h t`; `none` = don't care
  allowed : Bool → Bool → Bool → Bool → Bool  -- is the operation with truth table (f00,f01,f10,f11) in the basis
  normalized : Bool
  cons : List Con

/-- `itertools.combinations(range(g), 2)` -/
def pairs (g : Nat) : List (Nat × Nat) :=
  (List.range g).flatMap (fun a => ((List.range g).filter (fun b => a < b)).map (fun b => (a, b)))

def internal (sp : Spec) : List Nat := (List.range sp.N).map (· + sp.n)

/-- `_add_exactly_one_of` -/
def exactlyOne (vs : List SVar) : List Clause :=
  (vs.map (fun v => (v, true))) ::
    (vs.zipIdx.flatMap (fun (vi : SVar × Nat) => ((vs.drop (vi.2 + 1)).map (fun w => [(vi.1, false), (w, false)]))))

/-- `_is_dont_cares_input(t)` -/
def dcRow (sp : Spec) (t : Nat) : Bool := (List.range sp.m).all (fun h => (sp.table h t).isNone)

def rows (sp : Spec) : List Nat := (List.range (2 ^ sp.n)).filter (fun t => !dcRow sp t)

def inputBit (sp : Spec) (i t : Nat) : Bool := (t >>> (sp.n - 1 - i)) % 2 == 1

def bools : List Bool := [false, true]

def allOps : List (Bool × Bool × Bool × Bool) :=
  bools.flatMap (fun a => bools.flatMap (fun b => bools.flatMap (fun c => bools.map (fun d => (a, b, c, d)))))

def encodeCon (sp : Spec) : Con → List Clause
  | .fixBoth g a b => [[(.s g a b, true)]]
  | .fixOne g p => ((pairs g).filter (fun ab => ab.1 != p && ab.2 != p)).map (fun ab => [(.s g ab.1 ab.2, false)])
  | .fixType g t00 t01 t10 t11 =>
    [[(.f g false false, t00)], [(.f g false true, t01)], [(.f g true false, t10)], [(.f g true true, t11)]]
  | .forbidWire src dst =>
    (((List.range (sp.n + sp.N)).filter (fun o => o < dst && o != src)).map
      (fun o => [(.s dst (min o src) (max o src), false)]))

/-- `_init_default_cnf_formula` (groups in the code's order), after the user constraints -/
def encode (sp : Spec) : List Clause :=
  sp.cons.flatMap (encodeCon sp) ++
  (internal sp).flatMap (fun g => exactlyOne ((pairs g).map (fun ab => .s g ab.1 ab.2))) ++
  (List.range sp.m).flatMap (fun h => exactlyOne ((internal sp).map (fun g => .o h g))) ++
  (List.range sp.n).flatMap (fun i => (rows sp).map (fun t => [(.x i t, inputBit sp i t)])) ++
  (internal sp).flatMap (fun g => (pairs g).flatMap (fun ab =>
    bools.flatMap (fun a => bools.flatMap (fun b => bools.flatMap (fun c => (rows sp).map (fun t =>
      [(.s g ab.1 ab.2, false), (.x g t, !a), (.x ab.1 t, !b), (.x ab.2 t, !c), (.f g b c, a)])))))) ++
  (List.range sp.m).flatMap (fun h => (List.range (2 ^ sp.n)).flatMap (fun t =>
    match sp.table h t with
    | none => []
    | some v => (internal sp).map (fun g => [(.o h g, false), (.x g t, v)]))) ++
  (internal sp).flatMap (fun g => (allOps.filter (fun op => !sp.allowed op.1 op.2.1 op.2.2.1 op.2.2.2)).map (fun op =>
    [(.f g false false, !op.1), (.f g false true, !op.2.1), (.f g true false, !op.2.2.1), (.f g true true, !op.2.2.2)])) ++
  (if sp.normalized then (internal sp).map (fun g => [(.f g false false, false)]) else [])

/-! ## decoding a model -/

/-- the solution read off an assignment (`_get_circuit_by_model`): predecessor pair (the last pair
whose variable is true), operation table, output positions -/
structure Sol where
  pred : Nat → Nat × Nat
  op : Nat → Bool → Bool → Bool
  out : Nat → Nat

def decode (sp : Spec) (σ : SVar → Bool) : Sol where
  pred g := (((pairs g).filter (fun ab => σ (.s g ab.1 ab.2))).getLast?).getD (0, 0)
  op g p q := σ (.f g p q)
  out h := ((List.range (sp.n + sp.N)).filter (fun g => σ (.o h g))).getLast?.getD 0

/-- value of every gate below `k` on row `t` -/
def evalUpTo (sp : Spec) (sol : Sol) (t : Nat) : Nat → List Bool
  | 0 => []
  | k + 1 =>
    let vs := evalUpTo sp sol t k
    vs ++ [if k < sp.n then inputBit sp k t else sol.op k (vs.getD (sol.pred k).1 false) (vs.getD (sol.pred k).2 false)]

def eval (sp : Spec) (sol : Sol) (t g : Nat) : Bool := (evalUpTo sp sol t (g + 1)).getD g false

def conOk (sol : Sol) : Con → Bool
  | .fixBoth g a b => sol.pred g == (a, b)
  | .fixOne g p => (sol.pred g).1 == p || (sol.pred g).2 == p
  | .fixType g t00 t01 t10 t11 =>
    sol.op g false false == t00 && sol.op g false true == t01 && sol.op g true false == t10 && sol.op g true true == t11
  | .forbidWire src dst => (sol.pred dst).1 != src && (sol.pred dst).2 != src

/-- what the property promises about a returned circuit -/
structure SolOk (sp : Spec) (sol : Sol) : Prop where
  preds : ∀ g, sp.n ≤ g → g < sp.n + sp.N → (sol.pred g).1 < (sol.pred g).2 ∧ (sol.pred g).2 < g
  basis : ∀ g, sp.n ≤ g → g < sp.n + sp.N →
    sp.allowed (sol.op g false false) (sol.op g false true) (sol.op g true false) (sol.op g true true) = true
  norm : sp.normalized = true → ∀ g, sp.n ≤ g → g < sp.n + sp.N → sol.op g false false = false
  outs : ∀ h, h < sp.m → sp.n ≤ sol.out h ∧ sol.out h < sp.n + sp.N
  agrees : ∀ h, h < sp.m → ∀ t, t < 2 ^ sp.n → ∀ v, sp.table h t = some v → eval sp sol t (sol.out h) = v
  cons : ∀ c ∈ sp.cons, conOk sol c = true

end Synth
end Cirbo
