import Cirbo.Model.Mutate2
import Cirbo.Generated.GenTables
import Cirbo.Spec.Bool
/-!
# Generator programs

Every `add_*` generator of `cirbo.synthesis.generation` only talks to the host circuit through
four primitives: drawing a fresh label (`"new_" + uuid4().hex`, redrawn while taken), `add_gate`,
`mark_as_output`, and raising.  `Prog` is the free monad over exactly these; a generator is a
`Prog`-valued function written like the Python code, `Prog.run` executes it on the circuit model.
uuid4 is pinned to a counter by the harness, so labels — and therefore whole netlists — can be
compared with the code.
-/
namespace Cirbo
open GateType

/-- what every generator's new gate satisfies: not an INPUT, and an arity its type accepts (the
programs below can only add such gates: `add` carries the evidence) -/
def tyOk (ty : GateType) (n : Nat) : Bool := ty != INPUT && arityOk ty n

inductive Prog (α : Type) where
  | pure (a : α)
  | fresh (restr : List Label) (k : Label → Prog α)
  | add (g : Gate) (ok : tyOk g.ty g.ops.length = true) (k : Prog α)
  | mark (l : Label) (k : Prog α)
  | fail (e : String)

namespace Prog

def bind {α β} : Prog α → (α → Prog β) → Prog β
  | .pure a, f => f a
  | .fresh r k, f => .fresh r (fun l => (k l).bind f)
  | .add g ok k, f => .add g ok (k.bind f)
  | .mark l k, f => .mark l (k.bind f)
  | .fail e, _ => .fail e

instance : Monad Prog where
  pure := Prog.pure
  bind := Prog.bind

end Prog

/-- builder state: the host circuit and the pinned uuid counter -/
structure GSt where
  c : Circuit
  ctr : Nat

def newLabel (ctr : Nat) : Label := "new_" ++ hex32 ctr

/-- `while circuit.has_gate(ans) or ans in other_restrictions: redraw`.  A label is `uuid4().hex`: 32 hex
digits, i.e. a 128-bit value; the pinned counter stands for the sequence of values drawn.  Once the counter
leaves the 128-bit range there is no further label to draw (`LabelSpaceExhausted`; never reached by any run
the correspondence executes — it is what makes the totality theorems of `Proofs/GenTotal*.lean` honest about
the one way a generator can fail to return on valid arguments). -/
def freshLoop (c : Circuit) (restr : List Label) : Nat → Nat → R (Label × Nat)
  | 0, _ => .error "fuel"
  | fuel + 1, ctr =>
    if 16 ^ 32 ≤ ctr then .error "LabelSpaceExhausted" else
    let l := newLabel ctr
    if c.hasGate l || restr.contains l then freshLoop c restr fuel (ctr + 1) else .ok (l, ctr + 1)

def Prog.run {α} : Prog α → GSt → R (α × GSt)
  | .pure a, s => .ok (a, s)
  | .fresh r k, s =>
    match freshLoop s.c r (s.c.gates.length + r.length + 1) s.ctr with
    | .error e => .error e
    | .ok (l, ctr') => (k l).run ⟨s.c, ctr'⟩
  | .add g _ k, s =>
    match s.c.addGate g with
    | .error e => .error e
    | .ok c' => k.run ⟨c', s.ctr⟩
  | .mark l k, s =>
    match s.c.markAsOutput l with
    | .error e => .error e
    | .ok c' => k.run ⟨c', s.ctr⟩
  | .fail e, _ => .error e

/-! ## primitives of `_utils.py` -/

abbrev TT := Bool × Bool × Bool × Bool
def t0000 : TT := (false, false, false, false)
def t0001 : TT := (false, false, false, true)
def t0010 : TT := (false, false, true, false)
def t0100 : TT := (false, true, false, false)
def t0110 : TT := (false, true, true, false)
def t0111 : TT := (false, true, true, true)
def t1001 : TT := (true, false, false, true)
def t1011 : TT := (true, false, true, true)
def t1101 : TT := (true, true, false, true)
def t1110 : TT := (true, true, true, false)
def t1000 : TT := (true, false, false, false)
def t1100 : TT := (true, true, false, false)
def t1010 : TT := (true, false, true, false)
def t0011 : TT := (false, false, true, true)
def t0101 : TT := (false, true, false, true)
def t1111 : TT := (true, true, true, true)

/-- a fresh gate of the given type (`generate_random_label` + `emplace_gate`) -/
def emit (ty : GateType) (ops : List Label) (ok : tyOk ty ops.length = true) : Prog Label :=
  .fresh [] (fun l => .add ⟨l, ty, ops⟩ ok (.pure l))

/-- every type in the regenerated `binary_tt_to_type` table is a binary gate type -/
theorem ttType_ok {a b c d : Bool} {ty : GateType} (h : Gen.ttType a b c d = some ty) : tyOk ty 2 = true := by
  cases a <;> cases b <;> cases c <;> cases d <;> simp only [Gen.ttType, Option.some.injEq] at h <;> subst h <;> rfl

/-- `add_gate_from_tt(circuit, left, right, operation)` -/
def emitTT (x y : Label) (op : TT) : Prog Label :=
  match h : Gen.ttType op.1 op.2.1 op.2.2.1 op.2.2.2 with
  | none => .fresh [] (fun _ => .fail "Py:KeyError")
  | some ty => emit ty [x, y] (ttType_ok h)

def revIf (l : List Label) (bigEndian : Bool) : List Label := if bigEndian then l.reverse else l

/-! ## `summation.py` -/

def addSum2 : List Label → Prog (List Label)
  | [x1, x2] => do
    let g1 ← emitTT x1 x2 t0110
    let g2 ← emitTT x1 x2 t0001
    pure [g1, g2]
  | _ => .fail "DifferentShapesError"

def addSum3 : List Label → Prog (List Label)
  | [x1, x2, x3] => do
    let g1 ← emitTT x1 x2 t0110
    let g2 ← emitTT x2 x3 t0110
    let g3 ← emitTT g1 g2 t0111
    let g4 ← emitTT g1 x3 t0110
    let g5 ← emitTT g3 g4 t0110
    pure [g4, g5]
  | _ => .fail "DifferentShapesError"

def addStockmeyer : List Label → Prog (List Label)
  | [x1, x2, x23] => do
    let w0 ← emitTT x1 x23 t0110
    let g2 ← emitTT x2 x23 t0010
    let g3 ← emitTT x1 x23 t0001
    let w1 ← emitTT g2 g3 t0110
    pure [w0, w1]
  | _ => .fail "DifferentShapesError"

def addMdfa : List Label → Prog (List Label)
  | [z, x1, xy1, x2, xy2] => do
    let g1 ← emitTT x1 z t0110
    let g2 ← emitTT xy1 g1 t0111
    let g3 ← emitTT xy1 z t0110
    let g4 ← emitTT g2 g3 t0110
    let g5 ← emitTT x2 g3 t0110
    let g6 ← emitTT g3 xy2 t0110
    let g7 ← emitTT g5 xy2 t0010
    let g8 ← emitTT g2 g7 t0110
    pure [g6, g4, g8]
  | _ => .fail "DifferentShapesError"

def addSimplifiedMdfa : List Label → Prog (List Label)
  | [x1, xy1, x2, xy2] => do
    let g2 ← emitTT xy1 x1 t0111
    let g4 ← emitTT g2 xy1 t0110
    let g5 ← emitTT x2 xy1 t0110
    let g6 ← emitTT xy1 xy2 t0110
    let g7 ← emitTT g5 xy2 t0010
    let g8 ← emitTT g2 g7 t0110
    pure [g6, g4, g8]
  | _ => .fail "DifferentShapesError"

def addSum2Aig : List Label → Prog (List Label)
  | [x1, x2] => do
    let g1 ← emitTT x1 x2 t0111
    let g2 ← emitTT x1 x2 t0001
    let g3 ← emitTT g1 g2 t0010
    pure [g3, g2]
  | _ => .fail "DifferentShapesError"

def addSum3Aig : List Label → Prog (List Label)
  | [x1, x2, x3] => do
    let g1 ← emitTT x1 x2 t0111
    let g2 ← emitTT x1 x2 t0001
    let g3 ← emitTT g1 g2 t0010
    let g4 ← emitTT g3 x3 t0111
    let g5 ← emitTT g3 x3 t0001
    let g6 ← emitTT g4 g5 t0010
    let g7 ← emitTT g2 g5 t0111
    pure [g6, g7]
  | _ => .fail "DifferentShapesError"

/-- a two-element result `[x, y]` as a pair (Python's `x, y = block(...)`) -/
def pair2 : List Label → Prog (Label × Label)
  | [x, y] => pure (x, y)
  | _ => .fail "Py:ValueError"

def triple3 : List Label → Prog (Label × Label × Label)
  | [x, y, z] => pure (x, y, z)
  | _ => .fail "Py:ValueError"

/-- `while len(now) > 2: x, y = blk3(now[-1:-4:-1]); pop×3; now.append(x); next.append(y)`.
`nowR` is `now` reversed (the Python list is used as a stack). -/
def reduce3 (blk3 : List Label → Prog (List Label)) : Nat → List Label → List Label → Prog (List Label × List Label)
  | fuel + 1, a :: b :: c :: rest, next => do
    let (x, y) ← pair2 (← blk3 [a, b, c])
    reduce3 blk3 fuel (x :: rest) (next ++ [y])
  | _, nowR, next => pure (nowR, next)

/-- `while/if len(now) > 1: x, y = blk2(now[-1:-3:-1]); …` — at this point `len(now) ≤ 2`, so
the `while` of `add_sum_n_bits_easy` and the `if` of the others coincide -/
def reduce2 (blk2 : List Label → Prog (List Label)) : List Label → List Label → Prog (List Label × List Label)
  | a :: b :: rest, next => do
    let (x, y) ← pair2 (← blk2 [a, b])
    pure (x :: rest, next ++ [y])
  | nowR, next => pure (nowR, next)

/-- `now[0]` of a list given reversed -/
def firstOfRev (nowR : List Label) : Prog Label :=
  match nowR.getLast? with
  | some x => pure x
  | none => .fail "Py:IndexError"

/-- the level loop of `add_sum_n_bits_easy` / `_add_sum_n_bits_aig` -/
def levelsSimple (blk3 blk2 : List Label → Prog (List Label)) : Nat → List Label → List Label → Prog (List Label)
  | 0, _, _ => .fail "fuel"
  | fuel + 1, nowR, res =>
    if nowR.isEmpty then pure res else do
      let (n1, nx1) ← reduce3 blk3 nowR.length nowR []
      let (n2, nx2) ← reduce2 blk2 n1 nx1
      let r ← firstOfRev n2
      levelsSimple blk3 blk2 fuel nx2.reverse (res ++ [r])

def addSumNBitsEasy (ins : List Label) (bigEndian : Bool) : Prog (List Label) := do
  let now := revIf ins bigEndian
  let res ← levelsSimple addSum3 addSum2 (now.length + 1) now.reverse []
  pure (revIf res bigEndian)

def addSumNBitsAig (ins : List Label) : Prog (List Label) :=
  levelsSimple addSum3Aig addSum2Aig (ins.length + 1) ins.reverse []

/-- first loop of `_add_sum_n_bits`: pair up solo bits as `(x, x ⊕ y)` -/
def pairUp : Nat → List Label → List (Label × Label) → Prog (List Label × List (Label × Label))
  | fuel + 1, a :: b :: rest, pairsR => do
    let xy ← emitTT a b t0110
    pairUp fuel rest ((a, xy) :: pairsR)
  | _, soloR, pairsR => pure (soloR, pairsR)

/-- `while len(now_x_xy) > 1:` MDFA / simplified MDFA (all lists reversed: head = Python's last) -/
def mdfaLoop : Nat → List Label → List (Label × Label) → List (Label × Label) →
    Prog (List Label × List (Label × Label) × List (Label × Label))
  | fuel + 1, soloR, p1 :: p2 :: prest, nextP =>
    match soloR with
    | s :: srest => do
      let (z, x1, x1y1) ← triple3 (← addMdfa [s, p1.1, p1.2, p2.1, p2.2])
      mdfaLoop fuel (z :: srest) prest (nextP ++ [(x1, x1y1)])
    | [] => do
      let (z, x1, x1y1) ← triple3 (← addSimplifiedMdfa [p1.1, p1.2, p2.1, p2.2])
      mdfaLoop fuel [z] prest (nextP ++ [(x1, x1y1)])
  | _, soloR, pairsR, nextP => pure (soloR, pairsR, nextP)

/-- `if len(now_x_xy) == 1:` Stockmeyer block, or forward the xor and emit the carry -/
def lastPair (soloR : List Label) (pairsR : List (Label × Label)) (nextS : List Label) :
    Prog (List Label × List Label) :=
  match pairsR with
  | [p] =>
    match soloR with
    | s :: srest => do
      let (x, y) ← pair2 (← addStockmeyer [s, p.1, p.2])
      pure (x :: srest, nextS ++ [y])
    | [] => do
      let cy ← emitTT p.1 p.2 t0010
      pure ([p.2], nextS ++ [cy])
  | _ => pure (soloR, nextS)

/-- one level of the XAIG bit counter, from the point where pairs have been formed -/
def xaigLevel (soloR : List Label) (pairsR : List (Label × Label)) :
    Prog (Label × List Label × List (Label × Label)) := do
  let (s1, p1, nextP) ← mdfaLoop pairsR.length soloR pairsR []
  let (s2, nextS0) ← lastPair s1 p1 []
  let (s3, nextS1) ← reduce3 addSum3 s2.length s2 nextS0
  let (s4, nextS2) ← reduce2 addSum2 s3 nextS1
  let r ← firstOfRev s4
  pure (r, nextS2, nextP)

def xaigLevels : Nat → List Label → List (Label × Label) → List Label → Prog (List Label)
  | 0, _, _, _ => .fail "fuel"
  | fuel + 1, soloR, pairsR, res =>
    if soloR.isEmpty && pairsR.isEmpty then pure res else do
      let (r, nextS, nextP) ← xaigLevel soloR pairsR
      xaigLevels fuel nextS.reverse nextP.reverse (res ++ [r])

/-- `_add_sum_n_bits` -/
def addSumNBitsXaig (ins : List Label) : Prog (List Label) := do
  let (soloR, pairsR) ← pairUp ins.length ins.reverse []
  xaigLevels (ins.length + 2) soloR pairsR []

inductive Basis | xaig | aig
  deriving DecidableEq, Repr

/-- the `basis` argument: an enum member or a string -/
inductive BasisArg
  | enum (b : Basis)
  | str (s : String)

def asciiUpper (s : String) : String := String.ofList (s.toList.map Char.toUpper)

/-- `GenerationBasis(basis.upper())` for strings; `ValueError` for an unknown name -/
def BasisArg.resolve : BasisArg → R Basis
  | .enum b => .ok b
  | .str s =>
    let u := asciiUpper s
    if u == "XAIG" then .ok .xaig else if u == "AIG" then .ok .aig else .error "Py:ValueError"

/-- `add_sum_n_bits` -/
def addSumNBits (ins : List Label) (basis : BasisArg) (bigEndian : Bool) : Prog (List Label) :=
  match basis.resolve with
  | .error e => .fail e
  | .ok b => do
    let l := revIf ins bigEndian
    let r ← (match b with | .xaig => addSumNBitsXaig l | .aig => addSumNBitsAig l)
    pure (revIf r bigEndian)

/-- the result of a 2- or 3-bit count has two bits (Python's `d[i][0]`, `d[i][1]`) -/
def sumPair : List Label → Prog (Label × Label)
  | [x, y] => pure (x, y)
  | _ => .fail "Py:IndexError"

/-- `for i in range(1, n): d[i] = add_sum_n_bits([d[i-1][1], a[i]] + ([b[i]] if i < m else []))` -/
def sumChain : List Label → List Label → List Label → Label → Prog (List Label × Label)
  | [], _, outs, carry => pure (outs, carry)
  | x :: xs, ys, outs, carry => do
    let inp := match ys with
      | y :: _ => [carry, x, y]
      | [] => [carry, x]
    let (s, c) ← sumPair (← addSumNBits inp (.enum .xaig) false)
    sumChain xs ys.tail (outs ++ [s]) c

/-- the carry chain of `add_sum_two_numbers` on little-endian operands, longer operand first -/
def sumTwoCore (la lb : List Label) : Prog (List Label) :=
  match la, lb with
  | x :: xs, y :: ys => do
    let (s0, c0) ← sumPair (← addSumNBits [x, y] (.enum .xaig) false)
    let (outs, carry) ← sumChain xs ys [s0] c0
    pure (outs ++ [carry])
  | _, _ => .fail "Py:IndexError"

/-- `add_sum_two_numbers` (the carry chain over `add_sum_n_bits` with the default basis) -/
def addSumTwoNumbers (a b : List Label) (bigEndian : Bool) : Prog (List Label) := do
  let a0 := revIf a bigEndian
  let b0 := revIf b bigEndian
  let r ← (if a0.length < b0.length then sumTwoCore b0 a0 else sumTwoCore a0 b0)
  pure (revIf r bigEndian)

/-- `add_sum_two_numbers_with_shift` -/
def addSumTwoNumbersWithShift (shift : Nat) (a b : List Label) (bigEndian : Bool) : Prog (List Label) := do
  let a0 := revIf a bigEndian
  let b0 := revIf b bigEndian
  let n := a0.length
  if shift ≥ n then
    if shift != n then
      match a0 with
      | x :: _ => do
        let zero ← emitTT x x t0000
        pure (revIf (a0 ++ List.replicate (shift - n) zero ++ b0) bigEndian)
      | [] => .fail "Py:IndexError"
    else pure (revIf (a0 ++ b0) bigEndian)
  else do
    let res ← addSumTwoNumbers (a0.drop shift) b0 false
    pure (revIf (a0.take shift ++ res) bigEndian)

/-! ### weighted sums (`SortedList` of `(level, label)` / `(level, x, xy)` tuples) -/

def ltSingle (a b : Nat × Label) : Bool := a.1 < b.1 || (a.1 == b.1 && a.2 < b.2)
def ltPair (a b : Nat × Label × Label) : Bool :=
  a.1 < b.1 || (a.1 == b.1 && (a.2.1 < b.2.1 || (a.2.1 == b.2.1 && a.2.2 < b.2.2)))

/-- `SortedList.add` (bisect_right) -/
def insertBy {α} (lt : α → α → Bool) (x : α) : List α → List α
  | [] => [x]
  | y :: r => if lt x y then x :: y :: r else y :: insertBy lt x r

def sortBy {α} (lt : α → α → Bool) (l : List α) : List α := l.foldl (fun acc x => insertBy lt x acc) []

/-- `while single[0][0] == now_level: …append(single[0]…); single.discard(single[0])` -/
def takeLevel {α} (lev : α → Nat) (now : Nat) : List α → List α × List α
  | [] => ([], [])
  | x :: r => if lev x == now then let (a, b) := takeLevel lev now r; (x :: a, b) else ([], x :: r)

/-- the `while len(now_solo) > 2` loop of the weighted variants: carries go straight into `single` -/
def wReduce3 (blk3 : List Label → Prog (List Label)) (lvl : Nat) : Nat → List Label → List (Nat × Label) →
    Prog (List Label × List (Nat × Label))
  | fuel + 1, a :: b :: c :: rest, single => do
    let (x, y) ← pair2 (← blk3 [a, b, c])
    wReduce3 blk3 lvl fuel (x :: rest) (insertBy ltSingle (lvl + 1, y) single)
  | _, nowR, single => pure (nowR, single)

def wReduce2 (blk2 : List Label → Prog (List Label)) (lvl : Nat) : List Label → List (Nat × Label) →
    Prog (List Label × List (Nat × Label))
  | [a, b], single => do
    let (x, y) ← pair2 (← blk2 [a, b])
    pure ([x], insertBy ltSingle (lvl + 1, y) single)
  | nowR, single => pure (nowR, single)

/-- one level in the simple (naive / AIG) scheme -/
def wSimpleLevelWith (blk3 blk2 : List Label → Prog (List Label)) (lvl : Nat) (nowSingles : List Label)
    (single : List (Nat × Label)) : Prog (Label × List (Nat × Label)) := do
  let (n1, s1) ← wReduce3 blk3 lvl nowSingles.length nowSingles.reverse single
  let (n2, s2) ← wReduce2 blk2 lvl n1 s1
  let r ← firstOfRev n2
  pure (r, s2)

def wSimpleLevel (b : Basis) (lvl : Nat) (nowSingles : List Label) (single : List (Nat × Label)) :
    Prog (Label × List (Nat × Label)) :=
  match b with
  | .aig => wSimpleLevelWith addSum3Aig addSum2Aig lvl nowSingles single
  | .xaig => wSimpleLevelWith addSum3 addSum2 lvl nowSingles single

def minLevel (single : List (Nat × Label)) (pairs : List (Nat × Label × Label)) (inf : Nat) : Nat :=
  min (match single with | x :: _ => min x.1 inf | [] => inf) (match pairs with | x :: _ => min x.1 inf | [] => inf)

def weightedNaiveLoop (b : Basis) (inf : Nat) : Nat → List (Nat × Label) → List (Nat × Label) → Prog (List (Nat × Label))
  | 0, _, _ => .fail "fuel"
  | fuel + 1, single, res =>
    if single.isEmpty then pure res else
    let lvl := minLevel single [] inf
    if lvl ≥ inf then pure res else do
      let (nowS, rest) := takeLevel (fun (x : Nat × Label) => x.1) lvl single
      let (r, s') ← wSimpleLevel b lvl (nowS.map (·.2)) rest
      weightedNaiveLoop b inf fuel s' (res ++ [(lvl, r)])

def maxLevel (l : List (Nat × Label)) : Nat := l.foldl (fun m x => max m x.1) 0

/-- `add_sum_n_weighted_bits_naive` -/
def addSumWeightedNaive (ins : List (Nat × Label)) (basis : BasisArg) : Prog (List (Nat × Label)) :=
  match basis.resolve with
  | .error e => .fail e
  | .ok b =>
    if ins.isEmpty then .fail "Py:ValueError" else
    let inf := maxLevel ins + ins.length + 1
    weightedNaiveLoop b inf (inf + 1) (sortBy ltSingle ins) []

def weightedLoop (b : Basis) (inf : Nat) : Nat → List (Nat × Label) → List (Nat × Label × Label) →
    List (Nat × Label) → Prog (List (Nat × Label))
  | 0, _, _, _ => .fail "fuel"
  | fuel + 1, single, pairs, res =>
    if single.isEmpty && pairs.isEmpty then pure res else
    let lvl := minLevel single pairs inf
    if lvl ≥ inf then pure res else do
      let (nowS, restS) := takeLevel (fun (x : Nat × Label) => x.1) lvl single
      let (nowP, restP) := takeLevel (fun (x : Nat × Label × Label) => x.1) lvl pairs
      match b with
      | .aig => do
        let (r, s') ← wSimpleLevel .aig lvl (nowS.map (·.2)) restS
        weightedLoop b inf fuel s' restP (res ++ [(lvl, r)])
      | .xaig => do
        let (soloR, pairsR) ← pairUp nowS.length (nowS.map (·.2)).reverse (nowP.map (·.2)).reverse
        let (r, nextS, nextP) ← xaigLevel soloR pairsR
        let s' := nextS.foldl (fun acc l => insertBy ltSingle (lvl + 1, l) acc) restS
        let p' := nextP.foldl (fun acc (l : Label × Label) => insertBy ltPair (lvl + 1, l.1, l.2) acc) restP
        weightedLoop b inf fuel s' p' (res ++ [(lvl, r)])

/-- `add_sum_n_weighted_bits` -/
def addSumWeighted (ins : List (Nat × Label)) (basis : BasisArg) : Prog (List (Nat × Label)) :=
  match basis.resolve with
  | .error e => .fail e
  | .ok b =>
    if ins.isEmpty then .fail "Py:ValueError" else
    let inf := maxLevel ins + ins.length + 1
    weightedLoop b inf (inf + 1) (sortBy ltSingle ins) [] []

/-! ### `add_sum_pow2_m1` -/

/-- `while len(input_labels) >= i: out.append(add_sum_n_bits(labels[0:i])); labels = labels[i:] + [out[it][0]]` -/
def pow2Chunk (basis : BasisArg) (i : Nat) : Nat → List Label → List (List Label) → Prog (List Label × List (List Label))
  | fuel + 1, labels, out =>
    if labels.length ≥ i then do
      let r ← addSumNBits (labels.take i) basis false
      match r with
      | r0 :: _ => pow2Chunk basis i fuel (labels.drop i ++ [r0]) (out ++ [r])
      | [] => .fail "Py:IndexError"
    else pure (labels, out)
  | 0, labels, out => if labels.length ≥ i then .fail "fuel" else pure (labels, out)

def pow2Pass (basis : BasisArg) (labels : List Label) (out : List (List Label)) : Prog (List Label × List (List Label)) := do
  let (l1, o1) ← pow2Chunk basis 31 labels.length labels out
  let (l2, o2) ← pow2Chunk basis 15 l1.length l1 o1
  let (l3, o3) ← pow2Chunk basis 7 l2.length l2 o2
  pow2Chunk basis 3 l3.length l3 o3

/-- `zip_longest(*out)` followed by `filter(None, ·)`: column `j` collects `out[k][j]` of every row
long enough -/
def transposeRagged (rows : List (List Label)) : Nat → List (List Label)
  | 0 => []
  | fuel + 1 =>
    if rows.all (·.isEmpty) then [] else
      rows.filterMap (·.head?) :: transposeRagged (rows.map (·.tail)) fuel

def addSumPow2M1 (ins : List Label) (bigEndian : Bool) (basis : BasisArg) : Prog (List (List Label)) :=
  match ins with
  | [] => .fail "Py:AssertionError"
  | x :: xs =>
    match basis.resolve with
    | .error e => .fail e
    | .ok bs =>
      match xs with
      | [] => pure [[x]]
      | _ => do
        let (l1, o1) ← (if ins.length > 2 then pow2Pass (.enum bs) ins [] else pure (ins, []))
        let (_, o2) ← (match l1 with
          | [a, b] => do
            let r ← (match bs with | .aig => addSum2Aig [a, b] | .xaig => addSum2 [a, b])
            pure ([r.headD ""], o1 ++ [r])
          | _ => pure (l1, o1))
        let cols := transposeRagged o2 ((o2.map (·.length)).foldl max 0 + 1)
        match cols with
        | c0 :: rest =>
          match c0.getLast? with
          | some z => pure (([z] :: rest).map (fun col => revIf col bigEndian))
          | none => .fail "Py:IndexError"
        | [] => .fail "Py:IndexError"

end Cirbo
