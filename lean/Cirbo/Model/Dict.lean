import Cirbo.Basic
/-! Python `dict` as an association list: setting an existing key keeps its position, a new key
is appended. -/
namespace Cirbo

abbrev Dict (α : Type) := List (Label × α)

namespace Dict
variable {α : Type}

def get? : Dict α → Label → Option α
  | [], _ => none
  | (a, b) :: r, k => if k = a then some b else get? r k

def contains (d : Dict α) (k : Label) : Bool := (d.get? k).isSome

def set : Dict α → Label → α → Dict α
  | [], k, v => [(k, v)]
  | (a, b) :: r, k, v => if k = a then (a, v) :: r else (a, b) :: set r k v

def setDefault (d : Dict α) (k : Label) (v : α) : Dict α :=
  if d.contains k then d else d.set k v

def erase (d : Dict α) (k : Label) : Dict α := d.filter (fun p => !(p.1 == k))
def keys (d : Dict α) : List Label := d.map (·.1)

theorem get?_set (d : Dict α) (k k' : Label) (v : α) :
    (d.set k v).get? k' = if k' = k then some v else d.get? k' := by
  induction d with
  | nil => simp [set, get?]
  | cons p r ih =>
    obtain ⟨a, b⟩ := p
    simp only [set]
    by_cases hka : k = a
    · subst hka
      simp only [if_true, get?]
      by_cases hk : k' = k <;> simp [hk]
    · simp only [hka, if_false, get?, ih]
      by_cases hk : k' = k
      · subst hk; simp [hka]
      · simp [hk]

theorem get?_setDefault (d : Dict α) (k k' : Label) (v : α) :
    (d.setDefault k v).get? k' = if k' = k then some ((d.get? k).getD v) else d.get? k' := by
  unfold setDefault contains
  cases h : d.get? k with
  | none =>
    simp only [Option.isSome_none, Bool.false_eq_true, if_false, get?_set, Option.getD_none]
  | some x =>
    simp only [Option.isSome_some, if_true, Option.getD_some]
    by_cases hk : k' = k
    · subst hk; simp [h]
    · simp [hk]

end Dict
end Cirbo
