import Cirbo.Basic
/-!
# Model of `circuits_db/bit_io.py` and `binary_dict_io.py`
A `BitWriter` is the list of bits written so far; `bytes(writer)` packs them LSB-first into
bytes (the last byte zero padded).  A `BitReader` is (bytes, bit position).
-/
namespace Cirbo

/-- `write_number(k, w)`: bits `k>>0 & 1, …, k>>(w-1) & 1` -/
def numBits (k w : Nat) : List Bool := (List.range w).map (fun i => k.testBit i)

/-- value of a little-endian bit list (`number |= bit << i`) -/
def ofBits : List Bool → Nat
  | [] => 0
  | b :: r => (if b then 1 else 0) + 2 * ofBits r

/-- `BitWriter.write_number`; `none` = `BitIOError` (number too large) -/
def writeNumber (k w : Nat) : Option (List Bool) :=
  if k >>> w ≠ 0 then none else some (numBits k w)

/-- `bytes(bit_writer)` -/
def packBytes : List Bool → List Nat
  | [] => []
  | b :: r => ofBits ((b :: r).take 8) :: packBytes (r.drop 7)
termination_by bits => bits.length
decreasing_by simp [List.length_drop]; omega

/-- `BitReader.read` at absolute bit position `pos`; `none` = `BitIOError` (no more bytes) -/
def readBit (bytes : List Nat) (pos : Nat) : Option Bool :=
  (bytes[pos / 8]?).map (fun b => b.testBit (pos % 8))

/-- `BitReader.read_number(w)` from position `pos` -/
def readBits (bytes : List Nat) (pos : Nat) : Nat → Option (List Bool)
  | 0 => some []
  | w+1 => match readBit bytes pos with
    | none => none
    | some b => (readBits bytes (pos + 1) w).map (b :: ·)

def readNumber (bytes : List Nat) (pos w : Nat) : Option (Nat × Nat) :=
  (readBits bytes pos w).map (fun bs => (ofBits bs, pos + w))

/-! ## binary dictionary (keys as UTF-8 byte strings) -/

/-- `number.to_bytes(len, 'big')`; `none` = OverflowError -/
def beBytes (k len : Nat) : Option (List Nat) :=
  if k < 256 ^ len then some ((List.range len).reverse.map (fun i => (k / 256 ^ i) % 256)) else none

def ofBeBytes (bs : List Nat) : Nat := bs.foldl (fun acc b => acc * 256 + b) 0

abbrev BDict := List (List Nat × List Nat)

/-- bytes written for one `(key, value)` pair -/
def entryBytes (kv : List Nat × List Nat) : Option (List Nat) :=
  match beBytes kv.1.length 2, beBytes kv.2.length 2 with
  | some kl, some vl => some (kl ++ kv.1 ++ vl ++ kv.2)
  | _, _ => none

/-- `write_binary_dict`; `none` = OverflowError (a length does not fit) -/
def writeDict (d : BDict) : Option (List Nat) :=
  match beBytes d.length 8, d.mapM entryBytes with
  | some hdr, some body => some (hdr ++ body.flatten)
  | _, _ => none

/-- `_read_exact_number_of_bytes` -/
def takeExact (bs : List Nat) (n : Nat) : Option (List Nat × List Nat) :=
  if bs.length < n then none else some (bs.take n, bs.drop n)

def readEntries : Nat → List Nat → Option (BDict × List Nat)
  | 0, bs => some ([], bs)
  | n+1, bs => do
    let (kl, r1) ← takeExact bs 2
    let (k, r2) ← takeExact r1 (ofBeBytes kl)
    let (vl, r3) ← takeExact r2 2
    let (v, r4) ← takeExact r3 (ofBeBytes vl)
    let (rest, r5) ← readEntries n r4
    pure ((k, v) :: rest, r5)

/-- python dict semantics: a later equal key overwrites the value, keeps the first position -/
def dictOfEntries (es : BDict) : BDict :=
  es.foldl (fun acc kv => if acc.any (fun p => p.1 == kv.1)
    then acc.map (fun p => if p.1 == kv.1 then (p.1, kv.2) else p) else acc ++ [kv]) []

/-- `read_binary_dict`; `none` = `BinaryDictIOError` (truncated or trailing data) -/
def readDict (bs : List Nat) : Option BDict := do
  let (hdr, r) ← takeExact bs 8
  let (es, rest) ← readEntries (ofBeBytes hdr) r
  if rest.isEmpty then pure (dictOfEntries es) else none

end Cirbo
