import Cirbo.Model.Mutate2
/-! # Model of `cirbo.sat.miter.build_miter` and `generate_pairwise_xor` -/
namespace Cirbo
open GateType Circuit

def genLabels (pre : String) (n : Nat) : List Label := (List.range n).map (fun i => pre ++ "_" ++ toString i)

/-- `generate_pairwise_xor(n)` -/
def pairwiseXorCircuit (n : Nat) : R Circuit := do
  let xs := genLabels "x" n
  let ys := genLabels "y" n
  let zs := genLabels "xor" n
  let c1 ← Circuit.empty.addInputs xs
  let c2 ← c1.addInputs ys
  ((xs.zip ys).zip zs).foldl (fun (acc : R Circuit) p => match acc with
    | .error e => .error e
    | .ok c => match c.addGate ⟨p.2, XOR, [p.1.1, p.1.2]⟩ with
      | .error e => .error e
      | .ok c' => c'.markAsOutput p.2) (.ok c2)

def Circuit.getBlock (c : Circuit) (name : Label) : R Block :=
  match c.blocks.find? (fun b => b.name == name) with
  | none => .error "Py:KeyError"
  | some b => .ok b

/-- `build_miter(left, right, left_name=, right_name=)` -/
def buildMiter (left right : Circuit) (leftName rightName : Label) : R Circuit :=
  if left.inputs.length != right.inputs.length || left.outputs.length != right.outputs.length
  then .error "MiterDifferentShapesError" else do
  let m0 ← Circuit.empty.connectCircuit left [] [] false leftName true
  let bl ← m0.getBlock leftName
  let m1 ← m0.connectCircuit right bl.inputs right.inputs false rightName true
  let px ← pairwiseXorCircuit left.outputs.length
  let bl1 ← m1.getBlock leftName
  let br1 ← m1.getBlock rightName
  let m2 ← m1.connectCircuit px (bl1.outputs ++ br1.outputs) px.inputs false "pairwise_xor" true
  let bx ← m2.getBlock "pairwise_xor"
  let m3 ← m2.addGate ⟨"big_or", if bx.outputs.length != 1 then OR else IFF, bx.outputs⟩
  m3.setOutputs ["big_or"]

end Cirbo
