import Cirbo.Model.BitIO
import Cirbo.Model.TopSort
import Cirbo.Model.Mutate
import Cirbo.Generated.CodecTables
/-!
# Model of `circuits_db/circuits_encoding.py`
-/
namespace Cirbo
open GateType

/-- `int.bit_length()` -/
def bitLength (n : Nat) : Nat := if n = 0 then 0 else Nat.log2 n + 1

def nonInputCount (c : Circuit) : Nat := (c.gates.filter (fun g => g.ty != INPUT)).length

/-- `_get_word_size` -/
def wordSize (c : Circuit) : Nat :=
  if c.gates.isEmpty then 1
  else bitLength (max (max c.inputs.length c.outputs.length) (c.gates.length - 1))

/-- the explicit-stack loop of `_enumerate_gates` for one starting gate; state = (result, expanded) -/
def enumLoop (c : Circuit) : Nat → List Label × List Label → List Label → List Label × List Label
  | 0, st, _ => st
  | fuel+1, (result, expanded), stack =>
    match stack.getLast? with
    | none => (result, expanded)
    | some label =>
      if result.contains label then enumLoop c fuel (result, expanded) stack.dropLast
      else
        let pending := (c.opsOf label).filter (fun o => !result.contains o)
        if !pending.isEmpty && !expanded.contains label
        then enumLoop c fuel (result, expanded ++ [label]) (stack ++ pending.reverse)
        else enumLoop c fuel (result ++ [label], expanded) stack.dropLast

def totalOps (c : Circuit) : Nat := (c.gates.map (·.ops.length)).foldl (· + ·) 0

/-- `_enumerate_gates`: inputs first, then every gate after its operands; the position in the
list is the identifier -/
def enumerateGates (c : Circuit) : List Label :=
  let r0 := c.inputs.foldl (fun r i => if r.contains i then r else r ++ [i]) []
  (c.labels.foldl (fun st l => enumLoop c (2 * (totalOps c + c.gates.length) + 2) st [l]) (r0, [])).1

def idOf (ids : List Label) (l : Label) : Option Nat :=
  let i := ids.idxOf l
  if i < ids.length then some i else none

/-- writer state: bits so far, or the first error -/
abbrev W := Except String (List Bool)

def wnum (w : W) (k width : Nat) : W :=
  match w with
  | .error e => .error e
  | .ok bits => match writeNumber k width with
    | none => .error "BitIOError"
    | some bs => .ok (bits ++ bs)

def encodeGate (ids : List Label) (ws : Nat) (w : W) (g : Gate) : W :=
  match w with
  | .error e => .error e
  | .ok _ =>
    if g.ty = INPUT then w else
    match Gen.codecTypeId g.ty with
    | none => .error "CircuitEncodingError"
    | some tid =>
      if g.ops.length ≠ Gen.codecArity g.ty then .error "CircuitEncodingError" else
      g.ops.foldl (fun w o => match w with
        | .error e => .error e
        | .ok _ => match idOf ids o with
          | none => .error "Py:KeyError"
          | some i => wnum w i ws) (wnum w tid Gen.gateTypeBitSize)

/-- `encode_circuit` -/
def encodeCircuit (c : Circuit) : Except String (List Nat) :=
  let ws := wordSize c
  let ids := enumerateGates c
  let w0 : W := wnum (.ok []) ws 8
  let w1 := wnum (wnum (wnum w0 c.inputs.length ws) c.outputs.length ws) (nonInputCount c) ws
  let w2 := ids.foldl (fun w l => match w with
    | .error e => .error e
    | .ok _ => match c.find? l with
      | none => .error "GateDoesntExistError"
      | some g => encodeGate ids ws w g) w1
  let w3 := c.outputs.foldl (fun w o => match w with
    | .error e => .error e
    | .ok _ => match idOf ids o with
      | none => .error "Py:KeyError"
      | some i => wnum w i ws) w2
  match w3 with
  | .error e => .error e
  | .ok bits => .ok (packBytes bits)

def gateLabel (i : Nat) : Label := "gate_" ++ toString i

structure DecSt where
  pos : Nat
  c : Circuit
  count : Nat      -- len(gates)

def rnum (bytes : List Nat) (pos w : Nat) : Except String (Nat × Nat) :=
  match readNumber bytes pos w with
  | none => .error "BitIOError"
  | some r => .ok r

def decodeOperands (bytes : List Nat) (ws count : Nat) : Nat → Nat → Except String (List Label × Nat)
  | 0, pos => .ok ([], pos)
  | n+1, pos => do
    let (i, pos1) ← rnum bytes pos ws
    if i < count then do
      let (rest, pos2) ← decodeOperands bytes ws count n pos1
      .ok (gateLabel i :: rest, pos2)
    else .error "CircuitEncodingError"

def decodeGates (bytes : List Nat) (ws : Nat) : Nat → DecSt → Except String DecSt
  | 0, st => .ok st
  | n+1, st => do
    let (tid, pos1) ← rnum bytes st.pos Gen.gateTypeBitSize
    match (Gen.codecTypeOfId[tid]?).join with
    | none => .error "CircuitEncodingError"
    | some ty => do
      let (ops, pos2) ← decodeOperands bytes ws st.count (Gen.codecArity ty) pos1
      let c' ← st.c.addGate ⟨gateLabel st.count, ty, ops⟩
      decodeGates bytes ws n ⟨pos2, c', st.count + 1⟩

def decodeOutputs (bytes : List Nat) (ws : Nat) : Nat → Nat → Circuit → Except String Circuit
  | 0, _, c => .ok c
  | n+1, pos, c => do
    let (i, pos1) ← rnum bytes pos ws
    let c' ← c.markAsOutput (gateLabel i)
    decodeOutputs bytes ws n pos1 c'

def addInputs (c : Circuit) : Nat → Nat → Except String Circuit
  | 0, _ => .ok c
  | n+1, i => do
    let c' ← c.addGate ⟨gateLabel i, INPUT, []⟩
    addInputs c' n (i + 1)

/-- `decode_circuit` -/
def decodeCircuit (bytes : List Nat) : Except String Circuit := do
  let (ws, p0) ← rnum bytes 0 8
  let (ni, p1) ← rnum bytes p0 ws
  let (no, p2) ← rnum bytes p1 ws
  let (nm, p3) ← rnum bytes p2 ws
  let c0 ← addInputs Circuit.empty ni 0
  let st ← decodeGates bytes ws nm ⟨p3, c0, ni⟩
  decodeOutputs bytes ws no st.pos st.c

end Cirbo
