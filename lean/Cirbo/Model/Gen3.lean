import Cirbo.Model.Gen2
/-!
# `multiplication.py` and `square.py`
-/
namespace Cirbo
open GateType

def PH : Label := Gen.placeholderStr

/-- one row of partial products: `[AND(a[j], bi) for j]` -/
def ppRow (bi : Label) : List Label → List Label → Prog (List Label)
  | [], acc => pure acc
  | aj :: r, acc => do
    let g ← emitTT aj bi t0001
    ppRow bi r (acc ++ [g])

/-- `c[i][j] = AND(a[j], b[i])`, rows in order of `i`, each row in order of `j` -/
def ppRows (a : List Label) : List Label → List (List Label) → Prog (List (List Label))
  | [], acc => pure acc
  | bi :: r, acc => do
    let row ← ppRow bi a []
    ppRows a r (acc ++ [row])

/-- `[(i + j, c[i][j]) for i for j]` -/
def ppWeighted (rows : List (List Label)) : List (Nat × Label) :=
  (rows.zipIdx.map (fun (ri : List Label × Nat) => ri.1.zipIdx.map (fun (lj : Label × Nat) => (ri.2 + lj.2, lj.1)))).flatten

/-- `add_mul` (MulMode.DEFAULT) -/
def addMul (a b : List Label) (bigEndian : Bool) : Prog (List Label) := do
  let a0 := revIf a bigEndian
  let b0 := revIf b bigEndian
  let rows ← ppRows a0 b0 []
  let out ← addSumWeighted (ppWeighted rows) (.enum .xaig)
  pure (revIf (out.map (·.2)) bigEndian)

def alterLoop : List (List Label) → Nat → List Label → Prog (List Label)
  | [], _, res => pure res
  | row :: r, i, res => do
    let res' ← addSumTwoNumbersWithShift i res row false
    alterLoop r (i + 1) res'

/-- `add_mul_alter` -/
def addMulAlter (a b : List Label) (bigEndian : Bool) : Prog (List Label) := do
  let a0 := revIf a bigEndian
  let b0 := revIf b bigEndian
  let rows ← ppRows a0 b0 []
  match rows with
  | [r0] => pure (revIf r0 bigEndian)
  | r0 :: r1 :: rest => do
    let res ← addSumTwoNumbersWithShift 1 r0 r1 false
    let res' ← alterLoop rest 2 res
    pure (revIf res' bigEndian)
  | [] => .fail "Py:IndexError"

/-- the bits other columns already pushed to weight `i`: `for j in range(i): if j + len(out[j]) > i: inp += out[j][i - j]` -/
def carriedInto (out : List (List (List Label))) (i : Nat) : List Label :=
  (out.zipIdx.map (fun (oj : List (List Label) × Nat) =>
    if oj.2 < i && oj.2 + oj.1.length > i then oj.1.getD (i - oj.2) [] else [])).flatten

/-- the column loop shared by `add_mul_pow2_m1` and `add_square_pow2_m1`; `own i` = the operand bits
of weight `i` -/
def pow2Columns (own : Nat → List Label) (basis : BasisArg) : List Nat → List (List (List Label)) → Prog (List (List (List Label)))
  | [], out => pure out
  | i :: r, out => do
    let inp := own i ++ carriedInto out i
    match inp with
    | [x] => pow2Columns own basis r (out ++ [[[x]]])
    | _ => do
      let o ← addSumPow2M1 inp false basis
      pow2Columns own basis r (out ++ [o])

def firstBits (out : List (List (List Label))) : Prog (List Label) :=
  out.foldl (fun (acc : Prog (List Label)) o => do
    let l ← acc
    match o with
    | (x :: _) :: _ => pure (l ++ [x])
    | _ => .fail "Py:IndexError") (pure [])

/-- `add_mul_pow2_m1` on little-endian operands -/
def mulPow2M1Core (a0 b0 : List Label) : Prog (List Label) := do
  let n := a0.length
  let m := b0.length
  let rows ← ppRows a0 b0 []
  if n == 1 then
    rows.foldl (fun (acc : Prog (List Label)) row => do
      let l ← acc
      match row with
      | x :: _ => pure (l ++ [x])
      | [] => .fail "Py:IndexError") (pure [])
  else if m == 1 then
    match rows with
    | r0 :: _ => pure r0
    | [] => .fail "Py:IndexError"
  else
    match rows with
    | (c00 :: _) :: _ => do
      let own := fun i => ((List.range (i + 1)).filter (fun j => j < m && i - j < n)).map
        (fun j => (rows.getD j []).getD (i - j) PH)
      let out ← pow2Columns own (.enum .xaig) ((List.range (n + m)).drop 1) [[[c00]]]
      firstBits out
    | _ => .fail "Py:IndexError"

def addMulPow2M1 (a b : List Label) (bigEndian : Bool) : Prog (List Label) := do
  let r ← mulPow2M1Core (revIf a bigEndian) (revIf b bigEndian)
  pure (revIf r bigEndian)

/-- `last_step_sum_with_new_powers_sum` on little-endian operands -/
def lastStepCore (a0 b0 : List Label) : Prog (List Label) := do
  let n := a0.length
  let m := b0.length
  let rows ← ppRows a0 b0 []
  if n == 1 then
    rows.foldl (fun (acc : Prog (List Label)) row => do
      let l ← acc
      match row with
      | x :: _ => pure (l ++ [x])
      | [] => .fail "Py:IndexError") (pure [])
  else if m == 1 then
    match rows with
    | r0 :: _ => pure r0
    | [] => .fail "Py:IndexError"
  else if n != m then .fail "Py:IndexError"
  else do
    let res ← addSumWeighted (ppWeighted rows) (.enum .xaig)
    if res.length < n + m then .fail "Py:IndexError" else pure ((res.take (n + m)).map (·.2))

/-- `while n != len(b): b.append(XOR(a[0], a[0]))` -/
def padZeros (a0 : Label) : Nat → List Label → Prog (List Label)
  | 0, b => pure b
  | k + 1, b => do
    let z ← emitTT a0 a0 t0110
    padZeros a0 k (b ++ [z])

def smallSize (n : Nat) : Bool := n < 20 && n != 18

/-- both Karatsuba variants (little-endian operands); `base` is the multiplier used below the
recursion threshold -/
def karaCore (base : List Label → List Label → Prog (List Label)) : Nat → List Label → List Label → Prog (List Label)
  | 0, _, _ => .fail "fuel"
  | fuel + 1, a, b => do
    let outSize := a.length + b.length - (if a.length == 1 || b.length == 1 then 1 else 0)
    let (la, lb) := if a.length < b.length then (b, a) else (a, b)
    let n := la.length
    let lb' ← (if n == lb.length then pure lb else
      match la with
      | a0 :: _ => padZeros a0 (n - lb.length) lb
      | [] => .fail "Py:IndexError")
    if smallSize n then do
      let r ← base la lb'
      pure (r.take outSize)
    else do
      let mid := n / 2
      let hiA := la.drop mid
      let loA := la.take mid
      let hiB := lb'.drop mid
      let loB := lb'.take mid
      let ac ← (if smallSize (n - mid) then base hiA hiB else karaCore base fuel hiA hiB)
      let bd ← (if smallSize mid then base loA loB else karaCore base fuel loA loB)
      let aSumB ← addSumTwoNumbers hiA loA false
      let cSumD ← addSumTwoNumbers hiB loB false
      let big ← (if smallSize aSumB.length then base aSumB cSumD else karaCore base fuel aSumB cSumD)
      let acSumBd ← addSumTwoNumbers ac bd false
      let resMid ← addSubTwoNumbers big acSumBd false
      let res ← addSumTwoNumbersWithShift mid bd resMid false
      let fin ← addSumTwoNumbersWithShift (2 * mid) res ac false
      pure (fin.take outSize)

/-- `add_mul_karatsuba` -/
def addMulKaratsuba (a b : List Label) (bigEndian : Bool) : Prog (List Label) := do
  let r ← karaCore mulPow2M1Core (a.length + b.length + 2) (revIf a bigEndian) (revIf b bigEndian)
  pure (revIf r bigEndian)

/-- `add_mul_karatsuba_with_efficient_sum` (MulMode.KARATSUBA) -/
def addMulKaratsubaEff (a b : List Label) (bigEndian : Bool) : Prog (List Label) := do
  let r ← karaCore lastStepCore (a.length + b.length + 2) (revIf a bigEndian) (revIf b bigEndian)
  pure (revIf r bigEndian)

/-! ### Dadda -/

/-- append `x` to column `i` -/
def colAppend (c : List (List Label)) (i : Nat) (x : Label) : List (List Label) :=
  c.zipIdx.map (fun (ci : List Label × Nat) => if ci.2 == i then ci.1 ++ [x] else ci.1)

/-- columns of partial products: `c[i + j].append(AND(a[j], b[i]))` -/
def ppColumns (a : List Label) : List (Label × Nat) → List (List Label) → Prog (List (List Label))
  | [], c => pure c
  | (bi, i) :: r, c => do
    let c' ← (a.zipIdx).foldl (fun (acc : Prog (List (List Label))) (aj : Label × Nat) => do
      let cc ← acc
      let g ← emitTT aj.1 bi t0001
      pure (colAppend cc (i + aj.2) g)) (pure c)
    ppColumns a r c'

/-- `while len(c[i]) >= di:` one column -/
def daddaColumn (di i width : Nat) : Nat → List (List Label) → Prog (List (List Label))
  | 0, c => pure c
  | fuel + 1, c =>
    let col := c.getD i []
    if col.length ≥ di then
      if col.length == di then
        match col with
        | x :: y :: rest => do
          let (g1, g2) ← pair2 (← addSum2 [x, y])
          let c1 := c.set i (rest ++ [g1])
          daddaColumn di i width fuel (if i + 1 < width then colAppend c1 (i + 1) g2 else c1)
        | _ => .fail "Py:IndexError"
      else
        match col with
        | x :: y :: z :: rest => do
          let (g1, g2) ← pair2 (← addSum3 [x, y, z])
          let c1 := c.set i (rest ++ [g1])
          daddaColumn di i width fuel (if i + 1 < width then colAppend c1 (i + 1) g2 else c1)
        | _ => .fail "Py:IndexError"
    else pure c

def daddaStage (di width : Nat) (c : List (List Label)) : Prog (List (List Label)) :=
  progFold ((List.range width).drop 1) c (fun cc i => daddaColumn di i width ((cc.getD i []).length + 1) cc)

def daddaStart : Nat → Nat → Nat → Nat
  | 0, di, _ => di
  | fuel + 1, di, k => if 3 * di / 2 < k then daddaStart fuel (3 * di / 2) k else di

def daddaStages (width : Nat) : Nat → Nat → List (List Label) → Prog (List (List Label))
  | 0, _, _ => .fail "fuel"
  | fuel + 1, di, c =>
    if di == 1 then pure c else do
      let c' ← daddaStage di width c
      daddaStages width fuel (if di == 2 then 1 else (2 * di + 2) / 3) c'

def heads (c : List (List Label)) : Prog (List Label) :=
  c.foldl (fun (acc : Prog (List Label)) col => do
    let l ← acc
    match col with
    | x :: _ => pure (l ++ [x])
    | [] => .fail "Py:IndexError") (pure [])

/-- `add_mul_dadda` -/
def addMulDadda (a b : List Label) (bigEndian : Bool) : Prog (List Label) := do
  let a0 := revIf a bigEndian
  let b0 := revIf b bigEndian
  let n := a0.length
  let m := b0.length
  let c ← ppColumns a0 b0.zipIdx (List.replicate (n + m) [])
  if n == 1 || m == 1 then do
    let h ← heads (c.take (m + n - 1))
    pure (revIf h bigEndian)
  else do
    let di := daddaStart (n + m) 2 (min n m)
    let c' ← daddaStages (n + m) (n + m + 4) di c
    let h ← heads c'
    pure (revIf h bigEndian)

/-! ### Wallace -/

/-- matrix `c[col][row]`, `PH` where empty -/
def matSet (c : List (List Label)) (col row : Nat) (x : Label) : List (List Label) :=
  c.zipIdx.map (fun (ci : List Label × Nat) => if ci.2 == col then ci.1.set row x else ci.1)

def ppMatrix (a : List Label) : List (Label × Nat) → List (List Label) → Prog (List (List Label))
  | [], c => pure c
  | (bi, i) :: r, c => do
    let c' ← (a.zipIdx).foldl (fun (acc : Prog (List (List Label))) (aj : Label × Nat) => do
      let cc ← acc
      let g ← emitTT aj.1 bi t0001
      pure (matSet cc (i + aj.2) i g)) (pure c)
    ppMatrix a r c'

/-- one reduction round of `add_mul_wallace` -/
def wallaceRound (width : Nat) (c : List (List Label)) : Prog (List (List Label)) := do
  let rows := (c.headD []).length
  let full := rows - rows % 3
  let cn0 := List.replicate width (List.replicate (2 * (rows / 3)) PH)
  let groups := (List.range (full / 3)).map (· * 3)
  let cn ← progFold groups cn0 (fun cn row =>
    progFold (List.range width) cn (fun cn col => do
      let column := c.getD col []
      let inp := ([row, row + 1, row + 2].map (fun k => column.getD k PH)).filter (· != PH)
      if inp.isEmpty then pure cn else do
        let res ← addSumNBits inp (.enum .xaig) false
        pure ((res.zipIdx).foldl (fun (acc : List (List Label)) (ri : Label × Nat) =>
          if col + ri.2 < width then matSet acc (col + ri.2) (2 * (row / 3) + ri.2) ri.1 else acc) cn)))
  -- the remaining `rows % 3` rows are appended unchanged
  pure (cn.zipIdx.map (fun (ci : List Label × Nat) => ci.1 ++ ((c.getD ci.2 []).drop full)))

def wallaceRounds (width : Nat) : Nat → List (List Label) → Prog (List (List Label))
  | 0, _ => .fail "fuel"
  | fuel + 1, c =>
    if (c.headD []).length == 2 then pure c else do
      let c' ← wallaceRound width c
      wallaceRounds width fuel c'

/-- the two remaining rows as aligned numbers: positions from the first to the last used column,
a constant-false bit (created once, on demand) where a row has a gap -/
def rowBits (c : List (List Label)) (k : Nat) (first last : Nat) (zero : Label) : List Label :=
  ((List.range (last + 1)).drop first).map (fun i =>
    let x := (c.getD i []).getD k PH
    if x == PH then zero else x)

def usedCols (c : List (List Label)) (k : Nat) : List Nat :=
  (List.range c.length).filter (fun i => (c.getD i []).getD k PH != PH)

/-- `add_mul_wallace` -/
def addMulWallace (a b : List Label) (bigEndian : Bool) : Prog (List Label) := do
  let a0 := revIf a bigEndian
  let b0 := revIf b bigEndian
  let n := a0.length
  let m := b0.length
  let c ← ppMatrix a0 b0.zipIdx (List.replicate (n + m) (List.replicate m PH))
  if n == 1 then pure (revIf ((List.range m).map (fun i => (c.getD i []).getD i PH)) bigEndian)
  else if m == 1 then pure (revIf ((List.range n).map (fun i => (c.getD i []).getD 0 PH)) bigEndian)
  else do
    let c' ← wallaceRounds (n + m) (m + 2) c
    let ua := usedCols c' 0
    let ub := usedCols c' 1
    let lastA := ua.getLast?.getD 0
    let firstB := ub.headD (n + m)
    let lastB := ub.getLast?.getD 0
    let gapsA := ua.length != lastA + 1
    let gapsB := !ub.isEmpty && ub.length != lastB + 1 - firstB
    let zero ← (if gapsA || gapsB then
      match a0 with
      | x :: _ => emitTT x x t0000
      | [] => .fail "Py:IndexError"
      else pure PH)
    let la := if ua.isEmpty then [] else rowBits c' 0 0 lastA zero
    let lb := if ub.isEmpty then [] else rowBits c' 1 firstB lastB zero
    let r ← addSumTwoNumbersWithShift firstB la lb false
    pure (revIf (r.take (n + m)) bigEndian)

/-! ### squares -/

/-- `add_square_pow2_m1` on a little-endian operand -/
def squarePow2M1Core (x : List Label) : Prog (List Label) :=
  let n := x.length
  match x with
  | [] => .fail "Py:IndexError"
  | [_] => pure x
  | x0 :: _ => do
    -- `c[i][j] = AND(x[i], x[j])` for `i < j`, row by row
    let c ← progFold (List.range n) (List.replicate n (List.replicate n PH)) (fun c i =>
      progFold ((List.range n).drop (i + 1)) c (fun c j => do
        let g ← emitTT (x.getD i PH) (x.getD j PH) t0001
        pure (c.set i ((c.getD i []).set j g))))
    let c := c.zipIdx.map (fun (ri : List Label × Nat) => ri.1.set ri.2 (x.getD ri.2 PH))
    let zero ← emitTT x0 x0 t0000
    let own := fun i =>
      (((List.range (i / 2)).filter (fun j => j < n && i - j - 1 < n)).map (fun j => (c.getD j []).getD (i - j - 1) PH)) ++
      (if i % 2 == 0 then [(c.getD (i / 2) []).getD (i / 2) PH] else [])
    let out ← pow2Columns own (.enum .xaig) ((List.range (2 * n)).drop 2) [[[x0]], [[zero]]]
    firstBits out

def addSquarePow2M1 (x : List Label) (bigEndian : Bool) : Prog (List Label) := do
  let r ← squarePow2M1Core (revIf x bigEndian)
  pure (revIf r bigEndian)

def squareCore : Nat → List Label → Prog (List Label)
  | 0, _ => .fail "fuel"
  | fuel + 1, x =>
    let n := x.length
    if n < 48 || n == 49 || n == 53 then squarePow2M1Core x else do
      let mid := n / 2
      let a := x.take mid
      let b := x.drop mid
      let aa ← squareCore fuel a
      let bb ← squareCore fuel b
      let ab ← addMulKaratsuba a b false
      let res ← addSumTwoNumbersWithShift (mid + 1) aa ab false
      let fin ← addSumTwoNumbersWithShift (2 * mid) res bb false
      pure (fin.take (2 * n))

/-- `add_square` -/
def addSquare (x : List Label) (bigEndian : Bool) : Prog (List Label) := do
  let r ← squareCore (x.length + 1) (revIf x bigEndian)
  pure (revIf r bigEndian)

end Cirbo
