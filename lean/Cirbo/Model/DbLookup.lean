import Cirbo.Model.Norm
/-!
# `CircuitsDatabase.get_by_raw_truth_table_model`: lookup of a table with don't-cares (C17)

All completions of the table are looked up in the order of `itertools.product((False, True), …)`
and the smallest circuit found wins (the first one among equals).
-/
namespace Cirbo
namespace Norm

/-- an entry of a truth-table model: `none` = `DontCare` -/
abbrev TEntry := Option Bool

/-- `undefined_positions`: the `(output, input-row)` positions that are don't-cares, in reading order -/
def undefinedPositions (tt : List (List TEntry)) : List (Nat × Nat) :=
  (tt.zipIdx.map (fun (ri : List TEntry × Nat) =>
    (ri.1.zipIdx.filter (fun (ej : TEntry × Nat) => ej.1.isNone)).map (fun (ej : TEntry × Nat) => (ri.2, ej.2)))).flatten

/-- `defined_truth_table`: don't-cares start as `False` -/
def baseTable (tt : List (List TEntry)) : List Row := tt.map (fun r => r.map (fun e => e.getD false))

/-- writing one substitution into the table -/
def substitute (t : List Row) (pos : List (Nat × Nat)) (vals : List Bool) : List Row :=
  (pos.zip vals).foldl (fun (t : List Row) (p : (Nat × Nat) × Bool) => t.set p.1.1 ((t.getD p.1.1 []).set p.1.2 p.2)) t

/-- `itertools.product((False, True), repeat=k)`: lexicographic, `False` first, first position slowest -/
def allSubs : Nat → List (List Bool)
  | 0 => [[]]
  | k + 1 => (allSubs k).map (false :: ·) ++ (allSubs k).map (true :: ·)

/-- the tables looked up, in order -/
def completions (tt : List (List TEntry)) : List (List Row) :=
  (allSubs (undefinedPositions tt).length).map (substitute (baseTable tt) (undefinedPositions tt))

/-- keep the strictly smaller one -/
def pickStep {γ} (size : γ → Nat) (acc : Option (γ × Nat)) (found : Option γ) : Option (γ × Nat) :=
  match found with
  | none => acc
  | some c =>
    match acc with
    | none => some (c, size c)
    | some (r, rs) => if size c < rs then some (c, size c) else some (r, rs)

/-- `get_by_raw_truth_table_model`, the database lookup and the size measure as parameters -/
def lookupDC {γ} (lookup : List Row → Option γ) (size : γ → Nat) (tt : List (List TEntry)) : Option γ :=
  ((completions tt).foldl (fun acc t => pickStep size acc (lookup t)) none).map (·.1)

end Norm
end Cirbo
