import Cirbo.Model.Synth
import Cirbo.Model.Mutate
import Cirbo.Generated.SynthTables
/-!
# `CircuitFinderSat._get_circuit_by_model`: the `Circuit` built from a decoded solution
Inputs are labelled `str(i)`, internal gates `'s' + str(g)`; the gate type comes from the
regenerated `_tt_to_gate_type` table; outputs are marked in the order of the output index.
-/
namespace Cirbo
namespace Synth
open GateType Circuit

def synthLabel (sp : Spec) (g : Nat) : Label := if g < sp.n then toString g else "s" ++ toString g

def synthGate (sp : Spec) (sol : Sol) (g : Nat) : Option Gate :=
  match Gen.synthTtType (sol.op g false false) (sol.op g false true) (sol.op g true false) (sol.op g true true) with
  | none => none
  | some ty => some ⟨"s" ++ toString g, ty, [synthLabel sp (sol.pred g).1, synthLabel sp (sol.pred g).2]⟩

def inputStep (acc : R Circuit) (i : Nat) : R Circuit :=
  match acc with
  | .error e => .error e
  | .ok c => c.addGate ⟨toString i, INPUT, []⟩

def internalStep (sp : Spec) (sol : Sol) (acc : R Circuit) (g : Nat) : R Circuit :=
  match acc with
  | .error e => .error e
  | .ok c => match synthGate sp sol g with
    | none => .error "Py:KeyError"
    | some gt => c.addGate gt

def outputStep (sol : Sol) (acc : R Circuit) (h : Nat) : R Circuit :=
  match acc with
  | .error e => .error e
  | .ok c => c.markAsOutput ("s" ++ toString (sol.out h))

def solToCircuit (sp : Spec) (sol : Sol) : R Circuit :=
  (List.range sp.m).foldl (outputStep sol)
    ((internal sp).foldl (internalStep sp sol) ((List.range sp.n).foldl inputStep (.ok Circuit.empty)))

end Synth
end Cirbo
