import Cirbo.Model.Pattern
import Cirbo.Model.Dict
/-!
# C04: the cone simulation and the don't-care table of `minimize_subcircuits`

`_get_subcircuits` simulates every cut cone on the patterns of its leaves (`circuit_tt`),
`_eval_dont_cares` collects the leaf vectors that occur under some assignment of the circuit inputs,
`_Subcircuit.evaluate_truth_table_with_dont_cares` turns both into the table handed to exact
synthesis.  Proved here: the table is defined exactly on the leaf vectors that occur, every defined
entry is the cone output's value on that leaf vector, and therefore ANY circuit that agrees with the
table on its defined entries `SliceAgrees` with the cone — the hypothesis of the splice theorem.
-/
namespace Cirbo
namespace Cone
open Pattern GateType

/-- number of the leaf assignment in which leaf `j` carries `bs[j]` (leaf 0 = least significant) -/
def lsbRow : List Bool → Nat
  | [] => 0
  | b :: r => b.toNat + 2 * lsbRow r

/-- the `j`-th character of the `r`-th element of `itertools.product('01', repeat=n)` -/
def msbBits (n r : Nat) : List Bool := (List.range n).map (fun k => r.testBit (n - 1 - k))

/-- `circuit_tt` is a `defaultdict(int)`: a missing key reads as 0 -/
def ttGet (tt : List (Label × Nat)) (l : Label) : Nat := (tt.lookup l).getD 0

/-- `for i, node in enumerate(inputs_lst): circuit_tt[node] = inputs_tt[n][i]` -/
def initTT (leaves : List Label) : List (Label × Nat) :=
  leaves.zipIdx.map (fun p => (p.1, leafPattern leaves.length p.2))

/-- one round of `for node in nodes:` in `_get_subcircuits` -/
def simStep (c : Circuit) (leaves : List Label) (acc : R (List (Label × Nat))) (node : Label) :
    R (List (Label × Nat)) := do
  let tt ← acc
  if node ∈ leaves then pure tt else
  match c.find? node with
  | none => .error "CircuitGateIsAbsentError"
  | some g => do
    let p ← evalPattern leaves.length g.ty (g.ops.map (ttGet tt))
    pure ((node, p) :: tt)

def simulate (c : Circuit) (leaves nodes : List Label) : R (List (Label × Nat)) :=
  nodes.foldl (simStep c leaves) (.ok (initTT leaves))

/-- `evaluate_truth_table_with_dont_cares`: one row per output, entry `r` defined iff the `r`-th
assignment string occurs in `inputs_tt` -/
def ttDC (n : Nat) (outPats : List Nat) (reach : List (List Bool)) : List (List (Option Bool)) :=
  outPats.map fun p => (List.range (2 ^ n)).map fun r =>
    if msbBits n r ∈ reach then some (p.testBit r) else none

/-- `_eval_dont_cares` for one cone: the vectors `subcircuit.inputs.map value` over the valuations
`vals` of the circuit (one per assignment of the circuit inputs) -/
def reachOf (ins : List Label) (vals : List (Label → Bool)) : List (List Bool) :=
  vals.map (fun v => ins.map v)

/-- entry of output `j` at row `r` (`none` = don't-care) -/
def entry (tab : List (List (Option Bool))) (j r : Nat) : Option Bool := (tab.getD j []).getD r none

/-- `subcircuit.inputs_tt = sorted(set(strings))`: the assignment strings that occur, each once, in
lexicographic order — the strings of `itertools.product` order that occur -/
def inputsTT (n : Nat) (occ : List (List Bool)) : List (List Bool) :=
  ((List.range (2 ^ n)).map (msbBits n)).filter (fun s => occ.contains s)

/-- the vectors `_eval_dont_cares` collects for one cone: for every assignment number `i` of the
circuit inputs, the values of `ins` in column `i` of the gates' truth tables -/
def occOf (gtt : Dict (List V3)) (rows : Nat) (ins : List Label) : List (List Bool) :=
  (List.range rows).map (fun i => ins.map (fun l => ((gtt.get? l).getD []).getD i V3.U == V3.T))

end Cone
end Cirbo
