/-!
# Basic types shared by Spec, Model, Generated and Driver (core Lean only).
-/
namespace Cirbo

abbrev Label := String

/-- The 19 gate types of `cirbo.core.circuit.gate`. -/
inductive GateType
  | INPUT | ALWAYS_TRUE | ALWAYS_FALSE | AND | GEQ | GT | IFF | LEQ | LIFF | LNOT
  | LT | NAND | NOR | NOT | NXOR | OR | RIFF | RNOT | XOR
  deriving DecidableEq, Repr, Inhabited

namespace GateType

def all : List GateType :=
  [INPUT, ALWAYS_TRUE, ALWAYS_FALSE, AND, GEQ, GT, IFF, LEQ, LIFF, LNOT,
   LT, NAND, NOR, NOT, NXOR, OR, RIFF, RNOT, XOR]

def name : GateType → String
  | INPUT => "INPUT" | ALWAYS_TRUE => "ALWAYS_TRUE" | ALWAYS_FALSE => "ALWAYS_FALSE"
  | AND => "AND" | GEQ => "GEQ" | GT => "GT" | IFF => "IFF" | LEQ => "LEQ"
  | LIFF => "LIFF" | LNOT => "LNOT" | LT => "LT" | NAND => "NAND" | NOR => "NOR"
  | NOT => "NOT" | NXOR => "NXOR" | OR => "OR" | RIFF => "RIFF" | RNOT => "RNOT"
  | XOR => "XOR"

def ofName? (s : String) : Option GateType := all.find? (fun t => t.name == s)

theorem mem_all (t : GateType) : t ∈ all := by cases t <;> simp [all]

end GateType

/-- Three-valued gate state: `False`, `True`, `Undefined`. -/
inductive V3 | F | T | U
  deriving DecidableEq, Repr, Inhabited

namespace V3
def ofBool : Bool → V3 | false => F | true => T
def idx : V3 → Nat | F => 0 | T => 1 | U => 2
def all : List V3 := [F, T, U]
/-- information order: `U` is below everything, `F`/`T` only below themselves -/
def le (a b : V3) : Prop := a = U ∨ a = b
instance : LE V3 := ⟨le⟩
instance (a b : V3) : Decidable (a ≤ b) := inferInstanceAs (Decidable (a = U ∨ a = b))
def toStr : V3 → String | F => "F" | T => "T" | U => "U"
end V3

/-- A gate: label, type, operand labels (order matters). -/
structure Gate where
  label : Label
  ty : GateType
  ops : List Label
  deriving DecidableEq, Repr, Inhabited

/-- A block: named view of part of a circuit. -/
structure Block where
  name : Label
  inputs : List Label
  gates : List Label
  outputs : List Label
  deriving DecidableEq, Repr, Inhabited

/-- The five fields of a Python `Circuit`, in storage (dict insertion) order. -/
structure Circuit where
  gates : List Gate
  inputs : List Label
  outputs : List Label
  users : List (Label × List Label)
  blocks : List Block
  deriving DecidableEq, Repr, Inhabited

namespace Circuit
def empty : Circuit := ⟨[], [], [], [], []⟩
def labels (c : Circuit) : List Label := c.gates.map (·.label)
def find? (c : Circuit) (l : Label) : Option Gate := c.gates.find? (fun g => g.label == l)
def hasGate (c : Circuit) (l : Label) : Bool := c.gates.any (fun g => g.label == l)
/-- `Circuit.get_gate_users` for an existing gate: `[]` if there is no entry. -/
def usersOf (c : Circuit) (l : Label) : List Label := (c.users.lookup l).getD []
end Circuit

end Cirbo
