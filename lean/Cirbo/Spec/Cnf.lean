import Cirbo.Basic
/-! # Spec: CNF satisfaction (DIMACS-style literals: variable `n ≥ 1`, literal `±n`) -/
namespace Cirbo

def litVal (σ : Nat → Bool) (l : Int) : Bool := if l > 0 then σ l.natAbs else !σ l.natAbs
def clauseSat (σ : Nat → Bool) (cl : List Int) : Bool := cl.any (litVal σ)
def cnfSat (σ : Nat → Bool) (cnf : List (List Int)) : Bool := cnf.all (clauseSat σ)

theorem litVal_neg (σ : Nat → Bool) {l : Int} (h : l ≠ 0) : litVal σ (-l) = !litVal σ l := by
  unfold litVal
  by_cases hp : l > 0
  · have : ¬ (-l > 0) := by omega
    simp only [hp, this, if_true, if_false, Int.natAbs_neg]
  · have : -l > 0 := by omega
    simp only [hp, this, if_true, if_false, Int.natAbs_neg, Bool.not_not]

theorem litVal_ofNat (σ : Nat → Bool) {k : Nat} (h : 0 < k) : litVal σ (Int.ofNat k) = σ k := by
  unfold litVal
  have : (Int.ofNat k) > 0 := by simp; omega
  simp only [this, if_true]; rfl

theorem cnfSat_append (σ : Nat → Bool) (a b : List (List Int)) :
    cnfSat σ (a ++ b) = (cnfSat σ a && cnfSat σ b) := by simp [cnfSat, List.all_append]

end Cirbo
