import Cirbo.Basic
/-!
# Spec: the one fixed Boolean function of every gate type

Written from the property text (C01), not from the code:
n-ary AND/OR/XOR are folds (arity ≥ 2), NAND/NOR/NXOR negate the fold, NOT/IFF are unary,
GT/LT/GEQ/LEQ compare the first operand with the second, L*/R* gates read only their
left/right operand, constants take any number of operands.  `none` = the arity is not
accepted.
-/
namespace Cirbo
open GateType

def xorAll : List Bool → Bool
  | [] => false
  | x :: xs => xor x (xorAll xs)

def bfun : GateType → List Bool → Option Bool
  | .ALWAYS_TRUE, _ => some true
  | .ALWAYS_FALSE, _ => some false
  | .NOT, [a] => some (!a)
  | .IFF, [a] => some a
  | .AND, a :: b :: r => some ((a :: b :: r).all id)
  | .OR, a :: b :: r => some ((a :: b :: r).any id)
  | .XOR, a :: b :: r => some (xorAll (a :: b :: r))
  | .NAND, a :: b :: r => some (!(a :: b :: r).all id)
  | .NOR, a :: b :: r => some (!(a :: b :: r).any id)
  | .NXOR, a :: b :: r => some (!xorAll (a :: b :: r))
  | .GT, [a, b] => some (a && !b)
  | .LT, [a, b] => some (!a && b)
  | .GEQ, [a, b] => some (a || !b)
  | .LEQ, [a, b] => some (!a || b)
  | .LIFF, [a, _] => some a
  | .RIFF, [_, b] => some b
  | .LNOT, [a, _] => some (!a)
  | .RNOT, [_, b] => some (!b)
  | _, _ => none

/-- arities accepted for each (non-INPUT) gate type -/
def arityOk : GateType → Nat → Bool
  | .INPUT, _ => false
  | .ALWAYS_TRUE, _ => true
  | .ALWAYS_FALSE, _ => true
  | .NOT, n => n == 1
  | .IFF, n => n == 1
  | .AND, n => 2 ≤ n | OR, n => 2 ≤ n | XOR, n => 2 ≤ n
  | .NAND, n => 2 ≤ n | NOR, n => 2 ≤ n | NXOR, n => 2 ≤ n
  | _, n => n == 2

end Cirbo
