import Cirbo.Spec.Bool
/-!
# Spec: well-formed circuits and valuations

`WF` is the well-formedness notion of C02 (netlist part), `WFU` adds the users index,
`IsValB c a v` says that `v` gives every gate the value obtained by composing the fixed
Boolean functions `bfun` over the total input assignment `a` (the denotational semantics,
stated relationally: existence and uniqueness are theorems).
-/
namespace Cirbo
open GateType

structure WF (c : Circuit) : Prop where
  /-- gate labels are pairwise distinct (the gate map is a map) -/
  nodup : c.labels.Nodup
  /-- every operand names an existing gate -/
  closed : ∀ g ∈ c.gates, ∀ o ∈ g.ops, o ∈ c.labels
  /-- the graph is acyclic -/
  rank : ∃ r : Label → Nat, ∀ g ∈ c.gates, ∀ o ∈ g.ops, r o < r g.label
  /-- INPUT gates have no operands; every other gate has an arity its type accepts -/
  arity : ∀ g ∈ c.gates, if g.ty = INPUT then g.ops = [] else arityOk g.ty g.ops.length = true
  /-- the input list is exactly the INPUT gates, each once -/
  inputsNodup : c.inputs.Nodup
  inputsOK : ∀ l, l ∈ c.inputs ↔ ∃ g ∈ c.gates, g.label = l ∧ g.ty = INPUT
  /-- every output names an existing gate -/
  outputsOK : ∀ o ∈ c.outputs, o ∈ c.labels

/-- the users index is exactly the inverse operand multiset -/
structure WFU (c : Circuit) : Prop extends WF c where
  usersL : ∀ l s, s ∈ c.usersOf l → s ∈ c.labels
  usersC : ∀ l, ∀ g ∈ c.gates, (c.usersOf l).count g.label = g.ops.count l

/-- Boolean denotational semantics, relationally. -/
def IsValB (c : Circuit) (a : Label → Bool) (v : Label → Bool) : Prop :=
  ∀ g ∈ c.gates, if g.ty = INPUT then v g.label = a g.label
                 else bfun g.ty (g.ops.map v) = some (v g.label)

end Cirbo
