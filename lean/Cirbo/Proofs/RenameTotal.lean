import Cirbo.Proofs.Rename
import Cirbo.Proofs.RemoveGate
import Cirbo.Proofs.ConnSem
/-!
# `rename_gate` returns exactly when the old label is a gate and the new one is not (C19)
-/
namespace Cirbo
open GateType Circuit

theorem count_replaceFirst {old new : Label} (hne : new ≠ old) : ∀ (xs : List Label), old ∈ xs →
    (replaceFirst old new xs).count old + 1 = xs.count old := by
  intro xs
  induction xs with
  | nil => intro h; cases h
  | cons x t ih =>
    intro h
    by_cases e : x = old
    · subst e
      simp only [replaceFirst, beq_self_eq_true, if_true, List.count_cons_self]
      rw [List.count_cons_of_ne (fun h => hne h)]
    · have hb : (x == old) = false := by simpa using e
      have hm : old ∈ t := by
        rcases List.mem_cons.mp h with h | h
        · exact absurd h.symm e
        · exact h
      simp only [replaceFirst, hb, Bool.false_eq_true, if_false]
      rw [List.count_cons_of_ne (fun h => e h), List.count_cons_of_ne (fun h => e h)]
      exact ih hm

theorem usersFold_total (old new : Label) (hne : new ≠ old) : ∀ (ops : List Label) (users : Dict (List Label)),
    (∀ o ∈ ops, ∃ us, Dict.get? users o = some us ∧ ops.count o ≤ us.count old) →
    ∃ users2, ops.foldl (usersStep old new) (.ok users) = .ok users2 := by
  intro ops
  induction ops with
  | nil => intro users _; exact ⟨users, rfl⟩
  | cons o t ih =>
    intro users h
    obtain ⟨us, hus, hc⟩ := h o (by simp)
    have hpos : 0 < us.count old := by simp only [List.count_cons_self] at hc; omega
    have hmem : old ∈ us := List.count_pos_iff.mp hpos
    have hstep : usersStep old new (.ok users) o = .ok (Dict.set users o (replaceFirst old new us)) := by
      unfold usersStep
      simp only [hus]
      simp [hmem]
    simp only [List.foldl_cons, hstep]
    apply ih
    intro o' ho'
    rw [Dict.get?_set]
    by_cases e : o' = o
    · subst e
      simp only [if_true]
      refine ⟨_, rfl, ?_⟩
      have := count_replaceFirst hne us hmem
      simp only [List.count_cons_self] at hc
      omega
    · simp only [e, if_false]
      obtain ⟨us', hus', hc'⟩ := h o' (by simp [ho'])
      refine ⟨us', hus', ?_⟩
      rw [List.count_cons_of_ne (fun h => e h.symm)] at hc'
      exact hc'

/-- **`rename_gate` returns** on a well-formed circuit whenever `old` is a gate and `new` is not -/
theorem renameGate_total {c : Circuit} {old new : Label} (hw : WFS c) (hold : old ∈ c.labels) (hnew : new ∉ c.labels) :
    ∃ c', c.renameGate old new = .ok c' := by
  obtain ⟨g, hg, hgl⟩ : ∃ g ∈ c.gates, g.label = old := by simpa [Circuit.labels] using hold
  have hf : c.find? old = some g := hgl ▸ find_of_mem hw.nodup hg
  have hne : new ≠ old := fun e => hnew (e ▸ hold)
  have hhas : c.hasGate new = false := (hasGate_false_iff c new).mpr hnew
  -- no gate reads itself
  obtain ⟨r, hr⟩ := hw.rank
  have hself : old ∉ g.ops := fun hm => by have := hr g hg old hm; rw [hgl] at this; omega
  have hselfU : old ∉ c.usersOf old := by
    intro hm
    have h1 := hw.usersC old g hg
    rw [hgl] at h1
    have : 0 < (c.usersOf old).count old := List.count_pos_iff.mpr hm
    have : g.ops.count old = 0 := List.count_eq_zero.mpr hself
    omega
  -- the operand index entries
  have hent : ∀ o ∈ g.ops, ∃ us, Dict.get? c.users o = some us ∧ g.ops.count o ≤ us.count old := by
    intro o ho
    have h1 := hw.usersC o g hg
    rw [hgl, usersOf_eq] at h1
    cases hgo : Dict.get? c.users o with
    | none =>
      rw [hgo] at h1
      simp only [Option.getD_none, List.count_nil] at h1
      have : 0 < g.ops.count o := List.count_pos_iff.mpr ho
      omega
    | some us =>
      rw [hgo] at h1
      exact ⟨us, rfl, by simp only [Option.getD_some] at h1; omega⟩
  have hone : ∀ o ∈ g.ops, o ≠ old ∧ o ≠ new := fun o ho =>
    ⟨fun e => hself (e ▸ ho), fun e => hnew (e ▸ hw.closed g hg o ho)⟩
  unfold renameGate
  simp only [hf, hhas, Bool.false_eq_true, if_false]
  cases hu : Dict.get? c.users old with
  | none =>
    simp only
    have hg1 : (c.gates.find? (fun x => x.label == old)).getD g = g := by
      have : c.gates.find? (fun x => x.label == old) = some g := hf
      rw [this]; rfl
    rw [hg1]
    obtain ⟨users2, h2⟩ := usersFold_total old new hne g.ops c.users hent
    generalize hfold : List.foldl _ (Except.ok c.users) g.ops = rr
    have : rr = .ok users2 := by rw [← hfold]; exact h2
    subst this
    exact ⟨_, rfl⟩
  | some us =>
    simp only
    have hus : c.usersOf old = us := by rw [usersOf_eq, hu]; rfl
    have hfoldg : us.foldl (fun (gs : List Gate) u => gs.map (fun x =>
        if x.label == u then { x with ops := renameIn old new x.ops } else x)) c.gates = us.foldl (gatesStep old new) c.gates := rfl
    rw [hfoldg, gatesFold_eq hne]
    have hg1 : ((c.gates.map (fun x => if us.contains x.label then renOps old new x else x)).find? (fun x => x.label == old)).getD g = g := by
      have hfind : ∀ (gs : List Gate), gs.find? (fun x => x.label == old) = some g →
          (gs.map (fun x => if us.contains x.label then renOps old new x else x)).find? (fun x => x.label == old) = some g := by
        intro gs
        induction gs with
        | nil => intro h; cases h
        | cons y t ih =>
          intro h
          simp only [List.map_cons, List.find?_cons] at h ⊢
          have hl : (if us.contains y.label then renOps old new y else y).label = y.label := by split <;> rfl
          rw [hl]
          by_cases e : (y.label == old) = true
          · simp only [e] at h ⊢
            simp only [Option.some.injEq] at h
            subst h
            have : us.contains y.label = false := by
              have : y.label = old := by simpa using e
              rw [this]
              cases hc : us.contains old with
              | false => rfl
              | true => exact absurd (by simpa using hc) (hus ▸ hselfU)
            simp only [this, Bool.false_eq_true, if_false]
          · have e' : (y.label == old) = false := by simpa using e
            simp only [e'] at h ⊢
            exact ih h
      rw [hfind c.gates hf]; rfl
    rw [hg1]
    have hent' : ∀ o ∈ g.ops, ∃ us', Dict.get? (Dict.set (Dict.erase c.users old) new us) o = some us' ∧ g.ops.count o ≤ us'.count old := by
      intro o ho
      obtain ⟨h1, h2⟩ := hone o ho
      rw [Dict.get?_set, get?_erase]
      simp only [h2, h1, if_false]
      exact hent o ho
    obtain ⟨users2, h2⟩ := usersFold_total old new hne g.ops _ hent'
    generalize hfold : List.foldl _ (Except.ok (Dict.set (Dict.erase c.users old) new us)) g.ops = rr
    have : rr = .ok users2 := by rw [← hfold]; exact h2
    subst this
    exact ⟨_, rfl⟩

/-- the errors of `rename_gate` on a well-formed circuit are exactly the two documented ones -/
theorem renameGate_error {c : Circuit} {old new : Label} (hw : WFS c) {e : String} (h : c.renameGate old new = .error e) :
    (old ∉ c.labels ∧ e = "CircuitGateIsAbsentError") ∨ (old ∈ c.labels ∧ new ∈ c.labels ∧ e = "CircuitGateAlreadyExistsError") := by
  by_cases hold : old ∈ c.labels
  · by_cases hnew : new ∈ c.labels
    · right
      refine ⟨hold, hnew, ?_⟩
      obtain ⟨g, hg, hgl⟩ : ∃ g ∈ c.gates, g.label = old := by simpa [Circuit.labels] using hold
      have hf : c.find? old = some g := hgl ▸ find_of_mem hw.nodup hg
      unfold renameGate at h
      simp only [hf, (hasGate_iff c new).mpr hnew, if_true] at h
      exact (Except.error.inj h).symm
    · obtain ⟨c', hc'⟩ := renameGate_total hw hold hnew
      rw [hc'] at h; cases h
  · left
    refine ⟨hold, ?_⟩
    unfold renameGate at h
    simp only [find_none hold] at h
    exact (Except.error.inj h).symm

end Cirbo
