import Cirbo.Proofs.GenWallaceOcc
import Cirbo.Proofs.GenKara
/-!
# The result width of `add_mul_wallace`: the final adder returns at least `n + m` bits
-/
namespace Cirbo
open GateType

variable {P Q : Label → Prop}

theorem filter_cases (p : Nat → Bool) (W : Nat) :
    (List.range W).filter p = [] ∨ ∃ f rest t, (List.range W).filter p = f :: rest ∧ (f :: rest).getLast? = some t := by
  cases h : (List.range W).filter p with
  | nil => exact Or.inl rfl
  | cons f rest =>
    right
    refine ⟨f, rest, (f :: rest).getLast (by simp), rfl, ?_⟩
    rw [List.getLast?_eq_getLast (by simp)]

/-- the length the final adder returns, from the used positions of the two rows -/
def finalLen (W : Nat) (pA pB : Nat → Bool) : Nat :=
  let ua := (List.range W).filter pA
  let ub := (List.range W).filter pB
  let lastA := ua.getLast?.getD 0
  let firstB := ub.headD W
  let lastB := ub.getLast?.getD 0
  let la := if ua.isEmpty then 0 else lastA + 1
  let lb := if ub.isEmpty then 0 else lastB + 1 - firstB
  if firstB ≥ la then firstB + lb else firstB + (max (la - firstB) lb + 1)

/-- if the top column of partial products is used in row 0 — or in row 1 while the rows overlap —
the final adder returns at least `W` bits -/
theorem finalLen_ge (W : Nat) (pA pB : Nat → Bool) (hW : 2 ≤ W)
    (h : pA (W - 2) = true ∨ (pB (W - 2) = true ∧ ∃ i, i < W ∧ pA i = true ∧ pB i = true)) :
    W ≤ finalLen W pA pB := by
  unfold finalLen
  simp only
  have hmemA : ∀ x, x ∈ (List.range W).filter pA ↔ x < W ∧ pA x = true := by intro x; simp [List.mem_filter]
  have hmemB : ∀ x, x ∈ (List.range W).filter pB ↔ x < W ∧ pB x = true := by intro x; simp [List.mem_filter]
  rcases filter_cases pA W with hA | ⟨fA, rA, tA, hA, hAt⟩
  · -- row 0 empty: then the top column is in row 1 and the rows overlap — impossible
    exfalso
    rcases h with h | ⟨_, i, hi, ha, _⟩
    · have := (hmemA (W - 2)).mpr ⟨by omega, h⟩; rw [hA] at this; cases this
    · have := (hmemA i).mpr ⟨hi, ha⟩; rw [hA] at this; cases this
  · obtain ⟨a1, a2, a3, a4, a5, a6, _, _⟩ := used_facts pA W hA hAt
    rw [hA, hAt]
    simp only [Option.getD_some, List.isEmpty_cons, Bool.false_eq_true, if_false]
    rcases filter_cases pB W with hB | ⟨fB, rB, tB, hB, hBt⟩
    · rw [hB]
      simp only [List.headD_nil, List.isEmpty_nil, if_true, List.getLast?_nil, Option.getD_none]
      split <;> omega
    · obtain ⟨b1, b2, b3, b4, b5, b6, _, _⟩ := used_facts pB W hB hBt
      rw [hB, hBt]
      simp only [List.headD_cons, Option.getD_some, List.isEmpty_cons, Bool.false_eq_true, if_false]
      rcases h with h | ⟨hbT, i, hi, hai, hbi⟩
      · -- tA ≥ W - 2
        have hT : W - 2 ≤ tA := by
          rcases Nat.lt_or_ge tA (W - 2) with hlt | hge
          · have := a6 (W - 2) hlt (by omega); rw [h] at this; cases this
          · exact hge
        split <;> omega
      · have hT : W - 2 ≤ tB := by
          rcases Nat.lt_or_ge tB (W - 2) with hlt | hge
          · have := b6 (W - 2) hlt (by omega); rw [hbT] at this; cases this
          · exact hge
        have h1 : fB ≤ i := by
          rcases Nat.lt_or_ge i fB with hlt | hge
          · have := b5 i hlt; rw [hbi] at this; cases this
          · exact hge
        have h2 : i ≤ tA := by
          rcases Nat.lt_or_ge tA i with hlt | hge
          · have := a6 i hlt hi; rw [hai] at this; cases this
          · exact hge
        split <;> omega

theorem rowBits_length (c : Mat) (k first last : Nat) (zero : Label) :
    (rowBits c k first last zero).length = last + 1 - first := by
  unfold rowBits; simp

/-- **`add_mul_wallace` returns `n + m` bits, `n + m − 1` when one operand has a single bit** -/
theorem semF_addMulWallace_length {v : Label → Bool} (hP : ∀ l, P l → l ≠ PH) {a b out : List Label} {be : Bool}
    (h : SemF P (addMulWallace a b be) v out) (ha : 1 ≤ a.length) (hb : 1 ≤ b.length) :
    out.length = if a.length = 1 ∨ b.length = 1 then a.length + b.length - 1 else a.length + b.length := by
  unfold addMulWallace at h
  simp only [semF_bind] at h
  obtain ⟨c, hc, hbody⟩ := h
  have hAl : (revIf a be).length = a.length := length_revIf' a be
  have hBl : (revIf b be).length = b.length := length_revIf' b be
  generalize revIf a be = A at hc hbody hAl
  generalize revIf b be = B at hc hbody hBl
  obtain ⟨cr, cq, _, cph⟩ := semF_ppMatrix (v := v) (Q := fun l => l ≠ PH) (W := A.length + B.length) (R := B.length)
    (fun l hl => hP l hl) (fun _ h => h) B 0 _ c hc (rect_replicate _ _) (qm_replicate _ _) (by omega) (fun _ => by omega)
    (fun col row _ _ => entry_replicate _ _ col row)
  simp only [Nat.zero_add] at cph
  have cph' : ∀ col row, entry c col row = PH ↔ ¬ (row < B.length ∧ row ≤ col ∧ col < row + A.length) := by
    intro col row
    rw [cph col row]
    simp [entry_replicate]
  by_cases hn1 : (A.length == 1) = true
  · simp only [hn1, if_true, semF_pure] at hbody
    subst hbody
    have hA1 : A.length = 1 := by simpa using hn1
    rw [length_revIf', List.length_map, List.length_range]
    have : a.length = 1 ∨ b.length = 1 := Or.inl (by omega)
    rw [if_pos this]; omega
  · have hn1' : (A.length == 1) = false := by simpa using hn1
    have hA2 : A.length ≠ 1 := by simpa using hn1'
    simp only [hn1', Bool.false_eq_true, if_false] at hbody
    by_cases hm1 : (B.length == 1) = true
    · simp only [hm1, if_true, semF_pure] at hbody
      subst hbody
      have hB1 : B.length = 1 := by simpa using hm1
      rw [length_revIf', List.length_map, List.length_range]
      have : a.length = 1 ∨ b.length = 1 := Or.inr (by omega)
      rw [if_pos this]; omega
    · have hm1' : (B.length == 1) = false := by simpa using hm1
      have hB2 : B.length ≠ 1 := by simpa using hm1'
      simp only [hm1', Bool.false_eq_true, if_false, semF_bind, semF_pure] at hbody
      obtain ⟨c', hrounds, zero, hzero, r, hr, rfl⟩ := hbody
      have hnone : ¬ (a.length = 1 ∨ b.length = 1) := by omega
      rw [if_neg hnone, length_revIf', List.length_take]
      have hW : 1 ≤ A.length + B.length := by omega
      obtain ⟨r2, q2, _, _⟩ := semF_wallaceRounds (Q := fun l => l ≠ PH) (fun l hl => hP l hl) (fun _ h => h) hW
        (B.length + 2) c c' B.length cr cq hrounds
      -- the top column of partial products
      have htop : ∃ row, row < B.length ∧ entry c (A.length + B.length - 2) row ≠ PH :=
        ⟨B.length - 1, by omega, fun hph => ((cph' _ _).mp hph) ⟨by omega, by omega, by omega⟩⟩
      obtain ⟨o1, o2⟩ := occ_wallaceRounds (Q := fun l => l ≠ PH) (fun l hl => hP l hl) (fun _ h => h) hW
        (B.length + 2) c c' B.length cr cq hrounds (A.length + B.length - 2) (by omega) htop
      -- the length of the final sum
      have hlen := sem_withShift_length (semF_sem hr)
      have hfin : r.length = finalLen (A.length + B.length) (fun i => entry c' i 0 != PH) (fun i => entry c' i 1 != PH) := by
        rw [hlen]
        unfold finalLen
        simp only [usedCols_eq, r2.w]
        have hla : (if ((List.range (A.length + B.length)).filter (fun i => entry c' i 0 != PH)).isEmpty = true then ([] : List Label)
            else rowBits c' 0 0 (((List.range (A.length + B.length)).filter (fun i => entry c' i 0 != PH)).getLast?.getD 0) zero).length =
            (if ((List.range (A.length + B.length)).filter (fun i => entry c' i 0 != PH)).isEmpty = true then 0
             else ((List.range (A.length + B.length)).filter (fun i => entry c' i 0 != PH)).getLast?.getD 0 + 1) := by
          split
          · rfl
          · rw [rowBits_length]; omega
        have hlb : (if ((List.range (A.length + B.length)).filter (fun i => entry c' i 1 != PH)).isEmpty = true then ([] : List Label)
            else rowBits c' 1 (((List.range (A.length + B.length)).filter (fun i => entry c' i 1 != PH)).headD (A.length + B.length))
              (((List.range (A.length + B.length)).filter (fun i => entry c' i 1 != PH)).getLast?.getD 0) zero).length =
            (if ((List.range (A.length + B.length)).filter (fun i => entry c' i 1 != PH)).isEmpty = true then 0
             else ((List.range (A.length + B.length)).filter (fun i => entry c' i 1 != PH)).getLast?.getD 0 + 1 -
               ((List.range (A.length + B.length)).filter (fun i => entry c' i 1 != PH)).headD (A.length + B.length)) := by
          split
          · rfl
          · rw [rowBits_length]
        rw [hla, hlb]
      have hge : A.length + B.length ≤ r.length := by
        rw [hfin]
        apply finalLen_ge _ _ _ (by omega)
        by_cases hR2 : B.length = 2
        · right
          have hcc := o1 hR2
          subst hcc
          refine ⟨?_, 1, by omega, ?_, ?_⟩
          · simp only [bne_iff_ne, ne_eq]
            exact fun hph => ((cph' _ _).mp hph) ⟨by omega, by omega, by omega⟩
          · simp only [bne_iff_ne, ne_eq]
            exact fun hph => ((cph' _ _).mp hph) ⟨by omega, by omega, by omega⟩
          · simp only [bne_iff_ne, ne_eq]
            exact fun hph => ((cph' _ _).mp hph) ⟨by omega, by omega, by omega⟩
        · left
          simp only [bne_iff_ne, ne_eq]
          exact o2 hR2
      omega

end Cirbo
