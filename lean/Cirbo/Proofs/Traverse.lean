import Cirbo.Model.Traverse
import Cirbo.Proofs.EvalLazy
/-!
# DFS/BFS traversal visits exactly the reachable gates, each once (C20) — partial correctness
-/
namespace Cirbo

inductive Reach (next : Label → List Label) (start : List Label) : Label → Prop
  | base {l} : l ∈ start → Reach next start l
  | step {u l} : Reach next start u → l ∈ next u → Reach next start l

def yields (log : List Ev) : List Label :=
  log.filterMap (fun e => match e with | .yield l => some l | _ => none)
def unvisiteds (log : List Ev) : List Label :=
  log.filterMap (fun e => match e with | .unvisited l => some l | _ => none)
def enters (log : List Ev) : List Label :=
  log.filterMap (fun e => match e with | .enter l => some l | _ => none)
def exits (log : List Ev) : List Label :=
  log.filterMap (fun e => match e with | .exit l => some l | _ => none)

theorem yields_append (a b : List Ev) : yields (a ++ b) = yields a ++ yields b := by
  simp [yields, List.filterMap_append]

theorem yields_discover (ch : List Label) (f : Label → TState) :
    yields (ch.map (fun x => Ev.discover x (f x))) = [] := by
  induction ch with
  | nil => rfl
  | cons x r ih => simpa [yields, List.filterMap_cons] using ih

theorem yields_step_evs (cur : Label) (ch : List Label) (f : Label → TState) :
    yields ([Ev.enter cur] ++ ch.map (fun x => Ev.discover x (f x)) ++ [Ev.yield cur]) = [cur] := by
  rw [yields_append, yields_append, yields_discover]; rfl

structure TInv (next : Label → List Label) (start : List Label) (s : TrSt) : Prop where
  reachSt : ∀ l, s.st l ≠ .unv → Reach next start l
  reachQ : ∀ l ∈ s.queue, Reach next start l
  closed : ∀ u, s.st u ≠ .unv → ∀ w ∈ next u, s.st w ≠ .unv ∨ w ∈ s.queue
  startOK : ∀ l ∈ start, s.st l ≠ .unv ∨ l ∈ s.queue
  yld : ∀ l, l ∈ yields s.log ↔ s.st l ≠ .unv
  yldND : (yields s.log).Nodup

def popQ (bfs : Bool) (q : List Label) : List Label := if bfs then q.tail else q.dropLast
def topQ (bfs : Bool) (q : List Label) : Option Label := if bfs then q.head? else q.getLast?

theorem topQ_mem {bfs : Bool} {q : List Label} {cur : Label} (h : topQ bfs q = some cur) : cur ∈ q := by
  unfold topQ at h
  cases bfs
  · simpa using List.mem_of_getLast? h
  · simp only [if_true] at h
    cases q with
    | nil => simp at h
    | cons a r => simp at h; subst h; simp

theorem popQ_subset {bfs : Bool} {q : List Label} {x : Label} (h : x ∈ popQ bfs q) : x ∈ q := by
  unfold popQ at h
  cases bfs
  · exact List.dropLast_subset _ (by simpa using h)
  · simp only [if_true] at h; exact List.mem_of_mem_tail h

theorem mem_popQ {bfs : Bool} {q : List Label} {cur w : Label} (h : topQ bfs q = some cur)
    (hw : w ∈ q) (hne : w ≠ cur) : w ∈ popQ bfs q := by
  unfold topQ at h; unfold popQ
  cases bfs
  · simp only [Bool.false_eq_true, if_false] at h ⊢
    exact mem_dropLast_of_ne_last hw h hne
  · simp only [if_true] at h ⊢
    cases q with
    | nil => simp at h
    | cons a r =>
      simp at h; subst h
      simp only [List.mem_cons] at hw
      rcases hw with hw | hw
      · exact absurd hw hne
      · simpa using hw

theorem trStep_inv {c : Circuit} {bfs ab : Bool} {next : Label → List Label} {start : List Label}
    {s s' : TrSt} (inv : TInv next start s) (hs : trStep c bfs ab next s = .next s') :
    TInv next start s' := by
  unfold trStep at hs
  have htop_eq : (if bfs then s.queue.head? else s.queue.getLast?) = topQ bfs s.queue := rfl
  rw [htop_eq] at hs
  cases htop : topQ bfs s.queue with
  | none => simp [htop] at hs
  | some cur =>
    have hcurq : cur ∈ s.queue := topQ_mem htop
    simp only [htop] at hs
    split at hs
    · cases hs
    · cases hst : s.st cur with
      | unv =>
        simp only [hst] at hs
        split at hs
        · cases hs
        · -- entering `cur`
          have hset : ∀ l, setSt s.st cur .ent l ≠ .unv ↔ (s.st l ≠ .unv ∨ l = cur) := by
            intro l; unfold setSt
            by_cases h : l = cur
            · subst h; simp
            · simp [h]
          have hpush : ∀ w ∈ next cur, setSt s.st cur .ent w ≠ .unv ∨
              w ∈ (next cur).filter (fun x => setSt s.st cur .ent x = .unv) := by
            intro w hw
            by_cases h : setSt s.st cur .ent w = .unv
            · right; simp [List.mem_filter, hw, h]
            · left; exact h
          have hreach_cur : Reach next start cur := inv.reachQ cur hcurq
          cases bfs
          · -- DFS
            simp only [Bool.false_eq_true, if_false, StepRes.next.injEq] at hs
            subst hs
            refine ⟨?_, ?_, ?_, ?_, ?_, ?_⟩
            · intro l hl
              rcases (hset l).mp hl with h | h
              · exact inv.reachSt l h
              · exact h ▸ hreach_cur
            · intro l hl
              simp only [List.mem_append, List.mem_filter] at hl
              rcases hl with hl | hl
              · exact inv.reachQ l hl
              · exact .step hreach_cur hl.1
            · intro u hu w hw
              rcases (hset u).mp hu with h | h
              · rcases inv.closed u h w hw with h' | h'
                · left; exact (hset w).mpr (Or.inl h')
                · right; simp [h']
              · subst h
                rcases hpush w hw with h' | h'
                · left; exact h'
                · right; simp only [List.mem_append]; exact Or.inr h'
            · intro l hl
              rcases inv.startOK l hl with h' | h'
              · left; exact (hset l).mpr (Or.inl h')
              · right; simp [h']
            · intro l
              show l ∈ yields (s.log ++ _) ↔ _
              rw [yields_append, yields_step_evs, hset, List.mem_append, inv.yld]; simp
            · show (yields (s.log ++ _)).Nodup
              rw [yields_append, yields_step_evs, List.nodup_append]
              refine ⟨inv.yldND, by simp, ?_⟩
              intro a ha b hb hab
              simp at hb; subst hb; subst hab
              exact ((inv.yld a).mp ha) hst
          · -- BFS
            simp only [if_true, StepRes.next.injEq] at hs
            subst hs
            have hset2 : ∀ l, setSt (setSt s.st cur .ent) cur .vis l ≠ .unv ↔ (s.st l ≠ .unv ∨ l = cur) := by
              intro l; unfold setSt
              by_cases h : l = cur
              · subst h; simp
              · simp [h]
            have hq : ∃ rest, s.queue = cur :: rest := by
              unfold topQ at htop
              simp only [if_true] at htop
              cases hqq : s.queue with
              | nil => simp [hqq] at htop
              | cons a r => simp [hqq] at htop; subst htop; exact ⟨r, rfl⟩
            obtain ⟨rest, hrest⟩ := hq
            have htail : ∀ pushed : List Label, (s.queue ++ pushed).tail = rest ++ pushed := by
              intro pushed; rw [hrest]; rfl
            have hmemq : ∀ w pushed, w ∈ s.queue → w = cur ∨ w ∈ (s.queue ++ pushed).tail := by
              intro w pushed hw
              rw [htail, hrest] at *
              simp only [List.mem_cons] at hw
              rcases hw with hw | hw
              · exact Or.inl hw
              · right; simp [hw]
            refine ⟨?_, ?_, ?_, ?_, ?_, ?_⟩
            · intro l hl
              rcases (hset2 l).mp hl with h | h
              · exact inv.reachSt l h
              · exact h ▸ hreach_cur
            · intro l hl
              rw [htail] at hl
              simp only [List.mem_append, List.mem_filter] at hl
              rcases hl with hl | hl
              · exact inv.reachQ l (by rw [hrest]; simp [hl])
              · exact .step hreach_cur hl.1
            · intro u hu w hw
              have key : ∀ w, (s.st w ≠ .unv ∨ w ∈ s.queue) →
                  setSt (setSt s.st cur .ent) cur .vis w ≠ .unv ∨
                  w ∈ (s.queue ++ (next cur).filter (fun x => setSt s.st cur .ent x = .unv)).tail := by
                intro w h
                rcases h with h | h
                · left; exact (hset2 w).mpr (Or.inl h)
                · rcases hmemq w _ h with h' | h'
                  · left; exact (hset2 w).mpr (Or.inr h')
                  · right; exact h'
              rcases (hset2 u).mp hu with h | h
              · exact key w (inv.closed u h w hw)
              · subst h
                rcases hpush w hw with h' | h'
                · left
                  rcases (hset w).mp h' with h'' | h''
                  · exact (hset2 w).mpr (Or.inl h'')
                  · exact (hset2 w).mpr (Or.inr h'')
                · right; rw [htail]; simp only [List.mem_append]; exact Or.inr h'
            · intro l hl
              rcases inv.startOK l hl with h' | h'
              · left; exact (hset2 l).mpr (Or.inl h')
              · rcases hmemq l _ h' with h'' | h''
                · left; exact (hset2 l).mpr (Or.inr h'')
                · right; exact h''
            · intro l
              show l ∈ yields (s.log ++ _) ↔ _
              rw [yields_append, yields_step_evs, hset2, List.mem_append, inv.yld]; simp
            · show (yields (s.log ++ _)).Nodup
              rw [yields_append, yields_step_evs, List.nodup_append]
              refine ⟨inv.yldND, by simp, ?_⟩
              intro a ha b hb hab
              simp at hb; subst hb; subst hab
              exact ((inv.yld a).mp ha) hst
      | ent =>
        simp only [hst, StepRes.next.injEq] at hs
        subst hs
        have hset : ∀ l, setSt s.st cur .vis l ≠ .unv ↔ s.st l ≠ .unv := by
          intro l; unfold setSt
          by_cases h : l = cur
          · subst h; simp [hst]
          · simp [h]
        have hpop : ∀ w, (s.st w ≠ .unv ∨ w ∈ s.queue) →
            setSt s.st cur .vis w ≠ .unv ∨ w ∈ popQ bfs s.queue := by
          intro w h
          rcases h with h | h
          · left; exact (hset w).mpr h
          · by_cases hwc : w = cur
            · left; subst hwc; exact (hset w).mpr (by simp [hst])
            · right; exact mem_popQ htop h hwc
        refine ⟨?_, ?_, ?_, ?_, ?_, ?_⟩
        · intro l hl; exact inv.reachSt l ((hset l).mp hl)
        · intro l hl; exact inv.reachQ l (popQ_subset hl)
        · intro u hu w hw; exact hpop w (inv.closed u ((hset u).mp hu) w hw)
        · intro l hl; exact hpop l (inv.startOK l hl)
        · intro l
          show l ∈ yields (s.log ++ [Ev.exit cur]) ↔ _
          rw [yields_append, hset, ← inv.yld]; simp [yields]
        · show (yields (s.log ++ [Ev.exit cur])).Nodup
          rw [yields_append]; simpa [yields] using inv.yldND
      | vis =>
        simp only [hst, StepRes.next.injEq] at hs
        subst hs
        have hpop : ∀ w, (s.st w ≠ .unv ∨ w ∈ s.queue) → s.st w ≠ .unv ∨ w ∈ popQ bfs s.queue := by
          intro w h
          rcases h with h | h
          · left; exact h
          · by_cases hwc : w = cur
            · left; subst hwc; simp [hst]
            · right; exact mem_popQ htop h hwc
        exact ⟨inv.reachSt, fun l hl => inv.reachQ l (popQ_subset hl),
          fun u hu w hw => hpop w (inv.closed u hu w hw), fun l hl => hpop l (inv.startOK l hl),
          inv.yld, inv.yldND⟩

theorem trLoop_inv {c : Circuit} {bfs ab : Bool} {next : Label → List Label} {start : List Label} :
    ∀ fuel (s s' : TrSt), TInv next start s → trLoop c bfs ab next fuel s = .ok s' →
      TInv next start s' ∧ s'.queue = []
  | 0, s, s', _, h => by simp [trLoop] at h
  | fuel+1, s, s', inv, h => by
    unfold trLoop at h
    cases hs : trStep c bfs ab next s with
    | finished =>
      simp only [hs, Except.ok.injEq] at h
      subst h
      refine ⟨inv, ?_⟩
      unfold trStep at hs
      cases hq : (if bfs then s.queue.head? else s.queue.getLast?) with
      | none =>
        cases bfs
        · simpa using hq
        · simp only [if_true] at hq
          cases hqq : s.queue with
          | nil => rfl
          | cons a r => simp [hqq] at hq
      | some cur =>
        simp only [hq] at hs
        split at hs
        · cases hs
        · split at hs
          · split at hs
            · cases hs
            · split at hs <;> cases hs
          · cases hs
          · cases hs
    | error e => simp [hs] at h
    | next s1 =>
      simp only [hs] at h
      exact trLoop_inv fuel s1 s' (trStep_inv inv hs) h

/-- at the end of the loop the non-UNVISITED gates are exactly the reachable ones -/
theorem reach_iff_of_done {next : Label → List Label} {start : List Label} {s : TrSt}
    (inv : TInv next start s) (hq : s.queue = []) (l : Label) :
    Reach next start l ↔ s.st l ≠ .unv := by
  constructor
  · intro hr
    induction hr with
    | base hl =>
      rcases inv.startOK _ hl with h | h
      · exact h
      · rw [hq] at h; cases h
    | step _ hw ih =>
      rcases inv.closed _ ih _ hw with h | h
      · exact h
      · rw [hq] at h; cases h
  · exact inv.reachSt l

theorem yields_tail (log : List Ev) (M : List Label) :
    yields (log ++ M.map Ev.unvisited ++ [Ev.done]) = yields log := by
  rw [yields_append, yields_append]
  have : yields (M.map Ev.unvisited) = [] := by
    induction M with
    | nil => rfl
    | cons x r ih => simpa [yields, List.filterMap_cons] using ih
  rw [this]; simp [yields]

theorem unvisiteds_map (M : List Label) : unvisiteds (M.map Ev.unvisited) = M := by
  induction M with
  | nil => rfl
  | cons x r ih => simp only [List.map_cons, unvisiteds, List.filterMap_cons] at ih ⊢; rw [ih]

theorem unvisiteds_append (a b : List Ev) : unvisiteds (a ++ b) = unvisiteds a ++ unvisiteds b := by
  simp [unvisiteds, List.filterMap_append]

/-- the loop itself never logs an `unvisited` event -/
theorem trStep_unvisiteds {c : Circuit} {bfs ab : Bool} {next : Label → List Label} {s s' : TrSt}
    (hs : trStep c bfs ab next s = .next s') (h0 : unvisiteds s.log = []) : unvisiteds s'.log = [] := by
  have hd : ∀ (ch : List Label) (f : Label → TState),
      unvisiteds (ch.map (fun x => Ev.discover x (f x))) = [] := by
    intro ch f
    induction ch with
    | nil => rfl
    | cons x r ih => simpa [unvisiteds, List.filterMap_cons] using ih
  unfold trStep at hs
  cases htop : (if bfs then s.queue.head? else s.queue.getLast?) with
  | none => simp [htop] at hs
  | some cur =>
    simp only [htop] at hs
    by_cases hg : (!c.hasGate cur) = true
    · simp [hg] at hs
    · simp only [hg, Bool.false_eq_true, if_false] at hs
      cases hst : s.st cur with
      | unv =>
        simp only [hst] at hs
        cases hcp : childProblem c ab (setSt s.st cur .ent) (next cur) with
        | some e => simp [hcp] at hs
        | none =>
          simp only [hcp] at hs
          cases bfs
          · simp only [Bool.false_eq_true, if_false, StepRes.next.injEq] at hs
            subst hs; simp only [unvisiteds_append, h0, hd]; rfl
          · simp only [if_true, StepRes.next.injEq] at hs
            subst hs; simp only [unvisiteds_append, h0, hd]; rfl
      | ent =>
        simp only [hst, StepRes.next.injEq] at hs
        subst hs; simp only [unvisiteds_append, h0]; rfl
      | vis =>
        simp only [hst, StepRes.next.injEq] at hs
        subst hs; exact h0

theorem trLoop_unvisiteds {c : Circuit} {bfs ab : Bool} {next : Label → List Label} :
    ∀ fuel (s s' : TrSt), unvisiteds s.log = [] → trLoop c bfs ab next fuel s = .ok s' →
      unvisiteds s'.log = []
  | 0, s, s', _, h => by simp [trLoop] at h
  | fuel+1, s, s', h0, h => by
    unfold trLoop at h
    cases hs : trStep c bfs ab next s with
    | finished => simp only [hs, Except.ok.injEq] at h; subst h; exact h0
    | error e => simp [hs] at h
    | next s1 => simp only [hs] at h; exact trLoop_unvisiteds fuel s1 s' (trStep_unvisiteds hs h0) h

/-- **DFS and BFS, either direction, any start list** (whenever the call returns): the gates
yielded are exactly those reachable from the start list, each exactly once; the `unvisited` hook
receives the unreached gates: `order.filter unreached` where `order` is the storage order, or the
topological order when that was requested. -/
theorem traverse_reach_exact {c : Circuit} (bfs inverse : Bool) (start : Option (List Label))
    (tsu ab : Bool) {log : List Ev} (hne : c.gates ≠ [])
    (h : traverse c bfs inverse start tsu ab = .ok log) :
    let next := if inverse then c.usersOf else c.opsOf
    let q0 := start.getD (if inverse then c.inputs else c.outputs)
    (yields log).Nodup ∧ (∀ l, l ∈ yields log ↔ Reach next q0 l) ∧
    ∃ order, (if tsu then c.topSort true = .ok order else order = c.labels) ∧
      ∃ (unreached : Label → Bool), (∀ l, unreached l = true ↔ ¬ Reach next q0 l) ∧
        unvisiteds log = order.filter unreached := by
  intro next q0
  unfold traverse at h
  have he : c.gates.isEmpty = false := by cases hg : c.gates with
    | nil => exact absurd hg hne
    | cons a r => rfl
  simp only [he, Bool.false_eq_true, if_false] at h
  have inv0 : TInv next q0 ⟨q0, fun _ => .unv, []⟩ :=
    ⟨by intro l hl; exact absurd rfl hl, fun l hl => .base hl, by intro u hu; exact absurd rfl hu,
      fun l hl => Or.inr hl, by intro l; simp [yields], by simp [yields]⟩
  cases hl : trLoop c bfs ab next
      (2 * (q0.length + c.gates.length + totalDeg c next) + 2) ⟨q0, fun _ => .unv, []⟩ with
  | error e => simp only [next, q0] at hl; simp [hl] at h
  | ok s =>
    have hu0 := trLoop_unvisiteds _ _ _ (by rfl) hl
    obtain ⟨inv, hq⟩ := trLoop_inv _ _ _ inv0 hl
    simp only [next, q0] at hl
    simp only [hl] at h
    have hr := reach_iff_of_done inv hq
    have hunr : ∀ l, (decide (s.st l = .unv)) = true ↔ ¬ Reach next q0 l := by
      intro l; rw [hr]; simp
    have hfin : ∀ (L : List Label) (lg : List Ev),
        lg = s.log ++ (L.filter (fun l => s.st l = .unv)).map Ev.unvisited ++ [Ev.done] →
        (yields lg).Nodup ∧ (∀ l, l ∈ yields lg ↔ Reach next q0 l) ∧
        unvisiteds lg = L.filter (fun l => decide (s.st l = .unv)) := by
      intro L lg hlg
      subst hlg
      refine ⟨by rw [yields_tail]; exact inv.yldND, ?_, ?_⟩
      · intro l; rw [yields_tail, inv.yld, hr]
      · rw [unvisiteds_append, unvisiteds_append, hu0, unvisiteds_map]; simp [unvisiteds]
    cases tsu
    · simp only [Bool.false_eq_true, if_false, Except.ok.injEq] at h
      obtain ⟨a, b, d⟩ := hfin c.labels log h.symm
      exact ⟨a, b, c.labels, by simp, _, hunr, d⟩
    · simp only [if_true] at h
      cases hts : c.topSort true with
      | cyclic => simp [hts] at h
      | ok order =>
        simp only [hts, Except.ok.injEq] at h
        obtain ⟨a, b, d⟩ := hfin order log h.symm
        exact ⟨a, b, order, by simp, _, hunr, d⟩

end Cirbo
