import Cirbo.Spec.Bool
import Cirbo.Model.Ops
/-!
# Operator-level lemmas (C01, C15)

Finite facts about the *generated* tables are closed by exhaustive case analysis; the
unbounded-arity statements are inductions over the operand list.
-/
namespace Cirbo
open GateType V3

/-! ## the generated tables restricted to Booleans are the spec -/

theorem lk2_and_bool (a b : Bool) : lk2 .AND (ofBool a) (ofBool b) = some (ofBool (a && b)) := by
  cases a <;> cases b <;> decide
theorem lk2_or_bool (a b : Bool) : lk2 .OR (ofBool a) (ofBool b) = some (ofBool (a || b)) := by
  cases a <;> cases b <;> decide
theorem lk2_xor_bool (a b : Bool) : lk2 .XOR (ofBool a) (ofBool b) = some (ofBool (xor a b)) := by
  cases a <;> cases b <;> decide
theorem lk1_not_bool (a : Bool) : lk1 .NOT (ofBool a) = some (ofBool (!a)) := by
  cases a <;> decide
theorem lk1_iff_bool (a : Bool) : lk1 .IFF (ofBool a) = some (ofBool a) := by
  cases a <;> decide

theorem foldOp_and_bool (a : Bool) (bs : List Bool) :
    foldOp .AND (ofBool a) (bs.map ofBool) = some (ofBool (a && bs.all id)) := by
  induction bs generalizing a with
  | nil => simp [foldOp]
  | cons b bs ih => simp [foldOp, lk2_and_bool, ih, Bool.and_assoc]

theorem foldOp_or_bool (a : Bool) (bs : List Bool) :
    foldOp .OR (ofBool a) (bs.map ofBool) = some (ofBool (a || bs.any id)) := by
  induction bs generalizing a with
  | nil => simp [foldOp]
  | cons b bs ih => simp [foldOp, lk2_or_bool, ih, Bool.or_assoc]

theorem foldOp_xor_bool (a : Bool) (bs : List Bool) :
    foldOp .XOR (ofBool a) (bs.map ofBool) = some (ofBool (xor a (xorAll bs))) := by
  induction bs generalizing a with
  | nil => simp [foldOp, xorAll]
  | cons b bs ih => simp [foldOp, lk2_xor_bool, ih, xorAll]

theorem and_case (a b : Bool) (r : List Bool) :
    foldOp .AND (ofBool a) ((b :: r).map ofBool) = some (ofBool ((a :: b :: r).all id)) := by
  rw [foldOp_and_bool]; simp
theorem or_case (a b : Bool) (r : List Bool) :
    foldOp .OR (ofBool a) ((b :: r).map ofBool) = some (ofBool ((a :: b :: r).any id)) := by
  rw [foldOp_or_bool]; simp
theorem xor_case (a b : Bool) (r : List Bool) :
    foldOp .XOR (ofBool a) ((b :: r).map ofBool) = some (ofBool (xorAll (a :: b :: r))) := by
  rw [foldOp_xor_bool]; simp [xorAll]
theorem nand_case (a b : Bool) (r : List Bool) :
    (foldOp .AND (ofBool a) ((b :: r).map ofBool)).bind (lk1 .NOT)
      = some (ofBool (!(a :: b :: r).all id)) := by
  rw [and_case, Option.bind_some, lk1_not_bool]
theorem nor_case (a b : Bool) (r : List Bool) :
    (foldOp .OR (ofBool a) ((b :: r).map ofBool)).bind (lk1 .NOT)
      = some (ofBool (!(a :: b :: r).any id)) := by
  rw [or_case, Option.bind_some, lk1_not_bool]
theorem nxor_case (a b : Bool) (r : List Bool) :
    (foldOp .XOR (ofBool a) ((b :: r).map ofBool)).bind (lk1 .NOT)
      = some (ofBool (!xorAll (a :: b :: r))) := by
  rw [xor_case, Option.bind_some, lk1_not_bool]

/-- **Every gate type, every arity**: on Boolean arguments the code's operator (model shape over
the generated tables) is the one fixed Boolean function of the spec, and it rejects exactly the
arities the spec rejects. -/
theorem applyOp_ofBool (ty : GateType) (bs : List Bool) :
    applyOp ty (bs.map ofBool) = (bfun ty bs).map ofBool := by
  cases ty
  case INPUT => rfl
  case ALWAYS_TRUE => simp [applyOp, bfun]; decide
  case ALWAYS_FALSE => simp [applyOp, bfun]; decide
  case NOT => rcases bs with _ | ⟨a, _ | ⟨b, r⟩⟩ <;> first | rfl | exact lk1_not_bool a
  case IFF => rcases bs with _ | ⟨a, _ | ⟨b, r⟩⟩ <;> first | rfl | exact lk1_iff_bool a
  case AND => rcases bs with _ | ⟨a, _ | ⟨b, r⟩⟩ <;> first | rfl | exact and_case a b r
  case OR => rcases bs with _ | ⟨a, _ | ⟨b, r⟩⟩ <;> first | rfl | exact or_case a b r
  case XOR => rcases bs with _ | ⟨a, _ | ⟨b, r⟩⟩ <;> first | rfl | exact xor_case a b r
  case NAND => rcases bs with _ | ⟨a, _ | ⟨b, r⟩⟩ <;> first | rfl | exact nand_case a b r
  case NOR => rcases bs with _ | ⟨a, _ | ⟨b, r⟩⟩ <;> first | rfl | exact nor_case a b r
  case NXOR => rcases bs with _ | ⟨a, _ | ⟨b, r⟩⟩ <;> first | rfl | exact nxor_case a b r
  all_goals
    rcases bs with _ | ⟨a, _ | ⟨b, _ | ⟨c, r⟩⟩⟩ <;> first | rfl | (cases a <;> cases b <;> decide)

/-! ## three-valued soundness / monotonicity of the generated tables (C15) -/

/-- results compared in the information order; a raising call constrains nothing on its own
side but a defined result may not turn into a raise -/
def OLe : Option V3 → Option V3 → Prop
  | some r, some r' => r ≤ r'
  | none, none => True
  | _, _ => False

instance : (a b : Option V3) → Decidable (OLe a b)
  | some r, some r' => inferInstanceAs (Decidable (r ≤ r'))
  | none, none => isTrue trivial
  | some _, none => isFalse id
  | none, some _ => isFalse id

theorem V3.le_refl (a : V3) : a ≤ a := Or.inr rfl
theorem OLe.refl (a : Option V3) : OLe a a := by
  cases a with
  | none => trivial
  | some r => exact V3.le_refl r

theorem lk1_mono (ty : GateType) (a a' : V3) (h : a ≤ a') : OLe (lk1 ty a) (lk1 ty a') := by
  revert h; cases ty <;> cases a <;> cases a' <;> decide

theorem lk2_mono (ty : GateType) (a a' b b' : V3) (ha : a ≤ a') (hb : b ≤ b') :
    OLe (lk2 ty a b) (lk2 ty a' b') := by
  revert ha hb; cases ty <;> cases a <;> cases a' <;> cases b <;> cases b' <;> decide

theorem OLe.bind {x x' : Option V3} {f f' : V3 → Option V3} (hx : OLe x x')
    (hf : ∀ r r', r ≤ r' → OLe (f r) (f' r')) : OLe (x.bind f) (x'.bind f') := by
  cases x <;> cases x'
  · trivial
  · exact hx.elim
  · exact hx.elim
  · exact hf _ _ hx

/-- pointwise relation on lists (core Lean has no `Forall₂`) -/
inductive All2 {α β} (R : α → β → Prop) : List α → List β → Prop
  | nil : All2 R [] []
  | cons {a b as bs} : R a b → All2 R as bs → All2 R (a :: as) (b :: bs)

theorem foldOp_mono (ty : GateType) (a a' : V3) (xs xs' : List V3) (ha : a ≤ a')
    (hx : All2 (· ≤ ·) xs xs') : OLe (foldOp ty a xs) (foldOp ty a' xs') := by
  induction hx generalizing a a' with
  | nil => exact ha
  | cons hb _ ih =>
    simp only [foldOp]
    exact OLe.bind (lk2_mono ty _ _ _ _ ha hb) (fun r r' h => ih r r' h)

/-- **Monotonicity of every operator at every arity** in the information order. -/
theorem applyOp_mono (ty : GateType) (xs xs' : List V3) (hx : All2 (· ≤ ·) xs xs') :
    OLe (applyOp ty xs) (applyOp ty xs') := by
  cases ty
  case INPUT => trivial
  case ALWAYS_TRUE => exact OLe.refl _
  case ALWAYS_FALSE => exact OLe.refl _
  case NOT =>
    rcases hx with _ | ⟨h1, _ | ⟨h2, hr⟩⟩ <;> first | trivial | exact lk1_mono _ _ _ h1
  case IFF =>
    rcases hx with _ | ⟨h1, _ | ⟨h2, hr⟩⟩ <;> first | trivial | exact lk1_mono _ _ _ h1
  case AND =>
    rcases hx with _ | ⟨h1, _ | ⟨h2, hr⟩⟩ <;> first | trivial | exact foldOp_mono _ _ _ _ _ h1 (.cons h2 hr)
  case OR =>
    rcases hx with _ | ⟨h1, _ | ⟨h2, hr⟩⟩ <;> first | trivial | exact foldOp_mono _ _ _ _ _ h1 (.cons h2 hr)
  case XOR =>
    rcases hx with _ | ⟨h1, _ | ⟨h2, hr⟩⟩ <;> first | trivial | exact foldOp_mono _ _ _ _ _ h1 (.cons h2 hr)
  case NAND =>
    rcases hx with _ | ⟨h1, _ | ⟨h2, hr⟩⟩ <;>
      first | trivial | exact OLe.bind (foldOp_mono _ _ _ _ _ h1 (.cons h2 hr)) (fun r r' h => lk1_mono _ _ _ h)
  case NOR =>
    rcases hx with _ | ⟨h1, _ | ⟨h2, hr⟩⟩ <;>
      first | trivial | exact OLe.bind (foldOp_mono _ _ _ _ _ h1 (.cons h2 hr)) (fun r r' h => lk1_mono _ _ _ h)
  case NXOR =>
    rcases hx with _ | ⟨h1, _ | ⟨h2, hr⟩⟩ <;>
      first | trivial | exact OLe.bind (foldOp_mono _ _ _ _ _ h1 (.cons h2 hr)) (fun r r' h => lk1_mono _ _ _ h)
  all_goals
    rcases hx with _ | ⟨h1, _ | ⟨h2, _ | ⟨h3, hr⟩⟩⟩ <;> first | trivial | exact lk2_mono _ _ _ _ _ h1 h2

theorem forall₂_map_le {α} (ops : List α) (v v' : α → V3) (h : ∀ o ∈ ops, v o ≤ v' o) :
    All2 (· ≤ ·) (ops.map v) (ops.map v') := by
  induction ops with
  | nil => exact .nil
  | cons o r ih =>
    exact .cons (h o (by simp)) (ih (fun x hx => h x (by simp [hx])))

/-- a defined three-valued result is the Boolean result under every refinement of the
arguments (operator-level soundness) -/
theorem applyOp_sound (ty : GateType) (xs : List V3) (bs : List Bool)
    (hx : All2 (· ≤ ·) xs (bs.map ofBool)) :
    OLe (applyOp ty xs) ((bfun ty bs).map ofBool) := by
  rw [← applyOp_ofBool]; exact applyOp_mono ty _ _ hx

theorem foldOp_isSome (ty : GateType) (h : ∀ a b, (lk2 ty a b).isSome = true) (a : V3)
    (xs : List V3) : (foldOp ty a xs).isSome = true := by
  induction xs generalizing a with
  | nil => rfl
  | cons x xs ih =>
    obtain ⟨r, hr⟩ := Option.isSome_iff_exists.mp (h a x)
    simp only [foldOp, hr, Option.bind_some]; exact ih r

theorem lk1_not_isSome (a : V3) : (lk1 .NOT a).isSome = true := by cases a <;> decide
theorem lk2_and_isSome (a b : V3) : (lk2 .AND a b).isSome = true := by cases a <;> cases b <;> decide
theorem lk2_or_isSome (a b : V3) : (lk2 .OR a b).isSome = true := by cases a <;> cases b <;> decide
theorem lk2_xor_isSome (a b : V3) : (lk2 .XOR a b).isSome = true := by cases a <;> cases b <;> decide

theorem bind_not_isSome (x : Option V3) (h : x.isSome = true) : (x.bind (lk1 .NOT)).isSome = true := by
  obtain ⟨r, hr⟩ := Option.isSome_iff_exists.mp h
  simp only [hr, Option.bind_some]; exact lk1_not_isSome r

/-- arity acceptance of the model = arity acceptance of the spec (whatever the values):
the operator raises exactly on the arities the spec rejects. -/
theorem applyOp_isSome_iff (ty : GateType) (xs : List V3) :
    (applyOp ty xs).isSome = arityOk ty xs.length := by
  cases ty
  case INPUT => rfl
  case ALWAYS_TRUE => simp [applyOp, arityOk]; decide
  case ALWAYS_FALSE => simp [applyOp, arityOk]; decide
  case NOT => rcases xs with _ | ⟨a, _ | ⟨b, r⟩⟩ <;> first | rfl | (cases a <;> decide) | simp [applyOp, arityOk]
  case IFF => rcases xs with _ | ⟨a, _ | ⟨b, r⟩⟩ <;> first | rfl | (cases a <;> decide) | simp [applyOp, arityOk]
  case AND =>
    rcases xs with _ | ⟨a, _ | ⟨b, r⟩⟩ <;> first | rfl | skip
    simp [applyOp, arityOk, foldOp_isSome _ lk2_and_isSome]
  case OR =>
    rcases xs with _ | ⟨a, _ | ⟨b, r⟩⟩ <;> first | rfl | skip
    simp [applyOp, arityOk, foldOp_isSome _ lk2_or_isSome]
  case XOR =>
    rcases xs with _ | ⟨a, _ | ⟨b, r⟩⟩ <;> first | rfl | skip
    simp [applyOp, arityOk, foldOp_isSome _ lk2_xor_isSome]
  case NAND =>
    rcases xs with _ | ⟨a, _ | ⟨b, r⟩⟩ <;> first | rfl | skip
    simp only [applyOp, arityOk, List.length_cons]
    rw [bind_not_isSome _ (foldOp_isSome _ lk2_and_isSome _ _)]; simp
  case NOR =>
    rcases xs with _ | ⟨a, _ | ⟨b, r⟩⟩ <;> first | rfl | skip
    simp only [applyOp, arityOk, List.length_cons]
    rw [bind_not_isSome _ (foldOp_isSome _ lk2_or_isSome _ _)]; simp
  case NXOR =>
    rcases xs with _ | ⟨a, _ | ⟨b, r⟩⟩ <;> first | rfl | skip
    simp only [applyOp, arityOk, List.length_cons]
    rw [bind_not_isSome _ (foldOp_isSome _ lk2_xor_isSome _ _)]; simp
  all_goals
    rcases xs with _ | ⟨a, _ | ⟨b, _ | ⟨c, r⟩⟩⟩ <;>
      first | rfl | (cases a <;> cases b <;> decide) | simp [applyOp, arityOk]

end Cirbo
