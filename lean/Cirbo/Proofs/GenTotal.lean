import Cirbo.Model.Gen
import Cirbo.Proofs.BenchDoc
/-!
# Totality of the generators: the only way a generator fails on valid arguments is label-space exhaustion

`Ok p st Q`: running `p` from `st` returns a result that satisfies `Q`, or stops because the 128-bit label
space is exhausted.  Rules for the five constructors of `Prog`, for `bind`, and the invariant `Inv st P` about
labels that were drawn but not yet added (`P`): they are not labels of the circuit, pairwise different, and
were drawn from counters below the current one — so that the next label drawn differs from all of them
(32 hex digits are injective below 16^32).
-/
namespace Cirbo
open GateType Circuit

/-! ## 32 hex digits are injective below 16^32 -/

def hexDigits (k n : Nat) : List Char := (List.range k).reverse.map (fun i => hexDigit ((n / 16 ^ i) % 16))

def hexVal (c : Char) : Nat := ("0123456789abcdef".toList.idxOf c)

theorem hexVal_hexDigit (d : Nat) (h : d < 16) : hexVal (hexDigit d) = d := by
  have : ∀ d, d < 16 → hexVal (hexDigit d) = d := by decide
  exact this d h

def digitsVal : List Char → Nat := fun l => l.foldl (fun acc c => acc * 16 + hexVal c) 0

theorem foldl_digits (l : List Char) (a : Nat) :
    l.foldl (fun acc c => acc * 16 + hexVal c) a = a * 16 ^ l.length + l.foldl (fun acc c => acc * 16 + hexVal c) 0 := by
  induction l generalizing a with
  | nil => simp
  | cons x r ih =>
    simp only [List.foldl_cons, List.length_cons]
    rw [ih (a * 16 + hexVal x), ih (0 * 16 + hexVal x)]
    simp only [Nat.zero_mul, Nat.zero_add, Nat.pow_succ]
    rw [Nat.add_mul]
    have : a * 16 * 16 ^ r.length = a * (16 ^ r.length * 16) := by
      rw [Nat.mul_assoc, Nat.mul_comm 16]
    omega

theorem hexDigits_succ (k n : Nat) : hexDigits (k + 1) n = hexDigit ((n / 16 ^ k) % 16) :: hexDigits k n := by
  unfold hexDigits
  rw [List.range_succ]
  simp

theorem hexDigits_length (k n : Nat) : (hexDigits k n).length = k := by simp [hexDigits]

theorem digitsVal_hexDigits (k n : Nat) : digitsVal (hexDigits k n) = n % 16 ^ k := by
  induction k with
  | zero => simp [hexDigits, digitsVal, Nat.mod_one]
  | succ k ih =>
    rw [hexDigits_succ]
    unfold digitsVal at ih ⊢
    simp only [List.foldl_cons, Nat.zero_mul, Nat.zero_add]
    rw [foldl_digits, ih, hexDigits_length, hexVal_hexDigit _ (Nat.mod_lt _ (by omega))]
    rw [Nat.pow_succ, Nat.mod_mul, Nat.mul_comm]
    omega

theorem hex32_inj {a b : Nat} (ha : a < 16 ^ 32) (hb : b < 16 ^ 32) (h : hex32 a = hex32 b) : a = b := by
  have h1 : hexDigits 32 a = hexDigits 32 b := by
    have := congrArg String.toList h
    simpa [hex32, hexDigits] using this
  have h2 := congrArg digitsVal h1
  rw [digitsVal_hexDigits, digitsVal_hexDigits, Nat.mod_eq_of_lt ha, Nat.mod_eq_of_lt hb] at h2
  exact h2

theorem newLabel_inj {a b : Nat} (ha : a < 16 ^ 32) (hb : b < 16 ^ 32) (h : newLabel a = newLabel b) : a = b := by
  unfold newLabel at h
  exact hex32_inj ha hb ((String.append_right_inj _).mp h)

/-! ## the redraw loop finds a label (pigeonhole) or exhausts the label space -/

theorem nodup_subset_length {α} [DecidableEq α] : ∀ (l T : List α), l.Nodup → (∀ x ∈ l, x ∈ T) → l.length ≤ T.length := by
  intro l
  induction l with
  | nil => intro T _ _; simp
  | cons x r ih =>
    intro T hnd hsub
    have hx : x ∈ T := hsub x (by simp)
    have hnd' := List.nodup_cons.mp hnd
    have := ih (T.erase x) hnd'.2 (fun y hy => by
      have hyT := hsub y (by simp [hy])
      have hne : y ≠ x := fun e => hnd'.1 (e ▸ hy)
      exact (List.mem_erase_of_ne hne).mpr hyT)
    rw [List.length_erase_of_mem hx] at this
    have hpos : 0 < T.length := List.length_pos_of_mem hx
    simp only [List.length_cons]
    omega

theorem freshLoop_spec (c : Circuit) (restr : List Label) : ∀ (fuel ctr : Nat) (S : List Label),
    S.Nodup → (∀ s ∈ S, (s ∈ c.labels ∨ s ∈ restr) ∧ ∃ j, j < ctr ∧ j < 16 ^ 32 ∧ s = newLabel j) →
    (c.labels ++ restr).length < fuel + S.length →
    (∃ l ctr', freshLoop c restr fuel ctr = .ok (l, ctr') ∧ l ∉ c.labels ∧ l ∉ restr ∧ ctr < ctr' ∧ ctr' ≤ 16 ^ 32 ∧
      ∃ j, ctr ≤ j ∧ j < ctr' ∧ l = newLabel j) ∨
    freshLoop c restr fuel ctr = .error "LabelSpaceExhausted" := by
  intro fuel
  induction fuel with
  | zero =>
    intro ctr S hnd hS hlen
    exfalso
    have := nodup_subset_length S (c.labels ++ restr) hnd (fun s hs => by
      rcases (hS s hs).1 with h | h
      · exact List.mem_append_left _ h
      · exact List.mem_append_right _ h)
    omega
  | succ n ih =>
    intro ctr S hnd hS hlen
    unfold freshLoop
    by_cases hb : 16 ^ 32 ≤ ctr
    · right; simp [hb]
    · simp only [hb, if_false]
      by_cases hocc : (c.hasGate (newLabel ctr) || restr.contains (newLabel ctr)) = true
      · simp only [hocc, if_true]
        have hin : newLabel ctr ∈ c.labels ∨ newLabel ctr ∈ restr := by
          rcases Bool.or_eq_true _ _ |>.mp hocc with h | h
          · exact Or.inl ((hasGate_iff' c _).mp h)
          · exact Or.inr (by simpa using h)
        have hnew : newLabel ctr ∉ S := by
          intro hm
          obtain ⟨_, j, hj, hj2, e⟩ := hS _ hm
          have := newLabel_inj (by omega) hj2 e
          omega
        rcases ih (ctr + 1) (newLabel ctr :: S) (List.nodup_cons.mpr ⟨hnew, hnd⟩) (by
            intro s hs
            rcases List.mem_cons.mp hs with rfl | hs
            · exact ⟨hin, ctr, by omega, by omega, rfl⟩
            · obtain ⟨a, j, hj, hj2, e⟩ := hS s hs
              exact ⟨a, j, by omega, hj2, e⟩) (by simp only [List.length_cons]; omega) with ⟨l, ctr', h1, h2, h3, h4, h5, j, h6, h7, h8⟩ | h
        · left; exact ⟨l, ctr', h1, h2, h3, by omega, h5, j, by omega, h7, h8⟩
        · right; exact h
      · left
        have hocc' : (c.hasGate (newLabel ctr) || restr.contains (newLabel ctr)) = false := by
          cases hh : (c.hasGate (newLabel ctr) || restr.contains (newLabel ctr)) <;> simp_all
        simp only [hocc']
        have h1 : c.hasGate (newLabel ctr) = false := by
          cases hh : c.hasGate (newLabel ctr) <;> simp_all
        have h2 : restr.contains (newLabel ctr) = false := by
          cases hh : restr.contains (newLabel ctr) <;> simp_all
        refine ⟨newLabel ctr, ctr + 1, by simp, ?_, ?_, by omega, by omega, ctr, by omega, by omega, rfl⟩
        · intro hm; rw [(hasGate_iff' c _).mpr hm] at h1; cases h1
        · intro hm; have : restr.contains (newLabel ctr) = true := by simpa using hm
          rw [this] at h2; cases h2

/-! ## `Ok`: returns with `Q`, or the label space is exhausted -/

def Ok {α} (p : Prog α) (st : GSt) (Q : α → GSt → Prop) : Prop :=
  (∃ a st', p.run st = .ok (a, st') ∧ Q a st') ∨ p.run st = .error "LabelSpaceExhausted"

theorem run_bind {α β} (p : Prog α) (f : α → Prog β) : ∀ (st : GSt),
    (p >>= f).run st = match p.run st with
      | .ok (a, st') => (f a).run st'
      | .error e => .error e := by
  show ∀ st, (p.bind f).run st = _
  induction p with
  | pure a => intro st; simp [Prog.bind, Prog.run]
  | fresh r k ih =>
    intro st
    simp only [Prog.bind, Prog.run]
    cases freshLoop st.c r (st.c.gates.length + r.length + 1) st.ctr with
    | error e => rfl
    | ok p => obtain ⟨l, c'⟩ := p; exact ih l _
  | add g ok k ih =>
    intro st
    simp only [Prog.bind, Prog.run]
    cases st.c.addGate g with
    | error e => rfl
    | ok c' => exact ih _
  | mark l k ih =>
    intro st
    simp only [Prog.bind, Prog.run]
    cases st.c.markAsOutput l with
    | error e => rfl
    | ok c' => exact ih _
  | fail e => intro st; simp [Prog.bind, Prog.run]

theorem Ok.pure {α} {a : α} {st : GSt} {Q : α → GSt → Prop} (h : Q a st) : Ok (Prog.pure a) st Q :=
  Or.inl ⟨a, st, rfl, h⟩

theorem Ok.ret {α} {a : α} {st : GSt} {Q : α → GSt → Prop} (h : Q a st) : Ok (Pure.pure a : Prog α) st Q :=
  Or.inl ⟨a, st, rfl, h⟩

theorem Ok.bind {α β} {p : Prog α} {f : α → Prog β} {st : GSt} {Q : α → GSt → Prop} {R : β → GSt → Prop}
    (hp : Ok p st Q) (hf : ∀ a st', Q a st' → Ok (f a) st' R) : Ok (p >>= f) st R := by
  unfold Ok
  rw [run_bind]
  rcases hp with ⟨a, st', h1, h2⟩ | h
  · rw [h1]; exact hf a st' h2
  · rw [h]; exact Or.inr rfl

theorem Ok.mono {α} {p : Prog α} {st : GSt} {Q R : α → GSt → Prop} (hp : Ok p st Q) (h : ∀ a st', Q a st' → R a st') :
    Ok p st R := by
  rcases hp with ⟨a, st', h1, h2⟩ | h'
  · exact Or.inl ⟨a, st', h1, h a st' h2⟩
  · exact Or.inr h'

theorem labels_length (c : Circuit) : c.labels.length = c.gates.length := by simp [Circuit.labels]

theorem Ok.fresh {α} {r : List Label} {k : Label → Prog α} {st : GSt} {Q : α → GSt → Prop}
    (h : ∀ l ctr', l ∉ st.c.labels → l ∉ r → st.ctr < ctr' → ctr' ≤ 16 ^ 32 → (∃ j, st.ctr ≤ j ∧ j < ctr' ∧ l = newLabel j) →
      Ok (k l) ⟨st.c, ctr'⟩ Q) : Ok (Prog.fresh r k) st Q := by
  unfold Ok
  simp only [Prog.run]
  rcases freshLoop_spec st.c r (st.c.gates.length + r.length + 1) st.ctr [] List.nodup_nil (by intro s hs; cases hs)
    (by simp [labels_length]) with ⟨l, ctr', h1, h2, h3, h4, h5, h6⟩ | he
  · rw [h1]; exact h l ctr' h2 h3 h4 h5 h6
  · rw [he]; exact Or.inr rfl

theorem labels_rawAddGate {c : Circuit} {g : Gate} (h : g.label ∉ c.labels) : (c.rawAddGate g).labels = c.labels ++ [g.label] := by
  unfold Circuit.labels
  rw [(rawAddGate_fresh (by simpa [Circuit.labels] using h)).1]
  simp

theorem Ok.add {α} {g : Gate} {ok : tyOk g.ty g.ops.length = true} {k : Prog α} {st : GSt} {Q : α → GSt → Prop}
    (hl : g.label ∉ st.c.labels) (ho : ∀ o ∈ g.ops, o ∈ st.c.labels)
    (h : Ok k ⟨st.c.rawAddGate g, st.ctr⟩ Q) : Ok (Prog.add g ok k) st Q := by
  unfold Ok
  simp only [Prog.run]
  have h1 : st.c.addGate g = .ok (st.c.rawAddGate g) := by
    unfold addGate
    have : st.c.hasGate g.label = false := by
      cases hh : st.c.hasGate g.label with
      | false => rfl
      | true => exact absurd ((hasGate_iff' _ _).mp hh) hl
    simp only [this, Bool.false_eq_true, if_false]
    have hce : st.c.checkGatesExist g.ops = .ok () := by
      unfold checkGatesExist
      have : g.ops.all st.c.hasGate = true := List.all_eq_true.mpr (fun o ho' => (hasGate_iff' _ o).mpr (ho o ho'))
      simp [this]
    rw [hce]
  rw [h1]
  exact h

theorem Ok.mark {α} {l : Label} {k : Prog α} {st : GSt} {Q : α → GSt → Prop}
    (hl : l ∈ st.c.labels) (h : Ok k ⟨{ st.c with outputs := st.c.outputs ++ [l] }, st.ctr⟩ Q) : Ok (Prog.mark l k) st Q := by
  unfold Ok
  simp only [Prog.run]
  have : st.c.markAsOutput l = .ok { st.c with outputs := st.c.outputs ++ [l] } := by
    unfold markAsOutput
    simp [(hasGate_iff' _ _).mpr hl]
  rw [this]
  exact h

end Cirbo
