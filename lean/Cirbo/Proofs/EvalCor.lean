import Cirbo.Proofs.EvalLazy
/-! Corollaries connecting the evaluators with the Boolean denotational semantics. -/
namespace Cirbo
open GateType V3

/-- only the values of `a` at INPUT gates matter -/
theorem isVal3_congr {c : Circuit} {a a' v : Label → V3}
    (h : ∀ g ∈ c.gates, g.ty = INPUT → a g.label = a' g.label) (hv : IsVal3 c a v) :
    IsVal3 c a' v := by
  intro g hg
  have := hv g hg
  by_cases hty : g.ty = INPUT
  · simp only [hty, if_true] at this ⊢; rw [this, h g hg hty]
  · simpa [hty] using this

/-- the assignment dictionary `{input_i: b(input_i)}` built by `evaluate`/`get_truth_table` -/
def asgOfBools (c : Circuit) (b : Label → Bool) : Asg := c.inputs.map (fun i => (i, ofBool (b i)))

theorem get?_map_pair (ls : List Label) (f : Label → V3) (k : Label) :
    Dict.get? (ls.map (fun i => (i, f i))) k = if k ∈ ls then some (f k) else none := by
  induction ls with
  | nil => simp [Dict.get?]
  | cons i r ih =>
    simp only [List.map_cons, Dict.get?, ih, List.mem_cons]
    by_cases h : k = i
    · subst h; simp
    · simp [h]

theorem asgFun_asgOfBools (c : Circuit) (b : Label → Bool) (k : Label) :
    asgFun (asgOfBools c b) k = if k ∈ c.inputs then ofBool (b k) else U := by
  unfold asgFun asgOfBools; rw [get?_map_pair]; by_cases h : k ∈ c.inputs <;> simp [h]

def toB : V3 → Bool | T => true | _ => false

theorem ofBool_toB {x : V3} (h : x ≠ U) : ofBool (toB x) = x := by
  cases x <;> first | rfl | exact absurd rfl h

theorem ofBool_inj {a b : Bool} (h : ofBool a = ofBool b) : a = b := by
  cases a <;> cases b <;> first | rfl | cases h

/-- a three-valued valuation under a total assignment is (the embedding of) a Boolean one -/
theorem isValB_of_isVal3 {c : Circuit} (h : WF c) {b : Label → Bool} {v3 : Label → V3}
    (h3 : IsVal3 c (fun l => ofBool (b l)) v3) : IsValB c b (fun l => toB (v3 l)) := by
  have hdef := val3_total_defined h h3
  intro g hg
  have h1 := h3 g hg
  by_cases hty : g.ty = INPUT
  · simp only [hty, if_true] at h1 ⊢; rw [h1]; cases b g.label <;> rfl
  · simp only [hty, if_false] at h1 ⊢
    have hmap : g.ops.map v3 = (g.ops.map (fun l => toB (v3 l))).map ofBool := by
      rw [List.map_map]
      apply map_congr_mem
      intro o ho
      obtain ⟨go, hgo, hgol⟩ := gate_of_label (h.closed g hg o ho)
      have := hdef go hgo
      rw [hgol] at this
      simp [ofBool_toB this]
    rw [hmap, applyOp_ofBool] at h1
    cases hb : bfun g.ty (g.ops.map (fun l => toB (v3 l))) with
    | none => rw [hb] at h1; cases h1
    | some r =>
      rw [hb] at h1
      have e : ofBool r = v3 g.label := Option.some.inj h1
      have : r = toB (v3 g.label) := by rw [← e]; cases r <;> rfl
      rw [this]

/-- **Existence of the denotational semantics** for every well-formed circuit (with users
index) and total input assignment. -/
theorem valB_exists {c : Circuit} (h : WFU c) (b : Label → Bool) : ∃ vB, IsValB c b vB := by
  obtain ⟨d, _, hv, _⟩ := evalFull_spec h (asgOfBools c b)
  have hv' : IsVal3 c (fun l => ofBool (b l)) (valOf d) := by
    apply isVal3_congr _ hv
    intro g hg hty
    rw [asgFun_asgOfBools]
    have : g.label ∈ c.inputs := (h.inputsOK g.label).mpr ⟨g, hg, rfl, hty⟩
    simp [this]
  exact ⟨_, isValB_of_isVal3 h.toWF hv'⟩

/-- the denotation does not depend on the storage order of the gate map -/
theorem isValB_perm {c c' : Circuit} (hp : c'.gates.Perm c.gates) {a v : Label → Bool}
    (hv : IsValB c a v) : IsValB c' a v := fun g hg => hv g (hp.mem_iff.mp hg)

end Cirbo
