import Cirbo.Proofs.ReplaceWfs
import Cirbo.Proofs.RenameTotal
/-!
# `replace_subcircuit` raises only documented errors (error-range theorem)
-/
namespace Cirbo
open GateType Circuit

def re_Documented (e : String) : Prop :=
  e ∈ ["ReplaceSubcircuitError", "GateDoesntExistError", "CircuitGateIsAbsentError",
       "CircuitGateAlreadyExistsError", "CircuitValidationError", "CreateBlockError",
       "DeleteBlockError", "GateHasUsersError", "CircuitIsCyclicalError"]

/-! ## the primitive checks -/

theorem re_checkGatesExist_err {c : Circuit} {ls : List Label} {e : String}
    (h : c.checkGatesExist ls = .error e) : e = "CircuitValidationError" := by
  unfold checkGatesExist at h
  split at h
  · cases h
  · cases h; rfl

theorem re_addGate_err {c : Circuit} {g : Gate} {e : String}
    (h : c.addGate g = .error e) : e = "CircuitValidationError" := by
  unfold addGate at h
  split at h
  · cases h; rfl
  · split at h
    · rename_i e' he
      cases h
      exact re_checkGatesExist_err he
    · cases h

theorem re_makeBlock_err {c : Circuit} {name : Label} {gs outs : List Label} {ins : Option (List Label)}
    {e : String} (h : c.makeBlock name gs outs ins = .error e) : e = "CircuitValidationError" := by
  unfold makeBlock at h
  split at h
  · cases h; rfl
  · split at h
    · rename_i e' he; cases h; exact re_checkGatesExist_err he
    · split at h
      · rename_i e' he; cases h; exact re_checkGatesExist_err he
      · split at h
        · split at h
          · rename_i e' he; cases h; exact re_checkGatesExist_err he
          · cases h
        · cases h

/-! ## the renaming prologue: every prefix is well formed, so `rename_gate` fails only with its two
documented errors -/

theorem re_renFold_err : ∀ (ps : List (Label × Label)) (cc : Circuit) (e : String), WFS cc →
    ps.foldl renStep (.ok cc) = .error e →
    e = "CircuitGateIsAbsentError" ∨ e = "CircuitGateAlreadyExistsError" := by
  intro ps
  induction ps with
  | nil => intro cc e _ h; cases h
  | cons p rest ih =>
    intro cc e hw h
    simp only [List.foldl_cons] at h
    cases hs : renStep (.ok cc) p with
    | error e' =>
      rw [hs, renFold_error] at h
      cases h
      unfold renStep at hs
      simp only at hs
      split at hs
      · rcases renameGate_error hw hs with ⟨_, h1⟩ | ⟨_, _, h1⟩
        · exact Or.inl h1
        · exact Or.inr h1
      · cases hs
    | ok cc' =>
      rw [hs] at h
      have hw' : WFS cc' := by
        unfold renStep at hs
        simp only at hs
        split at hs
        · exact renameGate_wfs hw hs
        · cases hs; exact hw
      exact ih cc' e hw' h

/-- every successful prefix of the renames is well formed -/
theorem re_renFold_wfs : ∀ (ps : List (Label × Label)) (cc c1 : Circuit), WFS cc →
    ps.foldl renStep (.ok cc) = .ok c1 → WFS c1 := by
  intro ps
  induction ps with
  | nil => intro cc c1 hw h; simp at h; subst h; exact hw
  | cons p rest ih =>
    intro cc c1 hw h
    simp only [List.foldl_cons] at h
    cases hs : renStep (.ok cc) p with
    | error e' => rw [hs, renFold_error] at h; cases h
    | ok cc' =>
      rw [hs] at h
      have hw' : WFS cc' := by
        unfold renStep at hs
        simp only at hs
        split at hs
        · exact renameGate_wfs hw hs
        · cases hs; exact hw
      exact ih cc' c1 hw' h

/-! ## the slice -/

theorem re_sliceStepFold_err (c : Circuit) (inputs : List Label) : ∀ (ops : List Label) (gs q : List Label) (e : String),
    ops.foldl (sliceStep c inputs) (.ok (gs, q)) = .error e →
    e = "GateDoesntExistError" ∨ e = "CreateBlockError" := by
  intro ops
  induction ops with
  | nil => intro gs q e h; cases h
  | cons o r ih =>
    intro gs q e h
    simp only [List.foldl_cons] at h
    cases hs : sliceStep c inputs (.ok (gs, q)) o with
    | error e' =>
      rw [hs, sliceStep_error] at h
      cases h
      unfold sliceStep at hs
      simp only at hs
      split at hs
      · cases hs
      · split at hs
        · cases hs; exact Or.inl rfl
        · split at hs
          · cases hs; exact Or.inr rfl
          · split at hs <;> cases hs
    | ok pr =>
      obtain ⟨g1, q1⟩ := pr
      rw [hs] at h
      exact ih g1 q1 e h

theorem re_sliceLoop_err (c : Circuit) (inputs : List Label) : ∀ (fuel : Nat) (gs q : List Label) (e : String),
    sliceLoop c inputs fuel gs q = .error e → e = "GateDoesntExistError" ∨ e = "CreateBlockError" := by
  intro fuel
  induction fuel with
  | zero => intro gs q e h; simp [sliceLoop] at h
  | succ n ih =>
    intro gs q e h
    unfold sliceLoop at h
    split at h
    · cases h
    · split at h
      · cases h; exact Or.inl rfl
      · rename_i g _
        simp only at h
        have h' : (match g.ops.foldl (sliceStep c inputs) (.ok (gs, q.dropLast)) with
            | .error e => (Except.error e : R (List Label))
            | .ok (gs, q) => sliceLoop c inputs n gs q) = .error e := h
        cases hf : g.ops.foldl (sliceStep c inputs) (.ok (gs, q.dropLast)) with
        | error e' =>
          rw [hf] at h'
          cases h'
          exact re_sliceStepFold_err c inputs g.ops gs _ _ hf
        | ok pr =>
          obtain ⟨g1, q1⟩ := pr
          rw [hf] at h'
          exact ih g1 q1 e h'

theorem re_makeBlockFromSlice_err {c : Circuit} {name : Label} {ins outs : List Label} {e : String}
    (h : c.makeBlockFromSlice name ins outs = .error e) :
    e = "CircuitValidationError" ∨ e = "GateDoesntExistError" ∨ e = "CreateBlockError" := by
  unfold makeBlockFromSlice at h
  split at h
  · cases h; exact Or.inl rfl
  · split at h
    · rename_i e' he; cases h; exact Or.inl (re_checkGatesExist_err he)
    · split at h
      · rename_i e' he; cases h; exact Or.inl (re_checkGatesExist_err he)
      · simp only at h
        split at h
        · rename_i e' he; cases h; exact Or.inr (re_sliceLoop_err _ _ _ _ _ _ he)
        · exact Or.inl (re_makeBlock_err h)

/-! ## removing the temporary block: the intermediate circuits are *not* well formed (users of removed
gates dangle), but they are the starting circuit filtered (`RBInv`), which is enough: an INPUT gate still
present is still in the inputs list, so `list.remove` cannot raise `ValueError` -/

theorem re_rawRemoveGate_err {c cur : Circuit} {S : List Label} {l : Label} {e : String} (hw : WFS c)
    (inv : RBInv c cur S) (h : cur.rawRemoveGate l = .error e) : e = "GateDoesntExistError" := by
  unfold rawRemoveGate at h
  cases hf : cur.find? l with
  | none => simp [hf] at h; exact h.symm
  | some g =>
    simp only [hf] at h
    obtain ⟨_, b, _, _⟩ := foldl_removeUser_fields g.ops cur l
    split at h
    · rename_i hcond
      exfalso
      simp only [Bool.and_eq_true, decide_eq_true_eq, Bool.not_eq_true', b] at hcond
      obtain ⟨hty, hni⟩ := hcond
      obtain ⟨hgcur, hgl⟩ := find_some_mem hf
      rw [inv.gates] at hgcur
      obtain ⟨hgc, hnS⟩ := List.mem_filter.mp hgcur
      have hin : l ∈ c.inputs := (hw.inputsOK l).mpr ⟨g, hgc, hgl, hty⟩
      have : l ∈ cur.inputs := by
        rw [inv.inputs, List.mem_filter]
        exact ⟨hin, by rw [← hgl]; exact hnS⟩
      have hc : cur.inputs.contains l = true := by simpa using this
      rw [hc] at hni
      cases hni
    · cases h

theorem re_rbFold_err {c : Circuit} (hw : WFS c) : ∀ (ls S : List Label) (cur : Circuit) (e : String),
    RBInv c cur S → ls.foldl rbStep (.ok cur) = .error e → e = "GateDoesntExistError" := by
  intro ls
  induction ls with
  | nil => intro S cur e _ h; cases h
  | cons l t ih =>
    intro S cur e inv h
    simp only [List.foldl_cons] at h
    cases hs : rbStep (.ok cur) l with
    | error e' =>
      rw [hs, rbFold_error] at h
      cases h
      exact re_rawRemoveGate_err hw inv hs
    | ok c1 =>
      rw [hs] at h
      exact ih (S ++ [l]) c1 e (rawRemoveGate_rbinv hw inv hs) h

/-! ## adding the replacement's gates -/

theorem re_addFold_err (sub : Circuit) (imV : List Label) : ∀ (ls : List Label) (cc : Circuit) (e : String),
    ls.foldl (addStepR sub imV) (.ok cc) = .error e →
    e = "GateDoesntExistError" ∨ e = "CircuitValidationError" := by
  intro ls
  induction ls with
  | nil => intro cc e h; cases h
  | cons l t ih =>
    intro cc e h
    simp only [List.foldl_cons] at h
    cases hs : addStepR sub imV (.ok cc) l with
    | error e' =>
      rw [hs, addStepR_error] at h
      cases h
      unfold addStepR at hs
      simp only at hs
      split at hs
      · cases hs
      · split at hs
        · cases hs; exact Or.inl rfl
        · exact Or.inr (re_addGate_err hs)
    | ok c1 =>
      rw [hs] at h
      exact ih c1 e h

/-- labels stay distinct along the additions (every prefix) -/
theorem re_addFold_nodup (sub : Circuit) (imV : List Label) : ∀ (ls : List Label) (cc c4 : Circuit),
    cc.labels.Nodup → ls.foldl (addStepR sub imV) (.ok cc) = .ok c4 → c4.labels.Nodup := by
  intro ls
  induction ls with
  | nil => intro cc c4 hnd h; simp at h; subst h; exact hnd
  | cons l t ih =>
    intro cc c4 hnd h
    simp only [List.foldl_cons] at h
    cases hs : addStepR sub imV (.ok cc) l with
    | error e' => rw [hs, addStepR_error] at h; cases h
    | ok c1 =>
      rw [hs] at h
      refine ih c1 c4 ?_ h
      unfold addStepR at hs
      simp only at hs
      split at hs
      · cases hs; exact hnd
      · split at hs
        · cases hs
        · rename_i g _
          obtain ⟨hfresh, _, hg, _⟩ := addGate_fields hs
          have hlab : c1.labels = cc.labels ++ [g.label] := by unfold labels; rw [hg]; simp
          rw [hlab, List.nodup_append]
          exact ⟨hnd, by simp, by intro a ha b hb'; simp at hb'; subst hb'; exact fun e => hfresh (e ▸ ha)⟩

/-! ## the final whole-graph cycle check: its fuel suffices -/

theorem re_cycleCheck_err {c : Circuit} (hnd : c.labels.Nodup) (start : Option (List Label)) {e : String}
    (h : hasCycleCheckFrom c start = .error e) : e = "GateDoesntExistError" := by
  unfold hasCycleCheckFrom at h
  cases ht : traverse c false false start false true with
  | ok log => rw [ht] at h; cases h
  | error e' =>
    have hfuel : e' ≠ "fuel" := fun he => traverse_terminates c hnd false false start false true (he ▸ ht)
    have hcases : e' = "fuel" ∨ e' = "GateDoesntExistError" ∨ e' = "CircuitValidationError" := by
      unfold traverse at ht
      split at ht
      · cases ht
      · simp only [Bool.false_eq_true, if_false] at ht
        split at ht
        · rename_i e2 hl
          cases ht
          exact trLoop_error _ _ _ hl
        · cases ht
    rw [ht] at h
    rcases hcases with h1 | h1 | h1
    · exact absurd h1 hfuel
    · subst h1; simp at h; exact h.symm
    · subst h1; simp at h

theorem re_nodup_of_gates_eq {c c' : Circuit} (hg : c'.gates = c.gates) (h : c.labels.Nodup) : c'.labels.Nodup := by
  unfold labels at h ⊢; rw [hg]; exact h

/-- the errors the model can actually produce on a well-formed host circuit (`GateHasUsersError` is not
among them) -/
def re_Raised (e : String) : Prop :=
  e ∈ ["ReplaceSubcircuitError", "GateDoesntExistError", "CircuitGateIsAbsentError",
       "CircuitGateAlreadyExistsError", "CircuitValidationError", "CreateBlockError",
       "DeleteBlockError", "CircuitIsCyclicalError"]

theorem re_doc_of {e : String} (h : e = "ReplaceSubcircuitError" ∨ e = "GateDoesntExistError" ∨
    e = "CircuitGateIsAbsentError" ∨ e = "CircuitGateAlreadyExistsError" ∨ e = "CircuitValidationError" ∨
    e = "CreateBlockError" ∨ e = "DeleteBlockError" ∨ e = "CircuitIsCyclicalError") :
    re_Raised e := by
  unfold re_Raised
  simp only [List.mem_cons, List.not_mem_nil, or_false]
  exact h

theorem re_Raised.documented {e : String} (h : re_Raised e) : re_Documented e := by
  unfold re_Raised at h
  unfold re_Documented
  simp only [List.mem_cons, List.not_mem_nil, or_false] at h ⊢
  rcases h with h | h | h | h | h | h | h | h <;> simp [h]

/-- the core statement: only the host circuit has to be well formed (nothing is assumed about `sub` or the
mappings); no Python-internal error, no fuel exhaustion, and never `GateHasUsersError` -/
theorem re_replaceSubcircuit_errors_core {c sub : Circuit} {im om : List (Label × Label)} {ctr : Nat} {e : String}
    (hw : WFS c) (h : c.replaceSubcircuit sub im om ctr = .error e) : re_Raised e := by
  unfold replaceSubcircuit at h
  simp only at h
  split at h
  · cases h; exact re_doc_of (by simp)
  · split at h
    · rename_i e' he; cases h; exact re_doc_of (by simp [re_checkGatesExist_err he])
    · split at h
      · rename_i e' he; cases h; exact re_doc_of (by simp [re_checkGatesExist_err he])
      · split at h
        · rename_i e' he; cases h; exact re_doc_of (by simp [re_checkGatesExist_err he])
        · split at h
          · cases h; exact re_doc_of (by simp)
          · split at h
            · cases h; exact re_doc_of (by simp)
            · split at h
              · cases h; exact re_doc_of (by simp)
              · split at h
                · rename_i e' hren
                  cases h
                  have hren' : (im ++ om).foldl renStep (.ok c) = .error e := by
                    rw [List.foldl_append]; exact hren
                  rcases re_renFold_err _ _ _ hw hren' with h1 | h1 <;> exact re_doc_of (by simp [h1])
                · rename_i c1 hren
                  have hren' : (im ++ om).foldl renStep (.ok c) = .ok c1 := by
                    rw [List.foldl_append]; exact hren
                  have w1 : WFS c1 := re_renFold_wfs _ _ _ hw hren'
                  split at h
                  · rename_i e' hmk
                    cases h
                    rcases re_makeBlockFromSlice_err hmk with h1 | h1 | h1 <;> exact re_doc_of (by simp [h1])
                  · rename_i c2 hmk
                    obtain ⟨gs, hc2, hnb, _, _⟩ := makeBlockFromSlice_fields hmk
                    have w2 := makeBlockFromSlice_wfs w1 hmk
                    have hfind' : c2.blocks.find? (fun b => b.name == "block_for_deleting" ++ hex32 ctr) =
                        some ⟨"block_for_deleting" ++ hex32 ctr, im.map (·.2), gs, om.map (·.2)⟩ := by
                      rw [hc2]
                      simp only
                      exact find?_append_last _ _ _ hnb (by simp)
                    split at h
                    · rename_i hfind
                      rw [hfind'] at hfind
                      cases hfind
                    · rename_i blk hfind
                      have hblk : blk = ⟨"block_for_deleting" ++ hex32 ctr, im.map (·.2), gs, om.map (·.2)⟩ := by
                        rw [hfind'] at hfind
                        exact (Option.some.inj hfind).symm
                      split at h
                      · cases h; exact re_doc_of (by simp)
                      · split at h
                        · cases h; exact re_doc_of (by simp)
                        · split at h
                          · cases h; exact re_doc_of (by simp)
                          · split at h
                            · rename_i e' hrm
                              cases h
                              have hrm' : gs.foldl rbStep (.ok c2) = .error e := by
                                unfold rawRemoveBlock at hrm
                                rw [hfind, hblk] at hrm
                                exact hrm
                              exact re_doc_of (by simp [re_rbFold_err w2 gs [] c2 e (rbinv_init c2) hrm'])
                            · rename_i c3 hrm
                              have hrm' : gs.foldl rbStep (.ok c2) = .ok c3 := by
                                unfold rawRemoveBlock at hrm
                                rw [hfind, hblk] at hrm
                                exact hrm
                              have inv : RBInv c2 c3 ([] ++ gs) := rbFold_inv w2 gs [] c2 c3 (rbinv_init c2) hrm'
                              have hnd3 : c3.labels.Nodup := by
                                unfold Circuit.labels; rw [inv.gates]
                                exact (List.Nodup.sublist ((List.filter_sublist).map _) w2.nodup)
                              split at h
                              · cases h; exact re_doc_of (by simp)
                              · rename_i order hts
                                split at h
                                · rename_i e' hadd
                                  cases h
                                  have hadd' : order.foldl (addStepR sub (im.map (·.2))) (.ok c3) = .error e := hadd
                                  rcases re_addFold_err _ _ _ _ _ hadd' with h1 | h1 <;> exact re_doc_of (by simp [h1])
                                · rename_i c4 hadd
                                  have hadd' : order.foldl (addStepR sub (im.map (·.2))) (.ok c3) = .ok c4 := hadd
                                  have hnd4 : c4.labels.Nodup := re_addFold_nodup _ _ _ _ _ hnd3 hadd'
                                  split at h
                                  · rename_i e' hcyc
                                    cases h
                                    have := re_cycleCheck_err
                                      (re_nodup_of_gates_eq (addUsersFold_fields _ _).1
                                        (show (Circuit.labels { c4 with outputs := c2.outputs }).Nodup from hnd4)) _ hcyc
                                    exact re_doc_of (by simp [this])
                                  · cases h; exact re_doc_of (by simp)
                                  · cases h

/-- **`replace_subcircuit` raises only documented errors**: for well-formed `c` and `sub` and mappings with
distinct keys (Python dicts), the model never fails with a Python-internal error (`KeyError`, `ValueError`,
`AssertionError`, `IndexError`) nor runs out of fuel -/
theorem re_replaceSubcircuit_errors {c sub : Circuit} {im om : List (Label × Label)} {ctr : Nat} {e : String}
    (hw : WFS c) (_hs : WFS sub) (_hik : (im.map (·.1)).Nodup) (_hok : (om.map (·.1)).Nodup)
    (h : c.replaceSubcircuit sub im om ctr = .error e) : re_Documented e :=
  (re_replaceSubcircuit_errors_core hw h).documented

/-- in particular none of the model-internal failure strings -/
theorem re_replaceSubcircuit_no_internal {c sub : Circuit} {im om : List (Label × Label)} {ctr : Nat}
    (hw : WFS c) : ∀ e ∈ ["Py:KeyError", "Py:ValueError", "Py:AssertionError", "Py:IndexError", "fuel"],
      c.replaceSubcircuit sub im om ctr ≠ .error e := by
  intro e he h
  have := re_replaceSubcircuit_errors_core hw h
  unfold re_Raised at this
  simp only [List.mem_cons, List.not_mem_nil, or_false] at he this
  rcases he with he | he | he | he | he <;> subst he <;> simp at this

end Cirbo
