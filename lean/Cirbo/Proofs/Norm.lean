import Cirbo.Model.Norm
/-!
# Normalisation and denormalisation of truth tables are inverse
-/
namespace Cirbo
namespace Norm

def flipIf (p : Row × Bool) : Row := if p.2 then p.1.map (!·) else p.1

theorem map_not_not (r : Row) : (r.map (!·)).map (!·) = r := by
  induction r with
  | nil => rfl
  | cons b r ih => simp [ih]

/-- L1: `_normalize_outputs` is undone by flipping the recorded outputs again -/
theorem normalizeOutputs_spec : ∀ (tt : List Row) (negs : List Bool) (rows : List Row),
    normalizeOutputs tt = .ok (negs, rows) →
    negs.length = tt.length ∧ rows.length = tt.length ∧ (rows.zip negs).map flipIf = tt := by
  intro tt
  induction tt with
  | nil => intro negs rows h; simp only [normalizeOutputs, Except.ok.injEq, Prod.mk.injEq] at h; obtain ⟨rfl, rfl⟩ := h; simp
  | cons row rest ih =>
    intro negs rows h
    unfold normalizeOutputs at h
    split at h
    · cases h
    · rename_i b r'
      split at h
      · cases h
      · rename_i ns rs hrec
        simp only [Except.ok.injEq, Prod.mk.injEq] at h
        obtain ⟨rfl, rfl⟩ := h
        obtain ⟨h1, h2, h3⟩ := ih ns rs hrec
        refine ⟨by simp [h1], by simp [h2], ?_⟩
        simp only [List.zip_cons_cons, List.map_cons, h3, List.cons.injEq, and_true]
        cases b
        · simp [flipIf]
        · simp only [flipIf, if_true]
          have := map_not_not (true :: r')
          simpa using this

/-! ### sorting is a permutation -/

theorem insertBy_perm {α} (lt : α → α → Bool) (x : α) (l : List α) : (insertBy lt x l).Perm (x :: l) := by
  induction l with
  | nil => exact List.Perm.refl _
  | cons y r ih =>
    unfold insertBy
    split
    · exact List.Perm.refl _
    · exact (List.Perm.cons y ih).trans (List.Perm.swap x y r)

theorem sortBy_perm {α} (lt : α → α → Bool) (l : List α) : (sortBy lt l).Perm l := by
  unfold sortBy
  suffices ∀ acc, (l.foldl (fun acc x => insertBy lt x acc) acc).Perm (l.reverse ++ acc) by
    have := this []
    simp only [List.append_nil] at this
    exact this.trans (List.reverse_perm l)
  induction l with
  | nil => intro acc; exact List.Perm.refl _
  | cons x r ih =>
    intro acc
    simp only [List.foldl_cons, List.reverse_cons, List.append_assoc, List.singleton_append]
    exact (ih _).trans (List.Perm.append_left _ (insertBy_perm lt x acc))

theorem enumerate_spec (rows : List Row) :
    (rows.zipIdx.map (fun (ri : Row × Nat) => (ri.2, ri.1))).map (·.1) = List.range rows.length ∧
    ∀ p ∈ rows.zipIdx.map (fun (ri : Row × Nat) => (ri.2, ri.1)), rows[p.1]? = some p.2 := by
  constructor
  · rw [List.map_map]
    have : ((fun (x : Nat × Row) => x.1) ∘ fun (ri : Row × Nat) => (ri.2, ri.1)) = fun (ri : Row × Nat) => ri.2 := rfl
    rw [this]
    apply List.ext_getElem
    · simp
    · intro i h1 h2; simp
  · intro p hp
    obtain ⟨⟨r, i⟩, hri, rfl⟩ := List.mem_map.mp hp
    rw [List.mem_zipIdx_iff_getElem?] at hri
    simpa using hri

/-! ### `unsort` writes every item to its recorded position -/

theorem foldl_set_spec {α} : ∀ (ps : List (Nat × α)) (acc : List α), (ps.map (·.1)).Nodup → (∀ p ∈ ps, p.1 < acc.length) →
    let r := ps.foldl (fun acc (p : Nat × α) => acc.set p.1 p.2) acc
    r.length = acc.length ∧ (∀ p ∈ ps, r[p.1]? = some p.2) ∧ (∀ j, j ∉ ps.map (·.1) → r[j]? = acc[j]?) := by
  intro ps
  induction ps with
  | nil => intro acc _ _; simp
  | cons p r ih =>
    intro acc hnd hlt
    simp only [List.map_cons, List.nodup_cons] at hnd
    simp only [List.foldl_cons]
    obtain ⟨i1, i2, i3⟩ := ih (acc.set p.1 p.2) hnd.2 (fun q hq => by simp; exact hlt q (by simp [hq]))
    refine ⟨by rw [i1]; simp, ?_, ?_⟩
    · intro q hq
      rcases List.mem_cons.mp hq with rfl | hq
      · rw [i3 _ hnd.1]
        have := hlt q (by simp)
        simp [this]
      · exact i2 q hq
    · intro j hj
      simp only [List.map_cons, List.mem_cons, not_or] at hj
      rw [i3 j hj.2]
      simp [List.getElem?_set, Ne.symm hj.1]

/-- L4: if `perm` is a permutation of `0..m-1`, un-sorting `outs[k] = rows[perm[k]]` gives back `rows` -/
theorem unsort_spec {α} (d : α) (perm : List Nat) (rows outs : List α) (hp : perm.Perm (List.range rows.length))
    (hl : outs.length = rows.length) (hk : ∀ k, k < perm.length → outs[k]? = rows[perm[k]!]?) :
    unsort d perm outs = .ok rows := by
  have hpl : perm.length = rows.length := by rw [hp.length_eq]; simp
  unfold unsort
  rw [if_neg (by simp [hpl, hl])]
  have hnd : perm.Nodup := hp.nodup_iff.mpr List.nodup_range
  have hzip : (perm.zip outs).map (·.1) = perm := by
    rw [List.map_fst_zip]; omega
  obtain ⟨r1, r2, r3⟩ := foldl_set_spec (perm.zip outs) (List.replicate outs.length d) (by rw [hzip]; exact hnd)
    (by
      intro p hp'
      have : p.1 ∈ perm := by rw [← hzip]; exact List.mem_map.mpr ⟨p, hp', rfl⟩
      have := hp.mem_iff.mp this
      simp at this ⊢; omega)
  congr 1
  apply List.ext_getElem?
  intro j
  by_cases hj : j < rows.length
  · -- j = perm[k] for some k
    have hjm : j ∈ perm := hp.mem_iff.mpr (List.mem_range.mpr hj)
    obtain ⟨k, hk1, hk2⟩ := List.getElem_of_mem hjm
    have hko : k < outs.length := by omega
    have hmem : (perm[k], outs[k]) ∈ perm.zip outs := by
      rw [List.mem_iff_getElem]
      exact ⟨k, by simp; omega, by simp⟩
    have := r2 _ hmem
    simp only at this
    rw [hk2] at this
    rw [this]
    have h2 := hk k hk1
    rw [List.getElem?_eq_getElem hko] at h2
    rw [h2]
    simp [hk1, hk2]
  · have h1 : rows[j]? = none := by simp; omega
    rw [h1]
    simp only [List.getElem?_eq_none_iff]
    rw [r1]; simp; omega

/-! ### duplicates removal and its mapping -/

theorem dedupLoop_spec : ∀ (rest : List Row) (prev : Row) (new : List Row) (mapping : List Nat) (done : List Row),
    new ≠ [] → mapping.length = done.length → (∀ i, i < done.length → new[mapping[i]!]? = done[i]?) →
    new.getLast? = some prev →
    let r := dedupLoop rest prev new mapping
    r.2.length = done.length + rest.length ∧
    ∀ i, i < done.length + rest.length → r.1[r.2[i]!]? = (done ++ rest)[i]? := by
  intro rest
  induction rest with
  | nil => intro prev new mapping done _ hl hinv _; simp only [dedupLoop, List.length_nil, Nat.add_zero, List.append_nil]; exact ⟨hl, hinv⟩
  | cons r rest ih =>
    intro prev new mapping done hne hl hinv hlast
    simp only [dedupLoop]
    have hnew' : ∀ (new' : List Row), (new' = new ∨ new' = new ++ [r]) → new' ≠ [] := by
      rintro new' (rfl | rfl)
      · exact hne
      · simp
    have key : ∀ (new' : List Row), (new' = if (r != prev) = true then new ++ [r] else new) →
        new' ≠ [] ∧ new'.getLast? = some r ∧ (∀ i, i < done.length → new'[mapping[i]!]? = done[i]?) ∧
        new'[new'.length - 1]? = some r := by
      intro new' hdef
      by_cases hrp : (r != prev) = true
      · rw [if_pos hrp] at hdef; subst hdef
        refine ⟨by simp, by simp, ?_, by simp⟩
        intro i hi
        have h1 := hinv i hi
        have hlt : mapping[i]! < new.length := by
          have hd : done[i]? = some done[i] := List.getElem?_eq_getElem hi
          rw [hd] at h1
          exact (List.getElem?_eq_some_iff.mp h1).1
        rw [List.getElem?_append_left hlt]; exact h1
      · rw [if_neg hrp] at hdef; subst hdef
        have hrp' : r = prev := by simpa using hrp
        subst hrp'
        refine ⟨hne, hlast, hinv, ?_⟩
        rw [← hlast, List.getLast?_eq_getElem?]
    obtain ⟨k1, k2, k3, k4⟩ := key _ rfl
    have := ih r _ (mapping ++ [(if (r != prev) = true then new ++ [r] else new).length - 1]) (done ++ [r]) k1
      (by simp [hl]) (by
        intro i hi
        simp only [List.length_append, List.length_singleton] at hi
        by_cases hid : i < done.length
        · have hm : (mapping ++ [(if (r != prev) = true then new ++ [r] else new).length - 1])[i]! = mapping[i]! := by
            simp [List.getElem!_eq_getElem?_getD, List.getElem?_append_left (by omega : i < mapping.length)]
          rw [hm, List.getElem?_append_left hid]; exact k3 i hid
        · have hie : i = done.length := by omega
          subst hie
          have hm : (mapping ++ [(if (r != prev) = true then new ++ [r] else new).length - 1])[done.length]! =
              (if (r != prev) = true then new ++ [r] else new).length - 1 := by
            simp [List.getElem!_eq_getElem?_getD, ← hl]
          rw [hm, k4]; simp) k2
    simp only [List.length_append, List.length_singleton, List.append_assoc, List.singleton_append] at this
    refine ⟨by rw [this.1]; simp; omega, ?_⟩
    intro i hi
    exact this.2 i (by simp at hi ⊢; omega)

theorem undelete_spec {α} (mapping : List Nat) (outs target : List α) (hl : mapping.length = target.length)
    (h : ∀ i, i < target.length → outs[mapping[i]!]? = target[i]?) : undelete mapping outs = .ok target := by
  induction mapping generalizing target with
  | nil => cases target with
    | nil => rfl
    | cons _ _ => simp at hl
  | cons m ms ih =>
    cases target with
    | nil => simp at hl
    | cons t ts =>
      have h0 := h 0 (by simp)
      simp only [List.getElem!_cons_zero, List.getElem?_cons_zero] at h0
      have := ih ts (by simpa using hl) (by
        intro i hi
        have := h (i + 1) (by simp; omega)
        simpa using this)
      simp only [undelete, List.foldr_cons] at this ⊢
      rw [this, h0]

/-- **normalisation followed by denormalisation is the identity on truth tables**: if the stored
circuit computes the normalised table, the denormalised outputs compute the requested table, in the
requested order — through output negation, reordering and duplicate outputs -/
theorem normalize_roundtrip (tt : List Row) (info : Info) (h : normalize tt = .ok info) :
    denormRows info info.table = .ok tt := by
  unfold normalize at h
  split at h
  · cases h
  · rename_i negs rows hno
    obtain ⟨n1, n2, n3⟩ := normalizeOutputs_spec _ _ _ hno
    simp only at h
    split at h
    · cases h
    · rename_i r0 rest hs
      -- facts about the sort
      have hperm := sortBy_perm (fun (a b : Nat × Row) => rowLt a.2 b.2) (rows.zipIdx.map (fun ri => (ri.2, ri.1)))
      obtain ⟨e1, e2⟩ := enumerate_spec rows
      have hp1 : ((sortOutputs rows).map (·.1)).Perm (List.range rows.length) := by rw [← e1]; exact hperm.map _
      have hmem : ∀ p ∈ sortOutputs rows, rows[p.1]? = some p.2 := fun p hp => e2 p (hperm.mem_iff.mp hp)
      have hslen : (sortOutputs rows).length = rows.length := by
        show (sortBy _ _).length = _
        rw [hperm.length_eq]; simp
      -- the dedup loop
      have hd := dedupLoop_spec rest r0 [r0] [0] [r0] (by simp) rfl (by intro i hi; simp at hi; subst hi; simp) rfl
      simp only at hd
      cases hdl : dedupLoop rest r0 [r0] [0] with
      | mk new mapping =>
        rw [hdl] at h hd
        simp only [Except.ok.injEq] at h
        subst h
        simp only [List.length_singleton, List.singleton_append] at hd
        obtain ⟨d1, d2⟩ := hd
        have hsrows : (sortOutputs rows).map (·.2) = r0 :: rest := hs
        have hrl : (r0 :: rest).length = rows.length := by rw [← hsrows]; simp [hslen]
        unfold denormRows
        simp only
        rw [undelete_spec mapping new (r0 :: rest) (by simp [d1]; omega) (by
          intro i hi; exact d2 i (by simp at hi; omega))]
        simp only
        rw [unsort_spec [] _ rows (r0 :: rest) hp1 hrl (by
          intro k hk
          simp only [List.length_map] at hk
          rw [← hsrows]
          have hkk : k < (sortOutputs rows).length := hk
          have := hmem _ (List.getElem_mem hkk)
          simp only [List.getElem?_map, List.getElem?_eq_getElem hkk, Option.map_some]
          rw [List.getElem!_eq_getElem?_getD, List.getElem?_map, List.getElem?_eq_getElem hkk]
          simp only [Option.map_some, Option.getD_some]
          exact this.symm)]
        simp only
        rw [if_neg (by simp [n1, n2])]
        exact congrArg Except.ok n3

end Norm
end Cirbo
