import Cirbo.Proofs.Denorm
/-!
# `NormalizationInfo.denormalize(circuit)` returns on a matching database entry (C17, totality)

Every error branch of `denormalizeCircuit` is unreachable when `info` was produced by `normalize` and the
stored circuit has (at least) as many outputs as the normalised table has rows, all of them existing gates.
-/
namespace Cirbo
namespace Norm
open GateType Circuit

/-! ## `_undo_outputs_deletion` -/

/-- a successful `undelete` only reads existing positions, and returns one item per mapping entry -/
theorem dt_undelete_ok_bounds {α} : ∀ (mapping : List Nat) (outs l : List α), undelete mapping outs = .ok l →
    l.length = mapping.length ∧ ∀ i ∈ mapping, i < outs.length := by
  intro mapping
  induction mapping with
  | nil => intro outs l h; simp [undelete] at h; subst h; simp
  | cons m ms ih =>
    intro outs l h
    have ih' := ih outs
    simp only [undelete, List.foldr_cons] at h ih'
    generalize List.foldr _ (Except.ok []) ms = r at h ih'
    cases r with
    | error e => simp at h
    | ok l0 =>
      cases ho : outs[m]? with
      | none => rw [ho] at h; simp at h
      | some y =>
        rw [ho] at h
        simp only [Except.ok.injEq] at h
        subst h
        obtain ⟨a, b⟩ := ih' l0 rfl
        refine ⟨by simp [a], ?_⟩
        intro i hi
        rcases List.mem_cons.mp hi with rfl | hi
        · exact (List.getElem?_eq_some_iff.mp ho).1
        · exact b i hi

/-- `undelete` returns as soon as every mapping entry is a position of the list -/
theorem dt_undelete_total {α} : ∀ (mapping : List Nat) (outs : List α), (∀ i ∈ mapping, i < outs.length) →
    ∃ l, undelete mapping outs = .ok l := by
  intro mapping
  induction mapping with
  | nil => intro outs _; exact ⟨[], rfl⟩
  | cons m ms ih =>
    intro outs hb
    obtain ⟨l0, h0⟩ := ih outs (fun i hi => hb i (by simp [hi]))
    have hm : m < outs.length := hb m (by simp)
    simp only [undelete, List.foldr_cons] at h0 ⊢
    rw [h0, List.getElem?_eq_getElem hm]
    exact ⟨_, rfl⟩

/-! ## `_unsort_outputs`: the un-sorted list is a rearrangement of the given one -/

theorem dt_unsort_perm {α} (d : α) (perm : List Nat) (outs : List α)
    (hp : perm.Perm (List.range perm.length)) (hl : perm.length = outs.length) :
    ∃ l, unsort d perm outs = .ok l ∧ l.Perm outs := by
  unfold unsort
  rw [if_neg (by simp [hl])]
  refine ⟨_, rfl, ?_⟩
  have hnd : perm.Nodup := hp.nodup_iff.mpr List.nodup_range
  have hzip : (perm.zip outs).map (·.1) = perm := by
    rw [List.map_fst_zip]; omega
  obtain ⟨r1, r2, _⟩ := foldl_set_spec (perm.zip outs) (List.replicate outs.length d) (by rw [hzip]; exact hnd)
    (by
      intro p hp'
      have : p.1 ∈ perm := by rw [← hzip]; exact List.mem_map.mpr ⟨p, hp', rfl⟩
      have := hp.mem_iff.mp this
      simp at this ⊢; omega)
  generalize (perm.zip outs).foldl (fun acc (p : Nat × α) => acc.set p.1 p.2) (List.replicate outs.length d) = r
    at r1 r2
  simp only [List.length_replicate] at r1
  -- outs = perm.map (r[·]?) , r = (range n).map (r[·]?)
  have h1 : outs.map some = perm.map (fun i => r[i]?) := by
    apply List.ext_getElem?
    intro k
    by_cases hk : k < perm.length
    · have hko : k < outs.length := by omega
      have hmem : (perm[k], outs[k]) ∈ perm.zip outs := by
        rw [List.mem_iff_getElem]
        exact ⟨k, by simp; omega, by simp⟩
      have := r2 _ hmem
      simp only at this
      simp [List.getElem?_eq_getElem hk, List.getElem?_eq_getElem hko, this]
    · simp [List.getElem?_eq_none (by omega : perm.length ≤ k), List.getElem?_eq_none (by omega : outs.length ≤ k)]
  have h2 : r.map some = (List.range perm.length).map (fun i => r[i]?) := by
    apply List.ext_getElem?
    intro k
    by_cases hk : k < r.length
    · simp [List.getElem?_eq_getElem hk, List.getElem?_range (by omega : k < perm.length)]
    · simp [List.getElem?_eq_none (by omega : r.length ≤ k), List.getElem?_eq_none (by simp; omega : (List.range perm.length).length ≤ k)]
  have h3 : (r.map some).Perm (outs.map some) := by
    rw [h1, h2]; exact (hp.map _).symm
  have h4 := h3.filterMap id
  have hfm : ∀ (l : List α), List.filterMap id (l.map some) = l := by
    intro l; induction l with
    | nil => rfl
    | cons a l ih => simp [ih]
  rwa [hfm, hfm] at h4

/-! ## `order_outputs` with a rearrangement of the outputs -/

theorem dt_orderList_go_total : ∀ (ordered new oldc : List Label), (∃ rest, oldc.Perm (ordered ++ rest)) →
    ∃ res, orderList.go ordered new oldc = .ok res := by
  intro ordered
  induction ordered with
  | nil => intro new oldc _; exact ⟨_, rfl⟩
  | cons e r ih =>
    intro new oldc ⟨rest, hp⟩
    unfold orderList.go
    have he : e ∈ oldc := hp.mem_iff.mpr (by simp)
    rw [if_pos (by simpa using he)]
    apply ih
    refine ⟨rest, ?_⟩
    have := hp.erase e
    simpa using this

theorem dt_orderList_total {ordered old : List Label} (hp : ordered.Perm old) :
    ∃ l, orderList ordered old = .ok l := by
  obtain ⟨⟨new, oldc⟩, h⟩ := dt_orderList_go_total ordered [] old ⟨[], by simpa using hp.symm⟩
  unfold orderList
  rw [h]
  simp only
  split <;> exact ⟨_, rfl⟩

/-! ## the negation loop -/

theorem dt_addGate_ok {c : Circuit} {g : Gate} (hf : c.hasGate g.label = false) (ho : ∀ o ∈ g.ops, o ∈ c.labels) :
    ∃ c', c.addGate g = .ok c' := by
  unfold addGate
  have h2 : c.checkGatesExist g.ops = .ok () := by
    unfold checkGatesExist
    have : g.ops.all c.hasGate = true := List.all_eq_true.mpr (fun o h => (hasGate_iff' c o).mpr (ho o h))
    simp [this]
  simp [hf, h2]

/-- the loop returns as soon as the outputs it negates are gates of the circuit
(the fresh label is tested, the only operand exists) -/
theorem dt_negateOutputs_total : ∀ (pairs : List (Label × Bool)) (c : Circuit) (acc : List Label),
    (∀ p ∈ pairs, p.1 ∈ c.labels) → ∃ res, negateOutputs pairs c acc = .ok res := by
  intro pairs
  induction pairs with
  | nil => intro c acc _; exact ⟨_, rfl⟩
  | cons p rest ih =>
    obtain ⟨o, neg⟩ := p
    intro c acc hin
    have hoin : o ∈ c.labels := hin (o, neg) (by simp)
    have hrest : ∀ q ∈ rest, q.1 ∈ c.labels := fun q hq => hin q (by simp [hq])
    unfold negateOutputs
    cases neg with
    | false =>
      simp only [Bool.false_eq_true, if_false]
      exact ih c _ hrest
    | true =>
      simp only [if_true]
      by_cases hex : c.hasGate ("not_" ++ o) = true
      · simp only [hex, if_true]
        exact ih c _ hrest
      · simp only [hex, Bool.false_eq_true, if_false]
        have hex' : c.hasGate ("not_" ++ o) = false := by simpa using hex
        obtain ⟨c1, hadd⟩ := dt_addGate_ok (c := c) (g := ⟨"not_" ++ o, NOT, [o]⟩) hex'
          (by intro x hx; simp at hx; subst hx; exact hoin)
        rw [hadd]
        simp only
        obtain ⟨_, _, fg, _⟩ := addGate_fields hadd
        apply ih c1
        intro q hq
        have := hrest q hq
        unfold Circuit.labels at this ⊢
        rw [fg]; simp only [List.map_append, List.mem_append]
        exact Or.inl this

/-! ## what `normalize` guarantees about `info` -/

theorem dt_normalize_mapping_pos {tt : List Row} {info : Info} (h : normalize tt = .ok info) :
    0 < info.mapping.length := by
  unfold normalize at h
  split at h
  · cases h
  · simp only at h
    split at h
    · cases h
    · rename_i r0 rest _
      have hd := dedupLoop_spec rest r0 [r0] [0] [r0] (by simp) rfl
        (by intro i hi; simp at hi; subst hi; simp) rfl
      simp only at hd
      cases hdl : dedupLoop rest r0 [r0] [0] with
      | mk new mapping =>
        rw [hdl] at h hd
        simp only [Except.ok.injEq] at h
        subst h
        show 0 < mapping.length
        rw [hd.1]; simp; omega

/-- the recorded parameters fit the normalised table: the mapping has one entry per requested output, each
a row of the stored table; so have the permutation (a permutation of `0..m-1`) and the negations -/
theorem dt_normalize_shape {tt : List Row} {info : Info} (h : normalize tt = .ok info) :
    (∀ i ∈ info.mapping, i < info.table.length) ∧
    info.permutation.length = info.mapping.length ∧ info.negations.length = info.mapping.length ∧
    info.mapping.length = tt.length ∧ 0 < tt.length ∧ 0 < info.table.length := by
  have hrt := normalize_roundtrip tt info h
  unfold denormRows at hrt
  cases hu : undelete info.mapping info.table with
  | error e => rw [hu] at hrt; cases hrt
  | ok u =>
    rw [hu] at hrt
    simp only at hrt
    cases hs : unsort [] info.permutation u with
    | error e => rw [hs] at hrt; cases hrt
    | ok s =>
      rw [hs] at hrt
      simp only at hrt
      split at hrt
      · cases hrt
      · rename_i hnl
        obtain ⟨u1, u2⟩ := dt_undelete_ok_bounds _ _ _ hu
        obtain ⟨s1, s2⟩ := unsort_length hs
        have hnl' : info.negations.length = s.length := by simpa using hnl
        simp only [Except.ok.injEq] at hrt
        have htt : tt.length = s.length := by rw [← hrt]; simp [hnl']
        have hm0 : 0 < info.mapping.length := dt_normalize_mapping_pos h
        refine ⟨u2, by omega, by omega, by omega, by omega, ?_⟩
        cases hmp : info.mapping with
        | nil => rw [hmp] at hm0; simp at hm0
        | cons m ms =>
          have := u2 m (by rw [hmp]; simp)
          omega

/-! ## totality -/

theorem dt_negateOutputs_length : ∀ (pairs : List (Label × Bool)) (c : Circuit) (acc : List Label)
    (res : Circuit × List Label), negateOutputs pairs c acc = .ok res → res.2.length = acc.length + pairs.length := by
  intro pairs
  induction pairs with
  | nil => intro c acc res h; simp only [negateOutputs, Except.ok.injEq] at h; subst h; simp
  | cons p rest ih =>
    obtain ⟨o, neg⟩ := p
    intro c acc res h
    unfold negateOutputs at h
    cases neg with
    | false =>
      simp only [Bool.false_eq_true, if_false] at h
      have := ih _ _ _ h; simp at this ⊢; omega
    | true =>
      simp only [if_true] at h
      by_cases hex : c.hasGate ("not_" ++ o) = true
      · simp only [hex, if_true] at h
        have := ih _ _ _ h; simp at this ⊢; omega
      · simp only [hex, Bool.false_eq_true, if_false] at h
        cases hadd : c.addGate ⟨"not_" ++ o, NOT, [o]⟩ with
        | error e => rw [hadd] at h; cases h
        | ok c1 =>
          rw [hadd] at h
          have := ih _ _ _ h; simp at this ⊢; omega

/-- the returned circuit has one output per recorded negation (= per requested output) -/
theorem dt_denormalize_outputs_length {info : Info} {c c' : Circuit} (hd : denormalizeCircuit info c = .ok c') :
    c'.outputs.length = info.negations.length := by
  unfold denormalizeCircuit at hd
  cases hu : undelete info.mapping c.outputs with
  | error e => rw [hu] at hd; cases hd
  | ok o1 =>
    rw [hu] at hd
    simp only at hd
    cases hs : unsort "" info.permutation o1 with
    | error e => rw [hs] at hd; cases hd
    | ok o2 =>
      rw [hs] at hd
      simp only at hd
      cases hord : Circuit.orderOutputs { c with outputs := o1 } o2 with
      | error e => rw [hord] at hd; cases hd
      | ok c2 =>
        rw [hord] at hd
        simp only at hd
        split at hd
        · cases hd
        · rename_i hnl2
          cases hneg : negateOutputs (c2.outputs.zip info.negations) c2 [] with
          | error e => rw [hneg] at hd; cases hd
          | ok pr =>
            rw [hneg] at hd
            simp only [Except.ok.injEq] at hd
            subst hd
            have := dt_negateOutputs_length _ _ _ _ hneg
            have h2 : info.negations.length = c2.outputs.length := by simpa using hnl2
            simp only [List.length_nil, List.length_zip, Nat.zero_add] at this
            show pr.2.length = _
            omega

/-- **`denormalize` returns** (general form): `info` comes from `normalize`, the circuit has at least as
many outputs as the normalised table has rows, and its outputs are gates of the circuit -/
theorem dt_denormalize_total' {tt : List Row} {info : Info} {c : Circuit} (hnorm : normalize tt = .ok info)
    (houts : ∀ o ∈ c.outputs, o ∈ c.labels) (hout : info.table.length ≤ c.outputs.length) :
    ∃ c', denormalizeCircuit info c = .ok c' := by
  obtain ⟨hmb, hpl, hnl, _, _, _⟩ := dt_normalize_shape hnorm
  have hperm := normalize_perm hnorm
  unfold denormalizeCircuit
  obtain ⟨o1, hu⟩ := dt_undelete_total info.mapping c.outputs (fun i hi => by have := hmb i hi; omega)
  rw [hu]
  simp only
  obtain ⟨u1, _⟩ := dt_undelete_ok_bounds _ _ _ hu
  obtain ⟨o2, hs, hp2⟩ := dt_unsort_perm "" info.permutation o1 hperm (by omega)
  rw [hs]
  simp only
  obtain ⟨l2, _⟩ := unsort_length hs
  obtain ⟨l, hol⟩ := dt_orderList_total hp2
  have hord : Circuit.orderOutputs { c with outputs := o1 } o2 = .ok { c with outputs := l } := by
    unfold Circuit.orderOutputs
    simp only [hol]
  rw [hord]
  simp only
  obtain ⟨hle, hmem⟩ := orderList_full hol l2
  subst hle
  rw [if_neg (by simp; omega)]
  obtain ⟨⟨c3, outs⟩, hneg⟩ := dt_negateOutputs_total (l.zip info.negations) { c with outputs := l } []
    (by
      intro p hp
      show p.1 ∈ c.labels
      exact houts _ (undelete_mem _ _ _ hu _ (hmem _ (List.of_mem_zip hp).1)))
  rw [hneg]
  exact ⟨_, rfl⟩

/-- **looking up a table whose normal form is stored never raises in the denormalisation step** -/
theorem dt_denormalize_total {tt : List Row} {info : Info} {c : Circuit} (hnorm : normalize tt = .ok info)
    (hw : WFS c) (_hn : NotOK c) (hout : c.outputs.length = info.table.length) :
    ∃ c', denormalizeCircuit info c = .ok c' :=
  dt_denormalize_total' hnorm hw.outputsOK (by omega)

/-- totality together with the existing correctness statement: the call returns a well-formed circuit on
the same inputs whose outputs compute column `j` of the requested table wherever the stored circuit
computes column `j` of the normalised table -/
theorem dt_lookup_entry_total_correct {tt : List Row} {info : Info} {c : Circuit} (hnorm : normalize tt = .ok info)
    (hw : WFS c) (hn : NotOK c) (hout : c.outputs.length = info.table.length) :
    ∃ c', denormalizeCircuit info c = .ok c' ∧ WFS c' ∧ c'.inputs = c.inputs ∧
      c'.outputs.length = tt.length ∧
      ∀ j, (∀ r ∈ tt, j < r.length) → ∀ b v, IsValB c b v → c.outputs.map v = col j info.table →
        ∃ v', IsValB c' b v' ∧ c'.outputs.map v' = col j tt := by
  obtain ⟨c', hd⟩ := dt_denormalize_total hnorm hw hn hout
  obtain ⟨hi, hw', _⟩ := denormalizeCircuit_sem hw hn hd
  refine ⟨c', hd, hw', hi, ?_, ?_⟩
  · obtain ⟨_, _, hnl, hml, _, _⟩ := dt_normalize_shape hnorm
    rw [dt_denormalize_outputs_length hd]; omega
  · intro j hrows b v hv hstored
    obtain ⟨v', a, b', _⟩ := lookup_entry_correct hnorm hw hn hd j hrows hv hstored
    exact ⟨v', a, b'⟩

end Norm
end Cirbo
