import Cirbo.Proofs.GenWeighted
import Cirbo.Model.Gen3
/-!
# Multipliers: partial products, the default mode (weighted sum) and the shift-and-add mode
-/
namespace Cirbo
open GateType

theorem sem_ppRow {v : Label → Bool} {bi : Label} : ∀ (a acc out : List Label), Sem (ppRow bi a acc) v out →
    ∃ row, out = acc ++ row ∧ row.length = a.length ∧ valLE v row = bv v bi * valLE v a := by
  intro a
  induction a with
  | nil => intro acc out h; simp only [ppRow, sem_pure] at h; subst h; exact ⟨[], by simp, rfl, by simp [valLE]⟩
  | cons aj r ih =>
    intro acc out h
    simp only [ppRow, sem_bind] at h
    obtain ⟨g, hg, hrec⟩ := h
    obtain ⟨row, h1, h2, h3⟩ := ih _ _ hrec
    refine ⟨g :: row, by rw [h1]; simp, by simp [h2], ?_⟩
    have hgv : bv v g = bv v bi * bv v aj := by
      simp only [bv, sem_emitTT hg]; cases v aj <;> cases v bi <;> rfl
    simp only [valLE, h3, hgv, Nat.mul_add]
    rw [Nat.mul_left_comm]

/-- value of the rows of partial products, row `i` weighted by `2^i` -/
def rowsVal (v : Label → Bool) : List (List Label) → Nat
  | [] => 0
  | r :: rs => valLE v r + 2 * rowsVal v rs

theorem sem_ppRows {v : Label → Bool} {a : List Label} : ∀ (b : List Label) (acc out : List (List Label)),
    Sem (ppRows a b acc) v out →
    ∃ rows, out = acc ++ rows ∧ rows.length = b.length ∧ (∀ r ∈ rows, r.length = a.length) ∧
      rowsVal v rows = valLE v a * valLE v b ∧
      All2 (fun r bi => valLE v r = bv v bi * valLE v a) rows b := by
  intro b
  induction b with
  | nil => intro acc out h; simp only [ppRows, sem_pure] at h; subst h; exact ⟨[], by simp, rfl, by simp, by simp [rowsVal, valLE], .nil⟩
  | cons bi r ih =>
    intro acc out h
    simp only [ppRows, sem_bind] at h
    obtain ⟨row, hrow, hrec⟩ := h
    obtain ⟨row', e1, e2, e3⟩ := sem_ppRow _ _ _ hrow
    simp only [List.nil_append] at e1; subst e1
    obtain ⟨rows, h1, h2, h3, h4, h5⟩ := ih _ _ hrec
    refine ⟨row :: rows, by rw [h1]; simp, by simp [h2], ?_, ?_, .cons e3 h5⟩
    · intro x hx
      rcases List.mem_cons.mp hx with rfl | hx
      · exact e2
      · exact h3 x hx
    · simp only [rowsVal, valLE, h4, e3, Nat.mul_add]
      rw [Nat.mul_comm (bv v bi), Nat.mul_left_comm]

theorem wsum_row (v : Label → Bool) (i : Nat) : ∀ (row : List Label) (k : Nat),
    wsum v ((row.zipIdx k).map (fun (lj : Label × Nat) => (i + lj.2, lj.1))) = 2 ^ (i + k) * valLE v row := by
  intro row
  induction row with
  | nil => intro k; simp [wsum_nil, valLE]
  | cons x r ih =>
    intro k
    simp only [List.zipIdx_cons, List.map_cons, wsum_cons, ih, valLE, Nat.mul_add]
    rw [← Nat.add_assoc, Nat.pow_succ]
    congr 1
    rw [Nat.mul_left_comm, Nat.mul_comm (2 ^ (i + k)) 2, Nat.mul_assoc]

theorem wsum_flatten (v : Label → Bool) (ls : List (List (Nat × Label))) :
    wsum v ls.flatten = (ls.map (wsum v)).sum := by
  induction ls with
  | nil => rfl
  | cons x r ih => simp [wsum_append, ih]

theorem wsum_ppWeighted_aux (v : Label → Bool) : ∀ (rows : List (List Label)) (k : Nat),
    wsum v ((rows.zipIdx k).map (fun (ri : List Label × Nat) =>
      ri.1.zipIdx.map (fun (lj : Label × Nat) => (ri.2 + lj.2, lj.1))) |>.flatten) = 2 ^ k * rowsVal v rows := by
  intro rows
  induction rows with
  | nil => intro k; simp [wsum_nil, rowsVal]
  | cons r rs ih =>
    intro k
    simp only [List.zipIdx_cons, List.map_cons, List.flatten_cons, wsum_append, ih, rowsVal, Nat.mul_add]
    have := wsum_row v k r 0
    simp only [Nat.add_zero] at this
    rw [this, Nat.pow_succ]
    congr 1
    rw [Nat.mul_assoc]

theorem wsum_ppWeighted (v : Label → Bool) (rows : List (List Label)) : wsum v (ppWeighted rows) = rowsVal v rows := by
  have := wsum_ppWeighted_aux v rows 0
  simpa [ppWeighted] using this

/-- **`add_mul` (DEFAULT)**: the returned bits, taken with the levels of the weighted sum, add up to
`a·b`, and the levels are strictly increasing -/
theorem sem_addMul_weighted {v : Label → Bool} {a b : List Label} {be : Bool} {out : List Label}
    (h : Sem (addMul a b be) v out) :
    ∃ lv : List (Nat × Label), revIf out be = lv.map (·.2) ∧ (lv.map (·.1)).Pairwise (· < ·) ∧
      wsum v lv = valLE v (revIf a be) * valLE v (revIf b be) := by
  simp only [addMul, sem_bind, sem_pure] at h
  obtain ⟨rows, hr, lv, hw, rfl⟩ := h
  obtain ⟨rows', e1, _, _, e4, _⟩ := sem_ppRows _ _ _ hr
  simp only [List.nil_append] at e1; subst e1
  obtain ⟨w1, w2⟩ := sem_addSumWeighted hw
  exact ⟨lv, by rw [revIf_revIf], w2, by rw [w1, wsum_ppWeighted, e4]⟩

theorem sem_alterLoop {v : Label → Bool} {A : Nat} : ∀ (rows : List (List Label)) (bs : List Label) (i : Nat) (res out : List Label),
    Sem (alterLoop rows i res) v out → All2 (fun r bi => valLE v r = bv v bi * A) rows bs →
      valLE v out = valLE v res + 2 ^ i * (A * valLE v bs) := by
  intro rows
  induction rows with
  | nil =>
    intro bs i res out h hf
    cases hf
    simp only [alterLoop, sem_pure] at h; subst h; simp [valLE]
  | cons r rs ih =>
    intro bs i res out h hf
    cases hf with
    | cons hr hrest =>
      rename_i bi bs'
      simp only [alterLoop, sem_bind] at h
      obtain ⟨res', hs, hrec⟩ := h
      have hv := sem_addSumTwoNumbersWithShift hs
      simp only [revIf, Bool.false_eq_true, if_false] at hv
      rw [ih _ _ _ _ hrec hrest, hv, hr]
      simp only [valLE, Nat.pow_succ]
      generalize 2 ^ i = P
      generalize valLE v bs' = Y
      generalize bv v bi = B
      rw [Nat.mul_add, Nat.mul_add, Nat.add_assoc]
      congr 1
      rw [Nat.mul_comm B A]
      congr 1
      rw [Nat.mul_assoc, Nat.mul_left_comm A 2 Y]

theorem alter_arith (A b0 b1 Y : Nat) : b0 * A + 2 ^ 1 * (b1 * A) + 2 ^ 2 * (A * Y) = A * (b0 + 2 * (b1 + 2 * Y)) := by
  have h1 : A * (b0 + 2 * (b1 + 2 * Y)) = A * b0 + 2 * (A * b1) + 4 * (A * Y) := by
    rw [Nat.mul_add, Nat.mul_left_comm A 2, Nat.mul_add, Nat.mul_left_comm A 2 Y]; omega
  rw [h1, Nat.mul_comm b0 A, Nat.mul_comm b1 A]

/-- **`add_mul_alter`**: read in the requested endianness, the result is exactly `a·b` -/
theorem sem_addMulAlter {v : Label → Bool} {a b : List Label} {be : Bool} {out : List Label}
    (h : Sem (addMulAlter a b be) v out) :
    valLE v (revIf out be) = valLE v (revIf a be) * valLE v (revIf b be) := by
  simp only [addMulAlter, sem_bind] at h
  obtain ⟨rows, hr, hbody⟩ := h
  obtain ⟨rows', e1, e2, _, _, e5⟩ := sem_ppRows _ _ _ hr
  simp only [List.nil_append] at e1; subst e1
  generalize revIf b be = BB at e5 e2 ⊢
  rcases rows with _ | ⟨r0, _ | ⟨r1, rest⟩⟩
  · exact absurd hbody sem_fail
  · simp only [sem_pure] at hbody; subst hbody
    rw [revIf_revIf]
    cases e5 with
    | cons h0 hrest =>
      cases hrest
      rw [h0]; simp [valLE, Nat.mul_comm]
  · simp only [sem_bind, sem_pure] at hbody
    obtain ⟨res, hs, res', hl, rfl⟩ := hbody
    rw [revIf_revIf]
    cases e5 with
    | cons h0 hrest =>
      cases hrest with
      | cons h1 hrest' =>
        have hv := sem_addSumTwoNumbersWithShift hs
        simp only [revIf, Bool.false_eq_true, if_false] at hv
        rw [sem_alterLoop _ _ _ _ _ hl hrest', hv, h0, h1]
        simp only [valLE]
        exact alter_arith _ _ _ _

end Cirbo
