import Cirbo.Proofs.RemoveGate
/-!
# rename_gate (C02, C19): every reference follows the rename, the invariant and the function are kept
-/
namespace Cirbo
open GateType Circuit

def rho (old new : Label) (l : Label) : Label := if l = old then new else l
def rhoInv (old new : Label) (l : Label) : Label := if l = new then old else l
def renG (old new : Label) (g : Gate) : Gate := ⟨rho old new g.label, g.ty, g.ops.map (rho old new)⟩
def renB (old new : Label) (b : Block) : Block :=
  { b with inputs := b.inputs.map (rho old new), gates := b.gates.map (rho old new), outputs := b.outputs.map (rho old new) }

theorem renameIn_eq (old new : Label) (ls : List Label) : renameIn old new ls = ls.map (rho old new) := by
  unfold renameIn rho
  apply List.map_congr_left
  intro x _
  by_cases h : x = old <;> simp [h]

theorem rhoInv_rho {old new l : Label} (h : l ≠ new) : rhoInv old new (rho old new l) = l := by
  unfold rho rhoInv
  by_cases e : l = old
  · simp [e]
  · simp [e, h]

theorem rho_ne_old {old new l : Label} (h : new ≠ old) : rho old new l ≠ old := by
  unfold rho
  by_cases e : l = old
  · simp [e, h]
  · simp [e]

/-- `rho` is injective away from `new` -/
theorem rho_inj {old new a b : Label} (ha : a ≠ new) (hb : b ≠ new) (h : rho old new a = rho old new b) : a = b := by
  have := congrArg (rhoInv old new) h
  rwa [rhoInv_rho ha, rhoInv_rho hb] at this

theorem count_map_rho {old new : Label} (l : Label) (hl : l ≠ new) : ∀ (xs : List Label), (∀ x ∈ xs, x ≠ new) →
    (xs.map (rho old new)).count (rho old new l) = xs.count l := by
  intro xs
  induction xs with
  | nil => intro _; rfl
  | cons x t ih =>
    intro h
    have hx := h x (by simp)
    simp only [List.map_cons, List.count_cons]
    rw [ih (fun y hy => h y (by simp [hy]))]
    by_cases e : x = l
    · simp [e]
    · have : rho old new x ≠ rho old new l := fun e2 => e (rho_inj hx hl e2)
      simp [e, this]

theorem nodup_map_rho {old new : Label} : ∀ (xs : List Label), xs.Nodup → (∀ x ∈ xs, x ≠ new) →
    (xs.map (rho old new)).Nodup := by
  intro xs
  induction xs with
  | nil => intro _ _; simp
  | cons x t ih =>
    intro hnd h
    have hnd' := List.nodup_cons.mp hnd
    simp only [List.map_cons, List.nodup_cons]
    refine ⟨?_, ih hnd'.2 (fun y hy => h y (by simp [hy]))⟩
    intro hm
    obtain ⟨y, hy, e⟩ := List.mem_map.mp hm
    have := rho_inj (h y (by simp [hy])) (h x (by simp)) e
    subst this
    exact hnd'.1 hy

/-- what it means for `c'` to be `c` with `old` renamed to `new` -/
structure Renamed (c c' : Circuit) (old new : Label) : Prop where
  gates : ∀ x, x ∈ c'.gates ↔ ∃ y ∈ c.gates, x = renG old new y
  labels : c'.labels.Nodup
  inputs : c'.inputs = c.inputs.map (rho old new)
  outputs : c'.outputs = c.outputs.map (rho old new)
  blocks : c'.blocks = c.blocks.map (renB old new)
  users : ∀ l, l ≠ new → c'.usersOf (rho old new l) = (c.usersOf l).map (rho old new)
  usersOld : c'.usersOf old = []

theorem renamed_labels {c c' : Circuit} {old new : Label} (hr : Renamed c c' old new) :
    (∀ l ∈ c.labels, rho old new l ∈ c'.labels) ∧ (∀ l' ∈ c'.labels, ∃ l ∈ c.labels, l' = rho old new l) := by
  constructor
  · intro l hl
    obtain ⟨g, hg, hgl⟩ : ∃ g ∈ c.gates, g.label = l := by simpa [Circuit.labels] using hl
    have := (hr.gates (renG old new g)).mpr ⟨g, hg, rfl⟩
    have h2 := mem_labels_of_mem this
    simpa [renG, hgl] using h2
  · intro l' hl'
    obtain ⟨g', hg', hgl'⟩ : ∃ g ∈ c'.gates, g.label = l' := by simpa [Circuit.labels] using hl'
    obtain ⟨y, hy, rfl⟩ := (hr.gates g').mp hg'
    exact ⟨y.label, mem_labels_of_mem hy, by simpa [renG] using hgl'.symm⟩

/-- **a renamed circuit is well formed** -/
theorem renamed_wfs {c c' : Circuit} {old new : Label} (hw : WFS c) (hnew : new ∉ c.labels) (hne : new ≠ old)
    (hr : Renamed c c' old new) : WFS c' := by
  obtain ⟨lab1, lab2⟩ := renamed_labels hr
  have hlne : ∀ l ∈ c.labels, l ≠ new := fun l hl e => hnew (e ▸ hl)
  obtain ⟨r, hrk⟩ := hw.rank
  refine ⟨hr.labels, ?_, ⟨r ∘ rhoInv old new, ?_⟩, ?_, ?_, ?_, ?_, ?_, ?_, ?_⟩
  · -- closed
    intro g' hg' o' ho'
    obtain ⟨y, hy, rfl⟩ := (hr.gates g').mp hg'
    obtain ⟨o, ho, rfl⟩ := List.mem_map.mp ho'
    exact lab1 o (hw.closed y hy o ho)
  · -- rank
    intro g' hg' o' ho'
    obtain ⟨y, hy, rfl⟩ := (hr.gates g').mp hg'
    obtain ⟨o, ho, rfl⟩ := List.mem_map.mp ho'
    simp only [Function.comp, renG]
    rw [rhoInv_rho (hlne o (hw.closed y hy o ho)), rhoInv_rho (hlne _ (mem_labels_of_mem hy))]
    exact hrk y hy o ho
  · -- inputs nodup
    rw [hr.inputs]
    apply nodup_map_rho _ hw.inputsNodup
    intro x hx
    obtain ⟨g, hg, hgl, _⟩ := (hw.inputsOK x).mp hx
    exact hlne x (hgl ▸ mem_labels_of_mem hg)
  · -- inputs are the INPUT gates
    intro l'
    rw [hr.inputs]
    constructor
    · intro hm
      obtain ⟨l, hl, rfl⟩ := List.mem_map.mp hm
      obtain ⟨g, hg, hgl, hty⟩ := (hw.inputsOK l).mp hl
      exact ⟨renG old new g, (hr.gates _).mpr ⟨g, hg, rfl⟩, by simp [renG, hgl], hty⟩
    · rintro ⟨g', hg', hgl', hty'⟩
      obtain ⟨y, hy, rfl⟩ := (hr.gates g').mp hg'
      have : y.label ∈ c.inputs := (hw.inputsOK y.label).mpr ⟨y, hy, rfl, hty'⟩
      exact List.mem_map.mpr ⟨y.label, this, by simpa [renG] using hgl'⟩
  · -- outputs exist
    intro o' ho'
    rw [hr.outputs] at ho'
    obtain ⟨o, ho, rfl⟩ := List.mem_map.mp ho'
    exact lab1 o (hw.outputsOK o ho)
  · -- users are gates
    intro l' s hs
    by_cases e : l' = old
    · rw [e, hr.usersOld] at hs; cases hs
    · have hsplit : ∃ l, l ≠ new ∧ l' = rho old new l := by
        by_cases e2 : l' = new
        · exact ⟨old, fun e3 => hne e3.symm, by simp [rho, e2]⟩
        · exact ⟨l', e2, by simp [rho, e]⟩
      obtain ⟨l, hl, rfl⟩ := hsplit
      rw [hr.users l hl] at hs
      obtain ⟨u, hu, rfl⟩ := List.mem_map.mp hs
      exact lab1 u (hw.usersL l u hu)
  · -- the users index is the inverse operand multiset
    intro l' g' hg'
    obtain ⟨y, hy, rfl⟩ := (hr.gates g').mp hg'
    have hyl : y.label ≠ new := hlne _ (mem_labels_of_mem hy)
    have hops : ∀ x ∈ y.ops, x ≠ new := fun x hx => hlne x (hw.closed y hy x hx)
    by_cases e : l' = old
    · rw [e, hr.usersOld]
      simp only [List.count_nil, renG]
      symm
      apply List.count_eq_zero.mpr
      intro hm
      obtain ⟨o, _, ho⟩ := List.mem_map.mp hm
      exact rho_ne_old hne ho
    · have hsplit : ∃ l, l ≠ new ∧ l' = rho old new l := by
        by_cases e2 : l' = new
        · exact ⟨old, fun e3 => hne e3.symm, by simp [rho, e2]⟩
        · exact ⟨l', e2, by simp [rho, e]⟩
      obtain ⟨l, hl, rfl⟩ := hsplit
      rw [hr.users l hl]
      simp only [renG]
      rw [count_map_rho y.label hyl _ (fun x hx => hlne x (hw.usersL l x hx)), count_map_rho l hl _ hops]
      exact hw.usersC l y hy
  · -- blocks
    intro b' hb'
    rw [hr.blocks] at hb'
    obtain ⟨b, hb, rfl⟩ := List.mem_map.mp hb'
    obtain ⟨h1, h2⟩ := hw.blocksOK b hb
    constructor
    · intro l hl
      simp only [renB] at hl
      obtain ⟨x, hx, rfl⟩ := List.mem_map.mp hl
      exact lab1 x (h1 x hx)
    · intro l hl
      simp only [renB] at hl
      obtain ⟨x, hx, rfl⟩ := List.mem_map.mp hl
      exact lab1 x (h2 x hx)
  · -- INPUT gates have no operands
    intro g' hg' hty'
    obtain ⟨y, hy, rfl⟩ := (hr.gates g').mp hg'
    simp only [renG] at hty' ⊢
    rw [hw.inputOps y hy hty']; rfl

/-- **a renamed circuit computes the same function**: valuations transport along the renaming -/
theorem renamed_val {c c' : Circuit} {old new : Label} (hw : WFS c) (hnew : new ∉ c.labels)
    (hr : Renamed c c' old new) {b v : Label → Bool} (hv : IsValB c b v) :
    IsValB c' (b ∘ rhoInv old new) (v ∘ rhoInv old new) ∧ c'.outputs.map (v ∘ rhoInv old new) = c.outputs.map v := by
  have hlne : ∀ l ∈ c.labels, l ≠ new := fun l hl e => hnew (e ▸ hl)
  constructor
  · intro g' hg'
    obtain ⟨y, hy, rfl⟩ := (hr.gates g').mp hg'
    have := hv y hy
    have hyl : y.label ≠ new := hlne _ (mem_labels_of_mem hy)
    simp only [renG, Function.comp, rhoInv_rho hyl]
    by_cases ht : y.ty = INPUT
    · simpa [ht] using this
    · simp only [ht, if_false] at this ⊢
      rw [List.map_map]
      have : y.ops.map ((v ∘ rhoInv old new) ∘ rho old new) = y.ops.map v := by
        apply List.map_congr_left
        intro o ho
        simp only [Function.comp, rhoInv_rho (hlne o (hw.closed y hy o ho))]
      rw [this]; assumption
  · rw [hr.outputs, List.map_map]
    apply List.map_congr_left
    intro o ho
    simp only [Function.comp, rhoInv_rho (hlne o (hw.outputsOK o ho))]

/-! ## what `rename_gate` does -/

def renOps (old new : Label) (x : Gate) : Gate := { x with ops := renameIn old new x.ops }

def gatesStep (old new : Label) (gs : List Gate) (u : Label) : List Gate :=
  gs.map (fun x => if x.label == u then renOps old new x else x)

def usersStep (old new : Label) : R (Dict (List Label)) → Label → R (Dict (List Label)) := fun acc o => match acc with
  | .error e => .error e
  | .ok users => match Dict.get? users o with
    | none => .error "Py:KeyError"
    | some us => if us.contains old then .ok (Dict.set users o (replaceFirst old new us))
                 else .error "Py:AssertionError"

theorem renameGate_unfold {c c' : Circuit} {old new : Label} (h : c.renameGate old new = .ok c') :
    ∃ g gates1 users1 users2, c.find? old = some g ∧ c.hasGate new = false ∧
      (match Dict.get? c.users old with
        | none => gates1 = c.gates ∧ users1 = c.users
        | some us => gates1 = us.foldl (gatesStep old new) c.gates ∧ users1 = Dict.set (Dict.erase c.users old) new us) ∧
      ((gates1.find? (fun x => x.label == old)).getD g).ops.foldl (usersStep old new) (.ok users1) = .ok users2 ∧
      c' = ⟨gates1.filter (fun x => !(x.label == old)) ++
              [⟨new, ((gates1.find? (fun x => x.label == old)).getD g).ty, ((gates1.find? (fun x => x.label == old)).getD g).ops⟩],
            (if c.inputs.contains old then replaceFirst old new c.inputs else c.inputs),
            renameIn old new c.outputs, users2,
            c.blocks.map (fun b => { b with inputs := renameIn old new b.inputs, gates := renameIn old new b.gates,
                                            outputs := renameIn old new b.outputs })⟩ := by
  unfold renameGate at h
  cases hf : c.find? old with
  | none => simp [hf] at h
  | some g =>
    simp only [hf] at h
    split at h
    · cases h
    · rename_i hnew
      cases hu : Dict.get? c.users old with
      | none =>
        simp only [hu] at h
        split at h
        · cases h
        · rename_i users2 hfold
          simp only [Except.ok.injEq] at h
          exact ⟨g, c.gates, c.users, users2, rfl, by simpa using hnew, by simp, hfold, h.symm⟩
      | some us =>
        simp only [hu] at h
        split at h
        · cases h
        · rename_i users2 hfold
          simp only [Except.ok.injEq] at h
          exact ⟨g, _, _, users2, rfl, by simpa using hnew, ⟨rfl, rfl⟩, hfold, h.symm⟩

/-! ### lists -/

theorem replaceFirst_not_mem {old new : Label} : ∀ (xs : List Label), old ∉ xs → replaceFirst old new xs = xs := by
  intro xs
  induction xs with
  | nil => intro _; rfl
  | cons x t ih =>
    intro h
    simp only [List.mem_cons, not_or] at h
    have : (x == old) = false := by simpa using fun e : x = old => h.1 e.symm
    simp [replaceFirst, this, ih h.2]

theorem map_rho_not_mem {old new : Label} : ∀ (xs : List Label), old ∉ xs → xs.map (rho old new) = xs := by
  intro xs h
  conv => rhs; rw [← List.map_id xs]
  apply List.map_congr_left
  intro x hx
  have : x ≠ old := fun e => h (e ▸ hx)
  simp [rho, this]

/-- replacing the first occurrence, once per occurrence, renames them all -/
def replaceFirstN (old new : Label) : Nat → List Label → List Label
  | 0, xs => xs
  | k+1, xs => replaceFirstN old new k (replaceFirst old new xs)

theorem replaceFirstN_cons_other {old new x : Label} (hx : x ≠ old) : ∀ (k : Nat) (t : List Label),
    replaceFirstN old new k (x :: t) = x :: replaceFirstN old new k t := by
  intro k
  induction k with
  | zero => intro t; rfl
  | succ k ih =>
    intro t
    have : (x == old) = false := by simpa using hx
    simp only [replaceFirstN, replaceFirst, this, Bool.false_eq_true, if_false]
    exact ih _

theorem replaceFirstN_all {old new : Label} (hne : new ≠ old) : ∀ (xs : List Label),
    replaceFirstN old new (xs.count old) xs = xs.map (rho old new) := by
  intro xs
  induction xs with
  | nil => rfl
  | cons x t ih =>
    by_cases e : x = old
    · subst e
      simp only [List.count_cons_self, replaceFirstN, replaceFirst, beq_self_eq_true, if_true, List.map_cons]
      rw [replaceFirstN_cons_other hne, ih]
      simp [rho]
    · have : (x == old) = false := by simpa using e
      rw [List.count_cons_of_ne (fun h => e h), replaceFirstN_cons_other e, ih]
      simp [rho, e]

/-- the input list (no repetitions): the conditional first-occurrence replacement is the renaming -/
theorem inputs_renamed {old new : Label} (hne : new ≠ old) {xs : List Label} (hnd : xs.Nodup) :
    (if xs.contains old then replaceFirst old new xs else xs) = xs.map (rho old new) := by
  by_cases hc : xs.contains old = true
  · simp only [hc, if_true]
    have hcnt : xs.count old = 1 := by rw [hnd.count]; simp [show old ∈ xs by simpa using hc]
    have := replaceFirstN_all (old := old) hne xs
    rw [hcnt] at this
    exact this
  · simp only [hc, Bool.false_eq_true, if_false]
    exact (map_rho_not_mem xs (by simpa using hc)).symm

/-! ### the users' operand tuples -/

theorem renOps_idem {old new : Label} (hne : new ≠ old) (x : Gate) : renOps old new (renOps old new x) = renOps old new x := by
  simp only [renOps, renameIn_eq, List.map_map]
  congr 1
  apply List.map_congr_left
  intro o _
  simp only [Function.comp, rho]
  by_cases e : o = old
  · simp [e, hne]
  · simp [e]

theorem gatesFold_eq {old new : Label} (hne : new ≠ old) : ∀ (us : List Label) (gs : List Gate),
    us.foldl (gatesStep old new) gs = gs.map (fun x => if us.contains x.label then renOps old new x else x) := by
  intro us
  induction us with
  | nil => intro gs; simp
  | cons u t ih =>
    intro gs
    simp only [List.foldl_cons]
    rw [ih]
    simp only [gatesStep, List.map_map]
    apply List.map_congr_left
    intro x _
    simp only [Function.comp]
    by_cases e : x.label = u
    · have h1 : (x.label == u) = true := by simpa using e
      have hl : (renOps old new x).label = x.label := rfl
      simp only [h1, if_true, hl]
      have : (u :: t).contains x.label = true := by simp [e]
      rw [this]
      split
      · simp [renOps_idem hne]
      · rfl
    · have h1 : (x.label == u) = false := by simpa using e
      simp only [h1, Bool.false_eq_true, if_false]
      have : (u :: t).contains x.label = t.contains x.label := by
        simp [List.contains_cons, e]
      rw [this]

/-! ### the users index -/

theorem usersFold_error (old new : Label) (e : String) : ∀ (ops : List Label),
    ops.foldl (usersStep old new) (.error e) = .error e := by
  intro ops; induction ops with
  | nil => rfl
  | cons a t ih => simpa [usersStep] using ih

theorem usersFold_spec (old new : Label) : ∀ (ops : List Label) (users users2 : Dict (List Label)),
    ops.foldl (usersStep old new) (.ok users) = .ok users2 →
    ∀ l, (Dict.get? users2 l).getD [] = replaceFirstN old new (ops.count l) ((Dict.get? users l).getD []) := by
  intro ops
  induction ops with
  | nil => intro users users2 h l; simp at h; subst h; rfl
  | cons o t ih =>
    intro users users2 h l
    simp only [List.foldl_cons] at h
    cases hs : usersStep old new (.ok users) o with
    | error e => rw [hs, usersFold_error] at h; cases h
    | ok u1 =>
      rw [hs] at h
      have := ih u1 users2 h l
      rw [this]
      unfold usersStep at hs
      simp only at hs
      cases hg : Dict.get? users o with
      | none => simp [hg] at hs
      | some us =>
        simp only [hg] at hs
        split at hs
        · simp only [Except.ok.injEq] at hs
          subst hs
          rw [Dict.get?_set]
          by_cases e : l = o
          · subst e
            simp only [if_true, Option.getD_some, List.count_cons_self, hg]
            rfl
          · simp only [e, if_false]
            rw [List.count_cons_of_ne (fun h => e h.symm)]
        · cases hs

theorem usersOf_nonlabel {c : Circuit} (hw : WFS c) {l : Label} (hl : l ∉ c.labels) : c.usersOf l = [] := by
  cases hu : c.usersOf l with
  | nil => rfl
  | cons s t =>
    exfalso
    have hs : s ∈ c.usersOf l := by rw [hu]; simp
    obtain ⟨g, hg, hgl⟩ : ∃ g ∈ c.gates, g.label = s := by simpa [Circuit.labels] using hw.usersL l s hs
    have hc := hw.usersC l g hg
    have h0 : g.ops.count l = 0 := List.count_eq_zero.mpr (fun hm => hl (hw.closed g hg l hm))
    have h1 : 0 < (c.usersOf l).count g.label := by rw [hgl]; exact List.count_pos_iff.mpr hs
    omega

/-! ### assembly -/

theorem renOps_eq_self {old new : Label} {x : Gate} (h : old ∉ x.ops) : renOps old new x = x := by
  simp only [renOps, renameIn_eq, map_rho_not_mem _ h]

theorem renG_of_ne {old new : Label} {y : Gate} (h : y.label ≠ old) : renG old new y = renOps old new y := by
  simp [renG, renOps, renameIn_eq, rho, h]

/-- **`rename_gate` on a well-formed circuit produces the renamed circuit** -/
theorem renameGate_renamed {c c' : Circuit} {old new : Label} (hw : WFS c) (h : c.renameGate old new = .ok c') :
    Renamed c c' old new ∧ old ∈ c.labels ∧ new ∉ c.labels := by
  obtain ⟨g, gates1, users1, users2, hf, hnew, hpr, hfold, hc'⟩ := renameGate_unfold h
  obtain ⟨hgm, hgl⟩ := find_some_mem hf
  have hold : old ∈ c.labels := hgl ▸ mem_labels_of_mem hgm
  have hnewL : new ∉ c.labels := fun hm => by rw [(hasGate_iff' c new).mpr hm] at hnew; cases hnew
  have hne : new ≠ old := fun e => hnewL (e ▸ hold)
  obtain ⟨r, hrk⟩ := hw.rank
  have hgo : old ∉ g.ops := by
    intro hm
    have := hrk g hgm old hm
    rw [hgl] at this; exact Nat.lt_irrefl _ this
  -- users of `old`
  have husers : ∀ x ∈ c.gates, old ∈ x.ops ↔ x.label ∈ c.usersOf old := by
    intro x hx
    have := hw.usersC old x hx
    constructor
    · intro hm
      have : 0 < (c.usersOf old).count x.label := by rw [this]; exact List.count_pos_iff.mpr hm
      exact List.count_pos_iff.mp this
    · intro hm
      have h1 : 0 < (c.usersOf old).count x.label := List.count_pos_iff.mpr hm
      exact List.count_pos_iff.mp (by omega)
  -- the gates after rewriting the users' operand tuples
  have hg1 : gates1 = c.gates.map (renOps old new) := by
    cases hu : Dict.get? c.users old with
    | none =>
      simp only [hu] at hpr
      rw [hpr.1]
      conv => lhs; rw [← List.map_id c.gates]
      apply List.map_congr_left
      intro x hx
      have : old ∉ x.ops := by
        intro hm
        have := (husers x hx).mp hm
        rw [usersOf_eq, hu] at this
        cases this
      simp [renOps_eq_self this]
    | some us =>
      simp only [hu] at hpr
      rw [hpr.1, gatesFold_eq hne]
      apply List.map_congr_left
      intro x hx
      split
      · rfl
      · rename_i hnc
        have : old ∉ x.ops := by
          intro hm
          have := (husers x hx).mp hm
          rw [usersOf_eq, hu] at this
          exact hnc (by simpa using this)
        exact (renOps_eq_self this).symm
  have hfind1 : gates1.find? (fun x => x.label == old) = some g := by
    rw [hg1, List.find?_map]
    have : ((fun x : Gate => x.label == old) ∘ renOps old new) = (fun x : Gate => x.label == old) := rfl
    rw [this]
    have hf' : c.gates.find? (fun x => x.label == old) = some g := hf
    rw [hf']
    simp [renOps_eq_self hgo]
  simp only [hfind1, Option.getD_some] at hfold hc'
  -- the users index
  have hU := usersFold_spec old new g.ops users1 users2 hfold
  have hcount0 : ∀ l, l ∉ c.labels → g.ops.count l = 0 :=
    fun l hl => List.count_eq_zero.mpr (fun hm => hl (hw.closed g hgm l hm))
  have hU1 : ∀ l, (Dict.get? users1 l).getD [] =
      if l = new then c.usersOf old else if l = old then [] else c.usersOf l := by
    intro l
    cases hu : Dict.get? c.users old with
    | none =>
      simp only [hu] at hpr
      rw [hpr.2]
      by_cases e1 : l = new
      · subst e1
        simp only [if_true]
        rw [← usersOf_eq, usersOf_nonlabel hw hnewL, usersOf_eq, hu]; rfl
      · by_cases e2 : l = old
        · subst e2; simp [e1, hu]
        · simp [e1, e2, usersOf_eq]
    | some us =>
      simp only [hu] at hpr
      rw [hpr.2, Dict.get?_set, get?_erase]
      by_cases e1 : l = new
      · simp [e1, usersOf_eq, hu]
      · by_cases e2 : l = old
        · subst e2
          have : ¬ l = new := e1
          simp [this]
        · simp [e1, e2, usersOf_eq]
  have hUfin : ∀ l, c'.usersOf l = replaceFirstN old new (g.ops.count l)
      (if l = new then c.usersOf old else if l = old then [] else c.usersOf l) := by
    intro l
    rw [usersOf_eq, hc']
    simp only
    rw [hU l, hU1 l]
  have holdU : old ∉ c.usersOf old := by
    intro hm
    have := hw.usersC old g hgm
    rw [hgl] at this
    have h1 : 0 < (c.usersOf old).count old := List.count_pos_iff.mpr hm
    have h2 : g.ops.count old = 0 := List.count_eq_zero.mpr hgo
    omega
  refine ⟨⟨?_, ?_, ?_, ?_, ?_, ?_, ?_⟩, hold, hnewL⟩
  · -- gates
    intro x
    rw [hc']
    simp only [List.mem_append, List.mem_filter, List.mem_singleton, hg1]
    constructor
    · rintro (⟨hx, hxl⟩ | rfl)
      · obtain ⟨y, hy, rfl⟩ := List.mem_map.mp hx
        have hyl : y.label ≠ old := by simpa [renOps] using hxl
        exact ⟨y, hy, (renG_of_ne hyl).symm⟩
      · refine ⟨g, hgm, ?_⟩
        simp [renG, rho, hgl, map_rho_not_mem _ hgo]
    · rintro ⟨y, hy, rfl⟩
      by_cases e : y.label = old
      · right
        have : y = g := by
          have h1 := find_label hw.nodup hy
          rw [e, hf] at h1
          exact (Option.some.inj h1).symm
        subst this
        simp [renG, rho, hgl, map_rho_not_mem _ hgo]
      · left
        rw [renG_of_ne e]
        exact ⟨List.mem_map.mpr ⟨y, hy, rfl⟩, by simpa [renOps] using e⟩
  · -- labels
    rw [hc']
    unfold Circuit.labels
    simp only [List.map_append, List.map_cons, List.map_nil, hg1]
    have hsub : List.Sublist ((List.filter (fun x => !(x.label == old)) (c.gates.map (renOps old new))).map (·.label)) c.labels := by
      have h1 : (c.gates.map (renOps old new)).map (·.label) = c.labels := by
        unfold Circuit.labels; rw [List.map_map]; rfl
      rw [← h1]
      exact (List.filter_sublist).map _
    refine List.nodup_append.mpr ⟨hsub.nodup hw.nodup, by simp, ?_⟩
    intro a ha b hb
    simp only [List.mem_singleton] at hb
    subst hb
    intro e; subst e
    exact hnewL (hsub.subset ha)
  · rw [hc']; exact inputs_renamed hne hw.inputsNodup
  · rw [hc']; exact renameIn_eq old new c.outputs
  · rw [hc']
    simp only
    apply List.map_congr_left
    intro b _
    simp [renB, renameIn_eq]
  · -- users of a renamed label
    intro l hl
    by_cases e : l = old
    · subst e
      have hρ : rho l new l = new := by simp [rho]
      rw [hρ, hUfin new, hcount0 new hnewL]
      simp only [replaceFirstN, if_true]
      exact (map_rho_not_mem _ holdU).symm
    · have hρ : rho old new l = l := by simp [rho, e]
      rw [hρ, hUfin l]
      simp only [hl, e, if_false]
      have hc := hw.usersC l g hgm
      rw [hgl] at hc
      rw [← hc]
      exact replaceFirstN_all hne _
  · rw [hUfin old]
    have : g.ops.count old = 0 := List.count_eq_zero.mpr hgo
    rw [this]
    simp [replaceFirstN, hne.symm]

/-- **`rename_gate` keeps the invariant** -/
theorem renameGate_wfs {c c' : Circuit} {old new : Label} (hw : WFS c) (h : c.renameGate old new = .ok c') : WFS c' := by
  obtain ⟨hr, hold, hnew⟩ := renameGate_renamed hw h
  exact renamed_wfs hw hnew (fun e => hnew (e ▸ hold)) hr

end Cirbo
