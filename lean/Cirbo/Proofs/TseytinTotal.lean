import Cirbo.Proofs.Tseytin
/-!
# `tseytin_transformation` returns on well-formed circuits (the recursion budget is sufficient)
-/
namespace Cirbo
open GateType

/-- a rank bounded by the number of gates: the number of labels of strictly smaller rank -/
def depthOf (c : Circuit) (r : Label → Nat) (l : Label) : Nat := (c.labels.filter (fun x => r x < r l)).length

theorem filter_length_lt_of_imp {α} (p q : α → Bool) (l : List α) (himp : ∀ x ∈ l, p x = true → q x = true)
    (w : α) (hw : w ∈ l) (hq : q w = true) (hp : p w = false) : (l.filter p).length < (l.filter q).length := by
  induction l with
  | nil => cases hw
  | cons x r ih =>
    simp only [List.filter_cons]
    rcases List.mem_cons.mp hw with rfl | hw'
    · rw [hp, hq]
      simp only [Bool.false_eq_true, if_false, if_true, List.length_cons]
      have : (r.filter p).length ≤ (r.filter q).length := by
        clear ih hw
        induction r with
        | nil => simp
        | cons y t iht =>
          simp only [List.filter_cons]
          have hy := himp y (by simp)
          have := iht (fun z hz => himp z (by simp [List.mem_cons] at hz ⊢; rcases hz with h | h <;> simp [h]))
          cases hpy : p y
          · simp only [Bool.false_eq_true, if_false]
            split <;> simp <;> omega
          · rw [hy hpy]; simp; omega
      omega
    · have ih' := ih (fun z hz => himp z (by simp [hz])) hw'
      have hx := himp x (by simp)
      cases hpx : p x
      · simp only [Bool.false_eq_true, if_false]
        split <;> simp <;> omega
      · rw [hx hpx]; simp; omega

theorem depthOf_lt {c : Circuit} {r : Label → Nat} (hr : ∀ g ∈ c.gates, ∀ o ∈ g.ops, r o < r g.label)
    (hcl : ∀ g ∈ c.gates, ∀ o ∈ g.ops, o ∈ c.labels) :
    (∀ g ∈ c.gates, ∀ o ∈ g.ops, depthOf c r o < depthOf c r g.label) ∧ ∀ l, depthOf c r l ≤ c.labels.length := by
  constructor
  · intro g hg o ho
    unfold depthOf
    have hro := hr g hg o ho
    apply filter_length_lt_of_imp _ _ _ _ o (hcl g hg o ho)
    · simpa using hro
    · simp
    · intro x _ hx
      simp only [decide_eq_true_eq] at hx ⊢
      omega
  · intro l; unfold depthOf; exact List.length_filter_le _ _

theorem processOps_total {c : Circuit} {pg : Label → TsSt → Except String (TsSt × Nat)} (hpg : PGSpec c pg) {us : List Nat} :
    ∀ (ops : List Label) (st : TsSt), TsInv c st us →
    (∀ o ∈ ops, ∀ st, TsInv c st us → ∃ st' k, pg o st = .ok (st', k)) →
    ∃ st' ks, processOps pg ops st = .ok (st', ks) := by
  intro ops
  induction ops with
  | nil => intro st _ _; exact ⟨st, [], rfl⟩
  | cons o r ih =>
    intro st inv hall
    obtain ⟨st1, k, h1⟩ := hall o (by simp) st inv
    obtain ⟨inv1, _, _⟩ := hpg o st st1 k us inv h1
    obtain ⟨st2, ks, h2⟩ := ih st1 inv1 (fun o' ho' => hall o' (by simp [ho']))
    exact ⟨st2, k :: ks, by unfold processOps; simp [h1, h2]⟩

theorem processGate_total {c : Circuit} (h : WF c) {d : Label → Nat}
    (hd : ∀ g ∈ c.gates, ∀ o ∈ g.ops, d o < d g.label) {us : List Nat} :
    ∀ (fuel : Nat) (l : Label) (st : TsSt), l ∈ c.labels → d l < fuel → TsInv c st us →
    ∃ st' k, processGate c fuel l st = .ok (st', k) := by
  intro fuel
  induction fuel with
  | zero => intro l st _ hlt; omega
  | succ fuel ih =>
    intro l st hl hlt inv
    unfold processGate
    cases hlk : st.lits.get? l with
    | some k0 => exact ⟨st, k0, rfl⟩
    | none =>
      simp only
      obtain ⟨g, hg, hgl⟩ := gate_of_label hl
      have hf : c.find? l = some g := hgl ▸ find_label h.nodup hg
      simp only [hf]
      have hty : g.ty ≠ INPUT := by
        intro hty
        have : l ∈ c.inputs := (h.inputsOK l).mpr ⟨g, hg, hgl, hty⟩
        have := inv.inputs l this
        simp [hlk] at this
      have har : arityOk g.ty g.ops.length = true := by
        have := h.arity g hg; simpa [hty] using this
      obtain ⟨st1, ks, hops⟩ := processOps_total (processGate_spec h fuel) g.ops st inv (by
        intro o ho st' inv'
        have := hd g hg o ho
        rw [hgl] at this
        exact ih o st' (h.closed g hg o ho) (by omega) inv')
      simp only [hops]
      obtain ⟨inv1, e1, hks⟩ := processOps_spec (processGate_spec h fuel) g.ops st st1 ks us inv hops
      have hlen : ks.length = g.ops.length := by
        have := congrArg List.length hks; simpa using this.symm
      have hkpos : ∀ k ∈ ks, 1 ≤ k := by
        intro k hk
        obtain ⟨i, hi, rfl⟩ := List.mem_iff_getElem.mp hk
        have hio : i < g.ops.length := by omega
        have : st1.lits.get? g.ops[i] = some ks[i] := by
          have := congrArg (fun l => l[i]?) hks
          simp [hio, hi] at this
          exact this
        exact (inv1.range _ _ this).1
      have htemp : ∀ top : Nat, 1 ≤ top → ∃ cls, tsTemplate g.ty (Int.ofNat top) (ks.map Int.ofNat) = some cls := by
        intro top htop
        obtain ⟨cls, hc, _⟩ := tsTemplate_exact g.ty (Int.ofNat top) (ks.map Int.ofNat) (by simp; omega)
          (by
            intro x hx
            obtain ⟨k, hk, rfl⟩ := List.mem_map.mp hx
            have := hkpos k hk
            simp; omega) hty (by simpa [hlen] using har)
        exact ⟨cls, hc⟩
      cases hl1 : st1.lits.get? l with
      | some k0 =>
        simp only
        obtain ⟨cls, hc⟩ := htemp k0 (inv1.range l k0 hl1).1
        simp only [hc]
        exact ⟨_, _, rfl⟩
      | none =>
        simp only
        obtain ⟨cls, hc⟩ := htemp (st1.next + 1) (by omega)
        simp only [hc]
        exact ⟨_, _, rfl⟩

theorem tsOutputs_total {c : Circuit} (h : WF c) : ∀ (outs : List Nat) (st : TsSt) (us : List Nat),
    (∀ i ∈ outs, i < c.outputs.length) → TsInv c st us → ∃ st', tsOutputs c outs st = .ok st' := by
  obtain ⟨r, hr⟩ := h.rank
  obtain ⟨d1, d2⟩ := depthOf_lt hr h.closed
  intro outs
  induction outs with
  | nil => intro st us _ _; exact ⟨st, rfl⟩
  | cons i rest ih =>
    intro st us hidx inv
    unfold tsOutputs
    have hi := hidx i (by simp)
    rw [List.getElem?_eq_getElem hi]
    simp only
    have hol : c.outputs[i] ∈ c.labels := h.outputsOK _ (List.getElem_mem hi)
    have hlen : c.labels.length = c.gates.length := by simp [Circuit.labels]
    obtain ⟨st1, k, hp⟩ := processGate_total h d1 (c.gates.length + 1) c.outputs[i] st hol
      (by have := d2 c.outputs[i]; omega) inv
    simp only [hp]
    -- the state after the unit clause still satisfies the invariant
    have hone : tsOutputs c [i] st = .ok ⟨st1.lits, st1.next, st1.cnf ++ [[Int.ofNat k]]⟩ := by
      unfold tsOutputs
      rw [List.getElem?_eq_getElem hi]
      simp only [hp, tsOutputs]
    obtain ⟨ks, inv1, _, _⟩ := tsOutputs_spec h [i] st _ us inv hone
    exact ih _ (us ++ ks) (fun j hj => hidx j (by simp [hj])) inv1

/-- **the transformation returns**: on a well-formed circuit, for every selection of existing output
indices (or all outputs), `tseytin_transformation` raises nothing — in particular its recursion depth
never exceeds the number of gates -/
theorem tseytin_total {c : Circuit} (h : WF c) (outs : Option (List Nat))
    (hidx : ∀ l, outs = some l → ∀ i ∈ l, i < c.outputs.length) :
    ∃ cnf lits, tseytin c outs = .ok (cnf, lits) := by
  unfold tseytin
  obtain ⟨inv0, _⟩ := tsInit_spec h
  obtain ⟨st, hst⟩ := tsOutputs_total h (outs.getD (List.range c.outputs.length)) (tsInit c) [] (by
    intro i hi
    cases outs with
    | none => simpa using hi
    | some l => exact hidx l rfl i hi) inv0
  rw [hst]
  exact ⟨_, _, rfl⟩

end Cirbo
