import Cirbo.Model.Pattern
/-!
# Pattern simulation is bitwise evaluation
-/
namespace Cirbo
namespace Pattern
open GateType

/-- partial sums `Σ_{i<N} f(i)·2^i` with `f(i) ∈ {0,1}`: below `2^N`, bit `i` is `f(i)` -/
theorem bitsum_spec (f : Nat → Nat) (hf : ∀ i, f i ≤ 1) : ∀ N,
    (List.range N).foldl (fun acc i => acc + (f i) <<< i) 0 < 2 ^ N ∧
    ∀ i, i < N → ((List.range N).foldl (fun acc i => acc + (f i) <<< i) 0).testBit i = decide (f i = 1) := by
  intro N
  induction N with
  | zero => simp
  | succ N ih =>
    obtain ⟨h1, h2⟩ := ih
    rw [List.range_succ, List.foldl_append]
    simp only [List.foldl_cons, List.foldl_nil, Nat.shiftLeft_eq]
    generalize hS : (List.range N).foldl (fun acc i => acc + f i * 2 ^ i) 0 = S at *
    have hS' : (List.range N).foldl (fun acc i => acc + (f i) <<< i) 0 = S := by
      rw [← hS]; congr 1; funext acc i; rw [Nat.shiftLeft_eq]
    rw [hS'] at h1 h2
    have hfN := hf N
    constructor
    · rw [Nat.pow_succ]
      have : f N * 2 ^ N ≤ 2 ^ N := by
        rcases Nat.le_one_iff_eq_zero_or_eq_one.mp hfN with h | h <;> simp [h]
      omega
    · intro i hi
      have key := Nat.testBit_two_pow_mul_add (f N) h1 i
      rw [Nat.mul_comm, Nat.add_comm] at key
      rw [key]
      by_cases hlt : i < N
      · simp only [hlt, if_true]; exact h2 i hlt
      · have : i = N := by omega
        subst this
        simp only [Nat.lt_irrefl, if_false, Nat.sub_self]
        rcases Nat.le_one_iff_eq_zero_or_eq_one.mp hfN with h | h <;> simp [h]

/-- **`_generate_inputs_tt`**: bit `i` of leaf `j`'s pattern is bit `j` of `i` -/
theorem leafPattern_testBit (size j i : Nat) (hi : i < 2 ^ size) :
    (leafPattern size j).testBit i = i.testBit j ∧ leafPattern size j < 2 ^ (2 ^ size) := by
  obtain ⟨h1, h2⟩ := bitsum_spec (fun i => (i >>> j) % 2) (fun i => by omega) (2 ^ size)
  refine ⟨?_, h1⟩
  unfold leafPattern
  rw [h2 i hi]
  simp only [Nat.testBit, Nat.and_one_is_mod, bne_iff_ne, ne_eq]
  have : (i >>> j) % 2 = 0 ∨ (i >>> j) % 2 = 1 := by omega
  rcases this with h | h <;> simp [h]

/-! ## `eval_pattern` -/

theorem testBit_compl {x n i : Nat} (hx : x < 2 ^ n) (hi : i < n) : (2 ^ n - 1 - x).testBit i = !x.testBit i := by
  have := Nat.testBit_two_pow_sub_succ hx i
  rw [show 2 ^ n - 1 - x = 2 ^ n - (x + 1) by omega, this]
  simp [hi]

theorem compl_lt {x n : Nat} : 2 ^ n - 1 - x < 2 ^ n := by
  have : 0 < 2 ^ n := Nat.two_pow_pos n
  omega

/-- value of a pattern list at leaf assignment `i` -/
def bitsAt (ops : List Nat) (i : Nat) : List Bool := ops.map (·.testBit i)

theorem foldl_and_spec (i n : Nat) : ∀ (ops : List Nat) (a : Nat), a < 2 ^ n →
    (ops.foldl (· &&& ·) a).testBit i = (ops.foldl (fun acc x => acc && x.testBit i) (a.testBit i)) ∧
    ops.foldl (· &&& ·) a < 2 ^ n := by
  intro ops
  induction ops with
  | nil => intro a ha; exact ⟨rfl, ha⟩
  | cons x r ih =>
    intro a ha
    simp only [List.foldl_cons]
    have hlt : a &&& x < 2 ^ n := Nat.lt_of_le_of_lt Nat.and_le_left ha
    obtain ⟨h1, h2⟩ := ih _ hlt
    exact ⟨by rw [h1, Nat.testBit_and], h2⟩

theorem foldl_or_spec (i n : Nat) : ∀ (ops : List Nat) (a : Nat), a < 2 ^ n → (∀ x ∈ ops, x < 2 ^ n) →
    (ops.foldl (· ||| ·) a).testBit i = (ops.foldl (fun acc x => acc || x.testBit i) (a.testBit i)) ∧
    ops.foldl (· ||| ·) a < 2 ^ n := by
  intro ops
  induction ops with
  | nil => intro a ha _; exact ⟨rfl, ha⟩
  | cons x r ih =>
    intro a ha hx
    simp only [List.foldl_cons]
    have hlt : a ||| x < 2 ^ n := Nat.or_lt_two_pow ha (hx x (by simp))
    obtain ⟨h1, h2⟩ := ih _ hlt (fun y hy => hx y (by simp [hy]))
    exact ⟨by rw [h1, Nat.testBit_or], h2⟩

theorem foldl_xor_spec (i n : Nat) : ∀ (ops : List Nat) (a : Nat), a < 2 ^ n → (∀ x ∈ ops, x < 2 ^ n) →
    (ops.foldl (· ^^^ ·) a).testBit i = (ops.foldl (fun acc x => acc ^^ x.testBit i) (a.testBit i)) ∧
    ops.foldl (· ^^^ ·) a < 2 ^ n := by
  intro ops
  induction ops with
  | nil => intro a ha _; exact ⟨rfl, ha⟩
  | cons x r ih =>
    intro a ha hx
    simp only [List.foldl_cons]
    have hlt : a ^^^ x < 2 ^ n := Nat.xor_lt_two_pow ha (hx x (by simp))
    obtain ⟨h1, h2⟩ := ih _ hlt (fun y hy => hx y (by simp [hy]))
    exact ⟨by rw [h1, Nat.testBit_xor], h2⟩

theorem foldl_and_all (l : List Bool) (a : Bool) : l.foldl (· && ·) a = (a && l.all id) := by
  induction l generalizing a with
  | nil => simp
  | cons x r ih => simp [ih, Bool.and_assoc]

theorem foldl_or_any (l : List Bool) (a : Bool) : l.foldl (· || ·) a = (a || l.any id) := by
  induction l generalizing a with
  | nil => simp
  | cons x r ih => simp [ih, Bool.or_assoc]

theorem foldl_xor_xorAll (l : List Bool) (a : Bool) : l.foldl (· ^^ ·) a = (a ^^ xorAll l) := by
  induction l generalizing a with
  | nil => simp [xorAll]
  | cons x r ih => simp [ih, xorAll, Bool.xor_assoc]

theorem foldl_map_bits (f : Bool → Bool → Bool) (i : Nat) (ops : List Nat) (a : Bool) :
    ops.foldl (fun acc x => f acc (x.testBit i)) a = (ops.map (·.testBit i)).foldl f a := by
  induction ops generalizing a with
  | nil => rfl
  | cons x r ih => simp [ih]

/-- **`eval_pattern` is bitwise evaluation**: for every supported gate type at an accepted arity
(n-ary AND/OR/XOR and their negations included), bit `i` of the result is the gate's Boolean
function applied to bit `i` of the operand patterns, for every leaf assignment `i` -/
theorem evalPattern_sound (k : Nat) (ty : GateType) (ops : List Nat) (p : Nat)
    (h : evalPattern k ty ops = .ok p) (hops : ∀ x ∈ ops, x < 2 ^ (2 ^ k)) (har : arityOk ty ops.length = true) :
    p < 2 ^ (2 ^ k) ∧ ∀ i, i < 2 ^ k → bfun ty (bitsAt ops i) = some (p.testBit i) := by
  have hmx : maxPattern k = 2 ^ (2 ^ k) - 1 := rfl
  cases ty <;> simp only [evalPattern, hmx] at h <;> try (cases h)
  case NOT =>
    rcases ops with _ | ⟨a, _ | ⟨b, r⟩⟩ <;> simp [arityOk] at har
    simp only [Except.ok.injEq] at h; subst h
    have ha := hops a (by simp)
    exact ⟨compl_lt, fun i hi => by simp [bitsAt, bfun, testBit_compl ha hi]⟩
  case AND =>
    rcases ops with _ | ⟨a, _ | ⟨b, r⟩⟩ <;> simp [arityOk] at har
    simp only [reduce1, Except.ok.injEq] at h; subst h
    obtain ⟨_, h2⟩ := foldl_and_spec 0 (2 ^ k) (b :: r) a (hops a (by simp))
    refine ⟨h2, fun i _ => ?_⟩
    rw [(foldl_and_spec i (2 ^ k) (b :: r) a (hops a (by simp))).1, foldl_map_bits (· && ·), foldl_and_all]
    simp [bitsAt, bfun]
  case NAND =>
    rcases ops with _ | ⟨a, _ | ⟨b, r⟩⟩ <;> simp [arityOk] at har
    simp only [reduce1, Except.map, Except.ok.injEq] at h; subst h
    obtain ⟨_, h2⟩ := foldl_and_spec 0 (2 ^ k) (b :: r) a (hops a (by simp))
    refine ⟨compl_lt, fun i hi => ?_⟩
    rw [testBit_compl h2 hi, (foldl_and_spec i (2 ^ k) (b :: r) a (hops a (by simp))).1, foldl_map_bits (· && ·), foldl_and_all]
    simp [bitsAt, bfun]
  case OR =>
    rcases ops with _ | ⟨a, _ | ⟨b, r⟩⟩ <;> simp [arityOk] at har
    simp only [reduce1, Except.ok.injEq] at h; subst h
    have hr : ∀ x ∈ b :: r, x < 2 ^ (2 ^ k) := fun x hx => hops x (by simp at hx ⊢; exact Or.inr hx)
    obtain ⟨_, h2⟩ := foldl_or_spec 0 (2 ^ k) (b :: r) a (hops a (by simp)) hr
    refine ⟨h2, fun i _ => ?_⟩
    rw [(foldl_or_spec i (2 ^ k) (b :: r) a (hops a (by simp)) hr).1, foldl_map_bits (· || ·), foldl_or_any]
    simp [bitsAt, bfun]
  case NOR =>
    rcases ops with _ | ⟨a, _ | ⟨b, r⟩⟩ <;> simp [arityOk] at har
    simp only [reduce1, Except.map, Except.ok.injEq] at h; subst h
    have hr : ∀ x ∈ b :: r, x < 2 ^ (2 ^ k) := fun x hx => hops x (by simp at hx ⊢; exact Or.inr hx)
    obtain ⟨_, h2⟩ := foldl_or_spec 0 (2 ^ k) (b :: r) a (hops a (by simp)) hr
    refine ⟨compl_lt, fun i hi => ?_⟩
    rw [testBit_compl h2 hi, (foldl_or_spec i (2 ^ k) (b :: r) a (hops a (by simp)) hr).1, foldl_map_bits (· || ·), foldl_or_any]
    simp [bitsAt, bfun]
  case XOR =>
    rcases ops with _ | ⟨a, _ | ⟨b, r⟩⟩ <;> simp [arityOk] at har
    simp only [reduce1, Except.ok.injEq] at h; subst h
    have hr : ∀ x ∈ b :: r, x < 2 ^ (2 ^ k) := fun x hx => hops x (by simp at hx ⊢; exact Or.inr hx)
    obtain ⟨_, h2⟩ := foldl_xor_spec 0 (2 ^ k) (b :: r) a (hops a (by simp)) hr
    refine ⟨h2, fun i _ => ?_⟩
    rw [(foldl_xor_spec i (2 ^ k) (b :: r) a (hops a (by simp)) hr).1, foldl_map_bits (· ^^ ·), foldl_xor_xorAll]
    simp [bitsAt, bfun, xorAll]
  case NXOR =>
    rcases ops with _ | ⟨a, _ | ⟨b, r⟩⟩ <;> simp [arityOk] at har
    simp only [reduce1, Except.map, Except.ok.injEq] at h; subst h
    have hr : ∀ x ∈ b :: r, x < 2 ^ (2 ^ k) := fun x hx => hops x (by simp at hx ⊢; exact Or.inr hx)
    obtain ⟨_, h2⟩ := foldl_xor_spec 0 (2 ^ k) (b :: r) a (hops a (by simp)) hr
    refine ⟨compl_lt, fun i hi => ?_⟩
    rw [testBit_compl h2 hi, (foldl_xor_spec i (2 ^ k) (b :: r) a (hops a (by simp)) hr).1, foldl_map_bits (· ^^ ·), foldl_xor_xorAll]
    simp [bitsAt, bfun, xorAll]
  case GEQ =>
    rcases ops with _ | ⟨a, _ | ⟨b, _ | ⟨c, r⟩⟩⟩ <;> simp [arityOk] at har
    simp only [op2, Except.ok.injEq] at h; subst h
    have ha := hops a (by simp); have hb := hops b (by simp)
    refine ⟨Nat.or_lt_two_pow ha compl_lt, fun i hi => ?_⟩
    simp [bitsAt, bfun, Nat.testBit_or, testBit_compl hb hi]
  case LEQ =>
    rcases ops with _ | ⟨a, _ | ⟨b, _ | ⟨c, r⟩⟩⟩ <;> simp [arityOk] at har
    simp only [op2, Except.ok.injEq] at h; subst h
    have ha := hops a (by simp); have hb := hops b (by simp)
    refine ⟨Nat.or_lt_two_pow compl_lt hb, fun i hi => ?_⟩
    simp [bitsAt, bfun, Nat.testBit_or, testBit_compl ha hi]
  case LT =>
    rcases ops with _ | ⟨a, _ | ⟨b, _ | ⟨c, r⟩⟩⟩ <;> simp [arityOk] at har
    simp only [op2, Except.ok.injEq] at h; subst h
    have ha := hops a (by simp); have hb := hops b (by simp)
    have hin : a ||| (2 ^ (2 ^ k) - 1 - b) < 2 ^ (2 ^ k) := Nat.or_lt_two_pow ha compl_lt
    refine ⟨compl_lt, fun i hi => ?_⟩
    simp [bitsAt, bfun, testBit_compl hin hi, Nat.testBit_or, testBit_compl hb hi]
  case GT =>
    rcases ops with _ | ⟨a, _ | ⟨b, _ | ⟨c, r⟩⟩⟩ <;> simp [arityOk] at har
    simp only [op2, Except.ok.injEq] at h; subst h
    have ha := hops a (by simp); have hb := hops b (by simp)
    have hin : (2 ^ (2 ^ k) - 1 - a) ||| b < 2 ^ (2 ^ k) := Nat.or_lt_two_pow compl_lt hb
    refine ⟨compl_lt, fun i hi => ?_⟩
    simp [bitsAt, bfun, testBit_compl hin hi, Nat.testBit_or, testBit_compl ha hi]

end Pattern
end Cirbo
