import Cirbo.Proofs.GenCostX
/-!
# The documented bound `4.5·n − 2·m` of `add_sum_n_weighted_bits` (XAIG) fails: a concrete run
(kernel evaluation of the model on 35 inputs; this file takes a few minutes to check)
-/
namespace Cirbo
open GateType

/-- weights 0,0,0,0, 1,1,1,1, 2,2,2, 3,3,3, …, 10,10,10 -/
def badWeights : List Nat := [0, 0, 0, 0, 1, 1, 1, 1] ++ (List.range 9).flatMap (fun l => [l + 2, l + 2, l + 2])
def badInputs : List Label := (List.range 35).map (fun i => "x" ++ toString i)
def badHost : Circuit := ⟨badInputs.map (fun l => ⟨l, INPUT, []⟩), badInputs, [], [], []⟩

/-- (gates added, result bits) of the run on the bare 35-input circuit -/
def badRun : Option (Nat × Nat) :=
  match (addSumWeighted (badWeights.zip badInputs) (.enum .xaig)).run ⟨badHost, 0⟩ with
  | .ok (r, st') => some (st'.c.gates.length - badHost.gates.length, r.length)
  | .error _ => none

set_option maxRecDepth 100000 in
theorem badRun_eq : badRun = some (132, 13) := by decide +kernel

/-- **the documented bound is false**: there is a run of `add_sum_n_weighted_bits` in XAIG with
`n = 35` operands and `m = 13` result bits that adds 132 gates, and `132 > 4.5·35 − 2·13 = 131.5` -/
theorem weighted_xaig_documented_bound_fails :
    ∃ (ins : List (Nat × Label)) (st st' : GSt) (r : List (Nat × Label)),
      (addSumWeighted ins (.enum .xaig)).run st = .ok (r, st') ∧
      9 * ins.length < 2 * (st'.c.gates.length - st.c.gates.length) + 4 * r.length := by
  have h := badRun_eq
  unfold badRun at h
  cases hr : (addSumWeighted (badWeights.zip badInputs) (.enum .xaig)).run ⟨badHost, 0⟩ with
  | error e => rw [hr] at h; cases h
  | ok pr =>
    obtain ⟨r, st'⟩ := pr
    rw [hr] at h
    simp only [Option.some.injEq, Prod.mk.injEq] at h
    refine ⟨_, _, _, _, hr, ?_⟩
    have hl : (badWeights.zip badInputs).length = 35 := by decide
    rw [hl]
    simp only at h ⊢
    omega

end Cirbo
