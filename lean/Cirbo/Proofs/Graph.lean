import Cirbo.Proofs.TopSort
/-! `WFU c` makes both Kahn graphs of `c` well formed; consequences for `Circuit.topSort`. -/
namespace Cirbo

/-- exactly what the Kahn proof needs from a circuit -/
structure WFG (c : Circuit) : Prop where
  nodup : c.labels.Nodup
  closed : ∀ g ∈ c.gates, ∀ o ∈ g.ops, o ∈ c.labels
  rank : ∃ r : Label → Nat, ∀ g ∈ c.gates, ∀ o ∈ g.ops, r o < r g.label
  usersL : ∀ l s, s ∈ c.usersOf l → s ∈ c.labels
  usersC : ∀ l, ∀ g ∈ c.gates, (c.usersOf l).count g.label = g.ops.count l

theorem WFU.toWFG {c : Circuit} (h : WFU c) : WFG c := ⟨h.nodup, h.closed, h.rank, h.usersL, h.usersC⟩

theorem find_label {c : Circuit} (h : c.labels.Nodup) {g : Gate} (hg : g ∈ c.gates) :
    c.find? g.label = some g := by
  unfold Circuit.find?
  cases hf : c.gates.find? (fun g' => g'.label == g.label) with
  | none =>
    have := List.find?_eq_none.mp hf g hg
    simp at this
  | some g' =>
    have hm := List.mem_of_find?_eq_some hf
    have hp := List.find?_some hf
    simp only [beq_iff_eq] at hp
    rw [gate_unique h hm hg hp]

theorem find_none {c : Circuit} {l : Label} (hl : l ∉ c.labels) : c.find? l = none := by
  unfold Circuit.find?
  apply List.find?_eq_none.mpr
  intro g hg hgl
  simp only [beq_iff_eq] at hgl
  exact hl (by simpa [Circuit.labels] using ⟨g, hg, hgl⟩)

theorem find_some_mem {c : Circuit} {l : Label} {g : Gate} (h : c.find? l = some g) :
    g ∈ c.gates ∧ g.label = l := by
  unfold Circuit.find? at h
  exact ⟨List.mem_of_find?_eq_some h, by simpa using List.find?_some h⟩

theorem opsOf_gate {c : Circuit} (h : c.labels.Nodup) {g : Gate} (hg : g ∈ c.gates) :
    c.opsOf g.label = g.ops := by
  simp [Circuit.opsOf, find_label h hg]

theorem opsOf_not_mem {c : Circuit} {l : Label} (hl : l ∉ c.labels) : c.opsOf l = [] := by
  simp [Circuit.opsOf, find_none hl]

theorem mem_labels_of_mem {c : Circuit} {g : Gate} (hg : g ∈ c.gates) : g.label ∈ c.labels := by
  simpa [Circuit.labels] using ⟨g, hg, rfl⟩

theorem graphInv_wf {c : Circuit} (h : WFG c) : GWF c.graphInv := by
  refine ⟨h.nodup, ?_, ?_, ?_, ?_⟩
  · intro l hl p hp
    obtain ⟨g, hg, rfl⟩ := gate_of_label hl
    simp only [Circuit.graphInv, opsOf_gate h.nodup hg] at hp
    exact h.closed g hg p hp
  · intro l s hs; exact h.usersL l s hs
  · intro l s hs
    obtain ⟨g, hg, rfl⟩ := gate_of_label hs
    simp only [Circuit.graphInv, opsOf_gate h.nodup hg]
    exact h.usersC l g hg
  · obtain ⟨r, hr⟩ := h.rank
    refine ⟨r, ?_⟩
    intro l hl p hp
    obtain ⟨g, hg, rfl⟩ := gate_of_label hl
    simp only [Circuit.graphInv, opsOf_gate h.nodup hg] at hp
    exact hr g hg p hp

theorem le_sum_of_mem (r : Label → Nat) : ∀ (ls : List Label) (x : Label), x ∈ ls →
    r x ≤ (ls.map r).sum
  | [], _, h => by cases h
  | y :: ys, x, h => by
    simp only [List.mem_cons] at h
    simp only [List.map_cons, List.sum_cons]
    rcases h with rfl | h
    · omega
    · have := le_sum_of_mem r ys x h; omega

theorem graphDir_wf {c : Circuit} (h : WFG c) : GWF c.graphDir := by
  refine ⟨h.nodup, ?_, ?_, ?_, ?_⟩
  · intro l _ p hp; exact h.usersL l p hp
  · intro l s hs
    by_cases hl : l ∈ c.labels
    · obtain ⟨g, hg, rfl⟩ := gate_of_label hl
      simp only [Circuit.graphDir, opsOf_gate h.nodup hg] at hs
      exact h.closed g hg s hs
    · simp [Circuit.graphDir, opsOf_not_mem hl] at hs
  · intro l s hs
    by_cases hl : l ∈ c.labels
    · obtain ⟨g, hg, rfl⟩ := gate_of_label hl
      simp only [Circuit.graphDir, opsOf_gate h.nodup hg]
      exact (h.usersC s g hg).symm
    · simp only [Circuit.graphDir, opsOf_not_mem hl, List.count_nil]
      symm
      apply List.count_eq_zero.mpr
      intro hm; exact hl (h.usersL s l hm)
  · obtain ⟨r, hr⟩ := h.rank
    refine ⟨fun x => (c.labels.map r).sum - r x, ?_⟩
    intro l hl p hp
    have hpL := h.usersL l p hp
    obtain ⟨gp, hgp, rfl⟩ := gate_of_label hpL
    have hcnt : 1 ≤ gp.ops.count l := by
      rw [← h.usersC l gp hgp]; exact List.count_pos_iff.mpr hp
    have hl_in : l ∈ gp.ops := List.count_pos_iff.mp hcnt
    have h1 := hr gp hgp l hl_in
    have h2 := le_sum_of_mem r c.labels gp.label hpL
    simp only [Circuit.graphDir]
    omega

theorem kahn_nil_of_queue_nil (G : Graph) (hq : (initState G).queue = []) : kahn G = [] := by
  have hk : kstep G (initState G) = none := by unfold kstep; rw [hq]; rfl
  unfold kahn
  cases G.nodes.length with
  | zero => rfl
  | succ n => simp only [kahnLoop, hk]; rfl

/-- **C20 (topological iteration)**, direction inputs→outputs: on a well-formed circuit
`top_sort(inverse=True)` does not raise and yields every gate exactly once, each after all of
its operands. -/
theorem topSort_inv_spec {c : Circuit} (h : WFG c) :
    ∃ order, c.topSort true = .ok order ∧ order.Perm c.labels ∧
      ∀ pre l post, order = pre ++ l :: post → ∀ g ∈ c.gates, g.label = l → ∀ o ∈ g.ops, o ∈ pre := by
  have hG := graphInv_wf h
  unfold Circuit.topSort
  simp only [if_true]
  by_cases he : c.gates.isEmpty
  · refine ⟨[], by simp [he], ?_, ?_⟩
    · have : c.gates = [] := by simpa using he
      simp [Circuit.labels, this]
    · intro pre l post hs; simp at hs
  · simp only [he, Bool.false_eq_true, if_false]
    have hperm := kahn_perm hG
    by_cases hq : (initState c.graphInv).queue.isEmpty
    · -- impossible: then Kahn outputs nothing, but the circuit is not empty
      exfalso
      have hq' : (initState c.graphInv).queue = [] := by simpa using hq
      have : kahn c.graphInv = [] := kahn_nil_of_queue_nil _ hq'
      rw [this] at hperm
      have : c.graphInv.nodes = [] := List.Perm.nil_eq hperm ▸ rfl
      have hg : c.gates = [] := by simpa [Circuit.graphInv, Circuit.labels] using this
      simp [hg] at he
    · simp only [hq, Bool.false_eq_true, if_false]
      refine ⟨kahn c.graphInv, rfl, hperm, ?_⟩
      intro pre l post hs g hg hgl o ho
      have := kahn_order hG pre post l hs o
      apply this
      subst hgl
      simpa [Circuit.graphInv, opsOf_gate h.nodup hg] using ho

/-- direction outputs→inputs: every gate exactly once, each after all of its users (so before
all of its operands). -/
theorem topSort_dir_spec {c : Circuit} (h : WFG c) :
    ∃ order, c.topSort false = .ok order ∧ order.Perm c.labels ∧
      ∀ pre l post, order = pre ++ l :: post → ∀ u ∈ c.usersOf l, u ∈ pre := by
  have hG := graphDir_wf h
  unfold Circuit.topSort
  simp only [Bool.false_eq_true, if_false]
  by_cases he : c.gates.isEmpty
  · refine ⟨[], by simp [he], ?_, ?_⟩
    · have : c.gates = [] := by simpa using he
      simp [Circuit.labels, this]
    · intro pre l post hs; simp at hs
  · simp only [he, Bool.false_eq_true, if_false]
    have hperm := kahn_perm hG
    by_cases hq : (initState c.graphDir).queue.isEmpty
    · exfalso
      have hq' : (initState c.graphDir).queue = [] := by simpa using hq
      have : kahn c.graphDir = [] := kahn_nil_of_queue_nil _ hq'
      rw [this] at hperm
      have : c.graphDir.nodes = [] := List.Perm.nil_eq hperm ▸ rfl
      have hg : c.gates = [] := by simpa [Circuit.graphDir, Circuit.labels] using this
      simp [hg] at he
    · simp only [hq, Bool.false_eq_true, if_false]
      refine ⟨kahn c.graphDir, rfl, hperm, ?_⟩
      intro pre l post hs u hu
      exact kahn_order hG pre post l hs u hu

end Cirbo
