import Cirbo.Proofs.Mutate
import Cirbo.Proofs.Convert
import Cirbo.Proofs.Ops
/-!
# Frame lemma: adding gates never changes the function of pre-existing gates
(used for the host-circuit clauses of C07–C09, for C10 and C13)
-/
namespace Cirbo
open GateType Circuit

theorem bfun_isSome_of_arityOk (ty : GateType) (xs : List Bool) (h : arityOk ty xs.length = true) :
    ∃ r, bfun ty xs = some r := by
  have h1 := applyOp_isSome_iff ty (xs.map V3.ofBool)
  rw [List.length_map, h, applyOp_ofBool] at h1
  cases hb : bfun ty xs with
  | none => rw [hb] at h1; simp at h1
  | some r => exact ⟨r, rfl⟩

/-- a circuit state that extends `c` without disturbing it: more gates, same values on old gates -/
structure Extends (c cur : Circuit) (b v b' v' : Label → Bool) : Prop where
  val : IsValB cur b' v'
  agreeV : ∀ l ∈ c.labels, v' l = v l
  agreeB : ∀ l ∈ c.labels, b' l = b l
  sub : ∀ l ∈ c.labels, l ∈ cur.labels
  closed : ∀ g ∈ cur.gates, ∀ o ∈ g.ops, o ∈ cur.labels

/-- **Frame lemma for `add_gate`/`emplace_gate`**: the new gate gets a value, every old gate keeps
its value.  (`bnew` = the value the input assignment gives to the new label if it is an INPUT.) -/
theorem addGate_frame {c cur cur' : Circuit} {g : Gate} {b v b' v' : Label → Bool}
    (hext : Extends c cur b v b' v') (hadd : cur.addGate g = .ok cur')
    (har : if g.ty = INPUT then True else arityOk g.ty g.ops.length = true) (bnew : Bool) :
    ∃ b'' v'', Extends c cur' b v b'' v'' ∧ (∀ l ∈ cur.labels, v'' l = v' l) ∧
      (∀ l, l ≠ g.label → b'' l = b' l) ∧ b'' g.label = bnew := by
  obtain ⟨hfresh, hops, hg, _, _, _, _⟩ := addGate_fields hadd
  have hlab : cur'.labels = cur.labels ++ [g.label] := by unfold labels; rw [hg]; simp
  have hold : ∀ x ∈ cur.gates, x.label ≠ g.label ∧ g.label ∉ x.ops := by
    intro x hx
    exact ⟨fun e => hfresh (e ▸ mem_labels_of_mem hx), fun hm => hfresh (hext.closed x hx _ hm)⟩
  -- value of the new gate
  obtain ⟨x, hx⟩ : ∃ x, if g.ty = INPUT then x = bnew else bfun g.ty (g.ops.map v') = some x := by
    by_cases ht : g.ty = INPUT
    · exact ⟨bnew, by simp [ht]⟩
    · simp only [ht, if_false] at har ⊢
      obtain ⟨r, hr⟩ := bfun_isSome_of_arityOk g.ty (g.ops.map v') (by simpa using har)
      exact ⟨r, hr⟩
  refine ⟨updV b' g.label bnew, updV v' g.label x, ⟨?_, ?_, ?_, ?_, ?_⟩, ?_, ?_, ?_⟩
  · intro y hy
    rw [hg] at hy
    simp only [List.mem_append, List.mem_singleton] at hy
    rcases hy with hy | rfl
    · obtain ⟨h1, h2⟩ := hold y hy
      have := hext.val y hy
      have hmap : y.ops.map (updV v' g.label x) = y.ops.map v' := by
        apply List.map_congr_left; intro o ho
        have : o ≠ g.label := fun e => h2 (e ▸ ho)
        simp [updV, this]
      by_cases ht : y.ty = INPUT
      · simp only [ht, if_true] at this ⊢; simp [updV, h1, this]
      · simp only [ht, if_false] at this ⊢; rw [hmap, this]; simp [updV, h1]
    · have hmap : y.ops.map (updV v' y.label x) = y.ops.map v' := by
        apply List.map_congr_left; intro o ho
        have : o ≠ y.label := fun e => hfresh (e ▸ hops o ho)
        simp [updV, this]
      by_cases ht : y.ty = INPUT
      · simp only [ht, if_true] at hx ⊢; simp [updV, hx]
      · simp only [ht, if_false] at hx ⊢; rw [hmap, hx]; simp [updV]
  · intro l hl
    have : l ≠ g.label := fun e => hfresh (e ▸ hext.sub l hl)
    simp [updV, this, hext.agreeV l hl]
  · intro l hl
    have : l ≠ g.label := fun e => hfresh (e ▸ hext.sub l hl)
    simp [updV, this, hext.agreeB l hl]
  · intro l hl; rw [hlab]; simp [hext.sub l hl]
  · intro y hy o ho
    rw [hlab]; rw [hg] at hy
    simp only [List.mem_append, List.mem_singleton] at hy
    rcases hy with hy | rfl
    · simp [hext.closed y hy o ho]
    · simp [hops o ho]
  · intro l hl
    have : l ≠ g.label := fun e => hfresh (e ▸ hl)
    simp [updV, this]
  · intro l hl; simp [updV, hl]
  · simp [updV]

theorem Extends.refl {c : Circuit} {b v : Label → Bool} (hv : IsValB c b v)
    (hcl : ∀ g ∈ c.gates, ∀ o ∈ g.ops, o ∈ c.labels) : Extends c c b v b v :=
  ⟨hv, fun _ _ => rfl, fun _ _ => rfl, fun _ h => h, hcl⟩

end Cirbo
