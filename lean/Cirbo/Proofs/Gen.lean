import Cirbo.Model.Gen
import Cirbo.Proofs.Frame
/-!
# Generator programs: one frame theorem and one soundness theorem for all of them

* `run_frame` — whatever program runs on a circuit satisfying the C02 invariant, the result
  satisfies it again, old gates / inputs / blocks are untouched, only non-INPUT gates of accepted
  arity are appended, outputs are only appended (by `mark`), and every valuation of the host
  extends to a valuation of the result under the same input assignment (so every pre-existing gate
  keeps its function).
* `run_sound` — every valuation of the result satisfies the defining equation of each gate the
  program added (`Sem`), whatever labels were drawn.  Value theorems about generators are proved
  over `Sem`, i.e. without any reasoning about label freshness.
-/
namespace Cirbo
open GateType Circuit

/-- `Sem p v a`: `p` can return `a` along a path all of whose added gates are consistent with the
valuation `v` -/
inductive Sem {α : Type} : Prog α → (Label → Bool) → α → Prop
  | pure {a : α} {v} : Sem (.pure a) v a
  | fresh {r k v} {a : α} (l : Label) : Sem (k l) v a → Sem (.fresh r k) v a
  | add {g ok k v} {a : α} : bfun g.ty (g.ops.map v) = some (v g.label) → Sem k v a → Sem (.add g ok k) v a
  | mark {l k v} {a : α} : Sem k v a → Sem (.mark l k) v a

theorem sem_pure {α} {a a' : α} {v} : Sem (Pure.pure a : Prog α) v a' ↔ a' = a := by
  constructor
  · intro h; cases h; rfl
  · rintro rfl; exact .pure

theorem sem_fail {α} {e : String} {v} {a : α} : ¬ Sem (.fail e : Prog α) v a := by
  intro h; cases h

theorem sem_bind {α β} (p : Prog α) (f : α → Prog β) (v : Label → Bool) (b : β) :
    Sem (p >>= f) v b ↔ ∃ a, Sem p v a ∧ Sem (f a) v b := by
  show Sem (p.bind f) v b ↔ _
  induction p with
  | pure a =>
    simp only [Prog.bind]
    constructor
    · intro h; exact ⟨a, .pure, h⟩
    · rintro ⟨a', h1, h2⟩; cases h1; exact h2
  | fresh r k ih =>
    simp only [Prog.bind]
    constructor
    · intro h
      cases h with
      | fresh l hl =>
        obtain ⟨a, h1, h2⟩ := (ih l).mp hl
        exact ⟨a, .fresh l h1, h2⟩
    · rintro ⟨a, h1, h2⟩
      cases h1 with
      | fresh l hl => exact .fresh l ((ih l).mpr ⟨a, hl, h2⟩)
  | add g ok k ih =>
    simp only [Prog.bind]
    constructor
    · intro h
      cases h with
      | add hb hk =>
        obtain ⟨a, h1, h2⟩ := ih.mp hk
        exact ⟨a, .add hb h1, h2⟩
    · rintro ⟨a, h1, h2⟩
      cases h1 with
      | add hb hk => exact .add hb (ih.mpr ⟨a, hk, h2⟩)
  | mark l k ih =>
    simp only [Prog.bind]
    constructor
    · intro h
      cases h with
      | mark hk =>
        obtain ⟨a, h1, h2⟩ := ih.mp hk
        exact ⟨a, .mark h1, h2⟩
    · rintro ⟨a, h1, h2⟩
      cases h1 with
      | mark hk => exact .mark (ih.mpr ⟨a, hk, h2⟩)
  | fail e =>
    simp only [Prog.bind]
    constructor
    · intro h; cases h
    · rintro ⟨a, h1, _⟩; cases h1

theorem markAsOutput_fields {c c' : Circuit} {l : Label} (h : c.markAsOutput l = .ok c') :
    c'.gates = c.gates ∧ c'.inputs = c.inputs ∧ c'.outputs = c.outputs ++ [l] ∧ c'.blocks = c.blocks ∧ c'.users = c.users := by
  unfold markAsOutput at h
  split at h
  · simp only [Except.ok.injEq] at h; subst h; exact ⟨rfl, rfl, rfl, rfl, rfl⟩
  · cases h

/-- gates only accumulate along a run -/
theorem run_mono {α} (p : Prog α) : ∀ {st : GSt} {a : α} {st' : GSt}, p.run st = .ok (a, st') →
    ∀ g ∈ st.c.gates, g ∈ st'.c.gates := by
  induction p with
  | pure a => intro st a' st' h; simp only [Prog.run, Except.ok.injEq, Prod.mk.injEq] at h; obtain ⟨_, rfl⟩ := h; exact fun _ h => h
  | fresh r k ih =>
    intro st a st' h
    simp only [Prog.run] at h
    split at h
    · cases h
    · have := ih _ h; exact this
  | add g ok k ih =>
    intro st a st' h
    simp only [Prog.run] at h
    split at h
    · cases h
    · rename_i c' hc
      obtain ⟨_, _, hg, _⟩ := addGate_fields hc
      intro x hx
      exact ih h x (by rw [hg]; simp [hx])
  | mark l k ih =>
    intro st a st' h
    simp only [Prog.run] at h
    split at h
    · cases h
    · rename_i c' hc
      obtain ⟨hg, _⟩ := markAsOutput_fields hc
      intro x hx
      exact ih h x (by rw [hg]; exact hx)
  | fail e => intro st a st' h; simp [Prog.run] at h

/-- **soundness of running a program**: a valuation of the final circuit satisfies the defining
equation of every gate the program added -/
theorem run_sound {α} (p : Prog α) : ∀ {st : GSt} {a : α} {st' : GSt}, p.run st = .ok (a, st') →
    ∀ b v, IsValB st'.c b v → Sem p v a := by
  induction p with
  | pure a => intro st a' st' h b v _; simp only [Prog.run, Except.ok.injEq, Prod.mk.injEq] at h; obtain ⟨rfl, _⟩ := h; exact .pure
  | fresh r k ih =>
    intro st a st' h b v hv
    simp only [Prog.run] at h
    split at h
    · cases h
    · rename_i l ctr' _
      exact .fresh l (ih l h b v hv)
  | add g ok k ih =>
    intro st a st' h b v hv
    simp only [Prog.run] at h
    split at h
    · cases h
    · rename_i c' hc
      obtain ⟨_, _, hg, _⟩ := addGate_fields hc
      have hmem : g ∈ st'.c.gates := run_mono k h g (by rw [hg]; simp)
      have hne : g.ty ≠ INPUT := by
        intro e; simp [tyOk, e] at ok
      have := hv g hmem
      simp only [hne, if_false] at this
      exact .add this (ih h b v hv)
  | mark l k ih =>
    intro st a st' h b v hv
    simp only [Prog.run] at h
    split at h
    · cases h
    · exact .mark (ih h b v hv)
  | fail e => intro st a st' h; simp [Prog.run] at h

/-- adding a non-INPUT gate of accepted arity: every valuation extends, under the same assignment -/
theorem addGate_ext {c c' : Circuit} {g : Gate} (hcl : ∀ x ∈ c.gates, ∀ o ∈ x.ops, o ∈ c.labels)
    (hadd : c.addGate g = .ok c') (hok : tyOk g.ty g.ops.length = true) {b v : Label → Bool}
    (hv : IsValB c b v) : ∃ v', IsValB c' b v' ∧ ∀ l ∈ c.labels, v' l = v l := by
  obtain ⟨hfresh, hops, hg, _, _, _, _⟩ := addGate_fields hadd
  have hne : g.ty ≠ INPUT := by intro e; simp [tyOk, e] at hok
  have har : arityOk g.ty g.ops.length = true := by
    simp only [tyOk, Bool.and_eq_true] at hok; exact hok.2
  obtain ⟨x, hx⟩ := bfun_isSome_of_arityOk g.ty (g.ops.map v) (by simpa using har)
  refine ⟨updV v g.label x, ?_, ?_⟩
  · intro y hy
    rw [hg] at hy
    simp only [List.mem_append, List.mem_singleton] at hy
    rcases hy with hy | rfl
    · have h1 : y.label ≠ g.label := fun e => hfresh (e ▸ mem_labels_of_mem hy)
      have h2 : g.label ∉ y.ops := fun hm => hfresh (hcl y hy _ hm)
      have := hv y hy
      have hmap : y.ops.map (updV v g.label x) = y.ops.map v := by
        apply List.map_congr_left; intro o ho
        have : o ≠ g.label := fun e => h2 (e ▸ ho)
        simp [updV, this]
      by_cases ht : y.ty = INPUT
      · simp only [ht, if_true] at this ⊢; simp [updV, h1, this]
      · simp only [ht, if_false] at this ⊢; rw [hmap, this]; simp [updV, h1]
    · have hmap : y.ops.map (updV v y.label x) = y.ops.map v := by
        apply List.map_congr_left; intro o ho
        have : o ≠ y.label := fun e => hfresh (e ▸ hops o ho)
        simp [updV, this]
      simp only [hne, if_false]; rw [hmap, hx]; simp [updV]
  · intro l hl
    have : l ≠ g.label := fun e => hfresh (e ▸ hl)
    simp [updV, this]

/-- what a run may change (relation between the host and the result) -/
structure GenFrame (c c' : Circuit) : Prop where
  wfs : WFS c'
  inputs : c'.inputs = c.inputs
  blocks : c'.blocks = c.blocks
  gates : ∃ new, c'.gates = c.gates ++ new ∧ ∀ g ∈ new, g.ty ≠ INPUT ∧ arityOk g.ty g.ops.length = true
  outputs : ∃ m, c'.outputs = c.outputs ++ m
  ext : ∀ b v, IsValB c b v → ∃ v', IsValB c' b v' ∧ ∀ l ∈ c.labels, v' l = v l

theorem GenFrame.refl {c : Circuit} (hw : WFS c) : GenFrame c c :=
  ⟨hw, rfl, rfl, ⟨[], by simp, by simp⟩, ⟨[], by simp⟩, fun _ v hv => ⟨v, hv, fun _ _ => rfl⟩⟩

theorem GenFrame.trans {a b c : Circuit} (h1 : GenFrame a b) (h2 : GenFrame b c) : GenFrame a c := by
  obtain ⟨n1, g1, k1⟩ := h1.gates
  obtain ⟨n2, g2, k2⟩ := h2.gates
  obtain ⟨m1, o1⟩ := h1.outputs
  obtain ⟨m2, o2⟩ := h2.outputs
  refine ⟨h2.wfs, h2.inputs.trans h1.inputs, h2.blocks.trans h1.blocks, ⟨n1 ++ n2, by rw [g2, g1]; simp, ?_⟩,
    ⟨m1 ++ m2, by rw [o2, o1]; simp⟩, ?_⟩
  · intro g hg
    rcases List.mem_append.mp hg with h | h
    · exact k1 g h
    · exact k2 g h
  · intro bb v hv
    obtain ⟨v1, hv1, e1⟩ := h1.ext bb v hv
    obtain ⟨v2, hv2, e2⟩ := h2.ext bb v1 hv1
    refine ⟨v2, hv2, fun l hl => ?_⟩
    have : l ∈ b.labels := by
      unfold labels at hl ⊢; rw [g1]; simp only [List.map_append, List.mem_append]; exact Or.inl hl
    rw [e2 l this, e1 l hl]

/-- **frame theorem for every generator program** -/
theorem run_frame {α} (p : Prog α) : ∀ {st : GSt} {a : α} {st' : GSt}, p.run st = .ok (a, st') →
    WFS st.c → GenFrame st.c st'.c := by
  induction p with
  | pure a => intro st a' st' h hw; simp only [Prog.run, Except.ok.injEq, Prod.mk.injEq] at h; obtain ⟨_, rfl⟩ := h; exact .refl hw
  | fresh r k ih =>
    intro st a st' h hw
    simp only [Prog.run] at h
    split at h
    · cases h
    · have := ih _ h hw; exact this
  | add g ok k ih =>
    intro st a st' h hw
    simp only [Prog.run] at h
    split at h
    · cases h
    · rename_i c' hc
      have hne : g.ty ≠ INPUT := by intro e; simp [tyOk, e] at ok
      have har : arityOk g.ty g.ops.length = true := by
        simp only [tyOk, Bool.and_eq_true] at ok; exact ok.2
      have hw' : WFS c' := addGate_wfs hw (fun e => absurd e hne) hc
      obtain ⟨_, _, hg, hi, ho, hb, _⟩ := addGate_fields hc
      have step : GenFrame st.c c' :=
        ⟨hw', by rw [hi]; simp [hne], hb, ⟨[g], hg, by intro x hx; simp at hx; subst hx; exact ⟨hne, har⟩⟩,
          ⟨[], by simp [ho]⟩, fun b v hv => addGate_ext hw.closed hc ok hv⟩
      exact step.trans (ih h hw')
  | mark l k ih =>
    intro st a st' h hw
    simp only [Prog.run] at h
    split at h
    · cases h
    · rename_i c' hc
      have hw' : WFS c' := markAsOutput_wfs hw hc
      obtain ⟨hg, hi, ho, hb, _⟩ := markAsOutput_fields hc
      have step : GenFrame st.c c' :=
        ⟨hw', hi, hb, ⟨[], by simp [hg], by simp⟩, ⟨[l], ho⟩,
          fun b v hv => ⟨v, by intro x hx; exact hv x (hg ▸ hx), fun _ _ => rfl⟩⟩
      exact step.trans (ih h hw')
  | fail e => intro st a st' h; simp [Prog.run] at h

end Cirbo
