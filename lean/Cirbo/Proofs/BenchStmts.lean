import Cirbo.Proofs.BenchDoc
/-!
# Bench documents as statement lists: any declaration order (C11)
-/
namespace Cirbo
open GateType Circuit

/-- what one line of a bench document says -/
inductive Stmt
  | skip                      -- blank line or comment
  | gate (g : Gate)           -- `l = OP(a, b)`, `INPUT(l)` (an INPUT gate), `l = vdd`
  | output (l : Label)        -- `OUTPUT(l)`

def Stmt.apply : Stmt → Circuit → Circuit
  | .skip, c => c
  | .gate g, c => c.rawAddGate g
  | .output l, c => { c with outputs := c.outputs ++ [l] }

def stmtGates : List Stmt → List Gate
  | [] => []
  | .gate g :: r => g :: stmtGates r
  | _ :: r => stmtGates r

def stmtOuts : List Stmt → List Label
  | [] => []
  | .output l :: r => l :: stmtOuts r
  | _ :: r => stmtOuts r

/-- the circuit a statement list builds, field by field: gates in line order, inputs in the order of
the `INPUT` lines, outputs in the order of the `OUTPUT` lines -/
theorem applyStmts_fields : ∀ (ss : List Stmt) (n : Circuit), (n.labels ++ (stmtGates ss).map (·.label)).Nodup →
    (ss.foldl (fun n s => s.apply n) n).gates = n.gates ++ stmtGates ss ∧
    (ss.foldl (fun n s => s.apply n) n).inputs = n.inputs ++ ((stmtGates ss).filter (fun g => g.ty = INPUT)).map (·.label) ∧
    (ss.foldl (fun n s => s.apply n) n).outputs = n.outputs ++ stmtOuts ss := by
  intro ss
  induction ss with
  | nil => intro n _; simp [stmtGates, stmtOuts]
  | cons s t ih =>
    intro n hnd
    simp only [List.foldl_cons]
    cases s with
    | skip =>
      have e : Stmt.skip.apply n = n := rfl
      rw [e]
      simp only [stmtGates, stmtOuts] at hnd ⊢
      exact ih n hnd
    | output l =>
      have e : (Stmt.output l).apply n = { n with outputs := n.outputs ++ [l] } := rfl
      rw [e]
      simp only [stmtGates, stmtOuts] at hnd ⊢
      obtain ⟨a, b, d⟩ := ih { n with outputs := n.outputs ++ [l] } hnd
      exact ⟨a, b, by rw [d]; simp⟩
    | gate g =>
      have e : (Stmt.gate g).apply n = n.rawAddGate g := rfl
      rw [e]
      simp only [stmtGates, stmtOuts, List.map_cons] at hnd ⊢
      have hfresh : g.label ∉ n.labels := by
        intro hm
        have := (List.nodup_append.mp hnd).2.2 g.label hm g.label (by simp)
        exact this rfl
      obtain ⟨a, b, d⟩ := rawAddGate_fresh hfresh
      have hnd' : ((n.rawAddGate g).labels ++ (stmtGates t).map (·.label)).Nodup := by
        unfold Circuit.labels; rw [a]
        simpa [Circuit.labels] using hnd
      obtain ⟨a2, b2, d2⟩ := ih _ hnd'
      refine ⟨by rw [a2, a]; simp, ?_, by rw [d2, d]⟩
      rw [b2, b]
      by_cases ht : g.ty = INPUT <;> simp [ht, List.filter_cons]

/-- a document: lines (without their terminators) with what each says -/
abbrev StmtLines := List (Str × Stmt)

def docText (ls : StmtLines) : Str := unl (ls.map (·.1))

theorem parseFold_stmts (ls : StmtLines) (h : ∀ p ∈ ls, LineSem p.1 p.2.apply) (c : Circuit) :
    parseFold (splitLines (docText ls)) (.ok c) = .ok ((ls.map (·.2)).foldl (fun n s => s.apply n) c) := by
  have h1 := splitLines_unl (ls.map (·.1)) [] (by
    intro l hl
    obtain ⟨p, hp, rfl⟩ := List.mem_map.mp hl
    exact (h p hp).nlfree)
  simp only [List.append_nil] at h1
  unfold docText
  rw [h1]
  have hsplit : splitLines [] = [] := rfl
  rw [hsplit, List.append_nil]
  have h2 := parseFold_terminated (ls.map (fun p => (p.1, p.2.apply))) c [] (by
    intro q hq
    obtain ⟨p, hp, rfl⟩ := List.mem_map.mp hq
    exact h p hp)
  simp only [List.append_nil, List.map_map] at h2
  have e : (List.map ((fun p : Str × (Circuit → Circuit) => p.1 ++ ['\n']) ∘ fun p : Str × Stmt => (p.1, p.2.apply)) ls)
      = List.map (fun x => x ++ ['\n']) (List.map (·.1) ls) := by
    rw [List.map_map]; rfl
  rw [e] at h2
  rw [h2]
  simp only [parseFold, List.foldl_nil, applyAll, List.foldl_map]

/-- **any declaration order**: a document whose lines say `ss` (each line in any accepted layout —
`LineSem`), with pairwise distinct gate labels, parses to the circuit with exactly the gates of `ss`
in line order, the inputs in `INPUT`-line order and the outputs in `OUTPUT`-line order — provided every
operand is defined *somewhere* in the document (before or after its use); otherwise the parser
raises `CircuitValidationError` -/
theorem parse_document (ls : StmtLines) (h : ∀ p ∈ ls, LineSem p.1 p.2.apply)
    (hnd : ((stmtGates (ls.map (·.2))).map (·.label)).Nodup) :
    let gs := stmtGates (ls.map (·.2))
    if gs.all (fun g => g.ops.all (fun o => gs.any (fun x => x.label == o))) then
      ∃ c, parseBench (docText ls) = .ok c ∧ c.gates = gs ∧
        c.inputs = (gs.filter (fun g => g.ty = INPUT)).map (·.label) ∧ c.outputs = stmtOuts (ls.map (·.2))
    else parseBench (docText ls) = .error "CircuitValidationError" := by
  intro gs
  rw [parseBench_eq, parseFold_stmts ls h]
  obtain ⟨a, b, d⟩ := applyStmts_fields (ls.map (·.2)) Circuit.empty (by
    simpa [Circuit.labels, Circuit.empty] using hnd)
  simp only [Circuit.empty, List.nil_append] at a b d
  have hcond : ((ls.map (·.2)).foldl (fun n s => s.apply n) Circuit.empty).gates.all
      (fun g => g.ops.all ((ls.map (·.2)).foldl (fun n s => s.apply n) Circuit.empty).hasGate) =
      gs.all (fun g => g.ops.all (fun o => gs.any (fun x => x.label == o))) := by
    have hg : ((ls.map (·.2)).foldl (fun n s => s.apply n) Circuit.empty).gates = gs := a
    rw [hg]
    have hh : ∀ o, ((ls.map (·.2)).foldl (fun n s => s.apply n) Circuit.empty).hasGate o =
        gs.any (fun x => x.label == o) := by
      intro o; unfold Circuit.hasGate; rw [hg]
    have hf : ((ls.map (·.2)).foldl (fun n s => s.apply n) Circuit.empty).hasGate =
        (fun o => gs.any (fun x => x.label == o)) := funext hh
    rw [hf]
  simp only
  rw [hcond]
  split
  · exact ⟨_, rfl, a, b, d⟩
  · rfl

/-- two documents whose statements are rearrangements of each other (same gate definitions as a
multiset, same order among the `INPUT` lines and among the `OUTPUT` lines) parse to circuits with the
same input list, the same output list and the same gate definitions — hence the same function -/
theorem parse_order_independent (l1 l2 : StmtLines) (h1 : ∀ p ∈ l1, LineSem p.1 p.2.apply)
    (h2 : ∀ p ∈ l2, LineSem p.1 p.2.apply)
    (hnd : ((stmtGates (l1.map (·.2))).map (·.label)).Nodup)
    (hperm : (stmtGates (l1.map (·.2))).Perm (stmtGates (l2.map (·.2))))
    (hin : (stmtGates (l1.map (·.2))).filter (fun g => g.ty = INPUT) = (stmtGates (l2.map (·.2))).filter (fun g => g.ty = INPUT))
    (hout : stmtOuts (l1.map (·.2)) = stmtOuts (l2.map (·.2)))
    {c1 : Circuit} (hp1 : parseBench (docText l1) = .ok c1) :
    ∃ c2, parseBench (docText l2) = .ok c2 ∧ c2.inputs = c1.inputs ∧ c2.outputs = c1.outputs ∧
      c2.gates.Perm c1.gates ∧ ∀ b v, IsValB c1 b v ↔ IsValB c2 b v := by
  have hnd2 : ((stmtGates (l2.map (·.2))).map (·.label)).Nodup := (hperm.map _).nodup_iff.mp hnd
  have d1 := parse_document l1 h1 hnd
  have d2 := parse_document l2 h2 hnd2
  simp only at d1 d2
  -- the validity condition is invariant under the rearrangement
  have hc : (stmtGates (l2.map (·.2))).all (fun g => g.ops.all (fun o => (stmtGates (l2.map (·.2))).any (fun x => x.label == o)))
      = (stmtGates (l1.map (·.2))).all (fun g => g.ops.all (fun o => (stmtGates (l1.map (·.2))).any (fun x => x.label == o))) := by
    rw [Bool.eq_iff_iff]
    simp only [List.all_eq_true, List.any_eq_true, beq_iff_eq]
    constructor
    · intro hh g hg o ho
      obtain ⟨x, hx, hxl⟩ := hh g (hperm.mem_iff.mp hg) o ho
      exact ⟨x, hperm.mem_iff.mpr hx, hxl⟩
    · intro hh g hg o ho
      obtain ⟨x, hx, hxl⟩ := hh g (hperm.mem_iff.mpr hg) o ho
      exact ⟨x, hperm.mem_iff.mp hx, hxl⟩
  split at d1
  · rename_i hok
    obtain ⟨c1', e1, g1, i1, o1⟩ := d1
    rw [hp1] at e1
    cases e1
    rw [hc, if_pos hok] at d2
    obtain ⟨c2, e2, g2, i2, o2⟩ := d2
    refine ⟨c2, e2, by rw [i2, i1, hin], by rw [o2, o1, hout], by rw [g2, g1]; exact hperm.symm, ?_⟩
    intro b v
    unfold IsValB
    rw [g1, g2]
    constructor
    · intro hv g hg; exact hv g (hperm.mem_iff.mpr hg)
    · intro hv g hg; exact hv g (hperm.mem_iff.mp hg)
  · rw [hp1] at d1; cases d1

end Cirbo
