import Cirbo.Proofs.PassPipe
import Cirbo.Proofs.TrTerm
/-!
# RemoveRedundantGates is idempotent (C18), hence pipelines equal sequencing unconditionally
-/
namespace Cirbo
open Circuit GateType

/-! ## the traversal only looks at the part of the circuit it reaches -/

theorem childProblem_congr {c c1 : Circuit} (ab : Bool) (st : Label → TState) (R : Label → Prop)
    (hg : ∀ l, R l → c.hasGate l = c1.hasGate l) :
    ∀ ls : List Label, (∀ x ∈ ls, R x) → childProblem c ab st ls = childProblem c1 ab st ls := by
  intro ls
  induction ls with
  | nil => intro _; rfl
  | cons x r ih =>
    intro h
    unfold childProblem
    rw [hg x (h x (by simp)), ih (fun y hy => h y (by simp [hy]))]

theorem trStep_congr {c c1 : Circuit} {bfs ab : Bool} {next next1 : Label → List Label} (R : Label → Prop)
    (hg : ∀ l, R l → c.hasGate l = c1.hasGate l) (hn : ∀ l, R l → next l = next1 l)
    (hcl : ∀ l, R l → ∀ x ∈ next l, R x) {s : TrSt} (hq : ∀ x ∈ s.queue, R x) :
    trStep c bfs ab next s = trStep c1 bfs ab next1 s ∧
      ∀ s', trStep c bfs ab next s = .next s' → ∀ x ∈ s'.queue, R x := by
  unfold trStep
  cases hh : (if bfs then s.queue.head? else s.queue.getLast?) with
  | none => exact ⟨rfl, fun s' h => by cases h⟩
  | some cur =>
    have hcq : cur ∈ s.queue := by
      cases bfs
      · simp only [Bool.false_eq_true, if_false] at hh; exact List.mem_of_getLast? hh
      · simp only [if_true] at hh; exact List.mem_of_head? hh
    have hR := hq cur hcq
    have hpop : ∀ x ∈ (if bfs then s.queue.tail else s.queue.dropLast), R x := by
      intro x hx
      cases bfs
      · simp only [Bool.false_eq_true, if_false] at hx; exact hq x (List.dropLast_subset _ hx)
      · simp only [if_true] at hx; exact hq x (List.mem_of_mem_tail hx)
    refine ⟨?_, ?_⟩
    · simp only [← hg cur hR, ← hn cur hR]
      split
      · rfl
      · cases hst : s.st cur with
        | unv => simp only [← childProblem_congr ab _ R hg (next cur) (hcl cur hR)]
        | ent => rfl
        | vis => rfl
    · intro s' h
      simp only at h
      split at h
      · cases h
      · cases hst : s.st cur with
        | unv =>
          simp only [hst] at h
          split at h
          · cases h
          · have hpush : ∀ x ∈ s.queue ++ (next cur).filter (fun x => setSt s.st cur .ent x = .unv), R x := by
              intro x hx
              rcases List.mem_append.mp hx with h | h
              · exact hq x h
              · exact hcl cur hR x (List.mem_filter.mp h).1
            cases bfs
            · simp only [Bool.false_eq_true, if_false, StepRes.next.injEq] at h; subst h; exact hpush
            · simp only [if_true, StepRes.next.injEq] at h; subst h
              exact fun x hx => hpush x (List.mem_of_mem_tail hx)
        | ent =>
          simp only [hst, StepRes.next.injEq] at h; subst h; exact hpop
        | vis =>
          simp only [hst, StepRes.next.injEq] at h; subst h; exact hpop

theorem trLoop_congr {c c1 : Circuit} {bfs ab : Bool} {next next1 : Label → List Label} (R : Label → Prop)
    (hg : ∀ l, R l → c.hasGate l = c1.hasGate l) (hn : ∀ l, R l → next l = next1 l)
    (hcl : ∀ l, R l → ∀ x ∈ next l, R x) :
    ∀ (fuel : Nat) (s : TrSt), (∀ x ∈ s.queue, R x) →
      trLoop c bfs ab next fuel s = trLoop c1 bfs ab next1 fuel s := by
  intro fuel
  induction fuel with
  | zero => intro s _; rfl
  | succ fuel ih =>
    intro s hq
    obtain ⟨e, hq'⟩ := trStep_congr (bfs := bfs) (ab := ab) R hg hn hcl hq
    unfold trLoop
    rw [← e]
    cases hs : trStep c bfs ab next s with
    | finished => rfl
    | error e => rfl
    | next s' => exact ih s' (hq' s' hs)

/-- two runs of the loop that both stay within their fuel give the same result -/
theorem trLoop_det {c : Circuit} {bfs ab : Bool} {next : Label → List Label} :
    ∀ (f1 f2 : Nat) (s : TrSt), trLoop c bfs ab next f1 s ≠ .error "fuel" →
      trLoop c bfs ab next f2 s ≠ .error "fuel" → trLoop c bfs ab next f1 s = trLoop c bfs ab next f2 s := by
  intro f1
  induction f1 with
  | zero => intro f2 s h; exact absurd rfl h
  | succ f1 ih =>
    intro f2 s h1 h2
    cases f2 with
    | zero => exact absurd rfl h2
    | succ f2 =>
      unfold trLoop at h1 h2 ⊢
      cases hs : trStep c bfs ab next s with
      | finished => rfl
      | error e => rfl
      | next s' =>
        simp only [hs] at h1 h2 ⊢
        exact ih f2 s' h1 h2

theorem isEmpty_false_of_ne {α} {l : List α} (h : l ≠ []) : l.isEmpty = false := by
  cases l with
  | nil => exact absurd rfl h
  | cons a r => rfl

/-- the depth-first traversal from a start list is the same on two circuits that agree (gate
existence, operands) on what is reachable from that start -/
theorem traverse_exits_congr {c c1 : Circuit} (hnd1 : c1.labels.Nodup) (hne : c.gates ≠ []) (hne1 : c1.gates ≠ [])
    (q0 : List Label)
    (hg : ∀ l, Reach c.opsOf q0 l → c.hasGate l = c1.hasGate l)
    (hn : ∀ l, Reach c.opsOf q0 l → c.opsOf l = c1.opsOf l)
    {log : List Ev} (h : traverse c false false (some q0) false = .ok log) :
    ∃ log1, traverse c1 false false (some q0) false = .ok log1 ∧ exits log1 = exits log := by
  unfold traverse at h ⊢
  simp only [isEmpty_false_of_ne hne, isEmpty_false_of_ne hne1, Bool.false_eq_true, if_false, Option.getD_some] at h ⊢
  cases hl : trLoop c false false c.opsOf (2 * (q0.length + c.gates.length + totalDeg c c.opsOf) + 2)
      ⟨q0, fun _ => .unv, []⟩ with
  | error e => simp [hl] at h
  | ok s =>
    simp only [hl, Except.ok.injEq] at h
    have hcong := trLoop_congr (c := c) (c1 := c1) (bfs := false) (ab := false) (Reach c.opsOf q0) hg hn
      (fun l hl x hx => .step hl hx) (2 * (q0.length + c.gates.length + totalDeg c c.opsOf) + 2)
      ⟨q0, fun _ => .unv, []⟩ (fun x hx => .base hx)
    rw [hl] at hcong
    have hterm := trLoop_terminates hnd1 (bfs := false) (ab := false) (next := c1.opsOf)
      (2 * (q0.length + c1.gates.length + totalDeg c1 c1.opsOf) + 2) ⟨q0, fun _ => .unv, []⟩
      (by
        simp only [potential, unvWeight_init, totalDeg, foldl_add_eq_sum]
        have : c1.labels.length = c1.gates.length := by simp [Circuit.labels]
        omega)
    have hdet := trLoop_det (c := c1) (bfs := false) (ab := false) (next := c1.opsOf)
      (2 * (q0.length + c1.gates.length + totalDeg c1 c1.opsOf) + 2)
      (2 * (q0.length + c.gates.length + totalDeg c c.opsOf) + 2) ⟨q0, fun _ => .unv, []⟩ hterm
      (by rw [← hcong]; simp)
    rw [hdet, ← hcong]
    simp only
    refine ⟨_, rfl, ?_⟩
    rw [← h, exits_tail, exits_tail]

theorem emplaceAll_congr {c c1 : Circuit} (remap : Label → Label) :
    ∀ (ls : List Label) (init : R Circuit), (∀ l ∈ ls, c.find? l = c1.find? l) →
      ls.foldl (emplaceStep c remap) init = ls.foldl (emplaceStep c1 remap) init := by
  intro ls
  induction ls with
  | nil => intro _ _; rfl
  | cons l r ih =>
    intro init h
    simp only [List.foldl_cons]
    have : emplaceStep c remap init l = emplaceStep c1 remap init l := by
      unfold emplaceStep; rw [h l (by simp)]
    rw [this]
    exact ih _ (fun x hx => h x (by simp [hx]))

theorem rrg_unfold {allow : Bool} {c c' : Circuit} (h : rrg allow c = .ok c') :
    ∃ log n1 n2 n3, traverse c false false (some c.outputs) false = .ok log ∧
      emplaceAll c (exits log) id Circuit.empty = .ok n1 ∧
      (if allow then .ok n1 else n1.addInputs (c.inputs.filter (fun i => !n1.hasGate i))) = .ok n2 ∧
      n2.setInputs (c.inputs.filter (fun i => n2.inputs.contains i)) = .ok n3 ∧
      n3.setOutputs c.outputs = .ok c' := by
  unfold rrg at h
  cases ht : traverse c false false (some c.outputs) false with
  | error e => simp [ht] at h
  | ok log =>
    simp only [ht] at h
    cases he : emplaceAll c (hookLabels log false) id Circuit.empty with
    | error e => simp [he] at h
    | ok n1 =>
      simp only [he] at h
      cases h2 : (if allow then Except.ok n1 else n1.addInputs (c.inputs.filter (fun i => !n1.hasGate i))) with
      | error e => rw [h2] at h; cases h
      | ok n2 =>
        rw [h2] at h
        simp only at h
        cases h3 : n2.setInputs (c.inputs.filter (fun i => n2.inputs.contains i)) with
        | error e => rw [h3] at h; cases h
        | ok n3 =>
          rw [h3] at h
          rw [hookLabels_false] at he
          exact ⟨log, n1, n2, n3, rfl, he, h2, h3, h⟩

/-- **applying RemoveRedundantGates twice equals applying it once** (either setting of
`allow_inputs_removal`), on every well-formed circuit: the second application returns its argument,
gate for gate in the same order with the same users index -/
theorem rrg_idem {allow : Bool} {c c1 : Circuit} (hw : WFS c) (h : rrg allow c = .ok c1) :
    rrg allow c1 = .ok c1 := by
  obtain ⟨hw1, hsub, _, hout, _, _, _, _⟩ := rrg_spec hw h
  obtain ⟨log, n1, n2, n3, ht, he, h2, h3, h4⟩ := rrg_unfold h
  obtain ⟨gs, g1, g2, g3, _, _, g6⟩ := emplaceAll_id_spec c _ _ _ he
  simp only [Circuit.empty, List.nil_append] at g1 g6
  -- inputs and gates of the result
  have hi3 := (setInputs_inputs h3).1
  have hic : c1.inputs = c.inputs.filter (fun i => n2.inputs.contains i) := by
    rw [(setOutputs_outputs h4).2, hi3]
  have hgc : c1.gates = n2.gates := by rw [setOutputs_gates h4, setInputs_gates h3]
  have hn2 : ∃ missing, n2.gates = gs ++ missing.map (fun i => (⟨i, INPUT, []⟩ : Gate)) ∧
      n2.inputs = n1.inputs ++ missing ∧
      missing = (if allow then [] else c.inputs.filter (fun i => !n1.hasGate i)) := by
    cases allow
    · simp only [Bool.false_eq_true, if_false] at h2 ⊢
      obtain ⟨a1, a2, _⟩ := addInputs_spec _ _ _ h2
      exact ⟨_, by rw [a1, g1], a2, rfl⟩
    · simp only [if_true, Except.ok.injEq] at h2
      subst h2
      exact ⟨[], by simp [g1], by simp, rfl⟩
  obtain ⟨missing, hg2, hi2, hmiss⟩ := hn2
  -- the gates of `c` named by the exits are gates of `c1`, found under the same labels
  have hfind : ∀ l ∈ exits log, c.find? l = c1.find? l := by
    intro l hl
    rw [← g2] at hl
    obtain ⟨g, hg, hgl⟩ := List.mem_map.mp hl
    have h1 : g ∈ c1.gates := by rw [hgc, hg2]; simp [hg]
    rw [← hgl, find_label hw.nodup (g3 g hg), find_label hw1.nodup h1]
  have hexits_gs : (exits log = []) ↔ gs = [] := by
    rw [← g2]; simp
  -- the second traversal has the same exits
  have htr : ∃ log1, traverse c1 false false (some c1.outputs) false = .ok log1 ∧ exits log1 = exits log := by
    rw [hout]
    by_cases hne : c.gates = []
    · -- nothing to traverse
      have hc1 : c1.gates = [] := by
        cases hc : c1.gates with
        | nil => rfl
        | cons g r => have := hsub g (by simp [hc]); rw [hne] at this; cases this
      have : log = [] := by
        unfold traverse at ht
        simp only [hne, List.isEmpty_nil, if_true, Except.ok.injEq] at ht
        exact ht.symm
      subst this
      refine ⟨[], ?_, rfl⟩
      unfold traverse
      simp [hc1]
    · obtain ⟨_, hreach, _⟩ := dfs_exits_exact false (some c.outputs) false false hne ht
      simp only [Bool.false_eq_true, if_false, Option.getD_some] at hreach
      by_cases hne1 : c1.gates = []
      · have hgs : gs = [] := by
          rw [hgc, hg2] at hne1
          exact (List.append_eq_nil_iff.mp hne1).1
        refine ⟨[], ?_, (hexits_gs.mpr hgs).symm⟩
        unfold traverse
        simp [hne1]
      · refine traverse_exits_congr hw1.nodup hne hne1 c.outputs ?_ ?_ ht
        · intro l hl
          have hl' := (hreach l).mpr hl
          have e := hfind l hl'
          unfold Circuit.hasGate
          -- both circuits have the gate
          have hcl : l ∈ c.labels := by
            rw [← g2] at hl'
            obtain ⟨g, hg, hgl⟩ := List.mem_map.mp hl'
            rw [← hgl]; exact mem_labels_of_mem (g3 g hg)
          have hcl1 : l ∈ c1.labels := by
            rw [← g2] at hl'
            obtain ⟨g, hg, hgl⟩ := List.mem_map.mp hl'
            rw [← hgl]; exact mem_labels_of_mem (by rw [hgc, hg2]; simp [hg])
          have a := (hasGate_iff' c l).mpr hcl
          have b := (hasGate_iff' c1 l).mpr hcl1
          unfold Circuit.hasGate at a b
          rw [a, b]
        · intro l hl
          unfold Circuit.opsOf
          rw [hfind l ((hreach l).mpr hl)]
  obtain ⟨log1, ht1, hex1⟩ := htr
  -- replay the rebuild
  have he1 : emplaceAll c1 (exits log) id Circuit.empty = .ok n1 := by
    rw [emplaceAll_eq] at he ⊢
    rw [← emplaceAll_congr id _ _ hfind]; exact he
  unfold rrg
  rw [ht1]
  simp only [hookLabels_false, hex1, he1]
  have hfil2 : c1.inputs.filter (fun i => n2.inputs.contains i) = c.inputs.filter (fun i => n2.inputs.contains i) := by
    rw [hic, List.filter_filter]
    apply List.filter_congr
    intro i _
    simp
  cases allow
  · simp only [Bool.false_eq_true, if_false] at h2 hmiss ⊢
    have hfil1 : c1.inputs.filter (fun i => !n1.hasGate i) = c.inputs.filter (fun i => !n1.hasGate i) := by
      rw [hic, List.filter_filter]
      apply List.filter_congr
      intro i hi
      by_cases hh : n1.hasGate i = true
      · simp [hh]
      · simp only [hh, Bool.not_false, Bool.true_and]
        have : i ∈ missing := by rw [hmiss]; exact List.mem_filter.mpr ⟨hi, by simp [hh]⟩
        simp [hi2, this]
    rw [hfil1, h2]
    simp only [hfil2, h3, hout]
    exact h4
  · simp only [if_true, Except.ok.injEq] at h2 ⊢
    subst h2
    simp only [hfil2, h3, hout]
    exact h4

/-! ## pipelines equal sequencing, on well-formed circuits, with no idempotence hypothesis -/

def GoodR (c : R Circuit) : Prop := ∀ c0, c = .ok c0 → WFS c0 ∧ ArOK c0

theorem goodR_step {c : R Circuit} (hc : GoodR c) {t : Tr} (ht : Proved t) : GoodR (trStepR c t) := by
  intro c2 h2
  cases c with
  | error e => cases h2
  | ok c0 =>
    obtain ⟨w, a⟩ := hc c0 rfl
    have p := transform1_preserves ht w a h2
    exact ⟨p.wfs, p.ar a⟩

/-- dropping an idempotent pass equal to its predecessor does not change the result -/
theorem runSeq_reduceIdem_wf : ∀ (ts : List Tr) (prev : Option Tr) (c0 c : Circuit),
    WFS c0 → WFS c → ArOK c → (∀ t ∈ ts, Proved t) →
    (∀ p, prev = some p → transform1 p c0 = .ok c) →
    runSeq (.ok c) (reduceIdem prev ts) = runSeq (.ok c) ts := by
  intro ts
  induction ts with
  | nil => intros; simp [reduceIdem]
  | cons t r ih =>
    intro prev c0 c hw0 hw har hts hp
    have htP : Proved t := hts t (by simp)
    have hrP : ∀ x ∈ r, Proved x := fun x hx => hts x (by simp [hx])
    have hgen : runSeq (.ok c) (t :: reduceIdem (some t) r) = runSeq (.ok c) (t :: r) := by
      show runSeq (trStepR (.ok c) t) (reduceIdem (some t) r) = runSeq (trStepR (.ok c) t) r
      cases ht : trStepR (.ok c) t with
      | error e => simp [runSeq_error]
      | ok c2 =>
        have p := transform1_preserves htP hw har ht
        exact ih (some t) c c2 hw p.wfs (p.ar har) hrP (by intro p hp'; cases hp'; exact ht)
    cases prev with
    | none => simpa [reduceIdem] using hgen
    | some p =>
      simp only [reduceIdem]
      by_cases hs : sameIdem t p = true
      · simp only [hs, if_true]
        have hpc := hp p rfl
        cases t with
        | rrg a =>
          cases p with
          | rrg b =>
            have hab : a = b := by simpa [sameIdem] using hs
            subst hab
            have hid : transform1 (.rrg a) c = .ok c := rrg_idem hw0 hpc
            rw [ih (some (.rrg a)) c0 c hw0 hw har hrP (by intro p hp'; cases hp'; exact hpc)]
            show runSeq (.ok c) r = runSeq (trStepR (.ok c) (.rrg a)) r
            simp only [trStepR, hid]
          | muo | mdg | meg | comp _ => simp [sameIdem] at hs
        | muo | mdg | meg | comp _ => simp [sameIdem] at hs
      · simp only [hs]
        simpa using hgen

/-- **pipelines equal sequencing**: on every well-formed circuit, applying a list of passes (any
nesting of compositions) is applying, one after another, the constituent passes, each merging pass
followed by its implied redundant-gate removal -/
theorem applyTransformers_eq_seq_wf {c : Circuit} (hw : WFS c) (har : ArOK c) (ts : List Tr) :
    applyTransformers c ts = runSeq (.ok c) (linearize.linearizeList ts) := by
  rw [applyTransformers_def]
  exact runSeq_reduceIdem_wf _ none c c hw hw har (linearizeList_proved ts) (by intro p hp; cases hp)

theorem relin_step (t : Tr) (ht : Proved t) (r : List Tr)
    (ih : ∀ c : R Circuit, GoodR c → runSeq c (linearize.linearizeList r) = runSeq c r)
    (c : R Circuit) (hc : GoodR c) :
    runSeq c (t :: .rrg false :: .rrg false :: linearize.linearizeList r) = runSeq c (t :: .rrg false :: r) := by
  simp only [runSeq, List.foldl_cons]
  have ih' := ih
  simp only [runSeq] at ih'
  have hg1 : GoodR (trStepR c t) := goodR_step hc ht
  have hg2 := goodR_step hg1 (t := .rrg false) trivial
  rw [ih' _ (goodR_step hg2 (t := .rrg false) trivial)]
  congr 1
  cases h1 : trStepR (trStepR c t) (.rrg false) with
  | error e => rfl
  | ok c2 =>
    cases h0 : trStepR c t with
    | error e => rw [h0] at h1; cases h1
    | ok c1 =>
      rw [h0] at h1
      exact rrg_idem (hg1 c1 h0).1 h1

theorem runSeq_relinearize_wf {l : List Tr} (hl : Closed l) :
    ∀ c : R Circuit, GoodR c → runSeq c (linearize.linearizeList l) = runSeq c l := by
  induction hl with
  | nil => intro c _; rfl
  | rrg a r _ ih =>
    intro c hc
    show runSeq (trStepR c (.rrg a)) (linearize.linearizeList r) = runSeq (trStepR c (.rrg a)) r
    exact ih _ (goodR_step hc trivial)
  | muo r _ ih =>
    intro c hc
    simp only [linearize.linearizeList, linearize, List.cons_append, List.nil_append]
    exact relin_step .muo trivial r ih c hc
  | mdg r _ ih =>
    intro c hc
    simp only [linearize.linearizeList, linearize, List.cons_append, List.nil_append]
    exact relin_step .mdg trivial r ih c hc
  | meg r _ ih =>
    intro c hc
    simp only [linearize.linearizeList, linearize, List.cons_append, List.nil_append]
    exact relin_step .meg trivial r ih c hc

/-- `t1 | t2` runs `t1` then `t2` -/
theorem or_eq_seq_wf (a b : Tr) (c : R Circuit) (_hc : GoodR c) :
    runSeq c (linearize (a.or b)) = runSeq (runSeq c (linearize a)) (linearize b) := by
  unfold Tr.or
  simp only [linearize]
  rw [linearizeList_append, runSeq_append]
  cases a <;> cases b <;> simp [linearize, linearize.linearizeList]

/-- `cleanup` is RRG, MUO, RRG, MDG, RRG (and MEG, RRG when heavy), in this order -/
theorem cleanup_eq_seq_wf {c : Circuit} (hw : WFS c) (har : ArOK c) (heavy : Bool) :
    cleanup c heavy = runSeq (.ok c)
      ([.rrg false, .muo, .rrg false, .mdg, .rrg false] ++ (if heavy then [.meg, .rrg false] else [])) := by
  unfold cleanup
  rw [applyTransformers_eq_seq_wf hw har]
  cases heavy <;> simp [linearize.linearizeList, linearize]

end Cirbo
