import Cirbo.Model.Eval
import Cirbo.Model.Val3
import Cirbo.Proofs.Graph
/-!
# The topological evaluator (`evaluate_full_circuit`) computes a valuation (C01, C15)
-/
namespace Cirbo
open GateType

def valOf (d : Asg) (l : Label) : V3 := (d.get? l).getD .U
def asgFun (asg : Asg) : Label → V3 := fun l => (asg.get? l).getD .U

theorem foldl_setDefault_get? (ls : List Label) (d : Asg) (k : Label) :
    (ls.foldl (fun d i => d.setDefault i V3.U) d).get? k
      = if k ∈ ls then some ((d.get? k).getD V3.U) else d.get? k := by
  induction ls generalizing d with
  | nil => simp
  | cons i r ih =>
    simp only [List.foldl_cons, ih, Dict.get?_setDefault, List.mem_cons]
    by_cases hki : k = i
    · subst hki; simp
    · simp [hki]

theorem initAsg_get? (c : Circuit) (asg : Asg) (k : Label) :
    (initAsg c asg).get? k = if k ∈ c.inputs then some (asgFun asg k) else asg.get? k := by
  unfold initAsg asgFun; exact foldl_setDefault_get? _ _ _

theorem valOf_set (d : Asg) (l x : Label) (r : V3) :
    valOf (d.set l r) x = if x = l then r else valOf d x := by
  unfold valOf; rw [Dict.get?_set]; by_cases h : x = l <;> simp [h]

theorem mapM_get?_some (d : Asg) (ops : List Label) (h : ∀ o ∈ ops, (d.get? o).isSome = true) :
    ops.mapM (fun o => d.get? o) = some (ops.map (valOf d)) := by
  induction ops with
  | nil => rfl
  | cons o r ih =>
    obtain ⟨x, hx⟩ := Option.isSome_iff_exists.mp (h o (by simp))
    have := ih (fun y hy => h y (by simp [hy]))
    simp [List.mapM_cons, hx, this, valOf]

structure FInv (c : Circuit) (a : Label → V3) (d : Asg) (done : List Label) : Prop where
  inp : ∀ g ∈ c.gates, g.ty = INPUT → d.get? g.label = some (a g.label)
  ev : ∀ g ∈ c.gates, g.ty ≠ INPUT → g.label ∈ done →
    applyOp g.ty (g.ops.map (valOf d)) = some (valOf d g.label) ∧ (d.get? g.label).isSome = true

theorem evalFullLoop_inv {c : Circuit} (h : WFU c) (a : Label → V3) (order : List Label)
    (hnd : order.Nodup) (hsub : ∀ l ∈ order, l ∈ c.labels)
    (hord : ∀ pre l post, order = pre ++ l :: post → ∀ g ∈ c.gates, g.label = l → ∀ o ∈ g.ops, o ∈ pre) :
    ∀ rest pre d, order = pre ++ rest → FInv c a d pre →
      ∃ d', evalFullLoop c rest d = .ok d' ∧ FInv c a d' order := by
  intro rest
  induction rest with
  | nil => intro pre d ho inv; exact ⟨d, rfl, by simpa [ho] using inv⟩
  | cons l rest ih =>
    intro pre d ho inv
    have hl_ord : l ∈ order := by rw [ho]; simp
    obtain ⟨g, hg, hgl⟩ := gate_of_label (hsub l hl_ord)
    have hfind : c.find? l = some g := hgl ▸ find_label h.nodup hg
    have hlpre : l ∉ pre := by
      have := hnd; rw [ho] at this
      have := (List.nodup_append.mp this).2.2
      intro hm; exact this l hm l (by simp) rfl
    have hops_pre : ∀ o ∈ g.ops, o ∈ pre := hord pre l rest ho g hg hgl
    -- operands of gates already done lie in `pre`
    have hdone_ops : ∀ g' ∈ c.gates, g'.label ∈ pre → ∀ o ∈ g'.ops, o ∈ pre := by
      intro g' hg' hin o ho'
      obtain ⟨p1, p2, hp⟩ := List.append_of_mem hin
      have : order = p1 ++ g'.label :: (p2 ++ l :: rest) := by rw [ho, hp]; simp
      have := hord p1 g'.label _ this g' hg' rfl o ho'
      rw [hp]; simp [this]
    have ho' : order = (pre ++ [l]) ++ rest := by rw [ho]; simp
    simp only [evalFullLoop, evalFullStep, hfind]
    by_cases hty : g.ty = INPUT
    · simp only [hty, if_true]
      apply ih (pre ++ [l]) d ho'
      refine ⟨inv.inp, ?_⟩
      intro g' hg' hty' hin
      simp only [List.mem_append, List.mem_singleton] at hin
      rcases hin with hin | hin
      · exact inv.ev g' hg' hty' hin
      · have : g' = g := gate_unique h.nodup hg' hg (hin.trans hgl.symm)
        subst this; exact absurd hty hty'
    · simp only [hty, if_false]
      have hsome : ∀ o ∈ g.ops, (d.get? o).isSome = true := by
        intro o hoo
        have hop := hops_pre o hoo
        obtain ⟨go, hgo, hgol⟩ := gate_of_label (h.closed g hg o hoo)
        by_cases hto : go.ty = INPUT
        · have := inv.inp go hgo hto; rw [hgol] at this; simp [this]
        · have := (inv.ev go hgo hto (hgol ▸ hop)).2; rwa [hgol] at this
      have harity : (applyOp g.ty (g.ops.map (valOf d))).isSome = true := by
        rw [applyOp_isSome_iff]
        have := h.arity g hg
        simp only [hty, if_false] at this
        simpa using this
      obtain ⟨r, hr⟩ := Option.isSome_iff_exists.mp harity
      simp only [evalGate, hty, if_false, mapM_get?_some d g.ops hsome, hr]
      apply ih (pre ++ [l]) (d.set l r) ho'
      have hl_ops : ∀ g' ∈ c.gates, (g'.label ∈ pre ∨ g' = g) → l ∉ g'.ops := by
        intro g' hg' hc hm
        rcases hc with hc | hc
        · exact hlpre (hdone_ops g' hg' hc l hm)
        · subst hc; exact hlpre (hops_pre l hm)
      have hmap : ∀ g' ∈ c.gates, (g'.label ∈ pre ∨ g' = g) →
          g'.ops.map (valOf (d.set l r)) = g'.ops.map (valOf d) := by
        intro g' hg' hc
        apply map_congr_mem
        intro o hoo
        rw [valOf_set]
        have : o ≠ l := fun e => hl_ops g' hg' hc (e ▸ hoo)
        simp [this]
      refine ⟨?_, ?_⟩
      · intro g' hg' hty'
        have hne : g'.label ≠ l := by
          intro e
          have : g' = g := gate_unique h.nodup hg' hg (e.trans hgl.symm)
          subst this; exact hty hty'
        rw [Dict.get?_set]; simp [hne, inv.inp g' hg' hty']
      · intro g' hg' hty' hin
        simp only [List.mem_append, List.mem_singleton] at hin
        rcases hin with hin | hin
        · have hne : g'.label ≠ l := fun e => hlpre (e ▸ hin)
          obtain ⟨e1, e2⟩ := inv.ev g' hg' hty' hin
          rw [hmap g' hg' (Or.inl hin), valOf_set, Dict.get?_set]
          simp [hne, e1, e2]
        · have : g' = g := gate_unique h.nodup hg' hg (hin.trans hgl.symm)
          subst this
          rw [hmap g' hg' (Or.inr rfl), valOf_set, Dict.get?_set, hr]
          simp [hin]

/-- **`evaluate_full_circuit` on a well-formed circuit** never raises, assigns every gate, and
its result is a valuation w.r.t. the code's operators under the given input assignment. -/
theorem evalFull_spec {c : Circuit} (h : WFU c) (asg : Asg) :
    ∃ d, evalFull c asg = .ok d ∧ IsVal3 c (asgFun asg) (valOf d) ∧
      ∀ g ∈ c.gates, (d.get? g.label).isSome = true := by
  obtain ⟨order, hts, hperm, hord⟩ := topSort_inv_spec h.toWFG
  have hnd : order.Nodup := hperm.nodup_iff.mpr h.nodup
  have hsub : ∀ l ∈ order, l ∈ c.labels := fun l hl => hperm.mem_iff.mp hl
  have hinp : ∀ g ∈ c.gates, g.ty = INPUT →
      (initAsg c asg).get? g.label = some (asgFun asg g.label) := by
    intro g hg hty
    rw [initAsg_get?]
    have : g.label ∈ c.inputs := (h.inputsOK g.label).mpr ⟨g, hg, rfl, hty⟩
    simp [this]
  have inv0 : FInv c (asgFun asg) (initAsg c asg) [] := ⟨hinp, by intro g _ _ hin; cases hin⟩
  obtain ⟨d, hd, inv⟩ := evalFullLoop_inv h (asgFun asg) order hnd hsub hord order [] _ rfl inv0
  refine ⟨d, by simp [evalFull, hts, hd], ?_, ?_⟩
  · intro g hg
    by_cases hty : g.ty = INPUT
    · simp only [hty, if_true]; unfold valOf; rw [inv.inp g hg hty]; rfl
    · simp only [hty, if_false]
      exact (inv.ev g hg hty (hperm.mem_iff.mpr (mem_labels_of_mem hg))).1
  · intro g hg
    by_cases hty : g.ty = INPUT
    · rw [inv.inp g hg hty]; rfl
    · exact (inv.ev g hg hty (hperm.mem_iff.mpr (mem_labels_of_mem hg))).2

end Cirbo
