import Cirbo.Proofs.GenSquare
/-!
# Label provenance of generator programs
`Fr P p a`: the program `p` can return `a` along a path on which every freshly drawn label satisfies
`P`.  Used where an algorithm compares labels with a sentinel (the placeholder string of the Wallace
multiplier): every label a run draws is `"new_" ++ …`, hence different from the sentinel.
-/
namespace Cirbo
open GateType Circuit

inductive Fr {α : Type} (P : Label → Prop) : Prog α → α → Prop
  | pure {a : α} : Fr P (.pure a) a
  | fresh {r k} {a : α} (l : Label) : P l → Fr P (k l) a → Fr P (.fresh r k) a
  | add {g ok k} {a : α} : Fr P k a → Fr P (.add g ok k) a
  | mark {l k} {a : α} : Fr P k a → Fr P (.mark l k) a

theorem fr_pure {α} {P : Label → Prop} {a a' : α} : Fr P (Pure.pure a : Prog α) a' ↔ a' = a := by
  constructor
  · intro h; cases h; rfl
  · rintro rfl; exact .pure

theorem fr_fail {α} {P : Label → Prop} {e : String} {a : α} : ¬ Fr P (.fail e : Prog α) a := by
  intro h; cases h

theorem fr_bind {α β} {P : Label → Prop} (p : Prog α) (f : α → Prog β) (b : β) :
    Fr P (p >>= f) b ↔ ∃ a, Fr P p a ∧ Fr P (f a) b := by
  show Fr P (p.bind f) b ↔ _
  induction p with
  | pure a =>
    simp only [Prog.bind]
    constructor
    · intro h; exact ⟨a, .pure, h⟩
    · rintro ⟨a', h1, h2⟩; cases h1; exact h2
  | fresh r k ih =>
    simp only [Prog.bind]
    constructor
    · intro h
      cases h with
      | fresh l hp hl =>
        obtain ⟨a, h1, h2⟩ := (ih l).mp hl
        exact ⟨a, .fresh l hp h1, h2⟩
    · rintro ⟨a, h1, h2⟩
      cases h1 with
      | fresh l hp hl => exact .fresh l hp ((ih l).mpr ⟨a, hl, h2⟩)
  | add g ok k ih =>
    simp only [Prog.bind]
    constructor
    · intro h
      cases h with
      | add hk =>
        obtain ⟨a, h1, h2⟩ := ih.mp hk
        exact ⟨a, .add h1, h2⟩
    · rintro ⟨a, h1, h2⟩
      cases h1 with
      | add hk => exact .add (ih.mpr ⟨a, hk, h2⟩)
  | mark l k ih =>
    simp only [Prog.bind]
    constructor
    · intro h
      cases h with
      | mark hk =>
        obtain ⟨a, h1, h2⟩ := ih.mp hk
        exact ⟨a, .mark h1, h2⟩
    · rintro ⟨a, h1, h2⟩
      cases h1 with
      | mark hk => exact .mark (ih.mpr ⟨a, hk, h2⟩)
  | fail e =>
    simp only [Prog.bind]
    constructor
    · intro h; cases h
    · rintro ⟨a, h1, _⟩; cases h1

theorem freshLoop_label {c : Circuit} {restr : List Label} : ∀ (fuel ctr : Nat) (l : Label) (ctr' : Nat),
    freshLoop c restr fuel ctr = .ok (l, ctr') → ∃ n, l = newLabel n := by
  intro fuel
  induction fuel with
  | zero => intro ctr l ctr' h; simp [freshLoop] at h
  | succ fuel ih =>
    intro ctr l ctr' h
    simp only [freshLoop] at h
    split at h
    · cases h
    · split at h
      · exact ih _ _ _ h
      · simp only [Except.ok.injEq, Prod.mk.injEq] at h
        exact ⟨ctr, h.1.symm⟩

/-- every label a run draws is `"new_" ++ …` -/
theorem run_fr {α} (p : Prog α) : ∀ {st : GSt} {a : α} {st' : GSt}, p.run st = .ok (a, st') →
    Fr (fun l => ∃ n, l = newLabel n) p a := by
  induction p with
  | pure a => intro st a' st' h; simp only [Prog.run, Except.ok.injEq, Prod.mk.injEq] at h; obtain ⟨rfl, _⟩ := h; exact .pure
  | fresh r k ih =>
    intro st a st' h
    simp only [Prog.run] at h
    split at h
    · cases h
    · rename_i l ctr' hfl
      exact .fresh l (freshLoop_label _ _ _ _ hfl) (ih l h)
  | add g ok k ih =>
    intro st a st' h
    simp only [Prog.run] at h
    split at h
    · cases h
    · exact .add (ih h)
  | mark l k ih =>
    intro st a st' h
    simp only [Prog.run] at h
    split at h
    · cases h
    · exact .mark (ih h)
  | fail e => intro st a st' h; simp [Prog.run] at h

theorem newLabel_ne_placeholder (n : Nat) : newLabel n ≠ Gen.placeholderStr := by
  unfold newLabel Gen.placeholderStr
  intro h
  have := congrArg String.toList h
  simp only [String.toList_append] at this
  have h2 : ("new_" : String).toList = ['n', 'e', 'w', '_'] := by decide
  have h3 : ("_PLACEHOLDER_STR_" : String).toList.head? = some '_' := by decide
  rw [h2] at this
  have := congrArg List.head? this
  simp only [List.cons_append, List.head?_cons] at this
  rw [h3] at this
  cases this

/-! ## closure lemmas: outputs of the bit counters are inputs or fresh labels -/

variable {P Q : Label → Prop}

theorem fr_emitTT {x y : Label} {t : TT} {l : Label} (h : Fr P (emitTT x y t) l) : P l := by
  unfold emitTT at h
  split at h
  · cases h with
    | fresh l' hp hk => exact absurd hk fr_fail
  · unfold emit at h
    cases h with
    | fresh l' hp hk =>
      cases hk with
      | add hk2 =>
        have := fr_pure.mp hk2
        subst this; exact hp


/-! ## the two semantics along one path -/

/-- `SemF P p v a`: `p` can return `a` along a path whose added gates are consistent with `v` and
whose fresh labels satisfy `P` -/
inductive SemF {α : Type} (P : Label → Prop) : Prog α → (Label → Bool) → α → Prop
  | pure {a : α} {v} : SemF P (.pure a) v a
  | fresh {r k v} {a : α} (l : Label) : P l → SemF P (k l) v a → SemF P (.fresh r k) v a
  | add {g ok k v} {a : α} : bfun g.ty (g.ops.map v) = some (v g.label) → SemF P k v a → SemF P (.add g ok k) v a
  | mark {l k v} {a : α} : SemF P k v a → SemF P (.mark l k) v a

theorem semF_sem {α} {P : Label → Prop} {p : Prog α} {v} {a : α} (h : SemF P p v a) : Sem p v a := by
  induction h with
  | pure => exact .pure
  | fresh l _ _ ih => exact .fresh l ih
  | add hb _ ih => exact .add hb ih
  | mark _ ih => exact .mark ih

theorem semF_fr {α} {P : Label → Prop} {p : Prog α} {v} {a : α} (h : SemF P p v a) : Fr P p a := by
  induction h with
  | pure => exact .pure
  | fresh l hp _ ih => exact .fresh l hp ih
  | add _ _ ih => exact .add ih
  | mark _ ih => exact .mark ih

theorem semF_pure {α} {P : Label → Prop} {a a' : α} {v} : SemF P (Pure.pure a : Prog α) v a' ↔ a' = a := by
  constructor
  · intro h; cases h; rfl
  · rintro rfl; exact .pure

theorem semF_fail {α} {P : Label → Prop} {e : String} {v} {a : α} : ¬ SemF P (.fail e : Prog α) v a := by
  intro h; cases h

theorem semF_bind {α β} {P : Label → Prop} (p : Prog α) (f : α → Prog β) (v : Label → Bool) (b : β) :
    SemF P (p >>= f) v b ↔ ∃ a, SemF P p v a ∧ SemF P (f a) v b := by
  show SemF P (p.bind f) v b ↔ _
  induction p with
  | pure a =>
    simp only [Prog.bind]
    constructor
    · intro h; exact ⟨a, .pure, h⟩
    · rintro ⟨a', h1, h2⟩; cases h1; exact h2
  | fresh r k ih =>
    simp only [Prog.bind]
    constructor
    · intro h
      cases h with
      | fresh l hp hl =>
        obtain ⟨a, h1, h2⟩ := (ih l).mp hl
        exact ⟨a, .fresh l hp h1, h2⟩
    · rintro ⟨a, h1, h2⟩
      cases h1 with
      | fresh l hp hl => exact .fresh l hp ((ih l).mpr ⟨a, hl, h2⟩)
  | add g ok k ih =>
    simp only [Prog.bind]
    constructor
    · intro h
      cases h with
      | add hb hk =>
        obtain ⟨a, h1, h2⟩ := ih.mp hk
        exact ⟨a, .add hb h1, h2⟩
    · rintro ⟨a, h1, h2⟩
      cases h1 with
      | add hb hk => exact .add hb (ih.mpr ⟨a, hk, h2⟩)
  | mark l k ih =>
    simp only [Prog.bind]
    constructor
    · intro h
      cases h with
      | mark hk =>
        obtain ⟨a, h1, h2⟩ := ih.mp hk
        exact ⟨a, .mark h1, h2⟩
    · rintro ⟨a, h1, h2⟩
      cases h1 with
      | mark hk => exact .mark (ih.mpr ⟨a, hk, h2⟩)
  | fail e =>
    simp only [Prog.bind]
    constructor
    · intro h; cases h
    · rintro ⟨a, h1, _⟩; cases h1

/-- running a program: the gates it adds hold under every valuation of the result, and every label
it draws is `"new_" ++ …` -/
theorem run_semF {α} (p : Prog α) : ∀ {st : GSt} {a : α} {st' : GSt}, p.run st = .ok (a, st') →
    ∀ b v, IsValB st'.c b v → SemF (fun l => ∃ n, l = newLabel n) p v a := by
  induction p with
  | pure a => intro st a' st' h b v _; simp only [Prog.run, Except.ok.injEq, Prod.mk.injEq] at h; obtain ⟨rfl, _⟩ := h; exact .pure
  | fresh r k ih =>
    intro st a st' h b v hv
    simp only [Prog.run] at h
    split at h
    · cases h
    · rename_i l ctr' hfl
      exact .fresh l (freshLoop_label _ _ _ _ hfl) (ih l h b v hv)
  | add g ok k ih =>
    intro st a st' h b v hv
    simp only [Prog.run] at h
    split at h
    · cases h
    · rename_i c' hc
      obtain ⟨_, _, hg, _⟩ := addGate_fields hc
      have hmem : g ∈ st'.c.gates := run_mono k h g (by rw [hg]; simp)
      have hne : g.ty ≠ INPUT := by
        intro e; simp [tyOk, e] at ok
      have := hv g hmem
      simp only [hne, if_false] at this
      exact .add this (ih h b v hv)
  | mark l k ih =>
    intro st a st' h b v hv
    simp only [Prog.run] at h
    split at h
    · cases h
    · exact .mark (ih h b v hv)
  | fail e => intro st a st' h; simp [Prog.run] at h

/-! ## `add_sum_n_bits` on one, two, three operands -/

theorem addSumNBits_one (a : Label) : addSumNBits [a] (.enum .xaig) false = Prog.pure [a] := rfl

theorem addSumNBits_two (a b : Label) : addSumNBits [a, b] (.enum .xaig) false =
    (do let xy ← emitTT b a t0110
        let cy ← emitTT b xy t0010
        pure [xy, cy]) := rfl

theorem addSumNBits_three (a b c : Label) : addSumNBits [a, b, c] (.enum .xaig) false =
    (do let xy ← emitTT c b t0110
        let w0 ← emitTT a xy t0110
        let g2 ← emitTT c xy t0010
        let g3 ← emitTT a xy t0001
        let w1 ← emitTT g2 g3 t0110
        pure [w0, w1]) := rfl

/-- the count of one to three bits: one bit for one operand (the operand itself), two fresh bits otherwise -/
theorem sumSmall_shape {inp res : List Label} (h1 : 1 ≤ inp.length) (h3 : inp.length ≤ 3)
    (hf : Fr P (addSumNBits inp (.enum .xaig) false) res) :
    (∃ a, inp = [a] ∧ res = [a]) ∨ (∃ r0 r1, res = [r0, r1] ∧ P r0 ∧ P r1) := by
  match inp, h1, h3 with
  | [a], _, _ =>
    rw [addSumNBits_one] at hf
    cases hf; exact Or.inl ⟨a, rfl, rfl⟩
  | [a, b], _, _ =>
    rw [addSumNBits_two] at hf
    simp only [fr_bind, fr_pure] at hf
    obtain ⟨xy, h1, cy, h2, rfl⟩ := hf
    exact Or.inr ⟨xy, cy, rfl, fr_emitTT h1, fr_emitTT h2⟩
  | [a, b, c], _, _ =>
    rw [addSumNBits_three] at hf
    simp only [fr_bind, fr_pure] at hf
    obtain ⟨xy, h1, w0, h2, g2, h3, g3, h4, w1, h5, rfl⟩ := hf
    exact Or.inr ⟨w0, w1, rfl, fr_emitTT h2, fr_emitTT h5⟩
  | _ :: _ :: _ :: _ :: _, _, h3 => simp at h3

/-! ## matrices with placeholders -/

abbrev Mat := List (List Label)

def nonPH (col : List Label) : List Label := col.filter (fun x => x != PH)

/-- the number a placeholder matrix stands for: column `k` has weight `2^k` -/
def MV (v : Label → Bool) (c : Mat) : Nat := colsVal v (c.map nonPH)

structure Rect (c : Mat) (W R : Nat) : Prop where
  w : c.length = W
  r : ∀ col ∈ c, col.length = R

theorem matSet_eq_set (c : Mat) (col row : Nat) (x : Label) :
    matSet c col row x = if col < c.length then c.set col ((c.getD col []).set row x) else c := by
  unfold matSet
  apply List.ext_getElem?
  intro k
  simp only [List.getElem?_map, List.getElem?_zipIdx, Nat.zero_add]
  split
  · rename_i hc
    rw [List.getElem?_set]
    by_cases hk : col = k
    · subst hk
      simp only [if_true, hc, List.getD_eq_getElem?_getD]
      rw [List.getElem?_eq_getElem hc]
      simp
    · rw [if_neg hk]
      cases hck : c[k]? with
      | none => simp
      | some ck => simp [Ne.symm hk]
  · rename_i hc
    cases hck : c[k]? with
    | none => simp
    | some ck =>
      have : k < c.length := by
        rcases Nat.lt_or_ge k c.length with h | h
        · exact h
        · rw [List.getElem?_eq_none h] at hck; cases hck
      have hne : k ≠ col := by omega
      simp [hne]

theorem rect_getD {c : Mat} {W R : Nat} (h : Rect c W R) {k : Nat} (hk : k < W) : (c.getD k []).length = R := by
  apply h.r
  rw [List.getD_eq_getElem?_getD, List.getElem?_eq_getElem (by rw [h.w]; exact hk)]
  exact List.getElem_mem _

theorem rect_matSet {c : Mat} {W R : Nat} (h : Rect c W R) (col row : Nat) (x : Label) : Rect (matSet c col row x) W R := by
  rw [matSet_eq_set]
  split
  · rename_i hc
    refine ⟨by simp [h.w], ?_⟩
    intro cl hcl
    rcases List.mem_or_eq_of_mem_set hcl with h1 | h1
    · exact h.r cl h1
    · rw [h1, List.length_set]; exact rect_getD h (by rw [← h.w]; exact hc)
  · exact h

theorem entry_matSet {c : Mat} {W R : Nat} (h : Rect c W R) {col row : Nat} (hc : col < W) (hr : row < R) (x : Label) (a b : Nat) :
    entry (matSet c col row x) a b = if a = col ∧ b = row then x else entry c a b := by
  rw [matSet_eq_set, if_pos (by rw [h.w]; exact hc)]
  exact entry_set c col row x (by rw [h.w]; exact hc) (by rw [rect_getD h hc]; exact hr) a b

theorem cnt_nonPH_set (v : Label → Bool) : ∀ (col : List Label) (row : Nat) (x : Label), row < col.length →
    col.getD row PH = PH → x ≠ PH → cnt v (nonPH (col.set row x)) = cnt v (nonPH col) + bv v x := by
  intro col
  induction col with
  | nil => intro row x h; simp at h
  | cons y t ih =>
    intro row x hr hph hx
    cases row with
    | zero =>
      simp only [List.getD_cons_zero] at hph
      subst hph
      have hxb : (x != PH) = true := by simpa using hx
      simp [nonPH, List.filter_cons, hxb, cnt_cons]
      omega
    | succ row =>
      simp only [List.getD_cons_succ] at hph
      have := ih row x (by simpa using hr) hph hx
      simp only [nonPH, List.set_cons_succ, List.filter_cons] at this ⊢
      split
      · simp only [cnt_cons]; rw [this]; omega
      · exact this

theorem mv_matSet (v : Label → Bool) {c : Mat} {W R : Nat} (h : Rect c W R) {col row : Nat} (hc : col < W) (hr : row < R)
    {x : Label} (hph : entry c col row = PH) (hx : x ≠ PH) :
    MV v (matSet c col row x) = MV v c + 2 ^ col * bv v x := by
  rw [matSet_eq_set, if_pos (by rw [h.w]; exact hc)]
  unfold MV
  have hmap : (c.set col ((c.getD col []).set row x)).map nonPH = (c.map nonPH).set col (nonPH ((c.getD col []).set row x)) := by
    rw [List.map_set]
  rw [hmap]
  have hcs := colsVal_set v (c.map nonPH) col (nonPH ((c.getD col []).set row x)) (by simp [h.w]; exact hc)
  have hg : (c.map nonPH).getD col [] = nonPH (c.getD col []) := by
    simp only [List.getD_eq_getElem?_getD, List.getElem?_map]
    rw [List.getElem?_eq_getElem (by rw [h.w]; exact hc)]
    simp
  rw [hg, cnt_nonPH_set v _ row x (by rw [rect_getD h hc]; exact hr) hph hx] at hcs
  rw [Nat.mul_add] at hcs
  omega

/-- all entries are placeholders or satisfy `Q` -/
def QM (Q : Label → Prop) (c : Mat) : Prop := ∀ col ∈ c, ∀ x ∈ col, x = PH ∨ Q x

theorem qm_matSet {c : Mat} (h : QM Q c) (col row : Nat) {x : Label} (hx : Q x) : QM Q (matSet c col row x) := by
  rw [matSet_eq_set]
  split
  · intro cl hcl y hy
    rcases List.mem_or_eq_of_mem_set hcl with h1 | h1
    · exact h cl h1 y hy
    · subst h1
      rcases List.mem_or_eq_of_mem_set hy with h2 | h2
      · have : c.getD col [] ∈ c := by
          rw [List.getD_eq_getElem?_getD, List.getElem?_eq_getElem (by assumption)]
          exact List.getElem_mem _
        exact h _ this y h2
      · exact Or.inr (h2 ▸ hx)
  · exact h

/-! ## the partial-product matrix -/

def wRowStep (bi : Label) (i : Nat) (acc : Prog Mat) (aj : Label × Nat) : Prog Mat := do
  let cc ← acc
  let g ← emitTT aj.1 bi t0001
  pure (matSet cc (i + aj.2) i g)

theorem semF_emitTT {x y : Label} {t : TT} {v : Label → Bool} {l : Label} (h : SemF P (emitTT x y t) v l) :
    v l = ttApply t (v x) (v y) ∧ P l := ⟨sem_emitTT (semF_sem h), fr_emitTT (semF_fr h)⟩

theorem semF_wRowFold {v : Label → Bool} {bi : Label} {i W R : Nat} (hPQ : ∀ l, P l → Q l) (hQ : ∀ l, Q l → l ≠ PH) :
    ∀ (a : List Label) (s : Nat) (acc : Prog Mat) (out : Mat),
    SemF P ((a.zipIdx s).foldl (wRowStep bi i) acc) v out →
    ∃ c0, SemF P acc v c0 ∧ (Rect c0 W R → QM Q c0 → i < R → i + s + a.length ≤ W →
      (∀ k, i + s ≤ k → k < W → entry c0 k i = PH) →
      Rect out W R ∧ QM Q out ∧ MV v out = MV v c0 + 2 ^ (i + s) * (bv v bi * valLE v a) ∧
      (∀ col row, row ≠ i → entry out col row = entry c0 col row) ∧
      (∀ col, entry out col i = PH ↔ entry c0 col i = PH ∧ ¬ (i + s ≤ col ∧ col < i + s + a.length))) := by
  intro a
  induction a with
  | nil =>
    intro s acc out h
    exact ⟨out, h, fun hr hq _ _ _ => ⟨hr, hq, by simp [valLE], fun _ _ _ => rfl, fun col => by simp⟩⟩
  | cons x t ih =>
    intro s acc out h
    simp only [List.zipIdx_cons, List.foldl_cons] at h
    obtain ⟨c1, h1, hrel⟩ := ih (s + 1) _ out h
    simp only [wRowStep, semF_bind, semF_pure] at h1
    obtain ⟨cc, hcc, g, hg, rfl⟩ := h1
    refine ⟨cc, hcc, ?_⟩
    intro hr hq hi hlen hph
    simp only [List.length_cons] at hlen
    obtain ⟨hgv, hgp⟩ := semF_emitTT hg
    have hgne : g ≠ PH := hQ g (hPQ g hgp)
    have hcol : i + s < W := by omega
    obtain ⟨r1, r2, r3, r4, r5⟩ := hrel (rect_matSet hr _ _ _) (qm_matSet hq _ _ (hPQ g hgp)) hi (by omega) (by
      intro k hk1 hk2
      rw [entry_matSet hr hcol hi, if_neg (by omega)]
      exact hph k (by omega) hk2)
    refine ⟨r1, r2, ?_, ?_, ?_⟩
    rotate_left 2
    · intro col
      rw [r5 col, entry_matSet hr hcol hi]
      simp only [List.length_cons]
      by_cases hc : col = i + s
      · subst hc
        simp only [true_and, if_true]
        constructor
        · intro h; exact absurd h.1 hgne
        · intro h; exfalso; apply h.2; omega
      · rw [if_neg (fun h => hc h.1)]
        constructor
        · rintro ⟨h1, h2⟩; exact ⟨h1, by omega⟩
        · rintro ⟨h1, h2⟩; exact ⟨h1, by omega⟩
    · rw [r3, mv_matSet v hr hcol hi (hph (i + s) (Nat.le_refl _) hcol) hgne]
      have hb : bv v g = bv v bi * bv v x := by
        simp only [bv, hgv]; cases v x <;> cases v bi <;> rfl
      rw [hb]
      simp only [valLE]
      have e : i + (s + 1) = i + s + 1 := by omega
      rw [e, Nat.pow_succ]
      generalize 2 ^ (i + s) = T
      generalize bv v bi = B
      generalize bv v x = X
      generalize valLE v t = Y
      rw [Nat.mul_add, Nat.mul_add]
      have : T * 2 * (B * Y) = T * (B * (2 * Y)) := by
        rw [Nat.mul_assoc, Nat.mul_left_comm 2 B Y]
      omega
    · intro col row hrow
      rw [r4 col row hrow, entry_matSet hr hcol hi, if_neg (fun h => hrow h.2)]

theorem semF_ppMatrix {v : Label → Bool} {a : List Label} {W R : Nat} (hPQ : ∀ l, P l → Q l) (hQ : ∀ l, Q l → l ≠ PH) :
    ∀ (b : List Label) (s : Nat) (c out : Mat), SemF P (ppMatrix a (b.zipIdx s) c) v out →
    Rect c W R → QM Q c → s + b.length ≤ R → (b ≠ [] → a.length + s + b.length ≤ W + 1) →
    (∀ col row, s ≤ row → col < W → entry c col row = PH) →
    Rect out W R ∧ QM Q out ∧ MV v out = MV v c + 2 ^ s * (valLE v a * valLE v b) ∧
    (∀ col row, entry out col row = PH ↔ entry c col row = PH ∧
      ¬ (s ≤ row ∧ row < s + b.length ∧ row ≤ col ∧ col < row + a.length)) := by
  intro b
  induction b with
  | nil =>
    intro s c out h hr hq _ _ _
    simp only [List.zipIdx_nil, ppMatrix, semF_pure] at h
    subst h
    exact ⟨hr, hq, by simp [valLE], fun col row => by simp; omega⟩
  | cons bi r ih =>
    intro s c out h hr hq hlen hw hph
    simp only [List.zipIdx_cons, ppMatrix, semF_bind] at h
    obtain ⟨c', hc', hrec⟩ := h
    have hc'' : SemF P ((a.zipIdx 0).foldl (wRowStep bi s) (pure c)) v c' := hc'
    obtain ⟨c0, h0, hrow⟩ := semF_wRowFold (W := W) (R := R) hPQ hQ a 0 _ c' hc''
    have h0' : c0 = c := semF_pure.mp h0
    rw [h0'] at hrow
    simp only [List.length_cons] at hlen hw
    have hw' := hw (by simp)
    obtain ⟨r1, r2, r3, r4, r5⟩ := hrow hr hq (by omega) (by omega) (fun k _ hk => hph k s (Nat.le_refl _) hk)
    obtain ⟨q1, q2, q3, q4⟩ := ih (s + 1) c' out hrec r1 r2 (by omega) (fun _ => by omega) (by
      intro col row hrow hcol
      rw [r4 col row (by omega)]
      exact hph col row (by omega) hcol)
    refine ⟨q1, q2, ?_, ?_⟩
    rotate_left 1
    · intro col row
      rw [q4 col row]
      by_cases hrs : row = s
      · subst hrs
        rw [r5 col]
        simp only [Nat.add_zero, List.length_cons]
        constructor
        · rintro ⟨⟨h1, h2⟩, _⟩; exact ⟨h1, by omega⟩
        · rintro ⟨h1, h2⟩; exact ⟨⟨h1, by omega⟩, by omega⟩
      · rw [r4 col row hrs]
        simp only [List.length_cons]
        constructor
        · rintro ⟨h1, h2⟩; exact ⟨h1, by omega⟩
        · rintro ⟨h1, h2⟩; exact ⟨h1, by omega⟩
    rw [q3, r3]
    simp only [valLE, Nat.add_zero, Nat.pow_succ]
    generalize 2 ^ s = T
    generalize bv v bi = B
    generalize valLE v a = A
    generalize valLE v r = Y
    generalize MV v c = M
    have e1 : T * 2 * (A * Y) = T * (A * (2 * Y)) := by rw [Nat.mul_assoc, Nat.mul_left_comm 2 A Y]
    have e2 : T * (A * (B + 2 * Y)) = T * (B * A) + T * (A * (2 * Y)) := by
      rw [Nat.mul_add A, Nat.mul_add T, Nat.mul_comm A B]
    omega

/-! ## one reduction round -/

theorem semF_progFold_range' {σ : Type} {v : Label → Bool} {f : σ → Nat → Prog σ} (I : Nat → σ → Prop) :
    ∀ (len a : Nat) (s out : σ), I a s →
    (∀ i s s', a ≤ i → i < a + len → I i s → SemF P (f s i) v s' → I (i + 1) s') →
    SemF P (progFold (List.range' a len) s f) v out → I (a + len) out := by
  intro len
  induction len with
  | zero => intro a s out h0 _ h; simp only [List.range'_zero, progFold, semF_pure] at h; subst h; exact h0
  | succ len ih =>
    intro a s out h0 hstep h
    simp only [List.range'_succ, progFold, semF_bind] at h
    obtain ⟨s1, h1, h2⟩ := h
    have := ih (a + 1) s1 out (hstep a s s1 (Nat.le_refl _) (by omega) h0 h1)
      (fun i s s' hi1 hi2 hp hs => hstep i s s' (by omega) (by omega) hp hs) h2
    rw [show a + (len + 1) = a + 1 + len by omega]; exact this

theorem progFold_map {σ : Type} (g : Nat → Nat) (f : σ → Nat → Prog σ) : ∀ (l : List Nat) (s : σ),
    progFold (l.map g) s f = progFold l s (fun s i => f s (g i)) := by
  intro l
  induction l with
  | nil => intro s; rfl
  | cons x r ih => intro s; simp only [List.map_cons, progFold]; congr 1; funext s'; exact ih s'

/-- the (up to three) entries of a column in rows `row, row+1, row+2` that are not placeholders -/
def inp3 (column : List Label) (row : Nat) : List Label :=
  ([row, row + 1, row + 2].map (fun k => column.getD k PH)).filter (fun x => x != PH)

def wPlace (width col g2 : Nat) (cn : Mat) (res : List Label) : Mat :=
  (res.zipIdx).foldl (fun (acc : Mat) (ri : Label × Nat) =>
    if col + ri.2 < width then matSet acc (col + ri.2) (g2 + ri.2) ri.1 else acc) cn

def wColStep (c : Mat) (width row : Nat) (cn : Mat) (col : Nat) : Prog Mat := do
  let inp := inp3 (c.getD col []) row
  if inp.isEmpty then pure cn else do
    let res ← addSumNBits inp (.enum .xaig) false
    pure (wPlace width col (2 * (row / 3)) cn res)

theorem inp3_len (column : List Label) (row : Nat) : (inp3 column row).length ≤ 3 := by
  unfold inp3
  exact Nat.le_trans (List.length_filter_le _ _) (by simp)

theorem inp3_q {column : List Label} (hq : ∀ x ∈ column, x = PH ∨ Q x) (row : Nat) : ∀ x ∈ inp3 column row, Q x := by
  intro x hx
  unfold inp3 at hx
  obtain ⟨h1, h2⟩ := List.mem_filter.mp hx
  have hne : x ≠ PH := by simpa using h2
  obtain ⟨k, _, rfl⟩ := List.mem_map.mp h1
  rcases Nat.lt_or_ge k column.length with hk | hk
  · have : column.getD k PH ∈ column := by
      rw [List.getD_eq_getElem?_getD, List.getElem?_eq_getElem hk]; exact List.getElem_mem _
    rcases hq _ this with h | h
    · exact absurd h hne
    · exact h
  · rw [List.getD_eq_getElem?_getD, List.getElem?_eq_none hk] at hne
    exact absurd rfl hne

/-- placing the one or two result bits of a column sum -/
theorem wPlace_spec (v : Label → Bool) (hQ : ∀ l, Q l → l ≠ PH) {cn : Mat} {W R2 col g2 : Nat} {res : List Label}
    (hr : Rect cn W R2) (hq : QM Q cn) (hc : col < W) (hg : g2 + 1 < R2)
    (hres : (∃ r0, res = [r0] ∧ Q r0) ∨ (∃ r0 r1, res = [r0, r1] ∧ Q r0 ∧ Q r1))
    (hp0 : entry cn col g2 = PH) (hp1 : col + 1 < W → entry cn (col + 1) (g2 + 1) = PH) :
    Rect (wPlace W col g2 cn res) W R2 ∧ QM Q (wPlace W col g2 cn res) ∧
    (∃ k, MV v (wPlace W col g2 cn res) + 2 ^ W * k = MV v cn + 2 ^ col * valLE v res) ∧
    (∀ a b, ¬ (a = col ∧ b = g2) → ¬ (a = col + 1 ∧ b = g2 + 1) → entry (wPlace W col g2 cn res) a b = entry cn a b) := by
  rcases hres with ⟨r0, rfl, q0⟩ | ⟨r0, r1, rfl, q0, q1⟩
  · simp only [wPlace, List.zipIdx_cons, List.zipIdx_nil, List.foldl_cons, List.foldl_nil, Nat.add_zero, hc, if_true]
    refine ⟨rect_matSet hr _ _ _, qm_matSet hq _ _ q0, ⟨0, ?_⟩, ?_⟩
    · rw [mv_matSet v hr hc (by omega) hp0 (hQ _ q0)]; simp [valLE]
    · intro a b h1 _
      rw [entry_matSet hr hc (by omega), if_neg h1]
  · simp only [wPlace, List.zipIdx_cons, List.zipIdx_nil, List.foldl_cons, List.foldl_nil, Nat.add_zero, hc, if_true,
      Nat.zero_add]
    have hr1 := rect_matSet hr col g2 r0
    have hq1 := qm_matSet hq col g2 q0
    have hmv1 := mv_matSet v hr hc (by omega : g2 < R2) hp0 (hQ _ q0)
    by_cases hc1 : col + 1 < W
    · rw [if_pos hc1]
      have hp1' : entry (matSet cn col g2 r0) (col + 1) (g2 + 1) = PH := by
        rw [entry_matSet hr hc (by omega), if_neg (by omega)]; exact hp1 hc1
      refine ⟨rect_matSet hr1 _ _ _, qm_matSet hq1 _ _ q1, ⟨0, ?_⟩, ?_⟩
      · rw [mv_matSet v hr1 hc1 hg hp1' (hQ _ q1), hmv1]
        simp only [valLE, Nat.mul_zero, Nat.add_zero, Nat.pow_succ]
        generalize 2 ^ col = T
        rw [Nat.mul_add, ← Nat.mul_assoc]; omega
      · intro a b h1 h2
        rw [entry_matSet hr1 hc1 hg, if_neg h2, entry_matSet hr hc (by omega), if_neg h1]
    · rw [if_neg hc1]
      have hW : W = col + 1 := by omega
      refine ⟨hr1, hq1, ⟨bv v r1, ?_⟩, ?_⟩
      · rw [hmv1, hW]
        simp only [valLE, Nat.mul_zero, Nat.add_zero, Nat.pow_succ]
        generalize 2 ^ col = T
        rw [Nat.mul_add, ← Nat.mul_assoc]; omega
      · intro a b h1 _
        rw [entry_matSet hr hc (by omega), if_neg h1]

def colSum (v : Label → Bool) (c : Mat) (row col : Nat) : Nat := 2 ^ col * cnt v (inp3 (c.getD col []) row)

structure ColInv (v : Label → Bool) (Q : Label → Prop) (c cnS : Mat) (W R2 row g2 : Nat) (col : Nat) (cn : Mat) : Prop where
  rect : Rect cn W R2
  qm : QM Q cn
  val : ∃ K, MV v cn + 2 ^ W * K = MV v cnS + sumR col (colSum v c row)
  p0 : ∀ col', col ≤ col' → col' < W → entry cn col' g2 = PH
  p1 : ∀ col', col ≤ col' → col' + 1 < W → entry cn (col' + 1) (g2 + 1) = PH
  other : ∀ a b, b ≠ g2 → b ≠ g2 + 1 → entry cn a b = entry cnS a b

theorem qm_getD {c : Mat} (h : QM Q c) (k : Nat) : ∀ x ∈ c.getD k [], x = PH ∨ Q x := by
  intro x hx
  rcases Nat.lt_or_ge k c.length with hk | hk
  · have : c.getD k [] ∈ c := by
      rw [List.getD_eq_getElem?_getD, List.getElem?_eq_getElem hk]; exact List.getElem_mem _
    exact h _ this x hx
  · rw [List.getD_eq_getElem?_getD, List.getElem?_eq_none hk] at hx
    cases hx

theorem semF_wColStep {v : Label → Bool} (hPQ : ∀ l, P l → Q l) (hQ : ∀ l, Q l → l ≠ PH)
    {c cnS : Mat} {W R2 row g2 : Nat} (hqc : QM Q c) (hg2 : g2 = 2 * (row / 3)) (hg : g2 + 1 < R2)
    {col : Nat} {cn cn' : Mat} (hc : col < W) (inv : ColInv v Q c cnS W R2 row g2 col cn)
    (h : SemF P (wColStep c W row cn col) v cn') : ColInv v Q c cnS W R2 row g2 (col + 1) cn' := by
  unfold wColStep at h
  simp only at h
  obtain ⟨K, hK⟩ := inv.val
  split at h
  · rename_i hemp
    rw [semF_pure] at h; subst h
    have : inp3 (c.getD col []) row = [] := by simpa using hemp
    refine ⟨inv.rect, inv.qm, ⟨K, ?_⟩, fun c' h1 h2 => inv.p0 c' (by omega) h2, fun c' h1 h2 => inv.p1 c' (by omega) h2, inv.other⟩
    rw [sumR_succ, hK]
    have : colSum v c row col = 0 := by unfold colSum; rw [this]; simp [cnt_nil]
    rw [this]; rfl
  · rename_i hne
    simp only [semF_bind, semF_pure] at h
    obtain ⟨res, hres, rfl⟩ := h
    have hlen1 : 1 ≤ (inp3 (c.getD col []) row).length := by
      cases hi : inp3 (c.getD col []) row with
      | nil => rw [hi] at hne; simp at hne
      | cons _ _ => simp
    have hinq := inp3_q (Q := Q) (qm_getD hqc col) row
    have hval := sem_addSumNBits (semF_sem hres)
    simp only [revIf, Bool.false_eq_true, if_false] at hval
    have hshape : (∃ r0, res = [r0] ∧ Q r0) ∨ (∃ r0 r1, res = [r0, r1] ∧ Q r0 ∧ Q r1) := by
      rcases sumSmall_shape hlen1 (inp3_len _ _) (semF_fr hres) with ⟨a, ha, hr⟩ | ⟨r0, r1, hr, p0, p1⟩
      · exact Or.inl ⟨a, hr, hinq a (by rw [ha]; simp)⟩
      · exact Or.inr ⟨r0, r1, hr, hPQ _ p0, hPQ _ p1⟩
    rw [← hg2]
    obtain ⟨w1, w2, ⟨k, w3⟩, w4⟩ := wPlace_spec v hQ inv.rect inv.qm hc hg hshape (inv.p0 col (Nat.le_refl _) hc)
      (fun h1 => inv.p1 col (Nat.le_refl _) h1)
    refine ⟨w1, w2, ⟨K + k, ?_⟩, ?_, ?_, ?_⟩
    · rw [sumR_succ, Nat.mul_add]
      have : colSum v c row col = 2 ^ col * valLE v res := by unfold colSum; rw [hval]
      rw [this]; omega
    · intro c' h1 h2
      rw [w4 c' g2 (by omega) (by omega)]
      exact inv.p0 c' (by omega) h2
    · intro c' h1 h2
      rw [w4 (c' + 1) (g2 + 1) (by omega) (by omega)]
      exact inv.p1 c' (by omega) h2
    · intro a b hb0 hb1
      rw [w4 a b (fun h => hb0 h.2) (fun h => hb1 h.2)]
      exact inv.other a b hb0 hb1

/-- the loop over the columns for one group of three rows -/
theorem semF_colLoop {v : Label → Bool} (hPQ : ∀ l, P l → Q l) (hQ : ∀ l, Q l → l ≠ PH)
    {c cnS cn' : Mat} {W R2 row g2 : Nat} (hqc : QM Q c) (hg2 : g2 = 2 * (row / 3)) (hg : g2 + 1 < R2)
    (h0 : ColInv v Q c cnS W R2 row g2 0 cnS)
    (h : SemF P (progFold (List.range W) cnS (wColStep c W row)) v cn') :
    ColInv v Q c cnS W R2 row g2 W cn' := by
  rw [List.range_eq_range'] at h
  have := semF_progFold_range' (P := P) (v := v) (f := wColStep c W row) (ColInv v Q c cnS W R2 row g2) W 0 cnS cn' h0
    (fun i s s' _ hi hp hs => semF_wColStep hPQ hQ hqc hg2 hg (by omega) hp hs) h
  simpa using this

structure GrpInv (v : Label → Bool) (Q : Label → Prop) (c : Mat) (W R2 : Nat) (g : Nat) (cn : Mat) : Prop where
  rect : Rect cn W R2
  qm : QM Q cn
  val : ∃ K, MV v cn + 2 ^ W * K = sumR g (fun g' => sumR W (colSum v c (g' * 3)))
  pend : ∀ a b, 2 * g ≤ b → entry cn a b = PH

theorem semF_grpStep {v : Label → Bool} (hPQ : ∀ l, P l → Q l) (hQ : ∀ l, Q l → l ≠ PH)
    {c : Mat} {W R2 : Nat} (hqc : QM Q c) {g : Nat} (hg : 2 * g + 1 < R2) {cn cn' : Mat}
    (inv : GrpInv v Q c W R2 g cn)
    (h : SemF P (progFold (List.range W) cn (wColStep c W (g * 3))) v cn') : GrpInv v Q c W R2 (g + 1) cn' := by
  obtain ⟨K, hK⟩ := inv.val
  have hg2 : 2 * g = 2 * (g * 3 / 3) := by rw [Nat.mul_div_cancel _ (by omega : 0 < 3)]
  have h0 : ColInv v Q c cn W R2 (g * 3) (2 * g) 0 cn :=
    ⟨inv.rect, inv.qm, ⟨0, by simp [sumR_zero]⟩, fun c' _ _ => inv.pend c' _ (Nat.le_refl _),
      fun c' _ _ => inv.pend _ _ (by omega), fun _ _ _ _ => rfl⟩
  have hend := semF_colLoop hPQ hQ hqc hg2 hg h0 h
  obtain ⟨K', hK'⟩ := hend.val
  refine ⟨hend.rect, hend.qm, ⟨K + K', ?_⟩, ?_⟩
  · rw [sumR_succ, Nat.mul_add]; omega
  · intro a b hb
    rw [hend.other a b (by omega) (by omega)]
    exact inv.pend a b (by omega)

/-! ### accounting: the matrix as a sum over columns and groups of three rows -/

theorem colsVal_sumR (v : Label → Bool) : ∀ (l : Mat), colsVal v l = sumR l.length (fun k => 2 ^ k * cnt v (l.getD k [])) := by
  intro l
  induction l with
  | nil => rfl
  | cons x r ih =>
    rw [List.length_cons, sumR_succ']
    simp only [colsVal, List.getD_cons_zero, List.getD_cons_succ, Nat.pow_zero, Nat.one_mul, Nat.pow_succ]
    rw [ih, ← sumR_mul]
    congr 1
    apply sumR_congr; intro j _; rw [Nat.mul_comm (2 ^ j) 2, Nat.mul_assoc]

theorem mv_sumR (v : Label → Bool) {c : Mat} {W R : Nat} (h : Rect c W R) :
    MV v c = sumR W (fun col => 2 ^ col * cnt v (nonPH (c.getD col []))) := by
  unfold MV
  rw [colsVal_sumR, List.length_map, h.w]
  apply sumR_congr
  intro col hcol
  congr 2
  simp only [List.getD_eq_getElem?_getD, List.getElem?_map]
  rw [List.getElem?_eq_getElem (by rw [h.w]; exact hcol)]
  simp

theorem nonPH_append (a b : List Label) : nonPH (a ++ b) = nonPH a ++ nonPH b := by
  unfold nonPH; simp

theorem column_groups (v : Label → Bool) (L : List Label) : ∀ (G : Nat), G * 3 ≤ L.length →
    cnt v (nonPH L) = sumR G (fun g => cnt v (inp3 L (g * 3))) + cnt v (nonPH (L.drop (G * 3))) := by
  intro G
  induction G with
  | zero => intro _; simp [sumR_zero]
  | succ G ih =>
    intro hlen
    rw [ih (by omega), sumR_succ]
    have hd : L.drop (G * 3) = [L.getD (G * 3) PH, L.getD (G * 3 + 1) PH, L.getD (G * 3 + 2) PH] ++ L.drop ((G + 1) * 3) := by
      have e : (G + 1) * 3 = G * 3 + 3 := by omega
      rw [e]
      rw [List.drop_eq_getElem_cons (by omega : G * 3 < L.length),
        List.drop_eq_getElem_cons (by omega : G * 3 + 1 < L.length),
        List.drop_eq_getElem_cons (by omega : G * 3 + 1 + 1 < L.length)]
      simp only [List.getD_eq_getElem?_getD]
      rw [List.getElem?_eq_getElem (by omega : G * 3 < L.length), List.getElem?_eq_getElem (by omega : G * 3 + 1 < L.length),
        List.getElem?_eq_getElem (by omega : G * 3 + 2 < L.length)]
      simp
    rw [hd, nonPH_append, cnt_append]
    have : inp3 L (G * 3) = nonPH [L.getD (G * 3) PH, L.getD (G * 3 + 1) PH, L.getD (G * 3 + 2) PH] := rfl
    rw [this]; omega

theorem mv_zipIdx_ext (v : Label → Bool) (ext : Nat → List Label) : ∀ (cn : Mat) (s : Nat),
    colsVal v (((cn.zipIdx s).map (fun (ci : List Label × Nat) => ci.1 ++ ext ci.2)).map nonPH) =
      colsVal v (cn.map nonPH) + sumR cn.length (fun k => 2 ^ k * cnt v (nonPH (ext (s + k)))) := by
  intro cn
  induction cn with
  | nil => intro s; rfl
  | cons x r ih =>
    intro s
    simp only [List.zipIdx_cons, List.map_cons, colsVal, List.length_cons]
    rw [ih (s + 1), sumR_succ', nonPH_append, cnt_append]
    simp only [Nat.pow_zero, Nat.one_mul, Nat.add_zero]
    have : sumR r.length (fun i => 2 ^ (i + 1) * cnt v (nonPH (ext (s + (i + 1))))) =
        2 * sumR r.length (fun k => 2 ^ k * cnt v (nonPH (ext (s + 1 + k)))) := by
      rw [← sumR_mul]
      apply sumR_congr; intro i _
      rw [Nat.pow_succ, show s + (i + 1) = s + 1 + i by omega, Nat.mul_comm (2 ^ i) 2, Nat.mul_assoc]
    rw [this]; omega

theorem nonPH_replicate (n : Nat) : nonPH (List.replicate n PH) = [] := by
  unfold nonPH
  apply List.filter_eq_nil_iff.mpr
  intro x hx
  rw [List.eq_of_mem_replicate hx]; simp

theorem entry_replicate (W R2 a b : Nat) : entry (List.replicate W (List.replicate R2 PH)) a b = PH := by
  unfold entry
  simp only [List.getD_eq_getElem?_getD, List.getElem?_replicate]
  split
  · simp only [Option.getD_some, List.getElem?_replicate]; split <;> rfl
  · rfl

/-- **one Wallace round keeps the number** (modulo `2^width`: carries out of the top column are dropped) -/
theorem semF_wallaceRound {v : Label → Bool} (hPQ : ∀ l, P l → Q l) (hQ : ∀ l, Q l → l ≠ PH)
    {c c' : Mat} {W R : Nat} (hW : 1 ≤ W) (hr : Rect c W R) (hq : QM Q c)
    (h : SemF P (wallaceRound W c) v c') :
    Rect c' W (2 * (R / 3) + R % 3) ∧ QM Q c' ∧ ∃ K, MV v c = MV v c' + 2 ^ W * K := by
  have hrows : (c.headD []).length = R := by
    cases hc : c with
    | nil => have := hr.w; rw [hc] at this; simp at this; omega
    | cons x t => simp only [List.headD_cons]; exact hr.r x (by rw [hc]; simp)
  unfold wallaceRound at h
  simp only [hrows, semF_bind, semF_pure] at h
  obtain ⟨cn, hcn, rfl⟩ := h
  have hfull : (R - R % 3) / 3 = R / 3 := by omega
  rw [hfull, progFold_map] at hcn
  have hcn' : SemF P (progFold (List.range (R / 3)) (List.replicate W (List.replicate (2 * (R / 3)) PH))
      (fun cn g => progFold (List.range W) cn (wColStep c W (g * 3)))) v cn := hcn
  rw [List.range_eq_range'] at hcn'
  have hinit : GrpInv v Q c W (2 * (R / 3)) 0 (List.replicate W (List.replicate (2 * (R / 3)) PH)) := by
    refine ⟨⟨by simp, fun col hcol => by rw [List.eq_of_mem_replicate hcol]; simp⟩, ?_, ⟨0, ?_⟩, fun a b _ => entry_replicate _ _ a b⟩
    · intro col hcol x hx
      rw [List.eq_of_mem_replicate hcol] at hx
      exact Or.inl (List.eq_of_mem_replicate hx)
    · unfold MV
      rw [colsVal_empty_cols]
      · simp [sumR_zero]
      · intro col hcol
        obtain ⟨y, hy, rfl⟩ := List.mem_map.mp hcol
        rw [List.eq_of_mem_replicate hy]; exact nonPH_replicate _
  have hend := semF_progFold_range' (P := P) (v := v) (GrpInv v Q c W (2 * (R / 3))) (R / 3) 0 _ cn hinit
    (fun g s s' _ hg hp hs => semF_grpStep hPQ hQ hq (by omega) hp hs) hcn'
  simp only [Nat.zero_add] at hend
  obtain ⟨K, hK⟩ := hend.val
  have hfull' : R - R % 3 = R / 3 * 3 := by omega
  refine ⟨⟨by simp [hend.rect.w], ?_⟩, ?_, ⟨K, ?_⟩⟩
  · intro col hcol
    obtain ⟨⟨ci, i⟩, hci, rfl⟩ := List.mem_map.mp hcol
    rw [List.mem_zipIdx_iff_getElem?] at hci
    simp only [Nat.zero_add] at hci
    have hi : i < cn.length := (List.getElem?_eq_some_iff.mp hci).1
    have hcim : ci ∈ cn := List.mem_of_getElem? hci
    simp only [List.length_append, List.length_drop, hend.rect.r ci hcim,
      rect_getD hr (by rw [← hend.rect.w]; exact hi)]
    omega
  · intro col hcol x hx
    obtain ⟨⟨ci, i⟩, hci, rfl⟩ := List.mem_map.mp hcol
    rw [List.mem_zipIdx_iff_getElem?] at hci
    have hcim : ci ∈ cn := List.mem_of_getElem? hci
    rcases List.mem_append.mp hx with h1 | h1
    · exact hend.qm ci hcim x h1
    · exact qm_getD hq i x (List.mem_of_mem_drop h1)
  · have hmvc' : MV v (cn.zipIdx.map (fun (ci : List Label × Nat) => ci.1 ++ (c.getD ci.2 []).drop (R - R % 3))) =
        MV v cn + sumR W (fun col => 2 ^ col * cnt v (nonPH ((c.getD col []).drop (R - R % 3)))) := by
      unfold MV
      have := mv_zipIdx_ext v (fun i => (c.getD i []).drop (R - R % 3)) cn 0
      rw [hend.rect.w] at this
      simpa using this
    rw [hmvc', mv_sumR v hr]
    have hcol : ∀ col, col < W → 2 ^ col * cnt v (nonPH (c.getD col [])) =
        sumR (R / 3) (fun g => colSum v c (g * 3) col) + 2 ^ col * cnt v (nonPH ((c.getD col []).drop (R - R % 3))) := by
      intro col hcol
      have := column_groups v (c.getD col []) (R / 3) (by rw [rect_getD hr hcol]; omega)
      rw [this, Nat.mul_add, ← sumR_mul, hfull']
      rfl
    rw [sumR_congr hcol, sumR_add, sumR_swap W (R / 3) (fun g col => colSum v c (g * 3) col), ← hK]
    omega

/-! ## the rounds -/

theorem semF_wallaceRounds {v : Label → Bool} (hPQ : ∀ l, P l → Q l) (hQ : ∀ l, Q l → l ≠ PH) {W : Nat} (hW : 1 ≤ W) :
    ∀ (fuel : Nat) (c c' : Mat) (R : Nat), Rect c W R → QM Q c → SemF P (wallaceRounds W fuel c) v c' →
    Rect c' W 2 ∧ QM Q c' ∧ ∃ K, MV v c = MV v c' + 2 ^ W * K := by
  intro fuel
  induction fuel with
  | zero => intro c c' R _ _ h; exact absurd h semF_fail
  | succ fuel ih =>
    intro c c' R hr hq h
    have hrows : (c.headD []).length = R := by
      cases hc : c with
      | nil => have := hr.w; rw [hc] at this; simp at this; omega
      | cons x t => simp only [List.headD_cons]; exact hr.r x (by rw [hc]; simp)
    simp only [wallaceRounds, hrows] at h
    split at h
    · rename_i h2
      rw [semF_pure] at h; subst h
      have : R = 2 := by simpa using h2
      subst this
      exact ⟨hr, hq, 0, by simp⟩
    · simp only [semF_bind] at h
      obtain ⟨c1, h1, hrec⟩ := h
      obtain ⟨r1, q1, K1, k1⟩ := semF_wallaceRound hPQ hQ hW hr hq h1
      obtain ⟨r2, q2, K2, k2⟩ := ih c1 c' _ r1 q1 hrec
      exact ⟨r2, q2, K1 + K2, by rw [k1, k2, Nat.mul_add]; omega⟩

/-! ## the two remaining rows as numbers -/

theorem pairwise_lt_range (W : Nat) : (List.range W).Pairwise (· < ·) := by
  rw [List.range_eq_range']
  exact List.pairwise_lt_range'

/-- the used positions of a row: facts about the first and the last one -/
theorem used_facts (p : Nat → Bool) (W : Nat) {f t : Nat} {rest : List Nat}
    (hl : (List.range W).filter p = f :: rest) (ht : (f :: rest).getLast? = some t) :
    f ≤ t ∧ t < W ∧ p f = true ∧ p t = true ∧ (∀ i, i < f → p i = false) ∧ (∀ i, t < i → i < W → p i = false) ∧
    (f :: rest).length ≤ t + 1 - f ∧
    ((f :: rest).length = t + 1 - f → ∀ i, f ≤ i → i ≤ t → p i = true) := by
  have hsorted : (f :: rest).Pairwise (· < ·) := by
    rw [← hl]; exact (pairwise_lt_range W).sublist List.filter_sublist
  have hmem : ∀ x, x ∈ f :: rest ↔ x < W ∧ p x = true := by
    intro x; rw [← hl]; simp [List.mem_filter]
  have htm : t ∈ f :: rest := List.mem_of_getLast? ht
  have hfm := (hmem f).mp (by simp)
  have htm' := (hmem t).mp htm
  have hft : f ≤ t := by
    rcases List.mem_cons.mp htm with h | h
    · omega
    · have := (List.pairwise_cons.mp hsorted).1 t h; omega
  have hlow : ∀ i, i < f → p i = false := by
    intro i hi
    cases hp : p i with
    | false => rfl
    | true =>
      exfalso
      have him := (hmem i).mpr ⟨by omega, hp⟩
      rcases List.mem_cons.mp him with h | h
      · omega
      · have := (List.pairwise_cons.mp hsorted).1 i h; omega
  have hhigh : ∀ i, t < i → i < W → p i = false := by
    intro i hi hiW
    cases hp : p i with
    | false => rfl
    | true =>
      exfalso
      have him := (hmem i).mpr ⟨hiW, hp⟩
      -- `t` is the last element of a strictly increasing list: every element is ≤ t
      have hall : ∀ x ∈ f :: rest, x ≤ t := by
        obtain ⟨init, hinit⟩ := List.getLast?_eq_some_iff.mp ht
        rw [hinit] at hsorted ⊢
        intro x hx
        rcases List.mem_append.mp hx with h | h
        · have := (List.pairwise_append.mp hsorted).2.2 x h t (by simp); omega
        · simp at h; omega
      have := hall i him; omega
  -- the filtered list is the filter of the segment [f, t]
  have hsplit : List.range W = List.range' 0 f ++ (List.range' f (t + 1 - f) ++ List.range' (t + 1) (W - (t + 1))) := by
    rw [List.range_eq_range']
    have e1 : List.range' f (t + 1 - f) ++ List.range' (t + 1) (W - (t + 1)) = List.range' f (W - f) := by
      have := List.range'_append_1 (s := f) (m := t + 1 - f) (n := W - (t + 1))
      rw [show f + (t + 1 - f) = t + 1 by omega] at this
      rw [this]; congr 1; omega
    rw [e1]
    have := List.range'_append_1 (s := 0) (m := f) (n := W - f)
    rw [Nat.zero_add] at this
    rw [this]; congr 1; omega
  have h1 : (List.range' 0 f).filter p = [] := by
    apply List.filter_eq_nil_iff.mpr
    intro x hx
    have := List.mem_range'_1.mp hx
    rw [hlow x (by omega)]; simp
  have h3 : (List.range' (t + 1) (W - (t + 1))).filter p = [] := by
    apply List.filter_eq_nil_iff.mpr
    intro x hx
    have := List.mem_range'_1.mp hx
    rw [hhigh x (by omega) (by omega)]; simp
  have hseg : (List.range' f (t + 1 - f)).filter p = f :: rest := by
    rw [← hl, hsplit, List.filter_append, List.filter_append, h1, h3]; simp
  have hle : (f :: rest).length ≤ t + 1 - f := by
    rw [← hseg]
    exact Nat.le_trans (List.length_filter_le _ _) (by simp)
  refine ⟨hft, htm'.1, hfm.2, htm'.2, hlow, hhigh, hle, ?_⟩
  intro hlen i hi1 hi2
  have hfull : (List.range' f (t + 1 - f)).filter p = List.range' f (t + 1 - f) := by
    apply List.Sublist.eq_of_length List.filter_sublist
    rw [hseg, hlen]; simp
  have := List.filter_eq_self.mp hfull i (List.mem_range'_1.mpr ⟨hi1, by omega⟩)
  exact this

/-! ## the matrix as a sum over its cells -/

def cellVal (v : Label → Bool) (c : Mat) (col row : Nat) : Nat :=
  if entry c col row = PH then 0 else 2 ^ col * bv v (entry c col row)

theorem cnt_nonPH_cells (v : Label → Bool) : ∀ (L : List Label),
    cnt v (nonPH L) = sumR L.length (fun r => if L.getD r PH = PH then 0 else bv v (L.getD r PH)) := by
  intro L
  induction L with
  | nil => rfl
  | cons x t ih =>
    rw [List.length_cons, sumR_succ']
    simp only [List.getD_cons_zero, List.getD_cons_succ]
    unfold nonPH at ih ⊢
    rw [List.filter_cons]
    by_cases hx : x = PH
    · subst hx
      simp only [bne_self_eq_false, Bool.false_eq_true, if_false, if_true, Nat.zero_add]
      exact ih
    · have : (x != PH) = true := by simpa using hx
      rw [this, if_pos rfl, if_neg hx, cnt_cons, ih]

theorem mv_cells (v : Label → Bool) {c : Mat} {W R : Nat} (h : Rect c W R) :
    MV v c = sumR W (fun col => sumR R (fun row => cellVal v c col row)) := by
  rw [mv_sumR v h]
  apply sumR_congr
  intro col hcol
  rw [cnt_nonPH_cells, rect_getD h hcol, ← sumR_mul]
  apply sumR_congr
  intro row _
  unfold cellVal entry
  split
  · simp
  · rfl

theorem valLE_map_range' (v : Label → Bool) (F : Nat → Label) : ∀ (n s : Nat),
    valLE v ((List.range' s n).map F) = sumR n (fun j => 2 ^ j * bv v (F (s + j))) := by
  intro n
  induction n with
  | zero => intro s; rfl
  | succ n ih =>
    intro s
    rw [List.range'_succ, List.map_cons, sumR_succ']
    simp only [valLE, Nat.pow_zero, Nat.one_mul, Nat.add_zero]
    rw [ih (s + 1), ← sumR_mul]
    congr 1
    apply sumR_congr; intro j _
    rw [Nat.pow_succ, show s + 1 + j = s + (j + 1) by omega, Nat.mul_comm (2 ^ j) 2, Nat.mul_assoc]

/-- the value of row `k` -/
def rowVal (v : Label → Bool) (c : Mat) (W k : Nat) : Nat := sumR W (fun col => cellVal v c col k)

theorem mv_two_rows (v : Label → Bool) {c : Mat} {W : Nat} (h : Rect c W 2) :
    MV v c = rowVal v c W 0 + rowVal v c W 1 := by
  rw [mv_cells v h]
  unfold rowVal
  rw [← sumR_add]
  apply sumR_congr
  intro col _
  simp [sumR_succ, sumR_zero]

/-- the bit the final adder sees at a position of a row: the entry, or the constant-false bit -/
def selBit (c : Mat) (k : Nat) (zero : Label) (i : Nat) : Label :=
  if entry c i k == PH then zero else entry c i k

theorem rowBits_eq (c : Mat) (k first last : Nat) (zero : Label) :
    rowBits c k first last zero = (List.range' first (last + 1 - first)).map (selBit c k zero) := by
  unfold rowBits
  rw [List.range_eq_range', List.drop_range']
  simp only [Nat.zero_add, Nat.mul_one]
  rfl

/-- a row read as a number: if placeholders inside the used segment carry a false bit (or there are
none), the bits from the first to the last used position, shifted, are the row's value -/
theorem rowBits_val (v : Label → Bool) (c : Mat) (W k f t : Nat) (zero : Label) (htW : t < W) (hft : f ≤ t)
    (hlow : ∀ i, i < f → entry c i k = PH) (hhigh : ∀ i, t < i → i < W → entry c i k = PH)
    (hz : bv v zero = 0 ∨ ∀ i, f ≤ i → i ≤ t → entry c i k ≠ PH) :
    2 ^ f * valLE v (rowBits c k f t zero) = rowVal v c W k := by
  rw [rowBits_eq, valLE_map_range', ← sumR_mul]
  unfold rowVal
  -- split the positions into [0,f), [f,t], (t,W)
  have hW : W = f + ((t + 1 - f) + (W - (t + 1))) := by omega
  rw [hW, sumR_split, sumR_split]
  have z1 : sumR f (fun col => cellVal v c col k) = 0 := by
    rw [← sumR_const_zero f]
    apply sumR_congr; intro i hi
    unfold cellVal; rw [if_pos (hlow i hi)]
  have z3 : sumR (W - (t + 1)) (fun w => cellVal v c (f + (t + 1 - f + w)) k) = 0 := by
    rw [← sumR_const_zero (W - (t + 1))]
    apply sumR_congr; intro i hi
    unfold cellVal; rw [if_pos (hhigh _ (by omega) (by omega))]
  rw [z1, z3]
  simp only [Nat.zero_add, Nat.add_zero]
  apply sumR_congr
  intro j hj
  unfold cellVal selBit
  by_cases hp : entry c (f + j) k = PH
  · rw [if_pos hp]
    have : (entry c (f + j) k == PH) = true := by simpa using hp
    rw [this, if_pos rfl]
    rcases hz with hz | hz
    · rw [hz]; simp
    · exact absurd hp (hz (f + j) (by omega) (by omega))
  · rw [if_neg hp]
    have : (entry c (f + j) k == PH) = false := by simpa using hp
    rw [this]
    simp only [Bool.false_eq_true, if_false]
    rw [Nat.pow_add, Nat.mul_assoc]

theorem valLE_take_mod (v : Label → Bool) (l : List Label) (W : Nat) : valLE v (l.take W) = valLE v l % 2 ^ W := by
  rcases Nat.lt_or_ge l.length W with hl | hl
  · rw [List.take_of_length_le (Nat.le_of_lt hl)]
    have h1 := valLE_lt v l
    have h2 : 2 ^ l.length ≤ 2 ^ W := Nat.pow_le_pow_right (by omega) (by omega)
    rw [Nat.mod_eq_of_lt (by omega)]
  · have hs := valLE_append v (l.take W) (l.drop W)
    rw [List.take_append_drop, List.length_take, Nat.min_eq_left hl] at hs
    have hlt := valLE_lt v (l.take W)
    rw [List.length_take, Nat.min_eq_left hl] at hlt
    rw [hs, Nat.add_mul_mod_self_left, Nat.mod_eq_of_lt hlt]

theorem usedCols_eq (c : Mat) (k : Nat) : usedCols c k = (List.range c.length).filter (fun i => entry c i k != PH) := rfl

/-- the bits of one of the two remaining rows as the final adder receives them -/
theorem finalRow_val (v : Label → Bool) {c : Mat} {W : Nat} (hw : c.length = W) (k : Nat) (zero : Label) (first : Nat)
    (hfirst : first = 0 ∨ first = (usedCols c k).headD W)
    (hz : bv v zero = 0 ∨ (if first = 0 then (usedCols c k).length = (usedCols c k).getLast?.getD 0 + 1
      else (usedCols c k).length = (usedCols c k).getLast?.getD 0 + 1 - first)) :
    2 ^ first * valLE v (if (usedCols c k).isEmpty then [] else rowBits c k first ((usedCols c k).getLast?.getD 0) zero) =
      rowVal v c W k := by
  rw [usedCols_eq, hw] at *
  cases hu : (List.range W).filter (fun i => entry c i k != PH) with
  | nil =>
    simp only [List.isEmpty_nil, if_true, valLE, Nat.mul_zero]
    unfold rowVal
    rw [← sumR_const_zero W]
    apply sumR_congr
    intro i hi
    have : ¬ (entry c i k != PH) = true := by
      intro hp
      have : i ∈ (List.range W).filter (fun i => entry c i k != PH) := List.mem_filter.mpr ⟨by simpa using hi, hp⟩
      rw [hu] at this; cases this
    unfold cellVal
    rw [if_pos (by simpa using this)]
  | cons f rest =>
    rw [hu] at hz hfirst
    have hne : (f :: rest).isEmpty = false := rfl
    rw [hne]
    simp only [Bool.false_eq_true, if_false]
    obtain ⟨t, ht⟩ : ∃ t, (f :: rest).getLast? = some t := by
      cases hl : (f :: rest).getLast? with
      | none => simp at hl
      | some t => exact ⟨t, rfl⟩
    rw [ht] at hz ⊢
    simp only [Option.getD_some] at hz ⊢
    obtain ⟨u1, u2, u3, u4, u5, u6, u7, u8⟩ := used_facts (fun i => entry c i k != PH) W hu ht
    have hph : ∀ i, (entry c i k != PH) = false → entry c i k = PH := fun i h => by simpa using h
    have hnph : ∀ i, (entry c i k != PH) = true → entry c i k ≠ PH := fun i h => by simpa using h
    rcases hfirst with h0 | hf
    · -- positions from 0 (row A)
      subst h0
      refine rowBits_val v c W k 0 t zero u2 (Nat.zero_le _) (fun i hi => by omega) (fun i h1 h2 => hph i (u6 i h1 h2)) ?_
      rcases hz with hz | hz
      · exact Or.inl hz
      · right
        simp only [if_true] at hz
        have hf0 : f = 0 := by omega
        subst hf0
        intro i h1 h2
        exact hnph i (u8 (by omega) i h1 h2)
    · simp only [List.headD_cons] at hf
      subst hf
      refine rowBits_val v c W k first t zero u2 u1 (fun i hi => hph i (u5 i hi)) (fun i h1 h2 => hph i (u6 i h1 h2)) ?_
      rcases hz with hz | hz
      · exact Or.inl hz
      · right
        intro i h1 h2
        by_cases hf0 : first = 0
        · rw [if_pos hf0] at hz
          exact hnph i (u8 (by omega) i h1 h2)
        · rw [if_neg hf0] at hz
          exact hnph i (u8 hz i h1 h2)

theorem mv_allPH (v : Label → Bool) (W R : Nat) : MV v (List.replicate W (List.replicate R PH)) = 0 := by
  unfold MV
  rw [colsVal_empty_cols]
  intro col hcol
  obtain ⟨y, hy, rfl⟩ := List.mem_map.mp hcol
  rw [List.eq_of_mem_replicate hy]; exact nonPH_replicate _

theorem rect_replicate (W R : Nat) : Rect (List.replicate W (List.replicate R PH)) W R :=
  ⟨by simp, fun col hcol => by rw [List.eq_of_mem_replicate hcol]; simp⟩

theorem qm_replicate (W R : Nat) : QM Q (List.replicate W (List.replicate R PH)) := by
  intro col hcol x hx
  rw [List.eq_of_mem_replicate hcol] at hx
  exact Or.inl (List.eq_of_mem_replicate hx)

/-- **`add_mul_wallace` computes the product** (labels drawn by the run are different from the
placeholder; `P` is what is known about fresh labels) -/
theorem semF_addMulWallace {v : Label → Bool} (hP : ∀ l, P l → l ≠ PH) {a b out : List Label} {be : Bool}
    (h : SemF P (addMulWallace a b be) v out) :
    valLE v (revIf out be) = valLE v (revIf a be) * valLE v (revIf b be) := by
  unfold addMulWallace at h
  simp only [semF_bind] at h
  obtain ⟨c, hc, hbody⟩ := h
  generalize revIf a be = A at hc hbody ⊢
  generalize revIf b be = B at hc hbody ⊢
  have hlenB : (B.zipIdx).length = B.length := by simp
  obtain ⟨cr, cq, cv, cph⟩ := semF_ppMatrix (Q := fun l => l ≠ PH) (W := A.length + B.length) (R := B.length)
    (fun l hl => hP l hl) (fun _ h => h) B 0 _ c hc (rect_replicate _ _) (qm_replicate _ _) (by omega) (fun _ => by omega)
    (fun col row _ _ => entry_replicate _ _ col row)
  rw [mv_allPH] at cv
  simp only [Nat.zero_add, Nat.pow_zero, Nat.one_mul] at cv cph
  have cph' : ∀ col row, entry c col row = PH ↔ ¬ (row < B.length ∧ row ≤ col ∧ col < row + A.length) := by
    intro col row
    rw [cph col row]
    simp [entry_replicate]
  have hprod := valLE_mul_lt v A B
  by_cases hn1 : (A.length == 1) = true
  · -- a single multiplicand bit: the diagonal
    simp only [hn1, if_true, semF_pure] at hbody
    subst hbody
    rw [revIf_revIf]
    have hA1 : A.length = 1 := by simpa using hn1
    have hdiag : valLE v ((List.range B.length).map (fun i => (c.getD i []).getD i PH)) =
        sumR B.length (fun row => cellVal v c row row) := by
      rw [List.range_eq_range', valLE_map_range']
      apply sumR_congr; intro j hj
      simp only [Nat.zero_add]
      unfold cellVal
      have : entry c j j ≠ PH := fun hph => ((cph' j j).mp hph) ⟨hj, Nat.le_refl _, by omega⟩
      rw [if_neg this]; rfl
    rw [hdiag, ← cv, mv_cells v cr, sumR_swap]
    apply sumR_congr
    intro row hrow
    have : ∀ col, col < A.length + B.length → cellVal v c col row = if row = col then cellVal v c row row else 0 := by
      intro col _
      by_cases hcr : row = col
      · subst hcr; simp
      · rw [if_neg hcr]
        unfold cellVal
        rw [if_pos ((cph' col row).mpr (by omega))]
    rw [sumR_congr this, sumR_single _ row (by omega)]
  · have hn1' : (A.length == 1) = false := by simpa using hn1
    simp only [hn1', Bool.false_eq_true, if_false] at hbody
    by_cases hm1 : (B.length == 1) = true
    · simp only [hm1, if_true, semF_pure] at hbody
      subst hbody
      rw [revIf_revIf]
      have hB1 : B.length = 1 := by simpa using hm1
      have hrow0 : valLE v ((List.range A.length).map (fun i => (c.getD i []).getD 0 PH)) =
          sumR A.length (fun col => cellVal v c col 0) := by
        rw [List.range_eq_range', valLE_map_range']
        apply sumR_congr; intro j hj
        simp only [Nat.zero_add]
        unfold cellVal
        have : entry c j 0 ≠ PH := fun hph => ((cph' j 0).mp hph) ⟨by omega, Nat.zero_le _, by omega⟩
        rw [if_neg this]; rfl
      rw [hrow0, ← cv, mv_cells v cr, hB1]
      have : ∀ col, col < A.length + 1 → sumR 1 (fun row => cellVal v c col row) = cellVal v c col 0 := by
        intro col _; simp [sumR_succ, sumR_zero]
      rw [sumR_congr this, sumR_succ]
      have : cellVal v c A.length 0 = 0 := by
        unfold cellVal; rw [if_pos ((cph' A.length 0).mpr (by omega))]
      rw [this]; rfl
    · have hm1' : (B.length == 1) = false := by simpa using hm1
      simp only [hm1', Bool.false_eq_true, if_false, semF_bind, semF_pure] at hbody
      obtain ⟨c', hrounds, zero, hzero, r, hr, rfl⟩ := hbody
      rw [revIf_revIf]
      have hW : 1 ≤ A.length + B.length := by
        rcases Nat.eq_zero_or_pos (A.length + B.length) with h0 | h0
        · exfalso
          have ha : A.length = 0 := by omega
          have hb : B.length = 0 := by omega
          have hc0 : c = [] := List.eq_nil_of_length_eq_zero (by rw [cr.w]; omega)
          rw [ha, hb, hc0] at hrounds
          have : wallaceRounds (0 + 0) (0 + 2) ([] : Mat) = Prog.fail "fuel" := rfl
          rw [this] at hrounds
          exact semF_fail hrounds
        · exact h0
      obtain ⟨r2, q2, K, hK⟩ := semF_wallaceRounds (Q := fun l => l ≠ PH) (fun l hl => hP l hl) (fun _ h => h) hW
        (B.length + 2) c c' B.length cr cq hrounds
      -- the constant-false bit, if it was created
      generalize hgaps : ((usedCols c' 0).length != (usedCols c' 0).getLast?.getD 0 + 1 ||
          !(usedCols c' 1).isEmpty && (usedCols c' 1).length != (usedCols c' 1).getLast?.getD 0 + 1 - (usedCols c' 1).headD (A.length + B.length)) = gaps at hzero
      have hzv : gaps = true → bv v zero = 0 := by
        intro hg
        rw [hg] at hzero
        simp only [if_true] at hzero
        split at hzero
        · rename_i x xs
          have := (semF_emitTT hzero).1
          unfold bv; rw [this]; cases v x <;> rfl
        · exact absurd hzero semF_fail
      have hvr := sem_addSumTwoNumbersWithShift (semF_sem hr)
      simp only [revIf, Bool.false_eq_true, if_false] at hvr
      -- row A
      have hrowA := finalRow_val v r2.w 0 zero 0 (Or.inl rfl) (by
        cases hg : gaps with
        | true => exact Or.inl (hzv hg)
        | false =>
          right
          rw [hg] at hgaps
          simp only [Bool.or_eq_false_iff, bne_eq_false_iff_eq] at hgaps
          simp only [if_true]
          exact hgaps.1)
      -- row B
      have hrowB := finalRow_val v r2.w 1 zero ((usedCols c' 1).headD (A.length + B.length)) (Or.inr rfl) (by
        cases hg : gaps with
        | true => exact Or.inl (hzv hg)
        | false =>
          right
          rw [hg] at hgaps
          simp only [Bool.or_eq_false_iff, bne_eq_false_iff_eq, Bool.and_eq_false_iff, Bool.not_eq_false'] at hgaps
          rcases hgaps.2 with he | he
          · -- no used position in row B: nothing to show beyond the empty list
            have hnil : usedCols c' 1 = [] := by simpa using he
            rw [hnil]
            have hh : ([] : List Nat).headD (A.length + B.length) = A.length + B.length := rfl
            rw [hh]
            split
            · omega
            · simp; omega
          · split
            · rename_i h0; rw [h0] at he; omega
            · exact he)
      simp only [Nat.pow_zero, Nat.one_mul] at hrowA
      have hmv := mv_two_rows v r2
      rw [cv, hmv, ← hrowA, ← hrowB] at hK
      rw [valLE_take_mod, hvr]
      have hK0 : K = 0 := by
        rcases Nat.eq_zero_or_pos K with h0 | h0
        · exact h0
        · exfalso
          have : 2 ^ (A.length + B.length) ≤ 2 ^ (A.length + B.length) * K := Nat.le_mul_of_pos_right _ h0
          omega
      subst hK0
      simp only [Nat.mul_zero, Nat.add_zero] at hK
      rw [← hK]
      exact Nat.mod_eq_of_lt hprod

/-- running a program on a host, with both semantics along the run -/
theorem run_totalF {α} {p : Prog α} {st st' : GSt} {a : α} (h : p.run st = .ok (a, st')) (hw : WFS st.c)
    {b v : Label → Bool} (hv : IsValB st.c b v) :
    ∃ v', IsValB st'.c b v' ∧ (∀ l ∈ st.c.labels, v' l = v l) ∧ SemF (fun l => ∃ n, l = newLabel n) p v' a := by
  obtain ⟨v', hv', hag⟩ := (run_frame p h hw).ext b v hv
  exact ⟨v', hv', hag, run_semF p h b v' hv'⟩

/-- **`add_mul_wallace`** run on a host: the returned bits are `a·b` -/
theorem run_addMulWallace {st st' : GSt} {x y out : List Label} {be : Bool}
    (h : (addMulWallace x y be).run st = .ok (out, st')) (hw : WFS st.c)
    (hx : ∀ l ∈ x, l ∈ st.c.labels) (hy : ∀ l ∈ y, l ∈ st.c.labels) {b v : Label → Bool} (hv : IsValB st.c b v) :
    ∃ v', IsValB st'.c b v' ∧ (∀ l ∈ st.c.labels, v' l = v l) ∧
      valLE v' (revIf out be) = valLE v (revIf x be) * valLE v (revIf y be) := by
  obtain ⟨v', h1, h2, h3⟩ := run_totalF h hw hv
  refine ⟨v', h1, h2, ?_⟩
  rw [semF_addMulWallace (fun l ⟨n, hn⟩ => hn ▸ newLabel_ne_placeholder n) h3,
    valLE_congr (fun l hl => h2 l (hx l (mem_revIf.mp hl))), valLE_congr (fun l hl => h2 l (hy l (mem_revIf.mp hl)))]

end Cirbo
