import Cirbo.Proofs.MoreOps
import Cirbo.Proofs.ConnRightWfs
import Cirbo.Proofs.ReplaceWfs
/-!
# Histories over the extended set of public mutator calls keep the C02 invariant
-/
namespace Cirbo
open GateType Circuit

/-! ## histories over the extended set of calls -/

inductive XOp
  | h (op : HOp)
  | copy
  | renameGate (old new : Label)
  | removeBlock (name : Label)
  | makeBlockFromSlice (name : Label) (ins outs : List Label)
  /-- `connect_circuit(other, this_connectors, other_connectors, right_connect=False, name=, add_prefix=)`;
  `connect_left`, `extend_circuit`, `add_circuit` are this call with their documented arguments -/
  | connectLeft (other : Circuit) (thisC otherC : List Label) (name : Label) (addP : Bool)
  /-- `connect_circuit(…, right_connect=True, …)`; `connect_right`, `connect_inputs` and
  `extend_circuit(right_connect=True)` are this call with their documented arguments -/
  | connectRight (other : Circuit) (thisC otherC : List Label) (name : Label) (addP : Bool)
  /-- `replace_subcircuit(sub, inputs_mapping, outputs_mapping)`; `uuid` stands for the fresh uuid the
  call draws for its temporary block name (any value) -/
  | replaceSubcircuit (sub : Circuit) (im om : List (Label × Label)) (uuid : Nat)

def XOp.valid : XOp → Prop
  | .h op => op.valid
  | .connectLeft other _ _ _ _ => WFS other
  | .connectRight other _ _ _ _ => WFS other
  | .replaceSubcircuit sub im om _ => WFS sub ∧ (im.map (·.1)).Nodup ∧ (om.map (·.1)).Nodup
  | _ => True

def runXOp (c : Circuit) : XOp → R Circuit
  | .h op => runHOp c op
  | .copy => c.copy
  | .renameGate o n => c.renameGate o n
  | .removeBlock n => c.removeBlock n
  | .makeBlockFromSlice n i o => c.makeBlockFromSlice n i o
  | .connectLeft other t o n a => c.connectCircuit other t o false n a
  | .connectRight other t o n a => c.connectCircuit other t o true n a
  | .replaceSubcircuit sub im om k => match c.replaceSubcircuit sub im om k with
    | .error e => .error e
    | .ok (c', _) => .ok c'

def runXOps : Circuit → List XOp → R Circuit
  | c, [] => .ok c
  | c, op :: r => match runXOp c op with
    | .error e => .error e
    | .ok c' => runXOps c' r

theorem runXOp_wfs {c c' : Circuit} {op : XOp} (hw : WFS c) (hv : op.valid) (h : runXOp c op = .ok c') : WFS c' := by
  cases op with
  | h o =>
    cases o with
    | base b => exact runOp_wfs hw hv h
    | removeGate l => exact removeGate_wfs hw h
  | copy => exact copy_wfs hw h
  | renameGate o n => exact renameGate_wfs hw h
  | removeBlock n => exact removeBlock_wfs hw h
  | makeBlockFromSlice n i o => exact makeBlockFromSlice_wfs hw h
  | connectLeft other t o n a => exact connectLeft_wfs hw hv h
  | connectRight other t o n a => exact connectRight_wfs hw hv h
  | replaceSubcircuit sub im om k =>
    simp only [runXOp] at h
    cases hr : c.replaceSubcircuit sub im om k with
    | error e => rw [hr] at h; cases h
    | ok pr =>
      obtain ⟨c1, k1⟩ := pr
      rw [hr] at h
      simp only [Except.ok.injEq] at h
      subst h
      exact replaceSubcircuit_wfs hw hv.1 hv.2.1 hv.2.2 hr

theorem runXOps_wfs : ∀ (ops : List XOp) {c c' : Circuit}, WFS c → (∀ op ∈ ops, op.valid) →
    runXOps c ops = .ok c' → WFS c' := by
  intro ops
  induction ops with
  | nil => intro c c' hw _ h; simp only [runXOps, Except.ok.injEq] at h; subst h; exact hw
  | cons op r ih =>
    intro c c' hw hv h
    simp only [runXOps] at h
    cases hs : runXOp c op with
    | error e => rw [hs] at h; cases h
    | ok c1 =>
      rw [hs] at h
      exact ih (runXOp_wfs hw (hv op (by simp)) hs) (fun o ho => hv o (by simp [ho])) h

end Cirbo
