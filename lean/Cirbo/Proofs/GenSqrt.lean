import Cirbo.Proofs.GenDiv
import Mathlib.Tactic.Ring
/-!
# `add_sqrt`: digit-by-digit square root
-/
namespace Cirbo
open GateType

theorem sem_selLoop {v : Label → Bool} {per : Label} : ∀ (nws xs acc out : List Label),
    Sem (selLoop per nws xs acc) v out → nws.length = xs.length →
    ∃ hi, out = acc ++ hi ∧ hi.length = xs.length ∧ valLE v hi = if v per = true then valLE v xs else valLE v nws := by
  intro nws
  induction nws with
  | nil =>
    intro xs acc out h hl
    have : xs = [] := List.eq_nil_of_length_eq_zero (by simpa using hl.symm)
    subst this
    simp only [selLoop, sem_pure] at h
    exact ⟨[], by simpa using h, rfl, by simp [valLE]⟩
  | cons s nws ih =>
    intro xs acc out h hl
    cases xs with
    | nil => simp at hl
    | cons x xs =>
      simp only [selLoop, sem_bind] at h
      obtain ⟨g1, h1, g2, h2, g3, h3, hrec⟩ := h
      obtain ⟨hi, e1, e2, e3⟩ := ih xs _ out hrec (by simpa using hl)
      refine ⟨g3 :: hi, by rw [e1]; simp, by simp [e2], ?_⟩
      have hb : bv v g3 = if v per = true then bv v x else bv v s := by
        simp only [bv, sem_emitTT h3, sem_emitTT h2, sem_emitTT h1]
        cases v per <;> cases v s <;> cases v x <;> rfl
      simp only [valLE, hb, e3]
      split <;> rfl

theorem split_unique (L H P m : Nat) (hL : L < P) (h : L + P * H = P * m) : L = 0 ∧ H = m := by
  have hP : 0 < P := by omega
  have h1 : (L + P * H) / P = H := by
    rw [Nat.add_mul_div_left _ _ hP, Nat.div_eq_of_lt hL, Nat.zero_add]
  have h2 : (P * m) / P = m := Nat.mul_div_cancel_left _ hP
  rw [h, h2] at h1
  subst h1
  exact ⟨by omega, rfl⟩

/-- one digit of the square root on numbers: `P = 4^st`, the root so far is `ρ·2^(st+1)` -/
theorem sqrt_step_arith (A ρ P X Xl Xh S M : Nat) (per : Bool)
    (hX : X + ρ * ρ * (4 * P) = A) (hub : A < (ρ + 1) * (ρ + 1) * (4 * P))
    (hXs : X = Xl + P * Xh) (hXl : Xl < P)
    (hsub : Xh + M * per.toNat = (4 * ρ + 1) + S) (hper : per = true ↔ Xh < 4 * ρ + 1) :
    (Xl + P * (if per = true then Xh else S)) +
        (if per = true then 2 * ρ else 2 * ρ + 1) * (if per = true then 2 * ρ else 2 * ρ + 1) * P = A ∧
      A < ((if per = true then 2 * ρ else 2 * ρ + 1) + 1) * ((if per = true then 2 * ρ else 2 * ρ + 1) + 1) * P := by
  have e1 : ρ * ρ * (4 * P) = 4 * (ρ * ρ * P) := by ring
  have e2 : (ρ + 1) * (ρ + 1) * (4 * P) = 4 * (ρ * ρ * P) + 8 * (ρ * P) + 4 * P := by ring
  rw [e1] at hX; rw [e2] at hub
  cases hp : per
  · simp only [Bool.false_eq_true, if_false]
    have hge : ¬ Xh < 4 * ρ + 1 := fun h => by have := hper.mpr h; rw [hp] at this; cases this
    simp only [hp, Bool.toNat_false, Nat.mul_zero, Nat.add_zero] at hsub
    have e3 : (2 * ρ + 1) * (2 * ρ + 1) * P = 4 * (ρ * ρ * P) + 4 * (ρ * P) + P := by ring
    have e4 : (2 * ρ + 1 + 1) * (2 * ρ + 1 + 1) * P = 4 * (ρ * ρ * P) + 8 * (ρ * P) + 4 * P := by ring
    have e5 : P * Xh = 4 * (ρ * P) + P + P * S := by rw [hsub]; ring
    rw [e3, e4]
    generalize ρ * ρ * P = u at *
    generalize ρ * P = w at *
    generalize P * Xh = y at *
    generalize P * S = z at *
    omega
  · simp only [if_true]
    have hlt : Xh < 4 * ρ + 1 := hper.mp hp
    have e3 : (2 * ρ) * (2 * ρ) * P = 4 * (ρ * ρ * P) := by ring
    have e4 : (2 * ρ + 1) * (2 * ρ + 1) * P = 4 * (ρ * ρ * P) + 4 * (ρ * P) + P := by ring
    have e5 : P * Xh ≤ P * (4 * ρ) := Nat.mul_le_mul_left _ (by omega)
    have e6 : P * (4 * ρ) = 4 * (ρ * P) := by ring
    rw [e3, e4]
    generalize ρ * ρ * P = u at *
    generalize ρ * P = w at *
    generalize P * Xh = y at *
    omega

def sqrtStep (zero uno : Label) (st : List Label × List Label) (s : Nat) : Prog (List Label × List Label) := do
  let (x, c) := st
  let sm0 ← addSumTwoNumbers (c.drop (2 * s)) [uno] false
  let sm := sm0.dropLast
  let (subRes, per) ← addSubtractWithCompare (x.drop (2 * s)) sm false
  let xhi ← selLoop per subRes (x.drop (2 * s)) []
  let x' := x.take (2 * s) ++ xhi
  let c1 := c.drop 1 ++ [zero]
  let sm1 ← addSumTwoNumbers (c1.drop (2 * s)) [uno] false
  let chi ← selLoop per sm1.dropLast (c1.drop (2 * s)) []
  pure (x', c1.take (2 * s) ++ chi)

structure SqInv (v : Label → Bool) (half A : Nat) (j : Nat) (st : List Label × List Label) : Prop where
  xl : st.1.length = 2 * half
  cl : st.2.length = 2 * half
  ex : ∃ ρ, valLE v st.2 = ρ * 4 ^ j ∧ valLE v st.1 + ρ * ρ * 4 ^ j = A ∧ A < (ρ + 1) * (ρ + 1) * 4 ^ j ∧
    ρ + 1 ≤ 4 ^ (half - j)

theorem valLE_dropLast_of_lt (v : Label → Bool) (l : List Label) (h : valLE v l < 2 ^ (l.length - 1)) :
    valLE v l.dropLast = valLE v l := by
  rw [List.dropLast_eq_take]; exact valLE_take_of_lt v l _ h

theorem four_pow (s : Nat) : (2 : Nat) ^ (2 * s) = 4 ^ s := by
  rw [Nat.pow_mul]

theorem sem_sqrtStep {v : Label → Bool} {zero uno : Label} {half A : Nat} (hz : v zero = false) (hu : v uno = true) :
    ∀ (s : Nat) (st st' : List Label × List Label), s < half → SqInv v half A (s + 1) st →
    Sem (sqrtStep zero uno st s) v st' → SqInv v half A s st' := by
  intro s st st' hs hinv h
  obtain ⟨x, c⟩ := st
  obtain ⟨xl, cl, ρ, hC, hX, hub, hw⟩ := hinv
  simp only at xl cl hC hX hub
  simp only [sqrtStep, sem_bind, sem_pure] at h
  obtain ⟨sm0, hsm0, ⟨subRes, per⟩, hsub, xhi, hxhi, sm1, hsm1, chi, hchi, rfl⟩ := h
  have hP : (4 : Nat) ^ (s + 1) = 4 * 4 ^ s := by rw [Nat.pow_succ]; ring
  rw [hP] at hC hX hub
  generalize hPd : (4 : Nat) ^ s = P at *
  have hPpos : 0 < P := by rw [← hPd]; exact Nat.pos_of_ne_zero (by simp)
  have h2s : (2 : Nat) ^ (2 * s) = P := by rw [four_pow, hPd]
  have hL : 2 * half - 2 * s = 2 * (half - s) := by omega
  have hML : (2 : Nat) ^ (2 * half - 2 * s) = 4 * 4 ^ (half - (s + 1)) := by
    rw [hL, four_pow, show half - s = (half - (s + 1)) + 1 by omega, Nat.pow_succ]; ring
  -- split `c` and `x` at `2s`
  have hCs := valLE_take_drop v c (2 * s) (by omega)
  have hXs := valLE_take_drop v x (2 * s) (by omega)
  rw [h2s] at hCs hXs
  have hCl := valLE_lt v (c.take (2 * s))
  have hXl := valLE_lt v (x.take (2 * s))
  rw [List.length_take, Nat.min_eq_left (by omega), h2s] at hCl hXl
  obtain ⟨hcl0, hch⟩ := split_unique _ _ P (4 * ρ) hCl (by rw [← hCs, hC]; ring)
  -- `sm = c[2s:] + 1`, no overflow
  have vsm0 := sem_addSumTwoNumbers hsm0
  have lsm0 := sem_addSumTwoNumbers_length hsm0
  simp only [revIf, Bool.false_eq_true, if_false, List.length_drop, List.length_cons, List.length_nil, cl] at vsm0 lsm0
  have huno : valLE v [uno] = 1 := by simp [valLE, bv, hu]
  rw [huno, hch] at vsm0
  have hlen0 : sm0.length - 1 = 2 * half - 2 * s := by omega
  have vsm : valLE v sm0.dropLast = 4 * ρ + 1 := by
    rw [valLE_dropLast_of_lt v sm0 (by rw [hlen0, hML, vsm0]; omega), vsm0]
  have lsm : sm0.dropLast.length = 2 * half - 2 * s := by rw [List.length_dropLast]; omega
  -- the comparison
  obtain ⟨s1, s2, s3⟩ := sem_addSubtractWithCompare hsub
  simp only [revIf, Bool.false_eq_true, if_false, List.length_drop, xl, lsm, Nat.max_self, vsm] at s1 s2 s3
  obtain ⟨hi, e1, e2, e3⟩ := sem_selLoop _ _ _ _ hxhi (by rw [s1, List.length_drop, xl])
  simp only [List.nil_append] at e1; subst e1
  simp only at e3
  -- `c >> 1`
  have hc1 : valLE v (c.drop 1 ++ [zero]) = ρ * (2 * P) := by
    rw [valLE_append]
    simp only [valLE, bv, hz, Bool.toNat_false, Nat.mul_zero, Nat.add_zero]
    cases c with
    | nil => simp at cl; omega
    | cons c0 cr =>
      simp only [List.drop_one, List.tail_cons]
      simp only [valLE] at hC
      have : ρ * (4 * P) = 2 * (ρ * (2 * P)) := by ring
      rw [this] at hC
      have := (show bv v c0 ≤ 1 by unfold bv; cases v c0 <;> simp)
      omega
  have lc1 : (c.drop 1 ++ [zero]).length = 2 * half := by simp [cl]; omega
  generalize hc1d : c.drop 1 ++ [zero] = c1 at *
  have hC1s := valLE_take_drop v c1 (2 * s) (by omega)
  rw [h2s] at hC1s
  have hC1l := valLE_lt v (c1.take (2 * s))
  rw [List.length_take, Nat.min_eq_left (by omega), h2s] at hC1l
  obtain ⟨hc1l0, hc1h⟩ := split_unique _ _ P (2 * ρ) hC1l (by rw [← hC1s, hc1]; ring)
  have vsm1 := sem_addSumTwoNumbers hsm1
  have lsm1 := sem_addSumTwoNumbers_length hsm1
  simp only [revIf, Bool.false_eq_true, if_false, List.length_drop, List.length_cons, List.length_nil, lc1] at vsm1 lsm1
  rw [huno, hc1h] at vsm1
  have hlen1 : sm1.length - 1 = 2 * half - 2 * s := by omega
  have vsm1' : valLE v sm1.dropLast = 2 * ρ + 1 := by
    rw [valLE_dropLast_of_lt v sm1 (by rw [hlen1, hML, vsm1]; omega), vsm1]
  obtain ⟨chi', f1, f2, f3⟩ := sem_selLoop _ _ _ _ hchi (by rw [List.length_dropLast, List.length_drop, lc1]; omega)
  simp only [List.nil_append] at f1; subst f1
  simp only at f3
  rw [vsm1', hc1h] at f3
  -- assemble
  have harith := sqrt_step_arith A ρ P (valLE v x) (valLE v (x.take (2 * s))) (valLE v (x.drop (2 * s))) (valLE v subRes)
    (2 ^ (2 * half - 2 * s)) (v per) hX hub hXs hXl s2 s3
  refine ⟨by simp [xl, e2]; omega, by simp [lc1, f2]; omega,
    if v per = true then 2 * ρ else 2 * ρ + 1, ?_, ?_, ?_, ?_⟩
  · simp only
    rw [hPd, valLE_append, List.length_take, lc1, Nat.min_eq_left (by omega), h2s, hc1l0, f3]
    split <;> ring
  · simp only
    rw [hPd, valLE_append, List.length_take, xl, Nat.min_eq_left (by omega), h2s, e3]
    exact harith.1
  · rw [hPd]; exact harith.2
  · have : (4 : Nat) ^ (half - s) = 4 * 4 ^ (half - (s + 1)) := by
      rw [show half - s = (half - (s + 1)) + 1 by omega, Nat.pow_succ]; ring
    rw [this]
    split <;> omega

/-- **`add_sqrt`**: the result `R` (on `⌈n/2⌉` bits) is the integer square root: `R² ≤ a < (R+1)²` -/
theorem sem_addSqrt {v : Label → Bool} {ins out : List Label} {be : Bool} (h : Sem (addSqrt ins be) v out) :
    out.length = (ins.length + 1) / 2 ∧
    valLE v (revIf out be) * valLE v (revIf out be) ≤ valLE v (revIf ins be) ∧
    valLE v (revIf ins be) < (valLE v (revIf out be) + 1) * (valLE v (revIf out be) + 1) := by
  unfold addSqrt at h
  simp only [] at h
  rw [← length_revIf' ins be]
  generalize revIf ins be = x0 at h ⊢
  split at h
  · exact absurd h sem_fail
  · rename_i first xr
    generalize hx0 : first :: xr = x0 at h ⊢
    simp only [sem_bind, sem_pure] at h
    obtain ⟨zero, hzero, uno, huno, ⟨xf, c⟩, hloop, rfl⟩ := h
    have hz : v zero = false := by rw [sem_emitTT hzero]; cases v first <;> rfl
    have hu : v uno = true := by rw [sem_emitTT huno]; cases v first <;> rfl
    generalize hhalf : x0.length / 2 + (if (x0.length % 2 == 1) = true then 1 else 0) = half at hloop
    generalize hn : (if (x0.length % 2 == 1) = true then x0.length + 1 else x0.length) = n at hloop
    generalize hx1 : (if (x0.length % 2 == 1) = true then x0 ++ [zero] else x0) = x1 at hloop
    have hnh : n = 2 * half ∧ half = (x0.length + 1) / 2 ∧ x1.length = n ∧ valLE v x1 = valLE v x0 := by
      by_cases hodd : x0.length % 2 = 1
      · have hb : (x0.length % 2 == 1) = true := by simpa using hodd
        rw [hb] at hhalf hn hx1
        simp only [if_true] at hhalf hn hx1
        subst hx1
        refine ⟨by omega, by omega, by simp; omega, ?_⟩
        rw [valLE_append]; simp [valLE, bv, hz]
      · have hb : (x0.length % 2 == 1) = false := by simpa using hodd
        rw [hb] at hhalf hn hx1
        simp only [Bool.false_eq_true, if_false] at hhalf hn hx1
        subst hx1
        exact ⟨by omega, by omega, by omega, rfl⟩
    obtain ⟨hn2, hhf, hx1l, hx1v⟩ := hnh
    have hloop' : Sem (progFold (List.range' 0 half).reverse (x1, List.replicate n zero) (sqrtStep zero uno)) v (xf, c) := by
      rw [← List.range_eq_range']; exact hloop
    have hA := valLE_lt v x0
    have hinit : SqInv v half (valLE v x0) (0 + half) (x1, List.replicate n zero) := by
      refine ⟨by rw [hx1l, hn2], by simp [hn2], 0, ?_, ?_, ?_, by simp⟩
      · simp only; rw [valLE_replicate_false hz]; simp
      · simp only; rw [hx1v]; simp
      · simp only [Nat.zero_add, Nat.one_mul]
        calc valLE v x0 < 2 ^ x0.length := hA
          _ ≤ 2 ^ (2 * half) := Nat.pow_le_pow_right (by omega) (by omega)
          _ = 4 ^ half := four_pow half
    have hend := sem_progFold_desc (v := v) (SqInv v half (valLE v x0)) half 0 _ (xf, c) hinit
      (fun i st st' _ h2 hp hs => sem_sqrtStep hz hu i st st' (by omega) hp hs) hloop'
    obtain ⟨_, cl, ρ, hC, hX, hub, _⟩ := hend
    simp only [Nat.pow_zero, Nat.mul_one] at hC hX hub
    -- `ρ < 2^half`, so the low half of `c` is all of it
    have hρ : ρ < 2 ^ half := by
      rcases Nat.lt_or_ge ρ (2 ^ half) with h | h
      · exact h
      · exfalso
        have h1 : 2 ^ half * 2 ^ half ≤ ρ * ρ := Nat.mul_le_mul h h
        have h2 : (2 : Nat) ^ half * 2 ^ half = 2 ^ (2 * half) := by rw [← Nat.pow_add]; congr 1; omega
        have h3 : (2 : Nat) ^ x0.length ≤ 2 ^ (2 * half) := Nat.pow_le_pow_right (by omega) (by omega)
        omega
    have htake : valLE v (c.take half) = ρ := by
      rw [valLE_take_of_lt v c half (by rw [hC]; exact hρ), hC]
    refine ⟨by rw [length_revIf', List.length_take, cl, hhf]; omega, ?_, ?_⟩
    · rw [revIf_revIf, htake]; omega
    · rw [revIf_revIf, htake]; exact hub

end Cirbo
