import Cirbo.Proofs.GenTotalSum
import Cirbo.Proofs.GenTotalWeighted
/-! # Totality of the weighted sums: the hypotheses of GenTotalWeighted discharged by GenTotalSum -/
namespace Cirbo
open GateType Circuit
/-! ## integration: discharge of the hypotheses -/
theorem wb_hPairUp : wb_HPairUp := fun fuel soloR pairsR st P K hinv hk hs hp =>
  sa_export_pairUp fuel soloR pairsR st P K hinv hk hs hp
theorem wb_hXaigLevel : wb_HXaigLevel := fun soloR pairsR st P K hinv hk hs hp hne =>
  sa_export_xaigLevel soloR pairsR st P K hinv hk hs hp hne
theorem wb_hAddSumNBits : wb_HAddSumNBits := fun ins basis b be st P K hb hinv hk hi =>
  (ok_addSumNBits (be := be) hinv hk hi hb).mono (fun r st' ⟨i1, k1, h⟩ => ⟨i1, k1, fun hne => by
    intro e
    have hpos : 1 ≤ ins.length := by cases ins with | nil => exact absurd rfl hne | cons _ _ => simp
    have := sa_bitlen_pos hpos
    rw [e] at h; simp at h; omega⟩)

theorem ok_addSumWeightedNaive {ins : List (Nat × Label)} {basis : BasisArg} {b : Basis} {st : GSt} {P K : List Label}
    (hinv : Inv st P) (hk : Kn st K) (hb : basis.resolve = .ok b) (hne : ins ≠ []) (hi : ∀ x ∈ ins, x.2 ∈ K) :
    Ok (addSumWeightedNaive ins basis) st (GPost P K (fun r => r.map (·.2)) (fun _ => True)) :=
  wb_ok_addSumWeightedNaive sa_blk3_addSum3Aig sa_blk2_addSum2Aig hinv hk hb hne hi
theorem ok_addSumWeighted {ins : List (Nat × Label)} {basis : BasisArg} {b : Basis} {st : GSt} {P K : List Label}
    (hinv : Inv st P) (hk : Kn st K) (hb : basis.resolve = .ok b) (hne : ins ≠ []) (hi : ∀ x ∈ ins, x.2 ∈ K) :
    Ok (addSumWeighted ins basis) st (GPost P K (fun r => r.map (·.2)) (fun _ => True)) :=
  wb_ok_addSumWeighted wb_hPairUp wb_hXaigLevel sa_blk3_addSum3Aig sa_blk2_addSum2Aig hinv hk hb hne hi
theorem ok_addSumPow2M1 {ins : List Label} {be : Bool} {basis : BasisArg} {b : Basis} {st : GSt} {P K : List Label}
    (hinv : Inv st P) (hk : Kn st K) (hb : basis.resolve = .ok b) (hne : ins ≠ []) (hi : ∀ l ∈ ins, l ∈ K) :
    Ok (addSumPow2M1 ins be basis) st (GPost P K (fun r => r.flatten) (fun r => r ≠ [])) :=
  wb_ok_addSumPow2M1 wb_hAddSumNBits sa_blk2_addSum2Aig hinv hk hb hne hi
end Cirbo
