import Cirbo.Proofs.GenWeighted
import Cirbo.Proofs.GenMul
/-!
# Weighted sums: when the input levels have no gaps, the output levels are 0, 1, 2, …
(the positional reading of `add_mul`'s result)
-/
namespace Cirbo
open GateType

def levelsOf (single : List (Nat × Label)) (pairs : List (Nat × Label × Label)) : List Nat :=
  single.map (·.1) ++ pairs.map (·.1)

/-- every level is at least `lo`, and below every level above `lo` the next lower one occurs too -/
def Gapless (lo : Nat) (L : List Nat) : Prop := (∀ x ∈ L, lo ≤ x) ∧ (∀ x ∈ L, lo < x → x - 1 ∈ L)

theorem gapless_lo_mem {lo : Nat} {L : List Nat} (h : Gapless lo L) : ∀ (d x : Nat), x ∈ L → x = lo + d → lo ∈ L := by
  intro d
  induction d with
  | zero => intro x hx e; simpa [e] using hx
  | succ d ih =>
    intro x hx e
    have := h.2 x hx (by omega)
    exact ih (x - 1) this (by omega)

theorem foldInsertS_super (k : Nat) (ls : List Label) : ∀ (rest : List (Nat × Label)) (x : Nat × Label), x ∈ rest →
    x ∈ ls.foldl (fun acc l => insertBy ltSingle (k, l) acc) rest := by
  induction ls with
  | nil => intro rest x h; exact h
  | cons l r ih => intro rest x h; exact ih _ x ((mem_insertBy _ _ _ _).mpr (Or.inr h))

theorem foldInsertP_super (k : Nat) (ls : List (Label × Label)) : ∀ (rest : List (Nat × Label × Label)) (x : Nat × Label × Label), x ∈ rest →
    x ∈ ls.foldl (fun acc (l : Label × Label) => insertBy ltPair (k, l.1, l.2) acc) rest := by
  induction ls with
  | nil => intro rest x h; exact h
  | cons l r ih => intro rest x h; exact ih _ x ((mem_insertBy _ _ _ _).mpr (Or.inr h))

/-- facts about the level chosen by one iteration -/
theorem level_facts {inf : Nat} {single : List (Nat × Label)} {pairs : List (Nat × Label × Label)}
    {res : List (Nat × Label)} (inv : WInv inf single pairs res) (hne : single ≠ [] ∨ pairs ≠ []) :
    let lvl := minLevel single pairs inf
    (∀ y ∈ levelsOf single pairs, lvl ≤ y) ∧ lvl ∈ levelsOf single pairs := by
  intro lvl
  obtain ⟨hlt, _, _, _, _, _, _⟩ := winv_step inv hne
  have hminS : ∀ x ∈ single, lvl ≤ x.1 := by
    intro x hx
    cases hsg : single with
    | nil => rw [hsg] at hx; cases hx
    | cons y r =>
      have hy : y.1 ≤ x.1 := by
        rw [hsg] at hx
        rcases List.mem_cons.mp hx with rfl | hx
        · exact Nat.le_refl _
        · have := inv.sS; rw [hsg] at this; exact (List.pairwise_cons.mp this).1 x hx
      show minLevel single pairs inf ≤ x.1
      simp only [minLevel, hsg]
      omega
  have hminP : ∀ p ∈ pairs, lvl ≤ p.1 := by
    intro x hx
    cases hsg : pairs with
    | nil => rw [hsg] at hx; cases hx
    | cons y r =>
      have hy : y.1 ≤ x.1 := by
        rw [hsg] at hx
        rcases List.mem_cons.mp hx with rfl | hx
        · exact Nat.le_refl _
        · have := inv.sP; rw [hsg] at this; exact (List.pairwise_cons.mp this).1 x hx
      show minLevel single pairs inf ≤ x.1
      simp only [minLevel, hsg]
      omega
  refine ⟨?_, ?_⟩
  · intro y hy
    simp only [levelsOf, List.mem_append, List.mem_map] at hy
    rcases hy with ⟨x, hx, rfl⟩ | ⟨x, hx, rfl⟩
    · exact hminS x hx
    · exact hminP x hx
  · -- the minimum is attained at a head (it is below `inf`)
    simp only [levelsOf, List.mem_append, List.mem_map]
    cases hsg : single with
    | nil =>
      cases hpg : pairs with
      | nil => rcases hne with h | h <;> simp_all
      | cons q qr =>
        right; refine ⟨q, by simp, ?_⟩
        have := inv.bP q (by rw [hpg]; simp)
        show q.1 = minLevel single pairs inf
        simp only [minLevel, hsg, hpg]; omega
    | cons y r =>
      have hy := inv.bS y (by rw [hsg]; simp)
      cases hpg : pairs with
      | nil =>
        left; refine ⟨y, by simp, ?_⟩
        show y.1 = minLevel single pairs inf
        simp only [minLevel, hsg, hpg]; omega
      | cons q qr =>
        have hq := inv.bP q (by rw [hpg]; simp)
        by_cases hle : y.1 ≤ q.1
        · left; refine ⟨y, by simp, ?_⟩
          show y.1 = minLevel single pairs inf
          simp only [minLevel, hsg, hpg]; omega
        · right; refine ⟨q, by simp, ?_⟩
          show q.1 = minLevel single pairs inf
          simp only [minLevel, hsg, hpg]; omega

theorem takeLevel_keeps {α} (lev : α → Nat) (now : Nat) (l : List α) : ∀ x ∈ l, lev x ≠ now → x ∈ (takeLevel lev now l).2 := by
  intro x hx hne
  obtain ⟨h1, h2⟩ := takeLevel_spec lev now l
  rw [h1] at hx
  rcases List.mem_append.mp hx with h | h
  · exact absurd (h2 x h) hne
  · exact h

/-- one level processed: the remaining levels are gapless from `lo + 1` -/
theorem gapless_step {inf lo : Nat} {single : List (Nat × Label)} {pairs : List (Nat × Label × Label)}
    {res : List (Nat × Label)} (inv : WInv inf single pairs res) (hne : single ≠ [] ∨ pairs ≠ [])
    (hg : Gapless lo (levelsOf single pairs)) :
    minLevel single pairs inf = lo ∧
    ∀ (s' : List (Nat × Label)) (p' : List (Nat × Label × Label)),
      (∀ x ∈ s', x ∈ (takeLevel (fun (x : Nat × Label) => x.1) lo single).2 ∨ x.1 = lo + 1) →
      (∀ x ∈ (takeLevel (fun (x : Nat × Label) => x.1) lo single).2, x ∈ s') →
      (∀ x ∈ p', x ∈ (takeLevel (fun (x : Nat × Label × Label) => x.1) lo pairs).2 ∨ x.1 = lo + 1) →
      (∀ x ∈ (takeLevel (fun (x : Nat × Label × Label) => x.1) lo pairs).2, x ∈ p') →
      Gapless (lo + 1) (levelsOf s' p') := by
  obtain ⟨f1, f2⟩ := level_facts inv hne
  have hL : levelsOf single pairs ≠ [] := by
    intro e; rw [e] at f2; cases f2
  have hlo : lo ∈ levelsOf single pairs := by
    cases hL' : levelsOf single pairs with
    | nil => exact absurd hL' hL
    | cons x r =>
      have hx : x ∈ levelsOf single pairs := by rw [hL']; simp
      have := gapless_lo_mem hg (x - lo) x hx (by have := hg.1 x hx; omega)
      rwa [hL'] at this
  have hlv : minLevel single pairs inf = lo := by
    have a := f1 lo hlo
    have b := hg.1 _ f2
    omega
  refine ⟨hlv, ?_⟩
  intro s' p' hs1 hs2 hp1 hp2
  -- the rest of both lists has levels above `lo`
  have hsortS := takeLevel_rest (fun (x : Nat × Label) => x.1) lo single inv.sS (by
    intro x hx; exact hg.1 _ (by simp only [levelsOf, List.mem_append, List.mem_map]; exact Or.inl ⟨x, hx, rfl⟩))
  have hsortP := takeLevel_rest (fun (x : Nat × Label × Label) => x.1) lo pairs inv.sP (by
    intro x hx; exact hg.1 _ (by simp only [levelsOf, List.mem_append, List.mem_map]; exact Or.inr ⟨x, hx, rfl⟩))
  constructor
  · intro y hy
    simp only [levelsOf, List.mem_append, List.mem_map] at hy
    rcases hy with ⟨x, hx, rfl⟩ | ⟨x, hx, rfl⟩
    · rcases hs1 x hx with h | h
      · have := hsortS.1 x h; omega
      · omega
    · rcases hp1 x hx with h | h
      · have := hsortP.1 x h; omega
      · omega
  · intro y hy hgt
    -- y comes from an old element above lo + 1; y - 1 is an old level above lo, hence kept
    have hyold : y ∈ levelsOf single pairs := by
      simp only [levelsOf, List.mem_append, List.mem_map] at hy ⊢
      rcases hy with ⟨x, hx, rfl⟩ | ⟨x, hx, rfl⟩
      · rcases hs1 x hx with h | h
        · exact Or.inl ⟨x, hsortS.2.2.1 x h, rfl⟩
        · omega
      · rcases hp1 x hx with h | h
        · exact Or.inr ⟨x, hsortP.2.2.1 x h, rfl⟩
        · omega
    have hprev := hg.2 y hyold (by omega)
    simp only [levelsOf, List.mem_append, List.mem_map] at hprev ⊢
    rcases hprev with ⟨x, hx, hxl⟩ | ⟨x, hx, hxl⟩
    · exact Or.inl ⟨x, hs2 x (takeLevel_keeps _ lo single x hx (by omega)), hxl⟩
    · exact Or.inr ⟨x, hp2 x (takeLevel_keeps _ lo pairs x hx (by omega)), hxl⟩

theorem range_append_self (res : List (Nat × Label)) (r : Label) (h : res.map (·.1) = List.range res.length) :
    (res ++ [(res.length, r)]).map (·.1) = List.range (res ++ [(res.length, r)]).length := by
  simp only [List.map_append, List.map_cons, List.map_nil, List.length_append, List.length_cons, List.length_nil, h]
  rw [List.range_succ]

/-- **levels of `add_sum_n_weighted_bits`**: if the remaining levels have no gaps above the results
so far, the final result carries the levels `0, 1, 2, …` in order -/
theorem sem_weightedLoop_levels {v : Label → Bool} {b : Basis} {inf : Nat} :
    ∀ (fuel : Nat) (single : List (Nat × Label)) (pairs : List (Nat × Label × Label)) (res out : List (Nat × Label)),
      Sem (weightedLoop b inf fuel single pairs res) v out → WInv inf single pairs res → (b = .aig → pairs = []) →
      Gapless res.length (levelsOf single pairs) → res.map (·.1) = List.range res.length →
      out.map (·.1) = List.range out.length := by
  intro fuel
  induction fuel with
  | zero => intro single pairs res out h; unfold weightedLoop at h; exact absurd h sem_fail
  | succ fuel ih =>
    intro single pairs res out h inv haig hgap hres
    unfold weightedLoop at h
    split at h
    · rw [sem_pure] at h; subst h; exact hres
    · rename_i he
      have hne : single ≠ [] ∨ pairs ≠ [] := by
        by_cases h1 : single = []
        · right; intro h2; subst h1; subst h2; simp at he
        · exact Or.inl h1
      obtain ⟨hlt, htk, hlenS, hlenP, hsr, hpr, hstep⟩ := winv_step inv hne
      obtain ⟨hlv, hgstep⟩ := gapless_step inv hne hgap
      simp only at h
      split at h
      · rename_i hge; omega
      · rw [hlv] at h hlenS hlenP hsr hpr hstep htk
        generalize hts : takeLevel (fun (x : Nat × Label) => x.1) res.length single = tS
          at h hlenS hsr hstep htk hgstep
        generalize htp : takeLevel (fun (x : Nat × Label × Label) => x.1) res.length pairs = tP
          at h hlenP hpr hstep htk hgstep
        obtain ⟨nowS, restS⟩ := tS
        obtain ⟨nowP, restP⟩ := tP
        simp only at h hlenS hlenP hsr hpr hstep htk hgstep
        cases b with
        | aig =>
          have hp0 : pairs = [] := haig rfl
          subst hp0
          simp only [takeLevel, Prod.mk.injEq] at htp
          obtain ⟨rfl, rfl⟩ := htp
          simp only [sem_bind] at h
          obtain ⟨⟨r, s'⟩, hlev, hrec⟩ := h
          obtain ⟨l1, l2, l3, l4, l5⟩ := sem_wSimpleLevel hlev
          simp only [List.length_map] at l2
          have inv' := hstep s' [] r (l5 hsr) (by simp [LSorted]) l3 (by simp) (by simp at hlenS ⊢; omega)
          have hg' := hgstep s' [] l3 l4 (by simp) (by simp)
          have := ih _ _ _ _ hrec inv' (fun _ => rfl) (by simpa using hg') (range_append_self res r hres)
          exact this
        | xaig =>
          simp only [sem_bind] at h
          obtain ⟨⟨soloR, pairsR⟩, hpu, ⟨r, nextS, nextP⟩, hlev, hrec⟩ := h
          obtain ⟨u1, _, u3, u4⟩ := sem_pairUp _ _ _ _ _ hpu
          have hne1 : soloR ≠ [] ∨ pairsR ≠ [] := by
            apply u3
            rcases htk with h1 | h1
            · left; simpa using h1
            · right; simpa using h1
          obtain ⟨x1, x2⟩ := sem_xaigLevel hlev hne1
          obtain ⟨fs1, fs2, fs3, fs4⟩ := foldInsertS_facts v (res.length + 1) nextS restS
          obtain ⟨fp1, fp2, fp3, fp4⟩ := foldInsertP_facts v (res.length + 1) nextP restP
          have u4' : soloR.length + 2 * pairsR.length ≤ nowS.length + 2 * nowP.length := by simpa using u4
          have x2' : 1 + nextS.length + 2 * nextP.length ≤ soloR.length + 2 * pairsR.length := x2
          have inv' := hstep _ _ r (fs4 hsr) (fp4 hpr) fs3 fp3 (by rw [fs2, fp2]; omega)
          have hg' := hgstep _ _ fs3 (foldInsertS_super _ _ _) fp3 (foldInsertP_super _ _ _)
          have := ih _ _ _ _ hrec inv' (fun hb => by cases hb) (by simpa using hg') (range_append_self res r hres)
          exact this

theorem gapless_of_mem_iff {lo : Nat} {L L' : List Nat} (h : ∀ x, x ∈ L' ↔ x ∈ L) (hg : Gapless lo L) : Gapless lo L' :=
  ⟨fun x hx => hg.1 x ((h x).mp hx), fun x hx hlt => (h _).mpr (hg.2 x ((h x).mp hx) hlt)⟩

/-- `add_sum_n_weighted_bits` on gapless weights starting at 0: output level `k` sits at position `k` -/
theorem sem_addSumWeighted_levels {v : Label → Bool} {ins out : List (Nat × Label)} {basis : BasisArg}
    (h : Sem (addSumWeighted ins basis) v out) (hg : Gapless 0 (ins.map (·.1))) :
    out.map (·.1) = List.range out.length := by
  unfold addSumWeighted at h
  split at h
  · exact absurd h sem_fail
  · split at h
    · exact absurd h sem_fail
    · refine sem_weightedLoop_levels _ _ _ _ _ h (winv_init ins) (fun _ => rfl) ?_ rfl
      apply gapless_of_mem_iff _ hg
      intro x
      simp only [levelsOf, List.map_nil, List.append_nil, List.length_nil, List.mem_map]
      constructor
      · rintro ⟨p, hp, rfl⟩; exact ⟨p, ((sortBy_facts ins).2.2 p).mp hp, rfl⟩
      · rintro ⟨p, hp, rfl⟩; exact ⟨p, ((sortBy_facts ins).2.2 p).mpr hp, rfl⟩

/-- a list carrying the levels `0..k-1` in order: its weighted sum is its positional value -/
theorem wsum_positional (v : Label → Bool) : ∀ (lv : List (Nat × Label)) (k : Nat),
    lv.map (·.1) = (List.range' k lv.length) → wsum v lv = 2 ^ k * valLE v (lv.map (·.2)) := by
  intro lv
  induction lv with
  | nil => intro k _; simp [wsum_nil, valLE]
  | cons p r ih =>
    intro k h
    simp only [List.map_cons, List.length_cons, List.range'_succ, List.cons.injEq] at h
    rw [wsum_cons, ih (k + 1) h.2, h.1]
    simp only [List.map_cons, valLE, Nat.pow_succ, Nat.mul_add]
    congr 1
    rw [Nat.mul_assoc]

theorem mem_ppWeighted_level (rows : List (List Label)) (y : Nat) :
    y ∈ (ppWeighted rows).map (·.1) ↔ ∃ i j row, rows[i]? = some row ∧ j < row.length ∧ y = i + j := by
  simp only [ppWeighted, List.mem_map, List.mem_flatten]
  constructor
  · rintro ⟨p, ⟨l, ⟨⟨row, i⟩, hri, rfl⟩, hp⟩, rfl⟩
    obtain ⟨⟨x, j⟩, hxj, rfl⟩ := List.mem_map.mp hp
    rw [List.mem_zipIdx_iff_getElem?] at hri hxj
    simp only [Nat.zero_add] at hri hxj
    exact ⟨i, j, row, hri, (List.getElem?_eq_some_iff.mp hxj).1, rfl⟩
  · rintro ⟨i, j, row, hr, hj, rfl⟩
    refine ⟨(i + j, row[j]), ⟨_, ⟨(row, i), ?_, rfl⟩, ?_⟩, rfl⟩
    · rw [List.mem_zipIdx_iff_getElem?]; simpa using hr
    · refine List.mem_map.mpr ⟨(row[j], j), ?_, rfl⟩
      rw [List.mem_zipIdx_iff_getElem?]; simp [List.getElem?_eq_getElem hj]

theorem ppWeighted_gapless (rows : List (List Label)) (n : Nat) (hn : 1 ≤ n) (hrows : ∀ r ∈ rows, r.length = n) :
    Gapless 0 ((ppWeighted rows).map (·.1)) := by
  refine ⟨fun _ _ => Nat.zero_le _, ?_⟩
  intro y hy hpos
  rw [mem_ppWeighted_level] at hy ⊢
  obtain ⟨i, j, row, hr, hj, rfl⟩ := hy
  by_cases hj0 : j = 0
  · subst hj0
    have hi : 0 < i := by omega
    have hlt : i < rows.length := (List.getElem?_eq_some_iff.mp hr).1
    have hprev : i - 1 < rows.length := by omega
    refine ⟨i - 1, 0, rows[i - 1], List.getElem?_eq_getElem hprev, ?_, by omega⟩
    rw [hrows _ (List.getElem_mem hprev)]; omega
  · exact ⟨i, j - 1, row, hr, by omega, by omega⟩

/-- **`add_mul` (DEFAULT), positional**: the returned bits, read in the requested endianness,
are exactly `a·b` -/
theorem sem_addMul {v : Label → Bool} {a b : List Label} {be : Bool} {out : List Label}
    (h : Sem (addMul a b be) v out) (ha : 1 ≤ a.length) :
    valLE v (revIf out be) = valLE v (revIf a be) * valLE v (revIf b be) := by
  simp only [addMul, sem_bind, sem_pure] at h
  obtain ⟨rows, hr, lv, hw, rfl⟩ := h
  obtain ⟨rows', e1, _, e3, e4, _⟩ := sem_ppRows _ _ _ hr
  simp only [List.nil_append] at e1; subst e1
  obtain ⟨w1, _⟩ := sem_addSumWeighted hw
  have hal : (revIf a be).length = a.length := by cases be <;> simp [revIf]
  have hlev := sem_addSumWeighted_levels hw (ppWeighted_gapless rows a.length ha (fun r hr' => by rw [e3 r hr', hal]))
  have hpos := wsum_positional v lv 0 (by rw [hlev, List.range_eq_range'])
  rw [revIf_revIf, ← e4, ← wsum_ppWeighted, ← w1, hpos]; simp

end Cirbo
