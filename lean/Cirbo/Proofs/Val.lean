import Cirbo.Spec.WF
import Cirbo.Model.Val3
import Cirbo.Proofs.Ops
/-!
# Valuations: uniqueness, Boolean/three-valued agreement, soundness and monotonicity
(all by induction on the rank of an acyclic circuit).
-/
namespace Cirbo
open GateType V3

theorem gate_of_label {c : Circuit} {l : Label} (hl : l ∈ c.labels) :
    ∃ g ∈ c.gates, g.label = l := by
  simpa [Circuit.labels] using hl

theorem nodup_map_inj {α β} (f : α → β) : ∀ (l : List α), (l.map f).Nodup →
    ∀ a ∈ l, ∀ b ∈ l, f a = f b → a = b
  | [], _, a, ha, _, _, _ => by cases ha
  | x :: xs, h, a, ha, b, hb, e => by
    simp only [List.map_cons, List.nodup_cons, List.mem_map, not_exists, not_and] at h
    simp only [List.mem_cons] at ha hb
    rcases ha with rfl | ha <;> rcases hb with rfl | hb
    · rfl
    · exact absurd e.symm (h.1 b hb)
    · exact absurd e (h.1 a ha)
    · exact nodup_map_inj f xs h.2 a ha b hb e

theorem gate_unique {c : Circuit} (h : c.labels.Nodup) {g g' : Gate} (hg : g ∈ c.gates)
    (hg' : g' ∈ c.gates) (e : g.label = g'.label) : g = g' :=
  nodup_map_inj (fun g => g.label) c.gates (by simpa [Circuit.labels] using h) g hg g' hg' e

theorem map_congr_mem {α β} (l : List α) (f g : α → β) (h : ∀ x ∈ l, f x = g x) :
    l.map f = l.map g := List.map_congr_left h

/-- generic rank induction: a predicate on gates that holds for a gate whenever it holds for
all its operands holds for every gate of an acyclic, closed circuit -/
theorem rank_induction {c : Circuit} (hcl : ∀ g ∈ c.gates, ∀ o ∈ g.ops, o ∈ c.labels)
    (hr : ∃ r : Label → Nat, ∀ g ∈ c.gates, ∀ o ∈ g.ops, r o < r g.label)
    (P : Gate → Prop)
    (step : ∀ g ∈ c.gates, (∀ o ∈ g.ops, ∀ go ∈ c.gates, go.label = o → P go) → P g) :
    ∀ g ∈ c.gates, P g := by
  obtain ⟨r, hr⟩ := hr
  suffices ∀ n, ∀ g ∈ c.gates, r g.label < n → P g from
    fun g hg => this _ g hg (Nat.lt_succ_self _)
  intro n
  induction n with
  | zero => intro g _ h0; exact absurd h0 (Nat.not_lt_zero _)
  | succ n ih =>
    intro g hg hlt
    apply step g hg
    intro o ho go hgo hgol
    apply ih go hgo
    rw [hgol]
    exact Nat.lt_of_lt_of_le (hr g hg o ho) (Nat.le_of_lt_succ hlt)

/-- **Uniqueness of the denotational semantics**: two Boolean valuations of a well-formed
circuit under the same input assignment agree on every gate. -/
theorem valB_unique_cr {c : Circuit} (hcl : ∀ g ∈ c.gates, ∀ o ∈ g.ops, o ∈ c.labels)
    (hrk : ∃ r : Label → Nat, ∀ g ∈ c.gates, ∀ o ∈ g.ops, r o < r g.label) {a : Label → Bool} {v v' : Label → Bool}
    (hv : IsValB c a v) (hv' : IsValB c a v') : ∀ g ∈ c.gates, v g.label = v' g.label := by
  apply rank_induction hcl hrk (fun g => v g.label = v' g.label)
  intro g hg ih
  have h1 := hv g hg
  have h2 := hv' g hg
  by_cases ht : g.ty = INPUT
  · simp only [ht, if_true] at h1 h2; rw [h1, h2]
  · simp only [ht, if_false] at h1 h2
    have : g.ops.map v = g.ops.map v' := by
      apply map_congr_mem
      intro o ho
      obtain ⟨go, hgo, hgol⟩ := gate_of_label (hcl g hg o ho)
      have := ih o ho go hgo hgol
      rwa [hgol] at this
    rw [this, h2] at h1
    exact (Option.some.inj h1).symm

theorem valB_unique {c : Circuit} (h : WF c) {a : Label → Bool} {v v' : Label → Bool}
    (hv : IsValB c a v) (hv' : IsValB c a v') : ∀ g ∈ c.gates, v g.label = v' g.label :=
  valB_unique_cr h.closed h.rank hv hv'

/-- two three-valued valuations under the same assignment agree on every gate -/
theorem val3_unique {c : Circuit} (h : WF c) {a : Label → V3} {v v' : Label → V3}
    (hv : IsVal3 c a v) (hv' : IsVal3 c a v') : ∀ g ∈ c.gates, v g.label = v' g.label := by
  apply rank_induction h.closed h.rank (fun g => v g.label = v' g.label)
  intro g hg ih
  have h1 := hv g hg
  have h2 := hv' g hg
  by_cases ht : g.ty = INPUT
  · simp only [ht, if_true] at h1 h2; rw [h1, h2]
  · simp only [ht, if_false] at h1 h2
    have : g.ops.map v = g.ops.map v' := by
      apply map_congr_mem
      intro o ho
      obtain ⟨go, hgo, hgol⟩ := gate_of_label (h.closed g hg o ho)
      have := ih o ho go hgo hgol
      rwa [hgol] at this
    rw [this, h2] at h1
    exact (Option.some.inj h1).symm

/-- a Boolean valuation, embedded, is a three-valued valuation (the code's operators on
defined arguments are the spec functions) -/
theorem isVal3_of_isValB {c : Circuit} {a : Label → Bool} {v : Label → Bool}
    (hv : IsValB c a v) : IsVal3 c (fun l => ofBool (a l)) (fun l => ofBool (v l)) := by
  intro g hg
  have h1 := hv g hg
  by_cases ht : g.ty = INPUT
  · simp only [ht, if_true] at h1 ⊢; rw [h1]
  · simp only [ht, if_false] at h1 ⊢
    have : g.ops.map (fun l => ofBool (v l)) = (g.ops.map v).map ofBool := by simp
    rw [this, applyOp_ofBool, h1]; rfl

/-- **C01 core**: any valuation computed with the code's operators under a total input
assignment is the embedded denotational semantics. -/
theorem val3_total_eq_valB {c : Circuit} (h : WF c) {a : Label → Bool} {vB : Label → Bool}
    {v3 : Label → V3} (hB : IsValB c a vB) (h3 : IsVal3 c (fun l => ofBool (a l)) v3) :
    ∀ g ∈ c.gates, v3 g.label = ofBool (vB g.label) :=
  val3_unique h h3 (isVal3_of_isValB hB)

/-- **C15 monotonicity**: defining more inputs never changes an already defined value. -/
theorem val3_mono {c : Circuit} (h : WF c) {a a' : Label → V3} {v v' : Label → V3}
    (haa : ∀ l, a l ≤ a' l) (hv : IsVal3 c a v) (hv' : IsVal3 c a' v') :
    ∀ g ∈ c.gates, v g.label ≤ v' g.label := by
  apply rank_induction h.closed h.rank (fun g => v g.label ≤ v' g.label)
  intro g hg ih
  have h1 := hv g hg
  have h2 := hv' g hg
  by_cases ht : g.ty = INPUT
  · simp only [ht, if_true] at h1 h2; rw [h1, h2]; exact haa _
  · simp only [ht, if_false] at h1 h2
    have hm : All2 (· ≤ ·) (g.ops.map v) (g.ops.map v') := by
      apply forall₂_map_le
      intro o ho
      obtain ⟨go, hgo, hgol⟩ := gate_of_label (h.closed g hg o ho)
      have := ih o ho go hgo hgol
      rwa [hgol] at this
    have := applyOp_mono g.ty _ _ hm
    rw [h1, h2] at this
    exact this

/-- **C15 soundness**: a gate reported True/False under a partial assignment has that value
under every completion. -/
theorem val3_sound {c : Circuit} (h : WF c) {a : Label → V3} {b : Label → Bool}
    {v : Label → V3} {vB : Label → Bool}
    (hab : ∀ l, a l ≤ ofBool (b l)) (hv : IsVal3 c a v) (hB : IsValB c b vB) :
    ∀ g ∈ c.gates, v g.label ≤ ofBool (vB g.label) :=
  val3_mono h hab hv (isVal3_of_isValB hB)

theorem V3.le_ofBool_eq {x : V3} {b b' : Bool} (h1 : x = ofBool b) (h2 : x ≤ ofBool b') :
    b = b' := by
  subst h1; cases b <;> cases b' <;> first | rfl | (exfalso; revert h2; decide)

/-- **C15 totality**: under a total assignment no gate value is Undefined. -/
theorem val3_total_defined {c : Circuit} (h : WF c) {a : Label → Bool} {v3 : Label → V3}
    (h3 : IsVal3 c (fun l => ofBool (a l)) v3) : ∀ g ∈ c.gates, v3 g.label ≠ U := by
  apply rank_induction h.closed h.rank (fun g => v3 g.label ≠ U)
  intro g hg ih
  have h1 := h3 g hg
  by_cases ht : g.ty = INPUT
  · simp only [ht, if_true] at h1; rw [h1]; cases a g.label <;> decide
  · simp only [ht, if_false] at h1
    -- all operand values are Boolean
    have hops : ∃ bs : List Bool, g.ops.map v3 = bs.map ofBool := by
      have : ∀ ops : List Label, (∀ o ∈ ops, v3 o ≠ U) → ∃ bs : List Bool, ops.map v3 = bs.map ofBool := by
        intro ops
        induction ops with
        | nil => intro _; exact ⟨[], rfl⟩
        | cons o r ih2 =>
          intro hall
          obtain ⟨bs, hbs⟩ := ih2 (fun x hx => hall x (by simp [hx]))
          have ho := hall o (by simp)
          cases hvo : v3 o with
          | F => exact ⟨false :: bs, by simp [hvo, hbs, ofBool]⟩
          | T => exact ⟨true :: bs, by simp [hvo, hbs, ofBool]⟩
          | U => exact absurd hvo ho
      apply this
      intro o ho
      obtain ⟨go, hgo, hgol⟩ := gate_of_label (h.closed g hg o ho)
      have := ih o ho go hgo hgol
      rwa [hgol] at this
    obtain ⟨bs, hbs⟩ := hops
    rw [hbs, applyOp_ofBool] at h1
    cases hb : bfun g.ty bs with
    | none => rw [hb] at h1; cases h1
    | some r =>
      rw [hb] at h1
      have : v3 g.label = ofBool r := (Option.some.inj h1).symm
      rw [this]; cases r <;> decide

end Cirbo
