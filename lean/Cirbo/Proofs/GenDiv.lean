import Cirbo.Proofs.GenSquare
/-!
# `add_div_mod`: restoring division
-/
namespace Cirbo
open GateType

theorem sem_progFold_desc {σ : Type} {v : Label → Bool} {f : σ → Nat → Prog σ} (P : Nat → σ → Prop) :
    ∀ (len a : Nat) (s out : σ), P (a + len) s →
    (∀ i s s', a ≤ i → i < a + len → P (i + 1) s → Sem (f s i) v s' → P i s') →
    Sem (progFold (List.range' a len).reverse s f) v out → P a out := by
  intro len
  induction len with
  | zero => intro a s out h0 _ h; simp only [List.range'_zero, List.reverse_nil, progFold, sem_pure] at h; subst h; exact h0
  | succ len ih =>
    intro a s out h0 hstep h
    rw [List.range'_concat, List.reverse_append] at h
    simp only [List.reverse_cons, List.reverse_nil, List.nil_append, List.cons_append, Nat.one_mul, progFold, sem_bind] at h
    obtain ⟨s1, h1, h2⟩ := h
    exact ih a s1 out (hstep (a + len) s s1 (by omega) (by omega) h0 h1)
      (fun i s s' hi1 hi2 hp hs => hstep i s s' hi1 (by omega) hp hs) h2

theorem sem_muxLoop {v : Label → Bool} {sel : Label} : ∀ (subs xs acc out : List Label),
    Sem (muxLoop sel subs xs acc) v out → subs.length = xs.length →
    ∃ hi, out = acc ++ hi ∧ hi.length = xs.length ∧ valLE v hi = if v sel = true then valLE v subs else valLE v xs := by
  intro subs
  induction subs with
  | nil =>
    intro xs acc out h hl
    have : xs = [] := List.eq_nil_of_length_eq_zero (by simpa using hl.symm)
    subst this
    simp only [muxLoop, sem_pure] at h
    exact ⟨[], by simpa using h, rfl, by simp [valLE]⟩
  | cons s subs ih =>
    intro xs acc out h hl
    cases xs with
    | nil => simp at hl
    | cons x xs =>
      simp only [muxLoop, sem_bind] at h
      obtain ⟨g1, h1, g2, h2, g3, h3, hrec⟩ := h
      obtain ⟨hi, e1, e2, e3⟩ := ih xs _ out hrec (by simpa using hl)
      refine ⟨g3 :: hi, by rw [e1]; simp, by simp [e2], ?_⟩
      have hb : bv v g3 = if v sel = true then bv v s else bv v x := by
        simp only [bv, sem_emitTT h3, sem_emitTT h2, sem_emitTT h1]
        cases v sel <;> cases v s <;> cases v x <;> rfl
      simp only [valLE, hb, e3]
      split <;> rfl

theorem sem_andAll {v : Label → Bool} {m : Label} : ∀ (xs acc out : List Label),
    Sem (andAll m xs acc) v out →
    ∃ gs, out = acc ++ gs ∧ gs.length = xs.length ∧ valLE v gs = if v m = true then valLE v xs else 0 := by
  intro xs
  induction xs with
  | nil => intro acc out h; simp only [andAll, sem_pure] at h; exact ⟨[], by simpa using h, rfl, by simp [valLE]⟩
  | cons x xs ih =>
    intro acc out h
    simp only [andAll, sem_bind] at h
    obtain ⟨g, hg, hrec⟩ := h
    obtain ⟨gs, e1, e2, e3⟩ := ih _ out hrec
    refine ⟨g :: gs, by rw [e1]; simp, by simp [e2], ?_⟩
    have hb : bv v g = if v m = true then bv v x else 0 := by
      simp only [bv, sem_emitTT hg]
      cases v m <;> cases v x <;> rfl
    simp only [valLE, hb, e3]
    split <;> rfl

theorem valLE_drop_succ (v : Label → Bool) (b : List Label) (i : Nat) (hi : i < b.length) :
    valLE v (b.drop i) = bv v b[i] + 2 * valLE v (b.drop (i + 1)) := by
  rw [List.drop_eq_getElem_cons hi]; rfl

/-- `pref[k] = OR(b[n-1-k], …, b[n-1])` -/
theorem sem_prefLoop {v : Label → Bool} {b : List Label} : ∀ (len : Nat) (pref out : List Label),
    1 ≤ pref.length → (len = 0 ∨ pref.length + len + 1 = b.length) →
    (∀ k (hk : k < pref.length), (v pref[k] = true ↔ valLE v (b.drop (b.length - 1 - k)) ≠ 0)) →
    Sem (prefLoop b (List.range' 1 len).reverse pref) v out →
    out.length = pref.length + len ∧
    (∀ k (hk : k < out.length), (v out[k] = true ↔ valLE v (b.drop (b.length - 1 - k)) ≠ 0)) := by
  intro len
  induction len with
  | zero =>
    intro pref out _ _ hp h
    simp only [List.range'_zero, List.reverse_nil, prefLoop, sem_pure] at h
    subst h
    exact ⟨rfl, hp⟩
  | succ len ih =>
    intro pref out h1 hlen0 hp h
    have hlen : pref.length + (len + 1) + 1 = b.length := by rcases hlen0 with h | h; omega; exact h
    rw [List.range'_concat, List.reverse_append] at h
    simp only [List.reverse_cons, List.reverse_nil, List.nil_append, List.cons_append, Nat.one_mul, prefLoop] at h
    split at h
    · rename_i p bi hlast hbi
      simp only [sem_bind] at h
      obtain ⟨g, hg, hrec⟩ := h
      have hil : 1 + len < b.length := by omega
      have hbi' : b[1 + len] = bi := by
        rw [List.getElem?_eq_getElem hil] at hbi; exact Option.some.inj hbi
      have hplast : pref[pref.length - 1]'(by omega) = p := by
        rw [List.getLast?_eq_getElem?, List.getElem?_eq_getElem (by omega)] at hlast
        exact Option.some.inj hlast
      obtain ⟨r1, r2⟩ := ih (pref ++ [g]) out (by simp) (Or.inr (by simp; omega)) (by
        intro k hk
        by_cases hk' : k < pref.length
        · rw [List.getElem_append_left hk']; exact hp k hk'
        · have hke : k = pref.length := by simp at hk; omega
          subst hke
          rw [List.getElem_append_right (Nat.le_refl _)]
          simp only [Nat.sub_self, List.getElem_cons_zero]
          have hpv := hp (pref.length - 1) (by omega)
          rw [hplast] at hpv
          have hd : b.length - 1 - pref.length = 1 + len := by omega
          rw [hd, valLE_drop_succ v b (1 + len) hil, hbi']
          have hd2 : b.length - 1 - (pref.length - 1) = 1 + len + 1 := by omega
          rw [hd2] at hpv
          rw [sem_emitTT hg]
          cases hvp : v p <;> cases hvb : v bi <;> simp [ttApply, t0111, bv, hvp, hvb] at hpv ⊢ <;> omega) hrec
      refine ⟨by rw [r1]; simp; omega, r2⟩
    · exact absurd h sem_fail

/-- one step of restoring division, on numbers: `T = 2^i`, `M = 2^(n-i)`, the running remainder is
`N = L + T·H`, the divisor `B = Bl + M·Bh`; the new quotient bit is `¬(Bh ≠ 0) ∧ ¬(H < Bl)` -/
theorem div_step_arith (A Q B N L H S T Bl Bh M : Nat) (per prov : Bool)
    (hN : N = L + T * H) (hL : L < T) (hB : B = Bl + M * Bh) (hH : H < M)
    (hsub : H + M * per.toNat = Bl + S) (hper : per = true ↔ H < Bl) (hprov : prov = true ↔ Bh ≠ 0)
    (hA : A = Q * (2 * T) * B + N) (hbound : 0 < B → N < B * (2 * T)) :
    A = ((!prov && !per).toNat + 2 * Q) * T * B + (L + T * (if (!prov && !per) = true then S else H)) ∧
    (0 < B → L + T * (if (!prov && !per) = true then S else H) < B * T) := by
  have hQ : Q * (2 * T) * B = 2 * (Q * T * B) := by
    rw [Nat.mul_left_comm Q 2 T, Nat.mul_assoc 2]
  have hQ2 : ∀ r, (r + 2 * Q) * T * B = r * T * B + 2 * (Q * T * B) := by
    intro r; rw [Nat.add_mul, Nat.add_mul, Nat.mul_assoc 2, Nat.mul_assoc 2]
  rw [hQ] at hA
  rw [hQ2]
  cases hpv : prov
  · cases hpe : per
    · -- subtract
      have hBh : Bh = 0 := by
        rcases Nat.eq_zero_or_pos Bh with h | h
        · exact h
        · have := hprov.mpr (by omega); rw [hpv] at this; cases this
      have hge : ¬ H < Bl := fun h => by have := hper.mpr h; rw [hpe] at this; cases this
      subst hBh
      simp only [Nat.mul_zero, Nat.add_zero] at hB
      subst hB
      simp only [hpe, Bool.toNat_false, Nat.mul_zero, Nat.add_zero] at hsub
      simp only [Bool.not_false, Bool.and_self, Bool.toNat_true, if_true, Nat.one_mul]
      have e1 : T * H = T * B + T * S := by rw [hsub, Nat.mul_add]
      have e2 : B * (2 * T) = 2 * (T * B) := by rw [Nat.mul_comm B, Nat.mul_assoc]
      rw [e2] at hbound
      rw [Nat.mul_comm B T]
      generalize T * B = X at *
      generalize T * S = Z at *
      generalize Q * T * B = W at *
      generalize T * H = Y at *
      exact ⟨by omega, fun hb => by have := hbound hb; omega⟩
    · have hlt : H < Bl := hper.mp hpe
      have hBh : Bh = 0 := by
        rcases Nat.eq_zero_or_pos Bh with h | h
        · exact h
        · have := hprov.mpr (by omega); rw [hpv] at this; cases this
      subst hBh
      simp only [Nat.mul_zero, Nat.add_zero] at hB
      subst hB
      simp only [Bool.not_false, Bool.not_true, Bool.and_false, Bool.toNat_false, Nat.zero_mul, Nat.zero_add,
        Bool.false_eq_true, if_false]
      refine ⟨by omega, fun _ => ?_⟩
      have : T * (H + 1) ≤ T * B := Nat.mul_le_mul_left _ (by omega)
      rw [Nat.mul_add, Nat.mul_one] at this
      rw [Nat.mul_comm B T]
      omega
  · have hBh : 1 ≤ Bh := by
      have := hprov.mp hpv; omega
    simp only [Bool.not_true, Bool.false_and, Bool.toNat_false, Nat.zero_mul, Nat.zero_add, Bool.false_eq_true, if_false]
    refine ⟨by omega, fun _ => ?_⟩
    have h1 : T * (H + 1) ≤ T * M := Nat.mul_le_mul_left _ (by omega)
    have h2 : M * 1 ≤ M * Bh := Nat.mul_le_mul_left _ hBh
    have h3 : T * M ≤ T * B := Nat.mul_le_mul_left _ (by omega)
    rw [Nat.mul_add, Nat.mul_one] at h1
    rw [Nat.mul_comm B T]
    omega

def divStep (b0 pref : List Label) (n : Nat) (st : List Label × List Label) (i : Nat) : Prog (List Label × List Label) := do
  let (result, now) := st
  match pref[i - 1]? with
  | none => .fail "Py:IndexError"
  | some prov => do
    let m := n - i
    let (subRes, per) ← addSubtractWithCompare (now.drop (n - m)) (b0.take m) false
    let ri ← emitTT prov per t1000
    let hi ← muxLoop ri subRes (now.drop (n - m)) []
    pure (result.set i ri, now.take (n - m) ++ hi)

structure DivInv (v : Label → Bool) (n A B : Nat) (j : Nat) (st : List Label × List Label) : Prop where
  rl : st.1.length = n
  nl : st.2.length = n
  eq : A = valLE v (st.1.drop j) * (2 * 2 ^ (j - 1)) * B + valLE v st.2
  bound : 0 < B → valLE v st.2 < B * (2 * 2 ^ (j - 1))

theorem valLE_take_drop (v : Label → Bool) (l : List Label) (i : Nat) (hi : i ≤ l.length) :
    valLE v l = valLE v (l.take i) + 2 ^ i * valLE v (l.drop i) := by
  conv => lhs; rw [← List.take_append_drop i l, valLE_append]
  rw [List.length_take, Nat.min_eq_left hi]

theorem valLE_drop_set (v : Label → Bool) (l : List Label) (i : Nat) (x : Label) (hi : i < l.length) :
    valLE v ((l.set i x).drop i) = bv v x + 2 * valLE v (l.drop (i + 1)) := by
  rw [List.drop_eq_getElem_cons (by simpa using hi)]
  simp only [List.getElem_set_self, valLE]
  rw [List.drop_set_of_lt (by omega)]

theorem sem_divStep {v : Label → Bool} {b0 pref : List Label} {n A : Nat} (hb : b0.length = n)
    (hpl : n - 1 ≤ pref.length)
    (hpref : ∀ k (hk : k < pref.length), (v pref[k] = true ↔ valLE v (b0.drop (b0.length - 1 - k)) ≠ 0)) :
    ∀ (i : Nat) (st st' : List Label × List Label), 1 ≤ i → i < n → DivInv v n A (valLE v b0) (i + 1) st →
    Sem (divStep b0 pref n st i) v st' → DivInv v n A (valLE v b0) i st' := by
  intro i st st' hi1 hin hinv h
  obtain ⟨result, now⟩ := st
  obtain ⟨rl, nl, heq, hbound⟩ := hinv
  simp only at rl nl heq hbound
  simp only [divStep] at h
  split at h
  · exact absurd h sem_fail
  · rename_i prov hprov
    have hnm : n - (n - i) = i := by omega
    simp only [hnm, sem_bind, sem_pure] at h
    obtain ⟨⟨subRes, per⟩, hsub, ri, hri, hi, hmux, rfl⟩ := h
    obtain ⟨s1, s2, s3⟩ := sem_addSubtractWithCompare hsub
    simp only [revIf, Bool.false_eq_true, if_false, List.length_drop, List.length_take, nl, hb] at s1 s2 s3
    have hmm : max (n - i) (min (n - i) n) = n - i := by omega
    rw [hmm] at s1 s2
    obtain ⟨hi', e1, e2, e3⟩ := sem_muxLoop _ _ _ _ hmux (by rw [s1, List.length_drop, nl])
    simp only [List.nil_append] at e1; subst e1
    have hki : i - 1 < pref.length := by omega
    have hprov' : pref[i - 1] = prov := by
      rw [List.getElem?_eq_getElem hki] at hprov; exact Option.some.inj hprov
    have hpv := hpref (i - 1) hki
    rw [hprov', hb, show n - 1 - (i - 1) = n - i by omega] at hpv
    have hriv : v ri = (!v prov && !v per) := by
      rw [sem_emitTT hri]; cases v prov <;> cases v per <;> rfl
    have hN := valLE_take_drop v now i (by omega)
    have hB := valLE_take_drop v b0 (n - i) (by omega)
    have hL := valLE_lt v (now.take i)
    rw [List.length_take, nl, Nat.min_eq_left (by omega)] at hL
    have hH := valLE_lt v (now.drop i)
    rw [List.length_drop, nl] at hH
    have harith := div_step_arith A (valLE v (result.drop (i + 1))) (valLE v b0) (valLE v now) (valLE v (now.take i))
      (valLE v (now.drop i)) (valLE v subRes) (2 ^ i) (valLE v (b0.take (n - i))) (valLE v (b0.drop (n - i))) (2 ^ (n - i))
      (v per) (v prov) hN hL hB hH s2 s3 hpv (by simpa using heq) (by simpa using hbound)
    refine ⟨by simp [rl], by simp [nl, e2]; omega, ?_, ?_⟩
    · simp only
      rw [valLE_drop_set v result i ri (by omega), valLE_append, List.length_take, nl, Nat.min_eq_left (by omega), e3, hriv]
      have : 2 * 2 ^ (i - 1) = 2 ^ i := by
        rw [← Nat.pow_succ']; congr 1; omega
      rw [this]
      simpa [bv, hriv] using harith.1
    · intro hb0
      simp only
      rw [valLE_append, List.length_take, nl, Nat.min_eq_left (by omega), e3, hriv]
      have : 2 * 2 ^ (i - 1) = 2 ^ i := by
        rw [← Nat.pow_succ']; congr 1; omega
      rw [this]
      exact harith.2 hb0

/-- **`add_div_mod`**: for a non-zero divisor the two results are `⌊a/b⌋` and `a mod b`, for `b = 0`
both are `0`; each has the operands' width -/
theorem sem_addDivMod {v : Label → Bool} {a b q r : List Label} {be : Bool}
    (h : Sem (addDivMod a b be) v (q, r)) :
    q.length = a.length ∧ r.length = a.length ∧
    (valLE v (revIf b be) = 0 → valLE v (revIf q be) = 0 ∧ valLE v (revIf r be) = 0) ∧
    (0 < valLE v (revIf b be) →
      valLE v (revIf q be) = valLE v (revIf a be) / valLE v (revIf b be) ∧
      valLE v (revIf r be) = valLE v (revIf a be) % valLE v (revIf b be)) := by
  unfold addDivMod at h
  simp only [] at h
  rw [← length_revIf' a be]
  generalize revIf a be = a0 at h ⊢
  generalize revIf b be = b0 at h ⊢
  split at h
  · exact absurd h sem_fail
  · rename_i hlen
    have hab : a0.length = b0.length := by simpa using hlen
    split at h
    · exact absurd h sem_fail
    · rename_i bTop hlast
      simp only [sem_bind] at h
      obtain ⟨pref, hpref, ⟨result, now⟩, hloop, ⟨subRes, per⟩, hsub, r0, hr0, now1, hmux, h⟩ := h
      obtain ⟨binit, hb0⟩ := List.getLast?_eq_some_iff.mp hlast
      have hn1 : 1 ≤ b0.length := by rw [hb0]; simp
      generalize hn : a0.length = n at *
      -- the OR-prefixes of the divisor
      have hpf : pref.length = 1 + (n - 2) ∧
          ∀ k (hk : k < pref.length), (v pref[k] = true ↔ valLE v (b0.drop (b0.length - 1 - k)) ≠ 0) := by
        have hidx : (List.range (n - 1)).drop 1 = List.range' 1 (n - 2) := by
          rw [List.range_eq_range', List.drop_range']; congr 1
        rw [hidx] at hpref
        refine sem_prefLoop (n - 2) [bTop] pref (by simp) (by simp; omega) ?_ hpref
        intro k hk
        have hk0 : k = 0 := by simpa using hk
        subst hk0
        have : b0.drop (b0.length - 1 - 0) = [bTop] := by
          rw [hb0]; simp
        rw [this]
        simp only [List.getElem_cons_zero, valLE, bv, Nat.mul_zero, Nat.add_zero]
        cases v bTop <;> simp
      obtain ⟨hpl, hpv⟩ := hpf
      -- the main loop
      have hidx : (List.range n).drop 1 = List.range' 1 (n - 1) := by
        rw [List.range_eq_range', List.drop_range']
      have hloop' : Sem (progFold (List.range' 1 (n - 1)).reverse (List.replicate n Gen.placeholderStr, a0)
          (divStep b0 pref n)) v (result, now) := by rw [← hidx]; exact hloop
      have hA := valLE_lt v a0
      rw [hn] at hA
      have hinit : DivInv v n (valLE v a0) (valLE v b0) (1 + (n - 1)) (List.replicate n Gen.placeholderStr, a0) := by
        refine ⟨by simp, hn, ?_, ?_⟩
        · simp only
          rw [List.drop_of_length_le (by simp; omega)]; simp [valLE]
        · intro hb
          simp only
          have : 2 * 2 ^ (1 + (n - 1) - 1) = 2 ^ n := by
            rw [← Nat.pow_succ']; congr 1; omega
          rw [this]
          calc valLE v a0 < 2 ^ n := hA
            _ = 1 * 2 ^ n := (Nat.one_mul _).symm
            _ ≤ valLE v b0 * 2 ^ n := Nat.mul_le_mul_right _ hb
      have hend := sem_progFold_desc (v := v) (DivInv v n (valLE v a0) (valLE v b0)) (n - 1) 1 _ (result, now) hinit
        (fun i st st' h1 h2 hp hs => sem_divStep hab.symm (by omega) hpv i st st' h1 (by omega) hp hs) hloop'
      obtain ⟨rl, nl, heq, hbound⟩ := hend
      simp only [Nat.sub_self, Nat.pow_zero, Nat.mul_one] at rl nl heq hbound
      -- the last subtraction (shift 0)
      obtain ⟨s1, s2, s3⟩ := sem_addSubtractWithCompare hsub
      simp only [revIf, Bool.false_eq_true, if_false, nl, ← hab, Nat.max_self] at s1 s2 s3
      obtain ⟨hi', e1, e2, e3⟩ := sem_muxLoop _ _ _ _ hmux (by rw [s1, nl])
      simp only [List.nil_append] at e1; subst e1
      simp only at e2 e3
      have hr0v : v r0 = !v per := by rw [sem_emitTT hr0]; cases v per <;> rfl
      have hH := valLE_lt v now
      rw [nl] at hH
      have harith := div_step_arith (valLE v a0) (valLE v (result.drop 1)) (valLE v b0) (valLE v now) 0 (valLE v now)
        (valLE v subRes) 1 (valLE v b0) 0 (2 ^ n) (v per) false (by omega) (by omega) (by omega) hH s2 s3 (by simp)
        (by simpa using heq) (by simpa using hbound)
      simp only [Bool.not_false, Bool.true_and, Nat.mul_one, Nat.one_mul, Nat.zero_add] at harith
      obtain ⟨hfin, hfinb⟩ := harith
      have hq1 : valLE v (result.set 0 r0) = bv v r0 + 2 * valLE v (result.drop 1) := by
        have := valLE_drop_set v result 0 r0 (by omega)
        simpa using this
      rw [← hr0v] at hfin hfinb
      rw [← e3] at hfin hfinb
      -- zero-divisor masking
      obtain ⟨p, hplast⟩ : ∃ p, pref.getLast? = some p := by
        cases hp : pref.getLast? with
        | some p => exact ⟨p, rfl⟩
        | none =>
          have := List.getLast?_eq_none_iff.mp hp
          subst this
          have : ([] : List Label).length = 0 := rfl
          omega
      obtain ⟨bLow, btl, hblow⟩ : ∃ x t, b0 = x :: t := by
        cases hb : b0 with
        | nil => rw [hb] at hn1; simp at hn1
        | cons x t => exact ⟨x, t, rfl⟩
      rw [hplast, hblow] at h
      simp only [] at h
      · 
        simp only [sem_bind, sem_pure, Prod.mk.injEq] at h
        obtain ⟨nz, hnz, result2, hres2, now2, hnow2, rfl, rfl⟩ := h
        obtain ⟨g1, f1, f2, f3⟩ := sem_andAll _ _ _ hres2
        obtain ⟨g2, k1, k2, k3⟩ := sem_andAll _ _ _ hnow2
        simp only [List.nil_append] at f1 k1; subst f1; subst k1
        have hnzv : (v nz = true ↔ valLE v b0 ≠ 0) := by
          have hlast' : pref[pref.length - 1]'(by omega) = p := by
            rw [List.getLast?_eq_getElem?, List.getElem?_eq_getElem (by omega)] at hplast
            exact Option.some.inj hplast
          have hp := hpv (pref.length - 1) (by omega)
          rw [hlast'] at hp
          rw [sem_emitTT hnz]
          by_cases hn2 : 2 ≤ n
          · have hd : b0.length - 1 - (pref.length - 1) = 1 := by omega
            rw [hd] at hp
            have : valLE v b0 = bv v bLow + 2 * valLE v (b0.drop 1) := by rw [hblow]; rfl
            rw [this]
            cases hvp : v p <;> cases hvb : v bLow <;> simp [ttApply, t0111, bv, hvp, hvb] at hp ⊢ <;> omega
          · have hd : b0.length - 1 - (pref.length - 1) = 0 := by omega
            rw [hd, List.drop_zero] at hp
            have hbl : b0 = [bLow] := by
              have hl : b0.length = 1 := by omega
              rw [hblow] at hl ⊢
              simp at hl
              rw [hl]
            rw [hbl] at hp ⊢
            simp only [valLE, bv, Nat.mul_zero, Nat.add_zero] at hp ⊢
            cases hvp : v p <;> cases hvb : v bLow <;> simp [ttApply, t0111, hvp, hvb] at hp ⊢
        refine ⟨by rw [length_revIf', f2]; simp [rl], by rw [length_revIf', k2, e2, nl], ?_, ?_⟩
        · intro hb
          have : v nz = false := by
            cases hz : v nz
            · rfl
            · exact absurd hb (hnzv.mp hz)
          rw [revIf_revIf, revIf_revIf, f3, k3, this]; simp
        · intro hb
          have hz : v nz = true := hnzv.mpr (by omega)
          rw [revIf_revIf, revIf_revIf, f3, k3, hz]
          simp only [if_true]
          have hlt := hfinb hb
          rw [hq1]
          have := (Nat.div_mod_unique hb (a := valLE v a0) (c := valLE v now1) (d := bv v r0 + 2 * valLE v (result.drop 1))).mpr
            ⟨by rw [hfin]; simp only [bv]; rw [Nat.mul_comm]; omega, by simpa using hlt⟩
          exact ⟨this.1.symm, this.2.symm⟩

end Cirbo
