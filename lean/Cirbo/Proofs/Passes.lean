import Cirbo.Model.Passes
import Cirbo.Proofs.Dfs
import Cirbo.Proofs.Mutate
import Cirbo.Proofs.Convert
import Cirbo.Proofs.Connect
/-! # RemoveRedundantGates: function, interface, size, exactness (C03, C18) -/
namespace Cirbo
open GateType Circuit

theorem hookLabels_false (log : List Ev) : hookLabels log false = exits log := by
  unfold hookLabels exits
  congr 1
  funext e
  cases e <;> simp

def emplaceStep (c : Circuit) (remap : Label → Label) (acc : R Circuit) (l : Label) : R Circuit :=
  match acc with
  | .error e => .error e
  | .ok n => match c.find? l with
    | none => .error "GateDoesntExistError"
    | some g => n.addGate ⟨g.label, g.ty, g.ops.map remap⟩

theorem emplaceAll_eq (c : Circuit) (ls : List Label) (remap : Label → Label) (init : Circuit) :
    emplaceAll c ls remap init = ls.foldl (emplaceStep c remap) (.ok init) := rfl

theorem foldl_emplaceStep_error (c : Circuit) (remap : Label → Label) (e : String) :
    ∀ (xs : List Label), xs.foldl (emplaceStep c remap) (.error e) = .error e := by
  intro xs; induction xs with
  | nil => rfl
  | cons a b ih => simpa [emplaceStep] using ih

/-- emplacing the gates of `c` named by `ls` (operands untouched): what the new circuit contains -/
theorem emplaceAll_id_spec (c : Circuit) : ∀ (ls : List Label) (init n : Circuit),
    emplaceAll c ls id init = .ok n →
    ∃ gs : List Gate, n.gates = init.gates ++ gs ∧ gs.map (·.label) = ls ∧ (∀ g ∈ gs, g ∈ c.gates) ∧
      n.outputs = init.outputs ∧ n.blocks = init.blocks ∧
      n.inputs = init.inputs ++ (gs.filter (fun g => g.ty == INPUT)).map (·.label) := by
  intro ls
  induction ls with
  | nil =>
    intro init n h
    simp [emplaceAll] at h; subst h
    exact ⟨[], by simp, rfl, by simp, rfl, rfl, by simp⟩
  | cons l r ih =>
    intro init n h
    rw [emplaceAll_eq] at h
    simp only [List.foldl_cons] at h
    cases hs : emplaceStep c id (.ok init) l with
    | error e => rw [hs, foldl_emplaceStep_error] at h; cases h
    | ok n1 =>
      rw [hs] at h
      unfold emplaceStep at hs
      simp only at hs
      cases hf : c.find? l with
      | none => simp [hf] at hs
      | some g =>
        simp only [hf, List.map_id] at hs
        obtain ⟨hgm, hgl⟩ := find_some_mem hf
        obtain ⟨_, _, hg1, hi1, ho1, hb1, _⟩ := addGate_fields hs
        obtain ⟨gs, a1, a2, a3, a4, a5, a6⟩ := ih n1 n (by rw [emplaceAll_eq]; exact h)
        have hgeq : (⟨g.label, g.ty, g.ops⟩ : Gate) = g := rfl
        refine ⟨g :: gs, ?_, by simp [a2, hgl], ?_, a4.trans ho1, a5.trans hb1, ?_⟩
        · rw [a1, hg1]; simp
        · intro x hx; simp only [List.mem_cons] at hx
          rcases hx with rfl | hx
          · exact hgm
          · exact a3 x hx
        · rw [a6, hi1]
          by_cases ht : g.ty = INPUT <;> simp [ht]

theorem map_label_inputGates (ls : List Label) :
    List.map ((fun (x : Gate) => x.label) ∘ fun i => (⟨i, INPUT, []⟩ : Gate)) ls = ls := by
  induction ls with
  | nil => rfl
  | cons a r ih => simp only [List.map_cons, Function.comp, List.cons.injEq, true_and]; exact ih

theorem addInputs_spec : ∀ (ls : List Label) (n n' : Circuit), n.addInputs ls = .ok n' →
    n'.gates = n.gates ++ ls.map (fun i => (⟨i, INPUT, []⟩ : Gate)) ∧ n'.inputs = n.inputs ++ ls ∧
    n'.outputs = n.outputs := by
  intro ls
  induction ls with
  | nil => intro n n' h; simp [addInputs] at h; subst h; simp
  | cons i r ih =>
    intro n n' h
    unfold addInputs at h
    cases ha : n.addGate ⟨i, INPUT, []⟩ with
    | error e => simp [ha] at h
    | ok n1 =>
      simp only [ha] at h
      obtain ⟨_, _, hg, hi, ho, _, _⟩ := addGate_fields ha
      obtain ⟨a1, a2, a3⟩ := ih n1 n' h
      refine ⟨by rw [a1, hg]; simp, by rw [a2, hi]; simp, a3.trans ho⟩

theorem setInputs_inputs {c c' : Circuit} {ins : List Label} (h : c.setInputs ins = .ok c') :
    c'.inputs = ins ∧ c'.outputs = c.outputs := by
  unfold setInputs at h
  split at h
  · cases h
  · split at h
    · cases h
    · cases hg : setInputs.go c ins [] with
      | error e => simp [hg] at h
      | ok new =>
        simp only [hg, Except.ok.injEq] at h; subst h
        obtain ⟨e1, _, _⟩ := setInputs_go_spec c ins [] new hg
        simp only [List.nil_append] at e1
        exact ⟨e1, rfl⟩

theorem setOutputs_outputs {c c' : Circuit} {o : List Label} (h : c.setOutputs o = .ok c') :
    c'.outputs = o ∧ c'.inputs = c.inputs := by
  unfold setOutputs at h
  split at h
  · cases h
  · simp only [Except.ok.injEq] at h; subst h; exact ⟨rfl, rfl⟩

/-- **RemoveRedundantGates** (with and without input removal): the result consists of gates of the
argument only — so every valuation of the argument is a valuation of the result (identical truth
table), it is never larger — it keeps the outputs, keeps the inputs (all of them unless removal was
requested, in the original order), and contains exactly the gates reachable from the outputs plus
all inputs unless their removal was requested. -/
theorem rrg_spec {allow : Bool} {c c' : Circuit} (hw : WFS c) (h : rrg allow c = .ok c') :
    WFS c' ∧
    (∀ g ∈ c'.gates, g ∈ c.gates) ∧
    (∀ b v, IsValB c b v → IsValB c' b v) ∧
    c'.outputs = c.outputs ∧
    c'.inputs = c.inputs.filter (fun i => decide (i ∈ c'.labels)) ∧
    (allow = false → c'.inputs = c.inputs) ∧
    c'.gates.length ≤ c.gates.length ∧
    (c.gates ≠ [] → ∀ l, l ∈ c'.labels ↔ Reach c.opsOf c.outputs l ∨ (allow = false ∧ l ∈ c.inputs)) := by
  unfold rrg at h
  cases ht : traverse c false false (some c.outputs) false with
  | error e => simp [ht] at h
  | ok log =>
    simp only [ht] at h
    cases he : emplaceAll c (hookLabels log false) id Circuit.empty with
    | error e => simp [he] at h
    | ok n1 =>
      simp only [he] at h
      obtain ⟨gs, g1, g2, g3, g4, _, g6⟩ := emplaceAll_id_spec c _ _ _ he
      simp only [Circuit.empty, List.nil_append] at g1 g4 g6
      rw [hookLabels_false] at g2
      -- second stage: missing inputs
      have hstage : ∃ n2 missing, (if allow then .ok n1 else n1.addInputs (c.inputs.filter (fun i => !n1.hasGate i))) = .ok n2 ∧
          n2.gates = gs ++ missing.map (fun i => (⟨i, INPUT, []⟩ : Gate)) ∧
          n2.inputs = n1.inputs ++ missing ∧
          missing = (if allow then [] else c.inputs.filter (fun i => !n1.hasGate i)) := by
        cases allow
        · simp only [Bool.false_eq_true, if_false] at h ⊢
          cases ha : n1.addInputs (c.inputs.filter (fun i => !n1.hasGate i)) with
          | error e => simp [ha] at h
          | ok n2 =>
            obtain ⟨a1, a2, _⟩ := addInputs_spec _ _ _ ha
            exact ⟨n2, _, rfl, by rw [a1, g1], a2, rfl⟩
        · simp only [if_true]
          exact ⟨n1, [], rfl, by simp [g1], by simp, rfl⟩
      obtain ⟨n2, missing, hn2, hg2, hi2, hmiss⟩ := hstage
      rw [hn2] at h
      simp only at h
      cases hsi : n2.setInputs (c.inputs.filter (fun i => n2.inputs.contains i)) with
      | error e => rw [hsi] at h; cases h
      | ok n3 =>
        rw [hsi] at h
        have hg3 := setInputs_gates hsi
        obtain ⟨hi3, _⟩ := setInputs_inputs hsi
        have hgc := setOutputs_gates h
        obtain ⟨hoc, hic⟩ := setOutputs_outputs h
        have hgates : c'.gates = gs ++ missing.map (fun i => (⟨i, INPUT, []⟩ : Gate)) := by rw [hgc, hg3, hg2]
        have hmissIn : ∀ i ∈ missing, i ∈ c.inputs := by
          intro i hi; rw [hmiss] at hi
          cases allow
          · simp only [Bool.false_eq_true, if_false] at hi; exact (List.mem_filter.mp hi).1
          · simp at hi
        have hmissGate : ∀ i ∈ missing, (⟨i, INPUT, []⟩ : Gate) ∈ c.gates := by
          intro i hi
          obtain ⟨g, hg, hgl, hgt⟩ := (hw.inputsOK i).mp (hmissIn i hi)
          have : g = ⟨i, INPUT, []⟩ := by
            cases g with
            | mk l t o =>
              simp only at hgl hgt
              have := hw.inputOps _ hg hgt
              simp only at this
              subst hgl; subst hgt; subst this; rfl
          exact this ▸ hg
        have hsub : ∀ g ∈ c'.gates, g ∈ c.gates := by
          intro g hg
          rw [hgates] at hg
          simp only [List.mem_append, List.mem_map] at hg
          rcases hg with hg | ⟨i, hi, rfl⟩
          · exact g3 g hg
          · exact hmissGate i hi
        have hlabels : c'.labels = exits log ++ missing := by
          unfold labels; rw [hgates, List.map_append, g2, List.map_map]
          congr 1
          exact map_label_inputGates missing
        have w1 : WFS n1 := by
          have : ∀ (ls : List Label) (init n : Circuit), WFS init → (∀ g ∈ c.gates, g.ty = INPUT → g.ops = []) →
              emplaceAll c ls id init = .ok n → WFS n := by
            intro ls
            induction ls with
            | nil => intro init n hw0 _ hh; simp [emplaceAll] at hh; subst hh; exact hw0
            | cons l r ih =>
              intro init n hw0 hio hh
              rw [emplaceAll_eq] at hh
              simp only [List.foldl_cons] at hh
              cases hs : emplaceStep c id (.ok init) l with
              | error e => rw [hs, foldl_emplaceStep_error] at hh; cases hh
              | ok n1' =>
                rw [hs] at hh
                unfold emplaceStep at hs
                simp only at hs
                cases hf : c.find? l with
                | none => simp [hf] at hs
                | some g =>
                  simp only [hf, List.map_id] at hs
                  obtain ⟨hgm, _⟩ := find_some_mem hf
                  exact ih n1' n (addGate_wfs hw0 (fun ht => hio g hgm ht) hs) hio (by rw [emplaceAll_eq]; exact hh)
          exact this _ _ _ wfs_empty hw.inputOps he
        have w2 : WFS n2 := by
          cases allow
          · simp only [Bool.false_eq_true, if_false] at hn2
            exact addInputs_wfs _ w1 hn2
          · simp only [if_true, Except.ok.injEq] at hn2; exact hn2 ▸ w1
        have w3 : WFS c' := setOutputs_wfs (setInputs_wfs w2 hsi) h
        have hnd : c'.labels.Nodup := w3.nodup
        refine ⟨w3, hsub, fun b v hv g hg => hv g (hsub g hg), hoc, ?_, ?_, ?_, ?_⟩
        · -- inputs
          rw [hic, hi3]
          apply List.filter_congr
          intro i hi
          have : n2.inputs.contains i = decide (i ∈ c'.labels) := by
            rw [hi2, g6, hlabels, ← g2]
            by_cases hm : i ∈ missing
            · simp [hm]
            · simp only [List.contains_eq_mem, List.mem_append, hm, or_false, List.mem_map, List.mem_filter,
                beq_iff_eq, decide_eq_decide]
              constructor
              · rintro ⟨g, ⟨hg, _⟩, rfl⟩; exact ⟨g, hg, rfl⟩
              · rintro ⟨g, hg, rfl⟩
                obtain ⟨g', hg', hgl', hgt'⟩ := (hw.inputsOK g.label).mp hi
                have : g' = g := gate_unique hw.nodup hg' (g3 g hg) hgl'
                subst this
                exact ⟨g', ⟨hg, hgt'⟩, rfl⟩
          rw [this]
        · intro hal
          subst hal
          rw [hic, hi3]
          apply List.filter_eq_self.mpr
          intro i hi
          rw [hi2, g6]
          simp only [Bool.false_eq_true, if_false] at hmiss
          by_cases hin : n1.hasGate i = true
          · have := (hasGate_iff' n1 i).mp hin
            unfold labels at this; rw [g1] at this
            obtain ⟨g, hg, hgl⟩ := List.mem_map.mp this
            obtain ⟨g', hg', hgl', hgt'⟩ := (hw.inputsOK i).mp hi
            have : g' = g := gate_unique hw.nodup hg' (g3 g hg) (hgl'.trans hgl.symm)
            subst this
            simp only [List.contains_eq_mem, List.mem_append, List.mem_map, List.mem_filter, beq_iff_eq, decide_eq_true_eq]
            exact Or.inl ⟨g', ⟨hg, hgt'⟩, hgl⟩
          · simp only [List.contains_eq_mem, List.mem_append, decide_eq_true_eq]
            right; rw [hmiss]; simp [hi, hin]
        · -- size
          have h1 : c'.gates.length = c'.labels.length := by simp [labels]
          have h2 : c.gates.length = c.labels.length := by simp [labels]
          rw [h1, h2]
          apply hnd.length_le_of_subset
          intro l hl
          obtain ⟨g, hg, rfl⟩ := List.mem_map.mp hl
          exact mem_labels_of_mem (hsub g hg)
        · intro hne l
          obtain ⟨_, hreach, _⟩ := dfs_exits_exact false (some c.outputs) false false hne ht
          simp only [Bool.false_eq_true, if_false, Option.getD_some] at hreach
          rw [hlabels, List.mem_append, hreach, hmiss]
          cases allow
          · simp only [Bool.false_eq_true, if_false, List.mem_filter, true_and]
            constructor
            · rintro (hr | ⟨hi, _⟩)
              · exact Or.inl hr
              · exact Or.inr hi
            · rintro (hr | hi)
              · exact Or.inl hr
              · by_cases hg : n1.hasGate l = true
                · left
                  have := (hasGate_iff' n1 l).mp hg
                  unfold labels at this; rw [g1, g2] at this
                  exact (hreach l).mp this
                · right; exact ⟨hi, by simpa using hg⟩
          · simp

/-! ## pipelines -/

def trStepR (acc : R Circuit) (t : Tr) : R Circuit :=
  match acc with
  | .error e => .error e
  | .ok c' => transform1 t c'

/-- manual sequencing: apply the passes of a list one after another -/
def runSeq (c : R Circuit) (ts : List Tr) : R Circuit := ts.foldl trStepR c

theorem applyTransformers_def (c : Circuit) (ts : List Tr) :
    applyTransformers c ts = runSeq (.ok c) (reduceIdem none (linearize.linearizeList ts)) := rfl

theorem runSeq_append (c : R Circuit) (a b : List Tr) : runSeq c (a ++ b) = runSeq (runSeq c a) b := by
  simp [runSeq, List.foldl_append]

theorem runSeq_error (e : String) (ts : List Tr) : runSeq (.error e) ts = .error e := by
  induction ts with
  | nil => rfl
  | cons t r ih => simpa [runSeq, trStepR] using ih

theorem linearizeList_append (a b : List Tr) :
    linearize.linearizeList (a ++ b) = linearize.linearizeList a ++ linearize.linearizeList b := by
  induction a with
  | nil => simp [linearize.linearizeList]
  | cons t r ih => simp [linearize.linearizeList, ih]

/-- idempotence of redundant-gate removal, as a statement about the model -/
def RrgIdem : Prop := ∀ (a : Bool) (c c1 : Circuit), rrg a c = .ok c1 → rrg a c1 = .ok c1

/-- dropping an idempotent pass equal to its predecessor does not change the result -/
theorem runSeq_reduceIdem (H : RrgIdem) : ∀ (ts : List Tr) (prev : Option Tr) (c0 c : Circuit),
    (∀ p, prev = some p → transform1 p c0 = .ok c) →
    runSeq (.ok c) (reduceIdem prev ts) = runSeq (.ok c) ts := by
  intro ts
  induction ts with
  | nil => intros; simp [reduceIdem]
  | cons t r ih =>
    intro prev c0 c hp
    have hgen : runSeq (.ok c) (t :: reduceIdem (some t) r) = runSeq (.ok c) (t :: r) := by
      show runSeq (trStepR (.ok c) t) (reduceIdem (some t) r) = runSeq (trStepR (.ok c) t) r
      cases ht : trStepR (.ok c) t with
      | error e => simp [runSeq_error]
      | ok c2 => exact ih (some t) c c2 (by intro p hp'; cases hp'; exact ht)
    cases prev with
    | none => simpa [reduceIdem] using hgen
    | some p =>
      simp only [reduceIdem]
      by_cases hs : sameIdem t p = true
      · simp only [hs, if_true]
        -- t = p = rrg a, and c is already a result of that pass
        have hpc := hp p rfl
        cases t with
        | rrg a =>
          cases p with
          | rrg b =>
            have hab : a = b := by simpa [sameIdem] using hs
            subst hab
            have hid : transform1 (.rrg a) c = .ok c := H a c0 c hpc
            rw [ih (some (.rrg a)) c0 c (by intro p hp'; cases hp'; exact hpc)]
            show runSeq (.ok c) r = runSeq (trStepR (.ok c) (.rrg a)) r
            simp only [trStepR, hid]
          | muo | mdg | meg | comp _ => simp [sameIdem] at hs
        | muo | mdg | meg | comp _ => simp [sameIdem] at hs
      · simp only [hs]
        simpa using hgen

/-- **pipelines equal sequencing**: applying a list of passes is applying, one after another, the
constituent passes (each followed by its implied redundant-gate removal) -/
theorem applyTransformers_eq_seq (H : RrgIdem) (c : Circuit) (ts : List Tr) :
    applyTransformers c ts = runSeq (.ok c) (linearize.linearizeList ts) := by
  rw [applyTransformers_def]
  exact runSeq_reduceIdem H _ none c c (by intro p hp; cases hp)

/-- a linearised list: atoms only, every merging pass directly followed by its implied
`RemoveRedundantGates()` -/
inductive Closed : List Tr → Prop
  | nil : Closed []
  | rrg (a r) : Closed r → Closed (.rrg a :: r)
  | muo (r) : Closed r → Closed (.muo :: .rrg false :: r)
  | mdg (r) : Closed r → Closed (.mdg :: .rrg false :: r)
  | meg (r) : Closed r → Closed (.meg :: .rrg false :: r)

theorem closed_append {a b : List Tr} (ha : Closed a) (hb : Closed b) : Closed (a ++ b) := by
  induction ha with
  | nil => simpa
  | rrg a r _ ih => exact .rrg a _ ih
  | muo r _ ih => exact .muo _ ih
  | mdg r _ ih => exact .mdg _ ih
  | meg r _ ih => exact .meg _ ih

mutual
theorem linearize_closed : ∀ t : Tr, Closed (linearize t)
  | .rrg a => by simpa [linearize] using Closed.rrg a [] .nil
  | .muo => by simpa [linearize] using Closed.muo [] .nil
  | .mdg => by simpa [linearize] using Closed.mdg [] .nil
  | .meg => by simpa [linearize] using Closed.meg [] .nil
  | .comp ts => by simpa [linearize] using linearizeList_closed ts
theorem linearizeList_closed : ∀ ts : List Tr, Closed (linearize.linearizeList ts)
  | [] => by simpa [linearize.linearizeList] using Closed.nil
  | t :: r => by
    simpa [linearize.linearizeList] using closed_append (linearize_closed t) (linearizeList_closed r)
end

/-- re-linearising a linearised list only repeats implied removals -/
theorem runSeq_relinearize (H : RrgIdem) {l : List Tr} (hl : Closed l) :
    ∀ c : R Circuit, runSeq c (linearize.linearizeList l) = runSeq c l := by
  induction hl with
  | nil => intro c; rfl
  | rrg a r _ ih =>
    intro c
    show runSeq (trStepR c (.rrg a)) (linearize.linearizeList r) = runSeq (trStepR c (.rrg a)) r
    exact ih _
  | muo r _ ih | mdg r _ ih | meg r _ ih =>
    intro c
    simp only [linearize.linearizeList, linearize, List.cons_append, List.nil_append, List.append_assoc]
    simp only [runSeq, List.foldl_cons]
    have ih' := ih
    simp only [runSeq] at ih'
    rw [ih']
    congr 1
    cases h1 : trStepR (trStepR c _) (.rrg false) with
    | error e => rfl
    | ok c2 =>
      cases h0 : trStepR c _ with
      | error e => rw [h0] at h1; cases h1
      | ok c1 =>
        rw [h0] at h1
        exact H false c1 c2 h1

/-- `t1 | t2` runs `t1` then `t2` -/
theorem or_eq_seq (_H : RrgIdem) (a b : Tr) (c : R Circuit) :
    runSeq c (linearize (a.or b)) = runSeq (runSeq c (linearize a)) (linearize b) := by
  unfold Tr.or
  simp only [linearize]
  rw [linearizeList_append, runSeq_append]
  cases a <;> cases b <;> simp [linearize, linearize.linearizeList]

/-- `cleanup` is RRG, MUO, RRG, MDG, RRG (and MEG, RRG when heavy), in this order -/
theorem cleanup_eq_seq (H : RrgIdem) (c : Circuit) (heavy : Bool) :
    cleanup c heavy = runSeq (.ok c)
      ([.rrg false, .muo, .rrg false, .mdg, .rrg false] ++ (if heavy then [.meg, .rrg false] else [])) := by
  unfold cleanup
  rw [applyTransformers_eq_seq H]
  cases heavy <;> simp [linearize.linearizeList, linearize]

end Cirbo
