import Cirbo.Proofs.GenTotalB
/-!
# Totality of the bit counters and the two-number adders (`summation.py`)

Contracts `Ok (gen args) st (GPost P K labels shape)` for the blocks (Stockmeyer, MDFA, simplified MDFA, the
AIG half/full adders), the loops of `_add_sum_n_bits` (pairing, MDFA loop, last pair, level, level loop),
`add_sum_n_bits` in both bases, and `add_sum_two_numbers(_with_shift)`.
-/
namespace Cirbo
open GateType Circuit

/-! ## labels of a list of `(x, x ⊕ y)` pairs -/

def sa_pl (l : List (Label × Label)) : List Label := l.flatMap (fun p => [p.1, p.2])

@[simp] theorem sa_pl_nil : sa_pl [] = [] := rfl
@[simp] theorem sa_pl_cons (p : Label × Label) (l : List (Label × Label)) : sa_pl (p :: l) = p.1 :: p.2 :: sa_pl l := rfl
@[simp] theorem sa_pl_append (a b : List (Label × Label)) : sa_pl (a ++ b) = sa_pl a ++ sa_pl b := by
  simp [sa_pl]

theorem sa_mem_pl {x : Label} {l : List (Label × Label)} : x ∈ sa_pl l ↔ ∃ p ∈ l, x = p.1 ∨ x = p.2 := by
  simp [sa_pl]

theorem sa_mem_pl_reverse {x : Label} {l : List (Label × Label)} : x ∈ sa_pl l.reverse ↔ x ∈ sa_pl l := by
  simp [sa_mem_pl]

/-- membership side goals, with lists of pairs -/
macro "sa_mem" : tactic => `(tactic| (simp only [sa_pl_nil, sa_pl_cons, sa_pl_append, sa_mem_pl_reverse, List.mem_reverse,
  List.mem_append, List.mem_cons, List.mem_singleton, List.not_mem_nil, or_false, false_or, List.append_assoc, id] at * <;> grind))

/-! ## the blocks -/

theorem ok_addStockmeyer {x1 x2 x23 : Label} {st : GSt} {P K : List Label} (hinv : Inv st P) (hk : Kn st K)
    (h1 : x1 ∈ K) (h2 : x2 ∈ K) (h3 : x23 ∈ K) :
    Ok (addStockmeyer [x1, x2, x23]) st (GPost P K id (fun a => a.length = 2)) := by
  unfold addStockmeyer
  apply Ok.stepK (okK_emitTT hinv hk (by decide) h1 h3); intro g1 s1 i1 k1 _
  apply Ok.stepK (okK_emitTT i1 k1 (by decide) (by kmem) (by kmem)); intro g2 s2 i2 k2 _
  apply Ok.stepK (okK_emitTT i2 k2 (by decide) (by kmem) (by kmem)); intro g3 s3 i3 k3 _
  apply Ok.stepK (okK_emitTT i3 k3 (by decide) (by kmem) (by kmem)); intro g4 s4 i4 k4 _
  exact Ok.ret ⟨i4, k4.mono (by intro l hl; kmem), rfl⟩

theorem ok_addMdfa {z x1 xy1 x2 xy2 : Label} {st : GSt} {P K : List Label} (hinv : Inv st P) (hk : Kn st K)
    (h0 : z ∈ K) (h1 : x1 ∈ K) (h2 : xy1 ∈ K) (h3 : x2 ∈ K) (h4 : xy2 ∈ K) :
    Ok (addMdfa [z, x1, xy1, x2, xy2]) st (GPost P K id (fun a => a.length = 3)) := by
  unfold addMdfa
  apply Ok.stepK (okK_emitTT hinv hk (by decide) h1 h0); intro g1 s1 i1 k1 _
  apply Ok.stepK (okK_emitTT i1 k1 (by decide) (by kmem) (by kmem)); intro g2 s2 i2 k2 _
  apply Ok.stepK (okK_emitTT i2 k2 (by decide) (by kmem) (by kmem)); intro g3 s3 i3 k3 _
  apply Ok.stepK (okK_emitTT i3 k3 (by decide) (by kmem) (by kmem)); intro g4 s4 i4 k4 _
  apply Ok.stepK (okK_emitTT i4 k4 (by decide) (by kmem) (by kmem)); intro g5 s5 i5 k5 _
  apply Ok.stepK (okK_emitTT i5 k5 (by decide) (by kmem) (by kmem)); intro g6 s6 i6 k6 _
  apply Ok.stepK (okK_emitTT i6 k6 (by decide) (by kmem) (by kmem)); intro g7 s7 i7 k7 _
  apply Ok.stepK (okK_emitTT i7 k7 (by decide) (by kmem) (by kmem)); intro g8 s8 i8 k8 _
  exact Ok.ret ⟨i8, k8.mono (by intro l hl; kmem), rfl⟩

theorem ok_addSimplifiedMdfa {x1 xy1 x2 xy2 : Label} {st : GSt} {P K : List Label} (hinv : Inv st P) (hk : Kn st K)
    (h1 : x1 ∈ K) (h2 : xy1 ∈ K) (h3 : x2 ∈ K) (h4 : xy2 ∈ K) :
    Ok (addSimplifiedMdfa [x1, xy1, x2, xy2]) st (GPost P K id (fun a => a.length = 3)) := by
  unfold addSimplifiedMdfa
  apply Ok.stepK (okK_emitTT hinv hk (by decide) h2 h1); intro g2 s2 i2 k2 _
  apply Ok.stepK (okK_emitTT i2 k2 (by decide) (by kmem) (by kmem)); intro g4 s4 i4 k4 _
  apply Ok.stepK (okK_emitTT i4 k4 (by decide) (by kmem) (by kmem)); intro g5 s5 i5 k5 _
  apply Ok.stepK (okK_emitTT i5 k5 (by decide) (by kmem) (by kmem)); intro g6 s6 i6 k6 _
  apply Ok.stepK (okK_emitTT i6 k6 (by decide) (by kmem) (by kmem)); intro g7 s7 i7 k7 _
  apply Ok.stepK (okK_emitTT i7 k7 (by decide) (by kmem) (by kmem)); intro g8 s8 i8 k8 _
  exact Ok.ret ⟨i8, k8.mono (by intro l hl; kmem), rfl⟩

theorem ok_addSum2Aig {x1 x2 : Label} {st : GSt} {P K : List Label} (hinv : Inv st P) (hk : Kn st K)
    (h1 : x1 ∈ K) (h2 : x2 ∈ K) : Ok (addSum2Aig [x1, x2]) st (GPost P K id (fun a => a.length = 2)) := by
  unfold addSum2Aig
  apply Ok.stepK (okK_emitTT hinv hk (by decide) h1 h2); intro g1 s1 i1 k1 _
  apply Ok.stepK (okK_emitTT i1 k1 (by decide) (by kmem) (by kmem)); intro g2 s2 i2 k2 _
  apply Ok.stepK (okK_emitTT i2 k2 (by decide) (by kmem) (by kmem)); intro g3 s3 i3 k3 _
  exact Ok.ret ⟨i3, k3.mono (by intro l hl; kmem), rfl⟩

theorem ok_addSum3Aig {x1 x2 x3 : Label} {st : GSt} {P K : List Label} (hinv : Inv st P) (hk : Kn st K)
    (h1 : x1 ∈ K) (h2 : x2 ∈ K) (h3 : x3 ∈ K) :
    Ok (addSum3Aig [x1, x2, x3]) st (GPost P K id (fun a => a.length = 2)) := by
  unfold addSum3Aig
  apply Ok.stepK (okK_emitTT hinv hk (by decide) h1 h2); intro g1 s1 i1 k1 _
  apply Ok.stepK (okK_emitTT i1 k1 (by decide) (by kmem) (by kmem)); intro g2 s2 i2 k2 _
  apply Ok.stepK (okK_emitTT i2 k2 (by decide) (by kmem) (by kmem)); intro g3 s3 i3 k3 _
  apply Ok.stepK (okK_emitTT i3 k3 (by decide) (by kmem) (by kmem)); intro g4 s4 i4 k4 _
  apply Ok.stepK (okK_emitTT i4 k4 (by decide) (by kmem) (by kmem)); intro g5 s5 i5 k5 _
  apply Ok.stepK (okK_emitTT i5 k5 (by decide) (by kmem) (by kmem)); intro g6 s6 i6 k6 _
  apply Ok.stepK (okK_emitTT i6 k6 (by decide) (by kmem) (by kmem)); intro g7 s7 i7 k7 _
  exact Ok.ret ⟨i7, k7.mono (by intro l hl; kmem), rfl⟩

theorem sa_blk3_addSum3Aig : Blk3 addSum3Aig := fun _ _ _ _ _ _ hinv hk h1 h2 h3 => ok_addSum3Aig hinv hk h1 h2 h3
theorem sa_blk2_addSum2Aig : Blk2 addSum2Aig := fun _ _ _ _ _ hinv hk h1 h2 => ok_addSum2Aig hinv hk h1 h2

/-- `z, x, xy = block(...)` on a three-element result -/
theorem ok_triple3_bind {β} {l : List Label} {f : Label × Label × Label → Prog β} {st : GSt} {R : β → GSt → Prop}
    (hl : l.length = 3) (h : ∀ x y z, l = [x, y, z] → Ok (f (x, y, z)) st R) : Ok (triple3 l >>= f) st R := by
  match l, hl with
  | [x, y, z], _ => exact h x y z rfl

/-! ## the loops of `_add_sum_n_bits` -/

/-- the pairing loop, any fuel: one pair per two solo bits; with `solo.length ≤ 2 * fuel + 1` (every caller passes
`fuel = solo.length`) at most one solo bit stays -/
theorem ok_pairUp : ∀ (fuel : Nat) (solo : List Label) (pairs : List (Label × Label)) (st : GSt) (P K : List Label),
    Inv st P → Kn st K → (∀ l ∈ solo, l ∈ K) → (∀ l ∈ sa_pl pairs, l ∈ K) →
    Ok (pairUp fuel solo pairs) st (GPost P K (fun r => r.1 ++ sa_pl r.2)
      (fun r => r.1.length + 2 * r.2.length = solo.length + 2 * pairs.length ∧ pairs.length ≤ r.2.length ∧
        (solo.length ≤ 2 * fuel + 1 → r.1.length = solo.length % 2 ∧ r.2.length = pairs.length + solo.length / 2))) := by
  intro fuel
  induction fuel with
  | zero =>
    intro solo pairs st P K hinv hk hs hp
    unfold pairUp
    exact Ok.pure ⟨hinv, fun l hl => hk l (by sa_mem), rfl, Nat.le_refl _, fun h => by simp only at h ⊢; omega⟩
  | succ n ih =>
    intro solo pairs st P K hinv hk hs hp
    match solo, hs with
    | [], _ =>
      unfold pairUp
      exact Ok.pure ⟨hinv, fun l hl => hk l (by sa_mem), rfl, Nat.le_refl _, fun _ => by simp⟩
    | [a], hs =>
      unfold pairUp
      exact Ok.pure ⟨hinv, fun l hl => hk l (by sa_mem), rfl, Nat.le_refl _, fun _ => by simp⟩
    | a :: b :: rest, hs =>
      unfold pairUp
      apply Ok.stepK (okK_emitTT hinv hk (by decide) (hs a (by simp)) (hs b (by simp))); intro xy s1 i1 k1 _
      refine (ih rest ((a, xy) :: pairs) s1 P (K ++ [xy]) i1 k1 (by intro l hl; sa_mem) (by intro l hl; sa_mem)).mono ?_
      intro res s2 ⟨i2, k2, h1, h2, h3⟩
      refine ⟨i2, k2.mono (by intro l hl; sa_mem), ?_, ?_, ?_⟩
      · simp only [List.length_cons] at h1 ⊢; omega
      · simp only [List.length_cons] at h2 ⊢; omega
      · intro hf
        simp only [List.length_cons] at h3 hf ⊢
        have := h3 (by omega)
        omega

/-- the shape of the MDFA loop's result `(solo, pairs left, pairs for the next level)` -/
def sa_MdfaShape (fuel : Nat) (soloR : List Label) (pairsR nextP : List (Label × Label))
    (r : List Label × List (Label × Label) × List (Label × Label)) : Prop :=
  r.2.1.length + 2 * r.2.2.length = pairsR.length + 2 * nextP.length ∧ nextP.length ≤ r.2.2.length ∧
  soloR.length ≤ r.1.length ∧
  (pairsR.length ≤ 2 * fuel + 1 →
    r.2.1.length = pairsR.length % 2 ∧ r.2.2.length = nextP.length + pairsR.length / 2 ∧
    (1 ≤ soloR.length → r.1.length = soloR.length) ∧ (soloR.length = 0 → 2 ≤ pairsR.length → r.1.length = 1) ∧
    (soloR.length = 0 → pairsR.length < 2 → r.1.length = 0))

/-- the MDFA loop, any fuel; with `pairsR.length ≤ 2 * fuel + 1` (the caller passes `fuel = pairsR.length`) at most
one pair stays, and a solo bit exists afterwards iff there was one or a (simplified) block was built -/
theorem ok_mdfaLoop : ∀ (fuel : Nat) (soloR : List Label) (pairsR nextP : List (Label × Label)) (st : GSt)
    (P K : List Label), Inv st P → Kn st K → (∀ l ∈ soloR, l ∈ K) → (∀ l ∈ sa_pl pairsR, l ∈ K) →
    (∀ l ∈ sa_pl nextP, l ∈ K) →
    Ok (mdfaLoop fuel soloR pairsR nextP) st (GPost P K (fun r => r.1 ++ sa_pl r.2.1 ++ sa_pl r.2.2)
      (sa_MdfaShape fuel soloR pairsR nextP)) := by
  intro fuel
  induction fuel with
  | zero =>
    intro soloR pairsR nextP st P K hinv hk hs hp hn
    unfold mdfaLoop
    refine Ok.pure ⟨hinv, fun l hl => hk l (by sa_mem), rfl, Nat.le_refl _, Nat.le_refl _, fun h => ⟨?_, ?_, ?_, ?_, ?_⟩⟩ <;>
      (try dsimp only [List.length_cons, List.length_nil] at h ⊢) <;> omega
  | succ n ih =>
    intro soloR pairsR nextP st P K hinv hk hs hp hn
    match pairsR, hp with
    | [], _ =>
      unfold mdfaLoop
      refine Ok.pure ⟨hinv, fun l hl => hk l (by sa_mem), rfl, Nat.le_refl _, Nat.le_refl _, fun h => ⟨?_, ?_, ?_, ?_, ?_⟩⟩ <;>
        (try dsimp only [List.length_cons, List.length_nil] at h ⊢) <;> omega
    | [q], _ =>
      unfold mdfaLoop
      refine Ok.pure ⟨hinv, fun l hl => hk l (by sa_mem), rfl, Nat.le_refl _, Nat.le_refl _, fun h => ⟨?_, ?_, ?_, ?_, ?_⟩⟩ <;>
        (try dsimp only [List.length_cons, List.length_nil] at h ⊢) <;> omega
    | q1 :: q2 :: prest, hp =>
      match soloR, hs with
      | s :: srest, hs =>
        unfold mdfaLoop
        apply Ok.stepK (ok_addMdfa hinv hk (hs s (by simp)) (hp q1.1 (by sa_mem)) (hp q1.2 (by sa_mem))
          (hp q2.1 (by sa_mem)) (hp q2.2 (by sa_mem))); intro r s1 i1 k1 hr
        apply ok_triple3_bind hr; intro z x1 x1y1 e3
        subst e3
        simp only [id] at k1
        refine (ih (z :: srest) prest (nextP ++ [(x1, x1y1)]) s1 P (K ++ [z, x1, x1y1]) i1 k1 (by intro l hl; sa_mem)
          (by intro l hl; sa_mem) (by intro l hl; sa_mem)).mono ?_
        intro res s2 ⟨i2, k2, h1, h2, h3, h4⟩
        refine ⟨i2, k2.mono (by intro l hl; sa_mem), ?_, ?_, ?_, ?_⟩
        · simp only [List.length_cons, List.length_append, List.length_nil] at h1 ⊢; omega
        · simp only [List.length_cons, List.length_append, List.length_nil] at h2 ⊢; omega
        · simpa only [List.length_cons] using h3
        · intro hf
          simp only [List.length_cons, List.length_append, List.length_nil] at h4 hf ⊢
          obtain ⟨a1, a2, a3, _, _⟩ := h4 (by omega)
          refine ⟨by omega, by omega, fun _ => a3 (by omega), fun h0 => by omega, fun h0 => by omega⟩
      | [], _ =>
        unfold mdfaLoop
        apply Ok.stepK (ok_addSimplifiedMdfa hinv hk (hp q1.1 (by sa_mem)) (hp q1.2 (by sa_mem))
          (hp q2.1 (by sa_mem)) (hp q2.2 (by sa_mem))); intro r s1 i1 k1 hr
        apply ok_triple3_bind hr; intro z x1 x1y1 e3
        subst e3
        simp only [id] at k1
        refine (ih [z] prest (nextP ++ [(x1, x1y1)]) s1 P (K ++ [z, x1, x1y1]) i1 k1 (by intro l hl; sa_mem)
          (by intro l hl; sa_mem) (by intro l hl; sa_mem)).mono ?_
        intro res s2 ⟨i2, k2, h1, h2, h3, h4⟩
        refine ⟨i2, k2.mono (by intro l hl; sa_mem), ?_, ?_, ?_, ?_⟩
        · simp only [List.length_cons, List.length_append, List.length_nil] at h1 ⊢; omega
        · simp only [List.length_cons, List.length_append, List.length_nil] at h2 ⊢; omega
        · simp only [List.length_nil]; omega
        · intro hf
          simp only [List.length_cons, List.length_append, List.length_nil] at h4 hf ⊢
          obtain ⟨a1, a2, a3, _, _⟩ := h4 (by omega)
          have := a3 (by omega)
          refine ⟨by omega, by omega, fun h0 => by omega, fun _ _ => this, fun _ h0 => by omega⟩

/-- the last pair: Stockmeyer block with the solo bit, or the xor forwarded and one carry gate; nothing when the
number of pairs is not one -/
theorem ok_lastPair {soloR : List Label} {pairsR : List (Label × Label)} {nextS : List Label} {st : GSt}
    {P K : List Label} (hinv : Inv st P) (hk : Kn st K) (hs : ∀ l ∈ soloR, l ∈ K) (hp : ∀ l ∈ sa_pl pairsR, l ∈ K)
    (hn : ∀ l ∈ nextS, l ∈ K) :
    Ok (lastPair soloR pairsR nextS) st (GPost P K (fun r => r.1 ++ r.2)
      (fun r => (pairsR.length = 1 → (1 ≤ soloR.length → r.1.length = soloR.length) ∧
          (soloR.length = 0 → r.1.length = 1) ∧ r.2.length = nextS.length + 1) ∧
        (pairsR.length ≠ 1 → r.1 = soloR ∧ r.2 = nextS))) := by
  match pairsR, hp with
  | [], _ =>
    unfold lastPair
    exact Ok.pure ⟨hinv, fun l hl => hk l (by sa_mem), fun h => by simp at h, fun _ => ⟨rfl, rfl⟩⟩
  | _ :: _ :: _, _ =>
    unfold lastPair
    exact Ok.pure ⟨hinv, fun l hl => hk l (by sa_mem), fun h => by simp at h, fun _ => ⟨rfl, rfl⟩⟩
  | [p], hp =>
    match soloR, hs with
    | s :: srest, hs =>
      unfold lastPair
      apply Ok.stepK (ok_addStockmeyer hinv hk (hs s (by simp)) (hp p.1 (by sa_mem)) (hp p.2 (by sa_mem)))
      intro r s1 i1 k1 hr
      apply ok_pair2_bind hr; intro x y e2
      subst e2
      simp only [id] at k1
      refine Ok.ret ⟨i1, k1.mono (by intro l hl; sa_mem), fun _ => ⟨fun _ => ?_, fun h => ?_, ?_⟩, fun h => by simp at h⟩
      · simp
      · simp at h
      · simp
    | [], _ =>
      unfold lastPair
      apply Ok.stepK (okK_emitTT hinv hk (by decide) (hp p.1 (by sa_mem)) (hp p.2 (by sa_mem)))
      intro cy s1 i1 k1 _
      refine Ok.ret ⟨i1, k1.mono (by intro l hl; sa_mem), fun _ => ⟨fun h => ?_, fun _ => ?_, ?_⟩, fun h => by simp at h⟩
      · simp at h
      · simp
      · simp

theorem sa_length_pos_of_ne {α} {l : List α} (h : l ≠ []) : 1 ≤ l.length := List.length_pos_iff.mpr h
theorem sa_ne_of_length_pos {α} {l : List α} (h : 1 ≤ l.length) : l ≠ [] := List.length_pos_iff.mp h

/-- **one level of the XAIG bit counter** returns whenever there is something to count (a solo bit or a pair);
`p / 2` pairs and `s / 2 + p % 2` solo bits go to the next level (`s` solo bits, `p` pairs on entry; after
`pairUp`, `s ≤ 1` and the second number is `p % 2`) -/
theorem ok_xaigLevel {soloR : List Label} {pairsR : List (Label × Label)} {st : GSt} {P K : List Label}
    (hinv : Inv st P) (hk : Kn st K) (hs : ∀ l ∈ soloR, l ∈ K) (hp : ∀ l ∈ sa_pl pairsR, l ∈ K)
    (hne : soloR ≠ [] ∨ pairsR ≠ []) :
    Ok (xaigLevel soloR pairsR) st (GPost P K (fun r => r.1 :: r.2.1 ++ sa_pl r.2.2)
      (fun r => r.2.2.length = pairsR.length / 2 ∧ r.2.1.length = soloR.length / 2 + pairsR.length % 2)) := by
  have hpos : 1 ≤ soloR.length + pairsR.length := by
    rcases hne with h | h
    · have := sa_length_pos_of_ne h; omega
    · have := sa_length_pos_of_ne h; omega
  unfold xaigLevel
  apply Ok.stepK (ok_mdfaLoop pairsR.length soloR pairsR [] st P K hinv hk hs hp (by intro l hl; cases hl))
  intro r1 st1 i1 k1 sh1
  obtain ⟨s1, p1, nP⟩ := r1
  obtain ⟨_, _, _, sh1⟩ := sh1
  obtain ⟨a1, a2, a3, a4, a5⟩ := sh1 (by omega)
  simp only [List.length_nil, Nat.zero_add] at a1 a2 a3 a4 a5
  simp only at k1 ⊢
  apply Ok.stepK (ok_lastPair (nextS := []) i1 k1 (by intro l hl; sa_mem) (by intro l hl; sa_mem) (by intro l hl; cases hl))
  intro r2 st2 i2 k2 ⟨b1, b2⟩
  obtain ⟨s2, nS0⟩ := r2
  simp only [List.length_nil, Nat.zero_add] at b1 b2 k2 ⊢
  have hs2 : s2.length = (if 1 ≤ soloR.length then soloR.length else 1) ∧ nS0.length = pairsR.length % 2 := by
    by_cases h1 : p1.length = 1
    · obtain ⟨c1, c2, c3⟩ := b1 h1
      split <;> omega
    · obtain ⟨c1, c2⟩ := b2 h1
      subst c1 c2
      simp only [List.length_nil]
      split <;> omega
  obtain ⟨hs2a, hs2b⟩ := hs2
  apply Ok.stepK (ok_reduce3 blk3_addSum3 s2.length s2 nS0 st2 P (K ++ (s1 ++ sa_pl p1 ++ sa_pl nP) ++ (s2 ++ nS0)) i2 k2
    (by intro l hl; sa_mem) (by intro l hl; sa_mem) (Nat.le_refl _))
  intro r3 st3 i3 k3 ⟨d1, d2, d3⟩
  obtain ⟨s3, nS1⟩ := r3
  simp only at d1 d2 d3 k3 ⊢
  have hs2pos : 1 ≤ s2.length := by rw [hs2a]; split <;> omega
  have hs3pos := sa_length_pos_of_ne (d2 (sa_ne_of_length_pos hs2pos))
  apply Ok.stepK (ok_reduce2 blk2_addSum2 s3 nS1 st3 P _ i3 k3 (by intro l hl; sa_mem) (by intro l hl; sa_mem) d1)
  intro r4 st4 i4 k4 ⟨e1, e2, e3⟩
  obtain ⟨s4, nS2⟩ := r4
  simp only at e1 e2 e3 k4 ⊢
  have hs4 : s4 ≠ [] := e2 (sa_ne_of_length_pos hs3pos)
  have hs4pos := sa_length_pos_of_ne hs4
  apply Ok.bind (ok_firstOfRev (Q := fun x st' => st' = st4 ∧ x ∈ s4) hs4 (fun x hx => ⟨rfl, hx⟩))
  intro r st4' ⟨e, hr⟩
  subst e
  refine Ok.ret ⟨i4, k4.mono (by intro l hl; sa_mem), a2, ?_⟩
  show nS2.length = soloR.length / 2 + pairsR.length % 2
  split at hs2a <;> omega

/-! ## the number of result bits: the bit length of the number of operands -/

/-- number of binary digits of `n` (`0` for `0`) -/
def sa_bitlen (n : Nat) : Nat := if n = 0 then 0 else Nat.log2 n + 1

theorem sa_bitlen_zero : sa_bitlen 0 = 0 := rfl

theorem sa_bitlen_half {n : Nat} (h : 1 ≤ n) : sa_bitlen n = sa_bitlen (n / 2) + 1 := by
  unfold sa_bitlen
  have h0 : ¬ n = 0 := by omega
  simp only [h0, if_false]
  rw [Nat.log2_def]
  by_cases h2 : 2 ≤ n
  · have : ¬ n / 2 = 0 := by omega
    simp only [h2, if_true, this, if_false]
  · have : n / 2 = 0 := by omega
    simp only [h2, if_false, this, if_true]

theorem sa_bitlen_pos {n : Nat} (h : 1 ≤ n) : 1 ≤ sa_bitlen n := by rw [sa_bitlen_half h]; omega

theorem sa_bitlen_two : sa_bitlen 2 = 2 := by decide
theorem sa_bitlen_three : sa_bitlen 3 = 2 := by decide

/-- **the level loop of `_add_sum_n_bits`**: the weighted count `s + 2p` halves at every level, so
`fuel > s + 2p` suffices; one result bit per level -/
theorem ok_xaigLevels : ∀ (fuel : Nat) (soloR : List Label) (pairsR : List (Label × Label)) (res : List Label)
    (st : GSt) (P K : List Label), Inv st P → Kn st K → (∀ l ∈ soloR, l ∈ K) → (∀ l ∈ sa_pl pairsR, l ∈ K) →
    (∀ l ∈ res, l ∈ K) → soloR.length + 2 * pairsR.length < fuel →
    Ok (xaigLevels fuel soloR pairsR res) st (GPost P K id
      (fun r => r.length = res.length + sa_bitlen (soloR.length + 2 * pairsR.length))) := by
  intro fuel
  induction fuel with
  | zero => intro soloR pairsR res st P K _ _ _ _ _ hf; omega
  | succ n ih =>
    intro soloR pairsR res st P K hinv hk hs hp hr hf
    unfold xaigLevels
    by_cases he : (soloR.isEmpty && pairsR.isEmpty) = true
    · simp only [he, if_true]
      simp only [Bool.and_eq_true, List.isEmpty_iff] at he
      obtain ⟨rfl, rfl⟩ := he
      exact Ok.ret ⟨hinv, fun l hl => hk l (by kmem), by simp [sa_bitlen_zero]⟩
    · simp only [he, Bool.false_eq_true, if_false]
      have hne : soloR ≠ [] ∨ pairsR ≠ [] := by
        by_cases h1 : soloR = []
        · by_cases h2 : pairsR = []
          · subst h1 h2; simp at he
          · exact Or.inr h2
        · exact Or.inl h1
      have hpos : 1 ≤ soloR.length + 2 * pairsR.length := by
        rcases hne with h | h
        · have := sa_length_pos_of_ne h; omega
        · have := sa_length_pos_of_ne h; omega
      apply Ok.stepK (ok_xaigLevel hinv hk hs hp hne)
      intro r1 st1 i1 k1 ⟨a1, a2⟩
      obtain ⟨r, nextS, nextP⟩ := r1
      simp only at a1 a2 k1 ⊢
      have hhalf : nextS.reverse.length + 2 * nextP.reverse.length = (soloR.length + 2 * pairsR.length) / 2 := by
        simp only [List.length_reverse]; omega
      refine (ih nextS.reverse nextP.reverse (res ++ [r]) st1 P (K ++ (r :: nextS ++ sa_pl nextP)) i1 k1
        (by intro l hl; sa_mem) (by intro l hl; sa_mem) (by intro l hl; sa_mem) (by omega)).mono ?_
      intro out st2 ⟨i2, k2, h2⟩
      refine ⟨i2, k2.mono (by intro l hl; sa_mem), ?_⟩
      dsimp only at h2 ⊢
      rw [h2, hhalf, sa_bitlen_half hpos]
      simp only [List.length_append, List.length_singleton]; omega

/-- **`_add_sum_n_bits` returns** on any operands that are gates, with `bitlen n` result bits -/
theorem ok_addSumNBitsXaig {ins : List Label} {st : GSt} {P K : List Label} (hinv : Inv st P) (hk : Kn st K)
    (hi : ∀ l ∈ ins, l ∈ K) :
    Ok (addSumNBitsXaig ins) st (GPost P K id (fun r => r.length = sa_bitlen ins.length)) := by
  unfold addSumNBitsXaig
  apply Ok.stepK (ok_pairUp ins.length ins.reverse [] st P K hinv hk (by intro l hl; sa_mem) (by intro l hl; cases hl))
  intro r1 st1 i1 k1 ⟨_, _, a3⟩
  obtain ⟨soloR, pairsR⟩ := r1
  simp only [List.length_reverse, List.length_nil, Nat.zero_add] at a3 k1 ⊢
  obtain ⟨b1, b2⟩ := a3 (by omega)
  refine (ok_xaigLevels (ins.length + 2) soloR pairsR [] st1 P (K ++ (soloR ++ sa_pl pairsR)) i1 k1
    (by intro l hl; sa_mem) (by intro l hl; sa_mem) (by intro l hl; cases hl) (by omega)).mono ?_
  intro out st2 ⟨i2, k2, h2⟩
  refine ⟨i2, k2.mono (by intro l hl; sa_mem), ?_⟩
  dsimp only at h2 ⊢
  rw [h2]
  have : soloR.length + 2 * pairsR.length = ins.length := by omega
  rw [this]; simp

/-! ## the AIG bit counter (the simple level loop, now with the number of result bits) -/

/-- `ok_levelsSimple` with the shape of the result: one bit per level, the number of bits halves per level -/
theorem sa_ok_levelsSimple {blk3 blk2 : List Label → Prog (List Label)} (h3 : Blk3 blk3) (h2 : Blk2 blk2) :
    ∀ (fuel : Nat) (nowR res : List Label) (st : GSt) (P K : List Label), Inv st P → Kn st K →
      (∀ l ∈ nowR, l ∈ K) → (∀ l ∈ res, l ∈ K) → nowR.length < fuel →
      Ok (levelsSimple blk3 blk2 fuel nowR res) st (GPost P K id
        (fun r => r.length = res.length + sa_bitlen nowR.length)) := by
  intro fuel
  induction fuel with
  | zero => intro nowR res st P K _ _ _ _ hf; omega
  | succ n ih =>
    intro nowR res st P K hinv hk hn hr hf
    unfold levelsSimple
    by_cases he : nowR.isEmpty = true
    · simp only [he, if_true]
      have : nowR = [] := List.isEmpty_iff.mp he
      subst this
      exact Ok.ret ⟨hinv, fun l hl => hk l (by kmem), by simp [sa_bitlen_zero]⟩
    · simp only [he, Bool.false_eq_true, if_false]
      have hne : nowR ≠ [] := by intro e; subst e; simp at he
      have hpos := sa_length_pos_of_ne hne
      apply Ok.stepK (ok_reduce3 h3 nowR.length nowR [] st P K hinv hk hn (by intro l hl; cases hl) (Nat.le_refl _))
      intro r1 s1 i1 k1 ⟨a1, a2, a3⟩
      obtain ⟨n1, nx1⟩ := r1
      simp only at k1 a1 a2 a3 ⊢
      apply Ok.stepK (ok_reduce2 h2 n1 nx1 s1 P (K ++ (n1 ++ nx1)) i1 k1 (by intro l hl; kmem) (by intro l hl; kmem) a1)
      intro r2 s2 i2 k2 ⟨b1, b2, b3⟩
      obtain ⟨n2, nx2⟩ := r2
      simp only at k2 b1 b2 b3 ⊢
      apply Ok.bind (ok_firstOfRev (Q := fun x st' => st' = s2 ∧ x ∈ n2) (b2 (a2 hne)) (fun x hx => ⟨rfl, hx⟩))
      intro r s2' ⟨e, hr2⟩
      subst e
      have hn1 := sa_length_pos_of_ne (a2 hne)
      have hn2 := sa_length_pos_of_ne (b2 (a2 hne))
      simp only [List.length_nil, Nat.mul_zero, Nat.add_zero] at a3
      have hhalf : nx2.reverse.length = nowR.length / 2 := by rw [List.length_reverse]; omega
      refine (ih nx2.reverse (res ++ [r]) s2' P (K ++ (n1 ++ nx1) ++ (n2 ++ nx2)) i2 k2 (by intro l hl; kmem) (by intro l hl; kmem)
        (by omega)).mono ?_
      intro out s3 ⟨i3, k3, h4⟩
      refine ⟨i3, k3.mono (by intro l hl; kmem), ?_⟩
      dsimp only at h4 ⊢
      rw [h4, hhalf, sa_bitlen_half hpos]
      simp only [List.length_append, List.length_singleton]; omega

/-- **`_add_sum_n_bits_aig` returns** on any operands that are gates, with `bitlen n` result bits -/
theorem ok_addSumNBitsAig {ins : List Label} {st : GSt} {P K : List Label} (hinv : Inv st P) (hk : Kn st K)
    (hi : ∀ l ∈ ins, l ∈ K) :
    Ok (addSumNBitsAig ins) st (GPost P K id (fun r => r.length = sa_bitlen ins.length)) := by
  unfold addSumNBitsAig
  refine (sa_ok_levelsSimple sa_blk3_addSum3Aig sa_blk2_addSum2Aig _ _ [] st P K hinv hk
    (by intro l hl; exact hi l (List.mem_reverse.mp hl)) (by intro l hl; cases hl) (by simp)).mono ?_
  intro out s1 ⟨i1, k1, h1⟩
  refine ⟨i1, k1, ?_⟩
  dsimp only at h1 ⊢
  rw [h1]; simp

/-! ## `add_sum_n_bits` -/

theorem sa_resolve_enum (b : Basis) : (BasisArg.enum b).resolve = .ok b := rfl

theorem sa_resolve_str_xaig {s : String} (h : asciiUpper s = "XAIG") : (BasisArg.str s).resolve = .ok .xaig := by
  simp [BasisArg.resolve, h]

theorem sa_resolve_str_aig {s : String} (h : asciiUpper s = "AIG") : (BasisArg.str s).resolve = .ok .aig := by
  simp [BasisArg.resolve, h]

/-- a basis argument resolves iff it is an enum member or a string that names XAIG or AIG in any case -/
theorem sa_resolve_ok_iff (basis : BasisArg) : (∃ b, basis.resolve = .ok b) ↔
    (∃ b, basis = .enum b) ∨ (∃ s, basis = .str s ∧ (asciiUpper s = "XAIG" ∨ asciiUpper s = "AIG")) := by
  cases basis with
  | enum b => simp [BasisArg.resolve]
  | str s =>
    simp only [BasisArg.resolve, reduceCtorEq, exists_false, false_or, BasisArg.str.injEq, exists_eq_left']
    by_cases h1 : asciiUpper s = "XAIG"
    · simp [h1]
    · by_cases h2 : asciiUpper s = "AIG"
      · simp [h2]
      · simp [h1, h2]

/-- **`add_sum_n_bits` returns** for every list of operands that are gates of the circuit (the empty list
included: the result is empty), in either basis, whenever the basis argument resolves; the result has
`bitlen n` bits -/
theorem ok_addSumNBits {ins : List Label} {basis : BasisArg} {b : Basis} {be : Bool} {st : GSt} {P K : List Label}
    (hinv : Inv st P) (hk : Kn st K) (hi : ∀ l ∈ ins, l ∈ K) (hb : basis.resolve = .ok b) :
    Ok (addSumNBits ins basis be) st (GPost P K id (fun r => r.length = sa_bitlen ins.length)) := by
  unfold addSumNBits
  rw [hb]
  simp only
  have hi' : ∀ l ∈ revIf ins be, l ∈ K := fun l hl => hi l (mem_revIf.mp hl)
  have hcore : Ok (match b with | .xaig => addSumNBitsXaig (revIf ins be) | .aig => addSumNBitsAig (revIf ins be)) st
      (GPost P K id (fun r => r.length = sa_bitlen ins.length)) := by
    cases b with
    | xaig => simpa only [length_revIf_t] using ok_addSumNBitsXaig hinv hk hi'
    | aig => simpa only [length_revIf_t] using ok_addSumNBitsAig hinv hk hi'
  apply Ok.stepK hcore
  intro r s1 i1 k1 hr
  exact Ok.ret ⟨i1, fun l hl => k1 l (by simp only [id, List.mem_append, mem_revIf] at hl ⊢; exact hl),
    by dsimp only; rw [length_revIf_t]; exact hr⟩

/-! ## `add_sum_two_numbers`, `add_sum_two_numbers_with_shift` -/

/-- `d[i][0]`, `d[i][1]` of a two-bit count -/
theorem ok_sumPair_bind {β} {l : List Label} {f : Label × Label → Prog β} {st : GSt} {R : β → GSt → Prop} (hl : l.length = 2)
    (h : ∀ x y, l = [x, y] → Ok (f (x, y)) st R) : Ok (sumPair l >>= f) st R := by
  match l, hl with
  | [x, y], _ => exact h x y rfl

/-- the carry chain: one two- or three-operand count per remaining bit of the longer operand; no condition on
the widths (a longer second operand is just not read) -/
theorem ok_sumChain : ∀ (xs ys outs : List Label) (carry : Label) (st : GSt) (P K : List Label), Inv st P → Kn st K →
    (∀ l ∈ xs, l ∈ K) → (∀ l ∈ ys, l ∈ K) → (∀ l ∈ outs, l ∈ K) → carry ∈ K →
    Ok (sumChain xs ys outs carry) st (GPost P K (fun r => r.1 ++ [r.2]) (fun r => r.1.length = outs.length + xs.length)) := by
  intro xs
  induction xs with
  | nil =>
    intro ys outs carry st P K hinv hk _ _ ho hc
    unfold sumChain
    exact Ok.pure ⟨hinv, fun l hl => hk l (by kmem), rfl⟩
  | cons x xs ih =>
    intro ys outs carry st P K hinv hk hx hy ho hc
    unfold sumChain
    have hinp : ∀ l ∈ (match ys with | y :: _ => [carry, x, y] | [] => [carry, x]), l ∈ K := by
      cases ys with
      | nil => intro l hl; kmem
      | cons y yr => intro l hl; kmem
    have hlen : sa_bitlen (match ys with | y :: _ => [carry, x, y] | [] => [carry, x]).length = 2 := by
      cases ys with
      | nil => exact sa_bitlen_two
      | cons y yr => exact sa_bitlen_three
    dsimp only
    apply Ok.stepK (ok_addSumNBits (be := false) hinv hk hinp (sa_resolve_enum .xaig))
    intro r s1 i1 k1 hr
    apply ok_sumPair_bind (hr.trans hlen); intro s c e2
    subst e2
    simp only [id] at k1
    refine (ih ys.tail (outs ++ [s]) c s1 P (K ++ [s, c]) i1 k1 (by intro l hl; kmem)
      (by intro l hl; have := hy l (List.mem_of_mem_tail hl); kmem) (by intro l hl; kmem) (by kmem)).mono ?_
    intro res s2 ⟨i2, k2, h2⟩
    refine ⟨i2, k2.mono (by intro l hl; kmem), ?_⟩
    dsimp only at h2 ⊢
    rw [h2]; simp only [List.length_append, List.length_cons, List.length_nil]; omega

/-- the carry chain of `add_sum_two_numbers`: both operands have a least significant bit -/
theorem ok_sumTwoCore {la lb : List Label} {st : GSt} {P K : List Label} (hinv : Inv st P) (hk : Kn st K)
    (ha : ∀ l ∈ la, l ∈ K) (hb : ∀ l ∈ lb, l ∈ K) (hna : la ≠ []) (hnb : lb ≠ []) :
    Ok (sumTwoCore la lb) st (GPost P K id (fun r => r.length = la.length + 1)) := by
  match la, lb, hna, hnb with
  | x :: xs, y :: ys, _, _ =>
    unfold sumTwoCore
    apply Ok.stepK (ok_addSumNBits (be := false) hinv hk (ins := [x, y]) (by intro l hl; kmem) (sa_resolve_enum .xaig))
    intro r s1 i1 k1 hr
    apply ok_sumPair_bind (hr.trans sa_bitlen_two); intro s0 c0 e2
    subst e2
    simp only [id] at k1
    apply Ok.stepK (ok_sumChain xs ys [s0] c0 s1 P (K ++ [s0, c0]) i1 k1 (by intro l hl; kmem) (by intro l hl; kmem)
      (by intro l hl; kmem) (by kmem))
    intro r2 s2 i2 k2 h2
    obtain ⟨outs, carry⟩ := r2
    dsimp only at h2 k2 ⊢
    refine Ok.ret ⟨i2, k2.mono (by intro l hl; kmem), ?_⟩
    dsimp only
    simp only [List.length_append, List.length_cons, List.length_nil, h2]; omega

/-- **`add_sum_two_numbers` returns** when both operands are gates of the circuit and have at least one bit each
(the code reads `a[0]` and `b[0]`); widths may differ; the result has `max(n, m) + 1` bits -/
theorem ok_addSumTwoNumbers {a b : List Label} {be : Bool} {st : GSt} {P K : List Label} (hinv : Inv st P) (hk : Kn st K)
    (ha : ∀ l ∈ a, l ∈ K) (hb : ∀ l ∈ b, l ∈ K) (hna : a ≠ []) (hnb : b ≠ []) :
    Ok (addSumTwoNumbers a b be) st (GPost P K id (fun r => r.length = max a.length b.length + 1)) := by
  unfold addSumTwoNumbers
  have ha' : ∀ l ∈ revIf a be, l ∈ K := fun l hl => ha l (mem_revIf.mp hl)
  have hb' : ∀ l ∈ revIf b be, l ∈ K := fun l hl => hb l (mem_revIf.mp hl)
  have hna' : revIf a be ≠ [] := by
    intro e; have := congrArg List.length e; rw [length_revIf_t] at this
    exact hna (List.eq_nil_of_length_eq_zero this)
  have hnb' : revIf b be ≠ [] := by
    intro e; have := congrArg List.length e; rw [length_revIf_t] at this
    exact hnb (List.eq_nil_of_length_eq_zero this)
  have hcore : Ok (if (revIf a be).length < (revIf b be).length then sumTwoCore (revIf b be) (revIf a be)
      else sumTwoCore (revIf a be) (revIf b be)) st (GPost P K id (fun r => r.length = max a.length b.length + 1)) := by
    simp only [length_revIf_t]
    by_cases hlt : a.length < b.length
    · simp only [hlt, if_true]
      refine (ok_sumTwoCore hinv hk hb' ha' hnb' hna').mono ?_
      intro r s1 ⟨i1, k1, h1⟩
      refine ⟨i1, k1, ?_⟩
      dsimp only at h1 ⊢
      rw [h1, length_revIf_t]; omega
    · simp only [hlt, if_false]
      refine (ok_sumTwoCore hinv hk ha' hb' hna' hnb').mono ?_
      intro r s1 ⟨i1, k1, h1⟩
      refine ⟨i1, k1, ?_⟩
      dsimp only at h1 ⊢
      rw [h1, length_revIf_t]; omega
  dsimp only
  apply Ok.stepK hcore
  intro r s1 i1 k1 hr
  exact Ok.ret ⟨i1, fun l hl => k1 l (by simp only [id, List.mem_append, mem_revIf] at hl ⊢; exact hl),
    by dsimp only; rw [length_revIf_t]; exact hr⟩

theorem sa_revIf_ne_nil {l : List Label} {be : Bool} (h : l ≠ []) : revIf l be ≠ [] := by
  intro e; have := congrArg List.length e; rw [length_revIf_t] at this
  exact h (List.eq_nil_of_length_eq_zero this)

/-- **`add_sum_two_numbers_with_shift` returns** when the operands are gates of the circuit and
* `shift < n` (the numbers overlap): the second operand has at least one bit (`add_sum_two_numbers` reads `b[0]`);
* `shift > n`: the first operand has at least one bit (the padding zero is built from `a[0]`);
* `shift = n`: no condition (plain concatenation, either operand may be empty).
Result width: `shift + m` when `shift ≥ n`, `max(n, m + shift) + 1` otherwise. -/
theorem ok_addSumTwoNumbersWithShift {shift : Nat} {a b : List Label} {be : Bool} {st : GSt} {P K : List Label}
    (hinv : Inv st P) (hk : Kn st K) (ha : ∀ l ∈ a, l ∈ K) (hb : ∀ l ∈ b, l ∈ K)
    (hpad : a.length < shift → a ≠ []) (hov : shift < a.length → b ≠ []) :
    Ok (addSumTwoNumbersWithShift shift a b be) st (GPost P K id
      (fun r => (a.length ≤ shift → r.length = shift + b.length) ∧
        (shift < a.length → r.length = max a.length (b.length + shift) + 1))) := by
  unfold addSumTwoNumbersWithShift
  have ha' : ∀ l ∈ revIf a be, l ∈ K := fun l hl => ha l (mem_revIf.mp hl)
  have hb' : ∀ l ∈ revIf b be, l ∈ K := fun l hl => hb l (mem_revIf.mp hl)
  dsimp only
  rw [length_revIf_t]
  by_cases hge : shift ≥ a.length
  · simp only [hge, if_true]
    by_cases hne : (shift != a.length) = true
    · simp only [hne, if_true]
      have hlt : a.length < shift := by
        have : shift ≠ a.length := by simpa using hne
        omega
      have hna := sa_revIf_ne_nil (be := be) (hpad hlt)
      match hm : revIf a be, hna with
      | x :: rest, _ =>
        dsimp only
        have hx : x ∈ K := ha' x (by rw [hm]; simp)
        apply Ok.stepK (okK_emitTT hinv hk (by decide) hx hx)
        intro zero s1 i1 k1 _
        refine Ok.ret ⟨i1, fun l hl => ?_, fun _ => ?_, fun h => by omega⟩
        · simp only [id, List.mem_append, mem_revIf, List.mem_replicate] at hl
          rcases hl with hl | (hl | ⟨_, hl⟩) | hl
          · exact k1 l (by kmem)
          · exact k1 l (List.mem_append_left _ (ha' l (by rw [hm]; exact hl)))
          · exact k1 l (by subst hl; kmem)
          · exact k1 l (List.mem_append_left _ (hb l hl))
        · have hl : (x :: rest).length = a.length := by rw [← hm, length_revIf_t]
          simp only [length_revIf_t, List.length_append, List.length_replicate, hl]
          omega
    · simp only [hne, Bool.false_eq_true, if_false]
      have heq : shift = a.length := by
        have : ¬ shift ≠ a.length := by simpa using hne
        omega
      refine Ok.ret ⟨hinv, fun l hl => ?_, fun _ => ?_, fun h => by omega⟩
      · simp only [id, List.mem_append, mem_revIf] at hl
        rcases hl with hl | hl | hl
        · exact hk l hl
        · exact hk l (ha l hl)
        · exact hk l (hb l hl)
      · simp only [length_revIf_t, List.length_append]; omega
  · simp only [hge, if_false]
    have hlt : shift < a.length := by omega
    have hdrop : (revIf a be).drop shift ≠ [] := by
      intro e; have := congrArg List.length e
      simp only [List.length_drop, length_revIf_t, List.length_nil] at this; omega
    apply Ok.stepK (ok_addSumTwoNumbers (be := false) hinv hk (fun l hl => ha' l (List.mem_of_mem_drop hl)) hb'
      hdrop (sa_revIf_ne_nil (hov hlt)))
    intro res s1 i1 k1 hr
    refine Ok.ret ⟨i1, fun l hl => ?_, fun h => h.elim, fun _ => ?_⟩
    · simp only [id, List.mem_append, mem_revIf] at hl
      rcases hl with hl | hl | hl
      · exact k1 l (by kmem)
      · exact k1 l (List.mem_append_left _ (ha' l (List.mem_of_mem_take hl)))
      · exact k1 l (by kmem)
    · simp only [length_revIf_t, List.length_append, List.length_take, List.length_drop] at hr ⊢
      omega

/-! ## the contracts of `pairUp` / `xaigLevel` in the form the weighted sums use (pairs given element-wise,
`flatMap` spelled out) -/

theorem sa_pl_of_pairs {pairs : List (Label × Label)} {K : List Label} (h : ∀ p ∈ pairs, p.1 ∈ K ∧ p.2 ∈ K) :
    ∀ l ∈ sa_pl pairs, l ∈ K := by
  intro l hl
  obtain ⟨p, hp, e⟩ := sa_mem_pl.mp hl
  rcases e with rfl | rfl
  · exact (h p hp).1
  · exact (h p hp).2

theorem sa_export_pairUp (fuel : Nat) (soloR : List Label) (pairsR : List (Label × Label)) (st : GSt) (P K : List Label)
    (hinv : Inv st P) (hk : Kn st K) (hs : ∀ l ∈ soloR, l ∈ K) (hp : ∀ p ∈ pairsR, p.1 ∈ K ∧ p.2 ∈ K) :
    Ok (pairUp fuel soloR pairsR) st (GPost P K (fun r => r.1 ++ r.2.flatMap (fun p => [p.1, p.2]))
      (fun r => (soloR ≠ [] ∨ pairsR ≠ []) → (r.1 ≠ [] ∨ r.2 ≠ []))) := by
  refine (ok_pairUp fuel soloR pairsR st P K hinv hk hs (sa_pl_of_pairs hp)).mono ?_
  intro r st' ⟨i1, k1, h1, _, _⟩
  refine ⟨i1, k1, fun hne => ?_⟩
  have hpos : 1 ≤ r.1.length + 2 * r.2.length := by
    rw [h1]
    rcases hne with h | h
    · have := sa_length_pos_of_ne h; omega
    · have := sa_length_pos_of_ne h; omega
  by_cases h0 : r.1 = []
  · right
    intro e
    rw [h0, e] at hpos
    simp at hpos
  · exact Or.inl h0

theorem sa_export_xaigLevel (soloR : List Label) (pairsR : List (Label × Label)) (st : GSt) (P K : List Label)
    (hinv : Inv st P) (hk : Kn st K) (hs : ∀ l ∈ soloR, l ∈ K) (hp : ∀ p ∈ pairsR, p.1 ∈ K ∧ p.2 ∈ K)
    (hne : soloR ≠ [] ∨ pairsR ≠ []) :
    Ok (xaigLevel soloR pairsR) st (GPost P K (fun r => r.1 :: r.2.1 ++ r.2.2.flatMap (fun p => [p.1, p.2]))
      (fun _ => True)) := by
  refine (ok_xaigLevel hinv hk hs (sa_pl_of_pairs hp) hne).mono ?_
  intro r st' ⟨i1, k1, _⟩
  exact ⟨i1, k1, trivial⟩

end Cirbo
