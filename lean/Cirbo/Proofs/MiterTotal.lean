import Cirbo.Proofs.ConnTotal
import Cirbo.Proofs.MiterFull
import Cirbo.Proofs.MoreOps
import Std.Data.String.ToNat
/-!
# `build_miter` returns on operands of equal shape (C13)
-/
namespace Cirbo
open GateType Circuit

/-! ## what a left connection adds: labels and block names -/

theorem connLoop_labels {other : Circuit} {m : Dict Label} {pre : String} :
    ∀ (order : List Label) (st0 st : ConnSt),
      order.foldl (connStep other m pre false) (.ok st0) = .ok st →
      ∀ l ∈ st.c.labels, l ∈ st0.c.labels ∨ ∃ cur ∈ order, l = pre ++ cur := by
  intro order
  induction order with
  | nil => intro st0 st h l hl; simp at h; subst h; exact Or.inl hl
  | cons cur rest ih =>
    intro st0 st h l hl
    simp only [List.foldl_cons] at h
    cases hs : connStep other m pre false (.ok st0) cur with
    | error e => rw [hs, foldl_connStep_error] at h; cases h
    | ok st1 =>
      rw [hs] at h
      rcases ih st1 st h l hl with h1 | ⟨c2, hc2, e⟩
      · unfold connStep at hs
        simp only at hs
        cases hf : other.find? cur with
        | none => simp [hf] at hs
        | some g =>
          simp only [hf] at hs
          split at hs
          · cases hm : mapLabels (Dict.set st0.o2n cur (pre ++ cur)) g.ops with
            | error e => simp [hm] at hs
            | ok ops =>
              simp only [hm] at hs
              cases ha : st0.c.addGate ⟨pre ++ cur, g.ty, ops⟩ with
              | error e => simp [ha] at hs
              | ok c1 =>
                simp only [ha, Except.ok.injEq] at hs
                subst hs
                obtain ⟨_, _, hg1, _⟩ := addGate_fields ha
                simp only at h1
                unfold Circuit.labels at h1
                rw [hg1] at h1
                simp only [List.map_append, List.map_cons, List.map_nil, List.mem_append, List.mem_singleton] at h1
                rcases h1 with h1 | h1
                · exact Or.inl h1
                · exact Or.inr ⟨cur, by simp, h1⟩
          · simp only [Bool.false_eq_true, if_false, Except.ok.injEq] at hs
            subst hs
            exact Or.inl h1
      · exact Or.inr ⟨c2, by simp [hc2], e⟩

/-- every gate of the result of a left connection is a base gate or the prefixed copy of a gate of
the attached circuit -/
theorem connect_left_labels {c other c' : Circuit} {thisC otherC : List Label} {name : Label} {addP : Bool}
    (hwo : WFG other) (h : c.connectCircuit other thisC otherC false name addP = .ok c') :
    ∀ l ∈ c'.labels, l ∈ c.labels ∨ ∃ l0 ∈ other.labels, l = connPre name addP ++ l0 := by
  obtain ⟨order, st, hts, hfold, hfin, _⟩ := connect_left_unfold h
  obtain ⟨order', ho1, hperm, _⟩ := topSort_inv_spec hwo
  rw [hts] at ho1; cases ho1
  intro l hl
  have hg := connFinish_gates hfin
  have : l ∈ st.c.labels := by unfold Circuit.labels at hl ⊢; rw [← hg]; exact hl
  rcases connLoop_labels order _ _ hfold l this with h1 | ⟨cur, hc, e⟩
  · exact Or.inl h1
  · exact Or.inr ⟨cur, hperm.mem_iff.mp hc, e⟩

theorem bfold_names (o2n : Dict Label) (pre : String) : ∀ (bs : List Block) (cc c3 : Circuit),
    bs.foldl (bstepFn o2n pre) (.ok cc) = .ok c3 →
    ∀ b ∈ c3.blocks, b ∈ cc.blocks ∨ ∃ b0 ∈ bs, b.name = pre ++ b0.name := by
  intro bs
  induction bs with
  | nil => intro cc c3 h b hb; simp at h; subst h; exact Or.inl hb
  | cons b0 r ih =>
    intro cc c3 h b hb
    simp only [List.foldl_cons] at h
    cases hs : bstepFn o2n pre (.ok cc) b0 with
    | error e => rw [hs, bfold_error] at h; cases h
    | ok c1 =>
      rw [hs] at h
      rcases ih c1 c3 h b hb with h1 | ⟨b1, hb1, e⟩
      · unfold bstepFn at hs
        simp only at hs
        split at hs
        · cases hs
        · split at hs
          · simp only [Except.ok.injEq] at hs
            subst hs
            simp only [List.mem_append, List.mem_singleton] at h1
            rcases h1 with h1 | h1
            · exact Or.inl h1
            · exact Or.inr ⟨b0, by simp, by rw [h1]⟩
          · cases hs
      · exact Or.inr ⟨b1, by simp [hb1], e⟩

/-- the block names after the tail of `connect_circuit` -/
theorem connFinish_blocknames {c other c' : Circuit} {st : ConnSt} {thisC otherC : List Label} {name : Label}
    {pre : String} (h : connFinish c other st thisC otherC name pre = .ok c') :
    ∀ b ∈ c'.blocks, b.name = name ∨ (∃ b0 ∈ st.c.blocks, b.name = b0.name) ∨ ∃ b0 ∈ other.blocks, b.name = pre ++ b0.name := by
  unfold connFinish at h
  simp only at h
  split at h
  · cases h
  · split at h
    · cases h
    · rename_i c1 hso
      split at h
      · cases h
      · split at h
        · cases h
        · split at h
          · cases h
          · rename_i c2 hsi
            split at h
            · cases h
            · rename_i c3 hb0
              have hb : other.blocks.foldl (bstepFn st.o2n pre) (.ok c2) = .ok c3 := hb0
              have hnames := bfold_names _ _ _ _ _ hb
              have hbl1 : c1.blocks = st.c.blocks := by
                unfold setOutputs at hso
                split at hso
                · cases hso
                · simp only [Except.ok.injEq] at hso; subst hso; rfl
              have hbl2 : c2.blocks = c1.blocks := by
                unfold setInputs at hsi
                split at hsi
                · cases hsi
                · split at hsi
                  · cases hsi
                  · split at hsi
                    · cases hsi
                    · simp only [Except.ok.injEq] at hsi; subst hsi; rfl
              have hc3 : ∀ b ∈ c3.blocks, (∃ b0 ∈ st.c.blocks, b.name = b0.name) ∨ ∃ b0 ∈ other.blocks, b.name = pre ++ b0.name := by
                intro b hb'
                rcases hnames b hb' with h1 | h1
                · left; rw [hbl2, hbl1] at h1; exact ⟨b, h1, rfl⟩
                · right; exact h1
              by_cases hn : name = ""
              · subst hn
                simp only [beq_self_eq_true, if_true, Except.ok.injEq] at h
                subst h
                intro b hb'; exact Or.inr (hc3 b hb')
              · have hn' : (name == "") = false := by simpa using hn
                simp only [hn', Bool.false_eq_true, if_false] at h
                cases hmi : mapLabels st.o2n other.inputs with
                | error e => simp [hmi] at h
                | ok bi =>
                  cases hmo : mapLabels st.o2n other.outputs with
                  | error e => simp [hmi, hmo] at h
                  | ok bo =>
                    simp only [hmi, hmo] at h
                    split at h
                    · simp only [Except.ok.injEq] at h
                      subst h
                      intro b hb'
                      simp only [List.mem_map] at hb'
                      obtain ⟨x, hx, rfl⟩ := hb'
                      by_cases hxn : (x.name == name) = true
                      · simp only [hxn, if_true]; exact Or.inl trivial
                      · simp only [hxn, Bool.false_eq_true, if_false]; exact Or.inr (hc3 x hx)
                    · simp only [Except.ok.injEq] at h
                      subst h
                      intro b hb'
                      simp only [List.mem_append, List.mem_singleton] at hb'
                      rcases hb' with hb' | hb'
                      · exact Or.inr (hc3 b hb')
                      · left; rw [hb']

theorem connect_left_blocknames {c other c' : Circuit} {thisC otherC : List Label} {name : Label} {addP : Bool}
    (h : c.connectCircuit other thisC otherC false name addP = .ok c') :
    ∀ b ∈ c'.blocks, b.name = name ∨ (∃ b0 ∈ c.blocks, b.name = b0.name) ∨
      ∃ b0 ∈ other.blocks, b.name = connPre name addP ++ b0.name := by
  obtain ⟨order, st, _, hfold, hfin, _⟩ := connect_left_unfold h
  obtain ⟨_, _, _, hb, _⟩ := connLoop_struct order _ _ hfold
  intro b hb'
  rcases connFinish_blocknames hfin b hb' with h1 | ⟨b0, hb0, e⟩ | h1
  · exact Or.inl h1
  · right; left; rw [hb] at hb0; exact ⟨b0, hb0, e⟩
  · exact Or.inr (Or.inr h1)

/-! ## `generate_pairwise_xor` returns -/

theorem addInputs_ok_fresh : ∀ (ls : List Label) (c : Circuit), ls.Nodup → (∀ l ∈ ls, l ∉ c.labels) →
    ∃ c', c.addInputs ls = .ok c' := by
  intro ls
  induction ls with
  | nil => intro c _ _; exact ⟨c, rfl⟩
  | cons i r ih =>
    intro c hnd hfr
    simp only [List.nodup_cons] at hnd
    obtain ⟨c1, h1⟩ := addGate_ok (c := c) (g := ⟨i, INPUT, []⟩) (hfr i (by simp)) (by intro o ho; cases ho)
    obtain ⟨_, _, hg, _⟩ := addGate_fields h1
    have : ∀ l ∈ r, l ∉ c1.labels := by
      intro l hl hm
      unfold Circuit.labels at hm
      rw [hg] at hm
      simp only [List.map_append, List.map_cons, List.map_nil, List.mem_append, List.mem_singleton] at hm
      rcases hm with hm | hm
      · exact hfr l (by simp [hl]) hm
      · exact hnd.1 (hm ▸ hl)
    obtain ⟨c2, h2⟩ := ih c1 hnd.2 this
    exact ⟨c2, by unfold addInputs; rw [h1]; exact h2⟩

theorem genLabels_mem {pre : String} {n : Nat} {l : Label} :
    l ∈ genLabels pre n ↔ ∃ i, i < n ∧ l = pre ++ "_" ++ toString i := by
  unfold genLabels
  simp only [List.mem_map, List.mem_range]
  constructor
  · rintro ⟨i, hi, rfl⟩; exact ⟨i, hi, rfl⟩
  · rintro ⟨i, hi, rfl⟩; exact ⟨i, hi, rfl⟩

theorem genLabels_nodup (pre : String) (n : Nat) : (genLabels pre n).Nodup := by
  unfold genLabels
  apply nodup_map_of_inj _ _ List.nodup_range
  intro a b e
  have : toString a = toString b := (String.append_right_inj _).mp e
  exact Nat.repr_injective this

theorem x_ne_y (a b : String) : "x" ++ "_" ++ a ≠ "y" ++ "_" ++ b := by
  intro h
  have := congrArg String.toList h
  simp only [String.toList_append] at this
  have h2 := congrArg (fun l => l[0]?) this
  simp at h2

theorem x_ne_xor (a b : String) : "x" ++ "_" ++ a ≠ "xor" ++ "_" ++ b := by
  intro h
  have := congrArg String.toList h
  simp only [String.toList_append] at this
  have h2 := congrArg (fun l => l[1]?) this
  simp at h2

theorem y_ne_xor (a b : String) : "y" ++ "_" ++ a ≠ "xor" ++ "_" ++ b := by
  intro h
  have := congrArg String.toList h
  simp only [String.toList_append] at this
  have h2 := congrArg (fun l => l[0]?) this
  simp at h2

theorem xorFold_ok : ∀ (ps : List ((Label × Label) × Label)) (cc : Circuit), WFS cc →
    (ps.map (·.2)).Nodup → (∀ p ∈ ps, p.2 ∉ cc.labels ∧ p.1.1 ∈ cc.labels ∧ p.1.2 ∈ cc.labels) →
    ∃ c3, ps.foldl xorStep (.ok cc) = .ok c3 := by
  intro ps
  induction ps with
  | nil => intro cc _ _ _; exact ⟨cc, rfl⟩
  | cons p r ih =>
    intro cc hw hnd hp
    simp only [List.map_cons, List.nodup_cons] at hnd
    obtain ⟨hf, h1, h2⟩ := hp p (by simp)
    obtain ⟨ca, ha⟩ := addGate_ok (c := cc) (g := ⟨p.2, XOR, [p.1.1, p.1.2]⟩) hf (by
      intro o ho
      simp only [List.mem_cons, List.not_mem_nil, or_false] at ho
      rcases ho with rfl | rfl
      · exact h1
      · exact h2)
    obtain ⟨_, _, hg, _⟩ := addGate_fields ha
    have hwa : WFS ca := addGate_wfs hw (by intro e; cases e) ha
    have hlab : ∀ l, l ∈ ca.labels ↔ l ∈ cc.labels ∨ l = p.2 := by
      intro l; unfold Circuit.labels; rw [hg]; simp
    have hm : ca.hasGate p.2 = true := (hasGate_iff' ca p.2).mpr ((hlab p.2).mpr (Or.inr rfl))
    have hmark : ca.markAsOutput p.2 = .ok { ca with outputs := ca.outputs ++ [p.2] } := by
      unfold markAsOutput; rw [hm]; rfl
    have hw1 : WFS { ca with outputs := ca.outputs ++ [p.2] } := markAsOutput_wfs hwa hmark
    obtain ⟨c3, h3⟩ := ih { ca with outputs := ca.outputs ++ [p.2] } hw1 hnd.2 (by
      intro q hq
      obtain ⟨qf, q1, q2⟩ := hp q (by simp [hq])
      have hlab' : ∀ l, l ∈ ({ ca with outputs := ca.outputs ++ [p.2] } : Circuit).labels ↔ l ∈ cc.labels ∨ l = p.2 := hlab
      refine ⟨?_, (hlab' _).mpr (Or.inl q1), (hlab' _).mpr (Or.inl q2)⟩
      intro hm'
      rcases (hlab' _).mp hm' with h5 | h5
      · exact qf h5
      · exact hnd.1 (by rw [← h5]; exact List.mem_map_of_mem hq))
    refine ⟨c3, ?_⟩
    simp only [List.foldl_cons]
    have : xorStep (.ok cc) p = .ok { ca with outputs := ca.outputs ++ [p.2] } := by
      unfold xorStep; simp only [ha, hmark]
    rw [this]; exact h3

theorem pairwiseXor_total (n : Nat) : ∃ px, pairwiseXorCircuit n = .ok px := by
  unfold pairwiseXorCircuit
  simp only [bind, Except.bind]
  obtain ⟨c1, h1⟩ := addInputs_ok_fresh (genLabels "x" n) Circuit.empty (genLabels_nodup _ _) (by
    intro l _ hm; simp [Circuit.empty, Circuit.labels] at hm)
  obtain ⟨g1, _, _⟩ := addInputs_spec _ _ _ h1
  have hl1 : ∀ l, l ∈ c1.labels ↔ l ∈ genLabels "x" n := by
    intro l; unfold Circuit.labels; rw [g1]; simp [Circuit.empty]
  obtain ⟨c2, h2⟩ := addInputs_ok_fresh (genLabels "y" n) c1 (genLabels_nodup _ _) (by
    intro l hl hm
    obtain ⟨i, _, rfl⟩ := genLabels_mem.mp hl
    obtain ⟨j, _, e⟩ := genLabels_mem.mp ((hl1 _).mp hm)
    exact x_ne_y _ _ e.symm)
  obtain ⟨g2, _, _⟩ := addInputs_spec _ _ _ h2
  have hl2 : ∀ l, l ∈ c2.labels ↔ l ∈ genLabels "x" n ∨ l ∈ genLabels "y" n := by
    intro l; unfold Circuit.labels; rw [g2, List.map_append, List.mem_append]
    have : l ∈ c1.gates.map (·.label) ↔ l ∈ genLabels "x" n := hl1 l
    rw [this]; simp
  have hw1 := addInputs_wfs _ wfs_empty h1
  have hw2 := addInputs_wfs _ hw1 h2
  rw [h1]; simp only
  rw [h2]; simp only
  have hz : (((genLabels "x" n).zip (genLabels "y" n)).zip (genLabels "xor" n)).map (·.2) = genLabels "xor" n := by
    rw [List.map_snd_zip]; simp [genLabels]
  obtain ⟨c3, h3⟩ := xorFold_ok (((genLabels "x" n).zip (genLabels "y" n)).zip (genLabels "xor" n)) c2 hw2
    (by rw [hz]; exact genLabels_nodup _ _) (by
      intro p hp
      have hp2 : p.2 ∈ genLabels "xor" n := (List.of_mem_zip hp).2
      have hp1 := (List.of_mem_zip hp).1
      have hpx : p.1.1 ∈ genLabels "x" n := (List.of_mem_zip hp1).1
      have hpy : p.1.2 ∈ genLabels "y" n := (List.of_mem_zip hp1).2
      refine ⟨?_, (hl2 _).mpr (Or.inl hpx), (hl2 _).mpr (Or.inr hpy)⟩
      intro hm
      obtain ⟨i, _, e⟩ := genLabels_mem.mp hp2
      rcases (hl2 _).mp hm with h5 | h5
      · obtain ⟨j, _, e2⟩ := genLabels_mem.mp h5
        exact x_ne_xor _ _ (e2.symm.trans e)
      · obtain ⟨j, _, e2⟩ := genLabels_mem.mp h5
        exact y_ne_xor _ _ (e2.symm.trans e))
  exact ⟨c3, h3⟩

/-! ## the miter -/

theorem addInputs_blocks : ∀ (ls : List Label) (c c' : Circuit), c.addInputs ls = .ok c' → c'.blocks = c.blocks := by
  intro ls
  induction ls with
  | nil => intro c c' h; simp [addInputs] at h; subst h; rfl
  | cons i r ih =>
    intro c c' h
    unfold addInputs at h
    cases ha : c.addGate ⟨i, INPUT, []⟩ with
    | error e => simp [ha] at h
    | ok c1 =>
      simp only [ha] at h
      obtain ⟨_, _, _, _, _, hb, _⟩ := addGate_fields ha
      rw [ih c1 c' h, hb]

theorem xorFold_blocks : ∀ (ps : List ((Label × Label) × Label)) (cc c3 : Circuit),
    ps.foldl xorStep (.ok cc) = .ok c3 → c3.blocks = cc.blocks := by
  intro ps
  induction ps with
  | nil => intro cc c3 h; simp at h; subst h; rfl
  | cons p r ih =>
    intro cc c3 h
    simp only [List.foldl_cons] at h
    cases hs : xorStep (.ok cc) p with
    | error e => rw [hs, xorFold_error] at h; cases h
    | ok c1 =>
      rw [hs] at h
      unfold xorStep at hs
      simp only at hs
      cases ha : cc.addGate ⟨p.2, XOR, [p.1.1, p.1.2]⟩ with
      | error e => simp [ha] at hs
      | ok ca =>
        simp only [ha] at hs
        obtain ⟨_, _, _, _, _, hb, _⟩ := addGate_fields ha
        have : c1.blocks = ca.blocks := by
          unfold markAsOutput at hs
          split at hs
          · simp only [Except.ok.injEq] at hs; subst hs; rfl
          · cases hs
        rw [ih c1 c3 h, this, hb]

theorem pairwiseXor_blocks {n : Nat} {px : Circuit} (h : pairwiseXorCircuit n = .ok px) : px.blocks = [] := by
  unfold pairwiseXorCircuit at h
  simp only [bind, Except.bind] at h
  cases h1 : Circuit.empty.addInputs (genLabels "x" n) with
  | error e => simp [h1] at h
  | ok c1 =>
    simp only [h1] at h
    cases h2 : c1.addInputs (genLabels "y" n) with
    | error e => simp [h2] at h
    | ok c2 =>
      simp only [h2] at h
      have hfold : (((genLabels "x" n).zip (genLabels "y" n)).zip (genLabels "xor" n)).foldl xorStep (.ok c2) = .ok px := h
      rw [xorFold_blocks _ _ _ hfold, addInputs_blocks _ _ _ h2, addInputs_blocks _ _ _ h1]; rfl

/-- what the two block names must satisfy (the defaults `circuit_left` / `circuit_right` do) -/
structure MiterNames (ln rn : String) : Prop where
  ln0 : ln ≠ ""
  rn0 : rn ≠ ""
  ne : rn ≠ ln
  lr : ∀ x y, rn ++ "@" ++ x ≠ ln ++ "@" ++ y
  rl1 : ∀ x, rn ≠ ln ++ "@" ++ x
  rl2 : ∀ x, rn ++ "@" ++ x ≠ ln
  px1 : "pairwise_xor" ≠ ln ∧ "pairwise_xor" ≠ rn
  px2 : ∀ x, "pairwise_xor" ≠ ln ++ "@" ++ x ∧ "pairwise_xor" ≠ rn ++ "@" ++ x
  px3 : ∀ x y, "pairwise_xor" ++ "@" ++ x ≠ ln ++ "@" ++ y ∧ "pairwise_xor" ++ "@" ++ x ≠ rn ++ "@" ++ y
  bo : ∀ x, "big_or" ≠ ln ++ "@" ++ x ∧ "big_or" ≠ rn ++ "@" ++ x ∧ "big_or" ≠ "pairwise_xor" ++ "@" ++ x

theorem miterNames_default : MiterNames "circuit_left" "circuit_right" := by
  have key : ∀ (a b : String) (i : Nat), (∀ x y : String, (a ++ x).toList[i]? ≠ (b ++ y).toList[i]?) →
      ∀ x y, a ++ x ≠ b ++ y := by
    intro a b i h x y e
    exact h x y (by rw [e])
  refine ⟨by decide, by decide, by decide, ?_, ?_, ?_, ⟨by decide, by decide⟩, ?_, ?_, ?_⟩
  · intro x y h
    have := congrArg (fun s => s.toList[8]?) h
    simp [String.toList_append] at this
  · intro x h
    have := congrArg (fun s => s.toList[8]?) h
    simp [String.toList_append] at this
  · intro x h
    have := congrArg (fun s => s.toList[8]?) h
    simp [String.toList_append] at this
  · intro x
    constructor <;> (intro h; have := congrArg (fun s => s.toList[0]?) h; simp [String.toList_append] at this)
  · intro x y
    constructor <;> (intro h; have := congrArg (fun s => s.toList[0]?) h; simp [String.toList_append] at this)
  · intro x
    refine ⟨?_, ?_, ?_⟩ <;> (intro h; have := congrArg (fun s => s.toList[0]?) h; simp [String.toList_append] at this)

/-- what is asked of an operand: the invariant, distinct block names, block outputs that exist -/
structure MiterOperand (c : Circuit) : Prop where
  wfs : WFS c
  bnd : (c.blocks.map (·.name)).Nodup
  bout : ∀ b ∈ c.blocks, ∀ l ∈ b.outputs, l ∈ c.labels

theorem connPre_true {name : Label} (h : name ≠ "") : connPre name true = name ++ "@" := by
  unfold connPre
  have : (name != "") = true := by simpa using h
  simp [this]

theorem wfs_toWFG {c : Circuit} (h : WFS c) : WFG c := ⟨h.nodup, h.closed, h.rank, h.usersL, h.usersC⟩

theorem inputs_are_inputs {c : Circuit} (hw : WFS c) : ∀ l ∈ c.inputs, (c.find? l).map (·.ty) = some INPUT := by
  intro l hl
  obtain ⟨g, hg, hgl, hty⟩ := (hw.inputsOK l).mp hl
  have := find_label hw.nodup hg
  rw [hgl] at this
  rw [this]; simp [hty]

/-- **`build_miter` returns** on two operands of equal shape (block names as the defaults) -/
theorem buildMiter_total {left right : Circuit} {ln rn : Label} (hN : MiterNames ln rn)
    (hL : MiterOperand left) (hR : MiterOperand right)
    (hi : left.inputs.length = right.inputs.length) (ho : left.outputs.length = right.outputs.length) :
    ∃ m, buildMiter left right ln rn = .ok m := by
  have hpl := connPre_true hN.ln0
  have hpr := connPre_true hN.rn0
  have hpx : connPre "pairwise_xor" true = "pairwise_xor" ++ "@" := connPre_true (by decide)
  -- step 1: the left operand on the empty circuit
  obtain ⟨m0, h0⟩ := connect_left_total (c := Circuit.empty) (other := left) (thisC := []) (otherC := []) (name := ln)
    (addP := true) wfs_empty hL.wfs (by simp [Circuit.empty]) (by intro l hl; cases hl) (by intro l hl; cases hl)
    (by simp) rfl (by intro g _ _ hm; simp [Circuit.empty, Circuit.labels] at hm) (by intro b _; simp [Circuit.empty])
    hL.bnd hL.bout
  have w0 := connectLeft_wfs wfs_empty hL.wfs h0
  have lab0 : ∀ l ∈ m0.labels, ∃ l0 ∈ left.labels, l = ln ++ "@" ++ l0 := by
    intro l hl
    rcases connect_left_labels (wfs_toWFG hL.wfs) h0 l hl with h1 | h1
    · simp [Circuit.empty, Circuit.labels] at h1
    · rw [hpl] at h1; exact h1
  have bn0 : ∀ b ∈ m0.blocks, b.name = ln ∨ ∃ b0 ∈ left.blocks, b.name = ln ++ "@" ++ b0.name := by
    intro b hb
    rcases connect_left_blocknames h0 b hb with h1 | ⟨b0, hb0, _⟩ | h1
    · exact Or.inl h1
    · simp [Circuit.empty] at hb0
    · rw [hpl] at h1; exact Or.inr h1
  obtain ⟨φ0, _, _, hφ0, ⟨ex0, hex0⟩, hcopy0, _, _, _, hblk0, _⟩ := connect_left_full (wfs_toWFG hL.wfs) h0
  obtain ⟨fb0, hgb0⟩ := hblk0 hN.ln0
  obtain ⟨hbm0, _⟩ := getBlock_name hgb0
  -- step 2: the right operand on the left operand's inputs
  have hthis1 : ∀ l ∈ left.inputs.map φ0, l ∈ m0.labels := fun l hl => (w0.blocksOK _ hbm0).2 l hl
  obtain ⟨m1, h1⟩ := connect_left_total (c := m0) (other := right) (thisC := left.inputs.map φ0) (otherC := right.inputs)
    (name := rn) (addP := true) w0 hR.wfs
    (by
      cases hany : m0.blocks.any (fun b => b.name == rn) with
      | false => rfl
      | true =>
        exfalso
        obtain ⟨b, hb, hbn⟩ := List.any_eq_true.mp hany
        have hbn' : b.name = rn := by simpa using hbn
        rcases bn0 b hb with h5 | ⟨b0, _, h5⟩
        · exact hN.ne (hbn'.symm.trans h5)
        · exact hN.rl1 _ (hbn'.symm.trans h5))
    hthis1 (inputs_are_inputs hR.wfs) hR.wfs.inputsNodup (by simp [hi])
    (by
      intro g _ _ hm
      rw [hpr] at hm
      obtain ⟨l0, _, e⟩ := lab0 _ hm
      exact hN.lr _ _ e)
    (by
      intro b _
      cases hany : m0.blocks.any (fun x => x.name == connPre rn true ++ b.name) with
      | false => rfl
      | true =>
        exfalso
        obtain ⟨b', hb', hbn⟩ := List.any_eq_true.mp hany
        have hbn' : b'.name = rn ++ "@" ++ b.name := by rw [← hpr]; simpa using hbn
        rcases bn0 b' hb' with h5 | ⟨b0, _, h5⟩
        · exact hN.rl2 _ (hbn'.symm.trans h5)
        · exact hN.lr _ _ (hbn'.symm.trans h5))
    hR.bnd hR.bout
  have w1 := connectLeft_wfs w0 hR.wfs h1
  have lab1 : ∀ l ∈ m1.labels, (∃ l0 ∈ left.labels, l = ln ++ "@" ++ l0) ∨ ∃ l0 ∈ right.labels, l = rn ++ "@" ++ l0 := by
    intro l hl
    rcases connect_left_labels (wfs_toWFG hR.wfs) h1 l hl with h5 | h5
    · exact Or.inl (lab0 l h5)
    · rw [hpr] at h5; exact Or.inr h5
  have bn1 : ∀ b ∈ m1.blocks, b.name = rn ∨ b.name = ln ∨ (∃ b0 ∈ left.blocks, b.name = ln ++ "@" ++ b0.name) ∨
      ∃ b0 ∈ right.blocks, b.name = rn ++ "@" ++ b0.name := by
    intro b hb
    rcases connect_left_blocknames h1 b hb with h5 | ⟨b0, hb0, e⟩ | h5
    · exact Or.inl h5
    · rcases bn0 b0 hb0 with h6 | h6
      · exact Or.inr (Or.inl (e.trans h6))
      · right; right; left
        obtain ⟨b1, hb1, e1⟩ := h6
        exact ⟨b1, hb1, e.trans e1⟩
    · rw [hpr] at h5; exact Or.inr (Or.inr (Or.inr h5))
  obtain ⟨φ1, _, hconn1, hφ1, ⟨ex1, hex1⟩, hcopy1, _, _, _, hblk1, hold1⟩ := connect_left_full (wfs_toWFG hR.wfs) h1
  obtain ⟨fb1, hgb1⟩ := hblk1 hN.rn0
  have hgbl1 : m1.getBlock ln = .ok ⟨ln, left.inputs.map φ0, fb0, left.outputs.map φ0⟩ :=
    hold1 ln _ (fun e => hN.ne e.symm) hgb0
  -- step 3: the xor stage
  obtain ⟨px, hpx0⟩ := pairwiseXor_total left.outputs.length
  obtain ⟨wpx, pxin, pxout, pxg⟩ := pairwiseXor_spec hpx0
  have pxb := pairwiseXor_blocks hpx0
  have m0sub : ∀ l ∈ m0.labels, l ∈ m1.labels := by
    intro l hl; unfold Circuit.labels at hl ⊢; rw [hex1]; simp only [List.map_append, List.mem_append]; exact Or.inl hl
  have hthis2 : ∀ l ∈ left.outputs.map φ0 ++ right.outputs.map φ1, l ∈ m1.labels := by
    intro l hl
    rcases List.mem_append.mp hl with hl | hl
    · obtain ⟨o, ho', rfl⟩ := List.mem_map.mp hl
      obtain ⟨g, hg, hgl⟩ : ∃ g ∈ left.gates, g.label = o := by
        have := hL.wfs.outputsOK o ho'; simpa [Circuit.labels] using this
      have := hcopy0 g hg (by simp)
      apply m0sub
      rw [← hgl]; exact mem_labels_of_mem this
    · obtain ⟨o, ho', rfl⟩ := List.mem_map.mp hl
      by_cases hoc : o ∈ right.inputs
      · have : φ1 o ∈ right.inputs.map φ1 := List.mem_map_of_mem hoc
        rw [hconn1] at this
        exact m0sub _ (hthis1 _ this)
      · obtain ⟨g, hg, hgl⟩ : ∃ g ∈ right.gates, g.label = o := by
          have := hR.wfs.outputsOK o ho'; simpa [Circuit.labels] using this
        have := hcopy1 g hg (by rw [hgl]; exact hoc)
        rw [← hgl]; exact mem_labels_of_mem this
  obtain ⟨m2, h2⟩ := connect_left_total (c := m1) (other := px)
    (thisC := left.outputs.map φ0 ++ right.outputs.map φ1) (otherC := px.inputs)
    (name := "pairwise_xor") (addP := true) w1 wpx
    (by
      cases hany : m1.blocks.any (fun b => b.name == "pairwise_xor") with
      | false => rfl
      | true =>
        exfalso
        obtain ⟨b, hb, hbn⟩ := List.any_eq_true.mp hany
        have hbn' : b.name = "pairwise_xor" := by simpa using hbn
        rcases bn1 b hb with h5 | h5 | ⟨b0, _, h5⟩ | ⟨b0, _, h5⟩
        · exact hN.px1.2 (hbn'.symm.trans h5)
        · exact hN.px1.1 (hbn'.symm.trans h5)
        · exact (hN.px2 _).1 (hbn'.symm.trans h5)
        · exact (hN.px2 _).2 (hbn'.symm.trans h5))
    hthis2 (inputs_are_inputs wpx) wpx.inputsNodup
    (by rw [pxin]; simp [genLabels_length, ho])
    (by
      intro g _ _ hm
      rw [hpx] at hm
      rcases lab1 _ hm with ⟨l0, _, e⟩ | ⟨l0, _, e⟩
      · exact (hN.px3 _ _).1 e
      · exact (hN.px3 _ _).2 e)
    (by intro b hb; rw [pxb] at hb; cases hb)
    (by rw [pxb]; simp) (by intro b hb; rw [pxb] at hb; cases hb)
  have w2 := connectLeft_wfs w1 wpx h2
  have lab2 : ∀ l ∈ m2.labels, (∃ l0, l = ln ++ "@" ++ l0) ∨ (∃ l0, l = rn ++ "@" ++ l0) ∨ ∃ l0, l = "pairwise_xor" ++ "@" ++ l0 := by
    intro l hl
    rcases connect_left_labels (wfs_toWFG wpx) h2 l hl with h5 | ⟨l0, _, e⟩
    · rcases lab1 l h5 with ⟨l0, _, e⟩ | ⟨l0, _, e⟩
      · exact Or.inl ⟨l0, e⟩
      · exact Or.inr (Or.inl ⟨l0, e⟩)
    · rw [hpx] at e; exact Or.inr (Or.inr ⟨l0, e⟩)
  obtain ⟨φ2, _, _, hφ2, _, hcopy2, _, _, _, hblk2, hold2⟩ := connect_left_full (wfs_toWFG wpx) h2
  obtain ⟨fb2, hgb2⟩ := hblk2 (by decide)
  -- step 4: the final gate
  have hbxo : ∀ o ∈ px.outputs.map φ2, o ∈ m2.labels := by
    intro l hl
    obtain ⟨o, ho', rfl⟩ := List.mem_map.mp hl
    obtain ⟨g, hg, hgl⟩ : ∃ g ∈ px.gates, g.label = o := by
      have := wpx.outputsOK o ho'; simpa [Circuit.labels] using this
    -- an output of the xor stage is an XOR gate, hence not one of its inputs
    have hnin : g.label ∉ px.inputs := by
      rw [hgl, pxout] at *
      intro hm
      rw [pxin] at hm
      obtain ⟨i, _, e⟩ := genLabels_mem.mp ho'
      rcases List.mem_append.mp hm with h5 | h5
      · obtain ⟨j, _, e2⟩ := genLabels_mem.mp h5
        exact x_ne_xor _ _ (e2.symm.trans e)
      · obtain ⟨j, _, e2⟩ := genLabels_mem.mp h5
        exact y_ne_xor _ _ (e2.symm.trans e)
    have := hcopy2 g hg hnin
    rw [← hgl]; exact mem_labels_of_mem this
  obtain ⟨m3, h3⟩ := addGate_ok (c := m2)
    (g := ⟨"big_or", if (px.outputs.map φ2).length != 1 then OR else IFF, px.outputs.map φ2⟩)
    (by
      intro hm
      rcases lab2 _ hm with ⟨l0, e⟩ | ⟨l0, e⟩ | ⟨l0, e⟩
      · exact (hN.bo _).1 e
      · exact (hN.bo _).2.1 e
      · exact (hN.bo _).2.2 e)
    hbxo
  obtain ⟨_, _, hg3, _⟩ := addGate_fields h3
  obtain ⟨m, h4⟩ := setOutputs_ok (n := m3) (outs := ["big_or"]) (by
    intro o ho'
    simp only [List.mem_singleton] at ho'
    subst ho'
    unfold Circuit.labels; rw [hg3]; simp)
  -- assemble
  refine ⟨m, ?_⟩
  unfold buildMiter
  have hshape : (left.inputs.length != right.inputs.length || left.outputs.length != right.outputs.length) = false := by
    simp [hi, ho]
  simp only [hshape, Bool.false_eq_true, if_false, bind, Except.bind, h0, hgb0, h1, hpx0, hgbl1, hgb1, h2, hgb2, h3, h4]

end Cirbo
