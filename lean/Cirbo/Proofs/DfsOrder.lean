import Cirbo.Proofs.Dfs
import Cirbo.Proofs.TrTerm
/-!
# DFS exits are a post-order: every gate exits after all of its successors (C20)
-/
namespace Cirbo

/-- decomposition of a list at the last occurrence of an element is unique -/
theorem last_occ_unique {α} {u : α} : ∀ {a a' b b' : List α}, a ++ u :: b = a' ++ u :: b' → u ∉ b → u ∉ b' →
    a = a' ∧ b = b' := by
  intro a
  induction a with
  | nil =>
    intro a' b b' h hb hb'
    cases a' with
    | nil => simp at h; exact ⟨rfl, h⟩
    | cons x t =>
      simp only [List.nil_append, List.cons_append, List.cons.injEq] at h
      obtain ⟨rfl, h2⟩ := h
      exfalso; apply hb; rw [h2]; simp
  | cons y s ih =>
    intro a' b b' h hb hb'
    cases a' with
    | nil =>
      simp only [List.nil_append, List.cons_append, List.cons.injEq] at h
      obtain ⟨rfl, h2⟩ := h
      exfalso; apply hb'; rw [← h2]; simp
    | cons x t =>
      simp only [List.cons_append, List.cons.injEq] at h
      obtain ⟨rfl, h2⟩ := h
      obtain ⟨e1, e2⟩ := ih h2 hb hb'
      exact ⟨by rw [e1], e2⟩

theorem last_split {α} [DecidableEq α] {u : α} : ∀ {l : List α}, u ∈ l → ∃ a b, l = a ++ u :: b ∧ u ∉ b := by
  intro l
  induction l with
  | nil => intro h; cases h
  | cons x t ih =>
    intro h
    by_cases ht : u ∈ t
    · obtain ⟨a, b, e, hb⟩ := ih ht
      exact ⟨x :: a, b, by rw [e]; rfl, hb⟩
    · rcases List.mem_cons.mp h with rfl | h
      · exact ⟨[], t, rfl, ht⟩
      · exact absurd h ht

theorem getLast?_split {α} {l : List α} {x : α} (h : l.getLast? = some x) : l = l.dropLast ++ [x] := by
  obtain ⟨ys, rfl⟩ := List.getLast?_eq_some_iff.mp h
  simp

theorem getLast?_after {α} {a : List α} {u : α} {b : List α} (hb : b ≠ []) :
    (a ++ u :: b).getLast? = b.getLast? := by
  cases b with
  | nil => exact absurd rfl hb
  | cons y t =>
    rw [List.getLast?_append, List.getLast?_cons_cons]
    cases h : (y :: t).getLast? with
    | none => simp at h
    | some z => rfl

theorem mem_after_of_last {α} {a : List α} {u cur : α} {b : List α}
    (h : (a ++ u :: b).getLast? = some cur) (hne : u ≠ cur) : cur ∈ b := by
  cases b with
  | nil => simp at h; exact absurd h hne
  | cons y t =>
    rw [getLast?_after (by simp)] at h
    exact List.mem_of_getLast? h

theorem split_dropLast {α} {q pre post : List α} {u cur : α} (e : q = pre ++ u :: post)
    (hpost : post = post.dropLast ++ [cur]) : q.dropLast = pre ++ u :: post.dropLast := by
  have : q = (pre ++ u :: post.dropLast) ++ [cur] := by
    rw [e]; conv => lhs; rw [hpost]
    simp
  rw [this, List.dropLast_concat]

structure PInv (next : Label → List Label) (r : Label → Nat) (s : TrSt) : Prop where
  /-- everything above the (last occurrence of an) entered gate is a strict descendant -/
  above : ∀ pre u post, s.queue = pre ++ u :: post → u ∉ post → s.st u = .ent → ∀ x ∈ post, r x < r u
  /-- unvisited successors of an entered gate wait above it -/
  pending : ∀ u, s.st u = .ent → ∀ x ∈ next u, s.st x = .unv →
    ∃ pre post, s.queue = pre ++ u :: post ∧ u ∉ post ∧ x ∈ post
  /-- the exits so far are a post-order -/
  post : ∀ e1 l e2, exits s.log = e1 ++ l :: e2 → ∀ x ∈ next l, x ∈ e1

theorem exits_enter_evs (cur : Label) (ch : List Label) (f : Label → TState) :
    exits ([Ev.enter cur] ++ ch.map (fun x => Ev.discover x (f x)) ++ [Ev.yield cur]) = [] := by
  rw [exits_append, exits_append, exits_discover]; rfl

theorem trStep_pinv {c : Circuit} {ab : Bool} {next : Label → List Label} {r : Label → Nat}
    {s s' : TrSt} (hr : ∀ l ∈ s.queue, ∀ x ∈ next l, r x < r l)
    (dinv : DInv s) (inv : PInv next r s) (hs : trStep c false ab next s = .next s') : PInv next r s' := by
  unfold trStep at hs
  simp only [Bool.false_eq_true, if_false] at hs
  cases htop : s.queue.getLast? with
  | none => simp [htop] at hs
  | some cur =>
    have hq : s.queue = s.queue.dropLast ++ [cur] := getLast?_split htop
    have hr := hr cur (List.mem_of_getLast? htop)
    simp only [htop] at hs
    split at hs
    · cases hs
    · cases hst : s.st cur with
      | unv =>
        simp only [hst] at hs
        split at hs
        · cases hs
        · simp only [StepRes.next.injEq] at hs
          subst hs
          have hpushed : ∀ x ∈ (next cur).filter (fun x => setSt s.st cur .ent x = .unv), x ∈ next cur ∧ x ≠ cur ∧ s.st x = .unv := by
            intro x hx
            obtain ⟨h1, h2⟩ := List.mem_filter.mp hx
            have h2' : setSt s.st cur .ent x = .unv := by simpa using h2
            have hxc : x ≠ cur := by intro e; subst e; simp [setSt] at h2'
            refine ⟨h1, hxc, ?_⟩
            simpa [setSt, hxc] using h2'
          refine ⟨?_, ?_, ?_⟩
          · intro pre u post hsplit hup hu x hx
            simp only at hsplit hu
            by_cases huc : u = cur
            · subst huc
              -- the last occurrence of `cur` is where the old queue ended
              have hcp : u ∉ (next u).filter (fun x => setSt s.st u .ent x = .unv) := fun h => (hpushed u h).2.1 rfl
              have e : s.queue.dropLast ++ u :: (next u).filter (fun x => setSt s.st u .ent x = .unv) = pre ++ u :: post := by
                rw [← hsplit]; conv => rhs; rw [hq]; simp
              obtain ⟨_, e2⟩ := last_occ_unique e hcp hup
              rw [← e2] at hx
              exact hr x (hpushed x hx).1
            · have hu' : s.st u = .ent := by simpa [setSt, huc] using hu
              -- `u` is not among the pushed (they are unvisited), so the split is inside the old queue
              have hunp : u ∉ (next cur).filter (fun x => setSt s.st cur .ent x = .unv) := by
                intro h; have := (hpushed u h).2.2; rw [hu'] at this; cases this
              obtain ⟨a, b, eab, hub⟩ := last_split (dinv.entQ u hu')
              have e : a ++ u :: (b ++ (next cur).filter (fun x => setSt s.st cur .ent x = .unv)) = pre ++ u :: post := by
                rw [← hsplit, eab]; simp
              have hnot : u ∉ b ++ (next cur).filter (fun x => setSt s.st cur .ent x = .unv) := by
                intro h; rcases List.mem_append.mp h with h | h
                · exact hub h
                · exact hunp h
              obtain ⟨_, e2⟩ := last_occ_unique e hnot hup
              rw [← e2] at hx
              have hold := inv.above a u b eab hub hu'
              -- `cur` is above `u`
              have hcb : cur ∈ b := mem_after_of_last (by rw [← eab]; exact htop) huc
              rcases List.mem_append.mp hx with hx | hx
              · exact hold x hx
              · exact Nat.lt_trans (hr x (hpushed x hx).1) (hold cur hcb)
          · intro u hu x hx hxu
            simp only at hu hxu ⊢
            have hxc : x ≠ cur := by intro e; subst e; simp [setSt] at hxu
            have hxu' : s.st x = .unv := by simpa [setSt, hxc] using hxu
            by_cases huc : u = cur
            · subst huc
              refine ⟨s.queue.dropLast, (next u).filter (fun x => setSt s.st u .ent x = .unv), ?_, ?_, ?_⟩
              · conv => lhs; rw [hq]; simp
              · exact fun h => (hpushed u h).2.1 rfl
              · exact List.mem_filter.mpr ⟨hx, by simpa using hxu⟩
            · have hu' : s.st u = .ent := by simpa [setSt, huc] using hu
              obtain ⟨pre, post, e, hup, hxp⟩ := inv.pending u hu' x hx hxu'
              refine ⟨pre, post ++ (next cur).filter (fun x => setSt s.st cur .ent x = .unv), by rw [e]; simp, ?_, by simp [hxp]⟩
              intro h; rcases List.mem_append.mp h with h | h
              · exact hup h
              · have := (hpushed u h).2.2; rw [hu'] at this; cases this
          · intro e1 l e2 he
            simp only at he
            rw [exits_append, exits_enter_evs, List.append_nil] at he
            exact inv.post e1 l e2 he
      | ent =>
        simp only [hst, StepRes.next.injEq] at hs
        subst hs
        -- all successors of `cur` are visited
        have hch : ∀ x ∈ next cur, s.st x = .vis := by
          intro x hx
          cases hsx : s.st x with
          | vis => rfl
          | unv =>
            exfalso
            obtain ⟨pre, post, e, hup, hxp⟩ := inv.pending cur hst x hx hsx
            have e' : s.queue.dropLast ++ cur :: [] = pre ++ cur :: post := by rw [← e]; exact hq.symm
            obtain ⟨_, e2⟩ := last_occ_unique e' (by simp) hup
            rw [← e2] at hxp; cases hxp
          | ent =>
            exfalso
            have hxc : x ≠ cur := by intro e; subst e; exact Nat.lt_irrefl _ (hr x hx)
            obtain ⟨a, b, eab, hxb⟩ := last_split (dinv.entQ x hsx)
            have hcb : cur ∈ b := mem_after_of_last (by rw [← eab]; exact htop) hxc
            have := inv.above a x b eab hxb hsx cur hcb
            exact Nat.lt_irrefl _ (Nat.lt_trans this (hr x hx))
        refine ⟨?_, ?_, ?_⟩
        · intro pre u post hsplit hup hu x hx
          simp only at hsplit hu
          have huc : u ≠ cur := by intro e; subst e; simp [setSt] at hu
          have hu' : s.st u = .ent := by simpa [setSt, huc] using hu
          have e : s.queue = pre ++ u :: (post ++ [cur]) := by rw [hq, hsplit]; simp
          exact inv.above pre u (post ++ [cur]) e (by simp [hup, huc]) hu' x (by simp [hx])
        · intro u hu x hx hxu
          simp only at hu hxu ⊢
          have huc : u ≠ cur := by intro e; subst e; simp [setSt] at hu
          have hu' : s.st u = .ent := by simpa [setSt, huc] using hu
          have hxc : x ≠ cur := by intro e; subst e; simp [setSt] at hxu
          have hxu' : s.st x = .unv := by simpa [setSt, hxc] using hxu
          obtain ⟨pre, post, e, hup, hxp⟩ := inv.pending u hu' x hx hxu'
          -- `post` ends with `cur`
          have hpost : post = post.dropLast ++ [cur] := by
            cases hp : post with
            | nil => rw [hp] at hxp; cases hxp
            | cons y t =>
              have : (pre ++ u :: y :: t).getLast? = some cur := by rw [← hp, ← e]; exact htop
              rw [getLast?_after (by simp)] at this
              exact getLast?_split this
          refine ⟨pre, post.dropLast, ?_, fun h => hup (List.dropLast_subset _ h), ?_⟩
          · exact split_dropLast e hpost
          · rw [hpost] at hxp
            rcases List.mem_append.mp hxp with h | h
            · exact h
            · simp only [List.mem_singleton] at h; exact absurd h hxc
        · intro e1 l e2 he
          simp only at he
          rw [exits_append] at he
          have e1' : exits [Ev.exit cur] = [cur] := rfl
          rw [e1'] at he
          -- either an old exit, or `cur` itself at the end
          by_cases hl2 : e2 = []
          · subst hl2
            have : exits s.log = e1 ∧ cur = l := by
              have := List.append_inj' he (by simp)
              exact ⟨this.1, by simpa using this.2⟩
            obtain ⟨h1, rfl⟩ := this
            intro x hx
            rw [← h1]
            exact (dinv.exitVis x).mpr (hch x hx)
          · obtain ⟨e2', rfl⟩ : ∃ e2', e2 = e2' ++ [cur] := by
              have hlast : e2.getLast? = some cur := by
                have : (e1 ++ l :: e2).getLast? = some cur := by rw [← he]; simp
                rw [getLast?_after hl2] at this
                exact this
              exact ⟨e2.dropLast, getLast?_split hlast⟩
            have : exits s.log = e1 ++ l :: e2' := by
              have h' : exits s.log ++ [cur] = (e1 ++ l :: e2') ++ [cur] := by rw [he]; simp
              exact List.append_cancel_right h'
            exact inv.post e1 l e2' this
      | vis =>
        simp only [hst, StepRes.next.injEq] at hs
        subst hs
        refine ⟨?_, ?_, inv.post⟩
        · intro pre u post hsplit hup hu x hx
          simp only at hsplit hu
          have huc : u ≠ cur := by intro e; subst e; rw [hst] at hu; cases hu
          have e : s.queue = pre ++ u :: (post ++ [cur]) := by rw [hq, hsplit]; simp
          exact inv.above pre u (post ++ [cur]) e (by simp [hup, huc]) hu x (by simp [hx])
        · intro u hu x hx hxu
          simp only at hu hxu ⊢
          have hxc : x ≠ cur := by intro e; subst e; rw [hst] at hxu; cases hxu
          obtain ⟨pre, post, e, hup, hxp⟩ := inv.pending u hu x hx hxu
          have hpost : post = post.dropLast ++ [cur] := by
            cases hp : post with
            | nil => rw [hp] at hxp; cases hxp
            | cons y t =>
              have : (pre ++ u :: y :: t).getLast? = some cur := by rw [← hp, ← e]; exact htop
              rw [getLast?_after (by simp)] at this
              exact getLast?_split this
          refine ⟨pre, post.dropLast, ?_, fun h => hup (List.dropLast_subset _ h), ?_⟩
          · exact split_dropLast e hpost
          · rw [hpost] at hxp
            rcases List.mem_append.mp hxp with h | h
            · exact h
            · simp only [List.mem_singleton] at h; exact absurd h hxc

theorem trLoop_pinv {c : Circuit} {ab : Bool} {next : Label → List Label} {start : List Label} {r : Label → Nat}
    (hr : ∀ l, Reach next start l → ∀ x ∈ next l, r x < r l) :
    ∀ fuel (s s' : TrSt), TInv next start s → DInv s → PInv next r s →
      trLoop c false ab next fuel s = .ok s' → PInv next r s'
  | 0, s, s', _, _, _, h => by simp [trLoop] at h
  | fuel+1, s, s', tinv, dinv, inv, h => by
    unfold trLoop at h
    cases hs : trStep c false ab next s with
    | finished => simp only [hs, Except.ok.injEq] at h; subst h; exact inv
    | error e => simp [hs] at h
    | next s1 =>
      simp only [hs] at h
      exact trLoop_pinv hr fuel s1 s' (trStep_inv tinv hs) (trStep_dinv dinv hs)
        (trStep_pinv (fun l hl => hr l (tinv.reachQ l hl)) dinv inv hs) h

theorem tinv_init (next : Label → List Label) (q0 : List Label) : TInv next q0 ⟨q0, fun _ => .unv, []⟩ :=
  ⟨by intro l hl; exact absurd rfl hl, fun l hl => .base hl, by intro u hu; exact absurd rfl hu,
    fun l hl => Or.inr hl, by intro l; simp [yields], by simp [yields]⟩

/-- **DFS exits are a post-order**: on an acyclic successor relation (one with a rank that strictly
decreases along it), whenever the depth-first traversal returns, every gate is handed to the exit hook
after all of its successors -/
theorem dfs_postorder {c : Circuit} (inverse : Bool) (start : Option (List Label)) (tsu ab : Bool)
    {r : Label → Nat}
    (hr : ∀ l, Reach (if inverse then c.usersOf else c.opsOf) (start.getD (if inverse then c.inputs else c.outputs)) l →
      ∀ x ∈ (if inverse then c.usersOf else c.opsOf) l, r x < r l)
    {log : List Ev} (h : traverse c false inverse start tsu ab = .ok log) :
    ∀ e1 l e2, exits log = e1 ++ l :: e2 → ∀ x ∈ (if inverse then c.usersOf else c.opsOf) l, x ∈ e1 := by
  unfold traverse at h
  split at h
  · simp only [Except.ok.injEq] at h; subst h
    intro e1 l e2 he; simp [exits] at he
  · simp only at h
    cases hl : trLoop c false ab (if inverse then c.usersOf else c.opsOf)
        (2 * ((start.getD (if inverse then c.inputs else c.outputs)).length + c.gates.length
          + totalDeg c (if inverse then c.usersOf else c.opsOf)) + 2)
        ⟨start.getD (if inverse then c.inputs else c.outputs), fun _ => .unv, []⟩ with
    | error e => simp [hl] at h
    | ok s =>
      simp only [hl] at h
      have dinv0 : DInv ⟨start.getD (if inverse then c.inputs else c.outputs), fun _ => .unv, []⟩ :=
        ⟨fun l hl => (by cases hl), fun l => (by simp [exits]), (by simp [exits])⟩
      have pinv0 : PInv (if inverse then c.usersOf else c.opsOf) r
          ⟨start.getD (if inverse then c.inputs else c.outputs), fun _ => .unv, []⟩ :=
        ⟨fun _ u _ _ _ hu => (by cases hu), fun u hu => (by cases hu),
         fun e1 l e2 he => (by simp [exits] at he)⟩
      have pinv := trLoop_pinv hr _ _ _ (tinv_init _ _) dinv0 pinv0 hl
      have hfin : ∀ (L : List Label) (lg : List Ev),
          lg = s.log ++ (L.filter (fun l => s.st l = .unv)).map Ev.unvisited ++ [Ev.done] →
          ∀ e1 l e2, exits lg = e1 ++ l :: e2 → ∀ x ∈ (if inverse then c.usersOf else c.opsOf) l, x ∈ e1 := by
        intro L lg hlg e1 l e2 he
        subst hlg
        rw [exits_tail] at he
        exact pinv.post e1 l e2 he
      cases tsu
      · simp only [Bool.false_eq_true, if_false, Except.ok.injEq] at h
        exact hfin c.labels log h.symm
      · simp only [if_true] at h
        cases hts : c.topSort true with
        | cyclic => simp [hts] at h
        | ok order =>
          simp only [hts, Except.ok.injEq] at h
          exact hfin order log h.symm

/-- on a circuit with distinct labels and a rank on gates, the operand relation has a global rank -/
theorem opsOf_rank {c : Circuit} (hnd : c.labels.Nodup)
    (hrank : ∃ r : Label → Nat, ∀ g ∈ c.gates, ∀ o ∈ g.ops, r o < r g.label) :
    ∃ r : Label → Nat, ∀ l, ∀ x ∈ c.opsOf l, r x < r l := by
  obtain ⟨r, hr⟩ := hrank
  refine ⟨r, ?_⟩
  intro l x hx
  by_cases hl : l ∈ c.labels
  · obtain ⟨g, hg, hgl⟩ : ∃ g ∈ c.gates, g.label = l := by simpa [Circuit.labels] using hl
    rw [← hgl, opsOf_gate hnd hg] at hx
    rw [← hgl]; exact hr g hg x hx
  · rw [opsOf_not_mem hl] at hx; cases hx

/-- DFS from the outputs towards the inputs on a well-formed circuit: each gate exits after all of
its operands -/
theorem dfs_operands_first {c : Circuit} (hnd : c.labels.Nodup)
    (hrank : ∃ r : Label → Nat, ∀ g ∈ c.gates, ∀ o ∈ g.ops, r o < r g.label)
    (start : Option (List Label)) (tsu ab : Bool) {log : List Ev}
    (h : traverse c false false start tsu ab = .ok log) :
    ∀ e1 l e2, exits log = e1 ++ l :: e2 → ∀ x ∈ c.opsOf l, x ∈ e1 := by
  obtain ⟨r, hr⟩ := opsOf_rank hnd hrank
  have := dfs_postorder (c := c) false start tsu ab (r := r) (by intro l _; simpa using hr l) h
  simpa using this

/-- the users relation of a well-formed circuit has a rank too -/
theorem usersOf_rank {c : Circuit} (h : WFU c) : ∃ r : Label → Nat, ∀ l, ∀ x ∈ c.usersOf l, r x < r l := by
  obtain ⟨r, hr⟩ := h.rank
  refine ⟨fun l => (c.labels.map r).sum - r l, ?_⟩
  intro l x hx
  have hxl : x ∈ c.labels := h.usersL l x hx
  obtain ⟨g, hg, hgl⟩ : ∃ g ∈ c.gates, g.label = x := by simpa [Circuit.labels] using hxl
  have hc := h.usersC l g hg
  have hpos : 0 < (c.usersOf l).count g.label := by rw [hgl]; exact List.count_pos_iff.mpr hx
  have hlo : l ∈ g.ops := List.count_pos_iff.mp (by omega)
  have hlt := hr g hg l hlo
  rw [hgl] at hlt
  have hb : r x ≤ (c.labels.map r).sum := le_sum_of_mem r c.labels x hxl
  simp only
  omega

/-- DFS from the inputs towards the outputs (`inverse=True`) on a well-formed circuit: each gate exits
after all of its users -/
theorem dfs_users_first {c : Circuit} (hw : WFU c)
    (start : Option (List Label)) (tsu ab : Bool) {log : List Ev}
    (h : traverse c false true start tsu ab = .ok log) :
    ∀ e1 l e2, exits log = e1 ++ l :: e2 → ∀ x ∈ c.usersOf l, x ∈ e1 := by
  obtain ⟨r, hr⟩ := usersOf_rank hw
  have := dfs_postorder (c := c) true start tsu ab (r := r) (by intro l _; simpa using hr l) h
  simpa using this

/-! ## enter before exit -/

structure EnInv (s : TrSt) : Prop where
  entered : ∀ l, s.st l ≠ .unv → Ev.enter l ∈ s.log
  before : ∀ pre l post, s.log = pre ++ Ev.exit l :: post → Ev.enter l ∈ pre

theorem split_append_no_exit {log evs pre post : List Ev} {l : Label}
    (hno : Ev.exit l ∉ evs) (h : log ++ evs = pre ++ Ev.exit l :: post) :
    ∃ post', log = pre ++ Ev.exit l :: post' := by
  rcases List.append_eq_append_iff.mp h with ⟨a, ha, hb⟩ | ⟨a, ha, hb⟩
  · -- pre = log ++ a
    cases a with
    | nil => simp at ha hb; exfalso; apply hno; rw [hb]; simp
    | cons x t =>
      exfalso; apply hno; rw [hb]; simp
  · cases a with
    | nil =>
      simp only [List.nil_append] at hb
      exfalso; apply hno; rw [← hb]; simp
    | cons x t =>
      simp only [List.cons_append, List.cons.injEq] at hb
      obtain ⟨rfl, hb2⟩ := hb
      exact ⟨t, by rw [ha]⟩

theorem trStep_eninv {c : Circuit} {ab : Bool} {next : Label → List Label} {s s' : TrSt}
    (inv : EnInv s) (hs : trStep c false ab next s = .next s') : EnInv s' := by
  unfold trStep at hs
  simp only [Bool.false_eq_true, if_false] at hs
  cases htop : s.queue.getLast? with
  | none => simp [htop] at hs
  | some cur =>
    simp only [htop] at hs
    split at hs
    · cases hs
    · cases hst : s.st cur with
      | unv =>
        simp only [hst] at hs
        split at hs
        · cases hs
        · simp only [StepRes.next.injEq] at hs
          subst hs
          constructor
          · intro l hl
            simp only at hl ⊢
            by_cases e : l = cur
            · subst e; simp
            · have : s.st l ≠ .unv := by simpa [setSt, e] using hl
              exact List.mem_append_left _ (inv.entered l this)
          · intro pre l post h
            simp only at h
            have hno : Ev.exit l ∉ [Ev.enter cur] ++ (next cur).map (fun x => Ev.discover x (setSt s.st cur .ent x)) ++ [Ev.yield cur] := by
              simp
            obtain ⟨post', hp⟩ := split_append_no_exit hno h
            exact inv.before pre l post' hp
      | ent =>
        simp only [hst, StepRes.next.injEq] at hs
        subst hs
        constructor
        · intro l hl
          simp only at hl ⊢
          by_cases e : l = cur
          · subst e; exact List.mem_append_left _ (inv.entered l (by rw [hst]; simp))
          · have : s.st l ≠ .unv := by simpa [setSt, e] using hl
            exact List.mem_append_left _ (inv.entered l this)
        · intro pre l post h
          simp only at h
          rcases List.append_eq_append_iff.mp h with ⟨a, ha, hb⟩ | ⟨a, ha, hb⟩
          · cases a with
            | nil =>
              simp only [List.nil_append, List.cons.injEq, Ev.exit.injEq] at hb
              simp only [List.append_nil] at ha
              rw [ha, ← hb.1]
              exact inv.entered cur (by rw [hst]; simp)
            | cons x t =>
              simp only [List.cons_append, List.cons.injEq] at hb
              have := hb.2
              simp at this
          · cases a with
            | nil =>
              simp only [List.nil_append, List.cons.injEq, Ev.exit.injEq] at hb
              simp only [List.append_nil] at ha
              rw [← ha, hb.1]
              exact inv.entered cur (by rw [hst]; simp)
            | cons x t =>
              simp only [List.cons_append, List.cons.injEq] at hb
              obtain ⟨rfl, _⟩ := hb
              exact inv.before pre l t (by rw [ha])
      | vis =>
        simp only [hst, StepRes.next.injEq] at hs
        subst hs
        exact ⟨inv.entered, inv.before⟩

theorem trLoop_eninv {c : Circuit} {ab : Bool} {next : Label → List Label} :
    ∀ fuel (s s' : TrSt), EnInv s → trLoop c false ab next fuel s = .ok s' → EnInv s'
  | 0, s, s', _, h => by simp [trLoop] at h
  | fuel+1, s, s', inv, h => by
    unfold trLoop at h
    cases hs : trStep c false ab next s with
    | finished => simp only [hs, Except.ok.injEq] at h; subst h; exact inv
    | error e => simp [hs] at h
    | next s1 => simp only [hs] at h; exact trLoop_eninv fuel s1 s' (trStep_eninv inv hs) h

/-- **enter before exit**: in the hook log of a depth-first traversal every exit of a gate is preceded
by its enter -/
theorem dfs_enter_before_exit {c : Circuit} (inverse : Bool) (start : Option (List Label)) (tsu ab : Bool)
    {log : List Ev} (h : traverse c false inverse start tsu ab = .ok log) :
    ∀ pre l post, log = pre ++ Ev.exit l :: post → Ev.enter l ∈ pre := by
  unfold traverse at h
  split at h
  · simp only [Except.ok.injEq] at h; subst h
    intro pre l post he; simp at he
  · simp only at h
    cases hl : trLoop c false ab (if inverse then c.usersOf else c.opsOf)
        (2 * ((start.getD (if inverse then c.inputs else c.outputs)).length + c.gates.length
          + totalDeg c (if inverse then c.usersOf else c.opsOf)) + 2)
        ⟨start.getD (if inverse then c.inputs else c.outputs), fun _ => .unv, []⟩ with
    | error e => simp [hl] at h
    | ok s =>
      simp only [hl] at h
      have inv := trLoop_eninv _ _ _ ⟨fun l hl => absurd rfl hl, fun pre l post he => (by simp at he)⟩ hl
      have hfin : ∀ (L : List Label) (lg : List Ev),
          lg = s.log ++ (L.filter (fun l => s.st l = .unv)).map Ev.unvisited ++ [Ev.done] →
          ∀ pre l post, lg = pre ++ Ev.exit l :: post → Ev.enter l ∈ pre := by
        intro L lg hlg pre l post he
        subst hlg
        rw [List.append_assoc] at he
        have hno : Ev.exit l ∉ (L.filter (fun l => s.st l = .unv)).map Ev.unvisited ++ [Ev.done] := by simp
        obtain ⟨post', hp⟩ := split_append_no_exit hno he
        exact inv.before pre l post' hp
      cases tsu
      · simp only [Bool.false_eq_true, if_false, Except.ok.injEq] at h
        exact hfin c.labels log h.symm
      · simp only [if_true] at h
        cases hts : c.topSort true with
        | cyclic => simp [hts] at h
        | ok order =>
          simp only [hts, Except.ok.injEq] at h
          exact hfin order log h.symm

end Cirbo
