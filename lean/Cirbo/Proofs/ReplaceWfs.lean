import Cirbo.Proofs.ReplaceB
namespace Cirbo
open GateType Circuit

theorem makeBlockFromSlice_fields {c c' : Circuit} {name : Label} {ins outs : List Label}
    (h : c.makeBlockFromSlice name ins outs = .ok c') :
    ∃ gs, c' = { c with blocks := c.blocks ++ [⟨name, ins, gs, outs⟩] } ∧
      c.blocks.any (fun b => b.name == name) = false ∧ ∀ o ∈ outs, ins.contains o = false → o ∈ gs := by
  unfold makeBlockFromSlice at h
  split at h
  · cases h
  · rename_i hnb
    split at h
    · cases h
    · split at h
      · cases h
      · simp only at h
        split at h
        · cases h
        · rename_i gs hsl
          refine ⟨gs, ?_, by simpa using hnb, ?_⟩
          · unfold makeBlock at h
            split at h
            · cases h
            · split at h
              · cases h
              · split at h
                · cases h
                · simp only at h
                  split at h
                  · cases h
                  · simp only [Except.ok.injEq] at h; exact h.symm
          · intro o ho hoi
            apply sliceLoop_mono _ _ _ _ _ _ hsl
            rw [List.mem_reverse, mem_dedup, List.mem_filter]
            exact ⟨ho, by simpa using hoi⟩

theorem find?_append_last {α} (p : α → Bool) (l : List α) (x : α) (h : l.any p = false) (hx : p x = true) :
    (l ++ [x]).find? p = some x := by
  rw [List.find?_append]
  have : l.find? p = none := by
    rw [List.find?_eq_none]
    intro y hy
    have := List.any_eq_false.mp h y hy
    simpa using this
  simp [this, hx]

theorem checkGatesExist_mem {c : Circuit} {ls : List Label} {u : Unit} (h : c.checkGatesExist ls = .ok u) :
    ∀ l ∈ ls, l ∈ c.labels := by
  unfold checkGatesExist at h
  split at h
  · rename_i hall
    intro l hl
    exact (hasGate_iff' c l).mp (List.all_eq_true.mp hall l hl)
  · cases h

/-- **`replace_subcircuit`** keeps the C02 invariant: for well-formed `c` and `sub` and mappings
with distinct keys (Python dicts), whenever the call returns the result is well formed -/
theorem replaceSubcircuit_wfs {c sub c' : Circuit} {im om : List (Label × Label)} {ctr ctr' : Nat}
    (hw : WFS c) (hs : WFS sub) (hik : (im.map (·.1)).Nodup) (hok : (om.map (·.1)).Nodup)
    (h : c.replaceSubcircuit sub im om ctr = .ok (c', ctr')) : WFS c' := by
  unfold replaceSubcircuit at h
  simp only at h
  split at h
  · cases h
  · rename_i hdisj
    split at h
    · cases h
    · rename_i hcI
      split at h
      · cases h
      · rename_i hcO
        split at h
        · cases h
        · rename_i hcS
          split at h
          · cases h
          · split at h
            · cases h
            · split at h
              · cases h
              · rename_i hsubin
                split at h
                · cases h
                · rename_i c1 hren
                  split at h
                  · cases h
                  · rename_i c2 hmk
                    split at h
                    · cases h
                    · rename_i blk hfind
                      split at h
                      · cases h
                      · rename_i houtchk
                        split at h
                        · cases h
                        · split at h
                          · cases h
                          · rename_i hbno
                            split at h
                            · cases h
                            · rename_i c3 hrm
                              split at h
                              · cases h
                              · rename_i order hts
                                split at h
                                · cases h
                                · rename_i c4 hadd
                                  split at h
                                  · cases h
                                  · cases h
                                  · rename_i hcyc
                                    simp only [Except.ok.injEq, Prod.mk.injEq] at h
                                    obtain ⟨hc', _⟩ := h
                                    -- the renames
                                    have hren' : (im ++ om).foldl renStep (.ok c) = .ok c1 := by
                                      rw [List.foldl_append]; exact hren
                                    have hkeys : ((im ++ om).map (·.1)).Nodup := by
                                      rw [List.map_append, List.nodup_append]
                                      refine ⟨hik, hok, ?_⟩
                                      intro a ha b hb e
                                      subst e
                                      have := hdisj
                                      simp only [Bool.not_eq_true, List.any_eq_false] at this
                                      have h2 := this a ha
                                      have : a ∈ om.map (·.1) := hb
                                      rw [List.contains_eq_mem] at h2
                                      simp [this] at h2
                                    have hkin : ∀ k ∈ (im ++ om).map (·.1), k ∈ c.labels := by
                                      intro k hk
                                      rw [List.map_append, List.mem_append] at hk
                                      rcases hk with hk | hk
                                      · exact checkGatesExist_mem hcI k hk
                                      · exact checkGatesExist_mem hcO k hk
                                    obtain ⟨w1, vnd, _⟩ := renFold_spec (im ++ om) c c1 hw hkeys hkin hren'
                                    rw [List.map_append, List.nodup_append] at vnd
                                    obtain ⟨_, homvND, hdisjV⟩ := vnd
                                    -- the slice block
                                    obtain ⟨gs, hc2, hnb, hgs⟩ := makeBlockFromSlice_fields hmk
                                    have w2 := makeBlockFromSlice_wfs w1 hmk
                                    have hblk : blk = ⟨"block_for_deleting" ++ hex32 ctr, im.map (·.2), gs, om.map (·.2)⟩ := by
                                      rw [hc2] at hfind
                                      simp only at hfind
                                      rw [find?_append_last _ _ _ hnb (by simp)] at hfind
                                      exact (Option.some.inj hfind).symm
                                    have homvI : ∀ o ∈ om.map (·.2), (im.map (·.2)).contains o = false := by
                                      intro o ho
                                      cases hc : (im.map (·.2)).contains o with
                                      | false => rfl
                                      | true =>
                                        exfalso
                                        have hm : o ∈ im.map (·.2) := by simpa using hc
                                        exact hdisjV o hm o ho rfl
                                    have hSout : ∀ o ∈ om.map (·.2), o ∈ gs := fun o ho => hgs o ho (homvI o ho)
                                    -- removal
                                    have hrm' : gs.foldl rbStep (.ok c2) = .ok c3 := by
                                      unfold rawRemoveBlock at hrm
                                      rw [hfind, hblk] at hrm
                                      exact hrm
                                    have inv : RBInv c2 c3 gs := by
                                      have := rbFold_inv w2 gs [] c2 c3 (rbinv_init c2) hrm'
                                      simpa using this
                                    have hno : ∀ g ∈ gs, g ∈ om.map (·.2) ∨ ∀ u ∈ c2.usersOf g, u ∈ gs := by
                                      intro g hg
                                      have hb := hbno
                                      simp only [Bool.not_eq_true, Bool.not_eq_false'] at hb
                                      unfold blockHasNoUsers at hb
                                      rw [hblk] at hb
                                      have := List.all_eq_true.mp hb g hg
                                      simp only [Bool.or_eq_true, List.contains_eq_mem, decide_eq_true_eq,
                                        List.all_eq_true] at this
                                      exact this
                                    have houts : ∀ o ∈ c2.outputs, o ∈ gs → o ∈ om.map (·.2) := by
                                      intro o ho hog
                                      have := houtchk
                                      simp only [Bool.not_eq_true, List.any_eq_false] at this
                                      have := this o ho
                                      rw [hblk] at this
                                      simp only [List.contains_eq_mem] at this
                                      cases hm : decide (o ∈ om.map (·.2)) with
                                      | true => simpa using hm
                                      | false => simp [hog, hm] at this
                                    -- the replacement's gates
                                    obtain ⟨order', ho1, hperm, _⟩ := topSort_inv_spec
                                      (⟨hs.nodup, hs.closed, hs.rank, hs.usersL, hs.usersC⟩ : WFG sub)
                                    have hoe : order' = order := by
                                      rw [hts] at ho1; cases ho1; rfl
                                    subst hoe
                                    have hsubO : ∀ o ∈ om.map (·.2), o ∈ order' :=
                                      fun o ho => hperm.mem_iff.mpr (checkGatesExist_mem hcS o ho)
                                    have hsubI : ∀ g ∈ sub.gates, g.ty = INPUT → (im.map (·.2)).contains g.label = true := by
                                      intro g hg hty
                                      have hin : g.label ∈ sub.inputs := (hs.inputsOK g.label).mpr ⟨g, hg, rfl, hty⟩
                                      have := hsubin
                                      simp only [Bool.not_eq_true, List.any_eq_false] at this
                                      have := this g.label hin
                                      simpa using this
                                    have hadd' : order'.foldl (addStepR sub (im.map (·.2))) (.ok c3) = .ok c4 := hadd
                                    have hcyc' := hcyc
                                    rw [hc'] at hcyc'
                                    refine replace_core w2 inv homvND hSout homvI hno houts hsubO hsubI hadd' ?_ hcyc'
                                    rw [← hc', hblk]
                                    rfl

end Cirbo
