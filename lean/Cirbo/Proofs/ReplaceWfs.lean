import Cirbo.Proofs.ReplaceB
namespace Cirbo
open GateType Circuit

theorem makeBlockFromSlice_fields {c c' : Circuit} {name : Label} {ins outs : List Label}
    (h : c.makeBlockFromSlice name ins outs = .ok c') :
    ∃ gs, c' = { c with blocks := c.blocks ++ [⟨name, ins, gs, outs⟩] } ∧
      c.blocks.any (fun b => b.name == name) = false ∧ (∀ o ∈ outs, ins.contains o = false → o ∈ gs) ∧
      (∀ x ∈ gs, x ∈ outs ∨ ∃ og, c.find? x = some og ∧ og.ty ≠ INPUT) := by
  unfold makeBlockFromSlice at h
  split at h
  · cases h
  · rename_i hnb
    split at h
    · cases h
    · split at h
      · cases h
      · simp only at h
        split at h
        · cases h
        · rename_i gs hsl
          refine ⟨gs, ?_, by simpa using hnb, ?_, ?_⟩
          · unfold makeBlock at h
            split at h
            · cases h
            · split at h
              · cases h
              · split at h
                · cases h
                · simp only at h
                  split at h
                  · cases h
                  · simp only [Except.ok.injEq] at h; exact h.symm
          · intro o ho hoi
            apply sliceLoop_mono _ _ _ _ _ _ hsl
            rw [List.mem_reverse, mem_dedup, List.mem_filter]
            exact ⟨ho, by simpa using hoi⟩
          · intro x hx
            rcases sliceLoop_ni _ _ _ _ _ _ hsl x hx with h1 | h1
            · rw [List.mem_reverse, mem_dedup, List.mem_filter] at h1
              exact Or.inl h1.1
            · exact Or.inr h1

theorem find?_append_last {α} (p : α → Bool) (l : List α) (x : α) (h : l.any p = false) (hx : p x = true) :
    (l ++ [x]).find? p = some x := by
  rw [List.find?_append]
  have : l.find? p = none := by
    rw [List.find?_eq_none]
    intro y hy
    have := List.any_eq_false.mp h y hy
    simpa using this
  simp [this, hx]

theorem checkGatesExist_mem {c : Circuit} {ls : List Label} {u : Unit} (h : c.checkGatesExist ls = .ok u) :
    ∀ l ∈ ls, l ∈ c.labels := by
  unfold checkGatesExist at h
  split at h
  · rename_i hall
    intro l hl
    exact (hasGate_iff' c l).mp (List.all_eq_true.mp hall l hl)
  · cases h

/-- everything a successful `replace_subcircuit` call went through -/
structure RSFacts (c sub : Circuit) (im om : List (Label × Label)) (ctr : Nat) (c' c1 c2 c3 c4 : Circuit)
    (gs order : List Label) : Prop where
  ren : (im ++ om).foldl renStep (.ok c) = .ok c1
  keysND : ((im ++ om).map (·.1)).Nodup
  keysIn : ∀ k ∈ (im ++ om).map (·.1), k ∈ c.labels
  w1 : WFS c1
  w2 : WFS c2
  hc2 : c2 = { c1 with blocks := c1.blocks ++ [⟨"block_for_deleting" ++ hex32 ctr, im.map (·.2), gs, om.map (·.2)⟩] }
  sliceNI : ∀ x ∈ gs, x ∈ om.map (·.2) ∨ ∃ og, c1.find? x = some og ∧ og.ty ≠ INPUT
  inv : RBInv c2 c3 gs
  omvND : (om.map (·.2)).Nodup
  sOut : ∀ o ∈ om.map (·.2), o ∈ gs
  omvI : ∀ o ∈ om.map (·.2), (im.map (·.2)).contains o = false
  noUsers : ∀ g ∈ gs, g ∈ om.map (·.2) ∨ ∀ u ∈ c2.usersOf g, u ∈ gs
  outs : ∀ o ∈ c2.outputs, o ∈ gs → o ∈ om.map (·.2)
  perm : order.Perm sub.labels
  subO : ∀ o ∈ om.map (·.2), o ∈ order
  subI : ∀ g ∈ sub.gates, g.ty = INPUT → (im.map (·.2)).contains g.label = true
  imvIn : ∀ i ∈ im.map (·.2), ∃ g ∈ sub.gates, g.label = i ∧ g.ty = INPUT
  add : order.foldl (addStepR sub (im.map (·.2))) (.ok c3) = .ok c4
  hc6 : c' = ((om.map (·.2)).foldl (collectOuter c2 gs) []).foldl addUsersStep { c4 with outputs := c2.outputs }
  cyc : hasCycleCheckFrom c' (some c'.labels) = .ok false

theorem replaceSubcircuit_facts {c sub c' : Circuit} {im om : List (Label × Label)} {ctr ctr' : Nat}
    (hw : WFS c) (hs : WFS sub) (hik : (im.map (·.1)).Nodup) (hok : (om.map (·.1)).Nodup)
    (h : c.replaceSubcircuit sub im om ctr = .ok (c', ctr')) :
    ∃ c1 c2 c3 c4 gs order, RSFacts c sub im om ctr c' c1 c2 c3 c4 gs order := by
  unfold replaceSubcircuit at h
  simp only at h
  split at h
  · cases h
  · rename_i hdisj
    split at h
    · cases h
    · rename_i hcI
      split at h
      · cases h
      · rename_i hcO
        split at h
        · cases h
        · rename_i hcS
          split at h
          · cases h
          · split at h
            · cases h
            · split at h
              · cases h
              · rename_i himty hsubin
                split at h
                · cases h
                · rename_i c1 hren
                  split at h
                  · cases h
                  · rename_i c2 hmk
                    split at h
                    · cases h
                    · rename_i blk hfind
                      split at h
                      · cases h
                      · rename_i houtchk
                        split at h
                        · cases h
                        · split at h
                          · cases h
                          · rename_i hbno
                            split at h
                            · cases h
                            · rename_i c3 hrm
                              split at h
                              · cases h
                              · rename_i order hts
                                split at h
                                · cases h
                                · rename_i c4 hadd
                                  split at h
                                  · cases h
                                  · cases h
                                  · rename_i hcyc
                                    simp only [Except.ok.injEq, Prod.mk.injEq] at h
                                    obtain ⟨hc', _⟩ := h
                                    -- the renames
                                    have hren' : (im ++ om).foldl renStep (.ok c) = .ok c1 := by
                                      rw [List.foldl_append]; exact hren
                                    have hkeys : ((im ++ om).map (·.1)).Nodup := by
                                      rw [List.map_append, List.nodup_append]
                                      refine ⟨hik, hok, ?_⟩
                                      intro a ha b hb e
                                      subst e
                                      have := hdisj
                                      simp only [Bool.not_eq_true, List.any_eq_false] at this
                                      have h2 := this a ha
                                      have : a ∈ om.map (·.1) := hb
                                      rw [List.contains_eq_mem] at h2
                                      simp [this] at h2
                                    have hkin : ∀ k ∈ (im ++ om).map (·.1), k ∈ c.labels := by
                                      intro k hk
                                      rw [List.map_append, List.mem_append] at hk
                                      rcases hk with hk | hk
                                      · exact checkGatesExist_mem hcI k hk
                                      · exact checkGatesExist_mem hcO k hk
                                    obtain ⟨w1, vnd, _⟩ := renFold_spec (im ++ om) c c1 hw hkeys hkin hren'
                                    rw [List.map_append, List.nodup_append] at vnd
                                    obtain ⟨_, homvND, hdisjV⟩ := vnd
                                    -- the slice block
                                    obtain ⟨gs, hc2, hnb, hgs, hni⟩ := makeBlockFromSlice_fields hmk
                                    have w2 := makeBlockFromSlice_wfs w1 hmk
                                    have hblk : blk = ⟨"block_for_deleting" ++ hex32 ctr, im.map (·.2), gs, om.map (·.2)⟩ := by
                                      rw [hc2] at hfind
                                      simp only at hfind
                                      rw [find?_append_last _ _ _ hnb (by simp)] at hfind
                                      exact (Option.some.inj hfind).symm
                                    have homvI : ∀ o ∈ om.map (·.2), (im.map (·.2)).contains o = false := by
                                      intro o ho
                                      cases hc : (im.map (·.2)).contains o with
                                      | false => rfl
                                      | true =>
                                        exfalso
                                        have hm : o ∈ im.map (·.2) := by simpa using hc
                                        exact hdisjV o hm o ho rfl
                                    have hSout : ∀ o ∈ om.map (·.2), o ∈ gs := fun o ho => hgs o ho (homvI o ho)
                                    -- removal
                                    have hrm' : gs.foldl rbStep (.ok c2) = .ok c3 := by
                                      unfold rawRemoveBlock at hrm
                                      rw [hfind, hblk] at hrm
                                      exact hrm
                                    have inv : RBInv c2 c3 gs := by
                                      have := rbFold_inv w2 gs [] c2 c3 (rbinv_init c2) hrm'
                                      simpa using this
                                    have hno : ∀ g ∈ gs, g ∈ om.map (·.2) ∨ ∀ u ∈ c2.usersOf g, u ∈ gs := by
                                      intro g hg
                                      have hb := hbno
                                      simp only [Bool.not_eq_true, Bool.not_eq_false'] at hb
                                      unfold blockHasNoUsers at hb
                                      rw [hblk] at hb
                                      have := List.all_eq_true.mp hb g hg
                                      simp only [Bool.or_eq_true, List.contains_eq_mem, decide_eq_true_eq,
                                        List.all_eq_true] at this
                                      exact this
                                    have houts : ∀ o ∈ c2.outputs, o ∈ gs → o ∈ om.map (·.2) := by
                                      intro o ho hog
                                      have := houtchk
                                      simp only [Bool.not_eq_true, List.any_eq_false] at this
                                      have := this o ho
                                      rw [hblk] at this
                                      simp only [List.contains_eq_mem] at this
                                      cases hm : decide (o ∈ om.map (·.2)) with
                                      | true => simpa using hm
                                      | false => simp [hog, hm] at this
                                    -- the replacement's gates
                                    obtain ⟨order', ho1, hperm, _⟩ := topSort_inv_spec
                                      (⟨hs.nodup, hs.closed, hs.rank, hs.usersL, hs.usersC⟩ : WFG sub)
                                    have hoe : order' = order := by
                                      rw [hts] at ho1; cases ho1; rfl
                                    subst hoe
                                    have hsubO : ∀ o ∈ om.map (·.2), o ∈ order' :=
                                      fun o ho => hperm.mem_iff.mpr (checkGatesExist_mem hcS o ho)
                                    have hsubI : ∀ g ∈ sub.gates, g.ty = INPUT → (im.map (·.2)).contains g.label = true := by
                                      intro g hg hty
                                      have hin : g.label ∈ sub.inputs := (hs.inputsOK g.label).mpr ⟨g, hg, rfl, hty⟩
                                      have := hsubin
                                      simp only [Bool.not_eq_true, List.any_eq_false] at this
                                      have := this g.label hin
                                      simpa using this
                                    have hadd' : order'.foldl (addStepR sub (im.map (·.2))) (.ok c3) = .ok c4 := hadd
                                    have hcyc' := hcyc
                                    rw [hc'] at hcyc'
                                    have himv : ∀ i ∈ im.map (·.2), ∃ g ∈ sub.gates, g.label = i ∧ g.ty = INPUT := by
                                      intro i hi
                                      have h1 := himty
                                      simp only [Bool.not_eq_true, List.any_eq_false] at h1
                                      have h2 := h1 i hi
                                      cases hf : sub.find? i with
                                      | none => simp [hf] at h2
                                      | some g =>
                                        obtain ⟨hgm, hgl⟩ := find_some_mem hf
                                        refine ⟨g, hgm, hgl, ?_⟩
                                        simpa [hf] using h2
                                    exact ⟨c1, c2, c3, c4, gs, order', ⟨hren', hkeys, hkin, w1, w2, hc2, hni, inv, homvND,
                                      hSout, homvI, hno, houts, hperm, hsubO, hsubI, himv, hadd',
                                      (by rw [← hc', hblk]; rfl), hcyc'⟩⟩

/-- **`replace_subcircuit`** keeps the C02 invariant: for well-formed `c` and `sub` and mappings
with distinct keys (Python dicts), whenever the call returns the result is well formed -/
theorem replaceSubcircuit_wfs {c sub c' : Circuit} {im om : List (Label × Label)} {ctr ctr' : Nat}
    (hw : WFS c) (hs : WFS sub) (hik : (im.map (·.1)).Nodup) (hok : (om.map (·.1)).Nodup)
    (h : c.replaceSubcircuit sub im om ctr = .ok (c', ctr')) : WFS c' := by
  obtain ⟨c1, c2, c3, c4, gs, order, F⟩ := replaceSubcircuit_facts hw hs hik hok h
  exact replace_core F.w2 F.inv F.omvND F.sOut F.omvI F.noUsers F.outs F.subO F.subI F.add F.hc6 F.cyc

end Cirbo
