import Cirbo.Proofs.GenSum
/-!
# Which gate types a generator can emit (basis clause of C07)
-/
namespace Cirbo
open GateType

/-- every gate the program can add has a type in `S`, whatever labels are drawn -/
inductive Emits {α : Type} (S : GateType → Prop) : Prog α → Prop
  | pure (a : α) : Emits S (.pure a)
  | fresh (r k) : (∀ l, Emits S (k l)) → Emits S (.fresh r k)
  | add (g ok k) : S g.ty → Emits S k → Emits S (.add g ok k)
  | mark (l k) : Emits S k → Emits S (.mark l k)
  | fail (e) : Emits S (.fail e)

theorem emits_pure {α} {S} (a : α) : Emits S (Pure.pure a : Prog α) := .pure a

theorem emits_bind {α β} {S} {p : Prog α} {f : α → Prog β} (hp : Emits S p) (hf : ∀ a, Emits S (f a)) :
    Emits S (p >>= f) := by
  show Emits S (p.bind f)
  induction hp with
  | pure a => exact hf a
  | fresh r k _ ih => exact .fresh _ _ ih
  | add g ok k hs _ ih => exact .add _ _ _ hs ih
  | mark l k _ ih => exact .mark _ _ ih
  | fail e => exact .fail e

/-- **a run only appends gates whose types the program can emit** -/
theorem run_emits {α} {S} {p : Prog α} (hp : Emits S p) : ∀ {st : GSt} {a : α} {st' : GSt}, p.run st = .ok (a, st') →
    ∃ new, st'.c.gates = st.c.gates ++ new ∧ ∀ g ∈ new, S g.ty := by
  induction hp with
  | pure a => intro st a' st' h; simp only [Prog.run, Except.ok.injEq, Prod.mk.injEq] at h; obtain ⟨_, rfl⟩ := h; exact ⟨[], by simp, by simp⟩
  | fresh r k _ ih =>
    intro st a st' h
    simp only [Prog.run] at h
    split at h
    · cases h
    · have := ih _ h; exact this
  | add g ok k hs _ ih =>
    intro st a st' h
    simp only [Prog.run] at h
    split at h
    · cases h
    · rename_i c' hc
      obtain ⟨_, _, hg, _⟩ := addGate_fields hc
      obtain ⟨new, h1, h2⟩ := ih h
      refine ⟨g :: new, by rw [h1, hg]; simp, ?_⟩
      intro x hx
      rcases List.mem_cons.mp hx with rfl | hx
      · exact hs
      · exact h2 x hx
  | mark l k _ ih =>
    intro st a st' h
    simp only [Prog.run] at h
    split at h
    · cases h
    · rename_i c' hc
      obtain ⟨hg, _⟩ := markAsOutput_fields hc
      obtain ⟨new, h1, h2⟩ := ih h
      exact ⟨new, by rw [h1, hg], h2⟩
  | fail e => intro st a st' h; simp [Prog.run] at h

/-- AIG basis: anything but XOR / NXOR -/
def NoXor (ty : GateType) : Prop := ty ≠ XOR ∧ ty ≠ NXOR

theorem emits_emitTT {S : GateType → Prop} (x y : Label) (t : TT)
    (h : ∀ ty, Gen.ttType t.1 t.2.1 t.2.2.1 t.2.2.2 = some ty → S ty) : Emits S (emitTT x y t) := by
  unfold emitTT
  split
  · exact .fresh _ _ (fun _ => .fail _)
  · rename_i ty hty
    exact .fresh _ _ (fun l => .add _ _ _ (h ty hty) (.pure l))

theorem emits_or (x y) : Emits NoXor (emitTT x y t0111) :=
  emits_emitTT x y _ (by intro ty h; simp only [t0111, Gen.ttType, Option.some.injEq] at h; subst h; exact ⟨by decide, by decide⟩)
theorem emits_and (x y) : Emits NoXor (emitTT x y t0001) :=
  emits_emitTT x y _ (by intro ty h; simp only [t0001, Gen.ttType, Option.some.injEq] at h; subst h; exact ⟨by decide, by decide⟩)
theorem emits_gt (x y) : Emits NoXor (emitTT x y t0010) :=
  emits_emitTT x y _ (by intro ty h; simp only [t0010, Gen.ttType, Option.some.injEq] at h; subst h; exact ⟨by decide, by decide⟩)

theorem emits_addSum2Aig (ins) : Emits NoXor (addSum2Aig ins) := by
  unfold addSum2Aig
  split
  · exact emits_bind (emits_or _ _) fun _ => emits_bind (emits_and _ _) fun _ => emits_bind (emits_gt _ _) fun _ => emits_pure _
  · exact .fail _

theorem emits_addSum3Aig (ins) : Emits NoXor (addSum3Aig ins) := by
  unfold addSum3Aig
  split
  · exact emits_bind (emits_or _ _) fun _ => emits_bind (emits_and _ _) fun _ => emits_bind (emits_gt _ _) fun _ =>
      emits_bind (emits_or _ _) fun _ => emits_bind (emits_and _ _) fun _ => emits_bind (emits_gt _ _) fun _ =>
      emits_bind (emits_or _ _) fun _ => emits_pure _
  · exact .fail _

theorem emits_pair2 {S} (r) : Emits S (pair2 r) := by
  unfold pair2; split
  · exact emits_pure _
  · exact .fail _

theorem emits_firstOfRev {S} (r) : Emits S (firstOfRev r) := by
  unfold firstOfRev; split
  · exact emits_pure _
  · exact .fail _

theorem emits_reduce3 {S} {blk3} (hb : ∀ ins, Emits S (blk3 ins)) : ∀ fuel nowR next, Emits S (reduce3 blk3 fuel nowR next) := by
  intro fuel
  induction fuel with
  | zero => intro nowR next; unfold reduce3; exact emits_pure _
  | succ fuel ih =>
    intro nowR next
    rcases nowR with _ | ⟨a, _ | ⟨b, _ | ⟨c, rest⟩⟩⟩
    · simp only [reduce3]; exact emits_pure _
    · simp only [reduce3]; exact emits_pure _
    · simp only [reduce3]; exact emits_pure _
    · simp only [reduce3]
      exact emits_bind (hb _) fun _ => emits_bind (emits_pair2 _) fun _ => ih _ _

theorem emits_reduce2 {S} {blk2} (hb : ∀ ins, Emits S (blk2 ins)) (nowR next) : Emits S (reduce2 blk2 nowR next) := by
  rcases nowR with _ | ⟨a, _ | ⟨b, rest⟩⟩
  · simp only [reduce2]; exact emits_pure _
  · simp only [reduce2]; exact emits_pure _
  · simp only [reduce2]
    exact emits_bind (hb _) fun _ => emits_bind (emits_pair2 _) fun _ => emits_pure _

theorem emits_levelsSimple {S} {blk3 blk2} (h3 : ∀ ins, Emits S (blk3 ins)) (h2 : ∀ ins, Emits S (blk2 ins)) :
    ∀ fuel nowR res, Emits S (levelsSimple blk3 blk2 fuel nowR res) := by
  intro fuel
  induction fuel with
  | zero => intro nowR res; unfold levelsSimple; exact .fail _
  | succ fuel ih =>
    intro nowR res
    unfold levelsSimple
    split
    · exact emits_pure _
    · exact emits_bind (emits_reduce3 h3 _ _ _) fun _ => emits_bind (emits_reduce2 h2 _ _) fun _ =>
        emits_bind (emits_firstOfRev _) fun _ => ih _ _

/-- **`add_sum_n_bits` with the AIG basis, however it is spelled, adds no XOR/NXOR gate** -/
theorem emits_addSumNBits_aig {ins : List Label} {basis : BasisArg} {be : Bool} (hb : basis.resolve = .ok .aig) :
    Emits NoXor (addSumNBits ins basis be) := by
  unfold addSumNBits
  rw [hb]
  exact emits_bind (emits_levelsSimple emits_addSum3Aig emits_addSum2Aig _ _ _) fun _ => emits_pure _

theorem emits_wReduce3 {S} {blk3} (hb : ∀ ins, Emits S (blk3 ins)) (lvl) : ∀ fuel nowR single, Emits S (wReduce3 blk3 lvl fuel nowR single) := by
  intro fuel
  induction fuel with
  | zero => intro nowR single; unfold wReduce3; exact emits_pure _
  | succ fuel ih =>
    intro nowR single
    rcases nowR with _ | ⟨a, _ | ⟨b, _ | ⟨c, rest⟩⟩⟩
    · simp only [wReduce3]; exact emits_pure _
    · simp only [wReduce3]; exact emits_pure _
    · simp only [wReduce3]; exact emits_pure _
    · simp only [wReduce3]
      exact emits_bind (hb _) fun _ => emits_bind (emits_pair2 _) fun _ => ih _ _

theorem emits_wReduce2 {S} {blk2} (hb : ∀ ins, Emits S (blk2 ins)) (lvl nowR single) : Emits S (wReduce2 blk2 lvl nowR single) := by
  rcases nowR with _ | ⟨a, _ | ⟨b, _ | ⟨c, rest⟩⟩⟩
  · simp only [wReduce2]; exact emits_pure _
  · simp only [wReduce2]; exact emits_pure _
  · simp only [wReduce2]
    exact emits_bind (hb _) fun _ => emits_bind (emits_pair2 _) fun _ => emits_pure _
  · simp only [wReduce2]; exact emits_pure _

theorem emits_wSimpleLevel_aig (lvl nowS single) : Emits NoXor (wSimpleLevel .aig lvl nowS single) := by
  simp only [wSimpleLevel, wSimpleLevelWith]
  exact emits_bind (emits_wReduce3 emits_addSum3Aig _ _ _ _) fun _ => emits_bind (emits_wReduce2 emits_addSum2Aig _ _ _) fun _ =>
    emits_bind (emits_firstOfRev _) fun _ => emits_pure _

theorem emits_weightedNaiveLoop_aig (inf) : ∀ fuel single res, Emits NoXor (weightedNaiveLoop .aig inf fuel single res) := by
  intro fuel
  induction fuel with
  | zero => intro single res; unfold weightedNaiveLoop; exact .fail _
  | succ fuel ih =>
    intro single res
    unfold weightedNaiveLoop
    split
    · exact emits_pure _
    · simp only
      split
      · exact emits_pure _
      · exact emits_bind (emits_wSimpleLevel_aig _ _ _) fun _ => ih _ _

theorem emits_weightedLoop_aig (inf) : ∀ fuel single pairs res, Emits NoXor (weightedLoop .aig inf fuel single pairs res) := by
  intro fuel
  induction fuel with
  | zero => intro single pairs res; unfold weightedLoop; exact .fail _
  | succ fuel ih =>
    intro single pairs res
    unfold weightedLoop
    split
    · exact emits_pure _
    · simp only
      split
      · exact emits_pure _
      · exact emits_bind (emits_wSimpleLevel_aig _ _ _) fun _ => ih _ _ _

/-- **the weighted sums with the AIG basis (enum or any spelling of the string) add no XOR/NXOR** -/
theorem emits_addSumWeighted_aig {ins : List (Nat × Label)} {basis : BasisArg} (hb : basis.resolve = .ok .aig) :
    Emits NoXor (addSumWeighted ins basis) ∧ Emits NoXor (addSumWeightedNaive ins basis) := by
  unfold addSumWeighted addSumWeightedNaive
  rw [hb]
  constructor
  · simp only; split
    · exact .fail _
    · exact emits_weightedLoop_aig _ _ _ _ _
  · simp only; split
    · exact .fail _
    · exact emits_weightedNaiveLoop_aig _ _ _ _

/-- a string resolves to AIG exactly when its upper-cased form is "AIG" -/
theorem resolve_str_aig (s : String) (h : asciiUpper s = "AIG") : (BasisArg.str s).resolve = .ok .aig := by
  simp only [BasisArg.resolve, h]
  have : ("AIG" == "XAIG") = false := by decide
  simp [this]

example : asciiUpper "aig" = "AIG" ∧ asciiUpper "Aig" = "AIG" ∧ asciiUpper "AIG" = "AIG" := by decide

end Cirbo
