import Cirbo.Proofs.PassMuo
import Cirbo.Proofs.RrgIdem
/-!
# Postconditions of MergeUnaryOperators (C18)
-/
namespace Cirbo
open Circuit GateType

def isNotAt (c : Circuit) (l : Label) : Bool :=
  match c.find? l with | some g => isNotLike g.ty | none => false
def isIffAt (c : Circuit) (l : Label) : Bool :=
  match c.find? l with | some g => isIffLike g.ty | none => false
/-- the significant operand of the gate at `l` -/
def sigOp (c : Circuit) (l : Label) : Option Label := (c.find? l).bind unaryOperand

/-- a negation directly on something that is not a negation -/
def L1 (c : Circuit) (l : Label) : Prop :=
  isNotAt c l = true ∧ ∃ o, sigOp c l = some o ∧ isNotAt c o = false
/-- canonical representatives: non-negations and first-level negations -/
def Kp (c : Circuit) (l : Label) : Prop := isNotAt c l = false ∨ L1 c l

structure UInv (c : Circuit) (pre : List Label) (m : MuoMaps) : Prop where
  iffDef : ∀ x ∈ pre, isIffAt c x = true → ∃ p, Dict.get? m.iff x = some p
  iffVal : ∀ l p, Dict.get? m.iff l = some p → isIffAt c p = false
  oddDef : ∀ x ∈ pre, isNotAt c x = true → ∃ p, Dict.get? m.odd x = some p
  evenDef : ∀ x ∈ pre, isNotAt c x = true → Dict.get? m.even x = none → L1 c x
  evenVal : ∀ l p, Dict.get? m.even l = some p → Kp c p
  oddVal : ∀ l p, Dict.get? m.odd l = some p → Kp c p

theorem unaryOperand_mem {g : Gate} {o : Label} (h : unaryOperand g = some o) : o ∈ g.ops := by
  unfold unaryOperand at h
  split at h <;> exact List.mem_of_getElem? h

theorem muoStep_uinv {c : Circuit} {pre : List Label} {m m' : MuoMaps} {l : Label}
    (inv : UInv c pre m) (hops : ∀ g, c.find? l = some g → ∀ o ∈ g.ops, o ∈ pre)
    (h : muoStep c (.ok m) l = .ok m') : UInv c (pre ++ [l]) m' := by
  unfold muoStep at h
  simp only at h
  cases hf : c.find? l with
  | none => simp [hf] at h
  | some g =>
    simp only [hf] at h
    by_cases hn : isNotLike g.ty = true
    · simp only [hn, if_true] at h
      cases ho : unaryOperand g with
      | none => simp [ho] at h
      | some o =>
        simp only [ho, Except.ok.injEq] at h
        subst h
        have hopre : o ∈ pre := hops g hf o (unaryOperand_mem ho)
        have hnl : isNotAt c l = true := by simp [isNotAt, hf, hn]
        have hsl : sigOp c l = some o := by simp [sigOp, hf, ho]
        have hi : isIffLike g.ty = false := by
          cases hg : g.ty <;> simp [isNotLike, isIffLike, hg] at hn ⊢
        refine ⟨?_, inv.iffVal, ?_, ?_, ?_, ?_⟩
        · intro x hx hxi
          rcases List.mem_append.mp hx with hx | hx
          · exact inv.iffDef x hx hxi
          · simp only [List.mem_singleton] at hx; subst hx
            simp [isIffAt, hf, hi] at hxi
        · intro x hx hxn
          simp only [Dict.get?_set]
          by_cases hxl : x = l
          · simp [hxl]
          · simp only [hxl, if_false]
            rcases List.mem_append.mp hx with hx | hx
            · exact inv.oddDef x hx hxn
            · simp only [List.mem_singleton] at hx; exact absurd hx hxl
        · intro x hx hxn hev
          cases hod : Dict.get? m.odd o with
          | none =>
            simp only [hod] at hev
            by_cases hxl : x = l
            · subst hxl
              -- the operand is not a (processed) negation
              have hon : isNotAt c o = false := by
                cases hh : isNotAt c o with
                | false => rfl
                | true => obtain ⟨p, hp⟩ := inv.oddDef o hopre hh; rw [hp] at hod; cases hod
              exact ⟨hnl, o, hsl, hon⟩
            · rcases List.mem_append.mp hx with hx | hx
              · exact inv.evenDef x hx hxn hev
              · simp only [List.mem_singleton] at hx; exact absurd hx hxl
          | some q =>
            simp only [hod, Dict.get?_set] at hev
            by_cases hxl : x = l
            · simp [hxl] at hev
            · simp only [hxl, if_false] at hev
              rcases List.mem_append.mp hx with hx | hx
              · exact inv.evenDef x hx hxn hev
              · simp only [List.mem_singleton] at hx; exact absurd hx hxl
        · intro x p hx
          cases hod : Dict.get? m.odd o with
          | none => simp only [hod] at hx; exact inv.evenVal x p hx
          | some q =>
            simp only [hod, Dict.get?_set] at hx
            by_cases hxl : x = l
            · simp only [hxl, if_true, Option.some.injEq] at hx; subst hx
              exact inv.oddVal o _ hod
            · simp only [hxl, if_false] at hx; exact inv.evenVal x p hx
        · intro x p hx
          simp only [Dict.get?_set] at hx
          by_cases hxl : x = l
          · simp only [hxl, if_true, Option.some.injEq] at hx; subst hx
            cases hev : Dict.get? m.even o with
            | some q => simp only [Option.getD_some]; exact inv.evenVal o q hev
            | none =>
              simp only [Option.getD_none]
              cases hh : isNotAt c o with
              | false => exact Or.inl hh
              | true => exact Or.inr (inv.evenDef o hopre hh hev)
          · simp only [hxl, if_false] at hx; exact inv.oddVal x p hx
    · simp only [hn, Bool.false_eq_true, if_false] at h
      have hnl : isNotAt c l = false := by simp [isNotAt, hf, hn]
      by_cases hi : isIffLike g.ty = true
      · simp only [hi, if_true] at h
        cases ho : unaryOperand g with
        | none => simp [ho] at h
        | some o =>
          simp only [ho, Except.ok.injEq] at h
          subst h
          have hopre : o ∈ pre := hops g hf o (unaryOperand_mem ho)
          refine ⟨?_, ?_, ?_, ?_, inv.evenVal, inv.oddVal⟩
          · intro x hx hxi
            simp only [Dict.get?_set]
            by_cases hxl : x = l
            · simp [hxl]
            · simp only [hxl, if_false]
              rcases List.mem_append.mp hx with hx | hx
              · exact inv.iffDef x hx hxi
              · simp only [List.mem_singleton] at hx; exact absurd hx hxl
          · intro x p hx
            simp only [Dict.get?_set] at hx
            by_cases hxl : x = l
            · simp only [hxl, if_true, Option.some.injEq] at hx; subst hx
              cases hev : Dict.get? m.iff o with
              | some q => simp only [Option.getD_some]; exact inv.iffVal o q hev
              | none =>
                simp only [Option.getD_none]
                cases hh : isIffAt c o with
                | false => rfl
                | true => obtain ⟨p, hp⟩ := inv.iffDef o hopre hh; rw [hp] at hev; cases hev
            · simp only [hxl, if_false] at hx; exact inv.iffVal x p hx
          · intro x hx hxn
            rcases List.mem_append.mp hx with hx | hx
            · exact inv.oddDef x hx hxn
            · simp only [List.mem_singleton] at hx; subst hx; rw [hnl] at hxn; cases hxn
          · intro x hx hxn hev
            rcases List.mem_append.mp hx with hx | hx
            · exact inv.evenDef x hx hxn hev
            · simp only [List.mem_singleton] at hx; subst hx; rw [hnl] at hxn; cases hxn
      · simp only [hi, Bool.false_eq_true, if_false, Except.ok.injEq] at h
        subst h
        refine ⟨?_, inv.iffVal, ?_, ?_, inv.evenVal, inv.oddVal⟩
        · intro x hx hxi
          rcases List.mem_append.mp hx with hx | hx
          · exact inv.iffDef x hx hxi
          · simp only [List.mem_singleton] at hx; subst hx
            simp [isIffAt, hf, hi] at hxi
        · intro x hx hxn
          rcases List.mem_append.mp hx with hx | hx
          · exact inv.oddDef x hx hxn
          · simp only [List.mem_singleton] at hx; subst hx; rw [hnl] at hxn; cases hxn
        · intro x hx hxn hev
          rcases List.mem_append.mp hx with hx | hx
          · exact inv.evenDef x hx hxn hev
          · simp only [List.mem_singleton] at hx; subst hx; rw [hnl] at hxn; cases hxn

theorem muoFold_uinv {c : Circuit} : ∀ (rest pre : List Label) (m m' : MuoMaps),
    UInv c pre m →
    (∀ p' l post, rest = p' ++ l :: post → ∀ g, c.find? l = some g → ∀ o ∈ g.ops, o ∈ pre ++ p') →
    rest.foldl (muoStep c) (.ok m) = .ok m' → UInv c (pre ++ rest) m' := by
  intro rest
  induction rest with
  | nil => intro pre m m' inv _ h; simp only [List.foldl_nil, Except.ok.injEq] at h; subst h; simpa using inv
  | cons l r ih =>
    intro pre m m' inv hops h
    simp only [List.foldl_cons] at h
    cases hs : muoStep c (.ok m) l with
    | error e => rw [hs, muoStep_error] at h; cases h
    | ok m1 =>
      rw [hs] at h
      have inv1 := muoStep_uinv inv (fun g hg o ho => by simpa using hops [] l r rfl g hg o ho) hs
      have := ih (pre ++ [l]) m1 m' inv1 (by
        intro p' x post hr g hg o ho
        have := hops (l :: p') x post (by rw [hr]; rfl) g hg o ho
        simpa using this) h
      simpa using this

theorem isNotAt_of_gate {c : Circuit} (hnd : c.labels.Nodup) {g : Gate} (hg : g ∈ c.gates) :
    isNotAt c g.label = isNotLike g.ty := by simp [isNotAt, find_label hnd hg]
theorem isIffAt_of_gate {c : Circuit} (hnd : c.labels.Nodup) {g : Gate} (hg : g ∈ c.gates) :
    isIffAt c g.label = isIffLike g.ty := by simp [isIffAt, find_label hnd hg]

/-- what `muo` builds, with the facts about its redirection maps -/
theorem muo_unfold {c c' : Circuit} (hw : WFS c) (h : muo c = .ok c') :
    ∃ m, UInv c c.labels m ∧ c'.labels.Nodup ∧
      (∀ g' ∈ c'.gates, ∃ g ∈ c.gates, g' = ⟨g.label, g.ty, g.ops.map (muoRemap c m)⟩) ∧
      c'.outputs = c.outputs.map (muoRemap c m) := by
  obtain ⟨order0, ho0, hperm, hbefore⟩ := topSort_inv_spec hw.toWFG
  obtain ⟨w', _, _, _, _⟩ := muo_spec hw h
  unfold muo at h
  simp only [ho0] at h
  cases hmm : muoMaps c order0 with
  | error e => simp [hmm] at h
  | ok m =>
    simp only [hmm] at h
    cases htr : traverse c false false (some c.outputs) true with
    | error e => simp [htr] at h
    | ok log =>
      simp only [htr] at h
      cases hem : emplaceAll c (hookLabels log true) (muoRemap c m) Circuit.empty with
      | error e => simp [hem] at h
      | ok n1 =>
        simp only [hem] at h
        cases hsi : n1.setInputs c.inputs with
        | error e => simp [hsi] at h
        | ok n2 =>
          simp only [hsi] at h
          obtain ⟨gs, g1, g2, g3, _, _, g6⟩ := emplaceAll_spec c _ _ _ _ hem
          have hgc : c'.gates = gs := by
            rw [setOutputs_gates h, setInputs_gates hsi, g1]; simp [Circuit.empty]
          obtain ⟨hoc, _⟩ := setOutputs_outputs h
          rw [muoMaps_eq] at hmm
          have inv := muoFold_uinv (c := c) order0 [] ⟨[], [], []⟩ m
            ⟨(by intro x hx; cases hx), (by intro l p h; simp [Dict.get?] at h), (by intro x hx; cases hx),
             (by intro x hx; cases hx), (by intro l p h; simp [Dict.get?] at h), (by intro l p h; simp [Dict.get?] at h)⟩
            (by
              intro p' l post hr g hg o ho
              obtain ⟨hgm, hgl⟩ := find_some_mem hg
              simpa using hbefore p' l post hr g hgm hgl o ho) hmm
          simp only [List.nil_append] at inv
          -- the invariant speaks about membership only: move from the order to the labels
          have inv' : UInv c c.labels m :=
            ⟨fun x hx => inv.iffDef x (hperm.mem_iff.mpr hx), inv.iffVal,
             fun x hx => inv.oddDef x (hperm.mem_iff.mpr hx),
             fun x hx => inv.evenDef x (hperm.mem_iff.mpr hx), inv.evenVal, inv.oddVal⟩
          exact ⟨m, inv', w'.nodup, by rw [hgc]; exact g3, hoc⟩

theorem mem_labels_of_find {c : Circuit} {l : Label} {g : Gate} (h : c.find? l = some g) : l ∈ c.labels := by
  obtain ⟨hg, hl⟩ := find_some_mem h
  rw [← hl]; exact mem_labels_of_mem hg

/-- with no negations around, a remapped label never names a buffer -/
theorem muoRemap_not_iff {c : Circuit} {m : MuoMaps} (inv : UInv c c.labels m)
    (hnn : ∀ l, isNotAt c l = false) (x : Label) : isIffAt c (muoRemap c m x) = false := by
  unfold muoRemap
  cases hf : c.find? x with
  | none => simp [isIffAt, hf]
  | some g =>
    have hxn := hnn x
    simp only [isNotAt, hf] at hxn
    simp only [hxn, Bool.false_eq_true, if_false]
    by_cases hi : isIffLike g.ty = true
    · simp only [hi, if_true]
      obtain ⟨p, hp⟩ := inv.iffDef x (mem_labels_of_find hf) (by simp [isIffAt, hf, hi])
      rw [hp]; exact inv.iffVal x p hp
    · simp only [hi, Bool.false_eq_true, if_false]
      simp [isIffAt, hf, hi]

/-- with no buffers around, a remapped label is a non-negation or a first-level negation -/
theorem muoRemap_kp {c : Circuit} {m : MuoMaps} (inv : UInv c c.labels m)
    (hni : ∀ l, isIffAt c l = false) (x : Label) : Kp c (muoRemap c m x) := by
  unfold muoRemap
  cases hf : c.find? x with
  | none => left; simp [isNotAt, hf]
  | some g =>
    simp only
    by_cases hn : isNotLike g.ty = true
    · simp only [hn, if_true]
      have hxn : isNotAt c x = true := by simp [isNotAt, hf, hn]
      cases hev : Dict.get? m.even x with
      | some p => exact inv.evenVal x p hev
      | none => exact Or.inr (inv.evenDef x (mem_labels_of_find hf) hxn hev)
    · simp only [hn, Bool.false_eq_true, if_false]
      have hxi := hni x
      simp only [isIffAt, hf] at hxi
      simp only [hxi, Bool.false_eq_true, if_false]
      left; simp [isNotAt, hf, hn]

/-- remapping leaves everything that is neither negation nor buffer alone -/
theorem muoRemap_plain {c : Circuit} {m : MuoMaps} {x : Label} (h1 : isNotAt c x = false) (h2 : isIffAt c x = false) :
    muoRemap c m x = x := by
  unfold muoRemap
  cases hf : c.find? x with
  | none => rfl
  | some g =>
    simp only [isNotAt, isIffAt, hf] at h1 h2
    simp [h1, h2]

/-- types of the result are types of the argument -/
theorem muo_types {c c' : Circuit} (hnd : c.labels.Nodup) (hnd' : c'.labels.Nodup) {f : Label → Label}
    (hg : ∀ g' ∈ c'.gates, ∃ g ∈ c.gates, g' = ⟨g.label, g.ty, g.ops.map f⟩) (l : Label) :
    (isNotAt c' l = true → isNotAt c l = true) ∧ (isIffAt c' l = true → isIffAt c l = true) := by
  cases hf : c'.find? l with
  | none => simp [isNotAt, isIffAt, hf]
  | some g' =>
    obtain ⟨hgm, hgl⟩ := find_some_mem hf
    obtain ⟨g, hgc, rfl⟩ := hg g' hgm
    simp only at hgl
    have := find_label hnd hgc
    rw [hgl] at this
    simp [isNotAt, isIffAt, hf, this]

/-- **MergeUnaryOperators, buffers**: in a circuit whose unary gates are all buffers (no NOT, LNOT,
RNOT gate) the result has no buffer (IFF, LIFF, RIFF) as an operand of any gate or as an output -/
theorem muo_no_buffer {c c' : Circuit} (hw : WFS c) (hnn : ∀ g ∈ c.gates, isNotLike g.ty = false)
    (h : muo c = .ok c') :
    (∀ g' ∈ c'.gates, ∀ o ∈ g'.ops, isIffAt c' o = false) ∧ (∀ o ∈ c'.outputs, isIffAt c' o = false) := by
  obtain ⟨m, inv, hnd', hgs, hout⟩ := muo_unfold hw h
  have hnn' : ∀ l, isNotAt c l = false := by
    intro l
    unfold isNotAt
    cases hf : c.find? l with
    | none => rfl
    | some g => exact hnn g (find_some_mem hf).1
  have key : ∀ x, isIffAt c' (muoRemap c m x) = false := by
    intro x
    cases hh : isIffAt c' (muoRemap c m x) with
    | false => rfl
    | true =>
      have := (muo_types hw.nodup hnd' hgs _).2 hh
      rw [muoRemap_not_iff inv hnn' x] at this; cases this
  constructor
  · intro g' hg' o ho
    obtain ⟨g, _, rfl⟩ := hgs g' hg'
    simp only [List.mem_map] at ho
    obtain ⟨x, _, rfl⟩ := ho
    exact key x
  · intro o ho
    rw [hout] at ho
    obtain ⟨x, _, rfl⟩ := List.mem_map.mp ho
    exact key x

theorem unaryOperand_map (l : Label) (ty : GateType) (ops : List Label) (f : Label → Label) :
    unaryOperand ⟨l, ty, ops.map f⟩ = (unaryOperand ⟨l, ty, ops⟩).map f := by
  unfold unaryOperand
  simp only
  split <;> simp [List.getElem?_map]

/-- everything reachable from the outputs of the result is a remapped label -/
theorem muo_reach_remap {c c' : Circuit} {f : Label → Label} (hnd' : c'.labels.Nodup)
    (hg : ∀ g' ∈ c'.gates, ∃ g ∈ c.gates, g' = ⟨g.label, g.ty, g.ops.map f⟩)
    (hout : c'.outputs = c.outputs.map f) {l : Label} (h : Reach c'.opsOf c'.outputs l) : ∃ x, l = f x := by
  induction h with
  | base hl =>
    rw [hout] at hl
    obtain ⟨x, _, rfl⟩ := List.mem_map.mp hl
    exact ⟨x, rfl⟩
  | @step u l' hu hl _ =>
    by_cases hul : u ∈ c'.labels
    · obtain ⟨g', hg', hgl⟩ : ∃ g ∈ c'.gates, g.label = u := by simpa [Circuit.labels] using hul
      rw [← hgl, opsOf_gate hnd' hg'] at hl
      obtain ⟨g, _, rfl⟩ := hg g' hg'
      obtain ⟨x, _, rfl⟩ := List.mem_map.mp hl
      exact ⟨x, rfl⟩
    · rw [opsOf_not_mem hul] at hl; cases hl

/-- **MergeUnaryOperators, negations**: in a circuit whose unary gates are all negations (no IFF, LIFF,
RIFF gate) no gate of the result that the outputs depend on is a negation of a negation -/
theorem muo_no_double_neg {c c' : Circuit} (hw : WFS c) (hni : ∀ g ∈ c.gates, isIffLike g.ty = false)
    (h : muo c = .ok c') :
    ∀ l, Reach c'.opsOf c'.outputs l → isNotAt c' l = true → ∀ o, sigOp c' l = some o → isNotAt c' o = false := by
  obtain ⟨m, inv, hnd', hgs, hout⟩ := muo_unfold hw h
  have hni' : ∀ l, isIffAt c l = false := by
    intro l
    unfold isIffAt
    cases hf : c.find? l with
    | none => rfl
    | some g => exact hni g (find_some_mem hf).1
  intro l hl hln o ho
  obtain ⟨x, rfl⟩ := muo_reach_remap hnd' hgs hout hl
  have hcn := (muo_types hw.nodup hnd' hgs _).1 hln
  rcases muoRemap_kp inv hni' x with hk | ⟨_, o0, hs0, hn0⟩
  · rw [hk] at hcn; cases hcn
  · -- the gate in the result
    cases hf' : c'.find? (muoRemap c m x) with
    | none => simp [sigOp, hf'] at ho
    | some g' =>
      obtain ⟨hgm, hgl⟩ := find_some_mem hf'
      obtain ⟨g, hgc, rfl⟩ := hgs g' hgm
      simp only at hgl
      have hfc := find_label hw.nodup hgc
      rw [hgl] at hfc
      simp only [sigOp, hfc, Option.bind_some] at hs0
      simp only [sigOp, hf', Option.bind_some, unaryOperand_map] at ho
      have hgeq : (⟨g.label, g.ty, g.ops⟩ : Gate) = g := rfl
      rw [hgeq, hs0] at ho
      simp only [Option.map_some, Option.some.injEq] at ho
      rw [muoRemap_plain hn0 (hni' o0)] at ho
      subst ho
      cases hh : isNotAt c' o0 with
      | false => rfl
      | true => have := (muo_types hw.nodup hnd' hgs o0).1 hh; rw [hn0] at this; cases this

/-- the same after the implied `RemoveRedundantGates()`: no negation in the final circuit has a
negation as its (significant) operand -/
theorem muo_rrg_no_double_neg {c c' c'' : Circuit} {allow : Bool} (hw : WFS c)
    (hni : ∀ g ∈ c.gates, isIffLike g.ty = false) (h : muo c = .ok c') (h2 : rrg allow c' = .ok c'') :
    ∀ g ∈ c''.gates, isNotLike g.ty = true → ∀ o, unaryOperand g = some o → isNotAt c'' o = false := by
  obtain ⟨w', _, _, _, _⟩ := muo_spec hw h
  obtain ⟨w'', hsub, _, _, _, _, _, hlab⟩ := rrg_spec w' h2
  have hmain := muo_no_double_neg hw hni h
  intro g hg hgn o ho
  have hg' := hsub g hg
  have hne : c'.gates ≠ [] := by intro e; rw [e] at hg'; cases hg'
  have hl := (hlab hne g.label).mp (mem_labels_of_mem hg)
  -- a negation is not an input, so it is reachable
  have hreach : Reach c'.opsOf c'.outputs g.label := by
    rcases hl with hr | ⟨_, hin⟩
    · exact hr
    · obtain ⟨gi, hgi, hgil, hgit⟩ := (w'.inputsOK g.label).mp hin
      have := find_label w'.nodup hgi
      rw [hgil, find_label w'.nodup hg'] at this
      simp only [Option.some.injEq] at this
      subst this
      simp [isNotLike, hgit] at hgn
  have hn' : isNotAt c' g.label = true := by rw [isNotAt_of_gate w'.nodup hg']; exact hgn
  have hs' : sigOp c' g.label = some o := by simp [sigOp, find_label w'.nodup hg', ho]
  have hno := hmain g.label hreach hn' o hs'
  cases hh : isNotAt c'' o with
  | false => rfl
  | true =>
    exfalso
    unfold isNotAt at hh
    cases hf : c''.find? o with
    | none => simp [hf] at hh
    | some go =>
      simp only [hf] at hh
      obtain ⟨hgo, hgol⟩ := find_some_mem hf
      have := isNotAt_of_gate w'.nodup (hsub go hgo)
      rw [hgol, hno] at this
      rw [hh] at this; cases this

/-- and for buffers: the final circuit (after the implied removal) has no buffer as operand or output -/
theorem muo_rrg_no_buffer {c c' c'' : Circuit} {allow : Bool} (hw : WFS c)
    (hnn : ∀ g ∈ c.gates, isNotLike g.ty = false) (h : muo c = .ok c') (h2 : rrg allow c' = .ok c'') :
    (∀ g ∈ c''.gates, ∀ o ∈ g.ops, isIffAt c'' o = false) ∧ (∀ o ∈ c''.outputs, isIffAt c'' o = false) := by
  obtain ⟨w', _, _, _, _⟩ := muo_spec hw h
  obtain ⟨w'', hsub, _, hout, _, _, _, _⟩ := rrg_spec w' h2
  obtain ⟨h1, h3⟩ := muo_no_buffer hw hnn h
  have tr : ∀ o, isIffAt c' o = false → isIffAt c'' o = false := by
    intro o ho
    cases hh : isIffAt c'' o with
    | false => rfl
    | true =>
      exfalso
      unfold isIffAt at hh
      cases hf : c''.find? o with
      | none => simp [hf] at hh
      | some go =>
        simp only [hf] at hh
        obtain ⟨hgo, hgol⟩ := find_some_mem hf
        have := isIffAt_of_gate w'.nodup (hsub go hgo)
        rw [hgol, ho] at this
        rw [hh] at this; cases this
  exact ⟨fun g hg o ho => tr o (h1 g (hsub g hg) o ho), fun o ho => tr o (h3 o (by rw [← hout]; exact ho))⟩

end Cirbo
