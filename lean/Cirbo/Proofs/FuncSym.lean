import Cirbo.Proofs.Func
/-!
# `is_symmetric`, `is_symmetric_at`, `find_negations_to_make_symmetric` against the weight-based definition (C12)
-/
namespace Cirbo
namespace FRep

def weight (x : List Bool) : Nat := x.count true

/-- the indicator vector of an index set over the window `[start, start+len)` -/
def ind (start len : Nat) (idxs : List Nat) : List Bool := (List.range' start len).map (fun i => idxs.contains i)

theorem combos_lb : ∀ (len start k : Nat) (idxs : List Nat), idxs ∈ combos len start k → ∀ i ∈ idxs, start ≤ i := by
  intro len
  induction len with
  | zero =>
    intro start k idxs h i hi
    cases k with
    | zero => simp [combos] at h; subst h; cases hi
    | succ k => simp [combos] at h
  | succ len ih =>
    intro start k idxs h i hi
    cases k with
    | zero => simp [combos] at h; subst h; cases hi
    | succ k =>
      simp only [combos, List.mem_append, List.mem_map] at h
      rcases h with ⟨t, ht, rfl⟩ | h
      · rcases List.mem_cons.mp hi with rfl | hi
        · exact Nat.le_refl _
        · exact Nat.le_of_succ_le (ih (start + 1) k t ht i hi)
      · exact Nat.le_of_succ_le (ih (start + 1) (k + 1) idxs h i hi)

theorem ind_cons_start (start len : Nat) (idxs : List Nat) :
    ind start (len + 1) (start :: idxs) = true :: ind (start + 1) len idxs := by
  unfold ind
  rw [List.range'_succ]
  simp only [List.map_cons, List.contains_cons, beq_self_eq_true, Bool.true_or, List.cons.injEq, true_and]
  apply List.map_congr_left
  intro i hi
  have : start < i := by
    have := (List.mem_range'_1.mp hi).1
    omega
  have hne : (i == start) = false := by simpa using (Nat.ne_of_gt this)
  simp [hne]

theorem ind_skip_start (start len : Nat) (idxs : List Nat) (h : ∀ i ∈ idxs, start + 1 ≤ i) :
    ind start (len + 1) idxs = false :: ind (start + 1) len idxs := by
  unfold ind
  rw [List.range'_succ]
  simp only [List.map_cons, List.cons.injEq, and_true]
  cases hc : idxs.contains start with
  | false => rfl
  | true =>
    have := h start (by simpa using hc)
    omega

theorem weight_zero_iff : ∀ (x : List Bool), weight x = 0 ↔ x = List.replicate x.length false := by
  intro x
  induction x with
  | nil => simp [weight]
  | cons b t ih =>
    cases b
    · simp only [weight, List.count_cons, List.length_cons, List.replicate_succ, List.cons.injEq, true_and] at ih ⊢
      simpa using ih
    · simp [weight, List.replicate_succ]

theorem ind_nil (start len : Nat) : ind start len [] = List.replicate len false := by
  unfold ind
  induction len generalizing start with
  | zero => rfl
  | succ len ih =>
    rw [List.range'_succ]
    simp only [List.map_cons, List.replicate_succ, List.cons.injEq]
    exact ⟨by simp, ih (start + 1)⟩

/-- **`itertools.combinations` enumerates exactly the index sets of the vectors of a given weight** -/
theorem mem_combos_ind : ∀ (len start k : Nat) (x : List Bool),
    x ∈ (combos len start k).map (ind start len) ↔ x.length = len ∧ weight x = k := by
  intro len
  induction len with
  | zero =>
    intro start k x
    cases k with
    | zero =>
      simp only [combos, List.map_cons, List.map_nil, List.mem_singleton, ind_nil]
      constructor
      · rintro rfl; simp [weight]
      · rintro ⟨h, _⟩; exact List.eq_nil_of_length_eq_zero h
    | succ k =>
      simp only [combos, List.map_nil, List.not_mem_nil, false_iff, not_and]
      intro h
      have : x = [] := List.eq_nil_of_length_eq_zero h
      subst this; simp [weight]
  | succ len ih =>
    intro start k x
    cases k with
    | zero =>
      simp only [combos, List.map_cons, List.map_nil, List.mem_singleton, ind_nil]
      constructor
      · rintro rfl
        refine ⟨by simp, ?_⟩
        rw [weight_zero_iff]; simp
      · rintro ⟨h1, h2⟩
        rw [weight_zero_iff, h1] at h2; exact h2
    | succ k =>
      simp only [combos, List.map_append, List.map_map, List.mem_append, List.mem_map, Function.comp]
      constructor
      · rintro (⟨t, ht, rfl⟩ | ⟨t, ht, rfl⟩)
        · rw [ind_cons_start]
          have := (ih (start + 1) k (ind (start + 1) len t)).mp (List.mem_map.mpr ⟨t, ht, rfl⟩)
          simp [weight, this.1] at this ⊢
          exact this
        · rw [ind_skip_start _ _ _ (combos_lb len (start + 1) (k + 1) t ht)]
          have := (ih (start + 1) (k + 1) (ind (start + 1) len t)).mp (List.mem_map.mpr ⟨t, ht, rfl⟩)
          simp [weight, this.1] at this ⊢
          exact this
      · rintro ⟨h1, h2⟩
        cases x with
        | nil => simp at h1
        | cons b x' =>
          simp only [List.length_cons, Nat.add_right_cancel_iff] at h1
          cases b
          · right
            have hw : weight x' = k + 1 := by simpa [weight] using h2
            obtain ⟨t, ht, hte⟩ := List.mem_map.mp ((ih (start + 1) (k + 1) x').mpr ⟨h1, hw⟩)
            exact ⟨t, ht, by rw [ind_skip_start _ _ _ (combos_lb len (start + 1) (k + 1) t ht), hte]⟩
          · left
            have hw : weight x' = k := by simpa [weight] using h2
            obtain ⟨t, ht, hte⟩ := List.mem_map.mp ((ih (start + 1) k x').mpr ⟨h1, hw⟩)
            exact ⟨t, ht, by rw [ind_cons_start, hte]⟩

/-- flipping the positions marked in `neg` -/
def xorNeg (n : Nat) (neg y : List Bool) : List Bool :=
  (List.range n).map (fun i => xor (y.getD i false) (neg.getD i false))

theorem ind_getD (n : Nat) (idxs : List Nat) (i : Nat) (hi : i < n) : (ind 0 n idxs).getD i false = idxs.contains i := by
  unfold ind
  simp [List.getD_eq_getElem?_getD, List.getElem?_map, List.getElem?_range' hi]

theorem fixedSum_eq (n k : Nat) (neg : List Bool) :
    fixedSum n k neg = ((combos n 0 k).map (ind 0 n)).map (xorNeg n neg) := by
  unfold fixedSum xorNeg
  rw [List.map_map]
  apply List.map_congr_left
  intro idxs _
  simp only [Function.comp]
  apply List.map_congr_left
  intro i hi
  rw [ind_getD n idxs i (List.mem_range.mp hi)]

theorem mem_fixedSum (n k : Nat) (neg x : List Bool) :
    x ∈ fixedSum n k neg ↔ ∃ y, y.length = n ∧ weight y = k ∧ x = xorNeg n neg y := by
  rw [fixedSum_eq, List.mem_map]
  constructor
  · rintro ⟨y, hy, rfl⟩
    obtain ⟨h1, h2⟩ := (mem_combos_ind n 0 k y).mp hy
    exact ⟨y, h1, h2, rfl⟩
  · rintro ⟨y, h1, h2, rfl⟩
    exact ⟨y, (mem_combos_ind n 0 k y).mpr ⟨h1, h2⟩, rfl⟩

theorem xorNeg_nil {n : Nat} {y : List Bool} (h : y.length = n) : xorNeg n [] y = y := by
  unfold xorNeg
  apply List.ext_getElem
  · simp [h]
  · intro i h1 h2
    simp only [List.length_map, List.length_range] at h1
    simp [List.getD_eq_getElem?_getD, List.getElem?_eq_getElem (h ▸ h1)]

theorem weight_le_length (x : List Bool) : weight x ≤ x.length := List.count_le_length

/-- **the symmetry scan**: all vectors of one weight (after flipping `neg`) give the same projected value -/
theorem symOn_iff (F : FRep) (neg : List Bool) {β} [BEq β] [LawfulBEq β] (proj : List Bool → β)
    (scan : Bool)
    (hscan : scan = (List.range (F.n + 1)).all (fun k =>
      match fixedSum F.n k neg with
      | [] => true
      | x0 :: r => r.all (fun x => proj (F.ev x) == proj (F.ev x0)))) :
    scan = true ↔ ∀ y1 y2 : List Bool, y1.length = F.n → y2.length = F.n → weight y1 = weight y2 →
      proj (F.ev (xorNeg F.n neg y1)) = proj (F.ev (xorNeg F.n neg y2)) := by
  subst hscan
  rw [List.all_eq_true]
  constructor
  · intro h y1 y2 h1 h2 hw
    have hk : weight y1 ∈ List.range (F.n + 1) := by
      rw [List.mem_range]; have := weight_le_length y1; omega
    have hh := h (weight y1) hk
    have m1 : xorNeg F.n neg y1 ∈ fixedSum F.n (weight y1) neg := (mem_fixedSum _ _ _ _).mpr ⟨y1, h1, rfl, rfl⟩
    have m2 : xorNeg F.n neg y2 ∈ fixedSum F.n (weight y1) neg := (mem_fixedSum _ _ _ _).mpr ⟨y2, h2, hw.symm, rfl⟩
    cases hL : fixedSum F.n (weight y1) neg with
    | nil => rw [hL] at m1; cases m1
    | cons x0 r =>
      rw [hL] at hh m1 m2
      simp only at hh
      exact (all_eq_first_iff (fun x => proj (F.ev x)) x0 r).mp hh _ m1 _ m2
  · intro h k _
    cases hL : fixedSum F.n k neg with
    | nil => rfl
    | cons x0 r =>
      simp only
      apply (all_eq_first_iff (fun x => proj (F.ev x)) x0 r).mpr
      intro a ha b hb
      rw [← hL] at ha hb
      obtain ⟨y1, h1, w1, rfl⟩ := (mem_fixedSum _ _ _ _).mp ha
      obtain ⟨y2, h2, w2, rfl⟩ := (mem_fixedSum _ _ _ _).mp hb
      exact h y1 y2 h1 h2 (w1.trans w2.symm)

/-- **`is_symmetric`**: the value depends only on the number of True inputs -/
theorem isSymmetric_iff (F : FRep) :
    F.isSymmetric = true ↔ ∀ x y : List Bool, x.length = F.n → y.length = F.n → weight x = weight y → F.ev x = F.ev y := by
  have := symOn_iff F [] (fun v => v) (F.symOn [] id) rfl
  unfold isSymmetric
  rw [this]
  constructor
  · intro h x y hx hy hw
    have := h x y hx hy hw
    rwa [xorNeg_nil hx, xorNeg_nil hy] at this
  · intro h x y hx hy hw
    rw [xorNeg_nil hx, xorNeg_nil hy]
    exact h x y hx hy hw

/-- **`is_symmetric_at`** -/
theorem isSymmetricAt_iff (F : FRep) (o : Nat) :
    F.isSymmetricAt o = true ↔ ∀ x y : List Bool, x.length = F.n → y.length = F.n → weight x = weight y →
      F.evAt x o = F.evAt y o := by
  have := symOn_iff F [] (fun v => [v.getD o false]) (F.symOn [] (fun v => [v.getD o false])) rfl
  unfold isSymmetricAt
  rw [this]
  constructor
  · intro h x y hx hy hw
    have := h x y hx hy hw
    rw [xorNeg_nil hx, xorNeg_nil hy] at this
    simpa [evAt] using this
  · intro h x y hx hy hw
    rw [xorNeg_nil hx, xorNeg_nil hy]
    have := h x y hx hy hw
    simp only [evAt] at this
    rw [this]

/-- **`find_negations_to_make_symmetric`**: a returned negation vector makes the chosen outputs depend
only on the weight of the flipped input; `None` means no negation vector does -/
theorem findNegations_spec (F : FRep) (outs : List Nat) :
    (∀ neg, F.findNegations outs = some neg → neg.length = F.n ∧
      ∀ y1 y2 : List Bool, y1.length = F.n → y2.length = F.n → weight y1 = weight y2 →
        outs.map (fun o => F.evAt (xorNeg F.n neg y1) o) = outs.map (fun o => F.evAt (xorNeg F.n neg y2) o)) ∧
    (F.findNegations outs = none → ∀ neg : List Bool, neg.length = F.n →
      ¬ ∀ y1 y2 : List Bool, y1.length = F.n → y2.length = F.n → weight y1 = weight y2 →
        outs.map (fun o => F.evAt (xorNeg F.n neg y1) o) = outs.map (fun o => F.evAt (xorNeg F.n neg y2) o)) := by
  unfold findNegations
  constructor
  · intro neg h
    have hm := List.mem_of_find?_eq_some h
    have hp := List.find?_some h
    refine ⟨(mem_allInputs neg _).mp hm, ?_⟩
    exact (symOn_iff F neg (fun v => outs.map (fun o => v.getD o false)) _ rfl).mp hp
  · intro h neg hl hall
    have := List.find?_eq_none.mp h neg ((mem_allInputs neg _).mpr hl)
    apply this
    exact (symOn_iff F neg (fun v => outs.map (fun o => v.getD o false)) _ rfl).mpr hall

/-! ## `PyFunction.is_monotone`: consecutive comparison of whole output vectors -/

/-- every two neighbours of a list are related -/
def Consec {α} (R : α → α → Prop) : List α → Prop
  | [] => True
  | [_] => True
  | p :: q :: r => R p q ∧ Consec R (q :: r)

theorem consecScan_iff (inv : Bool) : ∀ (vs : List (List Bool)) (v0 : List Bool),
    consecScan inv v0 vs = true ↔ Consec (fun p q => pairwiseLe inv p q = true) (v0 :: vs) := by
  intro vs
  induction vs with
  | nil => intro v0; simp [consecScan, Consec]
  | cons v r ih =>
    intro v0
    simp only [consecScan, Consec]
    by_cases h : pairwiseLe inv v0 v = true
    · simp [h, ih v]
    · simp [h]

theorem sortedRow_iff_consec (inv : Bool) : ∀ (l : List Bool),
    SortedRow inv l ↔ Consec (fun p q => p ≠ inv → q ≠ inv) l := by
  intro l
  induction l with
  | nil => simp [SortedRow, Consec]
  | cons p t ih =>
    cases t with
    | nil => simp [SortedRow, Consec]
    | cons q r =>
      simp only [SortedRow, Consec] at ih ⊢
      constructor
      · rintro ⟨h1, h2⟩
        exact ⟨fun hp => h1 hp q (by simp), ih.mp h2⟩
      · rintro ⟨h1, h2⟩
        have h2' := ih.mpr h2
        refine ⟨?_, h2'⟩
        intro hp w hw
        rcases List.mem_cons.mp hw with rfl | hw
        · exact h1 hp
        · exact h2'.1 (h1 hp) w hw

theorem pairwiseLe_iff (inv : Bool) (m : Nat) (p q : List Bool) (hp : p.length = m) (hq : q.length = m) :
    pairwiseLe inv p q = true ↔ ∀ o, o < m → (p.getD o false ≠ inv → q.getD o false ≠ inv) := by
  unfold pairwiseLe
  simp only [Bool.not_eq_true', List.any_eq_false]
  constructor
  · intro h o ho
    have hm : (q[o]'(hq ▸ ho), p[o]'(hp ▸ ho)) ∈ q.zip p := by
      rw [List.mem_iff_getElem]
      exact ⟨o, by simp [hp, hq, ho], by simp⟩
    have := h _ hm
    simp only [List.getD_eq_getElem?_getD, List.getElem?_eq_getElem (hp ▸ ho), List.getElem?_eq_getElem (hq ▸ ho),
      Option.getD_some]
    cases inv <;> cases hpv : p[o]'(hp ▸ ho) <;> cases hqv : q[o]'(hq ▸ ho) <;> simp_all
  · intro h x hx
    obtain ⟨o, ho, he⟩ := List.mem_iff_getElem.mp hx
    simp only [List.length_zip, hp, hq, Nat.min_self] at ho
    have := h o ho
    simp only [List.getD_eq_getElem?_getD, List.getElem?_eq_getElem (hp ▸ ho), List.getElem?_eq_getElem (hq ▸ ho),
      Option.getD_some] at this
    rw [List.getElem_zip] at he
    rw [← he]
    cases inv <;> cases hpv : p[o]'(hp ▸ ho) <;> cases hqv : q[o]'(hq ▸ ho) <;> simp_all

theorem consec_map {α β} (f : α → β) (R : β → β → Prop) : ∀ (l : List α),
    Consec R (l.map f) ↔ Consec (fun a b => R (f a) (f b)) l := by
  intro l
  induction l with
  | nil => simp [Consec]
  | cons a t ih =>
    cases t with
    | nil => simp [Consec]
    | cons b r => simp only [List.map_cons, Consec] at ih ⊢; rw [ih]

theorem consec_forall {α} (P : Nat → α → α → Prop) (m : Nat) : ∀ (l : List α),
    Consec (fun a b => ∀ o, o < m → P o a b) l ↔ ∀ o, o < m → Consec (P o) l := by
  intro l
  induction l with
  | nil => simp [Consec]
  | cons a t ih =>
    cases t with
    | nil => simp [Consec]
    | cons b r =>
      simp only [Consec] at ih ⊢
      rw [ih]
      constructor
      · rintro ⟨h1, h2⟩ o ho; exact ⟨h1 o ho, h2 o ho⟩
      · intro h; exact ⟨fun o ho => (h o ho).1, fun o ho => (h o ho).2⟩

theorem consec_congr {α} {R S : α → α → Prop} : ∀ (l : List α), (∀ a ∈ l, ∀ b ∈ l, (R a b ↔ S a b)) →
    (Consec R l ↔ Consec S l) := by
  intro l
  induction l with
  | nil => intro _; simp [Consec]
  | cons a t ih =>
    cases t with
    | nil => intro _; simp [Consec]
    | cons b r =>
      intro h
      simp only [Consec]
      rw [h a (by simp) b (by simp), ih (fun x hx y hy => h x (by simp [hx]) y (by simp [hy]))]

/-- **`PyFunction.is_monotone`** (whole output vectors compared pairwise along the enumeration) is the
per-output definition: every output row is sorted — for every function returning `m` outputs -/
theorem isMonotoneP_iff (F : FRep) (inv : Bool) (hlen : ∀ x, (F.ev x).length = F.m) :
    F.isMonotoneP inv = true ↔ ∀ o, o < F.m → SortedRow inv (F.row o) := by
  unfold isMonotoneP
  cases h : allInputs F.n with
  | nil => exact absurd h (allInputs_ne_nil _)
  | cons x0 r =>
    simp only
    rw [consecScan_iff]
    have e1 : (F.ev x0 :: r.map F.ev) = (x0 :: r).map F.ev := rfl
    rw [e1, consec_map]
    have e2 : ∀ o, F.row o = (x0 :: r).map (fun x => F.evAt x o) := by intro o; unfold row; rw [h]
    rw [consec_congr (S := fun a b => ∀ o, o < F.m → ((F.ev a).getD o false ≠ inv → (F.ev b).getD o false ≠ inv)) _
      (fun a _ b _ => pairwiseLe_iff inv F.m _ _ (hlen a) (hlen b))]
    rw [consec_forall (fun o a b => (F.ev a).getD o false ≠ inv → (F.ev b).getD o false ≠ inv)]
    constructor
    · intro hh o ho
      rw [sortedRow_iff_consec, e2 o, consec_map]
      exact hh o ho
    · intro hh o ho
      have := hh o ho
      rw [sortedRow_iff_consec, e2 o, consec_map] at this
      exact this

/-- hence the three representations agree on whole-function monotonicity -/
theorem isMonotoneP_eq_T (F : FRep) (inv : Bool) (hlen : ∀ x, (F.ev x).length = F.m) :
    F.isMonotoneP inv = F.isMonotoneT inv := by
  have h1 := isMonotoneP_iff F inv hlen
  have h2 := isMonotoneT_iff F inv
  cases hp : F.isMonotoneP inv <;> cases ht : F.isMonotoneT inv
  · rfl
  · exfalso
    have := h1.mpr (h2.mp ht)
    rw [hp] at this; cases this
  · exfalso
    have := h2.mpr (h1.mp hp)
    rw [ht] at this; cases this
  · rfl

end FRep
end Cirbo
