import Cirbo.Proofs.EvalCor
import Cirbo.Proofs.Func
/-!
# `get_gates_truth_table`: rows are the denotation over all input vectors; equal rows mean equal functions
-/
namespace Cirbo
open GateType V3

def NodupKeys {α} (d : Dict α) : Prop := (d.map (·.1)).Nodup

theorem nodupKeys_set {α} (d : Dict α) (k : Label) (x : α) (h : NodupKeys d) : NodupKeys (d.set k x) := by
  induction d with
  | nil => simp [Dict.set, NodupKeys]
  | cons p r ih =>
    obtain ⟨a, b⟩ := p
    simp only [Dict.set]
    have h' : a ∉ r.map (·.1) ∧ (r.map (·.1)).Nodup := List.nodup_cons.mp h
    split
    · exact h
    · rename_i hka
      simp only [NodupKeys, List.map_cons, List.nodup_cons]
      refine ⟨?_, ih h'.2⟩
      intro hm
      -- keys of (set r k x) are keys of r or k
      have : ∀ (r : Dict α), a ∈ (Dict.set r k x).map (·.1) → a ∈ r.map (·.1) ∨ a = k := by
        intro r
        induction r with
        | nil => intro h; simp [Dict.set] at h; exact Or.inr h
        | cons q t ih2 =>
          obtain ⟨c, e⟩ := q
          intro h
          simp only [Dict.set] at h
          split at h
          · exact Or.inl h
          · simp only [List.map_cons, List.mem_cons] at h ⊢
            rcases h with h | h
            · exact Or.inl (Or.inl h)
            · rcases ih2 h with h | h
              · exact Or.inl (Or.inr h)
              · exact Or.inr h
      rcases this r hm with h1 | h1
      · exact h'.1 h1
      · exact hka h1.symm

theorem nodupKeys_setDefault {α} (d : Dict α) (k : Label) (x : α) (h : NodupKeys d) : NodupKeys (d.setDefault k x) := by
  unfold Dict.setDefault; split
  · exact h
  · exact nodupKeys_set d k x h

theorem nodupKeys_foldSet {α} : ∀ (ps : List (Label × α)) (d : Dict α), NodupKeys d →
    NodupKeys (ps.foldl (fun d p => Dict.set d p.1 p.2) d) := by
  intro ps; induction ps with
  | nil => intro d h; exact h
  | cons p r ih => intro d h; exact ih _ (nodupKeys_set d p.1 p.2 h)

theorem get?_eq_of_mem {α} {d : Dict α} (h : NodupKeys d) {k : Label} {x : α} (hm : (k, x) ∈ d) : d.get? k = some x := by
  induction d with
  | nil => cases hm
  | cons p r ih =>
    obtain ⟨a, b⟩ := p
    have h' : a ∉ r.map (·.1) ∧ (r.map (·.1)).Nodup := List.nodup_cons.mp h
    simp only [Dict.get?]
    rcases List.mem_cons.mp hm with he | hm2
    · cases he; simp
    · have : k ≠ a := by
        intro e; subst e
        exact h'.1 (List.mem_map.mpr ⟨(k, x), hm2, rfl⟩)
      simp [this, ih h'.2 hm2]

/-- the accumulated rows after folding one full assignment in -/
theorem rowsStep_spec : ∀ (full : Dict V3) (acc : Dict (List V3)), NodupKeys full → ∀ l,
    ((full.foldl (fun acc p => acc.set p.1 ((acc.get? p.1).getD [] ++ [p.2])) acc).get? l).getD [] =
      (acc.get? l).getD [] ++ (full.get? l).toList := by
  intro full
  induction full with
  | nil => intro acc _ l; simp [Dict.get?]
  | cons p r ih =>
    intro acc hn l
    obtain ⟨a, b⟩ := p
    have h' : a ∉ r.map (·.1) ∧ (r.map (·.1)).Nodup := List.nodup_cons.mp hn
    simp only [List.foldl_cons]
    rw [ih _ h'.2 l, Dict.get?_set]
    simp only [Dict.get?]
    by_cases hl : l = a
    · subst hl
      have : Dict.get? r l = none := by
        cases hg : Dict.get? r l with
        | none => rfl
        | some x =>
          exfalso
          have : l ∈ r.map (·.1) := by
            clear ih hn h'
            induction r with
            | nil => simp [Dict.get?] at hg
            | cons q t ih3 =>
              obtain ⟨c, e⟩ := q
              simp only [Dict.get?] at hg
              by_cases hc : l = c
              · simp [hc]
              · simp only [hc, if_false] at hg; simp [ih3 hg]
          exact h'.1 this
      simp [this]
    · simp [hl]

theorem rows_spec : ∀ (fulls : List (Dict V3)) (acc : Dict (List V3)), (∀ f ∈ fulls, NodupKeys f) → ∀ l,
    ((fulls.foldl (fun acc full => full.foldl (fun acc p => acc.set p.1 ((acc.get? p.1).getD [] ++ [p.2])) acc) acc).get? l).getD [] =
      (acc.get? l).getD [] ++ fulls.flatMap (fun f => (f.get? l).toList) := by
  intro fulls
  induction fulls with
  | nil => intro acc _ l; simp
  | cons f r ih =>
    intro acc hn l
    simp only [List.foldl_cons]
    rw [ih _ (fun g hg => hn g (by simp [hg])) l, rowsStep_spec f acc (hn f (by simp)) l]
    simp [List.flatMap_cons]

theorem mapM_all2 {α β} (f : α → Except String β) : ∀ (xs : List α) (ys : List β), xs.mapM f = .ok ys →
    All2 (fun x y => f x = .ok y) xs ys := by
  intro xs
  induction xs with
  | nil => intro ys h; simp only [List.mapM_nil, pure, Except.pure, Except.ok.injEq] at h; subst h; exact .nil
  | cons x t ih =>
    intro ys h
    simp only [List.mapM_cons, bind, Except.bind] at h
    cases hx : f x with
    | error e => simp [hx] at h
    | ok y =>
      simp only [hx] at h
      cases ht : t.mapM f with
      | error e => simp [ht] at h
      | ok ys' =>
        simp only [ht, pure, Except.pure, Except.ok.injEq] at h
        subst h
        exact .cons hx (ih ys' ht)

theorem all2_mem_left {α β} {R : α → β → Prop} : ∀ {xs : List α} {ys : List β}, All2 R xs ys → ∀ x ∈ xs, ∃ y ∈ ys, R x y := by
  intro xs ys h
  induction h with
  | nil => intro x hx; cases hx
  | cons h1 _ ih =>
    intro x hx
    rcases List.mem_cons.mp hx with rfl | hx
    · exact ⟨_, by simp, h1⟩
    · obtain ⟨y, hy, hr⟩ := ih x hx
      exact ⟨y, by simp [hy], hr⟩

theorem all2_mem_right {α β} {R : α → β → Prop} : ∀ {xs : List α} {ys : List β}, All2 R xs ys → ∀ y ∈ ys, ∃ x ∈ xs, R x y := by
  intro xs ys h
  induction h with
  | nil => intro y hy; cases hy
  | cons h1 _ ih =>
    intro y hy
    rcases List.mem_cons.mp hy with rfl | hy
    · exact ⟨_, by simp, h1⟩
    · obtain ⟨x, hx, hr⟩ := ih y hy
      exact ⟨x, by simp [hx], hr⟩

theorem get?_foldSet_pairs (f : Label → V3) : ∀ (ls : List Label) (d : Asg) (k : Label),
    ((ls.map (fun i => (i, f i))).foldl (fun d p => Dict.set d p.1 p.2) d).get? k =
      if k ∈ ls then some (f k) else d.get? k := by
  intro ls
  induction ls with
  | nil => intro d k; simp
  | cons i r ih =>
    intro d k
    simp only [List.map_cons, List.foldl_cons, ih, Dict.get?_set, List.mem_cons]
    by_cases hr : k ∈ r
    · simp [hr]
    · by_cases hk : k = i <;> simp [hr, hk]

theorem zip_map_self (f : Label → V3) (ls : List Label) : ls.zip (ls.map f) = ls.map (fun i => (i, f i)) := by
  induction ls with
  | nil => rfl
  | cons i r ih => simp [ih]

theorem evalFullLoop_nodupKeys (c : Circuit) : ∀ (order : List Label) (d d' : Asg), NodupKeys d →
    evalFullLoop c order d = .ok d' → NodupKeys d' := by
  intro order
  induction order with
  | nil => intro d d' h he; simp only [evalFullLoop, Except.ok.injEq] at he; subst he; exact h
  | cons l r ih =>
    intro d d' h he
    simp only [evalFullLoop] at he
    cases hs : evalFullStep c d l with
    | error e => simp [hs] at he
    | ok d1 =>
      simp only [hs] at he
      refine ih d1 d' ?_ he
      unfold evalFullStep at hs
      cases hf : c.find? l with
      | none => simp [hf] at hs
      | some g =>
        simp only [hf] at hs
        split at hs
        · simp only [Except.ok.injEq] at hs; subst hs; exact h
        · cases hg : evalGate g d with
          | error e => simp [hg] at hs
          | ok r => simp only [hg, Except.ok.injEq] at hs; subst hs; exact nodupKeys_set d l r h

theorem evalFull_nodupKeys {c : Circuit} {asg d : Asg} (ha : NodupKeys asg) (h : evalFull c asg = .ok d) : NodupKeys d := by
  unfold evalFull at h
  split at h
  · cases h
  · refine evalFullLoop_nodupKeys c _ _ _ ?_ h
    unfold initAsg
    have : ∀ (ls : List Label) (d : Asg), NodupKeys d → NodupKeys (ls.foldl (fun d i => d.setDefault i V3.U) d) := by
      intro ls; induction ls with
      | nil => intro d h; exact h
      | cons i r ih => intro d h; exact ih _ (nodupKeys_setDefault d i _ h)
    exact this _ _ ha

/-- **equal rows of `get_gates_truth_table` mean equal functions**: two gates whose per-gate truth
tables coincide have the same value under every valuation of the circuit -/
theorem gtt_equal_rows_sound {c : Circuit} (h : WFU c) {gtt : Dict (List V3)} (hg : gatesTruthTable c = .ok gtt)
    {l l' : Label} (hl : l ∈ c.labels) (hl' : l' ∈ c.labels)
    (hrow : (gtt.get? l).getD [] = (gtt.get? l').getD []) {b v : Label → Bool} (hv : IsValB c b v) : v l = v l' := by
  unfold gatesTruthTable at hg
  simp only [bind, Except.bind] at hg
  cases hm : (allInputs c.inputs.length).mapM (fun bs =>
      evalFull c ((c.inputs.zip (bs.map V3.ofBool)).foldl (fun d p => d.set p.1 p.2) [])) with
  | error e => simp [hm] at hg
  | ok fulls =>
    simp only [hm, Except.ok.injEq] at hg
    subst hg
    have hall := mapM_all2 _ _ _ hm
    have hnk : ∀ f ∈ fulls, NodupKeys f := by
      intro f hf
      obtain ⟨bs, _, hbs⟩ := all2_mem_right hall f hf
      exact evalFull_nodupKeys (nodupKeys_foldSet _ _ (by simp [NodupKeys])) hbs
    rw [rows_spec fulls [] hnk l, rows_spec fulls [] hnk l'] at hrow
    simp only [Dict.get?, Option.getD_none, List.nil_append] at hrow
    -- the assignment of this valuation is one of the enumerated vectors
    have hmem : c.inputs.map b ∈ allInputs c.inputs.length := (mem_allInputs _ _).mpr (by simp)
    obtain ⟨d, hd, hev⟩ := all2_mem_left hall _ hmem
    obtain ⟨d', hev', hval, _⟩ := evalFull_spec h ((c.inputs.zip ((c.inputs.map b).map V3.ofBool)).foldl (fun d p => d.set p.1 p.2) [])
    rw [hev] at hev'
    cases hev'
    -- every full assignment has an entry for every gate, so rows are value lists
    have hsome : ∀ f ∈ fulls, ∀ x ∈ c.labels, (f.get? x).isSome = true := by
      intro f hf x hx
      obtain ⟨bs, _, hbs⟩ := all2_mem_right hall f hf
      obtain ⟨d2, hev2, _, hs2⟩ := evalFull_spec h ((c.inputs.zip (bs.map V3.ofBool)).foldl (fun d p => d.set p.1 p.2) [])
      rw [hbs] at hev2; cases hev2
      obtain ⟨gx, hgx, rfl⟩ := List.mem_map.mp hx
      exact hs2 gx hgx
    have hflat : ∀ (L : List (Dict V3)) (x : Label), (∀ f ∈ L, (f.get? x).isSome = true) →
        L.flatMap (fun f => (f.get? x).toList) = L.map (fun f => valOf f x) := by
      intro L x
      induction L with
      | nil => intro _; rfl
      | cons f r ih =>
        intro hs
        have h1 := hs f (by simp)
        cases hgf : f.get? x with
        | none => rw [hgf] at h1; cases h1
        | some y =>
          have := ih (fun g hg => hs g (by simp [hg]))
          simp only [List.flatMap_cons, List.map_cons, hgf, this]
          simp [valOf, hgf]
    rw [hflat fulls l (fun f hf => hsome f hf l hl), hflat fulls l' (fun f hf => hsome f hf l' hl')] at hrow
    have hd_eq : valOf d l = valOf d l' := List.map_inj_left.mp hrow d hd
    -- valOf d is the embedding of v
    have hv3 : IsVal3 c (fun x => ofBool (b x)) (valOf d) := by
      apply isVal3_congr _ hval
      intro g hgm hty
      have hin : g.label ∈ c.inputs := (h.inputsOK g.label).mpr ⟨g, hgm, rfl, hty⟩
      unfold asgFun
      rw [List.map_map, zip_map_self, get?_foldSet_pairs]
      simp [hin]
    have hu := val3_unique h.toWF hv3 (isVal3_of_isValB hv)
    obtain ⟨g1, hg1, rfl⟩ := List.mem_map.mp hl
    obtain ⟨g2, hg2, rfl⟩ := List.mem_map.mp hl'
    have e1 := hu g1 hg1
    have e2 := hu g2 hg2
    rw [e1, e2] at hd_eq
    exact ofBool_inj hd_eq

/-- the full assignment computed for the input vector of a valuation is (the embedding of) that valuation -/
theorem full_is_denotation {c : Circuit} (h : WFU c) {b v : Label → Bool} (hv : IsValB c b v) {d : Asg}
    (hev : evalFull c ((c.inputs.zip ((c.inputs.map b).map V3.ofBool)).foldl (fun d p => d.set p.1 p.2) []) = .ok d) :
    ∀ g ∈ c.gates, valOf d g.label = ofBool (v g.label) := by
  obtain ⟨d', hev', hval, _⟩ := evalFull_spec h ((c.inputs.zip ((c.inputs.map b).map V3.ofBool)).foldl (fun d p => d.set p.1 p.2) [])
  rw [hev] at hev'
  cases hev'
  have hv3 : IsVal3 c (fun x => ofBool (b x)) (valOf d) := by
    apply isVal3_congr _ hval
    intro g hgm hty
    have hin : g.label ∈ c.inputs := (h.inputsOK g.label).mpr ⟨g, hgm, rfl, hty⟩
    unfold asgFun
    rw [List.map_map, zip_map_self, get?_foldSet_pairs]
    simp [hin]
  exact val3_unique h.toWF hv3 (isVal3_of_isValB hv)

theorem all2_map_eq' {α β γ} {R : α → β → Prop} {f : α → γ} {g : β → γ} :
    ∀ {l1 : List α} {l2 : List β}, All2 R l1 l2 → (∀ a ∈ l1, ∀ b, R a b → f a = g b) → l1.map f = l2.map g := by
  intro l1 l2 h
  induction h with
  | nil => intro _; rfl
  | cons h1 _ ih =>
    intro hR
    simp only [List.map_cons]
    rw [hR _ (by simp) _ h1, ih (fun a ha b => hR a (by simp [ha]) b)]

/-- **`get_gates_truth_table()`**: the row of every gate lists its denotation over all input vectors
in counting order -/
theorem gatesTruthTable_spec {c : Circuit} (h : WFU c) {gtt : Dict (List V3)} (hg : gatesTruthTable c = .ok gtt)
    (B V : List Bool → Label → Bool)
    (hB : ∀ bs ∈ allInputs c.inputs.length, c.inputs.map (B bs) = bs ∧ IsValB c (B bs) (V bs))
    {l : Label} (hl : l ∈ c.labels) :
    (gtt.get? l).getD [] = (allInputs c.inputs.length).map (fun bs => ofBool (V bs l)) := by
  unfold gatesTruthTable at hg
  simp only [bind, Except.bind] at hg
  cases hm : (allInputs c.inputs.length).mapM (fun bs =>
      evalFull c ((c.inputs.zip (bs.map V3.ofBool)).foldl (fun d p => d.set p.1 p.2) [])) with
  | error e => simp [hm] at hg
  | ok fulls =>
    simp only [hm, Except.ok.injEq] at hg
    subst hg
    have hall := mapM_all2 _ _ _ hm
    have hnk : ∀ f ∈ fulls, NodupKeys f := by
      intro f hf
      obtain ⟨bs, _, hbs⟩ := all2_mem_right hall f hf
      exact evalFull_nodupKeys (nodupKeys_foldSet _ _ (by simp [NodupKeys])) hbs
    rw [rows_spec fulls [] hnk l]
    simp only [Dict.get?, Option.getD_none, List.nil_append]
    obtain ⟨gl, hgl, rfl⟩ := List.mem_map.mp hl
    have hsome : ∀ f ∈ fulls, (f.get? gl.label).isSome = true := by
      intro f hf
      obtain ⟨bs, _, hbs⟩ := all2_mem_right hall f hf
      obtain ⟨d2, hev2, _, hs2⟩ := evalFull_spec h ((c.inputs.zip (bs.map V3.ofBool)).foldl (fun d p => d.set p.1 p.2) [])
      rw [hbs] at hev2; cases hev2
      exact hs2 gl hgl
    have hflat : ∀ (L : List (Dict V3)), (∀ f ∈ L, (f.get? gl.label).isSome = true) →
        L.flatMap (fun f => (f.get? gl.label).toList) = L.map (fun f => valOf f gl.label) := by
      intro L
      induction L with
      | nil => intro _; rfl
      | cons f r ih =>
        intro hs
        have h1 := hs f (by simp)
        cases hgf : f.get? gl.label with
        | none => rw [hgf] at h1; cases h1
        | some y =>
          have := ih (fun g hg => hs g (by simp [hg]))
          simp only [List.flatMap_cons, List.map_cons, hgf, this]
          simp [valOf, hgf]
    rw [hflat fulls hsome]
    symm
    apply all2_map_eq' hall
    intro bs hbs d hd
    obtain ⟨e1, e2⟩ := hB bs hbs
    have := full_is_denotation h e2 (d := d) (by rw [e1]; exact hd)
    exact (this gl hgl).symm

end Cirbo
