import Cirbo.Proofs.BlockExtract
import Cirbo.Proofs.PassTotal
/-!
# `connect_circuit` returns: total correctness of the left direction
-/
namespace Cirbo
open GateType Circuit

theorem mapLabels_ok_of_all (m : Dict Label) : ∀ (ls : List Label), (∀ l ∈ ls, ∃ x, Dict.get? m l = some x) →
    ∃ r, mapLabels m ls = .ok r := by
  intro ls
  suffices h : ∀ (acc : List Label), (∀ l ∈ ls, ∃ x, Dict.get? m l = some x) →
      ∃ r, ls.foldl (fun (acc : R (List Label)) l => match acc with
        | .error e => .error e
        | .ok a => match Dict.get? m l with
          | none => .error "Py:KeyError"
          | some x => .ok (a ++ [x])) (.ok acc) = .ok r by
    intro hall
    exact h [] hall
  induction ls with
  | nil => intro acc _; exact ⟨acc, rfl⟩
  | cons l r ih =>
    intro acc hall
    obtain ⟨x, hx⟩ := hall l (by simp)
    simp only [List.foldl_cons, hx]
    exact ih _ (fun l' hl' => hall l' (by simp [hl']))

theorem mapLabels_values {m : Dict Label} {ls r : List Label} (h : mapLabels m ls = .ok r) :
    ∀ x ∈ r, ∃ l ∈ ls, Dict.get? m l = some x := by
  have := mapLabels_spec m ls r h
  clear h
  induction this with
  | nil => intro x hx; cases hx
  | @cons a b as bs h1 _ ih =>
    intro x hx
    rcases List.mem_cons.mp hx with rfl | hx
    · exact ⟨a, by simp, h1⟩
    · obtain ⟨l, hl, hg⟩ := ih x hx
      exact ⟨l, by simp [hl], hg⟩

theorem addGate_ok {c : Circuit} {g : Gate} (hf : g.label ∉ c.labels) (ho : ∀ o ∈ g.ops, o ∈ c.labels) :
    ∃ c', c.addGate g = .ok c' := by
  unfold addGate
  have h1 : c.hasGate g.label = false := (hasGate_false_iff c g.label).mpr hf
  have h2 : c.checkGatesExist g.ops = .ok () := by
    unfold checkGatesExist
    have : g.ops.all c.hasGate = true := List.all_eq_true.mpr (fun o h => (hasGate_iff c o).mpr (ho o h))
    simp [this]
  simp [h1, h2]

/-- the state of the loop, as far as its success is concerned -/
structure CTInv (c other : Circuit) (mapping : Dict Label) (pre : String) (done : List Label) (st : ConnSt) : Prop where
  lab : st.c.labels = c.labels ++ (done.filter (fun l => !Dict.contains mapping l)).map (fun l => pre ++ l)
  o2n : ∀ l ∈ done, ∃ x, Dict.get? st.o2n l = some x
  mapped : ∀ l x, Dict.get? mapping l = some x → Dict.get? st.o2n l = some x
  vals : ∀ l x, Dict.get? st.o2n l = some x → x ∈ st.c.labels
  sub : ∀ x ∈ st.c.gates, x ∈ c.gates ∨ ∃ cur ∈ done, ∃ g, other.find? cur = some g ∧
    Dict.contains mapping cur = false ∧ x.label = pre ++ cur ∧ x.ty = g.ty

theorem connStep_left_ok {c other : Circuit} {mapping : Dict Label} {pre : String} {done : List Label}
    {st : ConnSt} {cur : Label} {g : Gate} (inv : CTInv c other mapping pre done st) (hcur : cur ∉ done)
    (hf : other.find? cur = some g) (hops : ∀ o ∈ g.ops, o ∈ done)
    (hfresh : Dict.contains mapping cur = false → pre ++ cur ∉ c.labels) :
    ∃ st', connStep other mapping pre false (.ok st) cur = .ok st' ∧ CTInv c other mapping pre (done ++ [cur]) st' := by
  unfold connStep
  simp only [hf]
  by_cases hcm : Dict.contains mapping cur = true
  · simp only [hcm, Bool.not_true, Bool.false_eq_true, if_false]
    refine ⟨st, rfl, ?_, ?_, inv.mapped, inv.vals, ?_⟩
    rotate_left 2
    · intro x hx
      rcases inv.sub x hx with h1 | ⟨c2, hc2, g2, h2⟩
      · exact Or.inl h1
      · exact Or.inr ⟨c2, by simp [hc2], g2, h2⟩
    · rw [inv.lab, List.filter_append]
      simp [hcm]
    · intro l hl
      rcases List.mem_append.mp hl with hl | hl
      · exact inv.o2n l hl
      · simp only [List.mem_singleton] at hl; subst hl
        unfold Dict.contains at hcm
        cases hg : Dict.get? mapping l with
        | none => simp [hg] at hcm
        | some x => exact ⟨x, inv.mapped l x hg⟩
  · have hcf : Dict.contains mapping cur = false := by simpa using hcm
    simp only [hcf, Bool.not_false, if_true]
    obtain ⟨ops, hm⟩ := mapLabels_ok_of_all (Dict.set st.o2n cur (pre ++ cur)) g.ops (by
      intro l hl
      have hld := hops l hl
      have hne : l ≠ cur := fun e => hcur (e ▸ hld)
      obtain ⟨x, hx⟩ := inv.o2n l hld
      exact ⟨x, by rw [Dict.get?_set, if_neg hne]; exact hx⟩)
    simp only [hm]
    have hfl : pre ++ cur ∉ st.c.labels := by
      rw [inv.lab, List.mem_append]
      rintro (h1 | h1)
      · exact hfresh hcf h1
      · obtain ⟨x, hx, he⟩ := List.mem_map.mp h1
        have : x = cur := (String.append_right_inj pre).mp he
        subst this
        exact hcur (List.mem_filter.mp hx).1
    have hopsL : ∀ o ∈ ops, o ∈ st.c.labels := by
      intro o ho
      obtain ⟨l, hl, hg⟩ := mapLabels_values hm o ho
      have hne : l ≠ cur := fun e => hcur (e ▸ hops l hl)
      rw [Dict.get?_set, if_neg hne] at hg
      exact inv.vals l o hg
    obtain ⟨c1, ha⟩ := addGate_ok (g := ⟨pre ++ cur, g.ty, ops⟩) hfl hopsL
    simp only [ha]
    obtain ⟨_, _, hg1, _⟩ := addGate_fields ha
    have hl1 : c1.labels = st.c.labels ++ [pre ++ cur] := by
      unfold Circuit.labels; rw [hg1]; simp
    refine ⟨_, rfl, ?_, ?_, ?_, ?_, ?_⟩
    rotate_left 4
    · intro x hx
      simp only at hx
      rw [hg1] at hx
      rcases List.mem_append.mp hx with hx | hx
      · rcases inv.sub x hx with h1 | ⟨c2, hc2, g2, h2⟩
        · exact Or.inl h1
        · exact Or.inr ⟨c2, by simp [hc2], g2, h2⟩
      · simp only [List.mem_singleton] at hx; subst hx
        exact Or.inr ⟨cur, by simp, g, hf, hcf, rfl, rfl⟩
    · simp only
      rw [hl1, inv.lab, List.filter_append]
      simp [hcf]
    · intro l hl
      simp only
      rw [Dict.get?_set]
      rcases List.mem_append.mp hl with hl | hl
      · by_cases e : l = cur
        · exact ⟨_, by rw [if_pos e]⟩
        · rw [if_neg e]; exact inv.o2n l hl
      · simp only [List.mem_singleton] at hl
        exact ⟨_, by rw [if_pos hl]⟩
    · intro l x hl
      simp only
      have : l ≠ cur := by
        intro e; subst e
        simp [Dict.contains, hl] at hcf
      rw [Dict.get?_set, if_neg this]; exact inv.mapped l x hl
    · intro l x hl
      simp only at hl ⊢
      rw [hl1]
      rw [Dict.get?_set] at hl
      by_cases e : l = cur
      · rw [if_pos e] at hl; cases hl; simp
      · rw [if_neg e] at hl; simp [inv.vals l x hl]

theorem connLoop_left_ok {c other : Circuit} {mapping : Dict Label} {pre : String}
    (hfresh : ∀ g ∈ other.gates, Dict.contains mapping g.label = false → pre ++ g.label ∉ c.labels) :
    ∀ (rest done : List Label) (st0 : ConnSt), (done ++ rest).Nodup →
      (∀ cur ∈ rest, ∃ g, other.find? cur = some g) →
      (∀ cur ∈ done ++ rest, ∀ g, other.find? cur = some g → ∀ o ∈ g.ops, ∀ p q, done ++ rest = p ++ cur :: q → o ∈ p) →
      CTInv c other mapping pre done st0 →
      ∃ st, rest.foldl (connStep other mapping pre false) (.ok st0) = .ok st ∧ CTInv c other mapping pre (done ++ rest) st := by
  intro rest
  induction rest with
  | nil => intro done st0 _ _ _ hi; exact ⟨st0, rfl, by simpa using hi⟩
  | cons cur rest ih =>
    intro done st0 hnd hex hto hi
    have hcur : cur ∉ done := by
      intro hm
      have := List.nodup_append.mp hnd
      exact this.2.2 cur hm cur (by simp) rfl
    obtain ⟨g, hf⟩ := hex cur (by simp)
    obtain ⟨hgm, hgl⟩ := find_some_mem hf
    obtain ⟨st1, hs, k1⟩ := connStep_left_ok hi hcur hf
      (fun o ho => hto cur (by simp) g hf o ho done rest rfl)
      (fun hc => by have := hfresh g hgm (by rw [hgl]; exact hc); rw [hgl] at this; exact this)
    simp only [List.foldl_cons, hs]
    obtain ⟨st, h2, k2⟩ := ih (done ++ [cur]) st1 (by simpa using hnd)
      (fun x hx => hex x (by simp [hx])) (by simpa using hto) k1
    exact ⟨st, h2, by simpa using k2⟩

theorem bfold_ok {o2n : Dict Label} {pre : String} : ∀ (bs : List Block) (cc : Circuit),
    (∀ b ∈ bs, cc.blocks.any (fun x => x.name == pre ++ b.name) = false) → (bs.map (·.name)).Nodup →
    (∀ b ∈ bs, (∀ l ∈ b.inputs, ∃ x, Dict.get? o2n l = some x) ∧ (∀ l ∈ b.gates, ∃ x, Dict.get? o2n l = some x) ∧
      (∀ l ∈ b.outputs, ∃ x, Dict.get? o2n l = some x)) →
    ∃ c3, bs.foldl (bstepFn o2n pre) (.ok cc) = .ok c3 := by
  intro bs
  induction bs with
  | nil => intro cc _ _ _; exact ⟨cc, rfl⟩
  | cons b r ih =>
    intro cc hn hnd hl
    simp only [List.foldl_cons]
    obtain ⟨h1, h2, h3⟩ := hl b (by simp)
    obtain ⟨i, hi⟩ := mapLabels_ok_of_all o2n b.inputs h1
    obtain ⟨g, hg⟩ := mapLabels_ok_of_all o2n b.gates h2
    obtain ⟨o, ho⟩ := mapLabels_ok_of_all o2n b.outputs h3
    have hstep : bstepFn o2n pre (.ok cc) b = .ok { cc with blocks := cc.blocks ++ [⟨pre ++ b.name, i, g, o⟩] } := by
      unfold bstepFn
      simp only [hn b (by simp), Bool.false_eq_true, if_false, hi, hg, ho]
    rw [hstep]
    have hnd' := List.nodup_cons.mp (by simpa using hnd : (b.name :: r.map (·.name)).Nodup)
    apply ih
    · intro b' hb'
      simp only [List.any_append, List.any_cons, List.any_nil, Bool.or_false, Bool.or_eq_false_iff]
      refine ⟨hn b' (by simp [hb']), ?_⟩
      simp only [beq_eq_false_iff_ne, ne_eq]
      intro e
      have : b.name = b'.name := (String.append_right_inj pre).mp e
      exact hnd'.1 (this ▸ List.mem_map_of_mem hb')
    · exact hnd'.2
    · intro b' hb'; exact hl b' (by simp [hb'])

theorem contains_connMapping_of_mem {thisC otherC : List Label} (hlen : thisC.length = otherC.length) :
    ∀ l ∈ otherC, Dict.contains (connMapping thisC otherC) l = true := by
  intro l hl
  obtain ⟨i, hi, rfl⟩ := List.getElem_of_mem hl
  have hmem : (otherC[i], thisC[i]'(by omega)) ∈ otherC.zip thisC := by
    rw [List.mem_iff_getElem]
    exact ⟨i, by simp; omega, by simp⟩
  -- the key is set at least once
  have key : ∀ (ps : List (Label × Label)) (m : Dict Label) (k : Label), (k ∈ ps.map (·.1) ∨ Dict.contains m k = true) →
      Dict.contains (ps.foldl (fun m p => Dict.set m p.1 p.2) m) k = true := by
    intro ps
    induction ps with
    | nil => intro m k h; rcases h with h | h; · cases h
             · exact h
    | cons p r ih =>
      intro m k h
      simp only [List.foldl_cons]
      apply ih
      rcases h with h | h
      · simp only [List.map_cons, List.mem_cons] at h
        rcases h with rfl | h
        · right; unfold Dict.contains; rw [Dict.get?_set]; simp
        · left; exact h
      · right
        unfold Dict.contains at h ⊢
        rw [Dict.get?_set]
        by_cases e : k = p.1 <;> simp [e, h]
  exact key _ _ _ (Or.inl (List.mem_map.mpr ⟨_, hmem, rfl⟩))

theorem nodup_map_of_inj {α β} {f : α → β} (hf : ∀ a b, f a = f b → a = b) : ∀ (l : List α), l.Nodup → (l.map f).Nodup := by
  intro l
  induction l with
  | nil => intro _; simp
  | cons x r ih =>
    intro h
    have h' := List.nodup_cons.mp h
    simp only [List.map_cons, List.nodup_cons]
    refine ⟨?_, ih h'.2⟩
    intro hm
    obtain ⟨y, hy, e⟩ := List.mem_map.mp hm
    exact h'.1 (hf _ _ e ▸ hy)

theorem checkGatesExist_ok' {c : Circuit} {ls : List Label} (h : ∀ l ∈ ls, l ∈ c.labels) : c.checkGatesExist ls = .ok () := by
  unfold checkGatesExist
  have : ls.all c.hasGate = true := List.all_eq_true.mpr (fun o ho => (hasGate_iff c o).mpr (h o ho))
  simp [this]

/-- **a left connection returns**: on circuits satisfying the invariant, with existing connectors
(distinct INPUT gates of the attached circuit, as many base gates), fresh copy labels and block names -/
theorem connect_left_total {c other : Circuit} {thisC otherC : List Label} {name : Label} {addP : Bool}
    (hw : WFS c) (hwo : WFS other)
    (hblk : c.blocks.any (fun b => b.name == name) = false)
    (hthis : ∀ l ∈ thisC, l ∈ c.labels)
    (hoth : ∀ l ∈ otherC, (other.find? l).map (·.ty) = some INPUT)
    (hndo : otherC.Nodup) (hlen : thisC.length = otherC.length)
    (hfresh : ∀ g ∈ other.gates, g.label ∉ otherC → connPre name addP ++ g.label ∉ c.labels)
    (hbn : ∀ b ∈ other.blocks, c.blocks.any (fun x => x.name == connPre name addP ++ b.name) = false)
    (hbd : (other.blocks.map (·.name)).Nodup)
    (hbo : ∀ b ∈ other.blocks, ∀ l ∈ b.outputs, l ∈ other.labels) :
    ∃ c', c.connectCircuit other thisC otherC false name addP = .ok c' := by
  have hothL : ∀ l ∈ otherC, l ∈ other.labels := by
    intro l hl
    have := hoth l hl
    cases hf : other.find? l with
    | none => simp [hf] at this
    | some g => obtain ⟨hgm, hgl⟩ := find_some_mem hf; exact hgl ▸ mem_labels_of_mem hgm
  obtain ⟨order, hts, hperm, hord⟩ := topSort_inv_spec hwo.toWFG
  have hndord : order.Nodup := hperm.nodup_iff.mpr hwo.nodup
  have hnm : ∀ l, l ∉ otherC → Dict.contains (connMapping thisC otherC) l = false := by
    intro l hl
    cases hcm : Dict.contains (connMapping thisC otherC) l with
    | false => rfl
    | true =>
      exfalso
      rcases contains_zipFold _ _ _ hcm with h1 | h1
      · simp [Dict.contains, Dict.get?] at h1
      · obtain ⟨p, hp, hpe⟩ := List.mem_map.mp h1
        exact hl (hpe ▸ (List.of_mem_zip hp).1)
  have hmk := contains_connMapping_of_mem hlen
  have hto : ∀ cur ∈ order, ∀ g, other.find? cur = some g → ∀ o ∈ g.ops, ∀ p q, order = p ++ cur :: q → o ∈ p := by
    intro cur hcur g hf o ho p q hpq
    obtain ⟨hgm, hgl⟩ := find_some_mem hf
    exact hord p cur q hpq g hgm hgl o ho
  have hmvals : ∀ l x, Dict.get? (connMapping thisC otherC) l = some x → x ∈ c.labels := by
    intro l x hl
    rcases get?_zipFold_mem_zip _ _ l x hl with h1 | h1
    · exact hthis x (List.of_mem_zip h1).2
    · simp [Dict.get?] at h1
  -- the loop
  obtain ⟨st, hfold, tinv⟩ := connLoop_left_ok (c := c) (other := other) (mapping := connMapping thisC otherC)
    (pre := connPre name addP)
    (fun g hg hc => hfresh g hg (fun hm => by rw [hmk _ hm] at hc; cases hc))
    order [] ⟨c, connMapping thisC otherC, []⟩ (by simpa using hndord)
    (fun cur hcur => by
      have : cur ∈ other.labels := hperm.mem_iff.mp hcur
      obtain ⟨g, hg, hgl⟩ := gate_of_label this
      exact ⟨g, hgl ▸ find_of_mem hwo.nodup hg⟩)
    (by simpa using hto)
    ⟨(by simp), (by intro l hl; cases hl), fun _ _ h => h, hmvals, fun x hx => Or.inl hx⟩
  simp only [List.nil_append] at tinv
  obtain ⟨hinv, _⟩ := connLoop_sem order [] ⟨c, _, []⟩ st (by simpa using hndord) (by simpa using hto)
    ⟨by intro cur hc; simp at hc, fun _ _ h => h⟩ hfold
  simp only [List.nil_append] at hinv
  have k0 : ConnKInv ⟨c, connMapping thisC otherC, []⟩ := ⟨hw, hmvals, by intro x hx; cases hx⟩
  have kinv := connLoop_kinv hwo.inputOps order _ st k0 hfold
  obtain ⟨extra, sg, so, sb, si, snd⟩ := connLoop_struct order _ st hfold
  simp only at sg so sb si
  have ho2n : ∀ l ∈ other.labels, ∃ x, Dict.get? st.o2n l = some x :=
    fun l hl => tinv.o2n l (hperm.mem_iff.mpr hl)
  have hcsub : ∀ l ∈ c.labels, l ∈ st.c.labels := by
    intro l hl; rw [tinv.lab]; exact List.mem_append_left _ hl
  -- the tail, step by step
  obtain ⟨outs2, ho2⟩ := mapLabels_ok_of_all st.o2n (other.outputs.filter (fun o => !otherC.contains o))
    (fun l hl => ho2n l (hwo.outputsOK l (List.mem_filter.mp hl).1))
  obtain ⟨c1, hso⟩ := setOutputs_ok (n := st.c) (outs := st.c.outputs.filter (fun o => !thisC.contains o) ++ outs2) (by
    intro o ho
    rcases List.mem_append.mp ho with ho | ho
    · exact kinv.wfs.outputsOK o (List.mem_filter.mp ho).1
    · obtain ⟨l, _, hg⟩ := mapLabels_values ho2 o ho
      exact kinv.vals l o hg)
  have hg1 := setOutputs_gates hso
  have hl1 : c1.labels = st.c.labels := by unfold Circuit.labels; rw [hg1]
  obtain ⟨ins2, hi2⟩ := mapLabels_ok_of_all st.o2n (other.inputs.filter (fun i => !otherC.contains i))
    (fun l hl => by
      have := (hwo.inputsOK l).mp (List.mem_filter.mp hl).1
      obtain ⟨g, hg, hgl, _⟩ := this
      exact ho2n l (hgl ▸ mem_labels_of_mem hg))
  have hany : c.inputs.any (fun i => !c1.hasGate i) = false := by
    rw [List.any_eq_false]
    intro i hi
    obtain ⟨g, hg, hgl, _⟩ := (hw.inputsOK i).mp hi
    have : i ∈ c1.labels := by rw [hl1]; exact hcsub i (hgl ▸ mem_labels_of_mem hg)
    simp [(hasGate_iff c1 i).mpr this]
  -- what `ins2` is
  have hins2 : ins2 = (other.inputs.filter (fun i => !otherC.contains i)).map (fun l => connPre name addP ++ l) := by
    rw [mapLabels_eq_map hi2]
    apply List.map_congr_left
    intro l hl
    have hlf := List.mem_filter.mp hl
    have hnot : l ∉ otherC := by simpa using hlf.2
    obtain ⟨g, hg, hgl, _⟩ := (hwo.inputsOK l).mp hlf.1
    have hin : l ∈ order := hperm.mem_iff.mpr (hgl ▸ mem_labels_of_mem hg)
    have := (hinv.added l hin g (hgl ▸ find_of_mem hwo.nodup hg) (hnm l hnot)).1
    simp [this]
  have hnd1 : c1.labels.Nodup := by rw [hl1]; exact kinv.wfs.nodup
  obtain ⟨c2, hsi⟩ := setInputs_ok (n := c1) hnd1
    (ins := c.inputs.filter (fun i => ((c1.find? i).map (·.ty)) == some INPUT) ++ ins2) (by
      -- distinct
      rw [List.nodup_append]
      refine ⟨hw.inputsNodup.sublist List.filter_sublist, ?_, ?_⟩
      · rw [hins2]
        exact nodup_map_of_inj (fun a b e => (String.append_right_inj _).mp e) _ (hwo.inputsNodup.sublist List.filter_sublist)
      · intro a ha b hb e
        subst e
        have hac : a ∈ c.labels := by
          obtain ⟨g, hg, hgl, _⟩ := (hw.inputsOK a).mp (List.mem_filter.mp ha).1
          exact hgl ▸ mem_labels_of_mem hg
        rw [hins2] at hb
        obtain ⟨l, hl, rfl⟩ := List.mem_map.mp hb
        have hlf := List.mem_filter.mp hl
        have hnot : l ∉ otherC := by simpa using hlf.2
        obtain ⟨g, hg, hgl, _⟩ := (hwo.inputsOK l).mp hlf.1
        exact hfresh g hg (hgl ▸ hnot) (hgl ▸ hac))
    (by
      intro i hi
      rcases List.mem_append.mp hi with hi | hi
      · have hf := (List.mem_filter.mp hi).2
        cases hfi : c1.find? i with
        | none => simp [hfi] at hf
        | some g =>
          simp only [hfi, Option.map_some, beq_iff_eq, Option.some.injEq] at hf
          obtain ⟨hgm, hgl⟩ := find_some_mem hfi
          exact ⟨g, hgm, hgl, hf⟩
      · rw [hins2] at hi
        obtain ⟨l, hl, rfl⟩ := List.mem_map.mp hi
        have hlf := List.mem_filter.mp hl
        have hnot : l ∉ otherC := by simpa using hlf.2
        obtain ⟨g, hg, hgl, hty⟩ := (hwo.inputsOK l).mp hlf.1
        have hin : l ∈ order := hperm.mem_iff.mpr (hgl ▸ mem_labels_of_mem hg)
        obtain ⟨_, ops', _, e3⟩ := hinv.added l hin g (hgl ▸ find_of_mem hwo.nodup hg) (hnm l hnot)
        exact ⟨⟨connPre name addP ++ l, g.ty, ops'⟩, (by rw [hg1]; exact e3), rfl, hty⟩)
    (by
      intro x hx hty
      rw [hg1] at hx
      rcases tinv.sub x hx with h1 | ⟨cur, hcur, g, hf, hcm, hxl, hxt⟩
      · apply List.mem_append_left
        have hi : x.label ∈ c.inputs := (hw.inputsOK x.label).mpr ⟨x, h1, rfl, hty⟩
        refine List.mem_filter.mpr ⟨hi, ?_⟩
        have : c1.find? x.label = some x := by
          have := find_of_mem (c := c1) hnd1 (by rw [hg1]; exact hx)
          exact this
        simp [this, hty]
      · apply List.mem_append_right
        rw [hins2, hxl]
        obtain ⟨hgm, hgl⟩ := find_some_mem hf
        refine List.mem_map.mpr ⟨cur, List.mem_filter.mpr ⟨?_, ?_⟩, rfl⟩
        · exact (hwo.inputsOK cur).mpr ⟨g, hgm, hgl, hxt ▸ hty⟩
        · have : cur ∉ otherC := fun hm => by rw [hmk _ hm] at hcm; cases hcm
          simpa using this)
  have hl2 : c2.labels = st.c.labels := by
    unfold Circuit.labels; rw [setInputs_gates hsi, hg1]
  have hb2 : c2.blocks = c.blocks := by
    have e1 : c1.blocks = st.c.blocks := by
      unfold setOutputs at hso
      split at hso
      · cases hso
      · simp only [Except.ok.injEq] at hso; subst hso; rfl
    have e2 : c2.blocks = c1.blocks := by
      unfold setInputs at hsi
      split at hsi
      · cases hsi
      · split at hsi
        · cases hsi
        · split at hsi
          · cases hsi
          · simp only [Except.ok.injEq] at hsi; subst hsi; rfl
    rw [e2, e1, sb]
  obtain ⟨c3, hbf⟩ := bfold_ok (o2n := st.o2n) (pre := connPre name addP) other.blocks c2
    (fun b hb => by rw [hb2]; exact hbn b hb) hbd
    (fun b hb => ⟨fun l hl => ho2n l ((hwo.blocksOK b hb).2 l hl), fun l hl => ho2n l ((hwo.blocksOK b hb).1 l hl),
      fun l hl => ho2n l (hbo b hb l hl)⟩)
  obtain ⟨bi, hbi⟩ := mapLabels_ok_of_all st.o2n other.inputs (fun l hl => by
    obtain ⟨g, hg, hgl, _⟩ := (hwo.inputsOK l).mp hl
    exact ho2n l (hgl ▸ mem_labels_of_mem hg))
  obtain ⟨bo, hbo'⟩ := mapLabels_ok_of_all st.o2n other.outputs (fun l hl => ho2n l (hwo.outputsOK l hl))
  -- assemble
  unfold connectCircuit
  simp only [Bool.false_eq_true, if_false, hblk, checkGatesExist_ok' hthis, checkGatesExist_ok' hothL]
  have hnd' : nodupL otherC = true := (nodupL_iff _).mpr hndo
  have hlen' : (thisC.length != otherC.length) = false := by simp [hlen]
  have hty' : otherC.any (fun l => ((other.find? l).map (·.ty)) != some INPUT) = false := by
    rw [List.any_eq_false]
    intro l hl
    simp [hoth l hl]
  simp only [hnd', Bool.not_true, Bool.false_and, Bool.or_false, hlen', hty', Bool.false_eq_true, if_false, hts]
  have hfold' : order.foldl (connStep other (connMapping thisC otherC) (connPre name addP) false)
      (.ok ⟨c, connMapping thisC otherC, []⟩) = .ok st := hfold
  simp only [hfold']
  unfold connFinish
  simp only [ho2, hso, hi2, hany, Bool.false_eq_true, if_false, hsi]
  have hbf' : other.blocks.foldl (fun (acc : R Circuit) (b : Block) => match acc with
      | .error e => .error e
      | .ok cc =>
        let nb := connPre name addP ++ b.name
        if cc.blocks.any (fun x => x.name == nb) then .error "CircuitValidationError" else
        match mapLabels st.o2n b.inputs, mapLabels st.o2n b.gates, mapLabels st.o2n b.outputs with
        | .ok i, .ok g, .ok o => .ok { cc with blocks := cc.blocks ++ [⟨nb, i, g, o⟩] }
        | _, _, _ => .error "Py:KeyError") (.ok c2) = .ok c3 := hbf
  generalize hr3 : List.foldl _ (Except.ok c2) other.blocks = r3
  have hr3' : r3 = .ok c3 := by rw [← hr3]; exact hbf'
  subst hr3'
  simp only [hbi, hbo']
  split
  · exact ⟨_, rfl⟩
  · split <;> exact ⟨_, rfl⟩

/-! ## the right direction -/

structure CTInvR (c other : Circuit) (mapping : Dict Label) (pre : String) (done : List Label) (st : ConnSt) : Prop where
  lab : st.c.labels = c.labels ++ (done.filter (fun l => !Dict.contains mapping l)).map (fun l => pre ++ l)
  o2n : ∀ l ∈ done, ∃ x, Dict.get? st.o2n l = some x
  mapped : ∀ l x, Dict.get? mapping l = some x → Dict.get? st.o2n l = some x
  vals : ∀ l x, Dict.get? st.o2n l = some x → x ∈ st.c.labels
  sub : ∀ x ∈ st.c.gates, x.ty = INPUT → x.label ∈ c.inputs ∨ ∃ cur ∈ done, ∃ g, other.find? cur = some g ∧
    Dict.contains mapping cur = false ∧ x.label = pre ++ cur ∧ g.ty = INPUT

theorem connStep_right_ok {c other : Circuit} {mapping : Dict Label} {pre : String} {done : List Label}
    {st : ConnSt} {cur : Label} {g : Gate} (inv : CTInvR c other mapping pre done st) (hcur : cur ∉ done)
    (hf : other.find? cur = some g) (hops : ∀ o ∈ g.ops, o ∈ done)
    (hfresh : Dict.contains mapping cur = false → pre ++ cur ∉ c.labels)
    (hmi : ∀ l x, Dict.get? mapping l = some x → x ∈ c.inputs) :
    ∃ st', connStep other mapping pre true (.ok st) cur = .ok st' ∧ CTInvR c other mapping pre (done ++ [cur]) st' := by
  unfold connStep
  simp only [hf]
  by_cases hcm : Dict.contains mapping cur = true
  · simp only [hcm, Bool.not_true, Bool.false_eq_true, if_false, if_true]
    obtain ⟨lbl, hlm⟩ : ∃ l, Dict.get? mapping cur = some l := by
      unfold Dict.contains at hcm
      cases hg : Dict.get? mapping cur with
      | none => simp [hg] at hcm
      | some l => exact ⟨l, rfl⟩
    have hgo := inv.mapped cur lbl hlm
    simp only [hgo]
    obtain ⟨ops, hm⟩ := mapLabels_ok_of_all st.o2n g.ops (fun l hl => inv.o2n l (hops l hl))
    simp only [hm]
    have hgates : ∀ (cc : Circuit), ((ops.foldl (fun c o => c.addUser o lbl) st.c).setGate ⟨lbl, g.ty, ops⟩).gates =
        st.c.gates.map (replG ⟨lbl, g.ty, ops⟩) := by
      intro _; rw [(setGate_fields _ _).1, (foldl_addUser_gates _ _ _).1]
    have hls : lbl ∈ st.c.labels := inv.vals cur lbl hgo
    have hhas : (ops.foldl (fun c o => c.addUser o lbl) st.c).hasGate lbl = true := by
      rw [hasGate_iff, foldl_addUser_labels]; exact hls
    rw [if_pos hhas]
    have hlab : ((ops.foldl (fun c o => c.addUser o lbl) st.c).setGate ⟨lbl, g.ty, ops⟩).labels = st.c.labels := by
      unfold Circuit.labels; rw [hgates st.c, labels_map_replG]
    refine ⟨_, rfl, ?_, ?_, inv.mapped, ?_, ?_⟩
    · simp only
      rw [hlab, inv.lab, List.filter_append]
      simp [hcm]
    · intro l hl
      rcases List.mem_append.mp hl with hl | hl
      · exact inv.o2n l hl
      · simp only [List.mem_singleton] at hl; subst hl; exact ⟨lbl, hgo⟩
    · intro l x hl
      simp only at hl ⊢
      rw [hlab]; exact inv.vals l x hl
    · intro x hx hty
      simp only at hx
      rw [hgates st.c] at hx
      obtain ⟨y, hy, rfl⟩ := List.mem_map.mp hx
      unfold replG at hty ⊢
      by_cases e : y.label = lbl
      · simp only [beq_iff_eq, e, if_true] at hty ⊢
        exact Or.inl (hmi cur lbl hlm)
      · simp only [beq_iff_eq, e, if_false] at hty ⊢
        rcases inv.sub y hy hty with h1 | ⟨c2, hc2, g2, h2⟩
        · exact Or.inl h1
        · exact Or.inr ⟨c2, by simp [hc2], g2, h2⟩
  · have hcf : Dict.contains mapping cur = false := by simpa using hcm
    simp only [hcf, Bool.not_false, if_true]
    obtain ⟨ops, hm⟩ := mapLabels_ok_of_all (Dict.set st.o2n cur (pre ++ cur)) g.ops (by
      intro l hl
      have hld := hops l hl
      have hne : l ≠ cur := fun e => hcur (e ▸ hld)
      obtain ⟨x, hx⟩ := inv.o2n l hld
      exact ⟨x, by rw [Dict.get?_set, if_neg hne]; exact hx⟩)
    simp only [hm]
    have hfl : pre ++ cur ∉ st.c.labels := by
      rw [inv.lab, List.mem_append]
      rintro (h1 | h1)
      · exact hfresh hcf h1
      · obtain ⟨x, hx, he⟩ := List.mem_map.mp h1
        have : x = cur := (String.append_right_inj pre).mp he
        subst this
        exact hcur (List.mem_filter.mp hx).1
    have hopsL : ∀ o ∈ ops, o ∈ st.c.labels := by
      intro o ho
      obtain ⟨l, hl, hg⟩ := mapLabels_values hm o ho
      have hne : l ≠ cur := fun e => hcur (e ▸ hops l hl)
      rw [Dict.get?_set, if_neg hne] at hg
      exact inv.vals l o hg
    obtain ⟨c1, ha⟩ := addGate_ok (g := ⟨pre ++ cur, g.ty, ops⟩) hfl hopsL
    simp only [ha]
    obtain ⟨_, _, hg1, _⟩ := addGate_fields ha
    have hl1 : c1.labels = st.c.labels ++ [pre ++ cur] := by
      unfold Circuit.labels; rw [hg1]; simp
    refine ⟨_, rfl, ?_, ?_, ?_, ?_, ?_⟩
    · simp only
      rw [hl1, inv.lab, List.filter_append]
      simp [hcf]
    · intro l hl
      simp only
      rw [Dict.get?_set]
      rcases List.mem_append.mp hl with hl | hl
      · by_cases e : l = cur
        · exact ⟨_, by rw [if_pos e]⟩
        · rw [if_neg e]; exact inv.o2n l hl
      · simp only [List.mem_singleton] at hl
        exact ⟨_, by rw [if_pos hl]⟩
    · intro l x hl
      simp only
      have : l ≠ cur := by
        intro e; subst e
        simp [Dict.contains, hl] at hcf
      rw [Dict.get?_set, if_neg this]; exact inv.mapped l x hl
    · intro l x hl
      simp only at hl ⊢
      rw [hl1]
      rw [Dict.get?_set] at hl
      by_cases e : l = cur
      · rw [if_pos e] at hl; cases hl; simp
      · rw [if_neg e] at hl; simp [inv.vals l x hl]
    · intro x hx hty
      simp only at hx
      rw [hg1] at hx
      rcases List.mem_append.mp hx with hx | hx
      · rcases inv.sub x hx hty with h1 | ⟨c2, hc2, g2, h2⟩
        · exact Or.inl h1
        · exact Or.inr ⟨c2, by simp [hc2], g2, h2⟩
      · simp only [List.mem_singleton] at hx; subst hx
        exact Or.inr ⟨cur, by simp, g, hf, hcf, rfl, hty⟩

theorem connLoop_right_ok {c other : Circuit} {mapping : Dict Label} {pre : String}
    (hfresh : ∀ g ∈ other.gates, Dict.contains mapping g.label = false → pre ++ g.label ∉ c.labels)
    (hmi : ∀ l x, Dict.get? mapping l = some x → x ∈ c.inputs) :
    ∀ (rest done : List Label) (st0 : ConnSt), (done ++ rest).Nodup →
      (∀ cur ∈ rest, ∃ g, other.find? cur = some g) →
      (∀ cur ∈ done ++ rest, ∀ g, other.find? cur = some g → ∀ o ∈ g.ops, ∀ p q, done ++ rest = p ++ cur :: q → o ∈ p) →
      CTInvR c other mapping pre done st0 →
      ∃ st, rest.foldl (connStep other mapping pre true) (.ok st0) = .ok st ∧ CTInvR c other mapping pre (done ++ rest) st := by
  intro rest
  induction rest with
  | nil => intro done st0 _ _ _ hi; exact ⟨st0, rfl, by simpa using hi⟩
  | cons cur rest ih =>
    intro done st0 hnd hex hto hi
    have hcur : cur ∉ done := by
      intro hm
      have := List.nodup_append.mp hnd
      exact this.2.2 cur hm cur (by simp) rfl
    obtain ⟨g, hf⟩ := hex cur (by simp)
    obtain ⟨hgm, hgl⟩ := find_some_mem hf
    obtain ⟨st1, hs, k1⟩ := connStep_right_ok hi hcur hf
      (fun o ho => hto cur (by simp) g hf o ho done rest rfl)
      (fun hc => by have := hfresh g hgm (by rw [hgl]; exact hc); rw [hgl] at this; exact this) hmi
    simp only [List.foldl_cons, hs]
    obtain ⟨st, h2, k2⟩ := ih (done ++ [cur]) st1 (by simpa using hnd)
      (fun x hx => hex x (by simp [hx])) (by simpa using hto) k1
    exact ⟨st, h2, by simpa using k2⟩

/-- **a right connection returns**: on circuits satisfying the invariant, with distinct INPUT gates of
the base as `this_connectors`, as many existing gates of the attached circuit, fresh copy labels and
block names -/
theorem connect_right_total {c other : Circuit} {thisC otherC : List Label} {name : Label} {addP : Bool}
    (hw : WFS c) (hwo : WFS other)
    (hblk : c.blocks.any (fun b => b.name == name) = false)
    (hthisI : ∀ l ∈ thisC, (c.find? l).map (·.ty) = some INPUT)
    (hothL : ∀ l ∈ otherC, l ∈ other.labels)
    (hndt : thisC.Nodup) (hndo : otherC.Nodup) (hlen : thisC.length = otherC.length)
    (hfresh : ∀ g ∈ other.gates, g.label ∉ otherC → connPre name addP ++ g.label ∉ c.labels)
    (hbn : ∀ b ∈ other.blocks, c.blocks.any (fun x => x.name == connPre name addP ++ b.name) = false)
    (hbd : (other.blocks.map (·.name)).Nodup)
    (hbo : ∀ b ∈ other.blocks, ∀ l ∈ b.outputs, l ∈ other.labels) :
    ∃ c', c.connectCircuit other thisC otherC true name addP = .ok c' := by
  have hthisG : ∀ l ∈ thisC, ∃ g ∈ c.gates, g.label = l ∧ g.ty = INPUT := by
    intro l hl
    have := hthisI l hl
    cases hf : c.find? l with
    | none => simp [hf] at this
    | some g =>
      simp only [hf, Option.map_some, Option.some.injEq] at this
      obtain ⟨hgm, hgl⟩ := find_some_mem hf
      exact ⟨g, hgm, hgl, this⟩
  have hthis : ∀ l ∈ thisC, l ∈ c.labels := fun l hl => by
    obtain ⟨g, hg, hgl, _⟩ := hthisG l hl; exact hgl ▸ mem_labels_of_mem hg
  have hthisIn : ∀ l ∈ thisC, l ∈ c.inputs := fun l hl => (hw.inputsOK l).mpr (hthisG l hl)
  obtain ⟨order, hts, hperm, hord⟩ := topSort_inv_spec hwo.toWFG
  have hndord : order.Nodup := hperm.nodup_iff.mpr hwo.nodup
  have hnm : ∀ l, l ∉ otherC → Dict.contains (connMapping thisC otherC) l = false := by
    intro l hl
    cases hcm : Dict.contains (connMapping thisC otherC) l with
    | false => rfl
    | true =>
      exfalso
      rcases contains_zipFold _ _ _ hcm with h1 | h1
      · simp [Dict.contains, Dict.get?] at h1
      · obtain ⟨p, hp, hpe⟩ := List.mem_map.mp h1
        exact hl (hpe ▸ (List.of_mem_zip hp).1)
  have hmk := contains_connMapping_of_mem hlen
  have hto : ∀ cur ∈ order, ∀ g, other.find? cur = some g → ∀ o ∈ g.ops, ∀ p q, order = p ++ cur :: q → o ∈ p := by
    intro cur hcur g hf o ho p q hpq
    obtain ⟨hgm, hgl⟩ := find_some_mem hf
    exact hord p cur q hpq g hgm hgl o ho
  have hmz : ∀ k x, Dict.get? (connMapping thisC otherC) k = some x → (k, x) ∈ otherC.zip thisC := by
    intro k x hk
    rcases get?_zipFold_mem_zip _ _ k x hk with h1 | h1
    · exact h1
    · simp [Dict.get?] at h1
  have hmvals : ∀ l x, Dict.get? (connMapping thisC otherC) l = some x → x ∈ c.labels :=
    fun l x hl => hthis x (List.of_mem_zip (hmz l x hl)).2
  have hinj : ∀ k1 k2 x, Dict.get? (connMapping thisC otherC) k1 = some x →
      Dict.get? (connMapping thisC otherC) k2 = some x → k1 = k2 :=
    fun k1 k2 x h1 h2 => zip_snd_inj otherC thisC k1 k2 x hndt (hmz _ _ h1) (hmz _ _ h2)
  have hfr' : ∀ g ∈ other.gates, Dict.contains (connMapping thisC otherC) g.label = false →
      connPre name addP ++ g.label ∉ c.labels :=
    fun g hg hc => hfresh g hg (fun hm => by rw [hmk _ hm] at hc; cases hc)
  have hfind : ∀ cur ∈ order, ∃ g, other.find? cur = some g := fun cur hcur => by
    have : cur ∈ other.labels := hperm.mem_iff.mp hcur
    obtain ⟨g, hg, hgl⟩ := gate_of_label this
    exact ⟨g, hgl ▸ find_of_mem hwo.nodup hg⟩
  -- the loop
  obtain ⟨st, hfold, tinv⟩ := connLoop_right_ok (c := c) (other := other) (mapping := connMapping thisC otherC)
    (pre := connPre name addP) hfr' (fun l x hl => hthisIn x (List.of_mem_zip (hmz l x hl)).2)
    order [] ⟨c, connMapping thisC otherC, []⟩ (by simpa using hndord) hfind (by simpa using hto)
    ⟨(by simp), (by intro l hl; cases hl), fun _ _ h => h, hmvals, fun x hx hty => Or.inl ((hw.inputsOK x.label).mpr ⟨x, hx, rfl, hty⟩)⟩
  simp only [List.nil_append] at tinv
  have hinv := connLoopR_sem (c := c) (pre := connPre name addP) hinj (fun k x hk => hmvals k x hk)
    order [] ⟨c, _, []⟩ st (by simpa using hndord) (by simpa using hto)
    ⟨by intro cur hc; simp at hc, by intro cur hc; simp at hc, fun _ _ h => h, fun _ h => h, fun _ h _ => h, rfl, rfl⟩ hfold
  simp only [List.nil_append] at hinv
  obtain ⟨rO, kinv⟩ := connRight_loop_kinv hw hwo hndt hthisI hthis hothL hts hfold
  have hndst : st.c.labels.Nodup := kinv.wfs.nodup
  have ho2n : ∀ l ∈ other.labels, ∃ x, Dict.get? st.o2n l = some x :=
    fun l hl => tinv.o2n l (hperm.mem_iff.mpr hl)
  have hcsub : ∀ l ∈ c.labels, l ∈ st.c.labels := by
    intro l hl; rw [tinv.lab]; exact List.mem_append_left _ hl
  -- the tail, step by step
  obtain ⟨outs2, ho2⟩ := mapLabels_ok_of_all st.o2n (other.outputs.filter (fun o => !otherC.contains o))
    (fun l hl => ho2n l (hwo.outputsOK l (List.mem_filter.mp hl).1))
  obtain ⟨c1, hso⟩ := setOutputs_ok (n := st.c) (outs := st.c.outputs.filter (fun o => !thisC.contains o) ++ outs2) (by
    intro o ho
    rcases List.mem_append.mp ho with ho | ho
    · exact kinv.wfs.outputsOK o (List.mem_filter.mp ho).1
    · obtain ⟨l, _, hg⟩ := mapLabels_values ho2 o ho
      exact kinv.vals l o hg)
  have hg1 := setOutputs_gates hso
  have hl1 : c1.labels = st.c.labels := by unfold Circuit.labels; rw [hg1]
  obtain ⟨ins2, hi2⟩ := mapLabels_ok_of_all st.o2n (other.inputs.filter (fun i => !otherC.contains i))
    (fun l hl => by
      have := (hwo.inputsOK l).mp (List.mem_filter.mp hl).1
      obtain ⟨g, hg, hgl, _⟩ := this
      exact ho2n l (hgl ▸ mem_labels_of_mem hg))
  have hany : c.inputs.any (fun i => !c1.hasGate i) = false := by
    rw [List.any_eq_false]
    intro i hi
    obtain ⟨g, hg, hgl, _⟩ := (hw.inputsOK i).mp hi
    have : i ∈ c1.labels := by rw [hl1]; exact hcsub i (hgl ▸ mem_labels_of_mem hg)
    simp [(hasGate_iff c1 i).mpr this]
  have hins2 : ins2 = (other.inputs.filter (fun i => !otherC.contains i)).map (fun l => connPre name addP ++ l) := by
    rw [mapLabels_eq_map hi2]
    apply List.map_congr_left
    intro l hl
    have hlf := List.mem_filter.mp hl
    have hnot : l ∉ otherC := by simpa using hlf.2
    obtain ⟨g, hg, hgl, _⟩ := (hwo.inputsOK l).mp hlf.1
    have hin : l ∈ order := hperm.mem_iff.mpr (hgl ▸ mem_labels_of_mem hg)
    have := (hinv.added l hin g (hgl ▸ find_of_mem hwo.nodup hg) (hnm l hnot)).1
    simp [this]
  have hnd1 : c1.labels.Nodup := by rw [hl1]; exact hndst
  obtain ⟨c2, hsi⟩ := setInputs_ok (n := c1) hnd1
    (ins := c.inputs.filter (fun i => ((c1.find? i).map (·.ty)) == some INPUT) ++ ins2) (by
      rw [List.nodup_append]
      refine ⟨hw.inputsNodup.sublist List.filter_sublist, ?_, ?_⟩
      · rw [hins2]
        exact nodup_map_of_inj (fun a b e => (String.append_right_inj _).mp e) _ (hwo.inputsNodup.sublist List.filter_sublist)
      · intro a ha b hb e
        subst e
        have hac : a ∈ c.labels := by
          obtain ⟨g, hg, hgl, _⟩ := (hw.inputsOK a).mp (List.mem_filter.mp ha).1
          exact hgl ▸ mem_labels_of_mem hg
        rw [hins2] at hb
        obtain ⟨l, hl, rfl⟩ := List.mem_map.mp hb
        have hlf := List.mem_filter.mp hl
        have hnot : l ∉ otherC := by simpa using hlf.2
        obtain ⟨g, hg, hgl, _⟩ := (hwo.inputsOK l).mp hlf.1
        exact hfresh g hg (hgl ▸ hnot) (hgl ▸ hac))
    (by
      intro i hi
      rcases List.mem_append.mp hi with hi | hi
      · have hf := (List.mem_filter.mp hi).2
        cases hfi : c1.find? i with
        | none => simp [hfi] at hf
        | some g =>
          simp only [hfi, Option.map_some, beq_iff_eq, Option.some.injEq] at hf
          obtain ⟨hgm, hgl⟩ := find_some_mem hfi
          exact ⟨g, hgm, hgl, hf⟩
      · rw [hins2] at hi
        obtain ⟨l, hl, rfl⟩ := List.mem_map.mp hi
        have hlf := List.mem_filter.mp hl
        have hnot : l ∉ otherC := by simpa using hlf.2
        obtain ⟨g, hg, hgl, hty⟩ := (hwo.inputsOK l).mp hlf.1
        have hin : l ∈ order := hperm.mem_iff.mpr (hgl ▸ mem_labels_of_mem hg)
        obtain ⟨_, _, ops', _, e3⟩ := hinv.added l hin g (hgl ▸ find_of_mem hwo.nodup hg) (hnm l hnot)
        exact ⟨⟨connPre name addP ++ l, g.ty, ops'⟩, (by rw [hg1]; exact e3), rfl, hty⟩)
    (by
      intro x hx hty
      rw [hg1] at hx
      rcases tinv.sub x hx hty with h1 | ⟨cur, hcur, g, hf, hcm, hxl, hxt⟩
      · apply List.mem_append_left
        refine List.mem_filter.mpr ⟨h1, ?_⟩
        have : c1.find? x.label = some x := find_of_mem (c := c1) hnd1 (by rw [hg1]; exact hx)
        simp [this, hty]
      · apply List.mem_append_right
        rw [hins2, hxl]
        obtain ⟨hgm, hgl⟩ := find_some_mem hf
        refine List.mem_map.mpr ⟨cur, List.mem_filter.mpr ⟨?_, ?_⟩, rfl⟩
        · exact (hwo.inputsOK cur).mpr ⟨g, hgm, hgl, hxt⟩
        · have : cur ∉ otherC := fun hm => by rw [hmk _ hm] at hcm; cases hcm
          simpa using this)
  have hl2 : c2.labels = st.c.labels := by
    unfold Circuit.labels; rw [setInputs_gates hsi, hg1]
  have hb2 : c2.blocks = c.blocks := by
    have e1 : c1.blocks = st.c.blocks := by
      unfold setOutputs at hso
      split at hso
      · cases hso
      · simp only [Except.ok.injEq] at hso; subst hso; rfl
    have e2 : c2.blocks = c1.blocks := by
      unfold setInputs at hsi
      split at hsi
      · cases hsi
      · split at hsi
        · cases hsi
        · split at hsi
          · cases hsi
          · simp only [Except.ok.injEq] at hsi; subst hsi; rfl
    rw [e2, e1, hinv.blks]
  obtain ⟨c3, hbf⟩ := bfold_ok (o2n := st.o2n) (pre := connPre name addP) other.blocks c2
    (fun b hb => by rw [hb2]; exact hbn b hb) hbd
    (fun b hb => ⟨fun l hl => ho2n l ((hwo.blocksOK b hb).2 l hl), fun l hl => ho2n l ((hwo.blocksOK b hb).1 l hl),
      fun l hl => ho2n l (hbo b hb l hl)⟩)
  obtain ⟨bi, hbi⟩ := mapLabels_ok_of_all st.o2n other.inputs (fun l hl => by
    obtain ⟨g, hg, hgl, _⟩ := (hwo.inputsOK l).mp hl
    exact ho2n l (hgl ▸ mem_labels_of_mem hg))
  obtain ⟨bo, hbo'⟩ := mapLabels_ok_of_all st.o2n other.outputs (fun l hl => ho2n l (hwo.outputsOK l hl))
  -- assemble
  unfold connectCircuit
  simp only [if_true, hblk, Bool.false_eq_true, if_false, checkGatesExist_ok' hthis, checkGatesExist_ok' hothL]
  have hnd' : nodupL thisC = true := (nodupL_iff _).mpr hndt
  have hlen' : (thisC.length != otherC.length) = false := by simp [hlen]
  have hty' : thisC.any (fun l => ((c.find? l).map (·.ty)) != some INPUT) = false := by
    rw [List.any_eq_false]
    intro l hl
    simp [hthisI l hl]
  have hnd'' : nodupL otherC = true := (nodupL_iff _).mpr hndo
  simp only [hnd', hnd'', Bool.not_true, Bool.true_and, Bool.or_self, hlen', hty', Bool.false_eq_true, if_false, hts]
  have hfold' : order.foldl (connStep other (connMapping thisC otherC) (connPre name addP) true)
      (.ok ⟨c, connMapping thisC otherC, []⟩) = .ok st := hfold
  simp only [hfold']
  unfold connFinish
  simp only [ho2, hso, hi2, hany, Bool.false_eq_true, if_false, hsi]
  generalize hr3 : List.foldl _ (Except.ok c2) other.blocks = r3
  have hr3' : r3 = .ok c3 := by rw [← hr3]; exact hbf
  subst hr3'
  simp only [hbi, hbo']
  split
  · exact ⟨_, rfl⟩
  · split <;> exact ⟨_, rfl⟩

end Cirbo
