import Cirbo.Proofs.GenTotalSum
import Cirbo.Proofs.GenTotalArith
import Cirbo.Proofs.GenTotalDivSqrt
/-!
# Totality of div-mod and square root: the hypotheses of GenTotalDivSqrt discharged
-/
namespace Cirbo
open GateType Circuit

theorem dd_hSubCmp : dd_HSubCmp := fun a b _ _ _ hinv hk ha hb hane hbne =>
  ca_ok_addSubtractWithCompare hinv hk ha hb hane hbne

theorem dd_hSumOne : dd_HSumOne := fun a u _ _ _ hinv hk ha hu hane =>
  (ok_addSumTwoNumbers (b := [u]) (be := false) hinv hk ha (by intro l hl; simp only [List.mem_singleton] at hl; subst hl; exact hu)
    hane (by simp)).mono (fun r _ ⟨i1, k1, h⟩ => ⟨i1, k1, by
      have : 1 ≤ a.length := List.length_pos_iff.mpr hane
      simp only [List.length_cons, List.length_nil] at h; omega⟩)

/-- **`add_div_mod` returns** on operands of one width ≥ 1 that are gates of the circuit (either endianness) -/
theorem ok_addDivMod {a b : List Label} {be : Bool} {st : GSt} {P K : List Label} (hinv : Inv st P) (hk : Kn st K)
    (ha : ∀ l ∈ a, l ∈ K) (hb : ∀ l ∈ b, l ∈ K) (hlen : a.length = b.length) (hpos : 1 ≤ a.length) :
    Ok (addDivMod a b be) st (GPost P K (fun r => r.1 ++ r.2) (fun r => r.1.length = a.length ∧ r.2.length = a.length)) :=
  dd_ok_addDivMod dd_hSubCmp (be := be) hinv hk ha hb hlen hpos

/-- **`add_sqrt` returns** on an operand of width ≥ 1 whose bits are gates of the circuit (either endianness) -/
theorem ok_addSqrt {ins : List Label} {be : Bool} {st : GSt} {P K : List Label} (hinv : Inv st P) (hk : Kn st K)
    (hi : ∀ l ∈ ins, l ∈ K) (hpos : 1 ≤ ins.length) :
    Ok (addSqrt ins be) st (GPost P K id (fun r => r.length = (ins.length + 1) / 2)) :=
  dd_ok_addSqrt dd_hSubCmp dd_hSumOne (be := be) hinv hk hi hpos

end Cirbo
