import Cirbo.Proofs.BenchWfs
/-!
# `remove_block` keeps the C02 invariant
-/
namespace Cirbo
open GateType Circuit

def mentions (S : List Label) (b : Block) : Bool :=
  S.any (fun l => b.gates.contains l || b.inputs.contains l || b.outputs.contains l)

/-- the state after the gates `S` have been removed by `_remove_gate`, one after the other -/
structure RBInv (c cur : Circuit) (S : List Label) : Prop where
  gates : cur.gates = c.gates.filter (fun g => !S.contains g.label)
  inputs : cur.inputs = c.inputs.filter (fun i => !S.contains i)
  outputs : cur.outputs = c.outputs.filter (fun o => !S.contains o)
  blocks : cur.blocks = c.blocks.filter (fun b => !mentions S b)
  users : ∀ l u, (cur.usersOf l).count u = if S.contains l || S.contains u then 0 else (c.usersOf l).count u

theorem rbinv_init (c : Circuit) : RBInv c c [] := by
  refine ⟨?_, ?_, ?_, ?_, ?_⟩
  · exact (List.filter_eq_self.mpr (fun _ _ => by simp)).symm
  · exact (List.filter_eq_self.mpr (fun _ _ => by simp)).symm
  · exact (List.filter_eq_self.mpr (fun _ _ => by simp)).symm
  · exact (List.filter_eq_self.mpr (fun _ _ => by simp [mentions])).symm
  · intro l u; simp

theorem contains_append_single (S : List Label) (l x : Label) :
    (S ++ [l]).contains x = (S.contains x || x == l) := by
  cases h1 : S.contains x <;> cases h2 : (x == l) <;> simp_all [List.contains_eq_mem, List.mem_append]

/-- everything `_remove_gate` does, on success -/
theorem rawRemoveGate_fields {cur cur' : Circuit} {l : Label} (h : cur.rawRemoveGate l = .ok cur') :
    ∃ g, cur.find? l = some g ∧
      cur'.gates = cur.gates.filter (fun x => !(x.label == l)) ∧
      cur'.inputs = (if g.ty = INPUT then cur.inputs.erase l else cur.inputs) ∧
      (g.ty = INPUT → l ∈ cur.inputs) ∧
      cur'.outputs = cur.outputs.filter (fun o => !(o == l)) ∧
      cur'.blocks = cur.blocks.filter (fun b => !(b.gates.contains l || b.inputs.contains l || b.outputs.contains l)) ∧
      ∀ x, cur'.usersOf x = if x = l then [] else eraseN l (g.ops.count x) (cur.usersOf x) := by
  unfold rawRemoveGate at h
  cases hf : cur.find? l with
  | none => simp [hf] at h
  | some g =>
    simp only [hf] at h
    obtain ⟨a, b, d, e⟩ := foldl_removeUser_fields g.ops cur l
    have hus : ∀ x, (Dict.get? (Dict.erase (List.foldl (fun c o => c.removeUser o l) cur g.ops).users l) x).getD [] =
        if x = l then [] else eraseN l (g.ops.count x) (cur.usersOf x) := by
      intro x
      rw [get?_erase]
      by_cases hx : x = l
      · simp [hx]
      · simp only [hx, if_false]
        rw [← usersOf_eq, usersOf_foldl_removeUser]
    split at h
    · cases h
    · rename_i hcond
      simp only [Except.ok.injEq] at h
      subst h
      by_cases hgi : g.ty = INPUT
      · simp only [hgi, if_true]
        refine ⟨g, rfl, ?_, ?_, ?_, ?_, ?_, ?_⟩
        · rw [a]
        · simp only [hgi, if_true]; rw [b]
        · intro _
          simp only [hgi, decide_true, Bool.true_and, Bool.not_eq_true', Bool.not_eq_false] at hcond
          simpa [b] using hcond
        · rw [d]
        · rw [e]
        · intro x; rw [usersOf_eq]; exact hus x
      · simp only [hgi, if_false]
        refine ⟨g, rfl, ?_, ?_, fun hh => absurd hh hgi, ?_, ?_, ?_⟩
        · rw [a]
        · simp only [hgi, if_false]; rw [b]
        · rw [d]
        · rw [e]
        · intro x; rw [usersOf_eq]; exact hus x

theorem rawRemoveGate_rbinv {c cur cur' : Circuit} {S : List Label} {l : Label} (hw : WFS c)
    (inv : RBInv c cur S) (h : cur.rawRemoveGate l = .ok cur') : RBInv c cur' (S ++ [l]) := by
  obtain ⟨g, hf, fg, fi, fin, fo, fb, fu⟩ := rawRemoveGate_fields h
  obtain ⟨hgcur, hgl⟩ := find_some_mem hf
  have hgc : g ∈ c.gates := by rw [inv.gates] at hgcur; exact (List.mem_filter.mp hgcur).1
  have hSl : S.contains l = false := by
    rw [inv.gates] at hgcur
    have := (List.mem_filter.mp hgcur).2
    rw [hgl] at this
    simpa using this
  refine ⟨?_, ?_, ?_, ?_, ?_⟩
  · rw [fg, inv.gates, List.filter_filter]
    apply List.filter_congr
    intro x _
    rw [contains_append_single]
    cases h1 : S.contains x.label <;> cases h2 : (x.label == l) <;> simp
  · by_cases hgi : g.ty = INPUT
    · simp only [hgi, if_true] at fi
      rw [fi, inv.inputs]
      have hnd : (c.inputs.filter (fun i => !S.contains i)).Nodup := hw.inputsNodup.filter _
      rw [hnd.erase_eq_filter, List.filter_filter]
      apply List.filter_congr
      intro x _
      rw [contains_append_single]
      cases h1 : S.contains x <;> cases h2 : (x == l) <;> simp [h2, bne]
    · simp only [hgi, if_false] at fi
      rw [fi, inv.inputs]
      apply List.filter_congr
      intro x hx
      rw [contains_append_single]
      have : (x == l) = false := by
        cases hxl : (x == l) with
        | false => rfl
        | true =>
          exfalso
          have e : x = l := by simpa using hxl
          obtain ⟨g', hg', hgl', hty'⟩ := (hw.inputsOK x).mp hx
          have h1 := find_label hw.nodup hg'
          rw [hgl', e, ← hgl, find_label hw.nodup hgc] at h1
          exact hgi ((Option.some.inj h1) ▸ hty')
      simp [this]
  · rw [fo, inv.outputs, List.filter_filter]
    apply List.filter_congr
    intro x _
    rw [contains_append_single]
    cases h1 : S.contains x <;> cases h2 : (x == l) <;> simp
  · rw [fb, inv.blocks, List.filter_filter]
    apply List.filter_congr
    intro b _
    simp only [mentions, List.any_append, List.any_cons, List.any_nil, Bool.or_false]
    cases h1 : S.any (fun l => b.gates.contains l || b.inputs.contains l || b.outputs.contains l) <;>
      cases h2 : (b.gates.contains l || b.inputs.contains l || b.outputs.contains l) <;> simp [h1, h2]
  · intro x u
    rw [fu x, contains_append_single, contains_append_single]
    by_cases hx : x = l
    · simp [hx]
    · have hxl : (x == l) = false := by simpa using hx
      simp only [hx, if_false, hxl, Bool.or_false]
      rw [count_eraseN]
      by_cases hu : u = l
      · subst hu
        simp only [if_true, beq_self_eq_true, Bool.or_true]
        rw [inv.users x u, hSl]
        cases hxS : S.contains x
        · simp only [Bool.or_self, Bool.false_eq_true, if_false]
          have := hw.usersC x g hgc
          rw [hgl] at this
          omega
        · simp
      · have hul : (u == l) = false := by simpa using hu
        simp only [hu, if_false, hul, Bool.or_false]
        exact inv.users x u

def rbStep (acc : R Circuit) (g : Label) : R Circuit := match acc with
  | .error e => .error e
  | .ok c' => c'.rawRemoveGate g

theorem rbFold_error (e : String) : ∀ (ls : List Label), ls.foldl rbStep (.error e) = .error e := by
  intro ls; induction ls with
  | nil => rfl
  | cons a t ih => simpa [rbStep] using ih

theorem rbFold_inv {c : Circuit} (hw : WFS c) : ∀ (ls S : List Label) (cur c' : Circuit), RBInv c cur S →
    ls.foldl rbStep (.ok cur) = .ok c' → RBInv c c' (S ++ ls) := by
  intro ls
  induction ls with
  | nil => intro S cur c' inv h; simp at h; subst h; simpa using inv
  | cons l t ih =>
    intro S cur c' inv h
    simp only [List.foldl_cons] at h
    cases hs : rbStep (.ok cur) l with
    | error e => rw [hs, rbFold_error] at h; cases h
    | ok c1 =>
      rw [hs] at h
      have := ih (S ++ [l]) c1 c' (rawRemoveGate_rbinv hw inv hs) h
      simpa using this

theorem contrib_filter_labels (G : List Gate) (S : List Label) (l u : Label) :
    contrib (G.filter (fun g => !S.contains g.label)) l u = if S.contains u then 0 else contrib G l u := by
  unfold contrib
  rw [List.filter_filter]
  by_cases hu : S.contains u = true
  · simp only [hu, if_true]
    have : G.filter (fun a => (decide (a.label = u)) && !S.contains a.label) = [] := by
      apply List.filter_eq_nil_iff.mpr
      intro g _
      have hu' : u ∈ S := by simpa using hu
      by_cases e : g.label = u
      · simp [e, hu']
      · simp [e]
    rw [this]; rfl
  · simp only [hu, Bool.false_eq_true, if_false]
    congr 2
    apply List.filter_congr
    intro g _
    have hu' : u ∉ S := by simpa using hu
    by_cases e : g.label = u
    · simp [e, hu']
    · simp [e]

/-- the circuit left after removing a set of gates nobody outside the set uses -/
theorem rbinv_wfs {c c' : Circuit} {S : List Label} (hw : WFS c) (inv : RBInv c c' S)
    (hno : ∀ l ∈ S, ∀ u ∈ c.usersOf l, u ∈ S) : WFS c' := by
  have hgm : ∀ g, g ∈ c'.gates ↔ g ∈ c.gates ∧ g.label ∉ S := by
    intro g; rw [inv.gates, List.mem_filter]; simp
  have hlab : ∀ l, l ∈ c'.labels ↔ l ∈ c.labels ∧ l ∉ S := by
    intro l
    unfold Circuit.labels
    simp only [List.mem_map]
    constructor
    · rintro ⟨g, hg, rfl⟩; exact ⟨⟨g, ((hgm g).mp hg).1, rfl⟩, ((hgm g).mp hg).2⟩
    · rintro ⟨⟨g, hg, rfl⟩, hn⟩; exact ⟨g, (hgm g).mpr ⟨hg, hn⟩, rfl⟩
  have hnd' : c'.labels.Nodup := by
    unfold Circuit.labels; rw [inv.gates]
    exact (List.Nodup.sublist ((List.filter_sublist).map _) hw.nodup)
  -- an operand of a remaining gate is not removed
  have hopS : ∀ g ∈ c.gates, g.label ∉ S → ∀ o ∈ g.ops, o ∉ S := by
    intro g hg hgs o ho hoS
    have hc := hw.usersC o g hg
    have : g.label ∈ c.usersOf o := List.count_pos_iff.mp (by rw [hc]; exact List.count_pos_iff.mpr ho)
    exact hgs (hno o hoS g.label this)
  have husers : ∀ l u, (c'.usersOf l).count u = contrib c'.gates l u := by
    intro l u
    rw [inv.users l u, inv.gates, contrib_filter_labels, ← users_count_of_wfs hw]
    by_cases hu : S.contains u = true
    · simp only [hu, Bool.or_true, if_true]
    · have hu' : S.contains u = false := by simpa using hu
      simp only [hu', Bool.or_false, Bool.false_eq_true, if_false]
      by_cases hl : S.contains l = true
      · simp only [hl, if_true]
        symm
        apply List.count_eq_zero.mpr
        intro hm
        exact hu (by simpa using hno l (by simpa using hl) u hm)
      · have hl' : S.contains l = false := by simpa using hl
        simp only [hl', Bool.false_eq_true, if_false]
  obtain ⟨uL, uC⟩ := users_of_count hnd' husers
  obtain ⟨r, hrk⟩ := hw.rank
  refine ⟨hnd', ?_, ⟨r, ?_⟩, ?_, ?_, ?_, uL, uC, ?_, ?_⟩
  · intro g hg o ho
    obtain ⟨h1, h2⟩ := (hgm g).mp hg
    exact (hlab o).mpr ⟨hw.closed g h1 o ho, hopS g h1 h2 o ho⟩
  · intro g hg o ho
    exact hrk g ((hgm g).mp hg).1 o ho
  · rw [inv.inputs]; exact hw.inputsNodup.filter _
  · intro l
    rw [inv.inputs, List.mem_filter]
    constructor
    · rintro ⟨hl, hs⟩
      obtain ⟨g, hg, hgl, hty⟩ := (hw.inputsOK l).mp hl
      exact ⟨g, (hgm g).mpr ⟨hg, by rw [hgl]; simpa using hs⟩, hgl, hty⟩
    · rintro ⟨g, hg, hgl, hty⟩
      obtain ⟨h1, h2⟩ := (hgm g).mp hg
      exact ⟨(hw.inputsOK l).mpr ⟨g, h1, hgl, hty⟩, by rw [← hgl]; simpa using h2⟩
  · intro o ho
    rw [inv.outputs, List.mem_filter] at ho
    exact (hlab o).mpr ⟨hw.outputsOK o ho.1, by simpa using ho.2⟩
  · intro b hb
    rw [inv.blocks, List.mem_filter] at hb
    obtain ⟨hb1, hb2⟩ := hb
    obtain ⟨h1, h2⟩ := hw.blocksOK b hb1
    have hnm : ∀ l ∈ S, ¬ (b.gates.contains l || b.inputs.contains l || b.outputs.contains l) = true := by
      intro l hl hm
      simp only [mentions, Bool.not_eq_true', List.any_eq_false] at hb2
      exact hb2 l hl hm
    constructor
    · intro l hl
      refine (hlab l).mpr ⟨h1 l hl, fun hs => hnm l hs (by simp [hl])⟩
    · intro l hl
      refine (hlab l).mpr ⟨h2 l hl, fun hs => hnm l hs (by simp [hl])⟩
  · intro g hg hty
    exact hw.inputOps g ((hgm g).mp hg).1 hty

/-- **`remove_block`** keeps every clause of the invariant -/
theorem removeBlock_wfs {c c' : Circuit} {name : Label} (hw : WFS c) (h : c.removeBlock name = .ok c') : WFS c' := by
  unfold removeBlock at h
  cases hf : c.blocks.find? (fun b => b.name == name) with
  | none => simp [hf] at h
  | some b =>
    simp only [hf] at h
    split at h
    · rename_i hno
      unfold rawRemoveBlock at h
      simp only [hf] at h
      have hfold : b.gates.foldl rbStep (.ok c) = .ok c' := h
      have inv := rbFold_inv hw b.gates [] c c' (rbinv_init c) hfold
      simp only [List.nil_append] at inv
      apply rbinv_wfs hw inv
      intro l hl u hu
      unfold blockHasNoUsers at hno
      have := List.all_eq_true.mp hno l hl
      simp only [List.contains_nil, Bool.false_or] at this
      have := List.all_eq_true.mp this u hu
      simpa using this
    · cases h

end Cirbo
