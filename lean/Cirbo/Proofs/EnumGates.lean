import Cirbo.Model.Codec
import Cirbo.Proofs.DfsOrder
/-!
# `_enumerate_gates`: inputs first, every gate exactly once, each after its operands (C16)
-/
namespace Cirbo
open Circuit GateType

/-- one iteration of the stack loop of `_enumerate_gates` (`none` = the stack is empty) -/
def enumStep (c : Circuit) (st : List Label × List Label) (stack : List Label) :
    Option ((List Label × List Label) × List Label) :=
  match stack.getLast? with
  | none => none
  | some label =>
    if st.1.contains label then some (st, stack.dropLast)
    else
      let pending := (c.opsOf label).filter (fun o => !st.1.contains o)
      if !pending.isEmpty && !st.2.contains label
      then some ((st.1, st.2 ++ [label]), stack ++ pending.reverse)
      else some ((st.1 ++ [label], st.2), stack.dropLast)

theorem enumLoop_succ (c : Circuit) (fuel : Nat) (st : List Label × List Label) (stack : List Label) :
    enumLoop c (fuel + 1) st stack = match enumStep c st stack with
      | none => st
      | some (st', stack') => enumLoop c fuel st' stack' := by
  obtain ⟨result, expanded⟩ := st
  simp only [enumLoop, enumStep]
  cases stack.getLast? with
  | none => rfl
  | some label =>
    simp only
    split
    · rfl
    · split <;> rfl

structure EnInv2 (c : Circuit) (r : Label → Nat) (st : List Label × List Label) (stack : List Label) : Prop where
  nodup : st.1.Nodup
  before : ∀ p x q, st.1 = p ++ x :: q → ∀ o ∈ c.opsOf x, o ∈ p
  pending : ∀ pre u post, stack = pre ++ u :: post → u ∉ post → u ∈ st.2 → u ∉ st.1 →
    ∀ o ∈ c.opsOf u, o ∈ st.1 ∨ o ∈ post
  above : ∀ pre u post, stack = pre ++ u :: post → u ∉ post → u ∈ st.2 → u ∉ st.1 → ∀ x ∈ post, r x < r u
  onStack : ∀ u ∈ st.2, u ∉ st.1 → u ∈ stack

theorem contains_iff_mem {l : List Label} {x : Label} : l.contains x = true ↔ x ∈ l := by simp

theorem enumStep_inv {c : Circuit} {r : Label → Nat} (hr : ∀ l, ∀ x ∈ c.opsOf l, r x < r l)
    {st st' : List Label × List Label} {stack stack' : List Label}
    (inv : EnInv2 c r st stack) (h : enumStep c st stack = some (st', stack')) : EnInv2 c r st' stack' := by
  obtain ⟨result, expanded⟩ := st
  unfold enumStep at h
  cases htop : stack.getLast? with
  | none => simp [htop] at h
  | some label =>
    have hq : stack = stack.dropLast ++ [label] := getLast?_split htop
    simp only [htop] at h
    by_cases hres : result.contains label = true
    · -- already enumerated: pop
      simp only [hres, if_true, Option.some.injEq, Prod.mk.injEq] at h
      obtain ⟨rfl, rfl⟩ := h
      have hlr : label ∈ result := by simpa using hres
      refine ⟨inv.nodup, inv.before, ?_, ?_, ?_⟩
      · intro pre u post hs hup hu hur o ho
        have hul : u ≠ label := fun e => hur (e ▸ hlr)
        have e : stack = pre ++ u :: (post ++ [label]) := by rw [hq, hs]; simp
        rcases inv.pending pre u (post ++ [label]) e (by simp [hup, hul]) hu hur o ho with h1 | h1
        · exact Or.inl h1
        · rcases List.mem_append.mp h1 with h2 | h2
          · exact Or.inr h2
          · simp only [List.mem_singleton] at h2; subst h2; exact Or.inl hlr
      · intro pre u post hs hup hu hur x hx
        have hul : u ≠ label := fun e => hur (e ▸ hlr)
        have e : stack = pre ++ u :: (post ++ [label]) := by rw [hq, hs]; simp
        exact inv.above pre u (post ++ [label]) e (by simp [hup, hul]) hu hur x (by simp [hx])
      · intro u hu hur
        have hul : u ≠ label := fun e => hur (e ▸ hlr)
        exact mem_dropLast_of_ne_last (inv.onStack u hu hur) htop hul
    · simp only [hres, Bool.false_eq_true, if_false] at h
      have hlr : label ∉ result := by simpa using hres
      generalize hpend : (c.opsOf label).filter (fun o => !result.contains o) = pending at h
      have hpmem : ∀ o, o ∈ pending ↔ o ∈ c.opsOf label ∧ o ∉ result := by
        intro o; rw [← hpend]; simp [List.mem_filter]
      by_cases hexp : (!pending.isEmpty && !expanded.contains label) = true
      · -- expand: push the operands that are still missing
        simp only [hexp, if_true, Option.some.injEq, Prod.mk.injEq] at h
        obtain ⟨rfl, rfl⟩ := h
        simp only [Bool.and_eq_true, Bool.not_eq_true', List.isEmpty_eq_false_iff] at hexp
        have hle : label ∉ expanded := by simpa using hexp.2
        have hlp : label ∉ pending.reverse := by
          intro hm
          have := ((hpmem label).mp (List.mem_reverse.mp hm)).1
          exact Nat.lt_irrefl _ (hr label label this)
        -- nothing pushed is an unfinished expanded gate
        have hnoexp : ∀ o ∈ pending, ¬ (o ∈ expanded ∧ o ∉ result) := by
          rintro o ho ⟨hoe, hor⟩
          have hol := ((hpmem o).mp ho).1
          have hne : o ≠ label := fun e => by subst e; exact Nat.lt_irrefl _ (hr o o hol)
          obtain ⟨a, b, eab, hob⟩ := last_split (inv.onStack o hoe hor)
          have hlb : label ∈ b := mem_after_of_last (by rw [← eab]; exact htop) hne
          have := inv.above a o b eab hob hoe hor label hlb
          exact Nat.lt_irrefl _ (Nat.lt_trans this (hr label o hol))
        refine ⟨inv.nodup, inv.before, ?_, ?_, ?_⟩
        · intro pre u post hs hup hu hur o ho
          by_cases hul : u = label
          · subst hul
            have e : stack.dropLast ++ u :: pending.reverse = pre ++ u :: post := by
              rw [← hs]; conv => rhs; rw [hq]
              simp
            obtain ⟨_, e2⟩ := last_occ_unique e hlp hup
            by_cases hor : o ∈ result
            · exact Or.inl hor
            · right; rw [← e2]; exact List.mem_reverse.mpr ((hpmem o).mpr ⟨ho, hor⟩)
          · have hu' : u ∈ expanded := by
              rcases List.mem_append.mp hu with h1 | h1
              · exact h1
              · simp only [List.mem_singleton] at h1; exact absurd h1 hul
            have hunp : u ∉ pending.reverse := fun hm => hnoexp u (List.mem_reverse.mp hm) ⟨hu', hur⟩
            obtain ⟨a, b, eab, hub⟩ := last_split (inv.onStack u hu' hur)
            have e : a ++ u :: (b ++ pending.reverse) = pre ++ u :: post := by rw [← hs, eab]; simp
            have hnot : u ∉ b ++ pending.reverse := by
              intro hm; rcases List.mem_append.mp hm with h1 | h1
              · exact hub h1
              · exact hunp h1
            obtain ⟨_, e2⟩ := last_occ_unique e hnot hup
            rcases inv.pending a u b eab hub hu' hur o ho with h1 | h1
            · exact Or.inl h1
            · right; rw [← e2]; exact List.mem_append_left _ h1
        · intro pre u post hs hup hu hur x hx
          by_cases hul : u = label
          · subst hul
            have e : stack.dropLast ++ u :: pending.reverse = pre ++ u :: post := by
              rw [← hs]; conv => rhs; rw [hq]
              simp
            obtain ⟨_, e2⟩ := last_occ_unique e hlp hup
            rw [← e2] at hx
            exact hr u x ((hpmem x).mp (List.mem_reverse.mp hx)).1
          · have hu' : u ∈ expanded := by
              rcases List.mem_append.mp hu with h1 | h1
              · exact h1
              · simp only [List.mem_singleton] at h1; exact absurd h1 hul
            have hunp : u ∉ pending.reverse := fun hm => hnoexp u (List.mem_reverse.mp hm) ⟨hu', hur⟩
            obtain ⟨a, b, eab, hub⟩ := last_split (inv.onStack u hu' hur)
            have e : a ++ u :: (b ++ pending.reverse) = pre ++ u :: post := by rw [← hs, eab]; simp
            have hnot : u ∉ b ++ pending.reverse := by
              intro hm; rcases List.mem_append.mp hm with h1 | h1
              · exact hub h1
              · exact hunp h1
            obtain ⟨_, e2⟩ := last_occ_unique e hnot hup
            rw [← e2] at hx
            have hold := inv.above a u b eab hub hu' hur
            have hlb : label ∈ b := mem_after_of_last (by rw [← eab]; exact htop) hul
            rcases List.mem_append.mp hx with h1 | h1
            · exact hold x h1
            · exact Nat.lt_trans (hr label x ((hpmem x).mp (List.mem_reverse.mp h1)).1) (hold label hlb)
        · intro u hu hur
          rcases List.mem_append.mp hu with h1 | h1
          · exact List.mem_append_left _ (inv.onStack u h1 hur)
          · simp only [List.mem_singleton] at h1; subst h1
            exact List.mem_append_left _ (List.mem_of_getLast? htop)
      · -- enumerate the gate
        simp only [hexp, Bool.false_eq_true, if_false, Option.some.injEq, Prod.mk.injEq] at h
        obtain ⟨rfl, rfl⟩ := h
        have hallops : ∀ o ∈ c.opsOf label, o ∈ result := by
          intro o ho
          by_cases hle : label ∈ expanded
          · have e : stack = stack.dropLast ++ label :: [] := hq
            rcases inv.pending _ label [] e (by simp) hle hlr o ho with h1 | h1
            · exact h1
            · cases h1
          · have : pending = [] := by
              cases hp : pending with
              | nil => rfl
              | cons a t =>
                exfalso; apply hexp
                simp [hp, hle]
            apply Classical.byContradiction
            intro hor
            have hm := (hpmem o).mpr ⟨ho, hor⟩
            rw [this] at hm; cases hm
        refine ⟨?_, ?_, ?_, ?_, ?_⟩
        · exact List.nodup_append.mpr ⟨inv.nodup, by simp, by
            intro a ha b hb; simp only [List.mem_singleton] at hb; subst hb; intro e; subst e; exact hlr ha⟩
        · intro p x q hs o ho
          simp only at hs
          by_cases hq2 : q = []
          · subst hq2
            have := List.append_inj' hs (by simp)
            have hx : label = x := by simpa using this.2
            subst hx
            rw [← this.1]; exact hallops o ho
          · obtain ⟨q', rfl⟩ : ∃ q', q = q' ++ [label] := by
              have hlast : q.getLast? = some label := by
                have : (p ++ x :: q).getLast? = some label := by rw [← hs]; simp
                rw [getLast?_after hq2] at this; exact this
              exact ⟨q.dropLast, getLast?_split hlast⟩
            have : result = p ++ x :: q' := by
              have h' : result ++ [label] = (p ++ x :: q') ++ [label] := by rw [hs]; simp
              exact List.append_cancel_right h'
            exact inv.before p x q' this o ho
        · intro pre u post hs hup hu hur o ho
          have hur' : u ∉ result := fun hm => hur (List.mem_append_left _ hm)
          have hul : u ≠ label := fun e => hur (by rw [e]; simp)
          have e : stack = pre ++ u :: (post ++ [label]) := by rw [hq, hs]; simp
          rcases inv.pending pre u (post ++ [label]) e (by simp [hup, hul]) hu hur' o ho with h1 | h1
          · exact Or.inl (List.mem_append_left _ h1)
          · rcases List.mem_append.mp h1 with h2 | h2
            · exact Or.inr h2
            · simp only [List.mem_singleton] at h2; subst h2; exact Or.inl (by simp)
        · intro pre u post hs hup hu hur x hx
          have hur' : u ∉ result := fun hm => hur (List.mem_append_left _ hm)
          have hul : u ≠ label := fun e => hur (by rw [e]; simp)
          have e : stack = pre ++ u :: (post ++ [label]) := by rw [hq, hs]; simp
          exact inv.above pre u (post ++ [label]) e (by simp [hup, hul]) hu hur' x (by simp [hx])
        · intro u hu hur
          have hur' : u ∉ result := fun hm => hur (List.mem_append_left _ hm)
          have hul : u ≠ label := fun e => hur (by rw [e]; simp)
          exact mem_dropLast_of_ne_last (inv.onStack u hu hur') htop hul

/-! ### progress -/

def notExpW (c : Circuit) (expanded : List Label) (ls : List Label) : Nat :=
  ((ls.filter (fun l => !expanded.contains l)).map (fun l => (c.opsOf l).length + 1)).sum

def enumPot (c : Circuit) (st : List Label × List Label) (stack : List Label) : Nat :=
  stack.length + notExpW c st.2 c.labels

theorem notExpW_add_other (c : Circuit) (expanded : List Label) (k : Label) : ∀ (ls : List Label), k ∉ ls →
    notExpW c (expanded ++ [k]) ls = notExpW c expanded ls := by
  intro ls
  induction ls with
  | nil => intro _; rfl
  | cons x t ih =>
    intro hk
    simp only [List.mem_cons, not_or] at hk
    have hx : (expanded ++ [k]).contains x = expanded.contains x := by
      simp [List.contains_eq_mem, List.mem_append, Ne.symm hk.1]
    have ih' := ih hk.2
    simp only [notExpW, List.filter_cons, hx] at ih' ⊢
    split
    · simp only [List.map_cons, List.sum_cons]; omega
    · exact ih'

theorem notExpW_add (c : Circuit) (expanded : List Label) (k : Label) (hk : k ∉ expanded) : ∀ (ls : List Label),
    ls.Nodup → k ∈ ls → notExpW c (expanded ++ [k]) ls + ((c.opsOf k).length + 1) = notExpW c expanded ls := by
  intro ls
  induction ls with
  | nil => intro _ h; cases h
  | cons x t ih =>
    intro hnd hm
    have hnd' := List.nodup_cons.mp hnd
    by_cases hx : x = k
    · subst hx
      have h1 : (expanded ++ [x]).contains x = true := by simp
      have h2 : expanded.contains x = false := by simpa using hk
      have hr := notExpW_add_other c expanded x t hnd'.1
      simp only [notExpW, List.filter_cons, h1, h2] at hr ⊢
      simp only [Bool.not_true, Bool.false_eq_true, if_false, Bool.not_false, if_true, List.map_cons, List.sum_cons]
      rw [hr]; omega
    · have hk' : k ∈ t := by
        rcases List.mem_cons.mp hm with h | h
        · exact absurd h.symm hx
        · exact h
      have hxs : (expanded ++ [k]).contains x = expanded.contains x := by
        simp [List.contains_eq_mem, List.mem_append, hx]
      have := ih hnd'.2 hk'
      simp only [notExpW, List.filter_cons, hxs] at this ⊢
      split
      · simp only [List.map_cons, List.sum_cons]; omega
      · exact this

/-- every iteration lowers the potential, appends to the result, and keeps the start label in sight -/
theorem enumStep_progress {c : Circuit} (hnd : c.labels.Nodup) {st st' : List Label × List Label}
    {stack stack' : List Label} (h : enumStep c st stack = some (st', stack')) :
    enumPot c st' stack' < enumPot c st stack ∧ (∃ t, st'.1 = st.1 ++ t ∧ ∀ x ∈ t, x ∈ stack) ∧
    (∀ l, l ∈ st.1 ∨ l ∈ stack → l ∈ st'.1 ∨ l ∈ stack') := by
  obtain ⟨result, expanded⟩ := st
  unfold enumStep at h
  cases htop : stack.getLast? with
  | none => simp [htop] at h
  | some label =>
    have hq : stack = stack.dropLast ++ [label] := getLast?_split htop
    have hlen : stack.length = stack.dropLast.length + 1 := by
      have := congrArg List.length hq
      simpa using this
    simp only [htop] at h
    by_cases hres : result.contains label = true
    · simp only [hres, if_true, Option.some.injEq, Prod.mk.injEq] at h
      obtain ⟨rfl, rfl⟩ := h
      refine ⟨by simp only [enumPot]; omega, ⟨[], by simp, by intro x hx; cases hx⟩, ?_⟩
      intro l hl
      rcases hl with hl | hl
      · exact Or.inl hl
      · by_cases e : l = label
        · left; rw [e]; simpa using hres
        · exact Or.inr (mem_dropLast_of_ne_last hl htop e)
    · simp only [hres, Bool.false_eq_true, if_false] at h
      by_cases hexp : (!((c.opsOf label).filter (fun o => !result.contains o)).isEmpty && !expanded.contains label) = true
      · simp only [hexp, if_true, Option.some.injEq, Prod.mk.injEq] at h
        obtain ⟨rfl, rfl⟩ := h
        simp only [Bool.and_eq_true, Bool.not_eq_true', List.isEmpty_eq_false_iff] at hexp
        have hle : label ∉ expanded := by simpa using hexp.2
        have hll : label ∈ c.labels := by
          apply Classical.byContradiction
          intro hn
          rw [opsOf_not_mem hn] at hexp
          exact hexp.1 rfl
        have hw := notExpW_add c expanded label hle c.labels hnd hll
        have hfl : ((c.opsOf label).filter (fun o => !result.contains o)).length ≤ (c.opsOf label).length :=
          List.length_filter_le _ _
        refine ⟨by simp only [enumPot, List.length_append, List.length_reverse]; omega,
          ⟨[], by simp, by intro x hx; cases hx⟩, ?_⟩
        intro l hl
        rcases hl with hl | hl
        · exact Or.inl hl
        · exact Or.inr (List.mem_append_left _ hl)
      · simp only [hexp, Bool.false_eq_true, if_false, Option.some.injEq, Prod.mk.injEq] at h
        obtain ⟨rfl, rfl⟩ := h
        refine ⟨by simp only [enumPot]; omega, ⟨[label], rfl, by
          intro x hx; simp only [List.mem_singleton] at hx; subst hx; exact List.mem_of_getLast? htop⟩, ?_⟩
        intro l hl
        rcases hl with hl | hl
        · exact Or.inl (List.mem_append_left _ hl)
        · by_cases e : l = label
          · left; rw [e]; simp
          · exact Or.inr (mem_dropLast_of_ne_last hl htop e)

/-- the loop, given enough fuel, runs until the stack is empty -/
theorem enumLoop_spec {c : Circuit} {r : Label → Nat} (hr : ∀ l, ∀ x ∈ c.opsOf l, r x < r l) (hnd : c.labels.Nodup)
    (hcl : ∀ l, ∀ x ∈ c.opsOf l, x ∈ c.labels) :
    ∀ (fuel : Nat) (st : List Label × List Label) (stack : List Label), EnInv2 c r st stack →
      enumPot c st stack < fuel → (∀ x ∈ stack, x ∈ c.labels) →
      EnInv2 c r (enumLoop c fuel st stack) [] ∧
      (∃ t, (enumLoop c fuel st stack).1 = st.1 ++ t ∧ ∀ x ∈ t, x ∈ c.labels) ∧
      (∀ l, l ∈ st.1 ∨ l ∈ stack → l ∈ (enumLoop c fuel st stack).1) ∧
      notExpW c (enumLoop c fuel st stack).2 c.labels ≤ notExpW c st.2 c.labels := by
  intro fuel
  induction fuel with
  | zero => intro st stack _ h; omega
  | succ fuel ih =>
    intro st stack inv hpot hlab
    rw [enumLoop_succ]
    cases hs : enumStep c st stack with
    | none =>
      simp only
      have hemp : stack = [] := by
        unfold enumStep at hs
        cases htop : stack.getLast? with
        | none => exact List.getLast?_eq_none_iff.mp htop
        | some label =>
          simp only [htop] at hs
          split at hs
          · cases hs
          · split at hs <;> cases hs
      subst hemp
      exact ⟨inv, ⟨[], by simp, by intro x hx; cases hx⟩, fun l hl => hl.elim id (fun h => by cases h), Nat.le_refl _⟩
    | some p =>
      obtain ⟨st1, stack1⟩ := p
      simp only
      obtain ⟨hlt, ⟨t, ht, htl⟩, hkeep⟩ := enumStep_progress hnd hs
      have inv1 := enumStep_inv hr inv hs
      have hlab1 : ∀ x ∈ stack1, x ∈ c.labels := by
        intro x hx
        obtain ⟨result, expanded⟩ := st
        unfold enumStep at hs
        cases htop : stack.getLast? with
        | none => simp [htop] at hs
        | some label =>
          simp only [htop] at hs
          split at hs
          · simp only [Option.some.injEq, Prod.mk.injEq] at hs
            obtain ⟨_, rfl⟩ := hs
            exact hlab x (List.dropLast_subset _ hx)
          · split at hs
            · simp only [Option.some.injEq, Prod.mk.injEq] at hs
              obtain ⟨_, rfl⟩ := hs
              rcases List.mem_append.mp hx with h1 | h1
              · exact hlab x h1
              · exact hcl label x (List.mem_filter.mp (List.mem_reverse.mp h1)).1
            · simp only [Option.some.injEq, Prod.mk.injEq] at hs
              obtain ⟨_, rfl⟩ := hs
              exact hlab x (List.dropLast_subset _ hx)
      have hw1 : notExpW c st1.2 c.labels ≤ notExpW c st.2 c.labels := by
        -- the potential is a sum; only the expansion step changes the second component
        obtain ⟨result, expanded⟩ := st
        unfold enumStep at hs
        cases htop : stack.getLast? with
        | none => simp [htop] at hs
        | some label =>
          simp only [htop] at hs
          split at hs
          · simp only [Option.some.injEq, Prod.mk.injEq] at hs
            obtain ⟨rfl, _⟩ := hs; exact Nat.le_refl _
          · split at hs
            · rename_i hexp
              simp only [Option.some.injEq, Prod.mk.injEq] at hs
              obtain ⟨rfl, _⟩ := hs
              simp only [Bool.and_eq_true, Bool.not_eq_true', List.isEmpty_eq_false_iff] at hexp
              have hle : label ∉ expanded := by simpa using hexp.2
              have hll : label ∈ c.labels := hlab label (List.mem_of_getLast? htop)
              have := notExpW_add c expanded label hle c.labels hnd hll
              simp only; omega
            · simp only [Option.some.injEq, Prod.mk.injEq] at hs
              obtain ⟨rfl, _⟩ := hs; exact Nat.le_refl _
      obtain ⟨a1, ⟨t2, a2, a2'⟩, a3, a4⟩ := ih st1 stack1 inv1 (by omega) hlab1
      refine ⟨a1, ⟨t ++ t2, by rw [a2, ht]; simp, ?_⟩, fun l hl => a3 l (hkeep l hl), Nat.le_trans a4 hw1⟩
      intro x hx
      rcases List.mem_append.mp hx with h1 | h1
      · exact hlab x (htl x h1)
      · exact a2' x h1

/-! ### the whole enumeration -/

theorem dedup_fold_nodup : ∀ (ins acc : List Label), (acc ++ ins).Nodup →
    ins.foldl (fun r i => if r.contains i then r else r ++ [i]) acc = acc ++ ins := by
  intro ins
  induction ins with
  | nil => intro acc _; simp
  | cons i t ih =>
    intro acc h
    simp only [List.foldl_cons]
    have hni : acc.contains i = false := by
      cases hc : acc.contains i with
      | false => rfl
      | true =>
        exfalso
        exact (List.nodup_append.mp h).2.2 i (by simpa using hc) i (by simp) rfl
    simp only [hni, Bool.false_eq_true, if_false]
    rw [ih (acc ++ [i]) (by simpa using h)]
    simp

theorem notExpW_nil (c : Circuit) (hnd : c.labels.Nodup) : notExpW c [] c.labels = totalOps c + c.gates.length := by
  unfold notExpW totalOps
  rw [foldl_add_eq_sum]
  have h0 : c.labels.filter (fun l => !([] : List Label).contains l) = c.labels :=
    List.filter_eq_self.mpr (fun _ _ => by simp)
  rw [h0]
  have : c.labels.map (fun l => (c.opsOf l).length + 1) = c.gates.map (fun g => g.ops.length + 1) := by
    unfold Circuit.labels
    rw [List.map_map]
    apply List.map_congr_left
    intro g hg
    simp only [Function.comp]
    rw [opsOf_gate hnd hg]
  rw [this]
  generalize c.gates = gs
  induction gs with
  | nil => simp
  | cons g t ih => simp only [List.map_cons, List.sum_cons, List.length_cons, ih]; omega

/-- what the dependency-order enumeration delivers on a well-formed circuit -/
structure EnumOK (c : Circuit) (ids : List Label) : Prop where
  nodup : ids.Nodup
  all : ∀ l, l ∈ ids ↔ l ∈ c.labels
  inputsFirst : ∃ rest, ids = c.inputs ++ rest
  before : ∀ p x q, ids = p ++ x :: q → ∀ o ∈ c.opsOf x, o ∈ p

theorem enumerateGates_ok {c : Circuit} (hnd : c.labels.Nodup)
    (hcl : ∀ g ∈ c.gates, ∀ o ∈ g.ops, o ∈ c.labels)
    (hrank : ∃ r : Label → Nat, ∀ g ∈ c.gates, ∀ o ∈ g.ops, r o < r g.label)
    (hinND : c.inputs.Nodup) (hin : ∀ l ∈ c.inputs, ∃ g ∈ c.gates, g.label = l ∧ g.ops = []) :
    EnumOK c (enumerateGates c) := by
  obtain ⟨r, hr⟩ := opsOf_rank hnd hrank
  have hcl' : ∀ l, ∀ x ∈ c.opsOf l, x ∈ c.labels := by
    intro l x hx
    by_cases hl : l ∈ c.labels
    · obtain ⟨g, hg, hgl⟩ : ∃ g ∈ c.gates, g.label = l := by simpa [Circuit.labels] using hl
      rw [← hgl, opsOf_gate hnd hg] at hx
      exact hcl g hg x hx
    · rw [opsOf_not_mem hl] at hx; cases hx
  unfold enumerateGates
  simp only
  rw [dedup_fold_nodup c.inputs [] (by simpa using hinND)]
  simp only [List.nil_append]
  -- the outer loop
  have key : ∀ (ls done : List Label) (st : List Label × List Label),
      EnInv2 c r st [] → (∃ t, st.1 = c.inputs ++ t) → (∀ x ∈ st.1, x ∈ c.labels) → (∀ l ∈ done, l ∈ st.1) →
      notExpW c st.2 c.labels ≤ notExpW c [] c.labels → (∀ l ∈ ls, l ∈ c.labels) →
      let fin := ls.foldl (fun st l => enumLoop c (2 * (totalOps c + c.gates.length) + 2) st [l]) st
      EnInv2 c r fin [] ∧ (∃ t, fin.1 = c.inputs ++ t) ∧ (∀ x ∈ fin.1, x ∈ c.labels) ∧ (∀ l ∈ done ++ ls, l ∈ fin.1) := by
    intro ls
    induction ls with
    | nil => intro done st i1 i2 i3 i4 _ _; exact ⟨i1, i2, i3, by simpa using i4⟩
    | cons l rest ih =>
      intro done st i1 i2 i3 i4 i5 hls
      simp only [List.foldl_cons]
      have hexpres : ∀ u ∈ st.2, u ∈ st.1 := by
        intro u hu
        apply Classical.byContradiction
        intro hn
        have := i1.onStack u hu hn
        cases this
      have inv1 : EnInv2 c r st [l] :=
        ⟨i1.nodup, i1.before,
         fun pre u post _ _ hu hur => absurd (hexpres u hu) hur,
         fun pre u post _ _ hu hur => absurd (hexpres u hu) hur,
         fun u hu hur => absurd (hexpres u hu) hur⟩
      have hpot : enumPot c st [l] < 2 * (totalOps c + c.gates.length) + 2 := by
        simp only [enumPot, List.length_singleton]
        rw [notExpW_nil c hnd] at i5
        omega
      obtain ⟨a1, ⟨t, a2, a2'⟩, a3, a4⟩ := enumLoop_spec hr hnd hcl' _ st [l] inv1 hpot
        (fun x hx => by simp only [List.mem_singleton] at hx; subst hx; exact hls x (by simp))
      obtain ⟨t0, ht0⟩ := i2
      have := ih (done ++ [l]) _ a1 ⟨t0 ++ t, by rw [a2, ht0]; simp⟩
        (by
          intro x hx
          rw [a2] at hx
          rcases List.mem_append.mp hx with h1 | h1
          · exact i3 x h1
          · exact a2' x h1)
        (by
          intro x hx
          rcases List.mem_append.mp hx with h1 | h1
          · exact a3 x (Or.inl (i4 x h1))
          · simp only [List.mem_singleton] at h1; subst h1; exact a3 x (Or.inr (by simp)))
        (Nat.le_trans a4 i5) (fun x hx => hls x (by simp [hx]))
      simpa using this
  have inv0 : EnInv2 c r (c.inputs, []) [] := by
    refine ⟨hinND, ?_, ?_, ?_, ?_⟩
    · intro p x q hs o ho
      simp only at hs
      obtain ⟨g, hg, hgl, hgo⟩ := hin x (by rw [hs]; simp)
      rw [← hgl, opsOf_gate hnd hg, hgo] at ho
      cases ho
    · intro pre u post hs; cases pre <;> simp at hs
    · intro pre u post hs; cases pre <;> simp at hs
    · intro u hu; cases hu
  obtain ⟨f1, ⟨t, f2⟩, f3, f4⟩ := key c.labels [] (c.inputs, []) inv0 ⟨[], by simp⟩
    (by
      intro x hx
      obtain ⟨g, hg, hgl, _⟩ := hin x hx
      rw [← hgl]; exact mem_labels_of_mem hg)
    (by intro l hl; cases hl) (Nat.le_refl _) (fun l hl => hl)
  simp only [List.nil_append] at f4
  exact ⟨f1.nodup, fun l => ⟨fun h => f3 l h, fun h => f4 l h⟩, ⟨t, f2⟩, f1.before⟩

end Cirbo
