import Cirbo.Proofs.MoreOps
import Cirbo.Proofs.CycleCheck
/-!
# `replace_subcircuit` keeps the C02 invariant — part A: renames, the users dictionary, the slice
-/
namespace Cirbo
open GateType Circuit

/-! ## the renaming prologue -/

def renStep : R Circuit → Label × Label → R Circuit := fun acc p => match acc with
  | .error e => .error e
  | .ok cc => if p.1 != p.2 then cc.renameGate p.1 p.2 else .ok cc

theorem renFold_error (e : String) : ∀ (ps : List (Label × Label)), ps.foldl renStep (.error e) = .error e := by
  intro ps; induction ps with
  | nil => rfl
  | cons a t ih => simpa [renStep] using ih

/-- the renames succeed only if the new names are pairwise distinct (keys distinct and present):
Python dict keys are distinct, and a second rename to the same name would find it taken -/
theorem renFold_spec : ∀ (ps : List (Label × Label)) (cc c1 : Circuit), WFS cc → (ps.map (·.1)).Nodup →
    (∀ k ∈ ps.map (·.1), k ∈ cc.labels) → ps.foldl renStep (.ok cc) = .ok c1 →
    WFS c1 ∧ (ps.map (·.2)).Nodup ∧ (∀ l ∈ cc.labels, l ∉ ps.map (·.1) → l ∉ ps.map (·.2)) := by
  intro ps
  induction ps with
  | nil => intro cc c1 hw _ _ h; simp at h; subst h; exact ⟨hw, by simp, by simp⟩
  | cons p rest ih =>
    obtain ⟨k, v⟩ := p
    intro cc c1 hw hnd hk h
    simp only [List.map_cons, List.nodup_cons] at hnd
    simp only [List.foldl_cons] at h
    by_cases hkv : k = v
    · subst hkv
      have hs : renStep (.ok cc) (k, k) = .ok cc := by simp [renStep]
      rw [hs] at h
      obtain ⟨w1, nd1, q1⟩ := ih cc c1 hw hnd.2 (fun x hx => hk x (by simp [hx])) h
      have hkl : k ∈ cc.labels := hk k (by simp)
      refine ⟨w1, ?_, ?_⟩
      · simp only [List.map_cons, List.nodup_cons]
        exact ⟨q1 k hkl hnd.1, nd1⟩
      · intro l hl hlk
        simp only [List.map_cons, List.mem_cons, not_or] at hlk ⊢
        exact ⟨hlk.1, q1 l hl hlk.2⟩
    · have hs : renStep (.ok cc) (k, v) = cc.renameGate k v := by simp [renStep, hkv]
      rw [hs] at h
      cases hr : cc.renameGate k v with
      | error e => rw [hr, renFold_error] at h; cases h
      | ok cc' =>
        rw [hr] at h
        obtain ⟨hren, hkin, hvnot⟩ := renameGate_renamed hw hr
        have hw' := renameGate_wfs hw hr
        obtain ⟨lab1, _⟩ := renamed_labels hren
        have keep : ∀ l ∈ cc.labels, l ≠ k → l ∈ cc'.labels := by
          intro l hl hne
          have := lab1 l hl
          simpa [rho, hne] using this
        have hvin : v ∈ cc'.labels := by
          have := lab1 k hkin
          simpa [rho] using this
        have hk' : ∀ x ∈ rest.map (·.1), x ∈ cc'.labels := by
          intro x hx
          exact keep x (hk x (by simp [hx])) (fun e => hnd.1 (e ▸ hx))
        obtain ⟨w1, nd1, q1⟩ := ih cc' c1 hw' hnd.2 hk' h
        have hvk : v ∉ rest.map (·.1) := fun hm => hvnot (hk v (by simp [hm]))
        refine ⟨w1, ?_, ?_⟩
        · simp only [List.map_cons, List.nodup_cons]
          exact ⟨q1 v hvin hvk, nd1⟩
        · intro l hl hlk
          simp only [List.map_cons, List.mem_cons, not_or] at hlk ⊢
          exact ⟨fun e => hvnot (e ▸ hl), q1 l (keep l hl hlk.1) hlk.2⟩

/-! ## dictionaries of user lists -/

theorem dict_keys_set {α} (d : Dict α) (k : Label) (v : α) :
    (Dict.set d k v).map (·.1) = if k ∈ d.map (·.1) then d.map (·.1) else d.map (·.1) ++ [k] := by
  induction d with
  | nil => simp [Dict.set]
  | cons p r ih =>
    obtain ⟨a, b⟩ := p
    simp only [Dict.set]
    by_cases hka : k = a
    · subst hka; simp
    · simp only [hka, if_false, List.map_cons, ih, List.mem_cons, false_or]
      split <;> simp

theorem dict_keys_nodup_set {α} (d : Dict α) (k : Label) (v : α) (h : (d.map (·.1)).Nodup) :
    ((Dict.set d k v).map (·.1)).Nodup := by
  rw [dict_keys_set]
  split
  · exact h
  · rename_i hk
    rw [List.nodup_append]
    exact ⟨h, by simp, by intro a ha b hb; simp at hb; subst hb; exact fun e => hk (e ▸ ha)⟩

/-- what the entries for `l` add up to -/
def dictExt (d : Dict (List Label)) (l : Label) : List Label :=
  (d.filter (fun p => p.1 == l)).flatMap (·.2)

theorem dictExt_of_nodup : ∀ (d : Dict (List Label)) (l : Label), (d.map (·.1)).Nodup →
    dictExt d l = (Dict.get? d l).getD [] := by
  intro d l
  induction d with
  | nil => intro _; rfl
  | cons p r ih =>
    obtain ⟨a, b⟩ := p
    intro hnd
    simp only [List.map_cons, List.nodup_cons] at hnd
    unfold dictExt at ih ⊢
    simp only [List.filter_cons, Dict.get?]
    by_cases hla : l = a
    · subst hla
      have hnone : r.filter (fun p => p.1 == l) = [] := by
        apply List.filter_eq_nil_iff.mpr
        intro q hq
        have : q.1 ≠ l := fun e => hnd.1 (by rw [← e]; exact List.mem_map_of_mem hq)
        simp [this]
      simp [hnone]
    · have : (a == l) = false := by simp [Ne.symm hla]
      simp only [this, Bool.false_eq_true, if_false, hla]
      exact ih hnd.2

def addUsersStep : Circuit → Label × List Label → Circuit := fun cc p =>
  { cc with users := Dict.set cc.users p.1 ((Dict.get? cc.users p.1).getD [] ++ p.2) }

theorem addUsersFold_fields : ∀ (d : Dict (List Label)) (cc : Circuit),
    (d.foldl addUsersStep cc).gates = cc.gates ∧ (d.foldl addUsersStep cc).inputs = cc.inputs ∧
    (d.foldl addUsersStep cc).outputs = cc.outputs ∧ (d.foldl addUsersStep cc).blocks = cc.blocks ∧
    ∀ l, (d.foldl addUsersStep cc).usersOf l = cc.usersOf l ++ dictExt d l := by
  intro d
  induction d with
  | nil => intro cc; simp [dictExt]
  | cons p r ih =>
    intro cc
    obtain ⟨a, b, c', e, f⟩ := ih (addUsersStep cc p)
    simp only [List.foldl_cons]
    refine ⟨a, b, c', e, ?_⟩
    intro l
    rw [f l]
    have : (addUsersStep cc p).usersOf l = cc.usersOf l ++ (if p.1 = l then p.2 else []) := by
      rw [usersOf_eq, usersOf_eq]
      unfold addUsersStep
      simp only [Dict.get?_set]
      by_cases hl : l = p.1
      · subst hl; simp
      · simp [hl, Ne.symm hl]
    rw [this]
    unfold dictExt
    simp only [List.filter_cons]
    by_cases hl : p.1 = l
    · simp [hl]
    · simp [hl]

/-- the inner loop that collects the users of one output outside the slice -/
def collectStep (S : List Label) (ol : Label) : Dict (List Label) → Label → Dict (List Label) := fun d u =>
  if S.contains u then d else Dict.set d ol ((Dict.get? d ol).getD [] ++ [u])

theorem collect_spec (S : List Label) (ol : Label) : ∀ (us : List Label) (d : Dict (List Label)),
    (d.map (·.1)).Nodup →
    ((us.foldl (collectStep S ol) d).map (·.1)).Nodup ∧
    ∀ l, (Dict.get? (us.foldl (collectStep S ol) d) l).getD [] =
      (Dict.get? d l).getD [] ++ (if l = ol then us.filter (fun u => !S.contains u) else []) := by
  intro us
  induction us with
  | nil => intro d hnd; exact ⟨hnd, by intro l; split <;> simp⟩
  | cons u r ih =>
    intro d hnd
    simp only [List.foldl_cons]
    have hnd' : ((collectStep S ol d u).map (·.1)).Nodup := by
      unfold collectStep; split
      · exact hnd
      · exact dict_keys_nodup_set _ _ _ hnd
    obtain ⟨a, b⟩ := ih (collectStep S ol d u) hnd'
    refine ⟨a, ?_⟩
    intro l
    rw [b l]
    unfold collectStep
    by_cases hu : S.contains u = true
    · have hu' : u ∈ S := by simpa using hu
      simp [hu', List.filter_cons]
    · simp only [hu, Bool.false_eq_true, if_false, Dict.get?_set, List.filter_cons, Bool.not_false, if_true]
      by_cases hl : l = ol
      · subst hl; simp
      · simp [hl]

def collectOuter (c : Circuit) (S : List Label) : Dict (List Label) → Label → Dict (List Label) := fun d ol =>
  (c.usersOf ol).foldl (collectStep S ol) d

theorem collectOuter_spec (c : Circuit) (S : List Label) : ∀ (outs : List Label) (d : Dict (List Label)),
    (d.map (·.1)).Nodup →
    ((outs.foldl (collectOuter c S) d).map (·.1)).Nodup ∧
    ∀ l, (Dict.get? (outs.foldl (collectOuter c S) d) l).getD [] =
      (Dict.get? d l).getD [] ++
        outs.flatMap (fun ol => if l = ol then (c.usersOf ol).filter (fun u => !S.contains u) else []) := by
  intro outs
  induction outs with
  | nil => intro d hnd; exact ⟨hnd, by simp⟩
  | cons ol r ih =>
    intro d hnd
    simp only [List.foldl_cons]
    obtain ⟨n1, g1⟩ := collect_spec S ol (c.usersOf ol) d hnd
    obtain ⟨a, b⟩ := ih (collectOuter c S d ol) n1
    refine ⟨a, ?_⟩
    intro l
    rw [b l]
    unfold collectOuter
    rw [g1 l]
    simp [List.flatMap_cons]

theorem flatMap_single {α} (f : Label → List α) (l : Label) : ∀ (outs : List Label), outs.Nodup →
    outs.flatMap (fun ol => if l = ol then f ol else []) = if l ∈ outs then f l else [] := by
  intro outs
  induction outs with
  | nil => intro _; simp
  | cons a r ih =>
    intro hnd
    simp only [List.nodup_cons] at hnd
    simp only [List.flatMap_cons, ih hnd.2, List.mem_cons]
    by_cases hla : l = a
    · subst hla; simp [hnd.1]
    · simp [hla]

/-! ## the slice contains every output that is not a slice input -/

theorem mem_dedup (x : Label) : ∀ (ls : List Label), x ∈ dedup ls ↔ x ∈ ls := by
  intro ls
  induction ls with
  | nil => simp [dedup]
  | cons a r ih =>
    unfold dedup
    split
    · rename_i h
      have : a ∈ r := by simpa using h
      rw [ih]; constructor
      · intro h; exact List.mem_cons_of_mem _ h
      · intro h; rcases List.mem_cons.mp h with e | h
        · subst e; exact this
        · exact h
    · simp [ih]

def sliceStep (c : Circuit) (inputs : List Label) :
    R (List Label × List Label) → Label → R (List Label × List Label) := fun acc o =>
  match acc with
  | .error e => .error e
  | .ok (gs, q) =>
    if inputs.contains o then .ok (gs, q)
    else match c.find? o with
      | none => .error "GateDoesntExistError"
      | some og =>
        if og.ty = INPUT then .error "CreateBlockError"
        else if gs.contains o then .ok (gs, q) else .ok (gs ++ [o], q ++ [o])

theorem sliceStep_error (c : Circuit) (inputs : List Label) (e : String) : ∀ (ops : List Label),
    ops.foldl (sliceStep c inputs) (.error e) = .error e := by
  intro ops; induction ops with
  | nil => rfl
  | cons a t ih => simpa [sliceStep] using ih

theorem sliceStep_mono (c : Circuit) (inputs : List Label) : ∀ (ops : List Label) (gs q gs' q' : List Label),
    ops.foldl (sliceStep c inputs) (.ok (gs, q)) = .ok (gs', q') → ∀ x ∈ gs, x ∈ gs' := by
  intro ops
  induction ops with
  | nil => intro gs q gs' q' h x hx; simp at h; rw [← h.1]; exact hx
  | cons o r ih =>
    intro gs q gs' q' h x hx
    simp only [List.foldl_cons] at h
    cases hs : sliceStep c inputs (.ok (gs, q)) o with
    | error e => rw [hs, sliceStep_error] at h; cases h
    | ok pr =>
      obtain ⟨g1, q1⟩ := pr
      rw [hs] at h
      apply ih g1 q1 gs' q' h
      unfold sliceStep at hs
      simp only at hs
      split at hs
      · simp only [Except.ok.injEq, Prod.mk.injEq] at hs; rw [← hs.1]; exact hx
      · split at hs
        · cases hs
        · split at hs
          · cases hs
          · split at hs
            · simp only [Except.ok.injEq, Prod.mk.injEq] at hs; rw [← hs.1]; exact hx
            · simp only [Except.ok.injEq, Prod.mk.injEq] at hs; rw [← hs.1]; simp [hx]

theorem sliceLoop_mono (c : Circuit) (inputs : List Label) : ∀ (fuel : Nat) (gs q gs' : List Label),
    sliceLoop c inputs fuel gs q = .ok gs' → ∀ x ∈ gs, x ∈ gs' := by
  intro fuel
  induction fuel with
  | zero => intro gs q gs' h x hx; simp [sliceLoop] at h; rw [← h]; exact hx
  | succ n ih =>
    intro gs q gs' h x hx
    unfold sliceLoop at h
    split at h
    · simp only [Except.ok.injEq] at h; rw [← h]; exact hx
    · split at h
      · cases h
      · rename_i g _
        simp only at h
        have h' : (match g.ops.foldl (sliceStep c inputs) (.ok (gs, q.dropLast)) with
            | .error e => (Except.error e : R (List Label))
            | .ok (gs, q) => sliceLoop c inputs n gs q) = .ok gs' := h
        cases hf : g.ops.foldl (sliceStep c inputs) (.ok (gs, q.dropLast)) with
        | error e => rw [hf] at h'; cases h'
        | ok pr =>
          obtain ⟨g1, q1⟩ := pr
          rw [hf] at h'
          exact ih g1 q1 gs' h' x (sliceStep_mono c inputs g.ops gs _ g1 q1 hf x hx)

/-- everything the slice loop discovers is a non-INPUT gate -/
theorem sliceStep_ni (c : Circuit) (inputs : List Label) : ∀ (ops : List Label) (gs q gs' q' : List Label),
    ops.foldl (sliceStep c inputs) (.ok (gs, q)) = .ok (gs', q') →
    ∀ x ∈ gs', x ∈ gs ∨ ∃ og, c.find? x = some og ∧ og.ty ≠ INPUT := by
  intro ops
  induction ops with
  | nil => intro gs q gs' q' h x hx; simp at h; rw [← h.1] at hx; exact Or.inl hx
  | cons o r ih =>
    intro gs q gs' q' h x hx
    simp only [List.foldl_cons] at h
    cases hs : sliceStep c inputs (.ok (gs, q)) o with
    | error e => rw [hs, sliceStep_error] at h; cases h
    | ok pr =>
      obtain ⟨g1, q1⟩ := pr
      rw [hs] at h
      rcases ih g1 q1 gs' q' h x hx with h1 | h1
      · unfold sliceStep at hs
        simp only at hs
        split at hs
        · simp only [Except.ok.injEq, Prod.mk.injEq] at hs; rw [← hs.1] at h1; exact Or.inl h1
        · split at hs
          · cases hs
          · rename_i og hog
            split at hs
            · cases hs
            · rename_i hty
              split at hs
              · simp only [Except.ok.injEq, Prod.mk.injEq] at hs; rw [← hs.1] at h1; exact Or.inl h1
              · simp only [Except.ok.injEq, Prod.mk.injEq] at hs
                rw [← hs.1] at h1
                rcases List.mem_append.mp h1 with h2 | h2
                · exact Or.inl h2
                · simp only [List.mem_singleton] at h2; subst h2
                  exact Or.inr ⟨og, hog, hty⟩
      · exact Or.inr h1

theorem sliceLoop_ni (c : Circuit) (inputs : List Label) : ∀ (fuel : Nat) (gs q gs' : List Label),
    sliceLoop c inputs fuel gs q = .ok gs' → ∀ x ∈ gs', x ∈ gs ∨ ∃ og, c.find? x = some og ∧ og.ty ≠ INPUT := by
  intro fuel
  induction fuel with
  | zero => intro gs q gs' h x hx; simp [sliceLoop] at h; rw [← h] at hx; exact Or.inl hx
  | succ n ih =>
    intro gs q gs' h x hx
    unfold sliceLoop at h
    split at h
    · simp only [Except.ok.injEq] at h; rw [← h] at hx; exact Or.inl hx
    · split at h
      · cases h
      · rename_i g _
        simp only at h
        have h' : (match g.ops.foldl (sliceStep c inputs) (.ok (gs, q.dropLast)) with
            | .error e => (Except.error e : R (List Label))
            | .ok (gs, q) => sliceLoop c inputs n gs q) = .ok gs' := h
        cases hf : g.ops.foldl (sliceStep c inputs) (.ok (gs, q.dropLast)) with
        | error e => rw [hf] at h'; cases h'
        | ok pr =>
          obtain ⟨g1, q1⟩ := pr
          rw [hf] at h'
          rcases ih g1 q1 gs' h' x hx with h1 | h1
          · exact sliceStep_ni c inputs g.ops gs _ g1 q1 hf x h1
          · exact Or.inr h1

end Cirbo
