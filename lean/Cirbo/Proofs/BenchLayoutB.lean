import Cirbo.Proofs.BenchLayoutA
/-!
# Bench lines in any layout — part B: the line theorems
-/
namespace Cirbo
open GateType

theorem upperS_cons (a : Char) (r : Str) : upperS (a :: r) = a.toUpper :: upperS r := rfl

/-- a line that starts with an identifier followed by a space or `=` is not a declaration -/
theorem not_decl_prefix {lab tail : Str} {c : Char} (h : IsIdent lab) (hc : c = ' ' ∨ c = '=')
    (p : Str) (hp : '(' ∈ p) (hcp : c ∉ p) : p.isPrefixOf (upperS (lab ++ c :: tail)) = false := by
  cases hpre : p.isPrefixOf (upperS (lab ++ c :: tail)) with
  | false => rfl
  | true =>
    exfalso
    have hcu : c.toUpper = c := by rcases hc with rfl | rfl <;> decide
    have e : upperS (lab ++ c :: tail) = upperS lab ++ c :: upperS tail := by
      rw [upperS_append, upperS_cons, hcu]
    rw [e] at hpre
    have := mem_of_isPrefixOf (prefix_of_append_sep hcp hpre) '(' hp
    simp only [upperS, List.mem_map] at this
    obtain ⟨ch, hch, hup⟩ := this
    have hne : ch ≠ '(' := by
      intro e2; have := h.2 ch hch; rw [e2] at this; revert this; decide
    exact toUpper_ne_paren ch hne hup

theorem prefix_false_of_head {p s : Str} {a b : Char} {p' s' : Str} (hp : p = a :: p') (hs : s = b :: s')
    (hab : a ≠ b) : p.isPrefixOf s = false := by
  subst hp hs
  simp [List.isPrefixOf, hab]

theorem findIdx_first {c : Char} {a r : Str} (h : c ∉ a) : findIdx c (a ++ c :: r) = some a.length :=
  findIdx_append_cons h

/-- **a gate line in any layout**: spaces before and after the output name, around `=`, between
the operator and `(`, around every operand; the operator in any letter case (and `BUFF` for `IFF`);
anything at all after the closing parenthesis — parses to exactly that gate -/
theorem parseLine_gate_layout (c : Circuit) (g : Gate) (hty : g.ty ≠ INPUT)
    (hl : IsIdent g.label.toList) (hops : ∀ o ∈ g.ops, IsIdent o.toList)
    (har : parserArityOk g.ty g.ops.length = true)
    {sp0 sp1 sp2 sp3 kw A T : Str} (h0 : Sp sp0) (h1 : Sp sp1) (h2 : Sp sp2) (h3 : Sp sp3)
    (hkw : gateTypeOfKeyword (upperS kw) = some g.ty) (hA : ArgsLayout g.ops A) :
    parseLine c (sp0 ++ g.label.toList ++ sp1 ++ '=' :: (sp2 ++ kw ++ sp3 ++ '(' :: (A ++ ')' :: T)))
      = .ok (c.rawAddGate g) := by
  generalize hlab : g.label.toList = lab at hl
  obtain ⟨hkne, hkc, hkV⟩ := keyword_accept hkw
  obtain ⟨k0, kr, hk0⟩ : ∃ k0 kr, kw = k0 :: kr := by
    cases kw with
    | nil => exact absurd rfl hkne
    | cons a b => exact ⟨a, b, rfl⟩
  obtain ⟨l0, lr, hl0⟩ : ∃ l0 lr, lab = l0 :: lr := by
    cases lab with
    | nil => exact absurd rfl hl.1
    | cons a b => exact ⟨a, b, rfl⟩
  have hl0i := hl.2 l0 (by rw [hl0]; simp)
  have hAc := argsLayout_chars hA hops
  -- the two halves
  obtain ⟨L, hL⟩ : ∃ L, sp0 ++ lab ++ sp1 = L := ⟨_, rfl⟩
  obtain ⟨X, hX⟩ : ∃ X, kw ++ sp3 ++ '(' :: (A ++ [')']) = X := ⟨_, rfl⟩
  have hline : sp0 ++ lab ++ sp1 ++ '=' :: (sp2 ++ kw ++ sp3 ++ '(' :: (A ++ ')' :: T)) = L ++ '=' :: (sp2 ++ X ++ T) := by
    rw [← hL, ← hX]; simp
  rw [hline]
  have hLeq : '=' ∉ L := by
    rw [← hL]
    simp only [List.mem_append, not_or]
    refine ⟨⟨?_, hl.not_mem (by decide)⟩, ?_⟩
    · intro hm; have := h0 _ hm; revert this; decide
    · intro hm; have := h1 _ hm; revert this; decide
  -- classification of the line
  have hLne : ∃ a0 ar, L ++ '=' :: (sp2 ++ X ++ T) = a0 :: ar ∧ (a0 = ' ' ∨ a0 = l0) := by
    rw [← hL]
    cases sp0 with
    | nil => rw [hl0]; exact ⟨l0, lr ++ sp1 ++ '=' :: (sp2 ++ X ++ T), by simp, Or.inr rfl⟩
    | cons s0 sr =>
      have : s0 = ' ' := h0 s0 (by simp)
      exact ⟨s0, sr ++ lab ++ sp1 ++ '=' :: (sp2 ++ X ++ T), by simp, Or.inl this⟩
  obtain ⟨a0, ar, hLa, ha0⟩ := hLne
  have ha0h : a0 ≠ '#' ∧ a0 ≠ '\n' := by
    rcases ha0 with rfl | rfl
    · constructor <;> decide
    · constructor <;> (intro e; rw [e] at hl0i; revert hl0i; decide)
  have hdecl : ∀ p : Str, '(' ∈ p → ' ' ∉ p → '=' ∉ p → (∀ p0 pr, p = p0 :: pr → p0 ≠ ' ') →
      p.isPrefixOf (upperS (L ++ '=' :: (sp2 ++ X ++ T))) = false := by
    intro p hp hsp heq hph
    cases sp0 with
    | cons s0 sr =>
      have hs0 : s0 = ' ' := h0 s0 (by simp)
      cases p with
      | nil => cases hp
      | cons p0 pr =>
        rw [← hL]
        simp only [List.cons_append, upperS_cons]
        rw [hs0]
        exact prefix_false_of_head rfl rfl (by
          have := hph p0 pr rfl
          intro e; exact this (by rw [e]; decide))
    | nil =>
      rw [← hL]
      simp only [List.nil_append]
      cases sp1 with
      | nil =>
        simp only [List.append_nil]
        exact not_decl_prefix hl (Or.inr rfl) p hp heq
      | cons s1 sr1 =>
        have hs1 : s1 = ' ' := h1 s1 (by simp)
        subst hs1
        have : lab ++ ' ' :: sr1 ++ '=' :: (sp2 ++ X ++ T) = lab ++ ' ' :: (sr1 ++ '=' :: (sp2 ++ X ++ T)) := by simp
        rw [this]
        exact not_decl_prefix hl (Or.inl rfl) p hp hsp
  unfold parseLine
  have hcond : ((L ++ '=' :: (sp2 ++ X ++ T)).isEmpty || (L ++ '=' :: (sp2 ++ X ++ T) == ['\n'])
      || (L ++ '=' :: (sp2 ++ X ++ T)).head? == some '#') = false := by
    rw [hLa]
    simp only [List.isEmpty_cons, Bool.false_or, List.head?_cons, Bool.or_eq_false_iff]
    constructor
    · cases har' : ((a0 :: ar) == ['\n']) with
      | false => rfl
      | true =>
        exfalso
        have : a0 :: ar = ['\n'] := by simpa using har'
        exact ha0h.2 (List.cons.inj this).1
    · simpa using ha0h.1
  have hI := hdecl (strOf "INPUT(") (by decide) (by decide) (by decide) (by intro p0 pr e; cases e; decide)
  have hO := hdecl (strOf "OUTPUT(") (by decide) (by decide) (by decide) (by intro p0 pr e; cases e; decide)
  simp only [hcond, Bool.false_eq_true, if_false, hI, hO]
  -- position of '='
  rw [findIdx_first hLeq]
  simp only
  have htake : (L ++ '=' :: (sp2 ++ X ++ T)).take L.length = L := List.take_left' rfl
  have hdrop : (L ++ '=' :: (sp2 ++ X ++ T)).drop (L.length + 1) = sp2 ++ X ++ T := by
    have : L ++ '=' :: (sp2 ++ X ++ T) = (L ++ ['=']) ++ (sp2 ++ X ++ T) := by simp
    rw [this]; exact List.drop_left' (by simp)
  rw [htake, hdrop]
  -- the output name
  have hout : stripSet [' '] L = lab := by
    rw [← hL]
    exact stripSet_pad hl.1 h0.contains h1.contains
      (fun c0 r e => contains_space_false (ident_no_space hl c0 (by rw [e]; simp)))
      (fun c0 r e => contains_space_false (ident_no_space hl c0 (by
        have : c0 ∈ lab.reverse := by rw [e]; simp
        simpa using this)))
  rw [hout]
  -- the body
  have hXne : X ≠ [] := by rw [← hX, hk0]; simp
  obtain ⟨T', hbody⟩ := stripSet_keep (set := [' ']) (pre := sp2) (X := X) (T := T) hXne h2.contains
    (fun c0 r e => by
      rw [← hX, hk0] at e
      simp only [List.cons_append, List.cons.injEq] at e
      exact contains_space_false (e.1 ▸ (hkc k0 (by rw [hk0]; simp)).2.2.1))
    (fun c0 r e => by
      rw [← hX] at e
      simp only [List.reverse_append, List.reverse_cons, List.reverse_nil, List.nil_append,
        List.cons_append, List.singleton_append, List.append_assoc] at e
      have := (List.cons.inj e).1
      rw [← this]; decide)
  rw [hbody]
  -- not `vdd`
  have hvdd : (upperS ((X ++ T').take 3) == strOf "VDD") = false := by
    cases hb : (upperS ((X ++ T').take 3) == strOf "VDD") with
    | false => rfl
    | true =>
      exfalso
      have e : upperS ((X ++ T').take 3) = strOf "VDD" := by simpa using hb
      rw [← hX, hk0] at e
      simp only [List.cons_append, List.take_succ_cons, upperS_cons] at e
      have h1' := (List.cons.inj e).1
      exact hkV k0.toUpper (upperS kr) (by rw [hk0, upperS_cons]) h1'
  simp only [hvdd, Bool.false_eq_true, if_false]
  -- parentheses
  have hKS : '(' ∉ kw ++ sp3 ∧ ')' ∉ kw ++ sp3 := by
    constructor
    · simp only [List.mem_append, not_or]
      exact ⟨fun hm => (hkc _ hm).1 rfl, fun hm => by have := h3 _ hm; revert this; decide⟩
    · simp only [List.mem_append, not_or]
      exact ⟨fun hm => (hkc _ hm).2.1 rfl, fun hm => by have := h3 _ hm; revert this; decide⟩
  have hXT : X ++ T' = (kw ++ sp3) ++ '(' :: (A ++ ')' :: T') := by rw [← hX]; simp
  have hl_idx : findIdx '(' (X ++ T') = some (kw ++ sp3).length := by
    rw [hXT]; exact findIdx_first hKS.1
  have hr_idx : findIdx ')' (X ++ T') = some ((kw ++ sp3).length + 1 + A.length) := by
    have : X ++ T' = ((kw ++ sp3) ++ '(' :: A) ++ ')' :: T' := by rw [hXT]; simp
    rw [this, findIdx_first]
    · simp; omega
    · intro hm
      rcases List.mem_append.mp hm with hm | hm
      · exact hKS.2 hm
      · rcases List.mem_cons.mp hm with hm | hm
        · revert hm; decide
        · exact (hAc _ hm).2.1 rfl
  simp only [hl_idx, hr_idx]
  have htk : (X ++ T').take (kw ++ sp3).length = kw ++ sp3 := by rw [hXT]; exact List.take_left' rfl
  have htr : ((X ++ T').take ((kw ++ sp3).length + 1 + A.length)).drop ((kw ++ sp3).length + 1) = A := by
    have : X ++ T' = ((kw ++ sp3) ++ '(' :: A) ++ ')' :: T' := by rw [hXT]; simp
    rw [this, List.take_left' (by simp; omega)]
    have : (kw ++ sp3) ++ '(' :: A = ((kw ++ sp3) ++ ['(']) ++ A := by simp
    rw [this]; exact List.drop_left' (by simp; omega)
  rw [htk, htr]
  have hkws : stripSet [' '] (kw ++ sp3) = kw := by
    have := stripSet_pad (set := [' ']) (pre := []) (post := sp3) (s := kw) hkne
      (by intro ch h; cases h) h3.contains
      (fun c0 r e => contains_space_false ((hkc c0 (by rw [e]; simp)).2.2.1))
      (fun c0 r e => contains_space_false ((hkc c0 (by
        have : c0 ∈ kw.reverse := by rw [e]; simp
        simpa using this)).2.2.1))
    simpa using this
  rw [hkws, hkw]
  simp only
  rw [argsLayout_parse hA hops]
  have hlabel : String.ofList lab = g.label := by rw [← hlab]; exact String.ofList_toList
  by_cases hops0 : g.ops = []
  · rw [if_pos hops0]
    have hconst : g.ty = ALWAYS_TRUE ∨ g.ty = ALWAYS_FALSE := by
      rw [hops0] at har
      cases hgt : g.ty <;> simp [hgt, parserArityOk] at har ⊢
    rcases hconst with hc | hc <;> (simp [hc, parserArityOk, hlabel]; congr 1; cases g; simp_all)
  · rw [if_neg hops0]
    have hfilter : g.ops.filter (fun x => x != "") = g.ops := by
      apply List.filter_eq_self.mpr
      intro x hx
      have : x ≠ "" := by
        intro e; have := (hops x hx).1; rw [e] at this; exact this rfl
      simpa using this
    simp only [hfilter, ite_self, har, if_true, hlabel]

/-! ## declarations, `vdd`, comments -/

theorem upper_eq_cons {s : Str} {x : Char} {xs : Str} (h : upperS s = x :: xs) :
    ∃ a r, s = a :: r ∧ a.toUpper = x ∧ upperS r = xs := by
  cases s with
  | nil => simp [upperS] at h
  | cons a r =>
    rw [upperS_cons] at h
    exact ⟨a, r, rfl, (List.cons.inj h).1, (List.cons.inj h).2⟩

theorem upper_eq_nil {s : Str} (h : upperS s = []) : s = [] := by
  cases s with
  | nil => rfl
  | cons a r => simp [upperS] at h

/-- padding of a declared name: closing parentheses, spaces, the line terminator -/
def DeclPad (s : Str) : Prop := ∀ ch ∈ s, ([')', ' ', '\n'] : Str).contains ch = true

theorem strip_decl_pad {lab p1 p2 : Str} (h : IsIdent lab) (h1 : DeclPad p1) (h2 : DeclPad p2) :
    stripSet [')', ' ', '\n'] (p1 ++ lab ++ p2) = lab :=
  stripSet_pad h.1 h1 h2
    (fun c0 r e => ident_not_in_decl_set h c0 (by rw [e]; simp))
    (fun c0 r e => ident_not_in_decl_set h c0 (by
      have : c0 ∈ lab.reverse := by rw [e]; simp
      simpa using this))

/-- `INPUT(name)` in any letter case, with spaces around the name -/
theorem parseLine_input_layout (c : Circuit) (l : Label) (hl : IsIdent l.toList) {kw p1 p2 : Str}
    (hk : upperS kw = strOf "INPUT(") (h1 : DeclPad p1) (h2 : DeclPad p2) :
    parseLine c (kw ++ p1 ++ l.toList ++ p2) = .ok (c.rawAddGate ⟨l, INPUT, []⟩) := by
  have hk' : upperS kw = ['I', 'N', 'P', 'U', 'T', '('] := hk
  obtain ⟨a1, r1, e1, u1, hk1⟩ := upper_eq_cons hk'
  obtain ⟨a2, r2, e2, u2, hk2⟩ := upper_eq_cons hk1
  obtain ⟨a3, r3, e3, u3, hk3⟩ := upper_eq_cons hk2
  obtain ⟨a4, r4, e4, u4, hk4⟩ := upper_eq_cons hk3
  obtain ⟨a5, r5, e5, u5, hk5⟩ := upper_eq_cons hk4
  obtain ⟨a6, r6, e6, u6, hk6⟩ := upper_eq_cons hk5
  have e7 := upper_eq_nil hk6
  subst e7 e6 e5 e4 e3 e2 e1
  unfold parseLine
  have e : [a1, a2, a3, a4, a5, a6] ++ p1 ++ l.toList ++ p2 = a1 :: a2 :: a3 :: a4 :: a5 :: a6 :: (p1 ++ l.toList ++ p2) := by simp
  rw [e]
  have hpre : (strOf "INPUT(").isPrefixOf (upperS (a1 :: a2 :: a3 :: a4 :: a5 :: a6 :: (p1 ++ l.toList ++ p2))) = true := by
    simp [upperS_cons, u1, u2, u3, u4, u5, u6, strOf, List.isPrefixOf]
  have hdrop : (a1 :: a2 :: a3 :: a4 :: a5 :: a6 :: (p1 ++ l.toList ++ p2)).drop 6 = p1 ++ l.toList ++ p2 := rfl
  have ha1 : a1 ≠ '#' := by intro e; rw [e] at u1; revert u1; decide
  have hcond : ((a1 :: a2 :: a3 :: a4 :: a5 :: a6 :: (p1 ++ l.toList ++ p2)).isEmpty
      || (a1 :: a2 :: a3 :: a4 :: a5 :: a6 :: (p1 ++ l.toList ++ p2)) == ['\n']
      || (a1 :: a2 :: a3 :: a4 :: a5 :: a6 :: (p1 ++ l.toList ++ p2)).head? == some '#') = false := by
    simp [ha1]
  have hs : strOf ") \n" = [')', ' ', '\n'] := by decide
  simp only [hcond, Bool.false_eq_true, if_false, hpre, if_true, hdrop, hs, strip_decl_pad hl h1 h2,
    String.ofList_toList]

/-- `OUTPUT(name)` in any letter case, with spaces around the name -/
theorem parseLine_output_layout (c : Circuit) (l : Label) (hl : IsIdent l.toList) {kw p1 p2 : Str}
    (hk : upperS kw = strOf "OUTPUT(") (h1 : DeclPad p1) (h2 : DeclPad p2) :
    parseLine c (kw ++ p1 ++ l.toList ++ p2) = .ok { c with outputs := c.outputs ++ [l] } := by
  have hk' : upperS kw = ['O', 'U', 'T', 'P', 'U', 'T', '('] := hk
  obtain ⟨a1, r1, e1, u1, hk1⟩ := upper_eq_cons hk'
  obtain ⟨a2, r2, e2, u2, hk2⟩ := upper_eq_cons hk1
  obtain ⟨a3, r3, e3, u3, hk3⟩ := upper_eq_cons hk2
  obtain ⟨a4, r4, e4, u4, hk4⟩ := upper_eq_cons hk3
  obtain ⟨a5, r5, e5, u5, hk5⟩ := upper_eq_cons hk4
  obtain ⟨a6, r6, e6, u6, hk6⟩ := upper_eq_cons hk5
  obtain ⟨a7, r7, e7, u7, hk7⟩ := upper_eq_cons hk6
  have e8 := upper_eq_nil hk7
  subst e8 e7 e6 e5 e4 e3 e2 e1
  unfold parseLine
  have e : [a1, a2, a3, a4, a5, a6, a7] ++ p1 ++ l.toList ++ p2
      = a1 :: a2 :: a3 :: a4 :: a5 :: a6 :: a7 :: (p1 ++ l.toList ++ p2) := by simp
  rw [e]
  have hnin : (strOf "INPUT(").isPrefixOf (upperS (a1 :: a2 :: a3 :: a4 :: a5 :: a6 :: a7 :: (p1 ++ l.toList ++ p2))) = false := by
    simp [upperS_cons, u1, strOf, List.isPrefixOf]
  have hpre : (strOf "OUTPUT(").isPrefixOf (upperS (a1 :: a2 :: a3 :: a4 :: a5 :: a6 :: a7 :: (p1 ++ l.toList ++ p2))) = true := by
    simp [upperS_cons, u1, u2, u3, u4, u5, u6, u7, strOf, List.isPrefixOf]
  have hdrop : (a1 :: a2 :: a3 :: a4 :: a5 :: a6 :: a7 :: (p1 ++ l.toList ++ p2)).drop 7 = p1 ++ l.toList ++ p2 := rfl
  have ha1 : a1 ≠ '#' := by intro e; rw [e] at u1; revert u1; decide
  have hcond : ((a1 :: a2 :: a3 :: a4 :: a5 :: a6 :: a7 :: (p1 ++ l.toList ++ p2)).isEmpty
      || (a1 :: a2 :: a3 :: a4 :: a5 :: a6 :: a7 :: (p1 ++ l.toList ++ p2)) == ['\n']
      || (a1 :: a2 :: a3 :: a4 :: a5 :: a6 :: a7 :: (p1 ++ l.toList ++ p2)).head? == some '#') = false := by
    simp [ha1]
  have hs : strOf ") \n" = [')', ' ', '\n'] := by decide
  simp only [hcond, Bool.false_eq_true, if_false, hnin, hpre, if_true, hdrop, hs, strip_decl_pad hl h1 h2,
    String.ofList_toList]

/-- a comment line -/
theorem parseLine_comment (c : Circuit) (rest : Str) : parseLine c ('#' :: rest) = .ok c := by
  unfold parseLine
  simp

/-- `name = vdd` (any letter case, any spaces, anything after it): the constant-true gate -/
theorem parseLine_vdd_layout (c : Circuit) (l : Label) (hl : IsIdent l.toList)
    {sp0 sp1 sp2 v T : Str} (h0 : Sp sp0) (h1 : Sp sp1) (h2 : Sp sp2) (hv : upperS v = strOf "VDD") :
    parseLine c (sp0 ++ l.toList ++ sp1 ++ '=' :: (sp2 ++ v ++ T)) = .ok (c.rawAddGate ⟨l, ALWAYS_TRUE, []⟩) := by
  generalize hlab : l.toList = lab at hl
  have hv' : upperS v = ['V', 'D', 'D'] := hv
  obtain ⟨v1, r1, e1, u1, hk1⟩ := upper_eq_cons hv'
  obtain ⟨v2, r2, e2, u2, hk2⟩ := upper_eq_cons hk1
  obtain ⟨v3, r3, e3, u3, hk3⟩ := upper_eq_cons hk2
  have e4 := upper_eq_nil hk3
  subst e4 e3 e2 e1
  obtain ⟨l0, lr, hl0⟩ : ∃ l0 lr, lab = l0 :: lr := by
    cases lab with
    | nil => exact absurd rfl hl.1
    | cons a b => exact ⟨a, b, rfl⟩
  have hl0i := hl.2 l0 (by rw [hl0]; simp)
  obtain ⟨L, hL⟩ : ∃ L, sp0 ++ lab ++ sp1 = L := ⟨_, rfl⟩
  obtain ⟨X, hX⟩ : ∃ X : Str, [v1, v2, v3] = X := ⟨_, rfl⟩
  have hline : sp0 ++ lab ++ sp1 ++ '=' :: (sp2 ++ [v1, v2, v3] ++ T) = L ++ '=' :: (sp2 ++ X ++ T) := by
    rw [← hL, ← hX]
  rw [hline]
  have hLeq : '=' ∉ L := by
    rw [← hL]
    simp only [List.mem_append, not_or]
    refine ⟨⟨?_, hl.not_mem (by decide)⟩, ?_⟩
    · intro hm; have := h0 _ hm; revert this; decide
    · intro hm; have := h1 _ hm; revert this; decide
  -- classification of the line
  have hLne : ∃ a0 ar, L ++ '=' :: (sp2 ++ X ++ T) = a0 :: ar ∧ (a0 = ' ' ∨ a0 = l0) := by
    rw [← hL]
    cases sp0 with
    | nil => rw [hl0]; exact ⟨l0, lr ++ sp1 ++ '=' :: (sp2 ++ X ++ T), by simp, Or.inr rfl⟩
    | cons s0 sr =>
      have : s0 = ' ' := h0 s0 (by simp)
      exact ⟨s0, sr ++ lab ++ sp1 ++ '=' :: (sp2 ++ X ++ T), by simp, Or.inl this⟩
  obtain ⟨a0, ar, hLa, ha0⟩ := hLne
  have ha0h : a0 ≠ '#' ∧ a0 ≠ '\n' := by
    rcases ha0 with rfl | rfl
    · constructor <;> decide
    · constructor <;> (intro e; rw [e] at hl0i; revert hl0i; decide)
  have hdecl : ∀ p : Str, '(' ∈ p → ' ' ∉ p → '=' ∉ p → (∀ p0 pr, p = p0 :: pr → p0 ≠ ' ') →
      p.isPrefixOf (upperS (L ++ '=' :: (sp2 ++ X ++ T))) = false := by
    intro p hp hsp heq hph
    cases sp0 with
    | cons s0 sr =>
      have hs0 : s0 = ' ' := h0 s0 (by simp)
      cases p with
      | nil => cases hp
      | cons p0 pr =>
        rw [← hL]
        simp only [List.cons_append, upperS_cons]
        rw [hs0]
        exact prefix_false_of_head rfl rfl (by
          have := hph p0 pr rfl
          intro e; exact this (by rw [e]; decide))
    | nil =>
      rw [← hL]
      simp only [List.nil_append]
      cases sp1 with
      | nil =>
        simp only [List.append_nil]
        exact not_decl_prefix hl (Or.inr rfl) p hp heq
      | cons s1 sr1 =>
        have hs1 : s1 = ' ' := h1 s1 (by simp)
        subst hs1
        have : lab ++ ' ' :: sr1 ++ '=' :: (sp2 ++ X ++ T) = lab ++ ' ' :: (sr1 ++ '=' :: (sp2 ++ X ++ T)) := by simp
        rw [this]
        exact not_decl_prefix hl (Or.inl rfl) p hp hsp
  unfold parseLine
  have hcond : ((L ++ '=' :: (sp2 ++ X ++ T)).isEmpty || (L ++ '=' :: (sp2 ++ X ++ T) == ['\n'])
      || (L ++ '=' :: (sp2 ++ X ++ T)).head? == some '#') = false := by
    rw [hLa]
    simp only [List.isEmpty_cons, Bool.false_or, List.head?_cons, Bool.or_eq_false_iff]
    constructor
    · cases har' : ((a0 :: ar) == ['\n']) with
      | false => rfl
      | true =>
        exfalso
        have : a0 :: ar = ['\n'] := by simpa using har'
        exact ha0h.2 (List.cons.inj this).1
    · simpa using ha0h.1
  have hI := hdecl (strOf "INPUT(") (by decide) (by decide) (by decide) (by intro p0 pr e; cases e; decide)
  have hO := hdecl (strOf "OUTPUT(") (by decide) (by decide) (by decide) (by intro p0 pr e; cases e; decide)
  simp only [hcond, Bool.false_eq_true, if_false, hI, hO]
  -- position of '='
  rw [findIdx_first hLeq]
  simp only
  have htake : (L ++ '=' :: (sp2 ++ X ++ T)).take L.length = L := List.take_left' rfl
  have hdrop : (L ++ '=' :: (sp2 ++ X ++ T)).drop (L.length + 1) = sp2 ++ X ++ T := by
    have : L ++ '=' :: (sp2 ++ X ++ T) = (L ++ ['=']) ++ (sp2 ++ X ++ T) := by simp
    rw [this]; exact List.drop_left' (by simp)
  rw [htake, hdrop]
  -- the output name
  have hout : stripSet [' '] L = lab := by
    rw [← hL]
    exact stripSet_pad hl.1 h0.contains h1.contains
      (fun c0 r e => contains_space_false (ident_no_space hl c0 (by rw [e]; simp)))
      (fun c0 r e => contains_space_false (ident_no_space hl c0 (by
        have : c0 ∈ lab.reverse := by rw [e]; simp
        simpa using this)))
  rw [hout]
  -- the body
  have hv1s : v1 ≠ ' ' := by intro e; rw [e] at u1; revert u1; decide
  have hv3s : v3 ≠ ' ' := by intro e; rw [e] at u3; revert u3; decide
  obtain ⟨T', hbody⟩ := stripSet_keep (set := [' ']) (pre := sp2) (X := X) (T := T) (by rw [← hX]; simp) h2.contains
    (fun c0 r e => by
      rw [← hX] at e
      exact contains_space_false ((List.cons.inj e).1 ▸ hv1s))
    (fun c0 r e => by
      rw [← hX] at e
      simp only [List.reverse_cons, List.reverse_nil, List.nil_append, List.cons_append, List.singleton_append] at e
      exact contains_space_false ((List.cons.inj e).1 ▸ hv3s))
  rw [hbody]
  have hvdd : (upperS ((X ++ T').take 3) == strOf "VDD") = true := by
    rw [← hX]
    simp [upperS_cons, u1, u2, u3, strOf, upperS]
  simp only [hvdd, if_true]
  have hlabel : String.ofList lab = l := by rw [← hlab]; exact String.ofList_toList
  rw [hlabel]


end Cirbo
