import Cirbo.Proofs.GenTotalB
import Cirbo.Proofs.GenWeighted
/-!
# Totality of the weighted sums and of `add_sum_pow2_m1`

`add_sum_n_weighted_bits_naive`, `add_sum_n_weighted_bits` (both bases) and `add_sum_pow2_m1` return on every
non-empty list of operands that are gates of the circuit (or stop because the label space is exhausted).

Contracts of the un-weighted XAIG level functions (`pairUp`, `xaigLevel`), of the AIG blocks and of
`add_sum_n_bits` are taken as hypotheses (`wb_HPairUp`, `wb_HXaigLevel`, `Blk3 addSum3Aig`, `Blk2 addSum2Aig`,
`wb_HAddSumNBits`); they are proved elsewhere.
-/
namespace Cirbo
open GateType Circuit

/-! ## hypotheses to be discharged at integration -/

/-- labels of a list of `(x, x ⊕ y)` pairs -/
def wb_pl (l : List (Label × Label)) : List Label := l.flatMap (fun p => [p.1, p.2])

/-- `pairUp` returns on known labels; it never makes a non-empty level empty -/
def wb_HPairUp : Prop :=
  ∀ (fuel : Nat) (soloR : List Label) (pairsR : List (Label × Label)) (st : GSt) (P K : List Label), Inv st P → Kn st K →
    (∀ l ∈ soloR, l ∈ K) → (∀ p ∈ pairsR, p.1 ∈ K ∧ p.2 ∈ K) →
    Ok (pairUp fuel soloR pairsR) st (GPost P K (fun r => r.1 ++ wb_pl r.2)
      (fun r => (soloR ≠ [] ∨ pairsR ≠ []) → (r.1 ≠ [] ∨ r.2 ≠ [])))

/-- one XAIG level returns on a non-empty level of known labels -/
def wb_HXaigLevel : Prop :=
  ∀ (soloR : List Label) (pairsR : List (Label × Label)) (st : GSt) (P K : List Label), Inv st P → Kn st K →
    (∀ l ∈ soloR, l ∈ K) → (∀ p ∈ pairsR, p.1 ∈ K ∧ p.2 ∈ K) → (soloR ≠ [] ∨ pairsR ≠ []) →
    Ok (xaigLevel soloR pairsR) st (GPost P K (fun r => r.1 :: r.2.1 ++ wb_pl r.2.2) (fun _ => True))

/-- `add_sum_n_bits` returns on known labels (a basis argument that resolves); the count of a non-empty list of
bits has at least one bit -/
def wb_HAddSumNBits : Prop :=
  ∀ (ins : List Label) (basis : BasisArg) (b : Basis) (be : Bool) (st : GSt) (P K : List Label), basis.resolve = .ok b →
    Inv st P → Kn st K → (∀ l ∈ ins, l ∈ K) →
    Ok (addSumNBits ins basis be) st (GPost P K id (fun r => ins ≠ [] → r ≠ []))

theorem wb_mem_pl {l : List (Label × Label)} {x : Label} : x ∈ wb_pl l ↔ ∃ p ∈ l, x = p.1 ∨ x = p.2 := by
  unfold wb_pl
  simp only [List.mem_flatMap, List.mem_cons, List.not_mem_nil, or_false]

/-! ## the simple scheme: `wReduce3`, `wReduce2`, one level -/

abbrev wb_lev1 : Nat × Label → Nat := fun x => x.1
abbrev wb_lev2 : Nat × Label × Label → Nat := fun x => x.1

theorem wb_insertS_sorted (x : Nat × Label) (l : List (Nat × Label)) (h : LSorted wb_lev1 l) :
    LSorted wb_lev1 (insertBy ltSingle x l) := insertBy_sorted ltSingle_le ltSingle_ge x l h

/-- `wReduce3`: never fails; the carries go to level `lvl + 1` of `single`, which stays sorted; with enough
fuel at most two labels stay -/
theorem wb_ok_wReduce3 {blk3 : List Label → Prog (List Label)} (hb : Blk3 blk3) (lvl : Nat) :
    ∀ (fuel : Nat) (nowR : List Label) (single : List (Nat × Label)) (st : GSt) (P K : List Label), Inv st P → Kn st K →
    (∀ l ∈ nowR, l ∈ K) → (∀ x ∈ single, x.2 ∈ K) →
    Ok (wReduce3 blk3 lvl fuel nowR single) st (GPost P K (fun r => r.1 ++ r.2.map (·.2))
      (fun r => (nowR ≠ [] → r.1 ≠ []) ∧ (nowR.length ≤ fuel → r.1.length ≤ 2) ∧
        (LSorted wb_lev1 single → LSorted wb_lev1 r.2) ∧ (∀ x ∈ r.2, x ∈ single ∨ x.1 = lvl + 1))) := by
  intro fuel
  induction fuel with
  | zero =>
    intro nowR single st P K hinv hk hn hs
    unfold wReduce3
    refine Ok.pure ⟨hinv, ?_, fun h => h, ?_, fun h => h, fun x hx => Or.inl hx⟩
    · intro l hl
      simp only [List.mem_append, List.mem_map] at hl
      rcases hl with hl | hl | ⟨x, hx, rfl⟩
      · exact hk l hl
      · exact hk l (hn l hl)
      · exact hk _ (hs x hx)
    · intro h
      have : nowR = [] := List.eq_nil_of_length_eq_zero (by omega)
      subst this; simp
  | succ n ih =>
    intro nowR single st P K hinv hk hn hs
    have base : ∀ (nr : List Label), (∀ l ∈ nr, l ∈ K) → nr.length ≤ 2 →
        Ok (Prog.pure (nr, single) : Prog (List Label × List (Nat × Label))) st (GPost P K (fun r => r.1 ++ r.2.map (·.2))
          (fun r => (nr ≠ [] → r.1 ≠ []) ∧ (nr.length ≤ n + 1 → r.1.length ≤ 2) ∧
            (LSorted wb_lev1 single → LSorted wb_lev1 r.2) ∧ (∀ x ∈ r.2, x ∈ single ∨ x.1 = lvl + 1))) := by
      intro nr hnr hl
      refine Ok.pure ⟨hinv, ?_, fun h => h, fun _ => hl, fun h => h, fun x hx => Or.inl hx⟩
      intro l hl
      simp only [List.mem_append, List.mem_map] at hl
      rcases hl with hl | hl | ⟨x, hx, rfl⟩
      · exact hk l hl
      · exact hk l (hnr l hl)
      · exact hk _ (hs x hx)
    match nowR, hn with
    | a :: b :: c :: rest, hn =>
      unfold wReduce3
      apply Ok.stepK (hb a b c st P K hinv hk (hn a (by simp)) (hn b (by simp)) (hn c (by simp))); intro r s1 i1 k1 hr
      apply ok_pair2_bind hr; intro x y e2
      subst e2
      simp only [id] at k1
      refine (ih (x :: rest) (insertBy ltSingle (lvl + 1, y) single) s1 P (K ++ [x, y]) i1 k1 (by intro l hl; kmem) ?_).mono ?_
      · intro z hz
        rcases (mem_insertBy _ _ _ _).mp hz with rfl | hz
        · simp
        · exact List.mem_append_left _ (hs z hz)
      · intro res s2 ⟨i2, k2, h1, h2, h3, h4⟩
        refine ⟨i2, k2.mono (by intro l hl; kmem), fun _ => h1 (by simp), ?_, ?_, ?_⟩
        · intro hf; apply h2; simp only [List.length_cons] at hf ⊢; omega
        · intro hs'; exact h3 (wb_insertS_sorted _ _ hs')
        · intro z hz
          rcases h4 z hz with h | h
          · rcases (mem_insertBy _ _ _ _).mp h with rfl | h
            · exact Or.inr rfl
            · exact Or.inl h
          · exact Or.inr h
    | [], hn => unfold wReduce3; exact base [] hn (by simp)
    | [a], hn => unfold wReduce3; exact base [a] hn (by simp)
    | [a, b], hn => unfold wReduce3; exact base [a, b] hn (by simp)

theorem wb_kn_ls {st : GSt} {K nr : List Label} {single : List (Nat × Label)} (hk : Kn st K) (hn : ∀ l ∈ nr, l ∈ K)
    (hs : ∀ x ∈ single, x.2 ∈ K) : Kn st (K ++ (nr ++ single.map (·.2))) := by
  intro l hl
  simp only [List.mem_append, List.mem_map] at hl
  rcases hl with hl | hl | ⟨x, hx, rfl⟩
  · exact hk l hl
  · exact hk l (hn l hl)
  · exact hk _ (hs x hx)

/-- `wReduce2`: never fails (a level of exactly two labels gets a half adder, anything else is passed on) -/
theorem wb_ok_wReduce2 {blk2 : List Label → Prog (List Label)} (hb : Blk2 blk2) (lvl : Nat) (nowR : List Label)
    (single : List (Nat × Label)) (st : GSt) (P K : List Label) (hinv : Inv st P) (hk : Kn st K)
    (hn : ∀ l ∈ nowR, l ∈ K) (hs : ∀ x ∈ single, x.2 ∈ K) :
    Ok (wReduce2 blk2 lvl nowR single) st (GPost P K (fun r => r.1 ++ r.2.map (·.2))
      (fun r => (nowR ≠ [] → r.1 ≠ []) ∧ (nowR.length ≤ 2 → r.1.length ≤ 1) ∧
        (LSorted wb_lev1 single → LSorted wb_lev1 r.2) ∧ (∀ x ∈ r.2, x ∈ single ∨ x.1 = lvl + 1))) := by
  rcases nowR with _ | ⟨a, _ | ⟨b, _ | ⟨c, rest⟩⟩⟩
  · unfold wReduce2
    exact Ok.pure ⟨hinv, wb_kn_ls hk hn hs, fun h => h, fun _ => by simp, fun h => h, fun x hx => Or.inl hx⟩
  · unfold wReduce2
    exact Ok.pure ⟨hinv, wb_kn_ls hk hn hs, fun h => h, fun _ => by simp, fun h => h, fun x hx => Or.inl hx⟩
  · unfold wReduce2
    apply Ok.stepK (hb a b st P K hinv hk (hn a (by simp)) (hn b (by simp))); intro r s1 i1 k1 hr
    apply ok_pair2_bind hr; intro x y e2
    subst e2
    simp only [id] at k1
    refine Ok.ret ⟨i1, ?_, fun _ => by simp, fun _ => by simp, fun h => wb_insertS_sorted _ _ h, ?_⟩
    · intro l hl
      simp only [List.mem_append, List.mem_map, List.mem_singleton] at hl
      rcases hl with hl | rfl | ⟨z, hz, rfl⟩
      · exact k1 l (List.mem_append_left _ hl)
      · exact k1 _ (by simp)
      · rcases (mem_insertBy _ _ _ _).mp hz with rfl | hz
        · exact k1 _ (by simp)
        · exact k1 _ (List.mem_append_left _ (hs z hz))
    · intro z hz
      rcases (mem_insertBy _ _ _ _).mp hz with rfl | hz
      · exact Or.inr rfl
      · exact Or.inl hz
  · unfold wReduce2
    exact Ok.pure ⟨hinv, wb_kn_ls hk hn hs, fun h => h, fun h => by simp at h, fun h => h, fun x hx => Or.inl hx⟩

/-- one level of the simple scheme returns on a non-empty level: the output label and the new `single` are known,
`single` stays sorted and only gets entries at `lvl + 1` -/
theorem wb_ok_wSimpleLevelWith {blk3 blk2 : List Label → Prog (List Label)} (h3 : Blk3 blk3) (h2 : Blk2 blk2) (lvl : Nat)
    (nowS : List Label) (single : List (Nat × Label)) (st : GSt) (P K : List Label) (hinv : Inv st P) (hk : Kn st K)
    (hn : ∀ l ∈ nowS, l ∈ K) (hs : ∀ x ∈ single, x.2 ∈ K) (hne : nowS ≠ []) :
    Ok (wSimpleLevelWith blk3 blk2 lvl nowS single) st (GPost P K (fun r => r.1 :: r.2.map (·.2))
      (fun r => (LSorted wb_lev1 single → LSorted wb_lev1 r.2) ∧ (∀ x ∈ r.2, x ∈ single ∨ x.1 = lvl + 1))) := by
  unfold wSimpleLevelWith
  apply Ok.stepK (wb_ok_wReduce3 h3 lvl nowS.length nowS.reverse single st P K hinv hk
    (by intro l hl; exact hn l (List.mem_reverse.mp hl)) hs)
  intro r1 s1 i1 k1 ⟨a1, _, a3, a4⟩
  obtain ⟨n1, sg1⟩ := r1
  simp only at k1 a1 a3 a4 ⊢
  apply Ok.stepK (wb_ok_wReduce2 h2 lvl n1 sg1 s1 P (K ++ (n1 ++ sg1.map (·.2))) i1 k1 (by intro l hl; kmem)
    (by intro x hx; exact List.mem_append_right _ (List.mem_append_right _ (List.mem_map.mpr ⟨x, hx, rfl⟩))))
  intro r2 s2 i2 k2 ⟨b1, _, b3, b4⟩
  obtain ⟨n2, sg2⟩ := r2
  simp only at k2 b1 b3 b4 ⊢
  have hn2 : n2 ≠ [] := b1 (a1 (by simpa using hne))
  apply Ok.bind (ok_firstOfRev (Q := fun x st' => st' = s2 ∧ x ∈ n2) hn2 (fun x hx => ⟨rfl, hx⟩))
  intro r s2' ⟨e, hr2⟩
  subst e
  refine Ok.ret ⟨i2, ?_, fun h => b3 (a3 h), ?_⟩
  · intro l hl
    simp only [List.mem_append, List.mem_cons] at hl
    rcases hl with hl | rfl | hl
    · exact k2 l (by kmem)
    · exact k2 l (by kmem)
    · exact k2 l (by simp only [List.mem_append]; exact Or.inr (Or.inr hl))
  · intro x hx
    rcases b4 x hx with h | h
    · exact a4 x h
    · exact Or.inr h

theorem wb_ok_wSimpleLevel (h3a : Blk3 addSum3Aig) (h2a : Blk2 addSum2Aig) (b : Basis) (lvl : Nat)
    (nowS : List Label) (single : List (Nat × Label)) (st : GSt) (P K : List Label) (hinv : Inv st P) (hk : Kn st K)
    (hn : ∀ l ∈ nowS, l ∈ K) (hs : ∀ x ∈ single, x.2 ∈ K) (hne : nowS ≠ []) :
    Ok (wSimpleLevel b lvl nowS single) st (GPost P K (fun r => r.1 :: r.2.map (·.2))
      (fun r => (LSorted wb_lev1 single → LSorted wb_lev1 r.2) ∧ (∀ x ∈ r.2, x ∈ single ∨ x.1 = lvl + 1))) := by
  cases b with
  | aig => exact wb_ok_wSimpleLevelWith h3a h2a lvl nowS single st P K hinv hk hn hs hne
  | xaig => exact wb_ok_wSimpleLevelWith blk3_addSum3 blk2_addSum2 lvl nowS single st P K hinv hk hn hs hne

/-! ## the level loops -/

theorem wb_sorted_head {α} (lev : α → Nat) (x : α) (r : List α) (h : LSorted lev (x :: r)) : ∀ y ∈ x :: r, lev x ≤ lev y := by
  intro y hy
  rcases List.mem_cons.mp hy with rfl | hy
  · exact Nat.le_refl _
  · exact (List.pairwise_cons.mp h).1 y hy

/-- below `inf`, `minLevel` is the least level present, and the level taken is not empty -/
theorem wb_minLevel_facts (single : List (Nat × Label)) (pairs : List (Nat × Label × Label)) (inf : Nat)
    (hS : LSorted wb_lev1 single) (hP : LSorted wb_lev2 pairs) (hlt : minLevel single pairs inf < inf) :
    (∀ x ∈ single, minLevel single pairs inf ≤ x.1) ∧ (∀ p ∈ pairs, minLevel single pairs inf ≤ p.1) ∧
    ((takeLevel wb_lev1 (minLevel single pairs inf) single).1 ≠ [] ∨
      (takeLevel wb_lev2 (minLevel single pairs inf) pairs).1 ≠ []) := by
  cases single with
  | nil =>
    cases pairs with
    | nil => unfold minLevel at hlt; simp only at hlt; omega
    | cons p r =>
      have hm : minLevel [] (p :: r) inf = p.1 := by unfold minLevel at hlt ⊢; simp only at hlt ⊢; omega
      rw [hm]
      exact ⟨by simp, wb_sorted_head wb_lev2 p r hP, Or.inr (takeLevel_fst_ne _ _ _ _ rfl)⟩
  | cons x r =>
    cases pairs with
    | nil =>
      have hm : minLevel (x :: r) [] inf = x.1 := by unfold minLevel at hlt ⊢; simp only at hlt ⊢; omega
      rw [hm]
      exact ⟨wb_sorted_head wb_lev1 x r hS, by simp, Or.inl (takeLevel_fst_ne _ _ _ _ rfl)⟩
    | cons p r2 =>
      have hm : (minLevel (x :: r) (p :: r2) inf = x.1 ∧ x.1 ≤ p.1) ∨ (minLevel (x :: r) (p :: r2) inf = p.1 ∧ p.1 ≤ x.1) := by
        unfold minLevel at hlt ⊢; simp only at hlt ⊢; omega
      have h1 := wb_sorted_head wb_lev1 x r hS
      have h2 := wb_sorted_head wb_lev2 p r2 hP
      rcases hm with ⟨hm, hle⟩ | ⟨hm, hle⟩
      · rw [hm]
        exact ⟨h1, fun q hq => Nat.le_trans hle (h2 q hq), Or.inl (takeLevel_fst_ne _ _ _ _ rfl)⟩
      · rw [hm]
        exact ⟨fun q hq => Nat.le_trans hle (h1 q hq), h2, Or.inr (takeLevel_fst_ne _ _ _ _ rfl)⟩

theorem wb_kn_res {st : GSt} {K : List Label} {res : List (Nat × Label)} (hk : Kn st K) (hr : ∀ x ∈ res, x.2 ∈ K) :
    Kn st (K ++ res.map (·.2)) := by
  intro l hl
  simp only [List.mem_append, List.mem_map] at hl
  rcases hl with hl | ⟨x, hx, rfl⟩
  · exact hk l hl
  · exact hk _ (hr x hx)

/-- **the naive level loop**: the levels left are sorted and at or above `L ≤ inf`; every turn moves `L` up, so
`inf - L + 1` turns are enough -/
theorem wb_ok_weightedNaiveLoop (h3a : Blk3 addSum3Aig) (h2a : Blk2 addSum2Aig) (b : Basis) (inf : Nat) :
    ∀ (fuel : Nat) (single res : List (Nat × Label)) (L : Nat) (st : GSt) (P K : List Label), Inv st P → Kn st K →
    (∀ x ∈ single, x.2 ∈ K) → (∀ x ∈ res, x.2 ∈ K) → LSorted wb_lev1 single → (∀ x ∈ single, L ≤ x.1) → L ≤ inf →
    inf + 1 ≤ fuel + L →
    Ok (weightedNaiveLoop b inf fuel single res) st (GPost P K (fun r => r.map (·.2)) (fun _ => True)) := by
  intro fuel
  induction fuel with
  | zero => intro single res L st P K _ _ _ _ _ _ h1 h2; omega
  | succ n ih =>
    intro single res L st P K hinv hk hs hr hsort hge hL hf
    unfold weightedNaiveLoop
    by_cases he : single.isEmpty = true
    · simp only [he, if_true]
      exact Ok.pure ⟨hinv, wb_kn_res hk hr, trivial⟩
    · simp only [he, Bool.false_eq_true, if_false]
      by_cases hl : minLevel single [] inf ≥ inf
      · simp only [hl, if_true]
        exact Ok.pure ⟨hinv, wb_kn_res hk hr, trivial⟩
      · simp only [hl, if_false]
        obtain ⟨m1, _, m3⟩ := wb_minLevel_facts single [] inf hsort (by simp [LSorted]) (by omega)
        have m3' : (takeLevel wb_lev1 (minLevel single [] inf) single).1 ≠ [] := by
          rcases m3 with h | h
          · exact h
          · simp [takeLevel] at h
        obtain ⟨t1, t2, t3, _⟩ := takeLevel_rest wb_lev1 (minLevel single [] inf) single hsort m1
        obtain ⟨t4, _⟩ := takeLevel_spec wb_lev1 (minLevel single [] inf) single
        have hLm : L ≤ minLevel single [] inf := by
          cases hsg : single with
          | nil => rw [hsg] at he; simp at he
          | cons x r =>
            have hx := hge x (by rw [hsg]; simp)
            unfold minLevel at hl ⊢; simp only at hl ⊢; omega
        cases htl : takeLevel wb_lev1 (minLevel single [] inf) single with
        | mk nowS rest =>
          rw [htl] at m3' t1 t2 t3 t4
          simp only at m3' t1 t2 t3 t4 ⊢
          have hnow : ∀ x ∈ nowS, x ∈ single := fun x hx => by rw [t4]; exact List.mem_append_left _ hx
          apply Ok.stepK (wb_ok_wSimpleLevel h3a h2a b (minLevel single [] inf) (nowS.map (·.2)) rest st P
            (K ++ res.map (·.2)) hinv (wb_kn_res hk hr)
            (by intro l hl; obtain ⟨x, hx, rfl⟩ := List.mem_map.mp hl; exact List.mem_append_left _ (hs x (hnow x hx)))
            (by intro x hx; exact List.mem_append_left _ (hs x (t3 x hx)))
            (by simpa using m3'))
          intro r1 s1 i1 k1 ⟨a1, a2⟩
          obtain ⟨r, s'⟩ := r1
          simp only at k1 a1 a2 ⊢
          refine (ih s' (res ++ [(minLevel single [] inf, r)]) (minLevel single [] inf + 1) s1 P
            (K ++ res.map (·.2) ++ (r :: s'.map (·.2))) i1 k1 ?_ ?_ (a1 t2) ?_ (by omega) (by omega)).mono ?_
          · intro x hx
            exact List.mem_append_right _ (List.mem_cons_of_mem _ (List.mem_map.mpr ⟨x, hx, rfl⟩))
          · intro x hx
            rcases List.mem_append.mp hx with hx | hx
            · exact List.mem_append_left _ (List.mem_append_right _ (List.mem_map.mpr ⟨x, hx, rfl⟩))
            · simp only [List.mem_singleton] at hx
              subst hx
              simp
          · intro x hx
            rcases a2 x hx with h | h
            · exact t1 x h
            · omega
          · intro out s2 ⟨i2, k2, _⟩
            exact ⟨i2, k2.mono (by intro l hl; kmem), trivial⟩

/-- **`add_sum_n_weighted_bits_naive` returns** on a non-empty list of weighted operands that are gates of the
circuit, for a basis argument that resolves (the code raises `ValueError` on an empty list and on an unknown
basis name) -/
theorem wb_ok_addSumWeightedNaive (h3a : Blk3 addSum3Aig) (h2a : Blk2 addSum2Aig) {ins : List (Nat × Label)}
    {basis : BasisArg} {b : Basis} {st : GSt} {P K : List Label} (hinv : Inv st P) (hk : Kn st K)
    (hb : basis.resolve = .ok b) (hne : ins ≠ []) (hi : ∀ x ∈ ins, x.2 ∈ K) :
    Ok (addSumWeightedNaive ins basis) st (GPost P K (fun r => r.map (·.2)) (fun _ => True)) := by
  unfold addSumWeightedNaive
  rw [hb]
  have he : ins.isEmpty = false := by cases ins with | nil => exact absurd rfl hne | cons _ _ => rfl
  simp only [he, Bool.false_eq_true, if_false]
  obtain ⟨a, _, c⟩ := sortBy_facts ins
  exact wb_ok_weightedNaiveLoop h3a h2a b _ _ _ [] 0 st P K hinv hk (fun x hx => hi x ((c x).mp hx))
    (by intro x hx; cases hx) a (fun _ _ => Nat.zero_le _) (Nat.zero_le _) (by omega)

theorem wb_foldS_mem (k : Nat) (ls : List Label) : ∀ (rest : List (Nat × Label)) (x : Nat × Label),
    x ∈ ls.foldl (fun acc l => insertBy ltSingle (k, l) acc) rest → x ∈ rest ∨ x.2 ∈ ls := by
  induction ls with
  | nil => intro rest x hx; exact Or.inl hx
  | cons l r ih =>
    intro rest x hx
    simp only [List.foldl_cons] at hx
    rcases ih _ x hx with h | h
    · rcases (mem_insertBy _ _ _ _).mp h with rfl | h
      · exact Or.inr (by simp)
      · exact Or.inl h
    · exact Or.inr (List.mem_cons_of_mem _ h)

theorem wb_foldP_mem (k : Nat) (ls : List (Label × Label)) : ∀ (rest : List (Nat × Label × Label)) (x : Nat × Label × Label),
    x ∈ ls.foldl (fun acc (l : Label × Label) => insertBy ltPair (k, l.1, l.2) acc) rest → x ∈ rest ∨ x.2 ∈ ls := by
  induction ls with
  | nil => intro rest x hx; exact Or.inl hx
  | cons l r ih =>
    intro rest x hx
    simp only [List.foldl_cons] at hx
    rcases ih _ x hx with h | h
    · rcases (mem_insertBy _ _ _ _).mp h with rfl | h
      · exact Or.inr (by simp)
      · exact Or.inl h
    · exact Or.inr (List.mem_cons_of_mem _ h)

/-- **the level loop of `add_sum_n_weighted_bits`**: as for the naive loop, with the pairs of the MDFA scheme;
in the AIG basis there are no pairs (the caller starts with none and the simple scheme makes none) -/
theorem wb_ok_weightedLoop (hpu : wb_HPairUp) (hxl : wb_HXaigLevel) (h3a : Blk3 addSum3Aig) (h2a : Blk2 addSum2Aig)
    (b : Basis) (inf : Nat) :
    ∀ (fuel : Nat) (single : List (Nat × Label)) (pairs : List (Nat × Label × Label)) (res : List (Nat × Label)) (L : Nat)
      (st : GSt) (P K : List Label), Inv st P → Kn st K →
    (∀ x ∈ single, x.2 ∈ K) → (∀ p ∈ pairs, p.2.1 ∈ K ∧ p.2.2 ∈ K) → (∀ x ∈ res, x.2 ∈ K) →
    LSorted wb_lev1 single → LSorted wb_lev2 pairs → (∀ x ∈ single, L ≤ x.1) → (∀ p ∈ pairs, L ≤ p.1) →
    (b = .aig → pairs = []) → L ≤ inf → inf + 1 ≤ fuel + L →
    Ok (weightedLoop b inf fuel single pairs res) st (GPost P K (fun r => r.map (·.2)) (fun _ => True)) := by
  intro fuel
  induction fuel with
  | zero => intro single pairs res L st P K _ _ _ _ _ _ _ _ _ _ h1 h2; omega
  | succ n ih =>
    intro single pairs res L st P K hinv hk hs hp hr hsortS hsortP hgeS hgeP haig hL hf
    unfold weightedLoop
    by_cases he : (single.isEmpty && pairs.isEmpty) = true
    · simp only [he, if_true]
      exact Ok.pure ⟨hinv, wb_kn_res hk hr, trivial⟩
    · simp only [he, Bool.false_eq_true, if_false]
      by_cases hl : minLevel single pairs inf ≥ inf
      · simp only [hl, if_true]
        exact Ok.pure ⟨hinv, wb_kn_res hk hr, trivial⟩
      · simp only [hl, if_false]
        obtain ⟨m1, m2, m3⟩ := wb_minLevel_facts single pairs inf hsortS hsortP (by omega)
        obtain ⟨t1, t2, t3, _⟩ := takeLevel_rest wb_lev1 (minLevel single pairs inf) single hsortS m1
        obtain ⟨t4, _⟩ := takeLevel_spec wb_lev1 (minLevel single pairs inf) single
        obtain ⟨u1, u2, u3, _⟩ := takeLevel_rest wb_lev2 (minLevel single pairs inf) pairs hsortP m2
        obtain ⟨u4, _⟩ := takeLevel_spec wb_lev2 (minLevel single pairs inf) pairs
        have hLm : L ≤ minLevel single pairs inf := by
          have hlt : minLevel single pairs inf < inf := by omega
          revert hlt
          unfold minLevel
          cases hsg : single with
          | nil =>
            cases hpg : pairs with
            | nil => simp only; omega
            | cons q r2 =>
              have hq := hgeP q (by rw [hpg]; simp)
              simp only; omega
          | cons x r =>
            have hx := hgeS x (by rw [hsg]; simp)
            cases hpg : pairs with
            | nil => simp only; omega
            | cons q r2 =>
              have hq := hgeP q (by rw [hpg]; simp)
              simp only; omega
        cases htl : takeLevel wb_lev1 (minLevel single pairs inf) single with
        | mk nowS restS =>
        cases htp : takeLevel wb_lev2 (minLevel single pairs inf) pairs with
        | mk nowP restP =>
          rw [htl] at m3 t1 t2 t3 t4
          rw [htp] at m3 u1 u2 u3 u4
          simp only at m3 t1 t2 t3 t4 u1 u2 u3 u4 ⊢
          have hnowS : ∀ x ∈ nowS, x ∈ single := fun x hx => by rw [t4]; exact List.mem_append_left _ hx
          have hnowP : ∀ x ∈ nowP, x ∈ pairs := fun x hx => by rw [u4]; exact List.mem_append_left _ hx
          have hkr := wb_kn_res hk hr
          cases b with
          | aig =>
            have hp0 := haig rfl
            subst hp0
            have hrp : restP = [] := by simp [takeLevel] at htp; exact htp.2
            have hnp : nowP = [] := by simp [takeLevel] at htp; exact htp.1
            subst hrp hnp
            have m3' : nowS ≠ [] := by
              rcases m3 with h | h
              · exact h
              · exact absurd rfl h
            simp only
            apply Ok.stepK (wb_ok_wSimpleLevel h3a h2a .aig (minLevel single [] inf) (nowS.map (·.2)) restS st P
              (K ++ res.map (·.2)) hinv hkr
              (by intro l hl; obtain ⟨x, hx, rfl⟩ := List.mem_map.mp hl; exact List.mem_append_left _ (hs x (hnowS x hx)))
              (by intro x hx; exact List.mem_append_left _ (hs x (t3 x hx)))
              (by simpa using m3'))
            intro r1 s1 i1 k1 ⟨a1, a2⟩
            obtain ⟨r, s'⟩ := r1
            simp only at k1 a1 a2 ⊢
            refine (ih s' [] (res ++ [(minLevel single [] inf, r)]) (minLevel single [] inf + 1) s1 P
              (K ++ res.map (·.2) ++ (r :: s'.map (·.2))) i1 k1 ?_ (by intro p hp; cases hp) ?_ (a1 t2) (by simp [LSorted]) ?_
              (by intro p hp; cases hp) (fun _ => rfl) (by omega) (by omega)).mono ?_
            · intro x hx
              exact List.mem_append_right _ (List.mem_cons_of_mem _ (List.mem_map.mpr ⟨x, hx, rfl⟩))
            · intro x hx
              rcases List.mem_append.mp hx with hx | hx
              · exact List.mem_append_left _ (List.mem_append_right _ (List.mem_map.mpr ⟨x, hx, rfl⟩))
              · simp only [List.mem_singleton] at hx
                subst hx
                simp
            · intro x hx
              rcases a2 x hx with h | h
              · exact t1 x h
              · omega
            · intro out s2 ⟨i2, k2, _⟩
              exact ⟨i2, k2.mono (by intro l hl; kmem), trivial⟩
          | xaig =>
            simp only
            have hne0 : (nowS.map (·.2)).reverse ≠ [] ∨ (nowP.map (·.2)).reverse ≠ [] := by
              rcases m3 with h | h
              · left; simpa using h
              · right; simpa using h
            apply Ok.stepK (hpu nowS.length (nowS.map (·.2)).reverse (nowP.map (·.2)).reverse st P (K ++ res.map (·.2)) hinv hkr
              (by
                intro l hl
                obtain ⟨x, hx, rfl⟩ := List.mem_map.mp (List.mem_reverse.mp hl)
                exact List.mem_append_left _ (hs x (hnowS x hx)))
              (by
                intro q hq
                obtain ⟨x, hx, rfl⟩ := List.mem_map.mp (List.mem_reverse.mp hq)
                have := hp x (hnowP x hx)
                exact ⟨List.mem_append_left _ this.1, List.mem_append_left _ this.2⟩))
            intro r1 s1 i1 k1 a1
            obtain ⟨soloR, pairsR⟩ := r1
            simp only at k1 a1 ⊢
            apply Ok.stepK (hxl soloR pairsR s1 P (K ++ res.map (·.2) ++ (soloR ++ wb_pl pairsR)) i1 k1
              (by intro l hl; exact List.mem_append_right _ (List.mem_append_left _ hl))
              (by
                intro q hq
                exact ⟨List.mem_append_right _ (List.mem_append_right _ (wb_mem_pl.mpr ⟨q, hq, Or.inl rfl⟩)),
                  List.mem_append_right _ (List.mem_append_right _ (wb_mem_pl.mpr ⟨q, hq, Or.inr rfl⟩))⟩)
              (a1 hne0))
            intro r2 s2 i2 k2 _
            obtain ⟨r, nextS, nextP⟩ := r2
            simp only at k2 ⊢
            obtain ⟨_, _, fmem, fsorted⟩ := foldInsertS_facts (fun _ => false) (minLevel single pairs inf + 1) nextS restS
            obtain ⟨_, _, gmem, gsorted⟩ := foldInsertP_facts (fun _ => false) (minLevel single pairs inf + 1) nextP restP
            refine (ih _ _ (res ++ [(minLevel single pairs inf, r)]) (minLevel single pairs inf + 1) s2 P
              (K ++ res.map (·.2) ++ (soloR ++ wb_pl pairsR) ++ (r :: nextS ++ wb_pl nextP)) i2 k2 ?_ ?_ ?_ (fsorted t2) (gsorted u2)
              ?_ ?_ (fun h => by cases h) (by omega) (by omega)).mono ?_
            · intro x hx
              rcases wb_foldS_mem _ _ _ _ hx with h | h
              · exact List.mem_append_left _ (List.mem_append_left _ (List.mem_append_left _ (hs x (t3 x h))))
              · exact List.mem_append_right _ (List.mem_append_left _ (List.mem_cons_of_mem _ h))
            · intro q hq
              rcases wb_foldP_mem _ _ _ _ hq with h | h
              · have := hp q (u3 q h)
                exact ⟨List.mem_append_left _ (List.mem_append_left _ (List.mem_append_left _ this.1)),
                  List.mem_append_left _ (List.mem_append_left _ (List.mem_append_left _ this.2))⟩
              · exact ⟨List.mem_append_right _ (List.mem_append_right _ (wb_mem_pl.mpr ⟨_, h, Or.inl rfl⟩)),
                  List.mem_append_right _ (List.mem_append_right _ (wb_mem_pl.mpr ⟨_, h, Or.inr rfl⟩))⟩
            · intro x hx
              rcases List.mem_append.mp hx with hx | hx
              · exact List.mem_append_left _ (List.mem_append_left _ (List.mem_append_right _ (List.mem_map.mpr ⟨x, hx, rfl⟩)))
              · simp only [List.mem_singleton] at hx
                subst hx
                simp
            · intro x hx
              rcases fmem x hx with h | h
              · exact t1 x h
              · omega
            · intro q hq
              rcases gmem q hq with h | h
              · exact u1 q h
              · omega
            · intro out s3 ⟨i3, k3, _⟩
              exact ⟨i3, k3.mono (by intro l hl; kmem), trivial⟩

/-- **`add_sum_n_weighted_bits` returns** (both bases) on a non-empty list of weighted operands that are gates
of the circuit, for a basis argument that resolves -/
theorem wb_ok_addSumWeighted (hpu : wb_HPairUp) (hxl : wb_HXaigLevel) (h3a : Blk3 addSum3Aig) (h2a : Blk2 addSum2Aig)
    {ins : List (Nat × Label)} {basis : BasisArg} {b : Basis} {st : GSt} {P K : List Label} (hinv : Inv st P) (hk : Kn st K)
    (hb : basis.resolve = .ok b) (hne : ins ≠ []) (hi : ∀ x ∈ ins, x.2 ∈ K) :
    Ok (addSumWeighted ins basis) st (GPost P K (fun r => r.map (·.2)) (fun _ => True)) := by
  unfold addSumWeighted
  rw [hb]
  have he : ins.isEmpty = false := by cases ins with | nil => exact absurd rfl hne | cons _ _ => rfl
  simp only [he, Bool.false_eq_true, if_false]
  obtain ⟨a, _, c⟩ := sortBy_facts ins
  exact wb_ok_weightedLoop hpu hxl h3a h2a b _ _ _ [] [] 0 st P K hinv hk (fun x hx => hi x ((c x).mp hx))
    (by intro p hp; cases hp) (by intro x hx; cases hx) a (by simp [LSorted]) (fun _ _ => Nat.zero_le _)
    (fun _ _ => Nat.zero_le _) (fun _ => rfl) (Nat.zero_le _) (by omega)

/-! ## `add_sum_pow2_m1` -/

/-- the chunk loop (chunks of `i ≥ 2` labels): every turn replaces `i` labels by one, so `labels.length` turns
are enough; fewer than `i` labels stay; a chunk is counted whenever there are `i` labels; every count has a bit -/
theorem wb_ok_pow2Chunk (hnb : wb_HAddSumNBits) {basis : BasisArg} {b : Basis} (hb : basis.resolve = .ok b) (i : Nat)
    (hi : 2 ≤ i) :
    ∀ (fuel : Nat) (labels : List Label) (out : List (List Label)) (st : GSt) (P K : List Label), Inv st P → Kn st K →
    (∀ l ∈ labels, l ∈ K) → (∀ row ∈ out, ∀ l ∈ row, l ∈ K) → labels.length ≤ fuel →
    Ok (pow2Chunk basis i fuel labels out) st (GPost P K (fun r => r.1 ++ r.2.flatten)
      (fun r => r.1.length < i ∧ out.length ≤ r.2.length ∧ (i ≤ labels.length → out.length < r.2.length) ∧
        (labels.length < i → r.1 = labels) ∧ ((∀ row ∈ out, row ≠ []) → ∀ row ∈ r.2, row ≠ []))) := by
  intro fuel
  induction fuel with
  | zero =>
    intro labels out st P K hinv hk hl ho hf
    have : labels = [] := List.eq_nil_of_length_eq_zero (by omega)
    subst this
    unfold pow2Chunk
    have : ¬ (([] : List Label).length ≥ i) := by simp only [List.length_nil]; omega
    simp only [this, if_false]
    refine Ok.pure ⟨hinv, ?_, by simp only [List.length_nil]; omega, Nat.le_refl _,
      fun h => by first | exact h.elim | omega, fun _ => rfl, fun h => h⟩
    intro l hl'
    simp only [List.nil_append, List.mem_append, List.mem_flatten] at hl'
    rcases hl' with h | ⟨row, hrow, h⟩
    · exact hk l h
    · exact hk l (ho row hrow l h)
  | succ n ih =>
    intro labels out st P K hinv hk hl ho hf
    unfold pow2Chunk
    by_cases hge : labels.length ≥ i
    · simp only [hge, if_true]
      apply Ok.stepK (hnb (labels.take i) basis b false st P K hb hinv hk (fun l h => hl l (List.mem_of_mem_take h)))
      intro r s1 i1 k1 hr
      simp only [id] at k1
      have hne : labels.take i ≠ [] := by
        intro e
        have := congrArg List.length e
        simp only [List.length_take, List.length_nil] at this
        omega
      cases r with
      | nil => exact absurd rfl (hr hne)
      | cons r0 rt =>
        simp only
        refine (ih (labels.drop i ++ [r0]) (out ++ [r0 :: rt]) s1 P (K ++ (r0 :: rt)) i1 k1 ?_ ?_ ?_).mono ?_
        · intro l h
          rcases List.mem_append.mp h with h | h
          · exact List.mem_append_left _ (hl l (List.mem_of_mem_drop h))
          · simp only [List.mem_singleton] at h; subst h; simp
        · intro row hrow l h
          rcases List.mem_append.mp hrow with hrow | hrow
          · exact List.mem_append_left _ (ho row hrow l h)
          · simp only [List.mem_singleton] at hrow; subst hrow; exact List.mem_append_right _ h
        · simp only [List.length_append, List.length_drop, List.length_singleton]; omega
        · intro res s2 ⟨i2, k2, c1, c2, _, _, c5⟩
          refine ⟨i2, k2.mono (by intro l hl; kmem), c1, ?_, ?_, ?_, ?_⟩
          · simp only [List.length_append, List.length_singleton] at c2; omega
          · intro _; simp only [List.length_append, List.length_singleton] at c2; omega
          · intro h; omega
          · intro h
            apply c5
            intro row hrow
            rcases List.mem_append.mp hrow with hrow | hrow
            · exact h row hrow
            · simp only [List.mem_singleton] at hrow; subst hrow; simp
    · simp only [hge, if_false]
      refine Ok.pure ⟨hinv, ?_, by show labels.length < i; omega, Nat.le_refl _, fun h => by first | exact h.elim | omega, fun _ => rfl, fun h => h⟩
      intro l hl'
      simp only [List.mem_append, List.mem_flatten] at hl'
      rcases hl' with h | h | ⟨row, hrow, h⟩
      · exact hk l h
      · exact hk l (hl l h)
      · exact hk l (ho row hrow l h)

/-- one pass (chunks of 31, 15, 7, 3): fewer than three labels stay, and three labels or more give a count -/
theorem wb_ok_pow2Pass (hnb : wb_HAddSumNBits) {basis : BasisArg} {b : Basis} (hb : basis.resolve = .ok b)
    (labels : List Label) (out : List (List Label)) (st : GSt) (P K : List Label) (hinv : Inv st P) (hk : Kn st K)
    (hl : ∀ l ∈ labels, l ∈ K) (ho : ∀ row ∈ out, ∀ l ∈ row, l ∈ K) :
    Ok (pow2Pass basis labels out) st (GPost P K (fun r => r.1 ++ r.2.flatten)
      (fun r => r.1.length < 3 ∧ out.length ≤ r.2.length ∧ (3 ≤ labels.length → out.length < r.2.length) ∧
        ((∀ row ∈ out, row ≠ []) → ∀ row ∈ r.2, row ≠ []))) := by
  have memf : ∀ {K' : List Label} {l1 : List Label} {o1 : List (List Label)} (l : Label), l ∈ l1 → l ∈ K' ++ (l1 ++ o1.flatten) :=
    fun l h => List.mem_append_right _ (List.mem_append_left _ h)
  have memr : ∀ {K' : List Label} {l1 : List Label} {o1 : List (List Label)} (row : List Label), row ∈ o1 → ∀ l ∈ row,
      l ∈ K' ++ (l1 ++ o1.flatten) :=
    fun row hrow l h => List.mem_append_right _ (List.mem_append_right _ (List.mem_flatten.mpr ⟨row, hrow, h⟩))
  unfold pow2Pass
  apply Ok.stepK (wb_ok_pow2Chunk hnb hb 31 (by omega) labels.length labels out st P K hinv hk hl ho (Nat.le_refl _))
  intro r1 s1 i1 k1 ⟨_, a2, a3, a4, a5⟩
  obtain ⟨l1, o1⟩ := r1
  simp only at k1 a2 a3 a4 a5 ⊢
  apply Ok.stepK (wb_ok_pow2Chunk hnb hb 15 (by omega) l1.length l1 o1 s1 P _ i1 k1 memf memr (Nat.le_refl _))
  intro r2 s2 i2 k2 ⟨_, b2, b3, b4, b5⟩
  obtain ⟨l2, o2⟩ := r2
  simp only at k2 b2 b3 b4 b5 ⊢
  apply Ok.stepK (wb_ok_pow2Chunk hnb hb 7 (by omega) l2.length l2 o2 s2 P _ i2 k2 memf memr (Nat.le_refl _))
  intro r3 s3 i3 k3 ⟨_, c2, c3, c4, c5⟩
  obtain ⟨l3, o3⟩ := r3
  simp only at k3 c2 c3 c4 c5 ⊢
  refine (wb_ok_pow2Chunk hnb hb 3 (by omega) l3.length l3 o3 s3 P _ i3 k3 memf memr (Nat.le_refl _)).mono ?_
  intro r4 s4 ⟨i4, k4, d1, d2, d3, _, d5⟩
  refine ⟨i4, k4.mono (by intro l hl; kmem), d1, by omega, ?_, fun h => d5 (c5 (b5 (a5 h)))⟩
  intro h3
  by_cases h31 : 31 ≤ labels.length
  · have := a3 h31; omega
  · have e1 : l1 = labels := a4 (by omega)
    subst e1
    by_cases h15 : 15 ≤ l1.length
    · have := b3 h15; omega
    · have e2 : l2 = l1 := b4 (by omega)
      subst e2
      by_cases h7 : 7 ≤ l2.length
      · have := c3 h7; omega
      · have e3 : l3 = l2 := c4 (by omega)
        subst e3
        have := d3 h3; omega

/-- the columns of `zip_longest` only hold labels of the rows -/
theorem wb_mem_transpose : ∀ (fuel : Nat) (rows : List (List Label)), ∀ col ∈ transposeRagged rows fuel, ∀ x ∈ col,
    ∃ row ∈ rows, x ∈ row := by
  intro fuel
  induction fuel with
  | zero => intro rows col hc; simp [transposeRagged] at hc
  | succ n ih =>
    intro rows col hc x hx
    unfold transposeRagged at hc
    split at hc
    · cases hc
    · rcases List.mem_cons.mp hc with rfl | hc
      · obtain ⟨row, hrow, hh⟩ := List.mem_filterMap.mp hx
        exact ⟨row, hrow, List.mem_of_mem_head? hh⟩
      · obtain ⟨row', hrow', hx'⟩ := ih _ col hc x hx
        obtain ⟨row, hrow, rfl⟩ := List.mem_map.mp hrow'
        exact ⟨row, hrow, List.mem_of_mem_tail hx'⟩

/-- with at least one row and no empty row, there is a first column and it is not empty -/
theorem wb_transpose_first (rows : List (List Label)) (n : Nat) (hne : rows ≠ []) (hrow : ∀ row ∈ rows, row ≠ []) :
    ∃ c0 rest z, transposeRagged rows (n + 1) = c0 :: rest ∧ c0.getLast? = some z := by
  unfold transposeRagged
  cases rows with
  | nil => exact absurd rfl hne
  | cons r0 rs =>
    have hr0 : r0 ≠ [] := hrow r0 (by simp)
    have hall : ((r0 :: rs).all (·.isEmpty)) = false := by
      cases r0 with
      | nil => exact absurd rfl hr0
      | cons a t => simp
    simp only [hall, Bool.false_eq_true, if_false]
    cases r0 with
    | nil => exact absurd rfl hr0
    | cons a t =>
      have hc : (List.filterMap (·.head?) ((a :: t) :: rs)) ≠ [] := by simp
      cases hg : (List.filterMap (·.head?) ((a :: t) :: rs)).getLast? with
      | none => exact absurd (List.getLast?_eq_none_iff.mp hg) hc
      | some z => exact ⟨_, _, z, rfl, hg⟩

theorem wb_ok_addSumPow2M1 (hnb : wb_HAddSumNBits) (h2a : Blk2 addSum2Aig) {ins : List Label} {be : Bool}
    {basis : BasisArg} {b : Basis} {st : GSt} {P K : List Label} (hinv : Inv st P) (hk : Kn st K)
    (hb : basis.resolve = .ok b) (hne : ins ≠ []) (hi : ∀ l ∈ ins, l ∈ K) :
    Ok (addSumPow2M1 ins be basis) st (GPost P K (fun r => r.flatten) (fun r => r ≠ [])) := by
  unfold addSumPow2M1
  cases ins with
  | nil => exact absurd rfl hne
  | cons x xs =>
    simp only
    rw [hb]
    simp only
    cases xs with
    | nil =>
      exact Ok.pure ⟨hinv, fun l hl => hk l (by simp at hl; rcases hl with h | h; exact h; exact h ▸ hi x (by simp)), by simp⟩
    | cons y ys =>
      simp only
      have h1 : Ok (if (x :: y :: ys).length > 2 then pow2Pass (BasisArg.enum b) (x :: y :: ys) [] else pure (x :: y :: ys, []))
          st (GPost P K (fun r => r.1 ++ r.2.flatten)
            (fun r => r.1.length ≤ 2 ∧ (∀ row ∈ r.2, row ≠ []) ∧ (r.2 = [] → r.1.length = 2))) := by
        by_cases hlen : (x :: y :: ys).length > 2
        · rw [if_pos hlen]
          refine (wb_ok_pow2Pass hnb (b := b) rfl (x :: y :: ys) [] st P K hinv hk hi (by intro row hrow; cases hrow)).mono ?_
          intro r s ⟨i, k, a1, _, a3, a4⟩
          refine ⟨i, k, by omega, a4 (by intro row hrow; cases hrow), fun e => ?_⟩
          have := a3 (by omega)
          rw [e] at this
          simp at this
        · rw [if_neg hlen]
          have hys : ys = [] := by
            cases ys with
            | nil => rfl
            | cons _ _ => simp only [List.length_cons] at hlen; omega
          subst hys
          refine Ok.ret ⟨hinv, ?_, Nat.le_refl _, fun row hrow => (by cases hrow), fun _ => rfl⟩
          intro l hl
          simp only [List.flatten_nil, List.append_nil, List.mem_append] at hl
          rcases hl with h | h
          · exact hk l h
          · exact hk l (hi l h)
      apply Ok.stepK h1
      intro r1 s1 i1 k1 ⟨a1, a2, a3⟩
      obtain ⟨l1, o1⟩ := r1
      simp only at k1 a1 a2 a3 ⊢
      refine Ok.bind (Q := fun r st' => Inv st' P ∧ Kn st' (K ++ r.2.flatten) ∧ r.2 ≠ [] ∧ ∀ row ∈ r.2, row ≠ []) ?_ ?_
      · have hpass : l1.length ≠ 2 → Ok (Pure.pure (l1, o1) : Prog (List Label × List (List Label))) s1
            (fun r st' => Inv st' P ∧ Kn st' (K ++ r.2.flatten) ∧ r.2 ≠ [] ∧ ∀ row ∈ r.2, row ≠ []) := by
          intro h2
          exact Ok.ret ⟨i1, k1.mono (by intro l hl; kmem), fun e => h2 (a3 e), a2⟩
        rcases l1 with _ | ⟨a, _ | ⟨c, _ | ⟨d, rest⟩⟩⟩
        · exact hpass (by simp)
        · exact hpass (by simp)
        · simp only
          have hblk : Ok (match b with | Basis.aig => addSum2Aig [a, c] | Basis.xaig => addSum2 [a, c]) s1
              (GPost P (K ++ ([a, c] ++ o1.flatten)) id (fun r => r.length = 2)) := by
            cases b with
            | aig => exact h2a a c s1 P _ i1 k1 (by simp) (by simp)
            | xaig => exact blk2_addSum2 a c s1 P _ i1 k1 (by simp) (by simp)
          apply Ok.stepK hblk
          intro r s2 i2 k2 hr
          simp only [id] at k2
          refine Ok.ret ⟨i2, ?_, by simp, ?_⟩
          · intro l hl
            simp only [List.mem_append, List.flatten_append, List.flatten_cons, List.flatten_nil, List.append_nil] at hl
            rcases hl with h | h | h
            · exact k2 l (by kmem)
            · exact k2 l (by kmem)
            · exact k2 l (by kmem)
          · intro row hrow
            rcases List.mem_append.mp hrow with h | h
            · exact a2 row h
            · simp only [List.mem_singleton] at h
              subst h
              intro e; rw [e] at hr; simp at hr
        · simp only [List.length_cons] at a1; omega
      · intro r2 s2 ⟨i2, k2, b1, b2⟩
        obtain ⟨c0, rest, z, e1, e2⟩ := wb_transpose_first r2.2 ((r2.2.map (fun x => x.length)).foldl max 0) b1 b2
        rw [e1]
        simp only
        rw [e2]
        simp only
        refine Ok.ret ⟨i2, ?_, by simp⟩
        have hcol : ∀ col ∈ c0 :: rest, ∀ l ∈ col, l ∈ r2.2.flatten := by
          intro col hcol l hl
          rw [← e1] at hcol
          obtain ⟨row, hrow, h⟩ := wb_mem_transpose _ _ col hcol l hl
          exact List.mem_flatten.mpr ⟨row, hrow, h⟩
        intro l hl
        rcases List.mem_append.mp hl with h | h
        · exact k2 l (List.mem_append_left _ h)
        · obtain ⟨col', hcol', hl'⟩ := List.mem_flatten.mp h
          obtain ⟨col, hc, rfl⟩ := List.mem_map.mp hcol'
          have hl'' := mem_revIf.mp hl'
          rcases List.mem_cons.mp hc with rfl | hc
          · simp only [List.mem_singleton] at hl''
            subst hl''
            exact k2 _ (List.mem_append_right _ (hcol c0 (by simp) _ (List.mem_of_getLast? e2)))
          · exact k2 _ (List.mem_append_right _ (hcol col (List.mem_cons_of_mem _ hc) l hl''))

end Cirbo
