import Cirbo.Proofs.EvalLazy
import Cirbo.Proofs.LazyTerm
/-!
# The demand-driven evaluator visits the same gates whatever the values
-/
namespace Cirbo
open GateType

/-- the two dictionaries define the same labels of the circuit -/
def SameKeys (c : Circuit) (d d' : Asg) : Prop := ∀ l ∈ c.labels, d.contains l = d'.contains l

theorem lazyStep_shape {c : Circuit} (hcl : ∀ g ∈ c.gates, ∀ o ∈ g.ops, o ∈ c.labels)
    {s s1 s1' : List Label} {d d' e1 e1' : Asg} (hk : SameKeys c d d')
    (h : lazyStep c s d = .ok (s1, e1)) (h' : lazyStep c s d' = .ok (s1', e1')) :
    s1 = s1' ∧ SameKeys c e1 e1' := by
  unfold lazyStep at h h'
  cases hl : s.getLast? with
  | none =>
    simp only [hl, Except.ok.injEq, Prod.mk.injEq] at h h'
    obtain ⟨rfl, rfl⟩ := h; obtain ⟨rfl, rfl⟩ := h'
    exact ⟨rfl, hk⟩
  | some top =>
    simp only [hl] at h h'
    cases hf : c.find? top with
    | none => simp [hf] at h
    | some g =>
      simp only [hf] at h h'
      obtain ⟨hgm, hgl⟩ := find_some_mem hf
      have hpush : g.ops.filter (fun o => !d.contains o) = g.ops.filter (fun o => !d'.contains o) := by
        apply List.filter_congr
        intro o ho
        rw [hk o (hcl g hgm o ho)]
      rw [← hpush] at h'
      split at h
      · rename_i hlast
        rw [if_pos hlast] at h'
        cases he : evalGate g d with
        | error e => simp [he] at h
        | ok r =>
          cases he' : evalGate g d' with
          | error e => simp [he'] at h'
          | ok r' =>
            simp only [he, he', Except.ok.injEq, Prod.mk.injEq] at h h'
            obtain ⟨rfl, rfl⟩ := h; obtain ⟨rfl, rfl⟩ := h'
            refine ⟨rfl, ?_⟩
            intro l hlm
            rw [contains_set, contains_set, hk l hlm]
      · rename_i hlast
        rw [if_neg hlast] at h'
        simp only [Except.ok.injEq, Prod.mk.injEq] at h h'
        obtain ⟨rfl, rfl⟩ := h; obtain ⟨rfl, rfl⟩ := h'
        exact ⟨rfl, hk⟩

theorem lazyLoop_shape {c : Circuit} (hcl : ∀ g ∈ c.gates, ∀ o ∈ g.ops, o ∈ c.labels) :
    ∀ (fuel : Nat) (s : List Label) (d d' e e' : Asg), SameKeys c d d' →
      lazyLoop c fuel s d = .ok e → lazyLoop c fuel s d' = .ok e' → SameKeys c e e'
  | 0, s, d, d', e, e', hk, h, h' => by
    unfold lazyLoop at h h'
    by_cases he : s.isEmpty
    · simp [he] at h h'; subst h; subst h'; exact hk
    · simp [he] at h
  | fuel+1, s, d, d', e, e', hk, h, h' => by
    unfold lazyLoop at h h'
    by_cases he : s.isEmpty
    · simp [he] at h h'; subst h; subst h'; exact hk
    · simp only [he, Bool.false_eq_true, if_false] at h h'
      cases hs : lazyStep c s d with
      | error x => simp [hs] at h
      | ok p =>
        cases hs' : lazyStep c s d' with
        | error x => simp [hs'] at h'
        | ok p' =>
          obtain ⟨s1, e1⟩ := p
          obtain ⟨s1', e1'⟩ := p'
          simp only [hs, hs'] at h h'
          obtain ⟨rfl, hk1⟩ := lazyStep_shape hcl hk hs hs'
          exact lazyLoop_shape hcl fuel s1 e1 e1' e e' hk1 h h'

/-- what `evaluate_circuit` returns, in terms of the dictionary `d1` of the gates it visited -/
theorem evalLazy_raw {c : Circuit} (h : WF c) (asg : Asg) (outs : Option (List Label))
    (hasg : ∀ g ∈ c.gates, g.ty ≠ INPUT → asg.get? g.label = none)
    (houts : ∀ o ∈ outs.getD c.outputs, o ∈ c.labels)
    {v : Label → V3} (hv : IsVal3 c (asgFun asg) v) {d : Asg}
    (hd : evalLazy c asg outs = .ok d) :
    ∃ d1, lazyLoop c (2 * (((outs.getD c.outputs).filter (fun o => !c.inputs.contains o)).length + totalArity c) + 2)
        ((outs.getD c.outputs).filter (fun o => !c.inputs.contains o)) (initAsg c asg) = .ok d1 ∧
      (∀ l, d.get? l = if l ∈ c.labels then some ((d1.get? l).getD V3.U) else d1.get? l) ∧
      (∀ g ∈ c.gates, ∀ x, d1.get? g.label = some x → x = v g.label) := by
  unfold evalLazy at hd
  simp only at hd
  generalize hneed : (outs.getD c.outputs).filter (fun o => !c.inputs.contains o) = need at hd ⊢
  cases hl : lazyLoop c (2 * (need.length + totalArity c) + 2) need (initAsg c asg) with
  | error e => simp [hl] at hd
  | ok d1 =>
    simp only [hl, Except.ok.injEq] at hd
    have hinp0 : ∀ g ∈ c.gates, g.ty = INPUT →
        (initAsg c asg).get? g.label = some (asgFun asg g.label) := by
      intro g hg hty
      rw [initAsg_get?]
      have : g.label ∈ c.inputs := (h.inputsOK g.label).mpr ⟨g, hg, rfl, hty⟩
      simp [this]
    have inv0 : LInv c (asgFun asg) v need need (initAsg c asg) := by
      refine ⟨hinp0, ?_, ?_, fun l hl => Or.inl hl⟩
      · intro g hg hty x hx
        rw [initAsg_get?] at hx
        have hni : g.label ∉ c.inputs := by
          intro hin
          obtain ⟨g', hg', hgl', hty'⟩ := (h.inputsOK g.label).mp hin
          have : g' = g := gate_unique h.nodup hg' hg hgl'
          subst this; exact hty hty'
        simp [hni, hasg g hg hty] at hx
      · intro l hl
        rw [← hneed] at hl
        simp only [List.mem_filter, Bool.not_eq_eq_eq_not, Bool.not_true, List.contains_eq_mem,
          decide_eq_false_iff_not] at hl
        obtain ⟨g, hg, hgl⟩ := gate_of_label (houts l hl.1)
        refine ⟨g, hg, hgl, ?_⟩
        intro hty
        exact hl.2 ((h.inputsOK l).mpr ⟨g, hg, hgl, hty⟩)
    have inv := lazyLoop_inv h hv _ _ _ _ inv0 hl
    refine ⟨d1, rfl, fun l => by rw [← hd]; exact foldl_setDefault_get? _ _ _, ?_⟩
    intro g hg x hx
    by_cases hty : g.ty = INPUT
    · have h1 := inv.inp g hg hty
      have h2 := hv g hg
      simp only [hty, if_true] at h2
      rw [hx] at h1; cases h1; exact h2.symm
    · exact inv.ev g hg hty x hx

theorem initAsg_sameKeys {c : Circuit} (h : WF c) (asg asg' : Asg)
    (hasg : ∀ g ∈ c.gates, g.ty ≠ INPUT → asg.get? g.label = none)
    (hasg' : ∀ g ∈ c.gates, g.ty ≠ INPUT → asg'.get? g.label = none) :
    SameKeys c (initAsg c asg) (initAsg c asg') := by
  intro l hl
  obtain ⟨g, hg, hgl⟩ := gate_of_label hl
  unfold Dict.contains
  rw [initAsg_get?, initAsg_get?]
  by_cases hty : g.ty = INPUT
  · have : l ∈ c.inputs := (h.inputsOK l).mpr ⟨g, hg, hgl, hty⟩
    simp [this]
  · have hni : l ∉ c.inputs := by
      intro hin
      obtain ⟨g', hg', hgl', hty'⟩ := (h.inputsOK l).mp hin
      have : g' = g := gate_unique h.nodup hg' hg (hgl'.trans hgl.symm)
      subst this; exact hty hty'
    simp only [hni, if_false]
    rw [← hgl, hasg g hg hty, hasg' g hg hty]

/-- **the same gates are evaluated under both assignments, so every reported value is monotone**:
for every gate, the value `evaluate_circuit` reports under `asg` is below the one it reports under a
more defined `asg'` -/
theorem evalLazy_mono_all {c : Circuit} (h : WF c) (asg asg' : Asg) (outs : Option (List Label))
    (hasg : ∀ g ∈ c.gates, g.ty ≠ INPUT → asg.get? g.label = none)
    (hasg' : ∀ g ∈ c.gates, g.ty ≠ INPUT → asg'.get? g.label = none)
    (houts : ∀ o ∈ outs.getD c.outputs, o ∈ c.labels)
    {v v' : Label → V3} (hv : IsVal3 c (asgFun asg) v) (hv' : IsVal3 c (asgFun asg') v')
    (hle : ∀ l, asgFun asg l ≤ asgFun asg' l)
    {d d' : Asg} (hd : evalLazy c asg outs = .ok d) (hd' : evalLazy c asg' outs = .ok d') :
    (∀ g ∈ c.gates, valOf d g.label ≤ valOf d' g.label) ∧
    (∀ g ∈ c.gates, valOf d g.label = V3.U ∨ valOf d g.label = v g.label) := by
  obtain ⟨d1, hl, hget, hev⟩ := evalLazy_raw h asg outs hasg houts hv hd
  obtain ⟨d1', hl', hget', hev'⟩ := evalLazy_raw h asg' outs hasg' houts hv' hd'
  have hsk := lazyLoop_shape h.closed _ _ _ _ _ _ (initAsg_sameKeys h asg asg' hasg hasg') hl hl'
  have hm := val3_mono h hle hv hv'
  constructor
  · intro g hg
    have hlm := mem_labels_of_mem hg
    have hk := hsk g.label hlm
    unfold valOf
    rw [hget, hget', if_pos hlm, if_pos hlm]
    unfold Dict.contains at hk
    cases hx : d1.get? g.label with
    | none => simp; exact Or.inl rfl
    | some x =>
      cases hx' : d1'.get? g.label with
      | none => rw [hx, hx'] at hk; simp at hk
      | some x' =>
        simp only [Option.getD_some]
        rw [hev g hg x hx, hev' g hg x' hx']
        exact hm g hg
  · intro g hg
    have hlm := mem_labels_of_mem hg
    unfold valOf
    rw [hget, if_pos hlm]
    cases hx : d1.get? g.label with
    | none => left; rfl
    | some x => right; simp [hev g hg x hx]

end Cirbo
