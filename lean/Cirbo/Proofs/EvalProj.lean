import Cirbo.Proofs.EvalLazy
import Cirbo.Proofs.EvalCor
/-!
# The entry points `evaluate`, `evaluate_at` are projections of the evaluators
-/
namespace Cirbo
open GateType V3

theorem get?_zipFold_mem : ∀ (ps : List (Label × V3)) (d : Asg) (k : Label),
    (ps.foldl (fun d p => Dict.set d p.1 p.2) d).get? k ≠ none → d.get? k ≠ none ∨ k ∈ ps.map (·.1) := by
  intro ps
  induction ps with
  | nil => intro d k h; exact Or.inl h
  | cons p r ih =>
    intro d k h
    simp only [List.foldl_cons] at h
    rcases ih _ _ h with h1 | h1
    · rw [Dict.get?_set] at h1
      by_cases hk : k = p.1
      · right; simp [hk]
      · simp only [hk, if_false] at h1; exact Or.inl h1
    · right; simp [h1]

theorem zipInputs_keys {c : Circuit} {vals : List V3} {a : Asg} (h : zipInputs c vals = .ok a) :
    ∀ k, a.get? k ≠ none → k ∈ c.inputs := by
  unfold zipInputs at h
  split at h
  · cases h
  · simp only [Except.ok.injEq] at h; subst h
    intro k hk
    rcases get?_zipFold_mem _ _ _ hk with h1 | h1
    · simp [Dict.get?] at h1
    · obtain ⟨p, hp, rfl⟩ := List.mem_map.mp h1
      exact (List.of_mem_zip hp).1

/-- the dictionary built by `evaluate_circuit_outputs`: every output keeps the value it has in `d` -/
theorem outputsFold_spec (d : Asg) : ∀ (outs : List Label) (acc acc' : Asg),
    outs.foldlM (fun (acc : Asg) o => match d.get? o with
      | none => (.error "Py:KeyError" : Except String Asg)
      | some v => .ok (acc.set o v)) acc = .ok acc' →
    (∀ o ∈ outs, acc'.get? o = d.get? o ∧ d.get? o ≠ none) ∧ (∀ k, (∀ o ∈ outs, k ≠ o) → acc'.get? k = acc.get? k) := by
  intro outs
  induction outs with
  | nil => intro acc acc' h; simp only [List.foldlM_nil, pure, Except.pure, Except.ok.injEq] at h; subst h; simp
  | cons o r ih =>
    intro acc acc' h
    simp only [List.foldlM_cons, bind, Except.bind] at h
    cases hd : d.get? o with
    | none => simp [hd] at h
    | some x =>
      simp only [hd] at h
      obtain ⟨i1, i2⟩ := ih _ _ h
      refine ⟨?_, ?_⟩
      · intro o' ho'
        rcases List.mem_cons.mp ho' with rfl | ho'
        · by_cases hin : o' ∈ r
          · exact i1 o' hin
          · rw [i2 o' (fun x hx e => hin (e ▸ hx)), Dict.get?_set]; simp [hd]
        · exact i1 o' ho'
      · intro k hk
        rw [i2 k (fun x hx => hk x (by simp [hx])), Dict.get?_set]
        simp [hk o (by simp)]

theorem mapM_lookup_spec (d : Asg) : ∀ (outs : List Label) (r : List V3),
    outs.mapM (fun o => match d.get? o with
      | none => (.error "Py:KeyError" : Except String V3)
      | some v => .ok v) = .ok r → r = outs.map (fun o => (d.get? o).getD V3.U) ∧ ∀ o ∈ outs, d.get? o ≠ none := by
  intro outs
  induction outs with
  | nil => intro r h; simp only [List.mapM_nil, pure, Except.pure, Except.ok.injEq] at h; subst h; simp
  | cons o t ih =>
    intro r h
    simp only [List.mapM_cons, bind, Except.bind] at h
    cases hd : d.get? o with
    | none => simp [hd] at h
    | some x =>
      simp only [hd] at h
      cases hm : t.mapM (fun o => match d.get? o with
        | none => (.error "Py:KeyError" : Except String V3)
        | some v => .ok v) with
      | error e => simp [hm] at h
      | ok r' =>
        simp only [hm, pure, Except.pure, Except.ok.injEq] at h
        subst h
        obtain ⟨i1, i2⟩ := ih r' hm
        refine ⟨by simp [hd, i1], ?_⟩
        intro o' ho'
        rcases List.mem_cons.mp ho' with rfl | ho'
        · simp [hd]
        · exact i2 o' ho'

/-- **`Circuit.evaluate(inputs)`** returns, position by position, the value the denotation gives to
each output (whenever it returns) -/
theorem evaluate_spec {c : Circuit} (h : WF c) (vals : List V3) {r : List V3} (he : evaluate c vals = .ok r)
    {a : Asg} (ha : zipInputs c vals = .ok a) {v : Label → V3} (hv : IsVal3 c (asgFun a) v) :
    r = c.outputs.map v := by
  unfold evaluate at he
  simp only [bind, Except.bind, ha] at he
  cases heo : evalOutputs c a with
  | error e => simp [heo] at he
  | ok d2 =>
    simp only [heo] at he
    unfold evalOutputs at heo
    cases hl : evalLazy c a none with
    | error e => simp [hl] at heo
    | ok d =>
      simp only [hl] at heo
      have hasg : ∀ g ∈ c.gates, g.ty ≠ INPUT → a.get? g.label = none := by
        intro g hg ht
        cases hgk : a.get? g.label with
        | none => rfl
        | some x =>
          exfalso
          have hin := zipInputs_keys ha g.label (by simp [hgk])
          obtain ⟨g', hg', hl', ht'⟩ := (h.inputsOK g.label).mp hin
          have : g' = g := gate_unique h.nodup hg' hg hl'
          subst this; exact ht ht'
      obtain ⟨_, s2⟩ := evalLazy_sound h a none hasg (by simpa using h.outputsOK) hv hl
      obtain ⟨f1, _⟩ := outputsFold_spec d _ _ _ heo
      obtain ⟨m1, _⟩ := mapM_lookup_spec d2 _ _ he
      rw [m1]
      apply List.map_congr_left
      intro o ho
      rw [(f1 o ho).1, s2 o (by simpa using ho)]
      rfl

/-- **`Circuit.evaluate_at(inputs, i)`** returns the denotation of output `i` -/
theorem evaluateAt_spec {c : Circuit} (h : WF c) (vals : List V3) (idx : Nat) {x : V3}
    (he : evaluateAt c vals idx = .ok x)
    {a : Asg} (ha : zipInputs c vals = .ok a) {v : Label → V3} (hv : IsVal3 c (asgFun a) v) :
    ∃ o, c.outputs[idx]? = some o ∧ x = v o := by
  unfold evaluateAt at he
  simp only [bind, Except.bind, ha] at he
  cases ho : c.outputs[idx]? with
  | none => simp [ho] at he
  | some o =>
    simp only [ho] at he
    cases hl : evalLazy c a (some [o]) with
    | error e => simp [hl] at he
    | ok d =>
      simp only [hl] at he
      have hasg : ∀ g ∈ c.gates, g.ty ≠ INPUT → a.get? g.label = none := by
        intro g hg ht
        cases hgk : a.get? g.label with
        | none => rfl
        | some y =>
          exfalso
          have hin := zipInputs_keys ha g.label (by simp [hgk])
          obtain ⟨g', hg', hl', ht'⟩ := (h.inputsOK g.label).mp hin
          have : g' = g := gate_unique h.nodup hg' hg hl'
          subst this; exact ht ht'
      have hol : o ∈ c.labels := h.outputsOK o (List.mem_of_getElem? ho)
      obtain ⟨_, s2⟩ := evalLazy_sound h a (some [o]) hasg (by simpa using hol) hv hl
      have := s2 o (by simp)
      rw [this] at he
      simp only [Except.ok.injEq] at he
      exact ⟨o, rfl, he.symm⟩

theorem mapM_evaluate_spec {c : Circuit} (h : WF c) (V : List V3 → Label → V3)
    (hV : ∀ vals a, zipInputs c vals = .ok a → IsVal3 c (asgFun a) (V vals)) :
    ∀ (xs : List (List V3)) (rows : List (List V3)),
      xs.mapM (fun vals => evaluate c vals) = .ok rows → rows = xs.map (fun vals => c.outputs.map (V vals)) := by
  intro xs
  induction xs with
  | nil => intro rows hm; simp only [List.mapM_nil, pure, Except.pure, Except.ok.injEq] at hm; subst hm; rfl
  | cons vals t ih =>
    intro rows hm
    simp only [List.mapM_cons, bind, Except.bind] at hm
    cases he : evaluate c vals with
    | error e => simp [he] at hm
    | ok r =>
      simp only [he] at hm
      cases ht : t.mapM (fun vals => evaluate c vals) with
      | error e => simp [ht] at hm
      | ok rs =>
        simp only [ht, pure, Except.pure, Except.ok.injEq] at hm
        subst hm
        have hz : ∃ a, zipInputs c vals = .ok a := by
          unfold evaluate at he
          cases hz : zipInputs c vals with
          | error e => simp [bind, Except.bind, hz] at he
          | ok a => exact ⟨a, rfl⟩
        obtain ⟨a, ha⟩ := hz
        rw [evaluate_spec h vals he ha (hV vals a ha), ih rs ht]
        rfl

/-- **`Circuit.get_truth_table()`**: row `i` lists, over all input vectors in counting order, the
denotation of output `i` -/
theorem truthTable_spec {c : Circuit} (h : WF c) (V : List V3 → Label → V3)
    (hV : ∀ vals a, zipInputs c vals = .ok a → IsVal3 c (asgFun a) (V vals))
    {tt : List (List V3)} (ht : truthTable c = .ok tt) :
    tt = transpose c.outputs.length ((allInputs c.inputs.length).map
      (fun bs => c.outputs.map (V (bs.map V3.ofBool)))) := by
  unfold truthTable at ht
  simp only [bind, Except.bind] at ht
  cases hm : (allInputs c.inputs.length).mapM (fun bs => evaluate c (bs.map V3.ofBool)) with
  | error e => simp [hm] at ht
  | ok rows =>
    simp only [hm, Except.ok.injEq] at ht
    subst ht
    have hm' : ((allInputs c.inputs.length).map (fun bs => bs.map V3.ofBool)).mapM (fun vals => evaluate c vals) = .ok rows := by
      rw [List.mapM_map]; exact hm
    rw [mapM_evaluate_spec h V hV _ _ hm', List.map_map]
    rfl

end Cirbo
