import Cirbo.Model.Func
/-!
# Integer-function wrappers: the stated bit order
-/
namespace Cirbo
namespace FRep

theorem canonicalIndex_foldl (l : List Bool) (acc : Nat) :
    l.foldl (fun acc b => 2 * acc + (if b then 1 else 0)) acc = acc * 2 ^ l.length + canonicalIndex l := by
  unfold canonicalIndex
  induction l generalizing acc with
  | nil => simp
  | cons b r ih =>
    simp only [List.foldl_cons, List.length_cons]
    rw [ih, ih (2 * 0 + if b = true then 1 else 0)]
    rw [Nat.pow_succ]
    generalize 2 ^ r.length = P
    generalize List.foldl (fun acc b => 2 * acc + if b = true then 1 else 0) 0 r = X
    have e1 : 2 * acc * P = acc * (P * 2) := by rw [Nat.mul_comm 2 acc, Nat.mul_assoc, Nat.mul_comm 2 P]
    cases b
    · simp only [Bool.false_eq_true, if_false, Nat.add_zero, Nat.mul_zero, Nat.zero_mul, Nat.zero_add]
      rw [e1]
    · simp only [if_true, Nat.mul_zero, Nat.zero_add, Nat.one_mul]
      rw [Nat.add_mul, e1, Nat.one_mul]; omega

theorem canonicalIndex_append (a b : List Bool) :
    canonicalIndex (a ++ b) = canonicalIndex a * 2 ^ b.length + canonicalIndex b := by
  unfold canonicalIndex
  rw [List.foldl_append]
  exact canonicalIndex_foldl b _

theorem canonicalIndex_lt (l : List Bool) : canonicalIndex l < 2 ^ l.length := by
  induction l with
  | nil => simp [canonicalIndex]
  | cons b r ih =>
    rw [show b :: r = [b] ++ r from rfl, canonicalIndex_append]
    have h1 : canonicalIndex [b] ≤ 1 := by cases b <;> simp [canonicalIndex]
    simp only [List.length_append, List.length_cons, List.length_nil, Nat.zero_add]
    rw [Nat.add_comm 1, Nat.pow_succ]
    generalize 2 ^ r.length = P at *
    have : canonicalIndex [b] * P ≤ 1 * P := Nat.mul_le_mul_right _ h1
    omega

theorem canonicalIndex_replicate_false (n : Nat) : canonicalIndex (List.replicate n false) = 0 := by
  induction n with
  | zero => rfl
  | succ n ih =>
    rw [List.replicate_succ, show false :: List.replicate n false = [false] ++ List.replicate n false from rfl,
      canonicalIndex_append, ih]
    simp [canonicalIndex]

/-- `bin(k)[2:]` read as a big-endian number is `k` -/
theorem canonicalIndex_binDigits : ∀ (k : Nat), canonicalIndex (binDigits k) = k := by
  intro k
  induction k using Nat.strongRecOn with
  | ind k ih =>
    unfold binDigits
    by_cases h0 : k = 0
    · simp [h0, canonicalIndex]
    · rw [if_neg h0]
      by_cases h2 : k < 2
      · have : k = 1 := by omega
        subst this
        rw [Nat.toDigits_of_lt_base (by omega)]
        simp [canonicalIndex, Nat.digitChar]
      · rw [Nat.toDigits_of_base_le (by omega) (by omega), List.map_append, canonicalIndex_append]
        have hk : k / 2 ≠ 0 := by omega
        have := ih (k / 2) (by omega)
        unfold binDigits at this
        rw [if_neg hk] at this
        rw [this]
        have hd : canonicalIndex ([Nat.digitChar (k % 2)].map (· == '1')) = k % 2 := by
          rcases Nat.mod_two_eq_zero_or_one k with h | h <;> rw [h] <;> simp [canonicalIndex, Nat.digitChar]
        rw [hd]
        simp
        omega

/-- `canonical_index_to_input(index, size)` for `size ≥ 1`: `size` bits whose big-endian value is `index mod 2^size` -/
theorem indexToInput_spec (k size : Nat) (hs : 1 ≤ size) :
    (indexToInput k size).length = size ∧ canonicalIndex (indexToInput k size) = k % 2 ^ size := by
  unfold indexToInput
  simp only [show ¬ size = 0 by omega, if_false]
  generalize hs' : List.replicate (size - (binDigits k).length) false ++ binDigits k = s'
  have hv : canonicalIndex s' = k := by
    rw [← hs', canonicalIndex_append, canonicalIndex_replicate_false, canonicalIndex_binDigits]; simp
  have hl : size ≤ s'.length := by rw [← hs']; simp; omega
  refine ⟨by rw [List.length_drop]; omega, ?_⟩
  have hsplit : s' = s'.take (s'.length - size) ++ s'.drop (s'.length - size) := (List.take_append_drop _ _).symm
  have hdl : (s'.drop (s'.length - size)).length = size := by rw [List.length_drop]; omega
  have := canonicalIndex_append (s'.take (s'.length - size)) (s'.drop (s'.length - size))
  rw [← hsplit, hv, hdl] at this
  have hlt := canonicalIndex_lt (s'.drop (s'.length - size))
  rw [hdl] at hlt
  rw [this, Nat.mul_comm, Nat.mul_add_mod, Nat.mod_eq_of_lt hlt]

/-- **`from_int_unary_func`**: `out_len ≥ 1` result bits; read in the stated order (big-endian, or
little-endian by default) they are `f(operand read in the same order) mod 2^out_len` -/
theorem fromIntUnary_spec (f : Nat → Nat) (inLen outLen : Nat) (be : Bool) (args : List Bool) (ho : 1 ≤ outLen) :
    ((fromIntUnary f inLen outLen be).ev args).length = outLen ∧
    canonicalIndex (if be then (fromIntUnary f inLen outLen be).ev args else ((fromIntUnary f inLen outLen be).ev args).reverse) =
      f (canonicalIndex (if be then args else args.reverse)) % 2 ^ outLen := by
  unfold fromIntUnary
  simp only
  cases be
  · simp only [Bool.false_eq_true, if_false, List.length_reverse, List.reverse_reverse]
    exact indexToInput_spec _ _ ho
  · simp only [if_true]
    exact indexToInput_spec _ _ ho

/-- **`from_int_binary_func`** on `2·in_len` argument bits: the two operands are the two halves, each
read in the stated order -/
theorem fromIntBinary_spec (f : Nat → Nat → Nat) (inLen outLen : Nat) (be : Bool) (args : List Bool) (ho : 1 ≤ outLen) :
    ((fromIntBinary f inLen outLen be).ev args).length = outLen ∧
    canonicalIndex (if be then (fromIntBinary f inLen outLen be).ev args else ((fromIntBinary f inLen outLen be).ev args).reverse) =
      f (canonicalIndex (if be then args.take inLen else (args.take inLen).reverse))
        (canonicalIndex (if be then args.drop inLen else (args.drop inLen).reverse)) % 2 ^ outLen := by
  unfold fromIntBinary
  simp only
  cases be
  · simp only [Bool.false_eq_true, if_false, List.length_reverse, List.reverse_reverse]
    exact indexToInput_spec _ _ ho
  · simp only [if_true]
    exact indexToInput_spec _ _ ho

end FRep
end Cirbo
