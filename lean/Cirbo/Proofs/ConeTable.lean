import Cirbo.Model.ConeTable
import Cirbo.Proofs.Pattern
import Cirbo.Proofs.ReplaceSem
/-!
# C04: the cone simulation computes the cone, and the table with don't-cares is sound
(see Model/ConeTable.lean)
-/
namespace Cirbo
namespace Cone
open Pattern GateType

/-! ## arithmetic of rows -/

theorem lsbRow_lt : ∀ bs : List Bool, lsbRow bs < 2 ^ bs.length
  | [] => by simp [lsbRow]
  | b :: r => by
    have := lsbRow_lt r
    simp only [lsbRow, List.length_cons, Nat.pow_succ]
    cases b <;> simp <;> omega

theorem lsbRow_testBit : ∀ (bs : List Bool) (j : Nat) (h : j < bs.length), (lsbRow bs).testBit j = bs[j]
  | b :: r, 0, _ => by
    simp only [lsbRow, List.getElem_cons_zero, Nat.testBit_zero]
    cases b <;> simp <;> omega
  | b :: r, j + 1, h => by
    have ih := lsbRow_testBit r j (by simpa using h)
    simp only [lsbRow, List.getElem_cons_succ, Nat.testBit_succ]
    rw [← ih]; congr 1
    cases b <;> simp <;> omega

theorem msbBits_lsbRow (bs : List Bool) : msbBits bs.length (lsbRow bs) = bs.reverse := by
  apply List.ext_getElem
  · simp [msbBits]
  · intro i h1 h2
    simp only [msbBits, List.length_map, List.length_range] at h1
    simp only [msbBits, List.getElem_map, List.getElem_range, List.getElem_reverse]
    exact lsbRow_testBit bs _ (by omega)


/-! ## the simulation loop -/

theorem mem_of_lookup {α} : ∀ {xs : List (Label × α)} {l : Label} {p : α}, xs.lookup l = some p → (l, p) ∈ xs
  | (k, q) :: xs, l, p, h => by
    simp only [List.lookup_cons] at h
    by_cases hk : l == k
    · simp only [hk] at h
      have hk' : l = k := by simpa using hk
      cases h; simp [hk']
    · simp only [hk] at h
      exact List.mem_cons_of_mem _ (mem_of_lookup h)

/-- every entry of `tt` is a pattern below the bound whose bit `r` is the gate's value under `v` -/
def TTInv (n : Nat) (v : Label → Bool) (r : Nat) (tt : List (Label × Nat)) : Prop :=
  ∀ l p, tt.lookup l = some p → p < 2 ^ (2 ^ n) ∧ p.testBit r = v l

theorem initTT_inv (leaves : List Label) (v : Label → Bool) :
    TTInv leaves.length v (lsbRow (leaves.map v)) (initTT leaves) := by
  intro l p h
  have hm := mem_of_lookup h
  simp only [initTT, List.mem_map, Prod.mk.injEq] at hm
  obtain ⟨⟨l', j⟩, hmem, rfl, rfl⟩ := hm
  obtain ⟨hj0, hj, hl⟩ := List.mem_zipIdx hmem
  simp only [Nat.zero_add, Nat.sub_zero] at hj hl
  have hr : lsbRow (leaves.map v) < 2 ^ leaves.length := by
    simpa using lsbRow_lt (leaves.map v)
  obtain ⟨h1, h2⟩ := leafPattern_testBit leaves.length j _ hr
  refine ⟨h2, ?_⟩
  rw [h1, lsbRow_testBit _ j (by simpa using hj)]
  simp [hl]

theorem initTT_dom (leaves : List Label) : ∀ l ∈ leaves, ((initTT leaves).lookup l).isSome := by
  intro l hl
  cases h : (initTT leaves).lookup l with
  | some _ => rfl
  | none =>
    rw [List.lookup_eq_none_iff] at h
    obtain ⟨j, hj, rfl⟩ := List.getElem_of_mem hl
    have : (leaves[j], leafPattern leaves.length j) ∈ initTT leaves := by
      simp only [initTT, List.mem_map]
      exact ⟨(leaves[j], j), by simp [List.mem_zipIdx_iff_getElem?, hj], rfl⟩
    have := h _ this
    simp at this

theorem foldl_simStep_error (c : Circuit) (leaves : List Label) (e : String) :
    ∀ nodes : List Label, nodes.foldl (simStep c leaves) (Except.error e) = Except.error e
  | [] => rfl
  | x :: r => by simp only [List.foldl_cons]; exact foldl_simStep_error c leaves e r


theorem find?_some {c : Circuit} {l : Label} {g : Gate} (h : c.find? l = some g) : g ∈ c.gates ∧ g.label = l := by
  unfold Circuit.find? at h
  exact ⟨List.mem_of_find?_eq_some h, by simpa using List.find?_some h⟩

/-- one round keeps the invariant and only adds the node to the domain -/
theorem simStep_inv {c : Circuit} {leaves : List Label} {b v : Label → Bool} {r : Nat} {tt tt' : List (Label × Nat)}
    {node : Label} (hv : IsValB c b v) (har : ∀ g ∈ c.gates, g.ty ≠ INPUT → arityOk g.ty g.ops.length = true)
    (hr : r < 2 ^ leaves.length) (hinv : TTInv leaves.length v r tt)
    (hleaf : ∀ l ∈ leaves, (tt.lookup l).isSome)
    (hops : node ∉ leaves → ∀ g, c.find? node = some g → ∀ o ∈ g.ops, (tt.lookup o).isSome)
    (h : simStep c leaves (.ok tt) node = .ok tt') :
    TTInv leaves.length v r tt' ∧ (∀ l, (tt.lookup l).isSome → (tt'.lookup l).isSome) ∧ (tt'.lookup node).isSome := by
  simp only [simStep, bind, Except.bind, pure, Except.pure] at h
  by_cases hn : node ∈ leaves
  · simp only [hn, if_true, Except.ok.injEq] at h
    subst h
    exact ⟨hinv, fun _ h => h, hleaf node hn⟩
  · simp only [hn, if_false] at h
    cases hf : c.find? node with
    | none => simp [hf] at h
    | some g =>
      simp only [hf] at h
      cases he : evalPattern leaves.length g.ty (g.ops.map (ttGet tt)) with
      | error e => simp [he] at h
      | ok p =>
        simp only [he, Except.ok.injEq] at h
        subst h
        obtain ⟨hg, hgl⟩ := find?_some hf
        have hty : g.ty ≠ INPUT := by
          intro ht; rw [ht] at he; simp [evalPattern] at he
        have hdom := hops hn g hf
        have hop : ∀ o ∈ g.ops, ttGet tt o < 2 ^ (2 ^ leaves.length) ∧ (ttGet tt o).testBit r = v o := by
          intro o ho
          have := hdom o ho
          cases hl : tt.lookup o with
          | none => simp [hl] at this
          | some q => simpa [ttGet, hl] using hinv o q hl
        obtain ⟨s1, s2⟩ := evalPattern_sound leaves.length g.ty _ p he
          (by intro x hx; obtain ⟨o, ho, rfl⟩ := List.mem_map.mp hx; exact (hop o ho).1)
          (by simpa using har g hg hty)
        have hbits : bitsAt (g.ops.map (ttGet tt)) r = g.ops.map v := by
          simp only [bitsAt, List.map_map]
          exact List.map_congr_left (fun o ho => (hop o ho).2)
        have hval := hv g hg
        simp only [hty, if_false] at hval
        have hpr : p.testBit r = v node := by
          have := s2 r hr
          rw [hbits, hval] at this
          rw [← hgl]; exact (Option.some.inj this).symm
        refine ⟨?_, ?_, by simp⟩
        · intro l q hq
          simp only [List.lookup_cons] at hq
          by_cases hk : l == node
          · simp only [hk, Option.some.injEq] at hq
            have : l = node := by simpa using hk
            subst hq; subst this
            exact ⟨s1, hpr⟩
          · simp only [hk] at hq
            exact hinv l q hq
        · intro l hl
          simp only [List.lookup_cons]
          by_cases hk : l == node <;> simp [hk, hl]


/-- the cone is closed: every operand of a simulated gate is a leaf or an earlier node -/
def Closed (c : Circuit) (leaves : List Label) (seen nodes : List Label) : Prop :=
  ∀ pre x post, nodes = pre ++ x :: post → x ∉ leaves → ∀ g, c.find? x = some g →
    ∀ o ∈ g.ops, o ∈ leaves ∨ o ∈ seen ∨ o ∈ pre

theorem simulate_inv_aux {c : Circuit} {leaves : List Label} {b v : Label → Bool} {r : Nat}
    (hv : IsValB c b v) (har : ∀ g ∈ c.gates, g.ty ≠ INPUT → arityOk g.ty g.ops.length = true)
    (hr : r < 2 ^ leaves.length) :
    ∀ (nodes seen : List Label) (tt tt' : List (Label × Nat)), TTInv leaves.length v r tt →
      (∀ l ∈ leaves, (tt.lookup l).isSome) → (∀ l ∈ seen, (tt.lookup l).isSome) → Closed c leaves seen nodes →
      nodes.foldl (simStep c leaves) (.ok tt) = .ok tt' →
      TTInv leaves.length v r tt' ∧ (∀ l ∈ leaves, (tt'.lookup l).isSome) ∧ ∀ l ∈ nodes, (tt'.lookup l).isSome
  | [], _, tt, tt', hinv, hl, _, _, h => by
    simp only [List.foldl_nil, Except.ok.injEq] at h; subst h
    exact ⟨hinv, hl, by simp⟩
  | x :: rest, seen, tt, tt', hinv, hl, hs, hcl, h => by
    simp only [List.foldl_cons] at h
    cases h1 : simStep c leaves (.ok tt) x with
    | error e => rw [h1, foldl_simStep_error] at h; cases h
    | ok tt1 =>
      rw [h1] at h
      obtain ⟨i1, i2, i3⟩ := simStep_inv hv har hr hinv hl
        (fun hx g hg o ho => by
          rcases hcl [] x rest rfl hx g hg o ho with h' | h' | h'
          · exact hl o h'
          · exact hs o h'
          · simp at h') h1
      obtain ⟨j1, j2, j3⟩ := simulate_inv_aux hv har hr rest (x :: seen) tt1 tt' i1 (fun l h' => i2 l (hl l h'))
        (fun l h' => by
          rcases List.mem_cons.mp h' with rfl | h''
          · exact i3
          · exact i2 l (hs l h''))
        (fun pre y post hy hyl g hg o ho => by
          rcases hcl (x :: pre) y post (by rw [hy]; rfl) hyl g hg o ho with h' | h' | h'
          · exact Or.inl h'
          · exact Or.inr (Or.inl (List.mem_cons_of_mem _ h'))
          · rcases List.mem_cons.mp h' with rfl | h''
            · exact Or.inr (Or.inl (by simp))
            · exact Or.inr (Or.inr h'')) h
      refine ⟨j1, j2, ?_⟩
      intro l hl'
      rcases List.mem_cons.mp hl' with rfl | h''
      · have : ∀ (ns : List Label) (t t' : List (Label × Nat)), ns.foldl (simStep c leaves) (.ok t) = .ok t' →
            ∀ l, (t.lookup l).isSome → (t'.lookup l).isSome := by
          intro ns
          induction ns with
          | nil => intro t t' h l hl; simp only [List.foldl_nil, Except.ok.injEq] at h; subst h; exact hl
          | cons y ys ih =>
            intro t t' h l hl
            simp only [List.foldl_cons] at h
            cases h2 : simStep c leaves (.ok t) y with
            | error e => rw [h2, foldl_simStep_error] at h; cases h
            | ok t1 =>
              rw [h2] at h
              refine ih t1 t' h l ?_
              simp only [simStep, bind, Except.bind, pure, Except.pure] at h2
              split at h2
              · cases h2; exact hl
              · split at h2
                · cases h2
                · split at h2
                  · cases h2
                  · simp only [Except.ok.injEq] at h2; subst h2
                    simp only [List.lookup_cons]
                    split <;> simp [hl]
        exact this rest tt1 tt' h _ i3
      · exact j3 l h''

/-- **the cone simulation computes every gate's value on every leaf vector that occurs.**  When the
loop of `_get_subcircuits` finishes on a closed cone, the pattern of every leaf and every cone gate
is below `2^(2^n)` and, for every valuation `v` of the circuit, its bit number
`lsbRow (leaves.map v)` is the gate's value under `v`. -/
theorem simulate_sound {c : Circuit} {leaves nodes : List Label} {tt : List (Label × Nat)} {b v : Label → Bool}
    (har : ∀ g ∈ c.gates, g.ty ≠ INPUT → arityOk g.ty g.ops.length = true)
    (hcl : Closed c leaves [] nodes) (h : simulate c leaves nodes = .ok tt) (hv : IsValB c b v) :
    ∀ l, l ∈ leaves ∨ l ∈ nodes → ttGet tt l < 2 ^ (2 ^ leaves.length) ∧
      (ttGet tt l).testBit (lsbRow (leaves.map v)) = v l := by
  have hr : lsbRow (leaves.map v) < 2 ^ leaves.length := by simpa using lsbRow_lt (leaves.map v)
  obtain ⟨j1, j2, j3⟩ := simulate_inv_aux hv har hr nodes [] _ tt (initTT_inv leaves v) (initTT_dom leaves)
    (by simp) hcl h
  intro l hl
  have hd : (tt.lookup l).isSome := hl.elim (j2 l) (j3 l)
  cases hq : tt.lookup l with
  | none => simp [hq] at hd
  | some q => simpa [ttGet, hq] using j1 l q hq


/-! ## the table with don't-cares -/


theorem ttDC_entry (n : Nat) (outPats : List Nat) (reach : List (List Bool)) (j r : Nat)
    (hj : j < outPats.length) (hr : r < 2 ^ n) :
    entry (ttDC n outPats reach) j r = if msbBits n r ∈ reach then some (outPats[j].testBit r) else none := by
  simp [entry, ttDC, List.getD, hj, hr]

/-- **the table is defined exactly on the leaf vectors that occur** -/
theorem ttDC_defined_iff (n : Nat) (outPats : List Nat) (reach : List (List Bool)) (j r : Nat)
    (hj : j < outPats.length) (hr : r < 2 ^ n) :
    (entry (ttDC n outPats reach) j r).isSome ↔ msbBits n r ∈ reach := by
  rw [ttDC_entry n outPats reach j r hj hr]; split <;> simp [*]

/-- what exact synthesis promises about the circuit it returns for a table (C06,
`c06_returned_circuit_computes_the_table`): `n` inputs, one output per table row, and under every
assignment whose inputs carry row `t` (input 0 = most significant bit) every output has the table's
value wherever the table is defined -/
def Implements (sub : Circuit) (n : Nat) (tab : List (List (Option Bool))) : Prop :=
  sub.inputs.length = n ∧ sub.outputs.length = tab.length ∧
  ∀ bs vs t, t < 2 ^ n → IsValB sub bs vs →
    (∀ i (h : i < sub.inputs.length), bs sub.inputs[i] = t.testBit (n - 1 - i)) →
    ∀ j (hj : j < sub.outputs.length) x, entry tab j t = some x → vs sub.outputs[j] = x

/-- `_eval_dont_cares` collects every leaf vector that occurs: `reachOf` over a list of valuations
that contains the valuation of every assignment -/
def ReachComplete (c : Circuit) (ins : List Label) (reach : List (List Bool)) : Prop :=
  ∀ b v, IsValB c b v → ins.map v ∈ reach

theorem reachOf_complete (c : Circuit) (ins : List Label) (vals : List (Label → Bool))
    (h : ∀ b v, IsValB c b v → ∃ v' ∈ vals, ∀ l ∈ ins, v' l = v l) : ReachComplete c ins (reachOf ins vals) := by
  intro b v hv
  obtain ⟨v', hm, he⟩ := h b v hv
  exact List.mem_map.mpr ⟨v', hm, List.map_congr_left he⟩

/-- **any circuit that implements the table with don't-cares agrees with the cone.**  `leaves` is
`inputs_lst` (the order in which the leaves got their patterns), the subcircuit's inputs are
`leaves.reverse`; `outs` are the cone outputs handed to synthesis; `tt` is the result of the
simulation; `reach` the leaf vectors collected by `_eval_dont_cares`.  Then the replacement, with its
inputs identified with the leaves and its outputs with the cone outputs as `minimize_subcircuits`
does, `SliceAgrees` with the cone: on every valuation of the circuit it produces the values of the
cone outputs from the values at the leaves. -/
theorem dc_table_slice_agrees {c sub : Circuit} {leaves nodes outs : List Label} {tt : List (Label × Nat)}
    {reach : List (List Bool)}
    (har : ∀ g ∈ c.gates, g.ty ≠ INPUT → arityOk g.ty g.ops.length = true)
    (hcl : Closed c leaves [] nodes) (hsim : simulate c leaves nodes = .ok tt)
    (houts : ∀ o ∈ outs, o ∈ leaves ∨ o ∈ nodes)
    (hreach : ReachComplete c leaves.reverse reach)
    (hin : ∀ l, l ∈ sub.inputs → ∃ g ∈ sub.gates, g.label = l ∧ g.ty = INPUT)
    (himpl : Implements sub leaves.length (ttDC leaves.length (outs.map (ttGet tt)) reach)) :
    SliceAgrees c sub (leaves.reverse.zip sub.inputs) (outs.zip sub.outputs) := by
  obtain ⟨hn, hm, hall⟩ := himpl
  intro b v bs vs hv hvs him p hp
  have hm' : sub.outputs.length = outs.length := by simpa [ttDC] using hm
  obtain ⟨r, hrdef⟩ : ∃ r, r = lsbRow (leaves.map v) := ⟨_, rfl⟩
  have hr : r < 2 ^ leaves.length := by rw [hrdef]; simpa using lsbRow_lt (leaves.map v)
  have hmsb : msbBits leaves.length r = leaves.reverse.map v := by
    have := msbBits_lsbRow (leaves.map v)
    rw [hrdef]; simpa [List.map_reverse] using this
  -- the inputs of the replacement carry row r
  have hrow : ∀ i (h : i < sub.inputs.length), bs sub.inputs[i] = r.testBit (leaves.length - 1 - i) := by
    intro i hi
    obtain ⟨g, hg, hgl, hgt⟩ := hin _ (List.getElem_mem hi)
    have h1 := hvs g hg
    simp only [hgt, if_true, hgl] at h1
    have hi' : i < leaves.reverse.length := by simpa [hn] using hi
    have hz : (leaves.reverse[i], sub.inputs[i]) ∈ leaves.reverse.zip sub.inputs := by
      rw [List.mem_iff_getElem]
      exact ⟨i, by simp only [List.length_zip, List.length_reverse] at hi' ⊢; omega, by simp⟩
    have h2 := him _ hz
    simp only at h2
    rw [← h1, h2]
    have : (msbBits leaves.length r)[i]'(by simpa [msbBits] using (by simpa using hi' : i < leaves.length)) = v leaves.reverse[i] := by
      simp [hmsb]
    rw [← this]; simp [msbBits]
  obtain ⟨j, hj, hpj⟩ := List.mem_iff_getElem.mp hp
  have hj1 : j < outs.length := by simp at hj; omega
  have hj2 : j < sub.outputs.length := by simp at hj; omega
  have hpe : p = (outs[j], sub.outputs[j]) := by rw [← hpj]; simp
  subst hpe
  simp only
  have hent := ttDC_entry leaves.length (outs.map (ttGet tt)) reach j r (by simpa using hj1) hr
  have hmem : msbBits leaves.length r ∈ reach := by rw [hmsb]; exact hreach b v hv
  rw [if_pos hmem] at hent
  have := hall bs vs r hr hvs hrow j hj2 _ hent
  rw [this]
  simp only [List.getElem_map]
  rw [hrdef]
  exact (simulate_sound har hcl hsim hv _ (houts _ (List.getElem_mem hj1))).2

end Cone
end Cirbo
