import Cirbo.Proofs.ReplaceSem
/-!
# Sequences of agreeing subcircuit replacements preserve the function (C04: the splice loop of
`minimize_subcircuits`, abstractly)
-/
namespace Cirbo
open GateType Circuit

/-- `c'` computes what `c` computes: same inputs position by position (up to a relabelling `f` of the
input labels) and, for every valuation of `c`, a valuation of `c'` under the corresponding assignment
with the same output values, position by position -/
def Refines (c c' : Circuit) : Prop :=
  ∃ f : Label → Label, c'.inputs.map f = c.inputs ∧
    ∀ b v, IsValB c b v → ∃ v', IsValB c' (b ∘ f) v' ∧ c'.outputs.map v' = c.outputs.map v

theorem Refines.refl (c : Circuit) : Refines c c :=
  ⟨id, by simp, fun b v hv => ⟨v, hv, rfl⟩⟩

theorem Refines.trans {a b c : Circuit} (h1 : Refines a b) (h2 : Refines b c) : Refines a c := by
  obtain ⟨f, hf, hv1⟩ := h1
  obtain ⟨g, hg, hv2⟩ := h2
  refine ⟨f ∘ g, by rw [← List.map_map, hg, hf], ?_⟩
  intro bb v hv
  obtain ⟨v', a1, a2⟩ := hv1 bb v hv
  obtain ⟨v'', b1, b2⟩ := hv2 _ v' a1
  exact ⟨v'', b1, by rw [b2, a2]⟩

/-- one accepted improvement: a replacement that agrees with the slice it replaces -/
structure Step where
  sub : Circuit
  im : List (Label × Label)
  om : List (Label × Label)
  uuid : Nat

def Step.ok (c : Circuit) (s : Step) : Prop :=
  WFU s.sub ∧ (∀ b ∈ s.sub.blocks, (∀ l ∈ b.gates, l ∈ s.sub.labels) ∧ (∀ l ∈ b.inputs, l ∈ s.sub.labels)) ∧
  (s.im.map (·.1)).Nodup ∧ (s.om.map (·.1)).Nodup ∧ SliceAgrees c s.sub s.im s.om ∧ (∀ p ∈ s.om, p.1 ∉ c.inputs)

/-- applying accepted improvements one after the other, each on the circuit the previous one left -/
inductive Steps : Circuit → List Step → Circuit → Prop
  | nil {c} : Steps c [] c
  | cons {c c1 c' : Circuit} {s : Step} {rest : List Step} {k : Nat} :
      s.ok c → c.replaceSubcircuit s.sub s.im s.om s.uuid = .ok (c1, k) → Steps c1 rest c' → Steps c (s :: rest) c'

/-- **any sequence of accepted improvements keeps the circuit well formed and its function** -/
theorem steps_refine {c c' : Circuit} {ss : List Step} (hw : WFS c) (h : Steps c ss c') :
    WFS c' ∧ Refines c c' := by
  induction h with
  | nil => exact ⟨hw, Refines.refl _⟩
  | cons hok hrep _ ih =>
    obtain ⟨h1, h2, h3, h4, h5, h6⟩ := hok
    obtain ⟨w1, f, hf, hv⟩ := replaceSubcircuit_sem hw h1 h2 h3 h4 h5 h6 hrep
    obtain ⟨w2, r2⟩ := ih w1
    exact ⟨w2, Refines.trans ⟨f, hf, hv⟩ r2⟩

end Cirbo
