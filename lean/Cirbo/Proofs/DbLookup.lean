import Cirbo.Model.DbLookup
/-!
# Lookup with don't-cares: every completion is tried, the smallest stored one wins (C17)
-/
namespace Cirbo
namespace Norm

/-! ## the selection -/

theorem pickFold_spec {γ} (size : γ → Nat) (lookup : List Row → Option γ) :
    ∀ (ts : List (List Row)) (acc : Option (γ × Nat)),
      (∀ r s, acc = some (r, s) → s = size r) →
      let res := ts.foldl (fun acc t => pickStep size acc (lookup t)) acc
      (∀ r s, res = some (r, s) → s = size r ∧ ((acc = some (r, s)) ∨ ∃ t ∈ ts, lookup t = some r)) ∧
      (∀ r s, res = some (r, s) → (∀ r0 s0, acc = some (r0, s0) → s ≤ s0) ∧ ∀ t ∈ ts, ∀ c, lookup t = some c → s ≤ size c) ∧
      (res = none ↔ acc = none ∧ ∀ t ∈ ts, lookup t = none) := by
  intro ts
  induction ts with
  | nil =>
    intro acc hacc
    simp only [List.foldl_nil]
    refine ⟨fun r s h => ⟨hacc r s h, Or.inl h⟩, fun r s h => ⟨fun r0 s0 h0 => ?_, fun t ht => (by cases ht)⟩, (by simp)⟩
    rw [h] at h0; cases h0; exact Nat.le_refl _
  | cons t rest ih =>
    intro acc hacc
    simp only [List.foldl_cons]
    have hstep : ∀ r s, pickStep size acc (lookup t) = some (r, s) → s = size r := by
      intro r s h
      cases hl : lookup t with
      | none => rw [hl] at h; exact hacc r s h
      | some c =>
        rw [hl] at h
        cases acc with
        | none => simp only [pickStep, Option.some.injEq, Prod.mk.injEq] at h; obtain ⟨rfl, rfl⟩ := h; rfl
        | some p =>
          obtain ⟨r0, rs⟩ := p
          simp only [pickStep] at h
          split at h
          · simp only [Option.some.injEq, Prod.mk.injEq] at h; obtain ⟨rfl, rfl⟩ := h; rfl
          · simp only [Option.some.injEq, Prod.mk.injEq] at h; obtain ⟨rfl, rfl⟩ := h; exact hacc _ _ rfl
    obtain ⟨i1, i2, i3⟩ := ih (pickStep size acc (lookup t)) hstep
    -- facts about one step
    have hs1 : ∀ r s, pickStep size acc (lookup t) = some (r, s) → acc = some (r, s) ∨ lookup t = some r := by
      intro r s h
      cases hl : lookup t with
      | none => rw [hl] at h; exact Or.inl h
      | some c =>
        rw [hl] at h
        cases acc with
        | none => simp only [pickStep, Option.some.injEq, Prod.mk.injEq] at h; obtain ⟨rfl, rfl⟩ := h; exact Or.inr rfl
        | some p =>
          obtain ⟨r0, rs⟩ := p
          simp only [pickStep] at h
          split at h
          · simp only [Option.some.injEq, Prod.mk.injEq] at h; obtain ⟨rfl, rfl⟩ := h; exact Or.inr rfl
          · exact Or.inl h
    have hs2 : ∀ r s, pickStep size acc (lookup t) = some (r, s) →
        (∀ r0 s0, acc = some (r0, s0) → s ≤ s0) ∧ ∀ c, lookup t = some c → s ≤ size c := by
      intro r s h
      cases hl : lookup t with
      | none =>
        rw [hl] at h
        exact ⟨fun r0 s0 h0 => (by simp only [pickStep] at h; rw [h] at h0; cases h0; exact Nat.le_refl _), fun c hc => (by cases hc)⟩
      | some c =>
        rw [hl] at h
        cases acc with
        | none =>
          simp only [pickStep, Option.some.injEq, Prod.mk.injEq] at h; obtain ⟨rfl, rfl⟩ := h
          exact ⟨fun r0 s0 h0 => (by cases h0), fun c' hc' => (by cases hc'; exact Nat.le_refl _)⟩
        | some p =>
          obtain ⟨r0, rs⟩ := p
          simp only [pickStep] at h
          split at h
          · rename_i hlt
            simp only [Option.some.injEq, Prod.mk.injEq] at h; obtain ⟨rfl, rfl⟩ := h
            exact ⟨fun r1 s1 h1 => (by cases h1; omega), fun c' hc' => (by cases hc'; exact Nat.le_refl _)⟩
          · rename_i hge
            simp only [Option.some.injEq, Prod.mk.injEq] at h; obtain ⟨rfl, rfl⟩ := h
            exact ⟨fun r1 s1 h1 => (by cases h1; exact Nat.le_refl _), fun c' hc' => (by cases hc'; omega)⟩
    have hs3 : pickStep size acc (lookup t) = none ↔ acc = none ∧ lookup t = none := by
      cases hl : lookup t with
      | none => simp [pickStep]
      | some c =>
        cases acc with
        | none => simp [pickStep]
        | some p => obtain ⟨r0, rs⟩ := p; simp only [pickStep]; split <;> simp
    refine ⟨?_, ?_, ?_⟩
    · intro r s h
      obtain ⟨e, h1⟩ := i1 r s h
      refine ⟨e, ?_⟩
      rcases h1 with h1 | ⟨t', ht', e'⟩
      · rcases hs1 r s h1 with h2 | h2
        · exact Or.inl h2
        · exact Or.inr ⟨t, by simp, h2⟩
      · exact Or.inr ⟨t', by simp [ht'], e'⟩
    · intro r s h
      obtain ⟨j1, j2⟩ := i2 r s h
      refine ⟨?_, ?_⟩
      · intro r0 s0 h0
        -- the step result is ≤ the accumulator, and the final ≤ the step result
        cases hp : pickStep size acc (lookup t) with
        | none => rw [hs3] at hp; rw [hp.1] at h0; cases h0
        | some p =>
          obtain ⟨r1, s1⟩ := p
          have := (hs2 r1 s1 hp).1 r0 s0 h0
          have := j1 r1 s1 hp
          omega
      · intro t' ht' c hc
        rcases List.mem_cons.mp ht' with rfl | ht'
        · cases hp : pickStep size acc (lookup t') with
          | none => rw [hs3] at hp; rw [hp.2] at hc; cases hc
          | some p =>
            obtain ⟨r1, s1⟩ := p
            have := (hs2 r1 s1 hp).2 c hc
            have := j1 r1 s1 hp
            omega
        · exact j2 t' ht' c hc
    · rw [i3, hs3]
      constructor
      · rintro ⟨⟨a, b⟩, c⟩
        exact ⟨a, fun t' ht' => by rcases List.mem_cons.mp ht' with rfl | h; exact b; exact c t' h⟩
      · rintro ⟨a, b⟩
        exact ⟨⟨a, b t (by simp)⟩, fun t' ht' => b t' (by simp [ht'])⟩

/-- **the smallest stored completion wins**: the result is the lookup of one of the completions, no
completion's stored circuit is smaller, and nothing is returned only if no completion is stored -/
theorem lookupDC_spec {γ} (lookup : List Row → Option γ) (size : γ → Nat) (tt : List (List TEntry)) :
    (∀ r, lookupDC lookup size tt = some r →
      (∃ t ∈ completions tt, lookup t = some r) ∧ ∀ t ∈ completions tt, ∀ c, lookup t = some c → size r ≤ size c) ∧
    (lookupDC lookup size tt = none ↔ ∀ t ∈ completions tt, lookup t = none) := by
  obtain ⟨i1, i2, i3⟩ := pickFold_spec size lookup (completions tt) none (by intro r s h; cases h)
  simp only at i1 i2 i3
  unfold lookupDC
  constructor
  · intro r h
    cases hres : (completions tt).foldl (fun acc t => pickStep size acc (lookup t)) none with
    | none => rw [hres] at h; cases h
    | some p =>
      obtain ⟨r1, s1⟩ := p
      rw [hres] at h
      simp only [Option.map_some, Option.some.injEq] at h
      subst h
      obtain ⟨e, h1⟩ := i1 r1 s1 hres
      rcases h1 with h1 | h1
      · cases h1
      · refine ⟨h1, ?_⟩
        intro t ht c hc
        have := (i2 r1 s1 hres).2 t ht c hc
        omega
  · rw [Option.map_eq_none_iff, i3]; simp

end Norm
end Cirbo
