import Cirbo.Proofs.GenTotalW2
import Cirbo.Model.Gen3
import Cirbo.Proofs.GenSquare
/-!
# Totality of the multipliers and squarers built on partial products (`multiplication.py`, `square.py`)

`add_mul` (MulMode.DEFAULT), `add_mul_alter`, `add_mul_pow2_m1`, `add_square_pow2_m1`, `add_square` return on
operands that are gates of the circuit and have at least one bit (or stop because the label space is exhausted).
-/
namespace Cirbo
open GateType Circuit

/-! ## partial products -/

theorem m1_revIf_ne {l : List Label} {be : Bool} (h : l ≠ []) : revIf l be ≠ [] := by
  intro e
  have := congrArg List.length e
  rw [length_revIf_t] at this
  exact h (List.eq_nil_of_length_eq_zero this)

/-- one row of partial products -/
theorem m1_ok_ppRow {bi : Label} : ∀ (a acc : List Label) (st : GSt) (P K : List Label), Inv st P → Kn st K → bi ∈ K →
    (∀ l ∈ a, l ∈ K) → (∀ l ∈ acc, l ∈ K) →
    Ok (ppRow bi a acc) st (GPost P K id (fun r => r.length = acc.length + a.length)) := by
  intro a
  induction a with
  | nil =>
    intro acc st P K hinv hk _ _ hacc
    unfold ppRow
    exact Ok.ret ⟨hinv, fun l hl => hk l (by kmem), rfl⟩
  | cons aj r ih =>
    intro acc st P K hinv hk hb ha hacc
    unfold ppRow
    apply Ok.stepK (okK_emitTT hinv hk (by decide) (ha aj (by simp)) hb); intro g s1 i1 k1 _
    refine (ih (acc ++ [g]) s1 P (K ++ [g]) i1 k1 (by kmem) (by intro l hl; have := ha l (by simp [hl]); kmem)
      (by intro l hl; kmem)).mono ?_
    intro res s2 ⟨i2, k2, h2⟩
    refine ⟨i2, k2.mono (by intro l hl; kmem), ?_⟩
    simp only [List.length_append, List.length_cons, List.length_nil] at h2 ⊢
    omega

/-- all rows of partial products: one row per bit of `b`, every row as wide as `a` -/
theorem m1_ok_ppRows {a : List Label} : ∀ (b : List Label) (acc : List (List Label)) (st : GSt) (P K : List Label),
    Inv st P → Kn st K → (∀ l ∈ a, l ∈ K) → (∀ l ∈ b, l ∈ K) → (∀ l ∈ acc.flatten, l ∈ K) →
    (∀ r ∈ acc, r.length = a.length) →
    Ok (ppRows a b acc) st (GPost P K (fun r => r.flatten)
      (fun r => r.length = acc.length + b.length ∧ ∀ row ∈ r, row.length = a.length)) := by
  intro b
  induction b with
  | nil =>
    intro acc st P K hinv hk _ _ hacc hlen
    unfold ppRows
    exact Ok.ret ⟨hinv, fun l hl => hk l (by kmem), rfl, hlen⟩
  | cons bi r ih =>
    intro acc st P K hinv hk ha hb hacc hlen
    unfold ppRows
    apply Ok.stepK (m1_ok_ppRow a [] st P K hinv hk (hb bi (by simp)) ha (by intro l hl; cases hl)); intro row s1 i1 k1 hr
    simp only [id] at k1
    refine (ih (acc ++ [row]) s1 P (K ++ row) i1 k1 (by intro l hl; have := ha l hl; kmem)
      (by intro l hl; have := hb l (by simp [hl]); kmem)
      (by
        intro l hl
        simp only [List.flatten_append, List.flatten_cons, List.flatten_nil, List.append_nil, List.mem_append] at hl
        rcases hl with h | h
        · exact List.mem_append_left _ (hacc l h)
        · exact List.mem_append_right _ h)
      (by
        intro r' hr'
        rcases List.mem_append.mp hr' with h | h
        · exact hlen r' h
        · simp only [List.mem_singleton] at h; subst h
          simpa using hr)).mono ?_
    intro res s2 ⟨i2, k2, h2, h3⟩
    refine ⟨i2, k2.mono (by intro l hl; kmem), ?_, h3⟩
    simp only [List.length_append, List.length_cons, List.length_nil] at h2 ⊢
    omega

theorem m1_mem_ppWeighted {rows : List (List Label)} {x : Nat × Label} (h : x ∈ ppWeighted rows) : x.2 ∈ rows.flatten := by
  unfold ppWeighted at h
  obtain ⟨l, hl, hx⟩ := List.mem_flatten.mp h
  obtain ⟨ri, hri, rfl⟩ := List.mem_map.mp hl
  obtain ⟨lj, hlj, rfl⟩ := List.mem_map.mp hx
  obtain ⟨r, i⟩ := ri
  obtain ⟨y, j⟩ := lj
  have h1 : r ∈ rows := (List.mem_zipIdx hri).2.2 ▸ List.getElem_mem _
  have h2 : y ∈ r := (List.mem_zipIdx hlj).2.2 ▸ List.getElem_mem _
  exact List.mem_flatten.mpr ⟨r, h1, h2⟩

theorem m1_ppWeighted_ne {rows : List (List Label)} {r0 : List Label} {rs : List (List Label)} (h : rows = r0 :: rs)
    (h0 : r0 ≠ []) : ppWeighted rows ≠ [] := by
  subst h
  cases r0 with
  | nil => exact absurd rfl h0
  | cons y t => simp [ppWeighted, List.zipIdx_cons]

/-! ## `add_mul` (MulMode.DEFAULT) and `add_mul_alter` -/

/-- **`add_mul` returns** on operands of at least one bit each that are gates of the circuit, either endianness -/
theorem m1_ok_addMul {a b : List Label} {be : Bool} {st : GSt} {P K : List Label} (hinv : Inv st P) (hk : Kn st K)
    (ha : ∀ l ∈ a, l ∈ K) (hb : ∀ l ∈ b, l ∈ K) (hna : a ≠ []) (hnb : b ≠ []) :
    Ok (addMul a b be) st (GPost P K id (fun _ => True)) := by
  unfold addMul
  have hna' : revIf a be ≠ [] := m1_revIf_ne hna
  have hnb' : revIf b be ≠ [] := m1_revIf_ne hnb
  apply Ok.stepK (m1_ok_ppRows (a := revIf a be) (revIf b be) [] st P K hinv hk (fun l hl => ha l (mem_revIf.mp hl))
    (fun l hl => hb l (mem_revIf.mp hl)) (by intro l hl; cases hl) (by intro r hr; cases hr))
  intro rows s1 i1 k1 ⟨h1, h2⟩
  have hrows : ∃ r0 rs, rows = r0 :: rs := by
    cases rows with
    | nil =>
      exfalso
      have := sa_length_pos_of_ne hnb'
      simp only [List.length_nil, Nat.zero_add] at h1; omega
    | cons r0 rs => exact ⟨r0, rs, rfl⟩
  obtain ⟨r0, rs, e⟩ := hrows
  have hr0 : r0 ≠ [] := by
    intro e0
    have := h2 r0 (by rw [e]; simp)
    have := sa_length_pos_of_ne hna'
    rw [e0] at *; simp only [List.length_nil] at *; omega
  apply Ok.stepK (ok_addSumWeighted (ins := ppWeighted rows) (basis := .enum .xaig) i1 k1 (sa_resolve_enum .xaig)
    (m1_ppWeighted_ne e hr0) (fun x hx => List.mem_append_right _ (m1_mem_ppWeighted hx)))
  intro out s2 i2 k2 _
  refine Ok.ret ⟨i2, ?_, trivial⟩
  intro l hl
  simp only [id, List.mem_append, mem_revIf] at hl
  rcases hl with h | h
  · exact k2 l (by kmem)
  · exact k2 l (List.mem_append_right _ h)

/-- the accumulation loop of `add_mul_alter`: the running sum and every remaining row have a bit -/
theorem m1_ok_alterLoop : ∀ (rows : List (List Label)) (i : Nat) (res : List Label) (st : GSt) (P K : List Label),
    Inv st P → Kn st K → (∀ l ∈ rows.flatten, l ∈ K) → (∀ l ∈ res, l ∈ K) → (∀ r ∈ rows, r ≠ []) → res ≠ [] →
    Ok (alterLoop rows i res) st (GPost P K id (fun r => r ≠ [])) := by
  intro rows
  induction rows with
  | nil =>
    intro i res st P K hinv hk _ hres _ hne
    unfold alterLoop
    exact Ok.ret ⟨hinv, fun l hl => hk l (by kmem), hne⟩
  | cons row r ih =>
    intro i res st P K hinv hk hrows hres hrne hne
    unfold alterLoop
    have hrow : row ≠ [] := hrne row (by simp)
    apply Ok.stepK (ok_addSumTwoNumbersWithShift (shift := i) (be := false) hinv hk hres
      (fun l hl => hrows l (by simp [hl])) (fun _ => hne) (fun _ => hrow))
    intro res' s1 i1 k1 ⟨h1, h2⟩
    simp only [id] at k1
    have hne' : res' ≠ [] := by
      intro e
      have := sa_length_pos_of_ne hrow
      rw [e] at h1 h2
      simp only [List.length_nil] at h1 h2
      rcases Nat.lt_or_ge i res.length with h | h
      · have := h2 h; omega
      · have := h1 h; omega
    refine (ih (i + 1) res' s1 P (K ++ res') i1 k1 (by intro l hl; exact List.mem_append_left _ (hrows l (by simp [hl])))
      (by intro l hl; kmem) (fun r' hr' => hrne r' (by simp [hr'])) hne').mono ?_
    intro out s2 ⟨i2, k2, h3⟩
    exact ⟨i2, k2.mono (by intro l hl; kmem), h3⟩

/-- **`add_mul_alter` returns** on operands of at least one bit each that are gates of the circuit -/
theorem m1_ok_addMulAlter {a b : List Label} {be : Bool} {st : GSt} {P K : List Label} (hinv : Inv st P) (hk : Kn st K)
    (ha : ∀ l ∈ a, l ∈ K) (hb : ∀ l ∈ b, l ∈ K) (hna : a ≠ []) (hnb : b ≠ []) :
    Ok (addMulAlter a b be) st (GPost P K id (fun r => r ≠ [])) := by
  unfold addMulAlter
  have hna' : revIf a be ≠ [] := m1_revIf_ne hna
  have hnb' : revIf b be ≠ [] := m1_revIf_ne hnb
  apply Ok.stepK (m1_ok_ppRows (a := revIf a be) (revIf b be) [] st P K hinv hk (fun l hl => ha l (mem_revIf.mp hl))
    (fun l hl => hb l (mem_revIf.mp hl)) (by intro l hl; cases hl) (by intro r hr; cases hr))
  intro rows s1 i1 k1 ⟨h1, h2⟩
  have hrne : ∀ r ∈ rows, r ≠ [] := by
    intro r hr e
    have := h2 r hr
    have := sa_length_pos_of_ne hna'
    rw [e] at *; simp only [List.length_nil] at *; omega
  have hmem : ∀ r ∈ rows, ∀ l ∈ r, l ∈ K ++ rows.flatten :=
    fun r hr l hl => List.mem_append_right _ (List.mem_flatten.mpr ⟨r, hr, hl⟩)
  match rows, h1, hrne, hmem, k1 with
  | [], h1, _, _, _ =>
    exfalso
    have := sa_length_pos_of_ne hnb'
    simp only [List.length_nil, Nat.zero_add] at h1; omega
  | [r0], _, hrne, hmem, k1 =>
    refine Ok.ret ⟨i1, ?_, m1_revIf_ne (hrne r0 (by simp))⟩
    intro l hl
    simp only [id, List.mem_append, mem_revIf] at hl
    rcases hl with h | h
    · exact k1 l (by kmem)
    · exact k1 l (hmem r0 (by simp) l h)
  | r0 :: r1 :: rest, _, hrne, hmem, k1 =>
    simp only
    have hr0 := hrne r0 (by simp)
    have hr1 := hrne r1 (by simp)
    apply Ok.stepK (ok_addSumTwoNumbersWithShift (shift := 1) (be := false) i1 k1 (hmem r0 (by simp)) (hmem r1 (by simp))
      (fun _ => hr0) (fun _ => hr1))
    intro res s2 i2 k2 ⟨c1, c2⟩
    simp only [id] at k2
    have hne' : res ≠ [] := by
      intro e
      have := sa_length_pos_of_ne hr1
      rw [e] at c1 c2
      simp only [List.length_nil] at c1 c2
      rcases Nat.lt_or_ge 1 r0.length with h | h
      · have := c2 h; omega
      · have := c1 h; omega
    apply Ok.stepK (m1_ok_alterLoop rest 2 res s2 P _ i2 k2
      (by
        intro l hl
        obtain ⟨r, hr, hl'⟩ := List.mem_flatten.mp hl
        exact List.mem_append_left _ (hmem r (by simp [hr]) l hl'))
      (by intro l hl; kmem) (fun r hr => hrne r (by simp [hr])) hne')
    intro res' s3 i3 k3 h3
    refine Ok.ret ⟨i3, ?_, m1_revIf_ne h3⟩
    intro l hl
    simp only [id, List.mem_append, mem_revIf] at hl
    rcases hl with h | h
    · exact k3 l (by kmem)
    · exact k3 l (by kmem)

/-! ## `add_sum_pow2_m1` again: the shape of the columns it returns

The column loops below read `out[j][0][0]` and `out[j][i - j]`, so they need more than `r ≠ []`: the weight-1 column
is a single bit, no column is empty, and two operands or more give two columns or more (every chunk count and the
final half adder have at least two bits). -/

theorem m1_bitlen_ge2 {n : Nat} (h : 2 ≤ n) : 2 ≤ sa_bitlen n := by
  rw [sa_bitlen_half (by omega)]
  have := sa_bitlen_pos (n := n / 2) (by omega)
  omega

theorem m1_ok_pow2Chunk {basis : BasisArg} {b : Basis} (hb : basis.resolve = .ok b) (i : Nat) (hi : 3 ≤ i) :
    ∀ (fuel : Nat) (labels : List Label) (out : List (List Label)) (st : GSt) (P K : List Label), Inv st P → Kn st K →
    (∀ l ∈ labels, l ∈ K) → (∀ row ∈ out, ∀ l ∈ row, l ∈ K) → labels.length ≤ fuel →
    Ok (pow2Chunk basis i fuel labels out) st (GPost P K (fun r => r.1 ++ r.2.flatten)
      (fun r => r.1.length < i ∧ out.length ≤ r.2.length ∧ (i ≤ labels.length → out.length < r.2.length) ∧
        (labels.length < i → r.1 = labels) ∧ ((∀ row ∈ out, 2 ≤ row.length) → ∀ row ∈ r.2, 2 ≤ row.length))) := by
  intro fuel
  induction fuel with
  | zero =>
    intro labels out st P K hinv hk hl ho hf
    have : labels = [] := List.eq_nil_of_length_eq_zero (by omega)
    subst this
    unfold pow2Chunk
    have : ¬ (([] : List Label).length ≥ i) := by simp only [List.length_nil]; omega
    simp only [this, if_false]
    refine Ok.pure ⟨hinv, ?_, by simp only [List.length_nil]; omega, Nat.le_refl _,
      fun h => by first | exact h.elim | omega, fun _ => rfl, fun h => h⟩
    intro l hl'
    simp only [List.nil_append, List.mem_append, List.mem_flatten] at hl'
    rcases hl' with h | ⟨row, hrow, h⟩
    · exact hk l h
    · exact hk l (ho row hrow l h)
  | succ n ih =>
    intro labels out st P K hinv hk hl ho hf
    unfold pow2Chunk
    by_cases hge : labels.length ≥ i
    · simp only [hge, if_true]
      apply Ok.stepK (ok_addSumNBits (be := false) hinv hk (ins := labels.take i)
        (fun l h => hl l (List.mem_of_mem_take h)) hb)
      intro r s1 i1 k1 hr
      simp only [id] at k1
      have hlen : 2 ≤ r.length := by
        rw [hr]
        apply m1_bitlen_ge2
        simp only [List.length_take]; omega
      cases r with
      | nil => simp only [List.length_nil] at hlen; omega
      | cons r0 rt =>
        simp only
        refine (ih (labels.drop i ++ [r0]) (out ++ [r0 :: rt]) s1 P (K ++ (r0 :: rt)) i1 k1 ?_ ?_ ?_).mono ?_
        · intro l h
          rcases List.mem_append.mp h with h | h
          · exact List.mem_append_left _ (hl l (List.mem_of_mem_drop h))
          · simp only [List.mem_singleton] at h; subst h; simp
        · intro row hrow l h
          rcases List.mem_append.mp hrow with hrow | hrow
          · exact List.mem_append_left _ (ho row hrow l h)
          · simp only [List.mem_singleton] at hrow; subst hrow; exact List.mem_append_right _ h
        · simp only [List.length_append, List.length_drop, List.length_singleton]; omega
        · intro res s2 ⟨i2, k2, c1, c2, _, _, c5⟩
          refine ⟨i2, k2.mono (by intro l hl; kmem), c1, ?_, ?_, ?_, ?_⟩
          · simp only [List.length_append, List.length_singleton] at c2; omega
          · intro _; simp only [List.length_append, List.length_singleton] at c2; omega
          · intro h; omega
          · intro h
            apply c5
            intro row hrow
            rcases List.mem_append.mp hrow with hrow | hrow
            · exact h row hrow
            · simp only [List.mem_singleton] at hrow; subst hrow; exact hlen
    · simp only [hge, if_false]
      refine Ok.pure ⟨hinv, ?_, by show labels.length < i; omega, Nat.le_refl _, fun h => by first | exact h.elim | omega, fun _ => rfl, fun h => h⟩
      intro l hl'
      simp only [List.mem_append, List.mem_flatten] at hl'
      rcases hl' with h | h | ⟨row, hrow, h⟩
      · exact hk l h
      · exact hk l (hl l h)
      · exact hk l (ho row hrow l h)

theorem m1_ok_pow2Pass {basis : BasisArg} {b : Basis} (hb : basis.resolve = .ok b)
    (labels : List Label) (out : List (List Label)) (st : GSt) (P K : List Label) (hinv : Inv st P) (hk : Kn st K)
    (hl : ∀ l ∈ labels, l ∈ K) (ho : ∀ row ∈ out, ∀ l ∈ row, l ∈ K) :
    Ok (pow2Pass basis labels out) st (GPost P K (fun r => r.1 ++ r.2.flatten)
      (fun r => r.1.length < 3 ∧ out.length ≤ r.2.length ∧ (3 ≤ labels.length → out.length < r.2.length) ∧
        ((∀ row ∈ out, 2 ≤ row.length) → ∀ row ∈ r.2, 2 ≤ row.length))) := by
  have memf : ∀ {K' : List Label} {l1 : List Label} {o1 : List (List Label)} (l : Label), l ∈ l1 → l ∈ K' ++ (l1 ++ o1.flatten) :=
    fun l h => List.mem_append_right _ (List.mem_append_left _ h)
  have memr : ∀ {K' : List Label} {l1 : List Label} {o1 : List (List Label)} (row : List Label), row ∈ o1 → ∀ l ∈ row,
      l ∈ K' ++ (l1 ++ o1.flatten) :=
    fun row hrow l h => List.mem_append_right _ (List.mem_append_right _ (List.mem_flatten.mpr ⟨row, hrow, h⟩))
  unfold pow2Pass
  apply Ok.stepK (m1_ok_pow2Chunk hb 31 (by omega) labels.length labels out st P K hinv hk hl ho (Nat.le_refl _))
  intro r1 s1 i1 k1 ⟨_, a2, a3, a4, a5⟩
  obtain ⟨l1, o1⟩ := r1
  simp only at k1 a2 a3 a4 a5 ⊢
  apply Ok.stepK (m1_ok_pow2Chunk hb 15 (by omega) l1.length l1 o1 s1 P _ i1 k1 memf memr (Nat.le_refl _))
  intro r2 s2 i2 k2 ⟨_, b2, b3, b4, b5⟩
  obtain ⟨l2, o2⟩ := r2
  simp only at k2 b2 b3 b4 b5 ⊢
  apply Ok.stepK (m1_ok_pow2Chunk hb 7 (by omega) l2.length l2 o2 s2 P _ i2 k2 memf memr (Nat.le_refl _))
  intro r3 s3 i3 k3 ⟨_, c2, c3, c4, c5⟩
  obtain ⟨l3, o3⟩ := r3
  simp only at k3 c2 c3 c4 c5 ⊢
  refine (m1_ok_pow2Chunk hb 3 (by omega) l3.length l3 o3 s3 P _ i3 k3 memf memr (Nat.le_refl _)).mono ?_
  intro r4 s4 ⟨i4, k4, d1, d2, d3, _, d5⟩
  refine ⟨i4, k4.mono (by intro l hl; kmem), d1, by omega, ?_, fun h => d5 (c5 (b5 (a5 h)))⟩
  intro h3
  by_cases h31 : 31 ≤ labels.length
  · have := a3 h31; omega
  · have e1 : l1 = labels := a4 (by omega)
    subst e1
    by_cases h15 : 15 ≤ l1.length
    · have := b3 h15; omega
    · have e2 : l2 = l1 := b4 (by omega)
      subst e2
      by_cases h7 : 7 ≤ l2.length
      · have := c3 h7; omega
      · have e3 : l3 = l2 := c4 (by omega)
        subst e3
        have := d3 h3; omega

/-- `zip_longest` + `filter(None, ·)` makes no empty column -/
theorem m1_transpose_ne : ∀ (fuel : Nat) (rows : List (List Label)), ∀ col ∈ transposeRagged rows fuel, col ≠ [] := by
  intro fuel
  induction fuel with
  | zero => intro rows col hc; simp [transposeRagged] at hc
  | succ n ih =>
    intro rows col hc
    unfold transposeRagged at hc
    split at hc
    · cases hc
    · rename_i hall
      rcases List.mem_cons.mp hc with rfl | hc
      · intro e
        apply hall
        rw [List.all_eq_true]
        intro row hrow
        cases row with
        | nil => rfl
        | cons x t =>
          exfalso
          have : x ∈ List.filterMap (·.head?) rows := List.mem_filterMap.mpr ⟨x :: t, hrow, rfl⟩
          rw [e] at this; cases this
      · exact ih _ col hc

/-- rows of two labels or more give two columns or more -/
theorem m1_transpose_two (rows : List (List Label)) (n : Nat) (hne : rows ≠ []) (hrow : ∀ row ∈ rows, 2 ≤ row.length) :
    ∃ c0 c1 rest z, transposeRagged rows (n + 2) = c0 :: c1 :: rest ∧ c0.getLast? = some z := by
  obtain ⟨c0, rest, z, e1, e2⟩ := wb_transpose_first rows (n + 1) hne (fun row hr e => by
    have := hrow row hr; rw [e] at this; simp at this)
  have hne' : rows.map List.tail ≠ [] := by
    intro e; exact hne (List.map_eq_nil_iff.mp e)
  obtain ⟨c1, rest', z', e1', _⟩ := wb_transpose_first (rows.map List.tail) n hne' (fun row hr e => by
    obtain ⟨row', hr', rfl⟩ := List.mem_map.mp hr
    have := hrow row' hr'
    have h0 := congrArg List.length e
    simp only [List.length_tail, List.length_nil] at h0; omega)
  rw [transposeRagged] at e1
  split at e1
  · cases e1
  · simp only [List.cons.injEq] at e1
    obtain ⟨rfl, rfl⟩ := e1
    refine ⟨_, c1, rest', z, ?_, e2⟩
    rw [transposeRagged]
    rename_i hall
    rw [if_neg hall, e1']

/-- the columns returned by `add_sum_pow2_m1` -/
def m1_ColOK (o : List (List Label)) : Prop := ∃ z rest, o = [z] :: rest ∧ ∀ c ∈ rest, c ≠ []

theorem m1_ok_addSumPow2M1 {ins : List Label} {be : Bool} {basis : BasisArg} {b : Basis} {st : GSt} {P K : List Label}
    (hinv : Inv st P) (hk : Kn st K) (hb : basis.resolve = .ok b) (hne : ins ≠ []) (hi : ∀ l ∈ ins, l ∈ K) :
    Ok (addSumPow2M1 ins be basis) st (GPost P K (fun r => r.flatten)
      (fun r => m1_ColOK r ∧ (2 ≤ ins.length → 2 ≤ r.length))) := by
  unfold addSumPow2M1
  cases ins with
  | nil => exact absurd rfl hne
  | cons x xs =>
    simp only
    rw [hb]
    simp only
    cases xs with
    | nil =>
      refine Ok.pure ⟨hinv, fun l hl => hk l (by simp at hl; rcases hl with h | h; exact h; exact h ▸ hi x (by simp)),
        ⟨x, [], rfl, by intro c hc; cases hc⟩, fun h => by simp at h⟩
    | cons y ys =>
      simp only
      have h1 : Ok (if (x :: y :: ys).length > 2 then pow2Pass (BasisArg.enum b) (x :: y :: ys) [] else pure (x :: y :: ys, []))
          st (GPost P K (fun r => r.1 ++ r.2.flatten)
            (fun r => r.1.length ≤ 2 ∧ (∀ row ∈ r.2, 2 ≤ row.length) ∧ (r.2 = [] → r.1.length = 2))) := by
        by_cases hlen : (x :: y :: ys).length > 2
        · rw [if_pos hlen]
          refine (m1_ok_pow2Pass (b := b) rfl (x :: y :: ys) [] st P K hinv hk hi (by intro row hrow; cases hrow)).mono ?_
          intro r s ⟨i, k, a1, _, a3, a4⟩
          refine ⟨i, k, by omega, a4 (by intro row hrow; cases hrow), fun e => ?_⟩
          have := a3 (by omega)
          rw [e] at this
          simp at this
        · rw [if_neg hlen]
          have hys : ys = [] := by
            cases ys with
            | nil => rfl
            | cons _ _ => simp only [List.length_cons] at hlen; omega
          subst hys
          refine Ok.ret ⟨hinv, ?_, Nat.le_refl _, fun row hrow => (by cases hrow), fun _ => rfl⟩
          intro l hl
          simp only [List.flatten_nil, List.append_nil, List.mem_append] at hl
          rcases hl with h | h
          · exact hk l h
          · exact hk l (hi l h)
      apply Ok.stepK h1
      intro r1 s1 i1 k1 ⟨a1, a2, a3⟩
      obtain ⟨l1, o1⟩ := r1
      simp only at k1 a1 a2 a3 ⊢
      refine Ok.bind (Q := fun r st' => Inv st' P ∧ Kn st' (K ++ r.2.flatten) ∧ r.2 ≠ [] ∧ ∀ row ∈ r.2, 2 ≤ row.length) ?_ ?_
      · have hpass : l1.length ≠ 2 → Ok (Pure.pure (l1, o1) : Prog (List Label × List (List Label))) s1
            (fun r st' => Inv st' P ∧ Kn st' (K ++ r.2.flatten) ∧ r.2 ≠ [] ∧ ∀ row ∈ r.2, 2 ≤ row.length) := by
          intro h2
          exact Ok.ret ⟨i1, k1.mono (by intro l hl; kmem), fun e => h2 (a3 e), a2⟩
        rcases l1 with _ | ⟨a, _ | ⟨c, _ | ⟨d, rest⟩⟩⟩
        · exact hpass (by simp)
        · exact hpass (by simp)
        · simp only
          have hblk : Ok (match b with | Basis.aig => addSum2Aig [a, c] | Basis.xaig => addSum2 [a, c]) s1
              (GPost P (K ++ ([a, c] ++ o1.flatten)) id (fun r => r.length = 2)) := by
            cases b with
            | aig => exact sa_blk2_addSum2Aig a c s1 P _ i1 k1 (by simp) (by simp)
            | xaig => exact blk2_addSum2 a c s1 P _ i1 k1 (by simp) (by simp)
          apply Ok.stepK hblk
          intro r s2 i2 k2 hr
          simp only [id] at k2
          refine Ok.ret ⟨i2, ?_, by simp, ?_⟩
          · intro l hl
            simp only [List.mem_append, List.flatten_append, List.flatten_cons, List.flatten_nil, List.append_nil] at hl
            rcases hl with h | h | h
            · exact k2 l (by kmem)
            · exact k2 l (by kmem)
            · exact k2 l (by kmem)
          · intro row hrow
            rcases List.mem_append.mp hrow with h | h
            · exact a2 row h
            · simp only [List.mem_singleton] at h
              subst h
              omega
        · simp only [List.length_cons] at a1; omega
      · intro r2 s2 ⟨i2, k2, b1, b2⟩
        obtain ⟨mx, hmx⟩ : ∃ mx, (r2.2.map (fun x => x.length)).foldl max 0 = mx + 1 := by
          obtain ⟨row, hrow⟩ := List.exists_mem_of_ne_nil _ b1
          have h2 := b2 row hrow
          have := (le_foldl_max (r2.2.map (fun x => x.length)) 0).2 row.length (List.mem_map_of_mem hrow)
          exact ⟨(r2.2.map (fun x => x.length)).foldl max 0 - 1, by omega⟩
        obtain ⟨c0, c1, rest, z, e1, e2⟩ := m1_transpose_two r2.2 mx b1 b2
        rw [hmx, e1]
        simp only
        rw [e2]
        simp only
        have hcne : ∀ col ∈ c0 :: c1 :: rest, col ≠ [] := by
          intro col hcol; rw [← e1] at hcol; exact m1_transpose_ne _ _ col hcol
        refine Ok.ret ⟨i2, ?_, ⟨z, (c1 :: rest).map (fun col => revIf col be), by cases be <;> simp [revIf], ?_⟩,
          fun _ => by simp⟩
        · have hcol : ∀ col ∈ c0 :: c1 :: rest, ∀ l ∈ col, l ∈ r2.2.flatten := by
            intro col hcol l hl
            rw [← e1] at hcol
            obtain ⟨row, hrow, h⟩ := wb_mem_transpose _ _ col hcol l hl
            exact List.mem_flatten.mpr ⟨row, hrow, h⟩
          intro l hl
          rcases List.mem_append.mp hl with h | h
          · exact k2 l (List.mem_append_left _ h)
          · obtain ⟨col', hcol', hl'⟩ := List.mem_flatten.mp h
            obtain ⟨col, hc, rfl⟩ := List.mem_map.mp hcol'
            have hl'' := mem_revIf.mp hl'
            rcases List.mem_cons.mp hc with rfl | hc
            · simp only [List.mem_singleton] at hl''
              subst hl''
              exact k2 _ (List.mem_append_right _ (hcol c0 (by simp) _ (List.mem_of_getLast? e2)))
            · exact k2 _ (List.mem_append_right _ (hcol col (List.mem_cons_of_mem _ hc) l hl''))
        · intro c hc
          obtain ⟨col, hcol, rfl⟩ := List.mem_map.mp hc
          exact m1_revIf_ne (hcne col (List.mem_cons_of_mem _ hcol))

/-! ## the column loop of `add_mul_pow2_m1` / `add_square_pow2_m1` -/

theorem m1_mem_getD {o : List (List Label)} {k : Nat} {l : Label} (h : l ∈ o.getD k []) : l ∈ o.flatten := by
  rw [List.getD_eq_getElem?_getD] at h
  cases hk : o[k]? with
  | none => rw [hk] at h; cases h
  | some c =>
    rw [hk] at h
    exact List.mem_flatten.mpr ⟨c, List.mem_of_getElem? hk, h⟩

theorem m1_mem_carriedInto {out : List (List (List Label))} {i : Nat} {l : Label} (h : l ∈ carriedInto out i) :
    l ∈ out.flatten.flatten := by
  unfold carriedInto at h
  obtain ⟨c, hc, hl⟩ := List.mem_flatten.mp h
  obtain ⟨oj, hoj, rfl⟩ := List.mem_map.mp hc
  obtain ⟨o, j⟩ := oj
  have ho : o ∈ out := (List.mem_zipIdx hoj).2.2 ▸ List.getElem_mem _
  simp only at hl
  split at hl
  · obtain ⟨c', hc', hl'⟩ := List.mem_flatten.mp (m1_mem_getD hl)
    exact List.mem_flatten.mpr ⟨c', List.mem_flatten.mpr ⟨o, ho, hc'⟩, hl'⟩
  · cases hl

/-- the previous column, when it has a second (non-empty) column, pushes a bit to weight `i` -/
theorem m1_carriedInto_ne {pre : List (List (List Label))} {c0 c1 : List Label} {rest : List (List Label)} {i : Nat}
    (hlen : pre.length + 1 = i) (hc1 : c1 ≠ []) : carriedInto (pre ++ [c0 :: c1 :: rest]) i ≠ [] := by
  unfold carriedInto
  rw [List.zipIdx_append, List.map_append, List.flatten_append]
  apply List.append_ne_nil_of_right_ne_nil
  have h1 : (pre.length < i && pre.length + (c0 :: c1 :: rest).length > i) = true := by
    simp only [List.length_cons, Bool.and_eq_true, decide_eq_true_eq]; omega
  have h2 : i - pre.length = 1 := by omega
  simp only [List.zipIdx_cons, List.zipIdx_nil, List.map_cons, List.map_nil, Nat.zero_add, h1, if_true, h2,
    List.flatten_cons, List.flatten_nil, List.append_nil]
  exact hc1

/-- **the column loop returns** when every column is known to receive a bit: `g i` is a lower bound on the number
of bits of column `i` — the operand bits `own i`, plus one carried bit when the column before had two bits or more
(two bits or more always give a second column).  The contract of `add_sum_pow2_m1` needs a non-empty list. -/
theorem m1_ok_pow2Columns {own : Nat → List Label} {basis : BasisArg} {b : Basis} (hb : basis.resolve = .ok b)
    (g : Nat → Nat) (s0 : Nat) :
    ∀ (idx : List Nat) (out : List (List (List Label))) (s : Nat) (st : GSt) (P K : List Label), Inv st P → Kn st K →
    idx = List.range' s idx.length → out.length = s → (∀ o ∈ out, m1_ColOK o) →
    (∀ l ∈ out.flatten.flatten, l ∈ K) → (∀ i ∈ idx, ∀ l ∈ own i, l ∈ K) →
    (∀ i ∈ idx, 1 ≤ g i ∧ (g i ≤ (own i).length ∨ (g i ≤ (own i).length + 1 ∧ s0 < i ∧ 2 ≤ g (i - 1)))) →
    (s0 < s → 2 ≤ g (s - 1) → ∃ pre o, out = pre ++ [o] ∧ 2 ≤ o.length) →
    Ok (pow2Columns own basis idx out) st (GPost P K (fun r => r.flatten.flatten)
      (fun r => r.length = s + idx.length ∧ ∀ o ∈ r, m1_ColOK o)) := by
  intro idx
  induction idx with
  | nil =>
    intro out s st P K hinv hk _ hl hs hmem _ _ _
    unfold pow2Columns
    exact Ok.ret ⟨hinv, fun l hl' => hk l (by kmem), by simpa using hl, hs⟩
  | cons i r ih =>
    intro out s st P K hinv hk hidx hl hs hmem hown hg hflag
    simp only [List.length_cons, List.range'_succ, List.cons.injEq] at hidx
    obtain ⟨his, hr⟩ := hidx
    obtain ⟨hg1, hg2⟩ := hg i (by simp)
    have hcnt : g i ≤ (own i ++ carriedInto out i).length := by
      rw [List.length_append]
      rcases hg2 with h | ⟨h, h0, h2⟩
      · omega
      · obtain ⟨pre, o, e, ho2⟩ := hflag (by omega) (by rw [← his]; exact h2)
        obtain ⟨z, rest, eo, hrest⟩ := hs o (by rw [e]; simp)
        subst eo
        cases rest with
        | nil => simp only [List.length_cons, List.length_nil] at ho2; omega
        | cons c1 rest' =>
          have hne := m1_carriedInto_ne (pre := pre) (c0 := [z]) (c1 := c1) (rest := rest') (i := i)
            (by rw [e] at hl; simp only [List.length_append, List.length_cons, List.length_nil] at hl; omega)
            (hrest c1 (by simp))
          rw [← e] at hne
          have := sa_length_pos_of_ne hne
          omega
    have hinpK : ∀ l ∈ own i ++ carriedInto out i, l ∈ K := by
      intro l hl'
      rcases List.mem_append.mp hl' with h | h
      · exact hown i (by simp) l h
      · exact hmem l (m1_mem_carriedInto h)
    have hown' : ∀ i' ∈ r, ∀ l ∈ own i', l ∈ K := fun i' hi' => hown i' (by simp [hi'])
    have hg' : ∀ i' ∈ r, 1 ≤ g i' ∧ (g i' ≤ (own i').length ∨ (g i' ≤ (own i').length + 1 ∧ s0 < i' ∧ 2 ≤ g (i' - 1))) :=
      fun i' hi' => hg i' (by simp [hi'])
    simp only [pow2Columns]
    split
    · rename_i x hx
      rw [hx] at hcnt hinpK
      refine (ih (out ++ [[[x]]]) (s + 1) st P K hinv hk hr (by simp [hl]) ?_ ?_ hown' hg' ?_).mono ?_
      · intro o ho
        rcases List.mem_append.mp ho with h | h
        · exact hs o h
        · simp only [List.mem_singleton] at h; subst h
          exact ⟨x, [], rfl, by intro c hc; cases hc⟩
      · intro l hl'
        simp only [List.flatten_append, List.flatten_cons, List.flatten_nil, List.append_nil, List.mem_append,
          List.mem_singleton] at hl'
        rcases hl' with h | h
        · exact hmem l h
        · subst h; exact hinpK l (by simp)
      · intro _ h2
        exfalso
        simp only [Nat.add_sub_cancel, List.length_cons, List.length_nil] at h2 hcnt
        rw [← his] at h2; omega
      · intro res s2 ⟨i2, k2, h1, h2⟩
        exact ⟨i2, k2, by rw [h1]; simp only [List.length_cons]; omega, h2⟩
    · rename_i hnot
      have hlen2 : 2 ≤ (own i ++ carriedInto out i).length := by
        rcases hinp : own i ++ carriedInto out i with _ | ⟨x, _ | ⟨y, t⟩⟩
        · rw [hinp] at hcnt; simp only [List.length_nil] at hcnt; omega
        · exact absurd hinp (hnot x)
        · simp
      have hne : own i ++ carriedInto out i ≠ [] := by
        intro e; rw [e] at hlen2; simp at hlen2
      apply Ok.stepK (m1_ok_addSumPow2M1 (be := false) hinv hk hb hne hinpK)
      intro o s1 i1 k1 ⟨hcol, h2⟩
      refine (ih (out ++ [o]) (s + 1) s1 P (K ++ o.flatten) i1 k1 hr (by simp [hl]) ?_ ?_
        (fun i' hi' l hl' => List.mem_append_left _ (hown' i' hi' l hl')) hg' ?_).mono ?_
      · intro o' ho
        rcases List.mem_append.mp ho with h | h
        · exact hs o' h
        · simp only [List.mem_singleton] at h; subst h; exact hcol
      · intro l hl'
        simp only [List.flatten_append, List.flatten_cons, List.flatten_nil, List.append_nil, List.mem_append] at hl' ⊢
        rcases hl' with h | h
        · exact Or.inl (hmem l h)
        · exact Or.inr h
      · intro _ _
        exact ⟨out, o, rfl, h2 hlen2⟩
      · intro res s2 ⟨i2, k2, h1, h3⟩
        exact ⟨i2, k2.mono (by intro l hl; kmem), by rw [h1]; simp only [List.length_cons]; omega, h3⟩

/-- `firstBits`: `[o[0][0] for o in out]` -/
theorem m1_ok_fbFold {st : GSt} : ∀ (c : List (List (List Label))) (acc : Prog (List Label)) (Q : List Label → Prop),
    Ok acc st (fun l st' => st' = st ∧ Q l) → (∀ o ∈ c, m1_ColOK o) →
    Ok (c.foldl fbStep acc) st (fun r st' => st' = st ∧ ∃ l hs, Q l ∧ r = l ++ hs ∧ hs.length = c.length ∧
      ∀ x ∈ hs, x ∈ c.flatten.flatten) := by
  intro c
  induction c with
  | nil =>
    intro acc Q hacc _
    refine hacc.mono ?_
    intro l st' ⟨e, hq⟩
    exact ⟨e, l, [], hq, by simp, rfl, by intro x hx; cases hx⟩
  | cons o t ih =>
    intro acc Q hacc hc
    simp only [List.foldl_cons]
    obtain ⟨z, rest, eo, _⟩ := hc o (by simp)
    have hstep : Ok (fbStep acc o) st (fun l st' => st' = st ∧ ∃ l0, Q l0 ∧ l = l0 ++ [z]) := by
      unfold fbStep
      apply Ok.bind hacc
      intro l st' ⟨e, hq⟩
      subst e
      subst eo
      exact Ok.ret ⟨rfl, l, hq, rfl⟩
    refine (ih (fbStep acc o) _ hstep (fun o' ho' => hc o' (by simp [ho']))).mono ?_
    intro r st' ⟨e, l, hs, ⟨l0, hq, el⟩, er, hlen, hmem⟩
    refine ⟨e, l0, z :: hs, hq, by rw [er, el]; simp, by simp [hlen], ?_⟩
    intro x hx
    rcases List.mem_cons.mp hx with rfl | hx
    · subst eo; simp
    · have := hmem x hx
      simp only [List.flatten_cons, List.flatten_append, List.mem_append]
      exact Or.inr this

theorem m1_ok_firstBits {out : List (List (List Label))} {st : GSt} {P K : List Label} (hinv : Inv st P) (hk : Kn st K)
    (hmem : ∀ l ∈ out.flatten.flatten, l ∈ K) (hc : ∀ o ∈ out, m1_ColOK o) :
    Ok (firstBits out) st (GPost P K id (fun r => r.length = out.length)) := by
  have h := m1_ok_fbFold (st := st) out (pure []) (fun l => l = []) (Ok.ret ⟨rfl, rfl⟩) hc
  refine Ok.mono (p := firstBits out) h ?_
  intro r st' ⟨e, l, hs, el, er, hlen, hm⟩
  subst e; subst el
  simp only [List.nil_append] at er
  subst er
  refine ⟨hinv, ?_, hlen⟩
  intro l hl
  rcases List.mem_append.mp hl with h | h
  · exact hk l h
  · exact hk l (hmem l (hm l h))

/-! ## `add_mul_pow2_m1` -/

def m1_hdStep (acc : Prog (List Label)) (row : List Label) : Prog (List Label) := do
  let l ← acc
  match row with
  | x :: _ => pure (l ++ [x])
  | [] => .fail "Py:IndexError"

theorem m1_ok_hdFold {st : GSt} : ∀ (c : List (List Label)) (acc : Prog (List Label)) (Q : List Label → Prop),
    Ok acc st (fun l st' => st' = st ∧ Q l) → (∀ r ∈ c, r ≠ []) →
    Ok (c.foldl m1_hdStep acc) st (fun r st' => st' = st ∧ ∃ l hs, Q l ∧ r = l ++ hs ∧ hs.length = c.length ∧
      ∀ x ∈ hs, x ∈ c.flatten) := by
  intro c
  induction c with
  | nil =>
    intro acc Q hacc _
    refine hacc.mono ?_
    intro l st' ⟨e, hq⟩
    exact ⟨e, l, [], hq, by simp, rfl, by intro x hx; cases hx⟩
  | cons o t ih =>
    intro acc Q hacc hc
    simp only [List.foldl_cons]
    obtain ⟨z, rest, eo⟩ : ∃ z rest, o = z :: rest := by
      cases o with
      | nil => exact absurd rfl (hc [] (by simp))
      | cons z rest => exact ⟨z, rest, rfl⟩
    have hstep : Ok (m1_hdStep acc o) st (fun l st' => st' = st ∧ ∃ l0, Q l0 ∧ l = l0 ++ [z]) := by
      unfold m1_hdStep
      apply Ok.bind hacc
      intro l st' ⟨e, hq⟩
      subst e
      subst eo
      exact Ok.ret ⟨rfl, l, hq, rfl⟩
    refine (ih (m1_hdStep acc o) _ hstep (fun o' ho' => hc o' (by simp [ho']))).mono ?_
    intro r st' ⟨e, l, hs, ⟨l0, hq, el⟩, er, hlen, hmem⟩
    refine ⟨e, l0, z :: hs, hq, by rw [er, el]; simp, by simp [hlen], ?_⟩
    intro x hx
    rcases List.mem_cons.mp hx with rfl | hx
    · subst eo; simp
    · have := hmem x hx
      simp only [List.flatten_cons, List.mem_append]
      exact Or.inr this

/-- `[row[0] for row in rows]` returns when no row is empty -/
theorem m1_ok_heads {c : List (List Label)} {st : GSt} {P K : List Label} (hinv : Inv st P) (hk : Kn st K)
    (hmem : ∀ l ∈ c.flatten, l ∈ K) (hc : ∀ r ∈ c, r ≠ []) :
    Ok (heads c) st (GPost P K id (fun r => r.length = c.length)) := by
  have h := m1_ok_hdFold (st := st) c (pure []) (fun l => l = []) (Ok.ret ⟨rfl, rfl⟩) hc
  refine Ok.mono (p := heads c) h ?_
  intro r st' ⟨e, l, hs, el, er, hlen, hm⟩
  subst e; subst el
  simp only [List.nil_append] at er
  subst er
  refine ⟨hinv, ?_, hlen⟩
  intro l hl
  rcases List.mem_append.mp hl with h | h
  · exact hk l h
  · exact hk l (hmem l (hm l h))

theorem m1_filter_range_ne {p : Nat → Bool} {N j : Nat} (hj : j < N) (hp : p j = true) : (List.range N).filter p ≠ [] := by
  intro e
  have : j ∈ (List.range N).filter p := List.mem_filter.mpr ⟨List.mem_range.mpr hj, hp⟩
  rw [e] at this; cases this

theorem m1_filter_range_two {p : Nat → Bool} : ∀ {N a b : Nat}, a < b → b < N → p a = true → p b = true →
    2 ≤ ((List.range N).filter p).length := by
  intro N
  induction N with
  | zero => intro a b _ hb; omega
  | succ N ih =>
    intro a b hab hb pa pb
    rw [List.range_succ, List.filter_append, List.length_append]
    by_cases hbN : b = N
    · subst hbN
      have h1 := sa_length_pos_of_ne (m1_filter_range_ne (p := p) hab pa)
      simp only [List.filter_cons, pb, if_true, List.filter_nil, List.length_cons, List.length_nil]
      omega
    · have := ih hab (by omega) pa pb
      omega

theorem m1_entry_mem {rows : List (List Label)} {j k : Nat} (hj : j < rows.length) (hk : k < (rows.getD j []).length) :
    (rows.getD j []).getD k PH ∈ rows.flatten := by
  have h1 : rows.getD j [] = rows[j] := by
    rw [List.getD_eq_getElem?_getD, List.getElem?_eq_getElem hj]; rfl
  rw [h1] at hk ⊢
  have h2 : rows[j].getD k PH = rows[j][k] := by
    rw [List.getD_eq_getElem?_getD, List.getElem?_eq_getElem hk]; rfl
  rw [h2]
  exact List.mem_flatten.mpr ⟨rows[j], List.getElem_mem _, List.getElem_mem _⟩

theorem m1_getD_len {rows : List (List Label)} {n j : Nat} (h : ∀ r ∈ rows, r.length = n) (hj : j < rows.length) :
    (rows.getD j []).length = n := by
  have h1 : rows.getD j [] = rows[j] := by
    rw [List.getD_eq_getElem?_getD, List.getElem?_eq_getElem hj]; rfl
  rw [h1]; exact h _ (List.getElem_mem _)

theorem m1_mem_mulOwn {rows : List (List Label)} {n m w : Nat} (hl : rows.length = m) (hr : ∀ r ∈ rows, r.length = n)
    {l : Label} (h : l ∈ mulOwn rows n m w) : l ∈ rows.flatten := by
  unfold mulOwn at h
  obtain ⟨j, hj, rfl⟩ := List.mem_map.mp h
  have hp := (List.mem_filter.mp hj).2
  simp only [Bool.and_eq_true, decide_eq_true_eq] at hp
  exact m1_entry_mem (by omega) (by rw [m1_getD_len hr (by omega)]; exact hp.2)

theorem m1_mulOwn_ne {rows : List (List Label)} {n m w : Nat} (hn : 1 ≤ n) (hm : 1 ≤ m) (hw : w + 1 < n + m) :
    1 ≤ (mulOwn rows n m w).length := by
  unfold mulOwn
  rw [List.length_map]
  apply sa_length_pos_of_ne
  apply m1_filter_range_ne (j := min w (m - 1)) (by omega)
  simp only [Bool.and_eq_true, decide_eq_true_eq]
  omega

theorem m1_mulOwn_two {rows : List (List Label)} {n m w : Nat} (hn : 2 ≤ n) (hm : 2 ≤ m) (hw : w + 3 = n + m) :
    2 ≤ (mulOwn rows n m w).length := by
  unfold mulOwn
  rw [List.length_map]
  apply m1_filter_range_two (a := m - 2) (b := m - 1) (by omega) (by omega)
  · simp only [Bool.and_eq_true, decide_eq_true_eq]; omega
  · simp only [Bool.and_eq_true, decide_eq_true_eq]; omega

theorem m1_drop_range (N k : Nat) : (List.range N).drop k = List.range' k (N - k) := by
  rw [List.range_eq_range', List.drop_range']; simp

/-- **`add_mul_pow2_m1` on little-endian operands returns** (operands of at least one bit each, gates of the circuit).
The top column `n + m - 1` has no operand bit: it is fed by the carry of column `n + m - 2`, which has one operand bit
and the carry of column `n + m - 3`, which has two operand bits. -/
theorem m1_ok_mulPow2M1Core {a b : List Label} {st : GSt} {P K : List Label} (hinv : Inv st P) (hk : Kn st K)
    (ha : ∀ l ∈ a, l ∈ K) (hb : ∀ l ∈ b, l ∈ K) (hna : a ≠ []) (hnb : b ≠ []) :
    Ok (mulPow2M1Core a b) st (GPost P K id (fun r => r.length =
      if a.length = 1 then b.length else if b.length = 1 then a.length else a.length + b.length)) := by
  have hn := sa_length_pos_of_ne hna
  have hm := sa_length_pos_of_ne hnb
  unfold mulPow2M1Core
  apply Ok.stepK (m1_ok_ppRows (a := a) b [] st P K hinv hk ha hb (by intro l hl; cases hl) (by intro r hr; cases hr))
  intro rows s1 i1 k1 ⟨h1, h2⟩
  simp only [List.length_nil, Nat.zero_add] at h1
  have hmem : ∀ l ∈ rows.flatten, l ∈ K ++ rows.flatten := fun l hl => List.mem_append_right _ hl
  have hrne : ∀ r ∈ rows, r ≠ [] := by
    intro r hr e
    have := h2 r hr
    rw [e] at this; simp only [List.length_nil] at this; omega
  dsimp only
  by_cases hn1 : a.length = 1
  · simp only [hn1, beq_self_eq_true, if_true]
    refine (m1_ok_heads i1 k1 hmem hrne).mono ?_
    intro r s2 ⟨i2, k2, h3⟩
    exact ⟨i2, k2.mono (by intro l hl; kmem), by dsimp only; rw [h3, h1]⟩
  · have hbeq : (a.length == 1) = false := by simpa using hn1
    simp only [hbeq, Bool.false_eq_true, if_false, hn1]
    by_cases hm1 : b.length = 1
    · simp only [hm1, beq_self_eq_true, if_true]
      match rows, h1, h2, hmem, k1 with
      | [], h1, _, _, _ => simp only [List.length_nil] at h1; omega
      | r0 :: rs, _, h2, hmem, k1 =>
        refine Ok.pure ⟨i1, ?_, h2 r0 (by simp)⟩
        intro l hl
        simp only [id, List.mem_append] at hl
        rcases hl with h | h
        · exact k1 l (by kmem)
        · exact k1 l (hmem l (by simp [h]))
    · have hbeq2 : (b.length == 1) = false := by simpa using hm1
      simp only [hbeq2, Bool.false_eq_true, if_false, hm1]
      match rows, h1, h2, hmem, hrne, k1 with
      | [], h1, _, _, _, _ => simp only [List.length_nil] at h1; omega
      | [] :: rs, _, _, _, hrne, _ => exact absurd rfl (hrne [] (by simp))
      | (c00 :: r0) :: rs, h1, h2, hmem, _, k1 =>
        simp only
        generalize hrows : (c00 :: r0) :: rs = rows at *
        have hc00 : c00 ∈ rows.flatten := by rw [← hrows]; simp
        rw [m1_drop_range]
        apply Ok.stepK (p := pow2Columns (mulOwn rows a.length b.length) (.enum .xaig) (List.range' 1 (a.length + b.length - 1))
            [[[c00]]])
          (m1_ok_pow2Columns (sa_resolve_enum .xaig)
            (fun i => if i + 3 = a.length + b.length ∨ i + 2 = a.length + b.length then 2 else 1) 1
            (List.range' 1 (a.length + b.length - 1)) [[[c00]]] 1 s1 P (K ++ rows.flatten) i1 k1
            (by simp) rfl
            (by intro o ho; simp only [List.mem_singleton] at ho; subst ho; exact ⟨c00, [], rfl, by intro c hc; cases hc⟩)
            (by
              intro l hl
              simp only [List.flatten_cons, List.flatten_nil, List.append_nil, List.mem_singleton] at hl
              subst hl; exact hmem _ hc00)
            (fun i _ l hl => hmem l (m1_mem_mulOwn h1 h2 hl))
            (by
              intro i hi
              have hi' := List.mem_range'_1.mp hi
              have e1 := m1_mulOwn_ne (rows := rows) (n := a.length) (m := b.length) (w := i) hn hm
              have e2 := m1_mulOwn_two (rows := rows) (n := a.length) (m := b.length) (w := i) (by omega) (by omega)
              by_cases c3 : i + 3 = a.length + b.length
              · have := e2 c3
                simp only [c3, true_or, if_true]; omega
              · by_cases c2 : i + 2 = a.length + b.length
                · have := e1 (by omega)
                  have e : i - 1 + 3 = a.length + b.length := by omega
                  simp only [c2, or_true, if_true, e, true_or]; omega
                · by_cases c1 : i + 1 = a.length + b.length
                  · have e : i - 1 + 2 = a.length + b.length := by omega
                    have ne3 : ¬ (i - 1 + 3 = a.length + b.length) := by omega
                    simp only [c3, c2, or_self, if_false, e, or_true, if_true]; omega
                  · have := e1 (by omega)
                    simp only [c3, c2, or_self, if_false]; omega)
            (by intro h; omega))
        intro out s2 i2 k2 ⟨o1, o2⟩
        refine (m1_ok_firstBits i2 k2 (fun l hl => List.mem_append_right _ hl) o2).mono ?_
        intro r s3 ⟨i3, k3, h3⟩
        refine ⟨i3, k3.mono (by intro l hl; kmem), ?_⟩
        dsimp only
        rw [h3, o1, List.length_range']; omega

/-- **`add_mul_pow2_m1` returns** on operands of at least one bit each that are gates of the circuit, either endianness -/
theorem m1_ok_addMulPow2M1 {a b : List Label} {be : Bool} {st : GSt} {P K : List Label} (hinv : Inv st P) (hk : Kn st K)
    (ha : ∀ l ∈ a, l ∈ K) (hb : ∀ l ∈ b, l ∈ K) (hna : a ≠ []) (hnb : b ≠ []) :
    Ok (addMulPow2M1 a b be) st (GPost P K id (fun r => r.length =
      if a.length = 1 then b.length else if b.length = 1 then a.length else a.length + b.length)) := by
  unfold addMulPow2M1
  apply Ok.stepK (m1_ok_mulPow2M1Core hinv hk (fun l hl => ha l (mem_revIf.mp hl)) (fun l hl => hb l (mem_revIf.mp hl))
    (m1_revIf_ne (be := be) hna) (m1_revIf_ne (be := be) hnb))
  intro r s1 i1 k1 h1
  refine Ok.ret ⟨i1, ?_, by simpa only [length_revIf_t] using h1⟩
  intro l hl
  simp only [id, List.mem_append, mem_revIf] at hl
  exact k1 l (by kmem)

/-! ## `add_square_pow2_m1` -/

/-- `for i in range(a, a + len): state = f(state, i)` with an invariant -/
theorem m1_ok_progFold_range' {σ : Type} {f : σ → Nat → Prog σ} (I : Nat → σ → GSt → Prop) :
    ∀ (len a : Nat) (s : σ) (st : GSt), I a s st →
    (∀ i s st, a ≤ i → i < a + len → I i s st → Ok (f s i) st (fun s' st' => I (i + 1) s' st')) →
    Ok (progFold (List.range' a len) s f) st (fun s' st' => I (a + len) s' st') := by
  intro len
  induction len with
  | zero => intro a s st h0 _; simp only [List.range'_zero, progFold]; exact Ok.ret h0
  | succ len ih =>
    intro a s st h0 hstep
    simp only [List.range'_succ, progFold]
    apply Ok.bind (hstep a s st (Nat.le_refl _) (by omega) h0)
    intro s1 st1 h1
    have := ih (a + 1) s1 st1 h1 (fun i s st hi1 hi2 hp => hstep i s st (by omega) (by omega) hp)
    rw [show a + (len + 1) = a + 1 + len by omega]; exact this

/-- an `n × n` matrix whose entries at the positions `S` are labels of `L` (the other entries may be placeholders) -/
structure m1_Mat (n : Nat) (c : List (List Label)) (L : List Label) (S : Nat → Nat → Prop) : Prop where
  len : c.length = n
  rows : ∀ r ∈ c, r.length = n
  ok : ∀ a b, S a b → entry c a b ∈ L

theorem m1_mat_step {n : Nat} {c : List (List Label)} {L : List Label} {S : Nat → Nat → Prop} {i j : Nat} (g : Label)
    (hm : m1_Mat n c L S) (hi : i < n) (hj : j < n) :
    m1_Mat n (c.set i ((c.getD i []).set j g)) (L ++ [g]) (fun a b => S a b ∨ (a = i ∧ b = j)) := by
  have hil : i < c.length := by rw [hm.len]; exact hi
  have hrl := getD_mem_len hm.rows hil
  refine ⟨by simp [hm.len], ?_, ?_⟩
  · intro r hr
    rcases List.mem_or_eq_of_mem_set hr with h1 | h1
    · exact hm.rows r h1
    · rw [h1, List.length_set, hrl]
  · intro a b hab
    rw [entry_set c i j g hil (by rw [hrl]; exact hj)]
    by_cases he : a = i ∧ b = j
    · rw [if_pos he]; simp
    · rw [if_neg he]
      rcases hab with h1 | h1
      · exact List.mem_append_left _ (hm.ok a b h1)
      · exact absurd h1 he

theorem m1_getD_mem {x : List Label} {i : Nat} (hi : i < x.length) : x.getD i PH ∈ x := by
  rw [List.getD_eq_getElem?_getD, List.getElem?_eq_getElem hi]
  exact List.getElem_mem _

/-- the upper triangle `c[i][j] = AND(x[i], x[j])`, `i < j`: every such entry is a gate afterwards -/
theorem m1_ok_triangle {x : List Label} {st : GSt} {P K : List Label} (hinv : Inv st P) (hk : Kn st K)
    (hx : ∀ l ∈ x, l ∈ K) :
    Ok (progFold (List.range x.length) (List.replicate x.length (List.replicate x.length PH)) (fun c i =>
      progFold ((List.range x.length).drop (i + 1)) c (fun c j => do
        let g ← emitTT (x.getD i PH) (x.getD j PH) t0001
        pure (c.set i ((c.getD i []).set j g))))) st
      (fun c st' => ∃ L, Inv st' P ∧ Kn st' (K ++ L) ∧ m1_Mat x.length c L (fun a b => a < b ∧ b < x.length)) := by
  rw [List.range_eq_range']
  refine (m1_ok_progFold_range'
    (I := fun i c st' => ∃ L, Inv st' P ∧ Kn st' (K ++ L) ∧ m1_Mat x.length c L (fun a b => a < b ∧ b < x.length ∧ a < i))
    x.length 0 _ st ⟨[], hinv, fun l hl => hk l (by kmem), by simp,
      by intro r hr; rw [List.eq_of_mem_replicate hr]; simp, by intro a b hab; omega⟩ ?_).mono ?_
  · intro i c1 st1 _ hi ⟨L1, i1, k1, hM⟩
    rw [← List.range_eq_range', m1_drop_range]
    simp only [Nat.zero_add] at hi
    refine (m1_ok_progFold_range'
      (I := fun j c st' => ∃ L, Inv st' P ∧ Kn st' (K ++ L) ∧
        m1_Mat x.length c L (fun a b => a < b ∧ b < x.length ∧ (a < i ∨ (a = i ∧ b < j))))
      (x.length - (i + 1)) (i + 1) c1 st1 ⟨L1, i1, k1, hM.len, hM.rows, fun a b hab => hM.ok a b ⟨hab.1, hab.2.1, by omega⟩⟩ ?_).mono ?_
    · intro j c3 st3 hj1 hj2 ⟨L3, i3, k3, hM3⟩
      have hjn : j < x.length := by omega
      apply Ok.stepK (okK_emitTT i3 k3 (by decide) (List.mem_append_left _ (hx _ (m1_getD_mem hi)))
        (List.mem_append_left _ (hx _ (m1_getD_mem hjn))))
      intro g st4 i4 k4 _
      have := m1_mat_step g hM3 hi hjn
      refine Ok.ret ⟨L3 ++ [g], i4, k4.mono (by intro l hl; kmem), this.len, this.rows, fun a b hab => this.ok a b ?_⟩
      by_cases he : a = i ∧ b = j
      · exact Or.inr he
      · exact Or.inl ⟨hab.1, hab.2.1, by omega⟩
    · intro c2 st2 ⟨L2, i2, k2, hM2⟩
      exact ⟨L2, i2, k2, hM2.len, hM2.rows, fun a b hab => hM2.ok a b ⟨hab.1, hab.2.1, by omega⟩⟩
  · intro c st' ⟨L, i', k', hM⟩
    exact ⟨L, i', k', hM.len, hM.rows, fun a b hab => hM.ok a b ⟨hab.1, hab.2, by omega⟩⟩

theorem m1_mem_sqOwn {c : List (List Label)} {n i : Nat} {K : List Label}
    (hE : ∀ a b, a ≤ b → b < n → entry c a b ∈ K) (hi : i < 2 * n) {l : Label} (h : l ∈ sqOwn c n i) : l ∈ K := by
  unfold sqOwn at h
  rcases List.mem_append.mp h with h | h
  · obtain ⟨j, hj, rfl⟩ := List.mem_map.mp h
    obtain ⟨hj1, hp⟩ := List.mem_filter.mp hj
    simp only [Bool.and_eq_true, decide_eq_true_eq] at hp
    have := List.mem_range.mp hj1
    exact hE j (i - j - 1) (by omega) hp.2
  · by_cases he : i % 2 = 0
    · simp only [he, beq_self_eq_true, if_true, List.mem_singleton] at h
      subst h
      exact hE (i / 2) (i / 2) (Nat.le_refl _) (by omega)
    · have : (i % 2 == 0) = false := by simpa using he
      simp only [this, Bool.false_eq_true, if_false] at h
      cases h

theorem m1_sqOwn_ne {c : List (List Label)} {n i : Nat} (hi : 2 ≤ i) (h : i + 2 ≤ 2 * n) : 1 ≤ (sqOwn c n i).length := by
  unfold sqOwn
  rw [List.length_append, List.length_map]
  by_cases he : i % 2 = 0
  · simp only [he, beq_self_eq_true, if_true, List.length_cons, List.length_nil]; omega
  · have := sa_length_pos_of_ne (m1_filter_range_ne (p := fun j => decide (j < n) && decide (i - j - 1 < n))
      (N := i / 2) (j := i / 2 - 1) (by omega) (by simp only [Bool.and_eq_true, decide_eq_true_eq]; omega))
    omega

theorem m1_sqOwn_two {c : List (List Label)} {n i : Nat} (hn : 2 ≤ n) (h : i + 2 = 2 * n) : 2 ≤ (sqOwn c n i).length := by
  unfold sqOwn
  rw [List.length_append, List.length_map]
  have he : i % 2 = 0 := by omega
  have := sa_length_pos_of_ne (m1_filter_range_ne (p := fun j => decide (j < n) && decide (i - j - 1 < n))
    (N := i / 2) (j := n - 2) (by omega) (by simp only [Bool.and_eq_true, decide_eq_true_eq]; omega))
  simp only [he, beq_self_eq_true, if_true, List.length_cons, List.length_nil]; omega

/-- **`add_square_pow2_m1` on a little-endian operand returns** (at least one bit, gates of the circuit).  The top
column `2n - 1` has no operand bit: it is fed by the carry of column `2n - 2`, which has two operand bits. -/
theorem m1_ok_squarePow2M1Core {x : List Label} {st : GSt} {P K : List Label} (hinv : Inv st P) (hk : Kn st K)
    (hx : ∀ l ∈ x, l ∈ K) (hne : x ≠ []) :
    Ok (squarePow2M1Core x) st (GPost P K id (fun r => r.length = if x.length = 1 then 1 else 2 * x.length)) := by
  unfold squarePow2M1Core
  split
  · exact absurd rfl hne
  · rename_i x0
    exact Ok.pure ⟨hinv, fun l hl => hk l (by simp only [id, List.mem_append] at hl; rcases hl with h | h; exact h; exact hx l h), rfl⟩
  · rename_i x0 xr hns
    have hn2 : 2 ≤ (x0 :: xr).length := by
      cases xr with
      | nil => first | exact (hns rfl).elim | exact (hns x0 rfl).elim
      | cons _ _ => simp
    have hx0 : x0 ∈ K := hx x0 (by simp)
    generalize hxe : x0 :: xr = x at *
    dsimp only
    apply Ok.bind (m1_ok_triangle hinv hk hx)
    intro c s1 ⟨L, i1, k1, hM⟩
    generalize hc' : c.zipIdx.map (fun (ri : List Label × Nat) => ri.1.set ri.2 (x.getD ri.2 PH)) = c' at *
    have hE : ∀ a b, a ≤ b → b < x.length → entry c' a b ∈ K ++ L := by
      intro a b hab hb
      rw [← hc', entry_diag x c hM.len hM.rows a b (by omega) hb]
      by_cases he : a = b
      · rw [if_pos he]; exact List.mem_append_left _ (hx _ (m1_getD_mem (by omega)))
      · rw [if_neg he]; exact List.mem_append_right _ (hM.ok a b ⟨by omega, hb⟩)
    apply Ok.stepK (okK_emitTT i1 k1 (by decide) (List.mem_append_left _ hx0) (List.mem_append_left _ hx0))
    intro zero s2 i2 k2 _
    rw [m1_drop_range]
    apply Ok.stepK (p := pow2Columns (sqOwn c' x.length) (.enum .xaig) (List.range' 2 (2 * x.length - 2))
        [[[x0]], [[zero]]])
      (m1_ok_pow2Columns (sa_resolve_enum .xaig) (fun i => if i + 2 = 2 * x.length then 2 else 1) 2
        (List.range' 2 (2 * x.length - 2)) [[[x0]], [[zero]]] 2 s2 P (K ++ L ++ [zero]) i2 k2
        (by simp) rfl
        (by
          intro o ho
          simp only [List.mem_cons, List.not_mem_nil, or_false] at ho
          rcases ho with rfl | rfl
          · exact ⟨x0, [], rfl, by intro c hc; cases hc⟩
          · exact ⟨zero, [], rfl, by intro c hc; cases hc⟩)
        (by
          intro l hl
          have hl' : l = x0 ∨ l = zero := by simpa using hl
          rcases hl' with h | h
          · subst h; kmem
          · subst h; kmem)
        (by
          intro i hi l hl
          have hi' := List.mem_range'_1.mp hi
          exact List.mem_append_left _ (m1_mem_sqOwn hE (by omega) hl))
        (by
          intro i hi
          have hi' := List.mem_range'_1.mp hi
          by_cases c2 : i + 2 = 2 * x.length
          · have := m1_sqOwn_two (c := c') (n := x.length) (i := i) hn2 c2
            simp only [c2, if_true]; omega
          · by_cases c1 : i + 1 = 2 * x.length
            · have e : i - 1 + 2 = 2 * x.length := by omega
              simp only [c2, if_false, e, if_true]; omega
            · have := m1_sqOwn_ne (c := c') (n := x.length) (i := i) (by omega) (by omega)
              simp only [c2, if_false]; omega)
        (by intro h; omega))
    intro out s3 i3 k3 ⟨o1, o2⟩
    refine (m1_ok_firstBits i3 k3 (fun l hl => List.mem_append_right _ hl) o2).mono ?_
    intro r s4 ⟨i4, k4, h4⟩
    refine ⟨i4, k4.mono (by intro l hl; kmem), ?_⟩
    dsimp only
    rw [h4, o1, List.length_range', if_neg (by omega)]; omega

/-- **`add_square_pow2_m1` returns** on an operand of at least one bit whose bits are gates of the circuit -/
theorem m1_ok_addSquarePow2M1 {x : List Label} {be : Bool} {st : GSt} {P K : List Label} (hinv : Inv st P) (hk : Kn st K)
    (hx : ∀ l ∈ x, l ∈ K) (hne : x ≠ []) :
    Ok (addSquarePow2M1 x be) st (GPost P K id (fun r => r.length = if x.length = 1 then 1 else 2 * x.length)) := by
  unfold addSquarePow2M1
  apply Ok.stepK (m1_ok_squarePow2M1Core hinv hk (fun l hl => hx l (mem_revIf.mp hl)) (m1_revIf_ne (be := be) hne))
  intro r s1 i1 k1 h1
  refine Ok.ret ⟨i1, ?_, by simpa only [length_revIf_t] using h1⟩
  intro l hl
  simp only [id, List.mem_append, mem_revIf] at hl
  exact k1 l (by kmem)

/-! ## `add_square` -/

/-- the contract of `add_mul_karatsuba` (proved in another part of the split), with whatever shape `S` it gives -/
def m1_HKaratsuba (S : List Label → List Label → List Label → Prop) : Prop :=
  ∀ (a b : List Label) (be : Bool) (st : GSt) (P K : List Label), Inv st P → Kn st K → (∀ l ∈ a, l ∈ K) →
    (∀ l ∈ b, l ∈ K) → a ≠ [] → b ≠ [] → Ok (addMulKaratsuba a b be) st (GPost P K id (S a b))

theorem m1_shift_ne {shift : Nat} {a b r : List Label} (hb : b ≠ [])
    (h1 : a.length ≤ shift → r.length = shift + b.length)
    (h2 : shift < a.length → r.length = max a.length (b.length + shift) + 1) : r ≠ [] := by
  intro e
  have := sa_length_pos_of_ne hb
  rw [e] at h1 h2
  simp only [List.length_nil] at h1 h2
  rcases Nat.lt_or_ge shift a.length with h | h
  · have := h2 h; omega
  · have := h1 h; omega

/-- the recursion of `add_square`: halves below the thresholds go to `add_square_pow2_m1`, the cross product to
`add_mul_karatsuba`; `fuel > width` is enough since every half is shorter -/
theorem m1_ok_squareCore {S : List Label → List Label → List Label → Prop} (hK : m1_HKaratsuba S)
    (hS : ∀ a b r, a ≠ [] → b ≠ [] → S a b r → r ≠ []) :
    ∀ (fuel : Nat) (x : List Label) (st : GSt) (P K : List Label), Inv st P → Kn st K → (∀ l ∈ x, l ∈ K) → x ≠ [] →
    x.length < fuel → Ok (squareCore fuel x) st (GPost P K id (fun r => r ≠ [])) := by
  intro fuel
  induction fuel with
  | zero => intro x st P K _ _ _ _ hf; omega
  | succ f ih =>
    intro x st P K hinv hk hx hne hf
    have hpos := sa_length_pos_of_ne hne
    unfold squareCore
    dsimp only
    split
    · refine (m1_ok_squarePow2M1Core hinv hk hx hne).mono ?_
      intro r s1 ⟨i1, k1, h1⟩
      refine ⟨i1, k1, ?_⟩
      intro e
      rw [e] at h1
      simp only [List.length_nil] at h1
      split at h1 <;> omega
    · rename_i hc
      have hn : 48 ≤ x.length := by
        simp only [Bool.or_eq_true, decide_eq_true_eq, beq_iff_eq, not_or] at hc
        omega
      have hat : ∀ l ∈ x.take (x.length / 2), l ∈ K := fun l hl => hx l (List.mem_of_mem_take hl)
      have hbt : ∀ l ∈ x.drop (x.length / 2), l ∈ K := fun l hl => hx l (List.mem_of_mem_drop hl)
      have hal : (x.take (x.length / 2)).length = x.length / 2 := by rw [List.length_take]; omega
      have hbl : (x.drop (x.length / 2)).length = x.length - x.length / 2 := List.length_drop
      have hane : x.take (x.length / 2) ≠ [] := sa_ne_of_length_pos (by omega)
      have hbne : x.drop (x.length / 2) ≠ [] := sa_ne_of_length_pos (by omega)
      apply Ok.stepK (ih _ st P K hinv hk hat hane (by omega)); intro aa s1 i1 k1 haa
      simp only [id] at k1
      apply Ok.stepK (ih _ s1 P _ i1 k1 (fun l hl => List.mem_append_left _ (hbt l hl)) hbne (by omega)); intro bb s2 i2 k2 hbb
      simp only [id] at k2
      apply Ok.stepK (hK _ _ false s2 P _ i2 k2 (fun l hl => by have := hat l hl; kmem) (fun l hl => by have := hbt l hl; kmem)
        hane hbne)
      intro ab s3 i3 k3 hab
      simp only [id] at k3
      have habne := hS _ _ _ hane hbne hab
      apply Ok.stepK (ok_addSumTwoNumbersWithShift (shift := x.length / 2 + 1) (be := false) i3 k3 (a := aa) (b := ab)
        (by intro l hl; kmem) (by intro l hl; kmem) (fun _ => haa) (fun _ => habne))
      intro res s4 i4 k4 ⟨c1, c2⟩
      simp only [id] at k4
      have hres := m1_shift_ne habne c1 c2
      apply Ok.stepK (ok_addSumTwoNumbersWithShift (shift := 2 * (x.length / 2)) (be := false) i4 k4 (a := res) (b := bb)
        (by intro l hl; kmem) (by intro l hl; kmem) (fun _ => hres) (fun _ => hbb))
      intro fin s5 i5 k5 ⟨d1, d2⟩
      simp only [id] at k5
      have hfin := m1_shift_ne hbb d1 d2
      refine Ok.ret ⟨i5, ?_, ?_⟩
      · intro l hl
        simp only [id, List.mem_append] at hl
        rcases hl with h | h
        · exact k5 l (by kmem)
        · have := List.mem_of_mem_take h
          exact k5 l (by kmem)
      · intro e
        rcases List.take_eq_nil_iff.mp e with h | h
        · omega
        · exact hfin h

/-- **`add_square` returns** on an operand of at least one bit whose bits are gates of the circuit, given the contract
of `add_mul_karatsuba` -/
theorem m1_ok_addSquare {S : List Label → List Label → List Label → Prop} (hK : m1_HKaratsuba S)
    (hS : ∀ a b r, a ≠ [] → b ≠ [] → S a b r → r ≠ []) {x : List Label} {be : Bool} {st : GSt} {P K : List Label}
    (hinv : Inv st P) (hk : Kn st K) (hx : ∀ l ∈ x, l ∈ K) (hne : x ≠ []) :
    Ok (addSquare x be) st (GPost P K id (fun r => r ≠ [])) := by
  unfold addSquare
  apply Ok.stepK (m1_ok_squareCore hK hS (x.length + 1) (revIf x be) st P K hinv hk (fun l hl => hx l (mem_revIf.mp hl))
    (m1_revIf_ne hne) (by rw [length_revIf_t]; omega))
  intro r s1 i1 k1 h1
  refine Ok.ret ⟨i1, ?_, m1_revIf_ne h1⟩
  intro l hl
  simp only [id, List.mem_append, mem_revIf] at hl
  exact k1 l (by kmem)

end Cirbo
